/-
  C11 — round 7 extensions: first-occurrence reading of toggles, unmapped properties add nothing under
  arbitrary other mappings, adjacent runs are wrapped one by one.
-/
import Proofs.C11_Lemmas
namespace Mammoth

/-- no child ELEMENT of the list has that name (text nodes never count) -/
def c11e_noChild (name : Str) : List XmlNode → Bool
  | [] => true
  | .elem n _ _ :: rest => !(n == name) && c11e_noChild name rest
  | .text _ :: rest => c11e_noChild name rest

theorem c11e_findChild_first (name : Str) (pre : List XmlNode) (as : Attrs) (cs rest : List XmlNode)
    (h : c11e_noChild name pre = true) :
    findChild name (pre ++ .elem name as cs :: rest) = some (as, cs) := by
  induction pre with
  | nil => simp [findChild]
  | cons p pre ih =>
    cases p with
    | text s => simpa [findChild, c11e_noChild] using ih (by simpa [c11e_noChild] using h)
    | elem n a c =>
      simp only [c11e_noChild, Bool.and_eq_true, Bool.not_eq_true'] at h
      simp only [List.cons_append, findChild, h.1, Bool.false_eq_true, if_false]
      exact ih h.2

theorem c11e_findChild_none (name : Str) (props : List XmlNode) (h : c11e_noChild name props = true) :
    findChild name props = none := by
  induction props with
  | nil => rfl
  | cons p props ih =>
    cases p with
    | text s => simpa [findChild, c11e_noChild] using ih (by simpa [c11e_noChild] using h)
    | elem n a c =>
      simp only [c11e_noChild, Bool.and_eq_true, Bool.not_eq_true'] at h
      simp only [findChild, h.1, Bool.false_eq_true, if_false]
      exact ih h.2

/-- the run properties with underline, all caps, small caps and highlight cleared -/
def c11e_clear (r : RunProps) : RunProps :=
  { r with underline := false, allCaps := false, smallCaps := false, highlight := none }

theorem c11e_propPath_unmapped (cfg : Cfg) (t : Target) (h : findStyle cfg.upper cfg.styleMap t = none) :
    propPath cfg t none = .elements [] := by
  simp [propPath, findPath, h]

theorem c11e_any_if1 (b : Bool) (p : HtmlPath) :
    (if b = true then [p] else []).any HtmlPath.isIgnore = (b && p.isIgnore) := by
  cases b <;> simp

theorem c11e_unmapped (cfg : Cfg) (r : RunProps)
    (hu : findStyle cfg.upper cfg.styleMap .underline = none)
    (hc : findStyle cfg.upper cfg.styleMap .allCaps = none)
    (hsc : findStyle cfg.upper cfg.styleMap .smallCaps = none)
    (hh : c11_highlightSpec cfg r.highlight = []) :
    ∀ ns, wrapAll (runPropPaths cfg r) ns = wrapAll (runPropPaths cfg (c11e_clear r)) ns := by
  obtain ⟨sid, sn, b, i, u, s, ac, sc, va, hl⟩ := r
  have hfp : ∀ c, hl = some c → findPath cfg (.highlight c) = none := by
    intro c hc'
    subst hc'
    cases hf : findStyle cfg.upper cfg.styleMap (.highlight c) with
    | none => simp [findPath, hf]
    | some s => simp [c11_highlightSpec, hf] at hh
  cases hl with
  | none =>
    simp only [runPropPaths, c11e_clear, c11e_propPath_unmapped cfg _ hu, c11e_propPath_unmapped cfg _ hc,
      c11e_propPath_unmapped cfg _ hsc]
    intro ns
    simp only [c03_wrapAll_append, c11_wrapAll_if_empty, Bool.false_eq_true, if_false, wrapAll]
    rfl
  | some c =>
    have hfp := hfp c rfl
    simp only [runPropPaths, c11e_clear, c11e_propPath_unmapped cfg _ hu, c11e_propPath_unmapped cfg _ hc,
      c11e_propPath_unmapped cfg _ hsc, hfp]
    intro ns
    simp only [c03_wrapAll_append, c11_wrapAll_if_empty, Bool.false_eq_true, if_false, wrapAll]
    rfl

/-! adjacent runs -/

theorem c11e_wrapAll_ignored (ps : List HtmlPath) (ns : List Node) (h : ps.any HtmlPath.isIgnore = true) :
    wrapAll ps ns = wrapAll ps [] := by
  induction ps generalizing ns with
  | nil => simp at h
  | cons p ps ih =>
    cases p with
    | ignore => rfl
    | elements es =>
      have h' : ps.any HtmlPath.isIgnore = true := by simpa [HtmlPath.isIgnore] using h
      simp only [wrapAll]
      rw [ih _ h', ih (wrapElems es []) h']

/-- all paths of a run, innermost first: the formatting paths, then the run-style path -/
def c11e_allPaths (cfg : Cfg) (r : RunProps) : List HtmlPath :=
  runPropPaths cfg r ++ [(findPath cfg (.run r.styleId r.styleName)).getD (.elements [])]

/-- the nodes of ONE run with text `s`: that text inside the run's own paths -/
def c11e_runNodes (cfg : Cfg) (p : RunProps × Str) : List Node :=
  wrapAll (c11e_allPaths cfg p.1) [.text p.2]

def c11e_runWarn (cfg : Cfg) (st : ConvState) (p : RunProps × Str) : ConvState :=
  c03_warnState cfg (.run p.1.styleId p.1.styleName) S!"run" p.1.styleId p.1.styleName st

theorem c11e_visit_textRun (cfg : Cfg) (hdr : Bool) (p : RunProps × Str) (st : ConvState) :
    (visit cfg hdr (.run p.1 [.text p.2])).run st = .ok (c11e_runNodes cfg p, c11e_runWarn cfg st p) := by
  rw [visit, c03_bind_run, c03_findPathWarn_run]
  simp only []
  by_cases h : (c11e_allPaths cfg p.1).any HtmlPath.isIgnore = true
  · have h2 := h
    unfold c11e_allPaths at h2
    simp only [h2, if_true]
    rw [c11e_runNodes, c11e_wrapAll_ignored _ _ h]
    rfl
  · have h2 := h
    unfold c11e_allPaths at h2
    simp only [h2]
    rfl

theorem c11e_visit_textRuns (cfg : Cfg) (hdr : Bool) (rs : List (RunProps × Str)) (st : ConvState) :
    (visitAll cfg hdr (rs.map fun p => Elem.run p.1 [.text p.2])).run st =
      .ok (rs.flatMap (c11e_runNodes cfg), rs.foldl (c11e_runWarn cfg) st) := by
  induction rs generalizing st with
  | nil => rfl
  | cons p rs ih =>
    simp only [List.map_cons, visitAll, c03_bind_run, c11e_visit_textRun, ih, List.flatMap_cons, List.foldl_cons]
    rfl

end Mammoth
