/-
  C04 — which siblings merge: the sequence of top-level nodes of `collapse ns`, computed from `ns` alone by a
  left-to-right scan (`mergeScan`), and the `iff` for one more sibling (`collapse (xs ++ [n])`).
-/
import Proofs.Stable
namespace Mammoth

/-- the tag of the last node if it is an element -/
def lastTag (acc : List Node) : Option Tag :=
  match acc.getLast? with
  | some (.elem t _) => some t
  | _ => none

/-- THE RULE: an element with tag `t` is merged into the element before it, whose tag is `cur` — it is not
    `:fresh`, the earlier name is among its names, the attributes are identical -/
def mergesInto (cur : Option Tag) (t : Tag) : Bool :=
  match cur with
  | some lt => t.collapsible && isMatch lt t
  | none => false

theorem mergesInto_iff (cur : Option Tag) (t : Tag) :
    mergesInto cur t = true ↔
      ∃ lt, cur = some lt ∧ t.collapsible = true ∧ lt.name ∈ t.names ∧ lt.attrs = t.attrs := by
  cases cur with
  | none => simp [mergesInto]
  | some lt => simp [mergesInto, isMatch]

/-- the top-level nodes of a forest: `some tag` for an element, `none` for a text node or marker -/
def topShape : List Node → List (Option Tag)
  | [] => []
  | .elem t _ :: rest => some t :: topShape rest
  | _ :: rest => none :: topShape rest

/-- SPEC, by a scan over the INPUT siblings: `cur` is the tag of the element a following element would be
    merged into (`none` after a text node / marker or at the start).  A merged element contributes no new
    top-level node and leaves `cur` unchanged (the earlier tag is kept). -/
def mergeScan (cur : Option Tag) : List Node → List (Option Tag)
  | [] => []
  | .elem t _ :: rest =>
    if mergesInto cur t then mergeScan cur rest else some t :: mergeScan (some t) rest
  | _ :: rest => none :: mergeScan none rest

theorem topShape_append (a b : List Node) : topShape (a ++ b) = topShape a ++ topShape b := by
  induction a with
  | nil => simp [topShape]
  | cons x xs ih => cases x <;> simp [topShape, ih]

theorem lastTag_append_elem (xs : List Node) (t : Tag) (cs : List Node) :
    lastTag (xs ++ [.elem t cs]) = some t := by simp [lastTag]
theorem lastTag_append_text (xs : List Node) (s : Str) : lastTag (xs ++ [.text s]) = none := by simp [lastTag]
theorem lastTag_append_fw (xs : List Node) : lastTag (xs ++ [.forceWrite]) = none := by simp [lastTag]

/-- a merging element: same top-level nodes, same last tag; the last element receives the children -/
theorem addC_merges (acc : List Node) (t : Tag) (cs : List Node) (h : mergesInto (lastTag acc) t = true) :
    ∃ lt lcs, acc.getLast? = some (.elem lt lcs) ∧
      addC acc (.elem t cs) = acc.dropLast ++ [.elem lt (addAllC (lcs ++ sepText t) cs)] ∧
      topShape (addC acc (.elem t cs)) = topShape acc ∧ lastTag (addC acc (.elem t cs)) = lastTag acc ∧
      (addC acc (.elem t cs)).length = acc.length := by
  unfold lastTag at h
  cases hl : acc.getLast? with
  | none => simp [hl, mergesInto] at h
  | some l =>
    cases l with
    | text s => simp [hl, mergesInto] at h
    | forceWrite => simp [hl, mergesInto] at h
    | elem lt lcs =>
      simp only [hl, mergesInto, Bool.and_eq_true] at h
      have hacc := getLast?_eq_some_append acc _ hl
      have e := addC_elem_merge acc t lt cs lcs hl h.1 h.2
      refine ⟨lt, lcs, rfl, e, ?_, ?_, ?_⟩
      · rw [e]; conv => rhs; rw [hacc]
        simp [topShape_append, topShape]
      · rw [e, lastTag_append_elem]; simp [lastTag, hl]
      · rw [e]; conv => rhs; rw [hacc]
        simp

/-- a non-merging element is appended unchanged -/
theorem addC_not_merges (acc : List Node) (t : Tag) (cs : List Node) (h : mergesInto (lastTag acc) t = false) :
    addC acc (.elem t cs) = acc ++ [.elem t cs] := by
  unfold lastTag at h
  cases hl : acc.getLast? with
  | none => exact addC_elem_nomerge_last acc t cs (by simp [hl])
  | some l =>
    cases l with
    | text s => exact addC_elem_nomerge_last acc t cs (by simp [hl])
    | forceWrite => exact addC_elem_nomerge_last acc t cs (by simp [hl])
    | elem lt lcs =>
      simp only [hl, mergesInto] at h
      exact addC_elem_nomerge_cond acc t lt cs lcs hl h

theorem topShape_collapseFrom (acc ns : List Node) :
    topShape (collapseFrom acc ns) = topShape acc ++ mergeScan (lastTag acc) ns := by
  induction ns generalizing acc with
  | nil => simp [collapseFrom, mergeScan]
  | cons c cs ih =>
    unfold collapseFrom
    rw [ih]
    cases c with
    | text s =>
      simp [collapseNode, addC_text, lastTag_append_text, topShape_append, topShape, mergeScan]
    | forceWrite =>
      simp [collapseNode, addC_fw, lastTag_append_fw, topShape_append, topShape, mergeScan]
    | elem t cs' =>
      simp only [collapseNode, mergeScan]
      by_cases h : mergesInto (lastTag acc) t = true
      · obtain ⟨_, _, _, _, h1, h2, _⟩ := addC_merges acc t (collapseFrom [] cs') h
        rw [h1, h2]; simp [h]
      · simp only [Bool.not_eq_true] at h
        rw [addC_not_merges acc t _ h, lastTag_append_elem, topShape_append]
        simp [h, topShape]

theorem topShape_collapse (ns : List Node) : topShape (collapse ns) = mergeScan none ns := by
  have := topShape_collapseFrom [] ns
  simpa [collapse, topShape, lastTag] using this

/-- the last tag of the output, computed by the same scan on the input -/
def scanLast (cur : Option Tag) : List Node → Option Tag
  | [] => cur
  | .elem t _ :: rest => if mergesInto cur t then scanLast cur rest else scanLast (some t) rest
  | _ :: rest => scanLast none rest

theorem lastTag_collapseFrom (acc ns : List Node) :
    lastTag (collapseFrom acc ns) = scanLast (lastTag acc) ns := by
  induction ns generalizing acc with
  | nil => simp [collapseFrom, scanLast]
  | cons c cs ih =>
    unfold collapseFrom
    rw [ih]
    cases c with
    | text s => simp [collapseNode, addC_text, lastTag_append_text, scanLast]
    | forceWrite => simp [collapseNode, addC_fw, lastTag_append_fw, scanLast]
    | elem t cs' =>
      simp only [collapseNode, scanLast]
      by_cases h : mergesInto (lastTag acc) t = true
      · obtain ⟨_, _, _, _, _, h2, _⟩ := addC_merges acc t (collapseFrom [] cs') h
        rw [h2]; simp [h]
      · simp only [Bool.not_eq_true] at h
        rw [addC_not_merges acc t _ h, lastTag_append_elem]
        simp [h]

theorem lastTag_collapse (ns : List Node) : lastTag (collapse ns) = scanLast none ns := by
  have := lastTag_collapseFrom [] ns
  simpa [collapse, lastTag] using this

end Mammoth
