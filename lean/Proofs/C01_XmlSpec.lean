/-
  C01, reader half — the specification.

  `c01_xmlLive` says, by recursion on the XML tree (element names, never handler names, no reader state,
  no fuel), which *live leaves* a piece of `word/document.xml` carries and in which order:

    * `w:t` → its inner text; `w:tab` → a tab; `w:noBreakHyphen` → U+2011; `w:softHyphen` → U+00AD;
      `w:sym` → the dingbat character if font and code are in the table;
      `w:footnoteReference` / `w:endnoteReference` / `w:commentReference` → the reference marker;
    * read-through containers (`w:r`, `w:ins`, `w:smartTag`, `w:hyperlink`, `w:tbl`, `w:tr`, `w:tc`,
      `w:object`, `w:drawing`, the VML shapes, `w:txbxContent`) → their children, in order;
      `mc:AlternateContent` → the children of its first `mc:Fallback`;
      `w:sdt` → the children of its first `w:sdtContent` (nothing for a check-box control);
    * `w:pict` (text boxes) → nothing in line; its content goes to the *extra* channel;
    * `w:p` → its in-line leaves followed by the extra leaves of its content (text boxes come after
      their host paragraph);
    * everything else (`w:del`, `w:instrText`, `w:fldChar`, `w:pPr`, …, unknown elements, text nodes
      outside `w:t`) → nothing.

  `c01_elemLeaves` reads the same kind of leaves off a document tree (`Elem`), in order.
  Images, breaks, bookmarks and check boxes are not leaves (they carry no text).
-/
import MammothModel.Reader
namespace Mammoth

/-- a piece of live text content -/
inductive c01_Leaf where
  | text (s : Str)
  | tab
  | noteRef (ty id : Str)
  | commentRef (id : Str)
deriving DecidableEq, Repr, Inhabited

/-- leaves in line, and leaves waiting to be placed after the enclosing paragraph (text boxes) -/
structure c01_Live where
  inline : List c01_Leaf := []
  extra : List c01_Leaf := []
deriving DecidableEq, Repr, Inhabited

def c01_Live.append (a b : c01_Live) : c01_Live := ⟨a.inline ++ b.inline, a.extra ++ b.extra⟩

/-- what an element name means for the text -/
inductive c01_Kind where
  | skip | text | tab | noBreakHyphen | softHyphen | sym
  | noteRef (ty : Str) | commentRef
  | through | paragraph | pict | alt | sdt
deriving DecidableEq, Repr, Inhabited

def c01_kinds : List (Str × c01_Kind) := [
  (S!"w:t", .text), (S!"w:tab", .tab), (S!"w:noBreakHyphen", .noBreakHyphen), (S!"w:softHyphen", .softHyphen),
  (S!"w:sym", .sym),
  (S!"w:footnoteReference", .noteRef S!"footnote"), (S!"w:endnoteReference", .noteRef S!"endnote"),
  (S!"w:commentReference", .commentRef),
  (S!"w:p", .paragraph), (S!"w:pict", .pict), (S!"mc:AlternateContent", .alt), (S!"w:sdt", .sdt),
  (S!"w:r", .through), (S!"w:ins", .through), (S!"w:smartTag", .through), (S!"w:hyperlink", .through),
  (S!"w:tbl", .through), (S!"w:tr", .through), (S!"w:tc", .through),
  (S!"w:object", .through), (S!"w:drawing", .through), (S!"v:group", .through), (S!"v:rect", .through),
  (S!"v:roundrect", .through), (S!"v:shape", .through), (S!"v:textbox", .through), (S!"w:txbxContent", .through)]

def c01_kindIn : List (Str × c01_Kind) → Str → c01_Kind
  | [], _ => .skip
  | (k, v) :: rest, name => if name = k then v else c01_kindIn rest name

/-- every name that is not listed is skipped -/
def c01_kindOf (name : Str) : c01_Kind := c01_kindIn c01_kinds name

/-- `w:sym`: the character for (font, code) in the dingbat table; a code `F0xy` also counts as `xy` -/
def c01_symLeaf (as : Attrs) : List c01_Leaf :=
  match attr? S!"w:char" as with
  | none => []
  | some ch =>
    let look (digits : Str) : Option Nat := (parseHex digits).bind (dingbat (attr? S!"w:font" as))
    let alt : Option Nat :=
      match ch with
      | 'F' :: '0' :: a :: b :: _ => if a = '\n' ∨ b = '\n' then none else look (ch.drop 2)
      | _ => none
    match (look ch).orElse (fun _ => alt) with
    | some c => [.text [Char.ofNat c]]
    | none => []

/-- a structured-document tag that is a check-box control -/
def c01_isCheckboxSdt (cs : List XmlNode) : Bool :=
  (findChild S!"wordml:checkbox" (findChildOrNull S!"w:sdtPr" cs).2).isSome

mutual
def c01_xmlLive : XmlNode → c01_Live
  | .text _ => {}
  | .elem name as cs =>
    match c01_kindOf name with
    | .skip => {}
    | .text => ⟨[.text (innerTextL cs)], []⟩
    | .tab => ⟨[.tab], []⟩
    | .noBreakHyphen => ⟨[.text [Char.ofNat 0x2011]], []⟩
    | .softHyphen => ⟨[.text [Char.ofNat 0xAD]], []⟩
    | .sym => ⟨c01_symLeaf as, []⟩
    | .noteRef ty => (match attr? S!"w:id" as with | some id => ⟨[.noteRef ty id], []⟩ | none => {})
    | .commentRef => (match attr? S!"w:id" as with | some id => ⟨[.commentRef id], []⟩ | none => {})
    | .through => c01_xmlLiveL cs
    | .paragraph => ⟨(c01_xmlLiveL cs).inline ++ (c01_xmlLiveL cs).extra, []⟩
    | .pict => ⟨[], (c01_xmlLiveL cs).extra ++ (c01_xmlLiveL cs).inline⟩
    | .alt => c01_xmlLiveIn S!"mc:Fallback" cs
    | .sdt => if c01_isCheckboxSdt cs then {} else c01_xmlLiveIn S!"w:sdtContent" cs
def c01_xmlLiveL : List XmlNode → c01_Live
  | [] => {}
  | c :: cs => (c01_xmlLive c).append (c01_xmlLiveL cs)
/-- the content of the first child element called `child` -/
def c01_xmlLiveIn (child : Str) : List XmlNode → c01_Live
  | [] => {}
  | .text _ :: rest => c01_xmlLiveIn child rest
  | .elem n _ cs :: rest => if n = child then c01_xmlLiveL cs else c01_xmlLiveIn child rest
end

mutual
/-- the leaves of a document element, in order -/
def c01_elemLeaves : Elem → List c01_Leaf
  | .text s => [.text s]
  | .tab => [.tab]
  | .noteRef ty id => [.noteRef ty id]
  | .commentRef id => [.commentRef id]
  | .paragraph _ cs => c01_elemLeavesL cs
  | .run _ cs => c01_elemLeavesL cs
  | .hyperlink _ cs => c01_elemLeavesL cs
  | .table _ _ cs => c01_elemLeavesL cs
  | .row _ cs => c01_elemLeavesL cs
  | .cell _ _ _ cs => c01_elemLeavesL cs
  | .checkbox _ => []
  | .brk _ => []
  | .image _ => []
  | .bookmark _ => []
def c01_elemLeavesL : List Elem → List c01_Leaf
  | [] => []
  | e :: es => c01_elemLeaves e ++ c01_elemLeavesL es
end

/-- the characters of a leaf: reference markers have none of their own (the converter numbers them) -/
def c01_leafText : c01_Leaf → Str
  | .text s => s
  | .tab => ['\t']
  | .noteRef _ _ => []
  | .commentRef _ => []

def c01_leavesText : List c01_Leaf → Str
  | [] => []
  | l :: ls => c01_leafText l ++ c01_leavesText ls

/-! ### basic equations -/

@[simp] theorem c01_Live_append_empty_left (l : c01_Live) : c01_Live.append {} l = l := by
  cases l; simp [c01_Live.append]
@[simp] theorem c01_Live_append_empty_right (l : c01_Live) : c01_Live.append l {} = l := by
  cases l; simp [c01_Live.append]
theorem c01_Live_append_assoc (a b c : c01_Live) : (a.append b).append c = a.append (b.append c) := by
  simp [c01_Live.append, List.append_assoc]
@[simp] theorem c01_Live_append_inline (a b : c01_Live) : (a.append b).inline = a.inline ++ b.inline := rfl
@[simp] theorem c01_Live_append_extra (a b : c01_Live) : (a.append b).extra = a.extra ++ b.extra := rfl

@[simp] theorem c01_xmlLiveL_nil : c01_xmlLiveL [] = {} := by simp [c01_xmlLiveL]
@[simp] theorem c01_xmlLiveL_cons (c : XmlNode) (cs : List XmlNode) :
    c01_xmlLiveL (c :: cs) = (c01_xmlLive c).append (c01_xmlLiveL cs) := by simp [c01_xmlLiveL]
@[simp] theorem c01_xmlLive_text (s : Str) : c01_xmlLive (.text s) = {} := by simp [c01_xmlLive]

theorem c01_xmlLiveL_append (a b : List XmlNode) :
    c01_xmlLiveL (a ++ b) = (c01_xmlLiveL a).append (c01_xmlLiveL b) := by
  induction a with
  | nil => simp
  | cons x xs ih => simp [ih, c01_Live_append_assoc]

/-- `c01_xmlLiveIn child cs` is the content of `cs.find_child_or_null(child)` -/
theorem c01_xmlLiveIn_eq (child : Str) (cs : List XmlNode) :
    c01_xmlLiveIn child cs = c01_xmlLiveL (findChildOrNull child cs).2 := by
  unfold findChildOrNull
  induction cs with
  | nil => simp [c01_xmlLiveIn, findChild]
  | cons c cs ih =>
    cases c with
    | text s => simp only [c01_xmlLiveIn, findChild]; exact ih
    | elem n as ccs =>
      simp only [c01_xmlLiveIn, findChild]
      by_cases hn : n = child
      · simp [hn]
      · have : (n == child) = false := by simpa using hn
        simp only [hn, if_false, this]; exact ih

@[simp] theorem c01_elemLeavesL_nil : c01_elemLeavesL [] = [] := by simp [c01_elemLeavesL]
@[simp] theorem c01_elemLeavesL_cons (e : Elem) (es : List Elem) :
    c01_elemLeavesL (e :: es) = c01_elemLeaves e ++ c01_elemLeavesL es := by simp [c01_elemLeavesL]

theorem c01_elemLeavesL_append (a b : List Elem) :
    c01_elemLeavesL (a ++ b) = c01_elemLeavesL a ++ c01_elemLeavesL b := by
  induction a with
  | nil => simp
  | cons x xs ih => simp [ih, List.append_assoc]

theorem c01_leavesText_append (a b : List c01_Leaf) :
    c01_leavesText (a ++ b) = c01_leavesText a ++ c01_leavesText b := by
  induction a with
  | nil => simp [c01_leavesText]
  | cons x xs ih => simp [c01_leavesText, ih, List.append_assoc]

end Mammoth

