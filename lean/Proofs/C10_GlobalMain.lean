/-
  C10, global part 8: the assembled statements about `convertDoc`.
-/
import Proofs.C10_GlobalExact
import Proofs.C10_GlobalPost
import Proofs.C10_GlobalLabels
namespace Mammoth

/-- the events of the output of `convertDoc cfg d` -/
def c10_outEvents (cfg : Cfg) (d : Document) : List c10_Ev := c10_docEvents (c10_docCfg cfg d) d

theorem c10_evIds_docCfg (cfg : Cfg) (d : Document) (evs : List c10_Ev) :
    c10_evIds (c10_docCfg cfg d) evs = c10_evIds cfg evs := rfl
theorem c10_evHrefs_docCfg (cfg : Cfg) (d : Document) (evs : List c10_Ev) :
    c10_evHrefs (c10_docCfg cfg d) evs = c10_evHrefs cfg evs := rfl

theorem c10_noteAnchors_docCfg (cfg : Cfg) (d : Document) (refs : List (Str × Str)) (n : Nat) :
    c10_noteAnchors (c10_docCfg cfg d) n refs = c10_noteAnchors cfg n refs := by
  induction refs generalizing n with
  | nil => rfl
  | cons r rs ih => obtain ⟨ty, id⟩ := r; simp only [c10_noteAnchors, ih]; rfl

theorem c10_DocOK_of_convert (cfg : Cfg) (hc : c10_cleanCfg cfg = true) (d : Document) (r : ConvResult)
    (h : convertDoc cfg d = .ok r) : c10_DocOK (c10_docCfg cfg d) d := by
  obtain ⟨_, _, _, _, _, hn, hf, _⟩ := c10_convertDoc_events cfg hc d r h
  exact ⟨c10_resolve_all d.notes _ _ hn, hf⟩

/-- (2) -/
theorem c10_all_ids_prefixed (cfg : Cfg) (hc : c10_cleanCfg cfg = true) (d : Document) (r : ConvResult)
    (h : convertDoc cfg d = .ok r) : ∀ x ∈ idsOf r.nodes, cfg.idPrefix <+: x := by
  rw [(c10_convertDoc_events cfg hc d r h).1]
  exact c10_evIds_prefixed cfg _

/-- (3) -/
theorem c10_all_hrefs_resolve (cfg : Cfg) (hc : c10_cleanCfg cfg = true) (d : Document) (r : ConvResult)
    (h : convertDoc cfg d = .ok r) (hcl : c10_refsClosed (c10_docCfg cfg d) d = true) :
    (∀ ev ∈ c10_outEvents cfg d, c10_isLink ev = false → ∀ hr ∈ c10_evHref cfg ev,
        ∃ x, hr = '#' :: x ∧ x ∈ idsOf r.nodes) ∧
    (∀ hr ∈ hrefsOf r.nodes,
        (∃ l, c10_Ev.link l ∈ c10_outEvents cfg d ∧ hr = c10_linkHref cfg l) ∨
        ∃ x, hr = '#' :: x ∧ x ∈ idsOf r.nodes) := by
  have ok := c10_DocOK_of_convert cfg hc d r h
  obtain ⟨e1, e2, _⟩ := c10_convertDoc_events cfg hc d r h
  have key : ∀ ev ∈ c10_outEvents cfg d, c10_isLink ev = false → ∀ hr ∈ c10_evHref cfg ev,
      ∃ x, hr = '#' :: x ∧ x ∈ idsOf r.nodes := by
    intro ev hev hl hr hhr
    rw [e1]
    exact c10_hrefs_resolve (c10_docCfg cfg d) d ok hcl ev hev hl hr hhr
  refine ⟨key, ?_⟩
  intro hr hhr
  rw [e2] at hhr
  obtain ⟨ev, hev, hm⟩ := List.mem_flatMap.mp hhr
  cases hl : c10_isLink ev with
  | false => exact Or.inr (key ev hev hl hr hm)
  | true =>
    cases ev with
    | link l => exact Or.inl ⟨l, hev, by simpa [c10_evHref] using hm⟩
    | bookmark _ => simp [c10_isLink] at hl
    | noteRef _ _ => simp [c10_isLink] at hl
    | commentRef _ => simp [c10_isLink] at hl
    | item _ _ => simp [c10_isLink] at hl
    | back _ _ => simp [c10_isLink] at hl

/-- back-links resolve whatever the bodies contain -/
theorem c10_all_backlinks_resolve (cfg : Cfg) (hc : c10_cleanCfg cfg = true) (d : Document) (r : ConvResult)
    (h : convertDoc cfg d = .ok r) (ty id : Str) (hev : c10_Ev.back ty id ∈ c10_outEvents cfg d) :
    referenceId cfg ty id ∈ idsOf r.nodes := by
  rw [(c10_convertDoc_events cfg hc d r h).1]
  exact c10_backlinks_resolve (c10_docCfg cfg d) d (c10_DocOK_of_convert cfg hc d r h) ty id hev

/-- the suffixes the converter generates itself (reference ids `type-ref-id`, referent ids `type-id`) -/
def c10_generated (evs : List c10_Ev) : List Str :=
  (c10_evKeys evs).map c10_refSfx ++ (c10_evItems evs).map c10_itemSfx

/-- (3b) -/
theorem c10_internal_link_iff (cfg : Cfg) (hc : c10_cleanCfg cfg = true) (d : Document) (r : ConvResult)
    (h : convertDoc cfg d = .ok r) (a : Str) :
    (cfg.idPrefix ++ a ∈ idsOf r.nodes ↔
      a ∈ c10_evBookmarks (c10_outEvents cfg d) ∨ a ∈ c10_generated (c10_outEvents cfg d)) ∧
    ((c10_generated (c10_outEvents cfg d)).contains a = false →
      (cfg.idPrefix ++ a ∈ idsOf r.nodes ↔ c10_Ev.bookmark a ∈ c10_outEvents cfg d)) := by
  have e : cfg.idPrefix ++ a ∈ idsOf r.nodes ↔
      a ∈ c10_evBookmarks (c10_outEvents cfg d) ∨ a ∈ c10_generated (c10_outEvents cfg d) := by
    rw [(c10_convertDoc_events cfg hc d r h).1, c10_internal_target, c10_generated, List.mem_append]
    rfl
  refine ⟨e, ?_⟩
  intro hg
  rw [e, c10_mem_evBookmarks]
  have : a ∉ c10_generated (c10_outEvents cfg d) := by
    intro hm
    rw [← List.contains_iff_mem, hg] at hm
    cases hm
  constructor
  · intro h'; exact h'.elim (fun x => x) (fun x => absurd x this)
  · intro h'; exact Or.inl h'

/-- (4) -/
theorem c10_ids_unique (cfg : Cfg) (hc : c10_cleanCfg cfg = true) (d : Document) (r : ConvResult)
    (h : convertDoc cfg d = .ok r) (hu : c10_uniqueHyp (c10_outEvents cfg d) = true) :
    (idsOf r.nodes).Nodup := by
  rw [(c10_convertDoc_events cfg hc d r h).1]
  exact c10_ids_nodup (c10_docCfg cfg d) d (c10_DocOK_of_convert cfg hc d r h) hu

theorem c10_ids_unique_iff (cfg : Cfg) (hc : c10_cleanCfg cfg = true) (d : Document) (r : ConvResult)
    (h : convertDoc cfg d = .ok r) :
    (idsOf r.nodes).Nodup ↔ (c10_evSuffixes (c10_outEvents cfg d)).Nodup := by
  rw [(c10_convertDoc_events cfg hc d r h).1, c10_evIds_eq, c10_nodup_map_prefix]
  rfl

/-- (5) -/
theorem c10_render_survival (cfg : Cfg) (hc : c10_cleanCfg cfg = true) (d : Document) (r : ConvResult)
    (h : convertDoc cfg d = .ok r) :
    (∀ x, x ∈ idsOf (collapse (stripEmpty r.nodes)) ↔ x ∈ idsOf r.nodes) ∧
    (idsOf (collapse (stripEmpty r.nodes))).Sublist (idsOf r.nodes) ∧
    (hrefsOf (collapse (stripEmpty r.nodes))).Sublist (hrefsOf r.nodes) ∧
    ((idsOf r.nodes).Nodup → idsOf (collapse (stripEmpty r.nodes)) = idsOf r.nodes) := by
  have hi := (c10_convertDoc_events cfg hc d r h).2.2.2.1
  have hs := c10_render_ids r.nodes hi
  exact ⟨fun x => ⟨fun hx => hs.1.subset hx, hs.2 x⟩, hs.1, c10_render_vals S!"href" r.nodes,
    c10_render_ids_nodup r.nodes hi⟩

theorem c10_render_resolve (cfg : Cfg) (hc : c10_cleanCfg cfg = true) (d : Document) (r : ConvResult)
    (h : convertDoc cfg d = .ok r) (hcl : c10_refsClosed (c10_docCfg cfg d) d = true) :
    ∀ hr ∈ hrefsOf (collapse (stripEmpty r.nodes)),
        (∃ l, c10_Ev.link l ∈ c10_outEvents cfg d ∧ hr = c10_linkHref cfg l) ∨
        ∃ x, hr = '#' :: x ∧ x ∈ idsOf (collapse (stripEmpty r.nodes)) := by
  intro hr hhr
  obtain ⟨s1, _, s3, _⟩ := c10_render_survival cfg hc d r h
  rcases (c10_all_hrefs_resolve cfg hc d r h hcl).2 hr (s3.subset hhr) with hl | ⟨x, e, hx⟩
  · exact Or.inl hl
  · exact Or.inr ⟨x, e, (s1 x).mpr hx⟩

theorem c10_render_unique (cfg : Cfg) (hc : c10_cleanCfg cfg = true) (d : Document) (r : ConvResult)
    (h : convertDoc cfg d = .ok r) (hu : c10_uniqueHyp (c10_outEvents cfg d) = true) :
    idsOf (collapse (stripEmpty r.nodes)) = idsOf r.nodes ∧ (idsOf (collapse (stripEmpty r.nodes))).Nodup := by
  have hn := c10_ids_unique cfg hc d r h hu
  have e := (c10_render_survival cfg hc d r h).2.2.2 hn
  exact ⟨e, e ▸ hn⟩

/-- (6) -/
theorem c10_labels (cfg : Cfg) (hc : c10_cleanCfg cfg = true) (d : Document) (r : ConvResult)
    (h : convertDoc cfg d = .ok r) (hnc : (c10_evCRefs (c10_outEvents cfg d)).isEmpty = true) :
    (anchorsOf r.nodes).map (·.2.2) = (List.range' 1 r.noteRefs.length).map c10_label ∧
    (anchorsOf r.nodes).map (·.2.1) = r.noteRefs.map (fun ref => ['#'] ++ referentId cfg ref.1 ref.2) ∧
    (anchorsOf r.nodes).map (·.1) = r.noteRefs.map (fun ref => referenceId cfg ref.1 ref.2) ∧
    ∃ body items cnodes, r.nodes = body ++ [el S!"ol" [] items, el S!"dl" [] cnodes] ∧
      items.length ≤ r.noteRefs.length ∧
      items.map c10_nodeId = (r.noteRefs.take items.length).map (fun ref => some (referentId cfg ref.1 ref.2)) := by
  obtain ⟨_, _, ea, _, er, _, _, body, items, cnodes, hshape, hitems⟩ := c10_convertDoc_events cfg hc d r h
  rw [List.isEmpty_iff] at hnc
  have ea' : anchorsOf r.nodes = c10_noteAnchors cfg 0 r.noteRefs := by
    rw [ea, er, ← c10_noteAnchors_docCfg cfg d]
    exact c10_evAnchors_notes (c10_docCfg cfg d) _ hnc 0 0
  refine ⟨?_, ?_, ?_, body, items, cnodes, hshape, ?_⟩
  · rw [ea', c10_noteAnchors_text]
  · rw [ea', c10_noteAnchors_href]
  · rw [ea', c10_noteAnchors_id]
  · have hlen : items.length = (c10_evRefs (c10_evsL (c10_docCfg cfg d) d.children)).length := by
      have := congrArg List.length hitems
      simpa using this
    have er' : r.noteRefs = c10_evRefs (c10_evsL (c10_docCfg cfg d) d.children) ++
        c10_evRefs (c10_E1 (c10_docCfg cfg d) d ++ c10_E2 (c10_docCfg cfg d) d) := by
      rw [er, c10_docEvents_eq, List.append_assoc, c10_evRefs_append]
      rfl
    constructor
    · rw [er', List.length_append, hlen]; omega
    · rw [hitems, er', hlen, List.take_left']
      rfl

/-- (6), general form: the anchors are the ones prescribed by the events, note and comment references each
    with their own counter -/
theorem c10_labels_general (cfg : Cfg) (hc : c10_cleanCfg cfg = true) (d : Document) (r : ConvResult)
    (h : convertDoc cfg d = .ok r) :
    anchorsOf r.nodes = c10_evAnchors (c10_docCfg cfg d) 0 0 (c10_outEvents cfg d) :=
  (c10_convertDoc_events cfg hc d r h).2.2.1

/-- (3), exact: barring name clashes, all generated hrefs resolve iff `c10_refsClosed` -/
theorem c10_resolve_iff_closed (cfg : Cfg) (hc : c10_cleanCfg cfg = true) (d : Document) (r : ConvResult)
    (h : convertDoc cfg d = .ok r) (hcl : c10_noClash (c10_outEvents cfg d) = true) :
    (∀ ev ∈ c10_outEvents cfg d, c10_isLink ev = false → ∀ hr ∈ c10_evHref cfg ev,
        ∃ x, hr = '#' :: x ∧ x ∈ idsOf r.nodes) ↔ c10_refsClosed (c10_docCfg cfg d) d = true := by
  constructor
  · intro hres
    apply c10_closed_necessary (c10_docCfg cfg d) d (c10_DocOK_of_convert cfg hc d r h) hcl
    rw [(c10_convertDoc_events cfg hc d r h).1] at hres
    exact hres
  · intro hc'
    exact (c10_all_hrefs_resolve cfg hc d r h hc').1

theorem c10_ids_unique_simple (cfg : Cfg) (hc : c10_cleanCfg cfg = true) (d : Document) (r : ConvResult)
    (h : convertDoc cfg d = .ok r) (hu : c10_uniqueHypSimple (c10_outEvents cfg d) = true) :
    (idsOf r.nodes).Nodup :=
  c10_ids_unique cfg hc d r h (c10_uniqueHypSimple_imp _ hu)

end Mammoth
