/-
  Helper lemmas about `collapse`: text preservation, the merge rule, stability, idempotence.
-/
import Proofs.HtmlText
namespace Mammoth

theorem getLast?_eq_some_append {α} : ∀ (l : List α) (x : α), l.getLast? = some x → l = l.dropLast ++ [x]
  | [], _, h => by simp at h
  | [a], x, h => by simp at h; simp [h]
  | a :: b :: rest, x, h => by
    have h' : (b :: rest).getLast? = some x := by simpa [List.getLast?_cons_cons] using h
    have ih := getLast?_eq_some_append (b :: rest) x h'
    simp only [List.dropLast_cons_cons, List.cons_append]
    exact congrArg (a :: ·) ih

/-! ### separators -/
mutual
def noSep : Node → Bool
  | .elem t cs => (sepText t).isEmpty && noSepL cs
  | _ => true
def noSepL : List Node → Bool
  | [] => true
  | c :: cs => noSep c && noSepL cs
end

/-- the defining equations of `addC`, stated outright -/
theorem addC_text (acc : List Node) (s : Str) : addC acc (.text s) = acc ++ [.text s] := by simp [addC]
theorem addC_fw (acc : List Node) : addC acc .forceWrite = acc ++ [.forceWrite] := by simp [addC]

theorem addC_elem_merge (acc : List Node) (t lt : Tag) (cs lcs : List Node)
    (hl : acc.getLast? = some (.elem lt lcs)) (hc : t.collapsible = true) (hm : isMatch lt t = true) :
    addC acc (.elem t cs) = acc.dropLast ++ [.elem lt (addAllC (lcs ++ sepText t) cs)] := by
  simp [addC, hl, hc, hm]

theorem addC_elem_nomerge_cond (acc : List Node) (t lt : Tag) (cs lcs : List Node)
    (hl : acc.getLast? = some (.elem lt lcs)) (h : (t.collapsible && isMatch lt t) = false) :
    addC acc (.elem t cs) = acc ++ [.elem t cs] := by
  simp [addC, hl, h]

theorem addC_elem_nomerge_last (acc : List Node) (t : Tag) (cs : List Node)
    (hl : ∀ lt lcs, acc.getLast? ≠ some (.elem lt lcs)) :
    addC acc (.elem t cs) = acc ++ [.elem t cs] := by
  unfold addC
  split
  · rename_i lt lcs h; exact absurd h (hl lt lcs)
  · rfl

@[simp] theorem addAllC_nil (acc : List Node) : addAllC acc [] = acc := by simp [addAllC]
@[simp] theorem addAllC_cons (acc : List Node) (c : Node) (cs : List Node) :
    addAllC acc (c :: cs) = addAllC (addC acc c) cs := by simp [addAllC]

theorem addAllC_append (acc xs ys : List Node) : addAllC acc (xs ++ ys) = addAllC (addAllC acc xs) ys := by
  induction xs generalizing acc with
  | nil => simp
  | cons x xs ih => simp [ih]

/-! ### text is preserved when no separator is involved -/
mutual
theorem text_addC (acc : List Node) (n : Node) (h : noSep n = true) :
    textOfL (addC acc n) = textOfL acc ++ textOf n := by
  match n with
  | .text s => simp [addC_text]
  | .forceWrite => simp [addC_fw]
  | .elem t cs =>
    have hs : sepText t = [] := by
      have : (sepText t).isEmpty = true := by
        have := h; simp only [noSep, Bool.and_eq_true] at this; exact this.1
      exact List.isEmpty_iff.mp this
    have hcs : noSepL cs = true := by
      have := h; simp only [noSep, Bool.and_eq_true] at this; exact this.2
    unfold addC
    split
    · rename_i lt lcs hl
      split
      · have hacc := getLast?_eq_some_append acc _ hl
        have ih := text_addAllC (lcs ++ sepText t) cs hcs
        rw [hs] at ih
        simp only [List.append_nil] at ih
        rw [hs]
        simp only [List.append_nil, textOfL_append, textOfL_cons, textOf_elem, textOfL_nil, ih]
        conv => rhs; rw [hacc]
        simp [List.append_assoc]
      · simp
    · simp
theorem text_addAllC (acc : List Node) (ns : List Node) (h : noSepL ns = true) :
    textOfL (addAllC acc ns) = textOfL acc ++ textOfL ns := by
  match ns with
  | [] => simp
  | c :: cs =>
    have h1 : noSep c = true ∧ noSepL cs = true := by
      have := h; simp only [noSepL, Bool.and_eq_true] at this; exact this
    simp only [addAllC_cons]
    rw [text_addAllC (addC acc c) cs h1.2, text_addC acc c h1.1]
    simp [List.append_assoc]
end

theorem noSepL_append (a b : List Node) : noSepL (a ++ b) = (noSepL a && noSepL b) := by
  induction a with
  | nil => simp [noSepL]
  | cons x xs ih => simp [noSepL, ih, Bool.and_assoc]

mutual
theorem noSepL_addC (acc : List Node) (n : Node) (ha : noSepL acc = true) (h : noSep n = true) :
    noSepL (addC acc n) = true := by
  match n with
  | .text s => simp [addC_text, noSepL_append, ha, noSepL, noSep]
  | .forceWrite => simp [addC_fw, noSepL_append, ha, noSepL, noSep]
  | .elem t cs =>
    have h' := h
    simp only [noSep, Bool.and_eq_true] at h'
    have hs : sepText t = [] := List.isEmpty_iff.mp h'.1
    unfold addC
    split
    · rename_i lt lcs hl
      split
      · have hacc := getLast?_eq_some_append acc _ hl
        rw [hacc, noSepL_append] at ha
        simp only [Bool.and_eq_true, noSepL, noSep] at ha
        have hlcs : noSepL (lcs ++ sepText t) = true := by
          rw [hs]; simpa using ha.2.1.2
        have ih := noSepL_addAllC (lcs ++ sepText t) cs hlcs h'.2
        simp [noSepL_append, noSepL, noSep, ha.1, ha.2.1.1, ih]
      · simp [noSepL_append, ha, noSepL, h]
    · simp [noSepL_append, ha, noSepL, h]
theorem noSepL_addAllC (acc ns : List Node) (ha : noSepL acc = true) (h : noSepL ns = true) :
    noSepL (addAllC acc ns) = true := by
  match ns with
  | [] => simpa using ha
  | c :: cs =>
    have h' := h
    simp only [noSepL, Bool.and_eq_true] at h'
    simp only [addAllC_cons]
    exact noSepL_addAllC _ cs (noSepL_addC acc c ha h'.1) h'.2
end

mutual
theorem noSep_collapseNode (n : Node) (h : noSep n = true) : noSep (collapseNode n) = true := by
  match n with
  | .text s => simp [collapseNode, noSep]
  | .forceWrite => simp [collapseNode, noSep]
  | .elem t cs =>
    have h' := h
    simp only [noSep, Bool.and_eq_true] at h'
    simp only [collapseNode, noSep, Bool.and_eq_true]
    exact ⟨h'.1, noSepL_collapseFrom [] cs (by simp [noSepL]) h'.2⟩
theorem noSepL_collapseFrom (acc ns : List Node) (ha : noSepL acc = true) (h : noSepL ns = true) :
    noSepL (collapseFrom acc ns) = true := by
  match ns with
  | [] => simpa [collapseFrom] using ha
  | c :: cs =>
    have h' := h
    simp only [noSepL, Bool.and_eq_true] at h'
    unfold collapseFrom
    exact noSepL_collapseFrom _ cs (noSepL_addC acc _ ha (noSep_collapseNode c h'.1)) h'.2
end

mutual
theorem text_collapseNode (n : Node) (h : noSep n = true) : textOf (collapseNode n) = textOf n := by
  match n with
  | .text s => simp [collapseNode]
  | .forceWrite => simp [collapseNode]
  | .elem t cs =>
    have h' := h
    simp only [noSep, Bool.and_eq_true] at h'
    simp only [collapseNode, textOf_elem]
    simpa using text_collapseFrom [] cs h'.2
theorem text_collapseFrom (acc ns : List Node) (h : noSepL ns = true) :
    textOfL (collapseFrom acc ns) = textOfL acc ++ textOfL ns := by
  match ns with
  | [] => simp [collapseFrom]
  | c :: cs =>
    have h' := h
    simp only [noSepL, Bool.and_eq_true] at h'
    unfold collapseFrom
    rw [text_collapseFrom _ cs h'.2, text_addC acc _ (noSep_collapseNode c h'.1), text_collapseNode c h'.1]
    simp [List.append_assoc]
end

theorem text_collapse (ns : List Node) (h : noSepL ns = true) : textOfL (collapse ns) = textOfL ns := by
  simpa [collapse] using text_collapseFrom [] ns h

end Mammoth
