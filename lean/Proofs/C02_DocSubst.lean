/-
  C02 — the converter never inspects the strings of text runs: replacing every `Text.value` of a
  document (body, notes, comments) by another string that is empty exactly when the original is
  yields the same forest up to the strings of its text leaves, the same errors and the same
  warnings.  (A simulation between the two runs of the visitor.)
-/
import Proofs.C01_Refine
import Proofs.C02_Subst
import Proofs.C02_Shape
namespace Mammoth

/-! ### substitution of text runs in a document -/

mutual
def c02_mapElem (σ : Str → Str) : Elem → Elem
  | .paragraph p cs => .paragraph p (c02_mapElems σ cs)
  | .run r cs => .run r (c02_mapElems σ cs)
  | .text s => .text (σ s)
  | .hyperlink h cs => .hyperlink h (c02_mapElems σ cs)
  | .checkbox c => .checkbox c
  | .table a b rows => .table a b (c02_mapElems σ rows)
  | .row h cells => .row h (c02_mapElems σ cells)
  | .cell a b c cs => .cell a b c (c02_mapElems σ cs)
  | .brk ty => .brk ty
  | .tab => .tab
  | .image i => .image i
  | .bookmark n => .bookmark n
  | .noteRef ty id => .noteRef ty id
  | .commentRef id => .commentRef id
/-- `σ` applied to the string of every text run (`documents.Text.value`), nothing else changed -/
def c02_mapElems (σ : Str → Str) : List Elem → List Elem
  | [] => []
  | e :: es => c02_mapElem σ e :: c02_mapElems σ es
end

def c02_mapComment (σ : Str → Str) (c : Comment) : Comment := { c with body := c02_mapElems σ c.body }
def c02_mapNote (σ : Str → Str) (n : Note) : Note := { n with body := c02_mapElems σ n.body }

/-- text runs of the body, of every note and of every comment -/
def c02_mapDocText (σ : Str → Str) (d : Document) : Document :=
  { children := c02_mapElems σ d.children, notes := d.notes.map (c02_mapNote σ),
    comments := d.comments.map (c02_mapComment σ) }

/-- the state of the second run: the remembered comments are the substituted comments -/
def c02_mapSt (σ : Str → Str) (s : ConvState) : ConvState :=
  { s with refComments := s.refComments.map fun lc => (lc.1, c02_mapComment σ lc.2) }

/-- the configuration of the second run: the comment table holds the substituted comments -/
def c02_mapCfg (σ : Str → Str) (cfg : Cfg) : Cfg :=
  { cfg with comments := cfg.comments.map (c02_mapComment σ) }

/-! ### forests up to the strings of their text leaves -/

/-- every non-empty text (and separator) becomes `"x"`, empty ones stay empty; attributes are kept -/
def c02_blankSub : c02_Sub := ⟨fun s => if s.isEmpty then [] else ['x'], fun _ v => v⟩

/-- the forest with its text blanked: tags, attributes WITH their values, nesting, and which text
    leaves are empty -/
abbrev c02_blank (ns : List Node) : List Node := c02_mapForest c02_blankSub ns

theorem c02_blankSub_textOk : c02_blankSub.TextOk := by
  intro s; cases s <;> simp [c02_blankSub]

theorem c02_blankSub_attrInj : c02_blankSub.AttrInj := fun _ _ _ h => h

/-- two forests that differ only in the strings of their text leaves (same emptiness) -/
abbrev c02_BR (ns ns' : List Node) : Prop := c02_blank ns' = c02_blank ns

theorem c02_mapForest_wrapElems (σ : c02_Sub) (es : List Tag) (ns : List Node) :
    c02_mapForest σ (wrapElems es ns) = wrapElems (es.map (c02_mapTag σ)) (c02_mapForest σ ns) := by
  induction es with
  | nil => simp [wrapElems]
  | cons t ts ih => simp [wrapElems, ih]

theorem c02_BR_wrapElems (es : List Tag) (ns ns' : List Node) (h : c02_BR ns ns') :
    c02_BR (wrapElems es ns) (wrapElems es ns') := by
  simp only [c02_BR, c02_blank, c02_mapForest_wrapElems] at h ⊢
  rw [h]

theorem c02_BR_wrapAll (ps : List HtmlPath) (ns ns' : List Node) (h : c02_BR ns ns') :
    c02_BR (wrapAll ps ns) (wrapAll ps ns') := by
  induction ps generalizing ns ns' with
  | nil => simpa [wrapAll] using h
  | cons p ps ih =>
    cases p with
    | ignore => exact ih [] [] rfl
    | elements es => simp only [wrapAll]; exact ih _ _ (c02_BR_wrapElems es ns ns' h)

theorem c02_BR_append (a a' b b' : List Node) (ha : c02_BR a a') (hb : c02_BR b b') :
    c02_BR (a ++ b) (a' ++ b') := by
  simp only [c02_BR, c02_blank, c02_mapForest_append] at ha hb ⊢
  rw [ha, hb]

theorem c02_BR_el (n : Str) (a : List (Str × Str)) (cs cs' : List Node) (h : c02_BR cs cs') :
    c02_BR [el n a cs] [el n a cs'] := by
  simp only [c02_BR, c02_blank] at h
  simp [c02_BR, c02_blank, el, h]

theorem c02_BR_cel (n : Str) (a : List (Str × Str)) (cs cs' : List Node) (h : c02_BR cs cs') :
    c02_BR [cel n a cs] [cel n a cs'] := by
  simp only [c02_BR, c02_blank] at h
  simp [c02_BR, c02_blank, cel, h]

theorem c02_BR_cons (c : Node) (cs cs' : List Node) (h : c02_BR cs cs') : c02_BR (c :: cs) (c :: cs') := by
  simp only [c02_BR, c02_blank] at h
  simp [c02_BR, c02_blank, h]

/-! ### simulation -/

def c02_simR {α : Type} (σ : Str → Str) (R : α → α → Prop) :
    Except Err (α × ConvState) → Except Err (α × ConvState) → Prop
  | .ok (a, s), .ok (a', s') => R a a' ∧ s' = c02_mapSt σ s
  | .error e, .error e' => e' = e
  | _, _ => False

/-- from a state and its image, `m` and `m'` raise the same error, or both succeed with `R`-related
    results, the second in the image of the first one's final state -/
def c02_sim {α : Type} (σ : Str → Str) (R : α → α → Prop) (m m' : ConvM α) : Prop :=
  ∀ st, c02_simR σ R (m st) (m' (c02_mapSt σ st))

theorem c02_sim_pure {α : Type} {σ : Str → Str} {R : α → α → Prop} {a a' : α} (h : R a a') :
    c02_sim σ R (pure a : ConvM α) (pure a') := fun _ => ⟨h, rfl⟩

theorem c02_sim_throw {α : Type} {σ : Str → Str} (R : α → α → Prop) (e : Err) :
    c02_sim σ R (throw e : ConvM α) (throw e) := fun _ => rfl

theorem c02_sim_bind {α β : Type} {σ : Str → Str} {R : α → α → Prop} {Q : β → β → Prop}
    {m m' : ConvM α} {f f' : α → ConvM β} (hm : c02_sim σ R m m')
    (hf : ∀ a a', R a a' → c02_sim σ Q (f a) (f' a')) : c02_sim σ Q (m >>= f) (m' >>= f') := by
  intro st
  have h := hm st
  rw [c01_bind_run, c01_bind_run]
  cases e : m st with
  | error err =>
    cases e' : m' (c02_mapSt σ st) with
    | error err' => rw [e, e'] at h; exact h
    | ok p' => rw [e, e'] at h; exact h.elim
  | ok p =>
    cases e' : m' (c02_mapSt σ st) with
    | error err' => rw [e, e'] at h; exact h.elim
    | ok p' =>
      rw [e, e'] at h
      obtain ⟨a, s⟩ := p
      obtain ⟨a', s'⟩ := p'
      obtain ⟨hR, hs⟩ := h
      subst hs
      exact hf a a' hR s

theorem c02_sim_modify {σ : Str → Str} (f f' : ConvState → ConvState)
    (h : ∀ s, f' (c02_mapSt σ s) = c02_mapSt σ (f s)) :
    c02_sim σ (fun _ _ => True) (modify f : ConvM PUnit) (modify f') := by
  intro st
  exact ⟨trivial, h st⟩

theorem c02_sim_get {σ : Str → Str} :
    c02_sim σ (fun s s' => s' = c02_mapSt σ s) (get : ConvM ConvState) get := fun _ => ⟨rfl, rfl⟩

theorem c02_sim_warn {σ : Str → Str} (m : Str) : c02_sim σ (fun _ _ => True) (warn m) (warn m) :=
  c02_sim_modify _ _ (fun _ => rfl)

/-! ### the pieces that do not look at the document's text at all -/

theorem c02_findPath_mapCfg (σ : Str → Str) (cfg : Cfg) (t : Target) :
    findPath (c02_mapCfg σ cfg) t = findPath cfg t := rfl

theorem c02_runPropPaths_mapCfg (σ : Str → Str) (cfg : Cfg) (r : RunProps) :
    runPropPaths (c02_mapCfg σ cfg) r = runPropPaths cfg r := rfl

theorem c02_sim_findPathWarn (σ : Str → Str) (cfg : Cfg) (t : Target) (kind : Str)
    (sid sname : Option Str) (dflt : HtmlPath) :
    c02_sim σ Eq (findPathWarn cfg t kind sid sname dflt)
      (findPathWarn (c02_mapCfg σ cfg) t kind sid sname dflt) := by
  intro st
  rw [c01_findPathWarn_run, c01_findPathWarn_run]
  refine ⟨rfl, ?_⟩
  unfold c01_warnState
  rw [c02_findPath_mapCfg]
  split <;> rfl

theorem c02_openImage_mapCfg (σ : Str → Str) (cfg : Cfg) (src : ImageSrc) :
    openImage (c02_mapCfg σ cfg) src = openImage cfg src := rfl

theorem c02_convertImage_mapCfg (σ : Str → Str) (cfg : Cfg) (i : ImageProps) :
    convertImage (c02_mapCfg σ cfg) i = convertImage cfg i := rfl

theorem c02_sim_openImage (σ : Str → Str) (cfg : Cfg) (src : ImageSrc) :
    c02_sim σ Eq (openImage cfg src) (openImage cfg src) := by
  cases src with
  | embedded name =>
    simp only [openImage]
    split
    · exact c02_sim_pure rfl
    · exact c02_sim_throw _ _
  | linked uri =>
    simp only [openImage]
    split
    · refine c02_sim_bind (c02_sim_modify _ _ (fun _ => rfl)) ?_
      intro _ _ _
      split <;> exact c02_sim_pure rfl
    · split
      · refine c02_sim_bind (c02_sim_modify _ _ (fun _ => rfl)) ?_
        intro _ _ _
        split <;> exact c02_sim_pure rfl
      · exact c02_sim_pure rfl

theorem c02_sim_convertImage (σ : Str → Str) (cfg : Cfg) (i : ImageProps) :
    c02_sim σ Eq (convertImage cfg i) (convertImage (c02_mapCfg σ cfg) i) := by
  rw [c02_convertImage_mapCfg]
  unfold convertImage
  refine c02_sim_bind (c02_sim_modify _ _ (fun _ => rfl)) ?_
  intro _ _ _
  extract_lets altAttr
  split
  · refine c02_sim_bind (c02_sim_openImage σ cfg i.src) ?_
    intro r r' hr
    subst hr
    split
    · exact c02_sim_pure rfl
    · refine c02_sim_bind (c02_sim_warn _) ?_
      intro _ _ _
      exact c02_sim_pure rfl
  · split
    · refine c02_sim_bind (c02_sim_openImage σ cfg i.src) ?_
      intro r r' hr
      subst hr
      split
      · exact c02_sim_pure rfl
      · refine c02_sim_bind (c02_sim_warn _) ?_
        intro _ _ _
        exact c02_sim_pure rfl
    · exact c02_sim_pure rfl

end Mammoth
