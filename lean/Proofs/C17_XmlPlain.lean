/-
  C17 — on XML without deleted paragraph marks (`c05_noDel`) the buffered specification `c17_xmlImages`
  agrees with the plain one (`c17_xmlImagesPlain`): nothing is ever deferred.
-/
import Proofs.C17_XmlSpec
import Proofs.C01_ReadDefer
namespace Mammoth

theorem c17_kindIn_mem (tbl : List (Str × c17_Kind)) (name : Str) :
    c17_kindIn tbl name = .skip ∨ (name, c17_kindIn tbl name) ∈ tbl := by
  induction tbl with
  | nil => exact Or.inl rfl
  | cons p tbl ih =>
    obtain ⟨k, v⟩ := p
    simp only [c17_kindIn]
    split
    · rename_i hk; subst hk; exact Or.inr List.mem_cons_self
    · rcases ih with h | h
      · exact Or.inl h
      · exact Or.inr (List.mem_cons_of_mem _ h)

theorem c17_kinds_paragraph :
    c17_kinds.all (fun p => decide (p.2 = c17_Kind.paragraph → p.1 = S!"w:p")) = true := by decide

theorem c17_kindOf_paragraph {name : Str} (h : c17_kindOf name = .paragraph) : name = S!"w:p" := by
  unfold c17_kindOf at h
  rcases c17_kindIn_mem c17_kinds name with h' | h'
  · rw [h] at h'; cases h'
  · rw [h] at h'
    have := List.all_eq_true.mp c17_kinds_paragraph _ h'
    simpa using this

theorem c17_delMark_noDel {name : Str} {cs : List XmlNode} (hk : c17_kindOf name = .paragraph)
    (h : c05_elemNoDel name cs = true) : c01_delMark cs = false := by
  have hn := c17_kindOf_paragraph hk
  subst hn
  exact c01_delMark_noDel (by decide) h

mutual
theorem c17_xmlImages_noDel (env : REnv) (n : XmlNode) (h : c05_noDel n = true) :
    c17_xmlImages env [] n = ⟨c17_xmlImagesPlain env n, []⟩ := by
  match n with
  | .text s => simp [c17_xmlImagesPlain]
  | .elem name as cs =>
    simp only [c05_noDel, Bool.and_eq_true] at h
    have ih := c17_xmlImagesL_noDel env cs h.2
    cases hk : c17_kindOf name with
    | skip => simp [c17_xmlImages, c17_xmlImagesPlain, hk]
    | drawing => simp [c17_xmlImages, c17_xmlImagesPlain, hk]
    | imagedata => simp [c17_xmlImages, c17_xmlImagesPlain, hk]
    | through => simp [c17_xmlImages, c17_xmlImagesPlain, hk, ih]
    | paragraph =>
      rw [c17_xmlImages_paragraph env _ as cs hk, c17_delMark_noDel hk h.1]
      simp [c17_xmlImagesPlain, hk, ih]
    | pict => simp [c17_xmlImages, c17_xmlImagesPlain, hk, ih]
    | alt =>
      simp only [c17_xmlImages, c17_xmlImagesPlain, hk]
      exact c17_xmlImagesIn_noDel env _ cs h.2
    | sdt =>
      simp only [c17_xmlImages, c17_xmlImagesPlain, hk]
      split
      · rfl
      · exact c17_xmlImagesIn_noDel env _ cs h.2
theorem c17_xmlImagesL_noDel (env : REnv) (ns : List XmlNode) (h : c05_noDelL ns = true) :
    c17_xmlImagesL env [] ns = ⟨c17_xmlImagesPlainL env ns, []⟩ := by
  match ns with
  | [] => simp
  | n :: ns =>
    simp only [c05_noDelL, Bool.and_eq_true] at h
    rw [c17_xmlImagesL_cons, c17_xmlImages_noDel env n h.1, c17_xmlImagesL_noDel env ns h.2,
      c17_xmlImagesPlainL_cons]
theorem c17_xmlImagesIn_noDel (env : REnv) (child : Str) (ns : List XmlNode) (h : c05_noDelL ns = true) :
    c17_xmlImagesIn env child [] ns = ⟨c17_xmlImagesPlainIn env child ns, []⟩ := by
  match ns with
  | [] => simp [c17_xmlImagesIn, c17_xmlImagesPlainIn]
  | .text s :: rest =>
    simp only [c05_noDelL, Bool.and_eq_true] at h
    simp only [c17_xmlImagesIn, c17_xmlImagesPlainIn]
    exact c17_xmlImagesIn_noDel env child rest h.2
  | .elem n as cs :: rest =>
    simp only [c05_noDelL, c05_noDel, Bool.and_eq_true] at h
    simp only [c17_xmlImagesIn, c17_xmlImagesPlainIn]
    split
    · exact c17_xmlImagesL_noDel env cs h.1.2
    · exact c17_xmlImagesIn_noDel env child rest h.2
end

end Mammoth
