/-
  C02 — escape laws: helper definitions (decoder, entity check) and lemmas about
  `escapeChar` / `escape` (MammothModel/Html.lean).
-/
import MammothModel.Html
namespace Mammoth

/-- `escapeChar` (defined by lookup in the extracted table) spelled out as a case distinction. -/
theorem c02_escapeChar_cases (c : Char) :
    escapeChar c =
      if c = '"' then S!"&quot;" else if c = '&' then S!"&amp;"
      else if c = '<' then S!"&lt;" else if c = '>' then S!"&gt;" else [c] := by
  simp only [escapeChar, Generated.escapeTable, lookupChar, beq_iff_eq]
  by_cases h1 : c = '"'
  · simp [h1]
  · by_cases h2 : c = '&'
    · simp [h2]
    · by_cases h3 : c = '<'
      · simp [h3]
      · by_cases h4 : c = '>'
        · simp [h4]
        · simp [h1, h2, h3, h4]

theorem c02_escapeChar_quot : escapeChar '"' = S!"&quot;" := by rw [c02_escapeChar_cases]; simp
theorem c02_escapeChar_amp : escapeChar '&' = S!"&amp;" := by rw [c02_escapeChar_cases]; simp
theorem c02_escapeChar_lt : escapeChar '<' = S!"&lt;" := by rw [c02_escapeChar_cases]; simp
theorem c02_escapeChar_gt : escapeChar '>' = S!"&gt;" := by rw [c02_escapeChar_cases]; simp
theorem c02_escapeChar_other (c : Char) (h1 : c ≠ '"') (h2 : c ≠ '&') (h3 : c ≠ '<') (h4 : c ≠ '>') :
    escapeChar c = [c] := by rw [c02_escapeChar_cases]; simp [h1, h2, h3, h4]

@[simp] theorem c02_escape_nil : escape [] = [] := by simp [escape]
@[simp] theorem c02_escape_cons (c : Char) (cs : Str) : escape (c :: cs) = escapeChar c ++ escape cs := by
  simp [escape]

theorem c02_escape_append (a b : Str) : escape (a ++ b) = escape a ++ escape b := by
  induction a with
  | nil => simp
  | cons c cs ih => simp [ih]

/-- five-way case analysis on a character, the way the escape table sees it -/
theorem c02_char_cases (c : Char) :
    c = '"' ∨ c = '&' ∨ c = '<' ∨ c = '>' ∨ (c ≠ '"' ∧ c ≠ '&' ∧ c ≠ '<' ∧ c ≠ '>') := by
  by_cases h1 : c = '"'
  · exact Or.inl h1
  · by_cases h2 : c = '&'
    · exact Or.inr (Or.inl h2)
    · by_cases h3 : c = '<'
      · exact Or.inr (Or.inr (Or.inl h3))
      · by_cases h4 : c = '>'
        · exact Or.inr (Or.inr (Or.inr (Or.inl h4)))
        · exact Or.inr (Or.inr (Or.inr (Or.inr ⟨h1, h2, h3, h4⟩)))

/-! ### the decoder -/

/-- Decoder for exactly the four entities `&amp; &lt; &gt; &quot;`; everything else (including an
    `&` that does not start one of them) is copied. -/
def c02_unescape : Str → Str
  | '&' :: 'a' :: 'm' :: 'p' :: ';' :: r => '&' :: c02_unescape r
  | '&' :: 'l' :: 't' :: ';' :: r => '<' :: c02_unescape r
  | '&' :: 'g' :: 't' :: ';' :: r => '>' :: c02_unescape r
  | '&' :: 'q' :: 'u' :: 'o' :: 't' :: ';' :: r => '"' :: c02_unescape r
  | c :: cs => c :: c02_unescape cs
  | [] => []

theorem c02_unescape_amp (r : Str) : c02_unescape (S!"&amp;" ++ r) = '&' :: c02_unescape r := by
  simp [c02_unescape]
theorem c02_unescape_lt (r : Str) : c02_unescape (S!"&lt;" ++ r) = '<' :: c02_unescape r := by
  simp [c02_unescape]
theorem c02_unescape_gt (r : Str) : c02_unescape (S!"&gt;" ++ r) = '>' :: c02_unescape r := by
  simp [c02_unescape]
theorem c02_unescape_quot (r : Str) : c02_unescape (S!"&quot;" ++ r) = '"' :: c02_unescape r := by
  simp [c02_unescape]
theorem c02_unescape_other (c : Char) (r : Str) (h : c ≠ '&') : c02_unescape (c :: r) = c :: c02_unescape r := by
  rw [c02_unescape]
  all_goals simp_all

/-- `unescape ∘ escape = id` -/
theorem c02_unescape_escape (s : Str) : c02_unescape (escape s) = s := by
  induction s with
  | nil => simp [c02_unescape]
  | cons c cs ih =>
    rw [c02_escape_cons]
    rcases c02_char_cases c with h | h | h | h | ⟨h1, h2, h3, h4⟩
    · subst h; rw [c02_escapeChar_quot, c02_unescape_quot, ih]
    · subst h; rw [c02_escapeChar_amp, c02_unescape_amp, ih]
    · subst h; rw [c02_escapeChar_lt, c02_unescape_lt, ih]
    · subst h; rw [c02_escapeChar_gt, c02_unescape_gt, ih]
    · rw [c02_escapeChar_other c h1 h2 h3 h4]
      simp only [List.singleton_append]
      rw [c02_unescape_other c _ h2, ih]

/-! ### every `&` of the output starts an entity -/

/-- every `&` in the string is immediately followed by `amp;`, `lt;`, `gt;` or `quot;` -/
def c02_ampsOk : Str → Bool
  | [] => true
  | c :: cs =>
    (c != '&' || startsWith cs S!"amp;" || startsWith cs S!"lt;" || startsWith cs S!"gt;"
      || startsWith cs S!"quot;") && c02_ampsOk cs

theorem c02_ampsOk_escape (s : Str) : c02_ampsOk (escape s) = true := by
  induction s with
  | nil => simp [c02_ampsOk]
  | cons c cs ih =>
    rw [c02_escape_cons]
    rcases c02_char_cases c with h | h | h | h | ⟨h1, h2, h3, h4⟩
    · subst h; rw [c02_escapeChar_quot]; simp [c02_ampsOk, startsWith, ih]
    · subst h; rw [c02_escapeChar_amp]; simp [c02_ampsOk, startsWith, ih]
    · subst h; rw [c02_escapeChar_lt]; simp [c02_ampsOk, startsWith, ih]
    · subst h; rw [c02_escapeChar_gt]; simp [c02_ampsOk, startsWith, ih]
    · rw [c02_escapeChar_other c h1 h2 h3 h4]
      simp [c02_ampsOk, h2, ih]

/-- no markup character survives escaping -/
theorem c02_escape_safe (s : Str) : ∀ c ∈ escape s, c ≠ '<' ∧ c ≠ '>' ∧ c ≠ '"' := by
  induction s with
  | nil => simp
  | cons d ds ih =>
    intro c hc
    rw [c02_escape_cons, List.mem_append] at hc
    rcases hc with hc | hc
    · rcases c02_char_cases d with h | h | h | h | ⟨h1, h2, h3, h4⟩
      · subst h; rw [c02_escapeChar_quot] at hc
        simp only [List.mem_cons, List.not_mem_nil, or_false] at hc
        rcases hc with h | h | h | h | h | h <;> subst h <;> decide
      · subst h; rw [c02_escapeChar_amp] at hc
        simp only [List.mem_cons, List.not_mem_nil, or_false] at hc
        rcases hc with h | h | h | h | h <;> subst h <;> decide
      · subst h; rw [c02_escapeChar_lt] at hc
        simp only [List.mem_cons, List.not_mem_nil, or_false] at hc
        rcases hc with h | h | h | h <;> subst h <;> decide
      · subst h; rw [c02_escapeChar_gt] at hc
        simp only [List.mem_cons, List.not_mem_nil, or_false] at hc
        rcases hc with h | h | h | h <;> subst h <;> decide
      · rw [c02_escapeChar_other d h1 h2 h3 h4] at hc
        simp only [List.mem_cons, List.not_mem_nil, or_false] at hc
        subst hc
        exact ⟨h3, h4, h1⟩
    · exact ih c hc

end Mammoth
