/-
  C06_Syntax — abstract syntax of style mappings (arbitrary string payloads), an independent
  printer (escapes, token list, text) and the denotation into the model's `Style`.
-/
import MammothModel.Dsl
namespace Mammoth

/-! ### abstract syntax -/

/-- the three break types the documented syntax can name -/
inductive c06_Brk where
  | line | page | column
deriving DecidableEq, Repr, Inhabited

def c06_Brk.str : c06_Brk → Str
  | .line => S!"line"
  | .page => S!"page"
  | .column => S!"column"

/-- `:ordered-list(n)` / `:unordered-list(n)`; `n` is the number written (1-based) -/
structure c06_Level where
  ordered : Bool
  n : Nat
deriving DecidableEq, Repr, Inhabited

/-- the model's `Matcher`, except that the list level is the natural number that is written and
    the break type is one of the three documented ones -/
inductive c06_Matcher where
  | paragraph (styleId : Option Str) (styleName : Option StrMatch) (numbering : Option c06_Level)
  | run (styleId : Option Str) (styleName : Option StrMatch)
  | table (styleId : Option Str) (styleName : Option StrMatch)
  | bold | italic | underline | strikethrough | allCaps | smallCaps
  | highlight (color : Option Str)
  | commentReference
  | brk (ty : c06_Brk)
deriving DecidableEq, Repr, Inhabited

/-- one element of an HTML path: `name|alt|… .class [attr='v'] … :fresh :separator('…')`.
    (`name :: alts` is the non-empty list of tag names.) -/
structure c06_Elem where
  name : Str
  alts : List Str := []
  events : List AttrOrClass := []
  fresh : Bool := false
  sep : Option Str := none
deriving DecidableEq, Repr

def c06_Elem.names (e : c06_Elem) : List Str := e.name :: e.alts

inductive c06_Path where
  | ignore
  | elems (es : List c06_Elem)
deriving DecidableEq, Repr

structure c06_Mapping where
  matcher : c06_Matcher
  path : c06_Path
deriving DecidableEq, Repr

/-! ### escapes -/

/-- how a character is written inside an identifier (not in first position) -/
def c06_escChar (c : Char) : Str :=
  if c == '\n' then ['\\', 'n'] else if c == '\r' then ['\\', 'r'] else if c == '\t' then ['\\', 't']
  else if isIdentStart c || isDigit c then [c] else ['\\', c]

/-- first position: a digit has to be escaped too -/
def c06_escFirst (c : Char) : Str := if isDigit c then ['\\', c] else c06_escChar c

def c06_escRest : Str → Str
  | [] => []
  | c :: cs => c06_escChar c ++ c06_escRest cs

/-- an arbitrary string written as an identifier -/
def c06_printIdent : Str → Str
  | [] => []
  | c :: cs => c06_escFirst c ++ c06_escRest cs

/-- how a character is written inside a quoted string -/
def c06_strChar (c : Char) : Str :=
  if c == '\'' then ['\\', '\''] else if c == '\\' then ['\\', '\\']
  else if c == '\n' then ['\\', 'n'] else if c == '\r' then ['\\', 'r'] else if c == '\t' then ['\\', 't']
  else [c]

def c06_stringBody : Str → Str
  | [] => []
  | c :: cs => c06_strChar c ++ c06_stringBody cs

/-- an arbitrary string written as a quoted string -/
def c06_printString (s : Str) : Str := '\'' :: c06_stringBody s ++ ['\'']

/-! ### decimal numbers (own printer, independent of `Nat.repr`) -/

def c06_digitChar (d : Nat) : Char := Char.ofNat (48 + d)

def c06_printNatF : Nat → Nat → Str
  | 0, _ => ['0']
  | f+1, n => if n < 10 then [c06_digitChar n] else c06_printNatF f (n / 10) ++ [c06_digitChar (n % 10)]

def c06_printNat (n : Nat) : Str := c06_printNatF (n + 1) n

/-! ### token-level printer -/

def c06_sym (v : Str) : Token := ⟨.symbol, v⟩
/-- an identifier carrying an arbitrary string -/
def c06_id (s : Str) : Token := ⟨.identifier, c06_printIdent s⟩
/-- a keyword (written literally) -/
def c06_kw (s : Str) : Token := ⟨.identifier, s⟩
def c06_str (s : Str) : Token := ⟨.string, c06_printString s⟩
def c06_sp : Token := ⟨.whitespace, [' ']⟩
def c06_end : Token := ⟨.end, []⟩

def c06_sidToks : Option Str → List Token
  | none => []
  | some s => [c06_sym ['.'], c06_id s]

def c06_smToks : StrMatch → List Token
  | .equalTo v => [c06_sym ['='], c06_str v]
  | .startsWith v => [c06_sym ['^', '='], c06_str v]

def c06_snToks : Option StrMatch → List Token
  | none => []
  | some m => c06_sym ['['] :: c06_kw S!"style-name" :: c06_smToks m ++ [c06_sym [']']]

def c06_listWord (ordered : Bool) : Str := if ordered then S!"ordered-list" else S!"unordered-list"

def c06_numToks : Option c06_Level → List Token
  | none => []
  | some l => [c06_sym [':'], c06_kw (c06_listWord l.ordered), c06_sym ['('],
               ⟨.integer, c06_printNat l.n⟩, c06_sym [')']]

def c06_bracketToks (key v : Str) : List Token :=
  [c06_sym ['['], c06_kw key, c06_sym ['='], c06_str v, c06_sym [']']]

def c06_matcherToks : c06_Matcher → List Token
  | .paragraph sid sn num => c06_kw S!"p" :: (c06_sidToks sid ++ (c06_snToks sn ++ c06_numToks num))
  | .run sid sn => c06_kw S!"r" :: (c06_sidToks sid ++ c06_snToks sn)
  | .table sid sn => c06_kw S!"table" :: (c06_sidToks sid ++ c06_snToks sn)
  | .bold => [c06_kw S!"b"]
  | .italic => [c06_kw S!"i"]
  | .underline => [c06_kw S!"u"]
  | .strikethrough => [c06_kw S!"strike"]
  | .allCaps => [c06_kw S!"all-caps"]
  | .smallCaps => [c06_kw S!"small-caps"]
  | .highlight none => [c06_kw S!"highlight"]
  | .highlight (some c) => c06_kw S!"highlight" :: c06_bracketToks S!"color" c
  | .commentReference => [c06_kw S!"comment-reference"]
  | .brk ty => c06_kw S!"br" :: c06_bracketToks S!"type" ty.str

def c06_altToks : List Str → List Token
  | [] => []
  | a :: as => c06_sym ['|'] :: c06_id a :: c06_altToks as

def c06_eventToks : List AttrOrClass → List Token
  | [] => []
  | .attr n v :: r => c06_sym ['['] :: c06_id n :: c06_sym ['='] :: c06_str v :: c06_sym [']'] :: c06_eventToks r
  | .cls c :: r => c06_sym ['.'] :: c06_id c :: c06_eventToks r

def c06_freshToks (b : Bool) : List Token := if b then [c06_sym [':'], c06_kw S!"fresh"] else []

def c06_sepToks : Option Str → List Token
  | none => []
  | some v => [c06_sym [':'], c06_kw S!"separator", c06_sym ['('], c06_str v, c06_sym [')']]

def c06_elemToks (e : c06_Elem) : List Token :=
  c06_id e.name :: (c06_altToks e.alts ++ (c06_eventToks e.events ++ (c06_freshToks e.fresh ++ c06_sepToks e.sep)))

/-- ` > element` repeated -/
def c06_moreToks : List c06_Elem → List Token
  | [] => []
  | e :: es => c06_sp :: c06_sym ['>'] :: c06_sp :: (c06_elemToks e ++ c06_moreToks es)

def c06_pathToks : c06_Path → List Token
  | .ignore => [c06_sym ['!']]
  | .elems [] => []
  | .elems (e :: es) => c06_elemToks e ++ c06_moreToks es

/-- the intended token list (without the final END token); `spAfter` says whether a blank is
    written after `=>` -/
def c06_tokens (spAfter : Bool) (m : c06_Mapping) : List Token :=
  c06_matcherToks m.matcher ++
    (c06_sp :: c06_sym ['=', '>'] :: ((if spAfter then [c06_sp] else []) ++ c06_pathToks m.path))

/-- the text of a token list -/
def c06_text : List Token → Str
  | [] => []
  | t :: ts => t.val ++ c06_text ts

/-- the text-level printer -/
def c06_print (spAfter : Bool) (m : c06_Mapping) : Str := c06_text (c06_tokens spAfter m)

/-! ### expressibility -/

def c06_identOK (s : Str) : Bool := !s.isEmpty

def c06_optIdentOK : Option Str → Bool
  | none => true
  | some s => c06_identOK s

/-- the level is at least 1 and its decimal form is within CPython's `int(str)` digit limit -/
def c06_levelOK : Option c06_Level → Bool
  | none => true
  | some l => decide (1 ≤ l.n) && decide ((c06_printNat l.n).length ≤ maxStrDigits)

def c06_matcherOK : c06_Matcher → Bool
  | .paragraph sid _ num => c06_optIdentOK sid && c06_levelOK num
  | .run sid _ => c06_optIdentOK sid
  | .table sid _ => c06_optIdentOK sid
  | _ => true

def c06_eventOK : AttrOrClass → Bool
  | .attr n _ => c06_identOK n
  | .cls c => c06_identOK c

def c06_elemOK (e : c06_Elem) : Bool :=
  c06_identOK e.name && e.alts.all c06_identOK && e.events.all c06_eventOK

def c06_pathOK : c06_Path → Bool
  | .ignore => true
  | .elems es => es.all c06_elemOK

/-- identifiers are non-empty, list levels are ≥ 1 (and not astronomically long) -/
def c06_expressible (m : c06_Mapping) : Bool := c06_matcherOK m.matcher && c06_pathOK m.path

/-! ### denotation -/

def c06_denoteLevel (l : c06_Level) : NumLevel := ⟨natToStr (l.n - 1), l.ordered⟩

def c06_denoteMatcher : c06_Matcher → Matcher
  | .paragraph sid sn num => .paragraph sid sn (num.map c06_denoteLevel)
  | .run sid sn => .run sid sn
  | .table sid sn => .table sid sn
  | .bold => .bold
  | .italic => .italic
  | .underline => .underline
  | .strikethrough => .strikethrough
  | .allCaps => .allCaps
  | .smallCaps => .smallCaps
  | .highlight c => .highlight c
  | .commentReference => .commentReference
  | .brk ty => .brk ty.str

def c06_denoteElem (e : c06_Elem) : Tag :=
  { name := e.name, alts := e.alts, attrs := buildAttrs [] e.events,
    collapsible := !e.fresh, separator := e.sep }

def c06_denotePath : c06_Path → HtmlPath
  | .ignore => .ignore
  | .elems es => .elements (es.map c06_denoteElem)

def c06_denote (m : c06_Mapping) : Style := ⟨c06_denoteMatcher m.matcher, c06_denotePath m.path⟩

end Mammoth

