/-
  C17 — the composition at the level of the public API: `mammoth.convert_to_html(package)` with the
  default image converter, from the XML of the package's main document part to the `<img … />` tags of
  the returned HTML.
-/
import Proofs.C17_Compose
import Proofs.C05_View
import Proofs.C05_Api
namespace Mammoth

/-- the embedded style map `apiConvert` uses -/
def c17_embOf (p : Package) (o : Options) : Option Str :=
  if o.includeEmbedded then
    match readEmbeddedStyleMap p with
    | .ok e => e
    | .error _ => none
  else none

/-- the parts of a successful `apiConvert` -/
theorem c17_apiConvert_ok (p : Package) (fuel : Nat) (base : Option Str) (world : Str → Option Bytes)
    (transform : Document → Document) (o : Options) (out : ApiOut)
    (h : apiConvert p fuel base world transform o = .ok out) :
    ∃ doc msgs r, readPackage p fuel = .ok (doc, msgs) ∧
      convertDoc (c05_apiCfg p base world o (c17_embOf p o)) (transform doc) = .ok r ∧
      out.value = writeWith o.format (collapse (stripEmpty r.nodes)) ∧
      out.imageCalls = r.imageCalls ∧ out.nodes = r.nodes ∧ out.document = transform doc := by
  unfold apiConvert at h
  dsimp only at h
  have key : ∀ emb, (do
      let __x ← readPackage p fuel
      let r ← convertDoc (c05_apiCfg p base world o emb) (transform __x.fst)
      (pure
          { value := writeWith o.format (collapse (stripEmpty r.nodes)),
            messages := unique ((readOptions o.styleMap emb o.includeDefault).snd ++ __x.snd ++ r.messages),
            nodes := r.nodes, document := transform __x.fst, ioTrace := r.ioTrace, imageCalls := r.imageCalls }
          : Except Err ApiOut)) = .ok out →
      ∃ doc msgs r, readPackage p fuel = .ok (doc, msgs) ∧
        convertDoc (c05_apiCfg p base world o emb) (transform doc) = .ok r ∧
        out.value = writeWith o.format (collapse (stripEmpty r.nodes)) ∧
        out.imageCalls = r.imageCalls ∧ out.nodes = r.nodes ∧ out.document = transform doc := by
    intro emb h
    cases h1 : readPackage p fuel with
    | error e => rw [h1] at h; cases h
    | ok dm =>
      obtain ⟨doc, msgs⟩ := dm
      rw [h1] at h
      simp only [bind, Except.bind] at h
      cases h2 : convertDoc (c05_apiCfg p base world o emb) (transform doc) with
      | error e => rw [h2] at h; cases h
      | ok r =>
        rw [h2] at h
        simp only [pure, Except.pure, Except.ok.injEq] at h
        subst h
        exact ⟨doc, msgs, r, rfl, h2, rfl, rfl, rfl, rfl⟩
  unfold c17_embOf
  split at h
  · rename_i hinc
    rw [if_pos hinc]
    cases he : readEmbeddedStyleMap p with
    | error e => rw [he] at h; cases h
    | ok emb =>
      rw [he] at h
      exact key emb h
  · rename_i hinc
    rw [if_neg hinc]
    exact key none h

/-- the body reader's run inside `readPackage` -/
theorem c17_readView_ok (v : c05_View) (fuel : Nat) (doc : Document) (msgs : List Str)
    (h : c05_readView v fuel = .ok (doc, msgs)) :
    ∃ r st', readAll { v.shared with rels := v.bodyRels } fuel {} v.body = .ok (r, st') ∧
      doc = ⟨r.elements, doc.notes, doc.comments⟩ := by
  unfold c05_readView at h
  obtain ⟨⟨fns, fm⟩, _, h⟩ := c01_bind_ok h
  obtain ⟨⟨ens, em⟩, _, h⟩ := c01_bind_ok h
  obtain ⟨⟨cms, cm⟩, _, h⟩ := c01_bind_ok h
  obtain ⟨⟨r, st'⟩, hr, h⟩ := c01_bind_ok h
  simp only [pure, Except.pure, Except.ok.injEq, Prod.mk.injEq] at h
  obtain ⟨rfl, _⟩ := h
  exact ⟨r, st', hr, rfl⟩

/-- THE PUBLIC API.  `v` is what `docx.read` takes from the package (`c05_view`: the shared environment, the
    relationships of the main document part and the children of its `w:body`). -/
theorem c17_package_to_imgs (p : Package) (v : c05_View) (hview : c05_view p = some v)
    (fuel : Nat) (base : Option Str) (world : Str → Option Bytes) (o : Options) (out : ApiOut)
    (h : apiConvert p fuel base world id o = .ok out)
    (hf : o.format = .html) (hc : o.imageConv = .dataUri) (hv : c01_noVMergeL v.body = true)
    (hig : c01_noIgnoreMap (c05_apiCfg p base world o (c17_embOf p o)) = true)
    (hi : c17_noImgMap (c05_apiCfg p base world o (c17_embOf p o)) = true)
    (hp : c02_plainCfg (c05_apiCfg p base world o (c17_embOf p o)) = true) :
    ∃ toks, c02_lexHtml out.value = some toks ∧
      c17_tokImgs toks = c17_tokVoidImgs toks ∧
      (c17_tokVoidImgs toks).map c17_srcAltOf =
        (c17_storyImages { v.shared with rels := v.bodyRels } v.body ++
          (c10_docNotes (c10_docCfg (c05_apiCfg p base world o (c17_embOf p o)) out.document) out.document).flatMap
            (fun n => c17_elemImagesL n.body) ++
          (c10_docComments (c10_docCfg (c05_apiCfg p base world o (c17_embOf p o)) out.document) out.document).flatMap
            (fun c => c17_elemImagesL c.body)).filterMap
          (c17_expected (c05_apiCfg p base world o (c17_embOf p o))) ∧
      out.imageCalls =
        c17_storyImages { v.shared with rels := v.bodyRels } v.body ++
          (c10_docNotes (c10_docCfg (c05_apiCfg p base world o (c17_embOf p o)) out.document) out.document).flatMap
            (fun n => c17_elemImagesL n.body) ++
          (c10_docComments (c10_docCfg (c05_apiCfg p base world o (c17_embOf p o)) out.document) out.document).flatMap
            (fun c => c17_elemImagesL c.body) := by
  obtain ⟨doc, msgs, r, hread, hconv, hval, hcalls, _, hdoc⟩ := c17_apiConvert_ok p fuel base world id o out h
  rw [c05_readPackage_view p v fuel hview] at hread
  obtain ⟨rr, st', hra, hd⟩ := c17_readView_ok v fuel doc msgs hread
  simp only [id] at hconv hdoc
  rw [hdoc]
  rw [hd] at hconv
  have := c17_xml_to_imgs _ fuel v.body rr st' hra hv (c05_apiCfg p base world o (c17_embOf p o)) hc hig hi hp
    doc.notes doc.comments r hconv
  obtain ⟨toks, t1, t2, t3, t4⟩ := this
  refine ⟨toks, ?_, t2, ?_, ?_⟩
  · rw [hval, hf]; exact t1
  · rw [t3, hd]; rfl
  · rw [hcalls, t4, hd]; rfl

end Mammoth
