/-
  C18 — the simulation for `visit`/`visitAll`/`visitRows`, notes, comments, `visitDocument`,
  `convertDoc`.
-/
import Proofs.C18_Sim
namespace Mammoth

theorem c18_findPath_reworld (cfg : Cfg) (b : Option Str) (w : Str → Option Bytes) (t : Target) :
    findPath (c18_reworld cfg b w) t = findPath cfg t := rfl

theorem c18_runPropPaths_reworld (cfg : Cfg) (b : Option Str) (w : Str → Option Bytes)
    (r : RunProps) : runPropPaths (c18_reworld cfg b w) r = runPropPaths cfg r := rfl

theorem c18_sim_pure_any {α : Type} {a a' : α} : c18_sim c18_any (pure a : ConvM α) (pure a') :=
  c18_sim_pure (R := c18_any) trivial

theorem c18_sim_then_pure {α β : Type} {R : α → α → Prop} {m m' : ConvM α} {f f' : α → ConvM β}
    (h : c18_sim R m m') (hf : ∀ a a', c18_sim c18_any (f a) (f' a')) :
    c18_sim c18_any (m >>= f) (m' >>= f') :=
  c18_sim_bind h (fun a a' _ => hf a a')

mutual
theorem c18_sim_visit (cfg : Cfg) (b : Option Str) (w : Str → Option Bytes) (hdr : Bool)
    (e : Elem) : c18_sim c18_any (visit cfg hdr e) (visit (c18_reworld cfg b w) hdr e) := by
  match e with
  | .paragraph p cs =>
    simp only [visit]
    refine c18_sim_bind (c18_sim_findPathWarn cfg b w _ _ _ _ _) ?_
    intro path path' e
    subst e
    cases path with
    | ignore => exact c18_sim_pure_any
    | elements es => exact c18_sim_then_pure (c18_sim_visitAll cfg b w hdr cs) (fun _ _ => c18_sim_pure_any)
  | .run r cs =>
    simp only [visit, c18_runPropPaths_reworld]
    refine c18_sim_bind (c18_sim_findPathWarn cfg b w _ _ _ _ _) ?_
    intro sp sp' e
    subst e
    by_cases hx : (runPropPaths cfg r ++ [sp]).any HtmlPath.isIgnore = true
    · simp only [hx, if_true]
      exact c18_sim_pure_any
    · simp only [hx]
      exact c18_sim_then_pure (c18_sim_visitAll cfg b w hdr cs) (fun _ _ => c18_sim_pure_any)
  | .text s => simp only [visit]; exact c18_sim_pure_any
  | .hyperlink h cs =>
    simp only [visit]
    exact c18_sim_then_pure (c18_sim_visitAll cfg b w hdr cs) (fun _ _ => c18_sim_pure_any)
  | .checkbox c => simp only [visit]; exact c18_sim_pure_any
  | .table sid sname rows =>
    simp only [visit, c18_findPath_reworld]
    split
    · exact c18_sim_pure_any
    · refine c18_sim_bind (c18_sim_visitRows cfg b w true rows) ?_
      intro x x' _
      exact c18_sim_pure_any
  | .row _ cells =>
    simp only [visit]
    exact c18_sim_then_pure (c18_sim_visitAll cfg b w hdr cells) (fun _ _ => c18_sim_pure_any)
  | .cell _ _ _ cs =>
    simp only [visit]
    exact c18_sim_then_pure (c18_sim_visitAll cfg b w hdr cs) (fun _ _ => c18_sim_pure_any)
  | .brk ty =>
    simp only [visit, c18_findPath_reworld]
    split
    · exact c18_sim_pure_any
    · exact c18_sim_pure_any
    · by_cases hx : (ty == S!"line") = true
      · simp only [hx, if_true]
        exact c18_sim_pure_any
      · simp only [hx]
        exact c18_sim_pure_any
  | .tab => simp only [visit]; exact c18_sim_pure_any
  | .image i => simp only [visit]; exact c18_sim_convertImage cfg b w i
  | .bookmark _ => simp only [visit]; exact c18_sim_pure_any
  | .noteRef ty id =>
    simp only [visit]
    refine c18_sim_bind (c18_sim_modify _ _ ?_) ?_
    · intro s s' h
      exact ⟨by show s.noteRefs ++ _ = s'.noteRefs ++ _; rw [h.1], h.2⟩
    · intro _ _ _
      exact c18_sim_then_pure c18_sim_get (fun _ _ => c18_sim_pure_any)
  | .commentRef id =>
    simp only [visit, c18_findPath_reworld]
    split
    · exact c18_sim_pure_any
    · exact c18_sim_pure_any
    · split
      · exact c18_sim_throw _ _
      · rename_i c hc
        refine c18_sim_bind c18_sim_get ?_
        intro s s' hs
        refine c18_sim_bind (c18_sim_modify _ _ ?_) ?_
        · intro t t' h
          refine ⟨h.1, ?_⟩
          show t.refComments ++ _ = t'.refComments ++ _
          rw [h.2, hs.2]
        · intro _ _ _
          exact c18_sim_pure_any
theorem c18_sim_visitAll (cfg : Cfg) (b : Option Str) (w : Str → Option Bytes) (hdr : Bool)
    (es : List Elem) :
    c18_sim c18_any (visitAll cfg hdr es) (visitAll (c18_reworld cfg b w) hdr es) := by
  match es with
  | [] => simp only [visitAll]; exact c18_sim_pure_any
  | e :: es =>
    simp only [visitAll]
    refine c18_sim_bind (c18_sim_visit cfg b w hdr e) ?_
    intro a a' _
    exact c18_sim_then_pure (c18_sim_visitAll cfg b w hdr es) (fun _ _ => c18_sim_pure_any)
theorem c18_sim_visitRows (cfg : Cfg) (b : Option Str) (w : Str → Option Bytes) (inHead : Bool)
    (es : List Elem) :
    c18_sim c18_any (visitRows cfg inHead es) (visitRows (c18_reworld cfg b w) inHead es) := by
  match es with
  | [] => simp only [visitRows]; exact c18_sim_pure_any
  | r :: rs =>
    simp only [visitRows]
    by_cases hx : (inHead && isHeaderRow r) = true
    · simp only [hx, if_true]
      refine c18_sim_bind (c18_sim_visit cfg b w true r) ?_
      intro a a' _
      refine c18_sim_bind (c18_sim_visitRows cfg b w true rs) ?_
      intro x x' _
      exact c18_sim_pure_any
    · simp only [hx]
      refine c18_sim_bind (c18_sim_visit cfg b w false r) ?_
      intro a a' _
      refine c18_sim_bind (c18_sim_visitRows cfg b w false rs) ?_
      intro x x' _
      exact c18_sim_pure_any
end

end Mammoth
