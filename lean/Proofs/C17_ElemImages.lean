/-
  C17 — the images of a document tree, in document order, and what `calculate_row_spans` does to them
  (it can only remove the images of cells it takes for vertical-merge continuations; without such marks it
  removes nothing).  Parallel to `Proofs/C01_Sweep.lean`, with images instead of text leaves.
-/
import Proofs.C01_Sweep
namespace Mammoth

mutual
/-- the images of a document element, in document order -/
def c17_elemImages : Elem → List ImageProps
  | .image i => [i]
  | .paragraph _ cs => c17_elemImagesL cs
  | .run _ cs => c17_elemImagesL cs
  | .hyperlink _ cs => c17_elemImagesL cs
  | .table _ _ cs => c17_elemImagesL cs
  | .row _ cs => c17_elemImagesL cs
  | .cell _ _ _ cs => c17_elemImagesL cs
  | .text _ => []
  | .tab => []
  | .noteRef _ _ => []
  | .commentRef _ => []
  | .checkbox _ => []
  | .brk _ => []
  | .bookmark _ => []
def c17_elemImagesL : List Elem → List ImageProps
  | [] => []
  | e :: es => c17_elemImages e ++ c17_elemImagesL es
end

@[simp] theorem c17_elemImagesL_nil : c17_elemImagesL [] = [] := by simp [c17_elemImagesL]
@[simp] theorem c17_elemImagesL_cons (e : Elem) (es : List Elem) :
    c17_elemImagesL (e :: es) = c17_elemImages e ++ c17_elemImagesL es := by simp [c17_elemImagesL]

theorem c17_elemImagesL_append (a b : List Elem) :
    c17_elemImagesL (a ++ b) = c17_elemImagesL a ++ c17_elemImagesL b := by
  induction a with
  | nil => simp
  | cons x xs ih => simp [ih, List.append_assoc]

/-! ### the sweep only removes -/

theorem c17_rebuildCells_sublist (sw : Sweep) (r : Nat) (cells : List Elem) (pos : Nat) :
    (c17_elemImagesL (rebuildCells sw r cells pos)).Sublist (c17_elemImagesL cells) := by
  induction cells generalizing pos with
  | nil => simp [rebuildCells]
  | cons c cs ih =>
    cases c with
    | cell colspan rowspan vm ch =>
      simp only [rebuildCells]
      split
      · simp only [c17_elemImagesL_cons]
        exact (ih (pos + 1)).trans (List.sublist_append_right _ _)
      · simp only [c17_elemImagesL_cons, c17_elemImages]
        exact List.Sublist.append (List.Sublist.refl _) (ih (pos + 1))
    | _ =>
      simp only [rebuildCells, c17_elemImagesL_cons]
      exact List.Sublist.append (List.Sublist.refl _) (ih (pos + 1))

theorem c17_rebuildRows_sublist (sw : Sweep) (rows : List Elem) (r : Nat) :
    (c17_elemImagesL (rebuildRows sw rows r)).Sublist (c17_elemImagesL rows) := by
  induction rows generalizing r with
  | nil => simp [rebuildRows]
  | cons c cs ih =>
    cases c with
    | row h cells =>
      simp only [rebuildRows, c17_elemImagesL_cons, c17_elemImages]
      exact List.Sublist.append (c17_rebuildCells_sublist sw r cells 0) (ih (r + 1))
    | _ =>
      simp only [rebuildRows, c17_elemImagesL_cons]
      exact List.Sublist.append (List.Sublist.refl _) (ih (r + 1))

/-- the images of the rows after `calculate_row_spans` are a subsequence of the images before -/
theorem c17_calculate_sublist (rows : List Elem) :
    (c17_elemImagesL (calculateRowSpans rows).1).Sublist (c17_elemImagesL rows) := by
  unfold calculateRowSpans
  split
  · exact List.Sublist.refl _
  · split
    · exact List.Sublist.refl _
    · exact c17_rebuildRows_sublist _ rows 0

/-! ### without continuation marks the sweep removes nothing -/

theorem c17_rebuildCells_keep (sw : Sweep) (hd : sw.drops = []) (r : Nat) (cells : List Elem) (pos : Nat) :
    c17_elemImagesL (rebuildCells sw r cells pos) = c17_elemImagesL cells := by
  induction cells generalizing pos with
  | nil => simp [rebuildCells]
  | cons c cs ih =>
    have ih' := ih (pos + 1)
    cases c with
    | cell colspan rowspan vm ch =>
      simp only [rebuildCells, hd, List.contains_nil, Bool.false_eq_true, if_false, c17_elemImagesL_cons,
        c17_elemImages, ih']
    | _ => simp only [rebuildCells, c17_elemImagesL_cons, ih']

theorem c17_rebuildRows_keep (sw : Sweep) (hd : sw.drops = []) (rows : List Elem) (r : Nat) :
    c17_elemImagesL (rebuildRows sw rows r) = c17_elemImagesL rows := by
  induction rows generalizing r with
  | nil => simp [rebuildRows]
  | cons c cs ih =>
    have ih' := ih (r + 1)
    cases c with
    | row h cells =>
      simp only [rebuildRows, c17_elemImagesL_cons, c17_elemImages, c17_rebuildCells_keep sw hd r cells 0, ih']
    | _ => simp only [rebuildRows, c17_elemImagesL_cons, ih']

/-- without continuation marks, `calculate_row_spans` keeps every image -/
theorem c17_calculate_keep (rows : List Elem) (hn : c01_noVmL rows = true) :
    c17_elemImagesL (calculateRowSpans rows).1 = c17_elemImagesL rows := by
  unfold calculateRowSpans
  split
  · rfl
  · split
    · rfl
    · exact c17_rebuildRows_keep _ (c01_sweepRows_drops rows 0 {} hn rfl) rows 0

/-! ### the same for whole trees (`c01_spans`: the sweep applied to every table, inner tables first) -/

mutual
theorem c17_spans_sublist (e : Elem) : (c17_elemImages (c01_spans e)).Sublist (c17_elemImages e) := by
  match e with
  | .paragraph p cs => simp only [c01_spans, c17_elemImages]; exact c17_spansL_sublist cs
  | .run r cs => simp only [c01_spans, c17_elemImages]; exact c17_spansL_sublist cs
  | .hyperlink h cs => simp only [c01_spans, c17_elemImages]; exact c17_spansL_sublist cs
  | .table a b rows =>
    simp only [c01_spans, c17_elemImages]
    exact (c17_calculate_sublist _).trans (c17_spansL_sublist rows)
  | .row h cs => simp only [c01_spans, c17_elemImages]; exact c17_spansL_sublist cs
  | .cell c r v cs => simp only [c01_spans, c17_elemImages]; exact c17_spansL_sublist cs
  | .text s => simp [c01_spans]
  | .tab => simp [c01_spans]
  | .noteRef ty id => simp [c01_spans]
  | .commentRef id => simp [c01_spans]
  | .checkbox b => simp [c01_spans]
  | .brk ty => simp [c01_spans]
  | .image i => simp [c01_spans]
  | .bookmark n => simp [c01_spans]
theorem c17_spansL_sublist (es : List Elem) :
    (c17_elemImagesL (c01_spansL es)).Sublist (c17_elemImagesL es) := by
  match es with
  | [] => simp
  | e :: es =>
    simp only [c01_spansL_cons, c17_elemImagesL_cons]
    exact List.Sublist.append (c17_spans_sublist e) (c17_spansL_sublist es)
end

mutual
theorem c17_spans_images (e : Elem) (hn : c01_noVm e = true) :
    c17_elemImages (c01_spans e) = c17_elemImages e := by
  match e with
  | .paragraph p cs =>
    simp only [c01_noVm] at hn; simp only [c01_spans, c17_elemImages]; exact c17_spansL_images cs hn
  | .run r cs =>
    simp only [c01_noVm] at hn; simp only [c01_spans, c17_elemImages]; exact c17_spansL_images cs hn
  | .hyperlink h cs =>
    simp only [c01_noVm] at hn; simp only [c01_spans, c17_elemImages]; exact c17_spansL_images cs hn
  | .table a b rows =>
    simp only [c01_noVm] at hn
    simp only [c01_spans, c17_elemImages]
    rw [c17_calculate_keep _ (c01_spansL_leaves rows hn).2]
    exact c17_spansL_images rows hn
  | .row h cs =>
    simp only [c01_noVm] at hn; simp only [c01_spans, c17_elemImages]; exact c17_spansL_images cs hn
  | .cell c r v cs =>
    simp only [c01_noVm, Bool.and_eq_true] at hn
    simp only [c01_spans, c17_elemImages]; exact c17_spansL_images cs hn.2
  | .text s => simp [c01_spans]
  | .tab => simp [c01_spans]
  | .noteRef ty id => simp [c01_spans]
  | .commentRef id => simp [c01_spans]
  | .checkbox b => simp [c01_spans]
  | .brk ty => simp [c01_spans]
  | .image i => simp [c01_spans]
  | .bookmark n => simp [c01_spans]
theorem c17_spansL_images (es : List Elem) (hn : c01_noVmL es = true) :
    c17_elemImagesL (c01_spansL es) = c17_elemImagesL es := by
  match es with
  | [] => simp
  | e :: es =>
    simp only [c01_noVmL_cons, Bool.and_eq_true] at hn
    simp only [c01_spansL_cons, c17_elemImagesL_cons, c17_spans_images e hn.1, c17_spansL_images es hn.2]
end

/-! ### the relation between what the reader returns and the tree before any sweep -/

/-- `es` is the row-span sweep of some tree `pe` whose images are exactly `ls`; when `nv` holds,
    `pe` has no continuation mark (so the sweep removed nothing) -/
def c17_Pre (nv : Bool) (es : List Elem) (ls : List ImageProps) : Prop :=
  ∃ pe, c01_spansL pe = es ∧ c17_elemImagesL pe = ls ∧ (nv = true → c01_noVmL pe = true)

theorem c17_Pre_sublist {nv : Bool} {es : List Elem} {ls : List ImageProps} (h : c17_Pre nv es ls) :
    (c17_elemImagesL es).Sublist ls := by
  obtain ⟨pe, h1, h2, _⟩ := h
  rw [← h1, ← h2]; exact c17_spansL_sublist pe

theorem c17_Pre_eq {es : List Elem} {ls : List ImageProps} (h : c17_Pre true es ls) :
    c17_elemImagesL es = ls := by
  obtain ⟨pe, h1, h2, h3⟩ := h
  rw [← h1, ← h2]; exact c17_spansL_images pe (h3 rfl)

theorem c17_Pre_mono {nv nv' : Bool} {es : List Elem} {ls : List ImageProps} (hm : nv' = true → nv = true)
    (h : c17_Pre nv es ls) : c17_Pre nv' es ls := by
  obtain ⟨pe, h1, h2, h3⟩ := h
  exact ⟨pe, h1, h2, fun h' => h3 (hm h')⟩

theorem c17_Pre_nil (nv : Bool) : c17_Pre nv [] [] := ⟨[], by simp, by simp, fun _ => by simp⟩

theorem c17_Pre_append {nv : Bool} {a b : List Elem} {la lb : List ImageProps}
    (ha : c17_Pre nv a la) (hb : c17_Pre nv b lb) : c17_Pre nv (a ++ b) (la ++ lb) := by
  obtain ⟨pa, a1, a2, a3⟩ := ha
  obtain ⟨pb, b1, b2, b3⟩ := hb
  refine ⟨pa ++ pb, ?_, ?_, fun h => ?_⟩
  · rw [c01_spansL_append, a1, b1]
  · rw [c17_elemImagesL_append, a2, b2]
  · rw [c01_noVmL_append, a3 h, b3 h]; rfl

theorem c17_Pre_atoms (nv : Bool) (es : List Elem) (h : es.all c01_atom = true) :
    c17_Pre nv es (c17_elemImagesL es) := by
  refine ⟨es, ?_, rfl, fun _ => ?_⟩
  · induction es with
    | nil => simp
    | cons e es ih =>
      simp only [List.all_cons, Bool.and_eq_true] at h
      simp [(c01_atom_spans e h.1).1, ih h.2]
  · induction es with
    | nil => simp
    | cons e es ih =>
      simp only [List.all_cons, Bool.and_eq_true] at h
      simp [(c01_atom_spans e h.1).2, ih h.2]

theorem c17_Pre_run {nv : Bool} {es : List Elem} {ls : List ImageProps} (p : RunProps) (h : c17_Pre nv es ls) :
    c17_Pre nv [.run p es] ls := by
  obtain ⟨pe, h1, h2, h3⟩ := h
  exact ⟨[.run p pe], by simp [c01_spans, h1], by simp [c17_elemImages, h2], fun h => by simp [c01_noVm, h3 h]⟩

theorem c17_Pre_hyperlink {nv : Bool} {es : List Elem} {ls : List ImageProps} (p : LinkProps)
    (h : c17_Pre nv es ls) : c17_Pre nv [.hyperlink p es] ls := by
  obtain ⟨pe, h1, h2, h3⟩ := h
  exact ⟨[.hyperlink p pe], by simp [c01_spans, h1], by simp [c17_elemImages, h2],
    fun h => by simp [c01_noVm, h3 h]⟩

theorem c17_Pre_paragraph {nv : Bool} {es : List Elem} {ls : List ImageProps} (p : ParaProps)
    (h : c17_Pre nv es ls) : c17_Pre nv [.paragraph p es] ls := by
  obtain ⟨pe, h1, h2, h3⟩ := h
  exact ⟨[.paragraph p pe], by simp [c01_spans, h1], by simp [c17_elemImages, h2],
    fun h => by simp [c01_noVm, h3 h]⟩

theorem c17_Pre_row {nv : Bool} {es : List Elem} {ls : List ImageProps} (b : Bool) (h : c17_Pre nv es ls) :
    c17_Pre nv [.row b es] ls := by
  obtain ⟨pe, h1, h2, h3⟩ := h
  exact ⟨[.row b pe], by simp [c01_spans, h1], by simp [c17_elemImages, h2], fun h => by simp [c01_noVm, h3 h]⟩

theorem c17_Pre_cell {nv : Bool} {es : List Elem} {ls : List ImageProps} (c r : Nat) (v : Bool)
    (hv : nv = true → v = false) (h : c17_Pre nv es ls) : c17_Pre nv [.cell c r v es] ls := by
  obtain ⟨pe, h1, h2, h3⟩ := h
  exact ⟨[.cell c r v pe], by simp [c01_spans, h1], by simp [c17_elemImages, h2],
    fun h => by simp [c01_noVm, h3 h, hv h]⟩

theorem c17_Pre_table {nv : Bool} {es : List Elem} {ls : List ImageProps} (a b : Option Str)
    (h : c17_Pre nv es ls) : c17_Pre nv [.table a b (calculateRowSpans es).1] ls := by
  obtain ⟨pe, h1, h2, h3⟩ := h
  exact ⟨[.table a b pe], by simp [c01_spans, h1], by simp [c17_elemImages, h2], fun h => by simp [c01_noVm, h3 h]⟩

end Mammoth
