/-
  Helper lemmas about text content of forests under stripEmpty / collapse.
-/
import MammothModel.Html
namespace Mammoth

@[simp] theorem textOfL_nil : textOfL [] = [] := by simp [textOfL]
@[simp] theorem textOfL_cons (c : Node) (cs : List Node) : textOfL (c :: cs) = textOf c ++ textOfL cs := by
  simp [textOfL]

@[simp] theorem textOfL_append (a b : List Node) : textOfL (a ++ b) = textOfL a ++ textOfL b := by
  induction a with
  | nil => simp
  | cons x xs ih => simp [ih, List.append_assoc]

@[simp] theorem textOf_text (s : Str) : textOf (.text s) = s := by simp [textOf]
@[simp] theorem textOf_fw : textOf .forceWrite = [] := by simp [textOf]
@[simp] theorem textOf_elem (t : Tag) (cs : List Node) : textOf (.elem t cs) = textOfL cs := by simp [textOf]

/-! ### stripEmpty keeps all text -/
mutual
theorem text_stripNode (n : Node) : textOfL (stripNode n) = textOf n := by
  match n with
  | .text s =>
    unfold stripNode
    by_cases h : s.isEmpty
    · simp [h, List.isEmpty_iff.mp h]
    · simp [h]
  | .forceWrite => simp [stripNode]
  | .elem t cs =>
    unfold stripNode
    have ih := text_stripList cs
    by_cases h : ((stripList cs).isEmpty && !isVoid t cs) = true
    · simp only [h, if_true]
      have he : stripList cs = [] := by
        have := Bool.and_eq_true_iff.mp h
        exact List.isEmpty_iff.mp this.1
      rw [he] at ih
      simp at ih
      simp [← ih]
    · simp only [h]
      simp [ih]
theorem text_stripList (ns : List Node) : textOfL (stripList ns) = textOfL ns := by
  match ns with
  | [] => simp [stripList]
  | c :: cs =>
    unfold stripList
    simp [text_stripNode c, text_stripList cs]
end

theorem text_stripEmpty (ns : List Node) : textOfL (stripEmpty ns) = textOfL ns := text_stripList ns

end Mammoth
