/-
  C12 (conversion) — `docx.read` of the package after the embed equals `docx.read` of the original, under
  the four conditions on the ORIGINAL package defined here:

  * `c12_relEntryOk p`      the `Relationship` element the embed overwrites (if any: the first element in
                            `iter()` order with `Id="rMammothStyleMap"`) is a complete relationship whose type
                            is not one `_find_part_paths` looks up;
  * `c12_overrideEntryOk p` the `Override` element the embed overwrites (if any) has a `ContentType`;
  * `c12_lookupOk p`        no part lookup has `mammoth/style-map` among its candidates (unless that part
                            exists already), and none of the located parts is one of the three entries the
                            embed writes;
  * `c12_refsOk p`          the XML of the body, the notes and the comments does not use the relationship id
                            `rMammothStyleMap` (when its relationships are `word/_rels/document.xml.rels`) and no
                            image has the path `mammoth/style-map`.
-/
import Proofs.C12_Convert
namespace Mammoth

/-! ### the conditions -/

def c12_relEntryOk (p : Package) : Bool :=
  match lookupLast relsPartPath p.parts with
  | some (.xml r) =>
    match xFindFirst c12_relsMatch r with
    | none => true
    | some old => c12_relAttrsOk old
  | _ => true

def c12_overrideEntryOk (p : Package) : Bool :=
  match lookupLast contentTypesPartPath p.parts with
  | some (.xml t) =>
    match xFindFirst c12_ctMatch t with
    | none => true
    | some old => c12_overrideAttrsOk old
  | _ => true

def c12_five : List Str := [S!"comments", S!"endnotes", S!"footnotes", S!"numbering", S!"styles"]

/-- `_find_part_paths`: the main document chosen -/
def c12_mainOf (p : Package) (pkgRels : Rels) : Str :=
  findPartPath p pkgRels (relTypePrefix ++ S!"officeDocument") [] S!"word/document.xml"

/-- `_find_part_paths`: `find(name)` -/
def c12_findOf (p : Package) (docRels : Rels) (main name : Str) : Str :=
  findPartPath p docRels (relTypePrefix ++ name) (splitPath main).1 (S!"word/" ++ name ++ S!".xml")

def c12_lookupOk (p : Package) : Bool :=
  match p.readRels S!"_rels/.rels" with
  | .error _ => true
  | .ok pkgRels =>
    c12_smFree p (c12_candidates pkgRels (relTypePrefix ++ S!"officeDocument") []) &&
    c12_roleOk (c12_mainOf p pkgRels) &&
    (!p.exists (c12_mainOf p pkgRels) ||
      match p.readRels (relsPathFor (c12_mainOf p pkgRels)) with
      | .error _ => true
      | .ok docRels =>
        c12_five.all fun name =>
          c12_smFree p (c12_candidates docRels (relTypePrefix ++ name) (splitPath (c12_mainOf p pkgRels)).1) &&
          c12_roleOk (c12_findOf p docRels (c12_mainOf p pkgRels) name))

/-- the XML of one part that is read with a body reader -/
def c12_partRefsOk (p : Package) (shared : REnv) (path : Str) : Bool :=
  if p.exists path then
    match p.readRels (relsPathFor path), p.readXml path with
    | .ok rels, .ok (_, cs) =>
      c12_useOkL (relsPathFor path == relsPartPath) { shared with rels := rels } cs
    | _, _ => true
  else true

def c12_refsOk (p : Package) : Bool :=
  match findPartPaths p with
  | .error _ => true
  | .ok paths =>
    match readSharedEnv p paths with
    | .error _ => true
    | .ok shared =>
      c12_partRefsOk p shared paths.footnotes && c12_partRefsOk p shared paths.endnotes &&
      c12_partRefsOk p shared paths.comments && c12_partRefsOk p shared paths.mainDocument

/-! ### `_find_part_paths` in normal form -/

def c12_pathsOf (p : Package) (main : Str) (docRels : Rels) : PartPaths :=
  { mainDocument := main, comments := c12_findOf p docRels main S!"comments",
    endnotes := c12_findOf p docRels main S!"endnotes", footnotes := c12_findOf p docRels main S!"footnotes",
    numbering := c12_findOf p docRels main S!"numbering", styles := c12_findOf p docRels main S!"styles" }

theorem c12_findPartPaths_eq (p : Package) :
    findPartPaths p =
      match p.readRels S!"_rels/.rels" with
      | .error e => .error e
      | .ok pkgRels =>
        if p.exists (c12_mainOf p pkgRels) then
          match p.readRels (relsPathFor (c12_mainOf p pkgRels)) with
          | .error e => .error e
          | .ok docRels => .ok (c12_pathsOf p (c12_mainOf p pkgRels) docRels)
        else .error (.io S!"Could not find main document part. Are you sure this is a valid .docx file?") := by
  unfold findPartPaths c12_mainOf
  cases p.readRels S!"_rels/.rels" with
  | error e => rfl
  | ok pkgRels =>
    simp only [bind, Except.bind]
    generalize findPartPath p pkgRels (relTypePrefix ++ S!"officeDocument") [] S!"word/document.xml" = main
    cases hex : p.exists main with
    | false => rfl
    | true =>
      simp only [Bool.not_true, Bool.false_eq_true, if_false, if_true]
      cases p.readRels (relsPathFor main) <;> rfl

section embedded
variable (p : Package) (s : Str) (r r' t t' : XmlNode)
variable (hr : lookupLast relsPartPath p.parts = some (.xml r))
variable (ht : lookupLast contentTypesPartPath p.parts = some (.xml t))
variable (hr' : xAddOrUpdate r c12_relName S!"Id" styleMapRelAttrs = some r')
variable (ht' : xAddOrUpdate t c12_overrideName S!"PartName" styleMapOverrideAttrs = some t')

theorem c12_relEntryOk_use (h : c12_relEntryOk p = true) (hr : lookupLast relsPartPath p.parts = some (.xml r)) :
    ∀ old, xFindFirst c12_relsMatch r = some old → c12_relAttrsOk old = true := by
  intro old ho
  unfold c12_relEntryOk at h
  rw [hr] at h
  simp only [ho] at h
  exact h

theorem c12_overrideEntryOk_use (h : c12_overrideEntryOk p = true)
    (ht : lookupLast contentTypesPartPath p.parts = some (.xml t)) :
    ∀ old, xFindFirst c12_ctMatch t = some old → c12_overrideAttrsOk old = true := by
  intro old ho
  unfold c12_overrideEntryOk at h
  rw [ht] at h
  simp only [ho] at h
  exact h

theorem c12_five_lookedUp (name : Str) (h : name ∈ c12_five) : relTypePrefix ++ name ∈ c12_lookedUp := by
  simp only [c12_five, List.mem_cons, List.not_mem_nil, or_false] at h
  rcases h with h | h | h | h | h <;> subst h <;> simp [c12_lookedUp]

include hr ht hr' in
/-- `_find_part_paths` finds the same parts; and they are none of the three entries written -/
theorem c12_findPartPaths_embedded (h1 : c12_relEntryOk p = true) (h3 : c12_lookupOk p = true) :
    findPartPaths (c12_embedded p s r' t') = findPartPaths p ∧
    ∀ paths, findPartPaths p = .ok paths →
      c12_roleOk paths.mainDocument = true ∧ c12_roleOk paths.comments = true ∧
      c12_roleOk paths.endnotes = true ∧ c12_roleOk paths.footnotes = true ∧
      c12_roleOk paths.numbering = true ∧ c12_roleOk paths.styles = true := by
  rw [c12_findPartPaths_eq, c12_findPartPaths_eq]
  have hpk : (c12_embedded p s r' t').readRels S!"_rels/.rels" = p.readRels S!"_rels/.rels" :=
    c12_readRels_congr _ _ _ (c12_embedded_other p s r' t' _ (by decide +kernel) (by decide +kernel)
      (by decide +kernel))
  rw [hpk]
  unfold c12_lookupOk at h3
  cases hx : p.readRels S!"_rels/.rels" with
  | error e => exact ⟨rfl, fun _ h => by cases h⟩
  | ok pkgRels =>
    rw [hx] at h3
    simp only [Bool.and_eq_true] at h3
    obtain ⟨⟨hfree, hrole⟩, hrest⟩ := h3
    have hmain : c12_mainOf (c12_embedded p s r' t') pkgRels = c12_mainOf p pkgRels :=
      c12_findPartPath_embedded p s r r' t t' hr ht pkgRels pkgRels _ _ _ rfl hfree
    simp only [hmain]
    have hex : (c12_embedded p s r' t').exists (c12_mainOf p pkgRels) = p.exists (c12_mainOf p pkgRels) :=
      c12_exists_congr _ _ _ (c12_embedded_lookup_role p s r' t' _ hrole)
    rw [hex]
    cases hpm : p.exists (c12_mainOf p pkgRels) with
    | false => exact ⟨rfl, fun _ h => by cases h⟩
    | true =>
      rw [hpm] at hrest
      simp only [Bool.not_true, Bool.false_or, if_true] at hrest ⊢
      rcases c12_readRels_any p s r r' t' hr hr' (c12_relEntryOk_use p r h1 hr) (c12_mainOf p pkgRels) with
        ⟨e, e1, e2⟩ | ⟨rels, rels', e1, e2, hty, _⟩
      · rw [e1, e2]; exact ⟨rfl, fun _ h => by cases h⟩
      · rw [e1, e2]
        rw [e1] at hrest
        simp only [List.all_eq_true, Bool.and_eq_true] at hrest
        have hf : ∀ name, name ∈ c12_five →
            c12_findOf (c12_embedded p s r' t') rels' (c12_mainOf p pkgRels) name
              = c12_findOf p rels (c12_mainOf p pkgRels) name := fun name hn =>
          c12_findPartPath_embedded p s r r' t t' hr ht rels rels' _ _ _
            (hty _ (c12_five_lookedUp name hn)) (hrest name hn).1
        have m1 : S!"comments" ∈ c12_five := by decide +kernel
        have m2 : S!"endnotes" ∈ c12_five := by decide +kernel
        have m3 : S!"footnotes" ∈ c12_five := by decide +kernel
        have m4 : S!"numbering" ∈ c12_five := by decide +kernel
        have m5 : S!"styles" ∈ c12_five := by decide +kernel
        constructor
        · simp only [c12_pathsOf, hf _ m1, hf _ m2, hf _ m3, hf _ m4, hf _ m5]
        · intro paths hp
          cases hp
          exact ⟨hrole, (hrest _ m1).2, (hrest _ m2).2, (hrest _ m3).2, (hrest _ m4).2, (hrest _ m5).2⟩

/-! ### the shared environment -/

/-- `_part_with_body_reader` once the content types have been read -/
def c12_sharedRest (p : Package) (paths : PartPaths) (ct : ContentTypes) : Except Err REnv := do
  let styles ← if p.exists paths.styles then do
      let (_, cs) ← p.readXml paths.styles; pure (readStylesXml cs)
    else pure {}
  let numbering ← if p.exists paths.numbering then do
      let (_, cs) ← p.readXml paths.numbering; readNumberingXml cs styles
    else pure {}
  pure { numbering := numbering, contentTypes := ct, styles := styles, rels := [] }

theorem c12_readSharedEnv_eq (p : Package) (paths : PartPaths) :
    readSharedEnv p paths = c12_readCt p >>= c12_sharedRest p paths := by
  unfold readSharedEnv c12_readCt c12_sharedRest
  cases p.exists S!"[Content_Types].xml" <;> cases p.exists paths.styles <;>
    cases p.exists paths.numbering <;> first | rfl | (cases p.readXml S!"[Content_Types].xml" <;> rfl)

theorem c12_sharedRest_ct (p : Package) (paths : PartPaths) (ct ct' : ContentTypes) :
    (∃ e, c12_sharedRest p paths ct = .error e ∧ c12_sharedRest p paths ct' = .error e) ∨
    (∃ sh, c12_sharedRest p paths ct = .ok sh ∧ sh.contentTypes = ct ∧
      c12_sharedRest p paths ct' = .ok { sh with contentTypes := ct' }) := by
  unfold c12_sharedRest
  cases p.exists paths.styles <;> cases p.exists paths.numbering <;>
    simp only [bind, Except.bind, pure, Except.pure, if_true, if_false, Bool.false_eq_true]
  · exact Or.inr ⟨_, rfl, rfl, rfl⟩
  · cases p.readXml paths.numbering with
    | error e => exact Or.inl ⟨_, rfl, rfl⟩
    | ok v =>
      simp only
      cases readNumberingXml v.2 {} with
      | error e => exact Or.inl ⟨_, rfl, rfl⟩
      | ok n => exact Or.inr ⟨_, rfl, rfl, rfl⟩
  · cases p.readXml paths.styles with
    | error e => exact Or.inl ⟨_, rfl, rfl⟩
    | ok v => exact Or.inr ⟨_, rfl, rfl, rfl⟩
  · cases p.readXml paths.styles with
    | error e => exact Or.inl ⟨_, rfl, rfl⟩
    | ok v =>
      simp only
      cases p.readXml paths.numbering with
      | error e => exact Or.inl ⟨_, rfl, rfl⟩
      | ok w =>
        simp only
        cases readNumberingXml w.2 (readStylesXml v.2) with
        | error e => exact Or.inl ⟨_, rfl, rfl⟩
        | ok n => exact Or.inr ⟨_, rfl, rfl, rfl⟩
include ht ht' in
theorem c12_readSharedEnv_embedded (h2 : c12_overrideEntryOk p = true) (paths : PartPaths)
    (hs : c12_roleOk paths.styles = true) (hn : c12_roleOk paths.numbering = true) :
    (∃ e, readSharedEnv p paths = .error e ∧ readSharedEnv (c12_embedded p s r' t') paths = .error e) ∨
    (∃ sh ct', readSharedEnv p paths = .ok sh ∧
      readSharedEnv (c12_embedded p s r' t') paths = .ok { sh with contentTypes := ct' } ∧
      c12_CtSim sh.contentTypes ct') := by
  rw [c12_readSharedEnv_eq, c12_readSharedEnv_eq]
  have hrest : ∀ ct, c12_sharedRest (c12_embedded p s r' t') paths ct = c12_sharedRest p paths ct := by
    intro ct
    unfold c12_sharedRest
    rw [c12_exists_congr _ _ _ (c12_embedded_lookup_role p s r' t' _ hs),
      c12_exists_congr _ _ _ (c12_embedded_lookup_role p s r' t' _ hn),
      c12_readXml_congr _ _ _ (c12_embedded_lookup_role p s r' t' _ hs),
      c12_readXml_congr _ _ _ (c12_embedded_lookup_role p s r' t' _ hn)]
  rcases c12_readCt_ct p s t t' r' ht ht' (c12_overrideEntryOk_use p t h2 ht) with
    ⟨e, e1, e2⟩ | ⟨ct, ct', e1, e2, hsim⟩
  · rw [e1, e2]; exact Or.inl ⟨e, rfl, rfl⟩
  · rw [e1, e2]
    simp only [bind, Except.bind]
    rw [hrest]
    rcases c12_sharedRest_ct p paths ct ct' with ⟨e, f1, f2⟩ | ⟨sh, f1, f2, f3⟩
    · rw [f1, f2]; exact Or.inl ⟨e, rfl, rfl⟩
    · rw [f1, f3]
      exact Or.inr ⟨sh, ct', rfl, rfl, f2 ▸ hsim⟩

/-! ### the parts read with a body reader -/

theorem c12_envSim_of (shared : REnv) (rels rels' : Rels) (ct' : ContentTypes) (chk : Bool)
    (hid : ∀ rid, c12_ridOk chk rid = true → rels'.targetById rid = rels.targetById rid)
    (hct : c12_CtSim shared.contentTypes ct') :
    c12_EnvSim chk { shared with rels := rels } rels' ct' := ⟨hid, hct⟩

include hr hr' in
theorem c12_readNotesPart_embedded (h1 : c12_relEntryOk p = true) (sh : REnv) (ct' : ContentTypes)
    (hct : c12_CtSim sh.contentTypes ct') (fuel : Nat) (path ty : Str)
    (hrole : c12_roleOk path = true) (hrefs : c12_partRefsOk p sh path = true) :
    readNotesPart (c12_embedded p s r' t') { sh with contentTypes := ct' } fuel path ty
      = readNotesPart p sh fuel path ty := by
  unfold readNotesPart
  rw [c12_exists_congr _ _ _ (c12_embedded_lookup_role p s r' t' _ hrole),
    c12_readXml_congr _ _ _ (c12_embedded_lookup_role p s r' t' _ hrole)]
  unfold c12_partRefsOk at hrefs
  cases hex : p.exists path with
  | false => simp only [Bool.false_eq_true, if_false]
  | true =>
    rw [hex] at hrefs
    simp only [if_true, bind, Except.bind] at hrefs ⊢
    rcases c12_readRels_any p s r r' t' hr hr' (c12_relEntryOk_use p r h1 hr) path with
      ⟨e, e1, e2⟩ | ⟨rels, rels', e1, e2, _, hid⟩
    · rw [e1, e2]
    · rw [e1, e2]
      rw [e1] at hrefs
      simp only
      cases hx : p.readXml path with
      | error e => rfl
      | ok v =>
        rw [hx] at hrefs
        simp only at hrefs ⊢
        have hsim := c12_envSim_of sh rels rels' ct' _ hid hct
        exact c12_readNoteElems_eq hsim fuel ty _ {}
          (c12_elemsOk_filter _ _ _ _ (c12_elemsOk_findChildren _ _ _ _ hrefs)) rfl

include hr hr' in
theorem c12_readCommentsPart_embedded (h1 : c12_relEntryOk p = true) (sh : REnv) (ct' : ContentTypes)
    (hct : c12_CtSim sh.contentTypes ct') (fuel : Nat) (path : Str)
    (hrole : c12_roleOk path = true) (hrefs : c12_partRefsOk p sh path = true) :
    readCommentsPart (c12_embedded p s r' t') { sh with contentTypes := ct' } fuel path
      = readCommentsPart p sh fuel path := by
  unfold readCommentsPart
  rw [c12_exists_congr _ _ _ (c12_embedded_lookup_role p s r' t' _ hrole),
    c12_readXml_congr _ _ _ (c12_embedded_lookup_role p s r' t' _ hrole)]
  unfold c12_partRefsOk at hrefs
  cases hex : p.exists path with
  | false => simp only [Bool.false_eq_true, if_false]
  | true =>
    rw [hex] at hrefs
    simp only [if_true, bind, Except.bind] at hrefs ⊢
    rcases c12_readRels_any p s r r' t' hr hr' (c12_relEntryOk_use p r h1 hr) path with
      ⟨e, e1, e2⟩ | ⟨rels, rels', e1, e2, _, hid⟩
    · rw [e1, e2]
    · rw [e1, e2]
      rw [e1] at hrefs
      simp only
      cases hx : p.readXml path with
      | error e => rfl
      | ok v =>
        rw [hx] at hrefs
        simp only at hrefs ⊢
        have hsim := c12_envSim_of sh rels rels' ct' _ hid hct
        exact c12_readCommentElems_eq hsim fuel _ {} (c12_elemsOk_findChildren _ _ _ _ hrefs) rfl

/-- the main document part, as `docx.read` reads it -/
def c12_mainPart (p : Package) (shared : REnv) (fuel : Nat) (main : Str) : Except Err ReadResult := do
  let rels ← p.readRels (relsPathFor main)
  let (_, cs) ← p.readXml main
  match findChild S!"w:body" cs with
  | none => throw (.value S!"Could not find the body element: are you sure this is a docx file?")
  | some (_, body) => do
    let (r, _) ← readAll { shared with rels := rels } fuel {} body
    pure r

theorem c12_useOkL_findChild_some (chk : Bool) (env : REnv) (name : Str) (cs : List XmlNode)
    (as : Attrs) (body : List XmlNode) (hf : findChild name cs = some (as, body))
    (h : c12_useOkL chk env cs = true) : c12_useOkL chk env body = true := by
  have := c12_useOkL_findChild chk env name cs h
  unfold findChildOrNull at this
  rw [hf] at this
  exact this

include hr hr' in
theorem c12_mainPart_embedded (h1 : c12_relEntryOk p = true) (sh : REnv) (ct' : ContentTypes)
    (hct : c12_CtSim sh.contentTypes ct') (fuel : Nat) (path : Str)
    (hrole : c12_roleOk path = true) (hex : p.exists path = true) (hrefs : c12_partRefsOk p sh path = true) :
    c12_mainPart (c12_embedded p s r' t') { sh with contentTypes := ct' } fuel path
      = c12_mainPart p sh fuel path := by
  unfold c12_mainPart
  rw [c12_readXml_congr _ _ _ (c12_embedded_lookup_role p s r' t' _ hrole)]
  unfold c12_partRefsOk at hrefs
  rw [hex] at hrefs
  simp only [if_true, bind, Except.bind] at hrefs ⊢
  rcases c12_readRels_any p s r r' t' hr hr' (c12_relEntryOk_use p r h1 hr) path with
    ⟨e, e1, e2⟩ | ⟨rels, rels', e1, e2, _, hid⟩
  · rw [e1, e2]
  · rw [e1, e2]
    rw [e1] at hrefs
    simp only
    cases hx : p.readXml path with
    | error e => rfl
    | ok v =>
      rw [hx] at hrefs
      simp only at hrefs ⊢
      cases hb : findChild S!"w:body" v.2 with
      | none => rfl
      | some ab =>
        simp only
        have hsim := c12_envSim_of sh rels rels' ct' _ hid hct
        have := (c12_readAll_ag hsim fuel {} ab.2
          (c12_useOkL_findChild_some _ _ _ _ ab.1 ab.2 hb hrefs) rfl).1
        have e : ∀ (E : REnv), E = c12_reenv { sh with rels := rels } rels' ct' →
            readAll E fuel {} ab.2 = readAll { sh with rels := rels } fuel {} ab.2 := fun E hE => hE ▸ this
        rw [e _ rfl]

end embedded

/-! ### `docx.read` -/

theorem c12_readPackage_eq (p : Package) (fuel : Nat) :
    readPackage p fuel = (do
      let paths ← findPartPaths p
      let shared ← readSharedEnv p paths
      let nf ← readNotesPart p shared fuel paths.footnotes S!"footnote"
      let ne ← readNotesPart p shared fuel paths.endnotes S!"endnote"
      let cm ← readCommentsPart p shared fuel paths.comments
      let r ← c12_mainPart p shared fuel paths.mainDocument
      pure ({ children := r.elements, notes := nf.1 ++ ne.1, comments := cm.1 },
            nf.2 ++ ne.2 ++ cm.2 ++ r.messages)) := by
  unfold readPackage c12_mainPart
  simp only [bind, Except.bind, pure, Except.pure]
  cases findPartPaths p with
  | error e => rfl
  | ok paths =>
    simp only
    cases readSharedEnv p paths with
    | error e => rfl
    | ok shared =>
      simp only
      cases readNotesPart p shared fuel paths.footnotes S!"footnote" with
      | error e => rfl
      | ok nf =>
        simp only
        cases readNotesPart p shared fuel paths.endnotes S!"endnote" with
        | error e => rfl
        | ok ne =>
          simp only
          cases readCommentsPart p shared fuel paths.comments with
          | error e => rfl
          | ok cm =>
            simp only
            cases p.readRels (relsPathFor paths.mainDocument) with
            | error e => rfl
            | ok rels =>
              simp only
              cases p.readXml paths.mainDocument with
              | error e => rfl
              | ok v =>
                simp only
                cases findChild S!"w:body" v.2 with
                | none => rfl
                | some ab =>
                  simp only
                  cases readAll { shared with rels := rels } fuel {} ab.2 <;> rfl

/-- `docx.read` of the package after the embed equals `docx.read` of the original -/
theorem c12_readPackage_embedded (p : Package) (s : Str) (p' : Package) (fuel : Nat)
    (h : c12_embedPkg p s = some p')
    (h1 : c12_relEntryOk p = true) (h2 : c12_overrideEntryOk p = true)
    (h3 : c12_lookupOk p = true) (h4 : c12_refsOk p = true) :
    readPackage p' fuel = readPackage p fuel := by
  obtain ⟨r, r', t, t', hr, hr', ht, ht', rfl⟩ := c12_embedPkg_inv p s p' h
  rw [c12_readPackage_eq, c12_readPackage_eq]
  obtain ⟨hpaths, hroles⟩ := c12_findPartPaths_embedded p s r r' t t' hr ht hr' h1 h3
  rw [hpaths]
  unfold c12_refsOk at h4
  cases hfp : findPartPaths p with
  | error e => simp only [bind, Except.bind]
  | ok paths =>
    rw [hfp] at h4
    simp only at h4
    obtain ⟨rm, rc, re, rf, rn, rs⟩ := hroles paths hfp
    simp only [bind, Except.bind]
    rcases c12_readSharedEnv_embedded p s t t' ht ht' (r' := r') h2 paths rs rn with
      ⟨e, e1, e2⟩ | ⟨sh, ct', e1, e2, hct⟩
    · rw [e1, e2]
    · rw [e1, e2]
      rw [e1] at h4
      simp only [Bool.and_eq_true] at h4
      obtain ⟨⟨⟨q1, q2⟩, q3⟩, q4⟩ := h4
      simp only
      rw [c12_readNotesPart_embedded p s r r' t' hr hr' h1 sh ct' hct fuel _ _ rf q1,
        c12_readNotesPart_embedded p s r r' t' hr hr' h1 sh ct' hct fuel _ _ re q2,
        c12_readCommentsPart_embedded p s r r' t' hr hr' h1 sh ct' hct fuel _ rc q3]
      -- the main document exists (else `_find_part_paths` had failed)
      have hex : p.exists paths.mainDocument = true := by
        rw [c12_findPartPaths_eq] at hfp
        split at hfp
        · cases hfp
        · split at hfp
          · rename_i hx
            split at hfp
            · cases hfp
            · cases hfp; exact hx
          · cases hfp
      rw [c12_mainPart_embedded p s r r' t' hr hr' h1 sh ct' hct fuel _ rm hex q4]

end Mammoth
