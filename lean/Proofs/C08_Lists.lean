/-
  C08 — nesting of list items: `collapse` on default list paths refines a stack machine.
-/
import Proofs.C08_Blocks
import Proofs.C08_DefaultMap
namespace Mammoth

/-- an open list level on the right-most spine of the output: the siblings `pre` that precede the
    open list element, its tag, its already closed items, and the tag of its open (last) item -/
structure c08_Level where
  pre : List Node
  ltag : Tag
  items : List Node
  litag : Tag
deriving Inhabited

/-- the forest denoted by a stack of open levels (outermost first) and the children `c` of the
    innermost open item (of the top level, if no list is open) -/
def c08_rend : List c08_Level → List Node → List Node
  | [], c => c
  | L :: S, c => L.pre ++ [.elem L.ltag (L.items ++ [.elem L.litag (c08_rend S c)])]

/-- a tag that `ul|ol` merges into -/
def c08_isListTag (t : Tag) : Bool := decide ((t.name = S!"ul" ∨ t.name = S!"ol") ∧ t.attrs = [])
/-- a tag that `li` merges into -/
def c08_isLiTag (t : Tag) : Bool := decide (t.name = S!"li" ∧ t.attrs = [])

/-- the last node is not an element that a list tag would merge into -/
def c08_inert (c : List Node) : Bool :=
  match c.getLast? with
  | some (.elem t _) => !c08_isListTag t
  | _ => true

def c08_wf (S : List c08_Level) : Bool := S.all fun L => c08_isListTag L.ltag && c08_isLiTag L.litag

/-- the single node of `wrapElems (c08_listPath k ordered) content` -/
def c08_listNode : Nat → Bool → List Node → Node
  | 0, o, content => .elem (c08_listTag o) [.elem c08_liFresh content]
  | k+1, o, content => .elem c08_ulol [.elem c08_li [c08_listNode k o content]]

theorem c08_wrap_listPath (k : Nat) (o : Bool) (content : List Node) :
    wrapElems (c08_listPath k o) content = [c08_listNode k o content] := by
  induction k with
  | zero => simp [c08_listPath, c08_outer, wrapElems, c08_listNode]
  | succ k ih =>
    simp only [c08_listPath, c08_outer, List.cons_append, wrapElems, c08_listNode] at ih ⊢
    rw [ih]

/-- THE SPECIFICATION: what a list item at depth `k+1` of kind `o` does to the open stack.
    Levels above the item's depth are reused as they are (created as `ul|ol > li` where none is
    open); the item's own level is reused iff a list of the same kind is open there, otherwise the
    open one is closed and a new list is opened next to it; deeper levels are closed. -/
def c08_step : List c08_Level → List Node → Nat → Bool → List c08_Level
  | [], c, 0, o => [⟨c, c08_listTag o, [], c08_liFresh⟩]
  | [], c, k+1, o => ⟨c, c08_ulol, [], c08_li⟩ :: c08_step [] [] k o
  | L :: S, c, 0, o =>
    if L.ltag.name = (c08_listTag o).name then
      [⟨L.pre, L.ltag, L.items ++ [.elem L.litag (c08_rend S c)], c08_liFresh⟩]
    else
      [⟨L.pre ++ [.elem L.ltag (L.items ++ [.elem L.litag (c08_rend S c)])], c08_listTag o, [], c08_liFresh⟩]
  | L :: S, c, k+1, o => L :: c08_step S c k o

/-! ### `addC` against a last element -/

theorem c08_addC_snoc_merge (xs : List Node) (lt t : Tag) (lcs cs : List Node)
    (hc : t.collapsible = true) (hm : isMatch lt t = true) :
    addC (xs ++ [.elem lt lcs]) (.elem t cs) = xs ++ [.elem lt (addAllC (lcs ++ sepText t) cs)] := by
  have hl : (xs ++ [Node.elem lt lcs]).getLast? = some (.elem lt lcs) := by simp
  have := addC_elem_merge _ t lt cs lcs hl hc hm
  rw [this]
  simp

theorem c08_addC_snoc_nomerge (xs : List Node) (lt t : Tag) (lcs cs : List Node)
    (h : (t.collapsible && isMatch lt t) = false) :
    addC (xs ++ [.elem lt lcs]) (.elem t cs) = xs ++ [.elem lt lcs] ++ [.elem t cs] := by
  have hl : (xs ++ [Node.elem lt lcs]).getLast? = some (.elem lt lcs) := by simp
  exact addC_elem_nomerge_cond _ t lt cs lcs hl h

theorem c08_isMatch_ulol (lt : Tag) : isMatch lt c08_ulol = c08_isListTag lt := by
  rw [Bool.eq_iff_iff]
  simp [isMatch, c08_ulol, c08_isListTag, Tag.names]

theorem c08_isMatch_li (lt : Tag) : isMatch lt c08_li = c08_isLiTag lt := by
  rw [Bool.eq_iff_iff]
  simp [isMatch, c08_li, c08_isLiTag, Tag.names]

theorem c08_isMatch_listTag (lt : Tag) (o : Bool) :
    isMatch lt (c08_listTag o) = decide (lt.name = (c08_listTag o).name ∧ lt.attrs = []) := by
  rw [Bool.eq_iff_iff]
  cases o <;> simp [isMatch, c08_listTag, c08_ul, c08_ol, Tag.names]

theorem c08_listTag_collapsible (o : Bool) : (c08_listTag o).collapsible = true := by
  cases o <;> rfl

theorem c08_sepText_listTag (o : Bool) : sepText (c08_listTag o) = [] := by cases o <;> rfl

theorem c08_isListTag_listTag (o : Bool) : c08_isListTag (c08_listTag o) = true := by
  cases o <;> decide

/-- a list tag added after an inert forest starts a new element -/
theorem c08_addC_inert (c : List Node) (t : Tag) (cs : List Node) (hi : c08_inert c = true)
    (ht : ∀ lt, isMatch lt t = true → c08_isListTag lt = true) :
    addC c (.elem t cs) = c ++ [.elem t cs] := by
  unfold addC
  split
  · rename_i lt lcs hl
    split
    · rename_i hc
      simp only [Bool.and_eq_true] at hc
      have := ht lt hc.2
      simp [c08_inert, hl, this] at hi
    · rfl
  · rfl

theorem c08_listTag_match_isList (o : Bool) (lt : Tag) (h : isMatch lt (c08_listTag o) = true) :
    c08_isListTag lt = true := by
  rw [c08_isMatch_listTag] at h
  cases o <;> simp_all [c08_isListTag, c08_listTag, c08_ul, c08_ol]

/-- THE REFINEMENT STEP: adding the node of a list item to the forest denoted by a stack is the
    forest denoted by the stepped stack -/
theorem c08_addC_listNode (k : Nat) (o : Bool) (content : List Node) (S : List c08_Level) (c : List Node)
    (hw : c08_wf S = true) (hi : c08_inert c = true) :
    addC (c08_rend S c) (c08_listNode k o content) = c08_rend (c08_step S c k o) content := by
  induction k generalizing S c with
  | zero =>
    cases S with
    | nil =>
      simp only [c08_rend, c08_listNode, c08_step, List.nil_append]
      exact c08_addC_inert c _ _ hi (c08_listTag_match_isList o)
    | cons L S =>
      have hL : c08_isListTag L.ltag = true := by
        simp only [c08_wf, List.all_cons, Bool.and_eq_true] at hw; exact hw.1.1
      have hattrs : L.ltag.attrs = [] := by
        simp only [c08_isListTag, decide_eq_true_eq] at hL; exact hL.2
      simp only [c08_rend, c08_listNode, c08_step]
      by_cases hn : L.ltag.name = (c08_listTag o).name
      · rw [c08_addC_snoc_merge _ _ _ _ _ (c08_listTag_collapsible o)
          (by rw [c08_isMatch_listTag]; simp [hn, hattrs])]
        simp [hn, c08_rend, c08_sepText_listTag, c08_liFresh, c08_fresh, addC]
      · rw [c08_addC_snoc_nomerge _ _ _ _ _ (by rw [c08_isMatch_listTag]; simp [hn])]
        simp [hn, c08_rend]
  | succ k ih =>
    cases S with
    | nil =>
      simp only [c08_rend, c08_listNode, c08_step, List.nil_append]
      rw [c08_addC_inert c _ _ hi (fun lt h => by rw [c08_isMatch_ulol] at h; exact h)]
      have := ih [] [] (by simp [c08_wf]) (by simp [c08_inert])
      simp only [c08_rend, c08_addC_nil] at this
      rw [← this]
    | cons L S =>
      have hw' : (c08_isListTag L.ltag = true ∧ c08_isLiTag L.litag = true) ∧ c08_wf S = true := by
        simpa [c08_wf] using hw
      simp only [c08_rend, c08_listNode, c08_step]
      rw [c08_addC_snoc_merge _ _ _ _ _ rfl (by rw [c08_isMatch_ulol]; exact hw'.1.1)]
      have hs1 : sepText c08_ulol = [] := rfl
      have hs2 : sepText c08_li = [] := rfl
      simp only [hs1, List.append_nil, addAllC_cons, addAllC_nil]
      rw [c08_addC_snoc_merge _ _ _ _ _ rfl (by rw [c08_isMatch_li]; exact hw'.1.2)]
      simp only [hs2, List.append_nil, addAllC_cons, addAllC_nil]
      rw [ih S c hw'.2 hi]

/-! ### structure of a step -/

theorem c08_step_length (S : List c08_Level) (c : List Node) (k : Nat) (o : Bool) :
    (c08_step S c k o).length = k + 1 := by
  induction k generalizing S c with
  | zero =>
    cases S with
    | nil => simp [c08_step]
    | cons L S => simp only [c08_step]; split <;> simp
  | succ k ih =>
    cases S with
    | nil => simp [c08_step, ih]
    | cons L S => simp [c08_step, ih]

/-- the lists enclosing the new item above its own depth are the ones that were open, unchanged -/
theorem c08_step_prefix (S : List c08_Level) (c : List Node) (k : Nat) (o : Bool) (i : Nat)
    (hik : i < k) (hiS : i < S.length) : (c08_step S c k o)[i]? = S[i]? := by
  induction k generalizing S c i with
  | zero => omega
  | succ k ih =>
    cases S with
    | nil => simp at hiS
    | cons L S =>
      cases i with
      | zero => simp [c08_step]
      | succ i =>
        simp only [c08_step, List.getElem?_cons_succ]
        exact ih S c i (by omega) (by simpa using hiS)

/-- the innermost open level after a step: a list of the item's kind whose open item is `li:fresh` -/
theorem c08_step_last (S : List c08_Level) (c : List Node) (k : Nat) (o : Bool) :
    ∃ L, (c08_step S c k o)[k]? = some L ∧ L.litag = c08_liFresh ∧
      L.ltag.name = (c08_listTag o).name := by
  induction k generalizing S c with
  | zero =>
    cases S with
    | nil => exact ⟨⟨c, c08_listTag o, [], c08_liFresh⟩, by simp [c08_step], rfl, rfl⟩
    | cons L S =>
      simp only [c08_step]
      split
      · rename_i h
        exact ⟨⟨L.pre, L.ltag, L.items ++ [.elem L.litag (c08_rend S c)], c08_liFresh⟩, by simp, rfl, h⟩
      · exact ⟨⟨L.pre ++ [.elem L.ltag (L.items ++ [.elem L.litag (c08_rend S c)])], c08_listTag o, [],
          c08_liFresh⟩, by simp, rfl, rfl⟩
  | succ k ih =>
    cases S with
    | nil =>
      obtain ⟨L, h1, h2, h3⟩ := ih [] []
      exact ⟨L, by simpa [c08_step] using h1, h2, h3⟩
    | cons L0 S =>
      obtain ⟨L, h1, h2, h3⟩ := ih S c
      exact ⟨L, by simpa [c08_step] using h1, h2, h3⟩

/-- at the item's own depth an open list of the same kind is continued: same element (same
    preceding siblings, same tag), one more closed item -/
theorem c08_step_reuse (S : List c08_Level) (c : List Node) (k : Nat) (o : Bool) (L : c08_Level)
    (hL : S[k]? = some L) (hk : L.ltag.name = (c08_listTag o).name) :
    (c08_step S c k o)[k]? =
      some ⟨L.pre, L.ltag, L.items ++ [.elem L.litag (c08_rend (S.drop (k+1)) c)], c08_liFresh⟩ := by
  induction k generalizing S c with
  | zero =>
    cases S with
    | nil => simp at hL
    | cons L0 S =>
      simp only [List.getElem?_cons_zero, Option.some.injEq] at hL
      subst hL
      simp [c08_step, hk]
  | succ k ih =>
    cases S with
    | nil => simp at hL
    | cons L0 S =>
      simp only [List.getElem?_cons_succ] at hL
      simpa [c08_step] using ih S c hL

/-- … and an open list of the other kind is closed and a new list opened right after it -/
theorem c08_step_new (S : List c08_Level) (c : List Node) (k : Nat) (o : Bool) (L : c08_Level)
    (hL : S[k]? = some L) (hk : L.ltag.name ≠ (c08_listTag o).name) :
    (c08_step S c k o)[k]? =
      some ⟨L.pre ++ [.elem L.ltag (L.items ++ [.elem L.litag (c08_rend (S.drop (k+1)) c)])],
            c08_listTag o, [], c08_liFresh⟩ := by
  induction k generalizing S c with
  | zero =>
    cases S with
    | nil => simp at hL
    | cons L0 S =>
      simp only [List.getElem?_cons_zero, Option.some.injEq] at hL
      subst hL
      simp [c08_step, hk]
  | succ k ih =>
    cases S with
    | nil => simp at hL
    | cons L0 S =>
      simp only [List.getElem?_cons_succ] at hL
      simpa [c08_step] using ih S c hL

theorem c08_wf_step (S : List c08_Level) (c : List Node) (k : Nat) (o : Bool) (hw : c08_wf S = true) :
    c08_wf (c08_step S c k o) = true := by
  have hfresh : c08_isLiTag c08_liFresh = true := by decide
  have hli : c08_isLiTag c08_li = true := by decide
  have hulol : c08_isListTag c08_ulol = true := by decide
  induction k generalizing S c with
  | zero =>
    cases S with
    | nil => simp [c08_step, c08_wf, hfresh, c08_isListTag_listTag]
    | cons L S =>
      have hw' : (c08_isListTag L.ltag = true ∧ c08_isLiTag L.litag = true) ∧ c08_wf S = true := by
        simpa [c08_wf] using hw
      simp only [c08_step]
      split <;> simp [c08_wf, hfresh, c08_isListTag_listTag, hw'.1.1]
  | succ k ih =>
    cases S with
    | nil =>
      have := ih [] [] (by simp [c08_wf])
      simp only [c08_wf] at this
      simp [c08_step, c08_wf, hli, hulol, this]
    | cons L S =>
      have hw' : (c08_isListTag L.ltag = true ∧ c08_isLiTag L.litag = true) ∧ c08_wf S = true := by
        simpa [c08_wf] using hw
      have := ih S c hw'.2
      simp only [c08_wf] at this
      simp [c08_step, c08_wf, hw'.1.1, hw'.1.2, this]

/-! ### reading the nesting off a denoted forest -/

/-- the tags met when following the last child `n` times -/
def c08_spineTags : Nat → List Node → List Tag
  | 0, _ => []
  | n+1, ns => match ns.getLast? with
    | some (.elem t cs) => t :: c08_spineTags n cs
    | _ => []

theorem c08_spineTags_rend (S : List c08_Level) (c : List Node) :
    c08_spineTags (2 * S.length) (c08_rend S c) = S.flatMap fun L => [L.ltag, L.litag] := by
  induction S with
  | nil => simp [c08_spineTags]
  | cons L S ih =>
    have : 2 * (L :: S).length = (2 * S.length + 1) + 1 := by simp; omega
    rw [this]
    simp [c08_spineTags, c08_rend, ih]

theorem c08_descend_rend (L : c08_Level) (S : List c08_Level) (c : List Node) :
    ∃ L', (L :: S).getLast? = some L' ∧
      c08_descend (2 * S.length + 1) (c08_rend (L :: S) c) = some (L'.litag, c) := by
  induction S generalizing L with
  | nil => exact ⟨L, rfl, by simp [c08_descend, c08_rend]⟩
  | cons L1 S ih =>
    obtain ⟨L', h1, h2⟩ := ih L1
    refine ⟨L', by rw [List.getLast?_cons_cons]; exact h1, ?_⟩
    have : 2 * (L1 :: S).length + 1 = (2 * S.length + 1) + 1 + 1 := by simp; omega
    rw [this, c08_rend, c08_descend_snoc_succ, c08_descend_snoc_succ]
    exact h2

/-! ### the machine on a sequence of blocks -/

/-- a converted paragraph: a list item at depth `k+1` of a numbered (`ordered`) or bulleted list,
    or any other block with a one-element fresh path (`h1`..`h6`, `p`) -/
inductive c08_Item where
  | li (k : Nat) (ordered : Bool) (content : List Node)
  | block (t : Tag) (content : List Node)

def c08_nodeOfItem : c08_Item → Node
  | .li k o content => c08_listNode k o content
  | .block t content => .elem t content

/-- side conditions: the (collapsed) content of a list item does not itself end in a bare
    `ul`/`ol` element, a non-list block has a fresh tag that is not a bare `ul`/`ol` -/
def c08_itemOk : c08_Item → Bool
  | .li _ _ content => c08_inert (collapse content)
  | .block t _ => !t.collapsible && !c08_isListTag t

/-- the specification machine: state = open stack + children of the innermost open item -/
def c08_run : List c08_Level × List Node → List c08_Item → List c08_Level × List Node
  | st, [] => st
  | (S, c), .li k o content :: rest => c08_run (c08_step S c k o, collapse content) rest
  | (S, c), .block t content :: rest => c08_run ([], c08_rend S c ++ [.elem t (collapse content)]) rest

theorem c08_collapseNode_listNode (k : Nat) (o : Bool) (content : List Node) :
    collapseNode (c08_listNode k o content) = c08_listNode k o (collapse content) := by
  induction k with
  | zero => simp [c08_listNode, collapseNode, collapseFrom, c08_addC_nil, collapse]
  | succ k ih => simp [c08_listNode, collapseNode, collapseFrom, c08_addC_nil, ih]

theorem c08_addC_fresh (acc : List Node) (t : Tag) (cs : List Node) (h : t.collapsible = false) :
    addC acc (.elem t cs) = acc ++ [.elem t cs] := by
  unfold addC
  split
  · simp [h]
  · rfl

/-- the side conditions along a sequence: an item's content matters only if something follows it -/
def c08_seqOk : List c08_Item → Bool
  | [] => true
  | [.li _ _ _] => true
  | it :: rest => c08_itemOk it && c08_seqOk rest

theorem c08_seqOk_cons (it : c08_Item) (rest : List c08_Item) (h : c08_seqOk (it :: rest) = true) :
    c08_seqOk rest = true ∧ (c08_itemOk it = true ∨ (rest = [] ∧ ∃ k o c, it = .li k o c)) := by
  cases rest with
  | nil =>
    cases it with
    | li k o c => exact ⟨rfl, Or.inr ⟨rfl, k, o, c, rfl⟩⟩
    | block t c =>
      simp only [c08_seqOk, Bool.and_eq_true] at h
      exact ⟨rfl, Or.inl h.1⟩
  | cons r rs =>
    cases it <;> (simp only [c08_seqOk, Bool.and_eq_true] at h; exact ⟨h.2, Or.inl h.1⟩)

theorem c08_seqOk_of_all (items : List c08_Item) (h : items.all c08_itemOk = true) :
    c08_seqOk items = true := by
  induction items with
  | nil => rfl
  | cons it rest ih =>
    have h' : c08_itemOk it = true ∧ rest.all c08_itemOk = true := by simpa using h
    cases rest with
    | nil => cases it <;> simp_all [c08_seqOk]
    | cons r rs => cases it <;> simp_all [c08_seqOk]

theorem c08_collapseFrom_items (items : List c08_Item) (S : List c08_Level) (c : List Node)
    (hw : c08_wf S = true) (hi : items ≠ [] → c08_inert c = true) (hok : c08_seqOk items = true) :
    collapseFrom (c08_rend S c) (items.map c08_nodeOfItem) =
      c08_rend (c08_run (S, c) items).1 (c08_run (S, c) items).2 := by
  induction items generalizing S c with
  | nil => simp [collapseFrom, c08_run]
  | cons it rest ih =>
    have hi' := hi (by simp)
    obtain ⟨hrest, hit⟩ := c08_seqOk_cons it rest hok
    cases it with
    | li k o content =>
      simp only [List.map_cons, collapseFrom, c08_nodeOfItem, c08_run, c08_collapseNode_listNode]
      rw [c08_addC_listNode k o _ S c hw hi']
      refine ih _ _ (c08_wf_step S c k o hw) ?_ hrest
      intro hne
      rcases hit with h | ⟨h, _⟩
      · simpa [c08_itemOk] using h
      · exact absurd h hne
    | block t content =>
      have ht : t.collapsible = false ∧ c08_isListTag t = false := by
        rcases hit with h | ⟨_, k, o, c', h⟩
        · simpa [c08_itemOk] using h
        · cases h
      simp only [List.map_cons, collapseFrom, c08_nodeOfItem, c08_run, collapseNode]
      rw [c08_addC_fresh _ _ _ ht.1]
      have := ih [] (c08_rend S c ++ [.elem t (collapse content)]) (by simp [c08_wf])
        (fun _ => by simp [c08_inert, ht.2]) hrest
      simpa [c08_rend, collapse] using this

/-! ### a sufficient condition for `c08_inert (collapse content)` -/

/-- no top-level node is a bare `ul`/`ol` element -/
def c08_noTopList (ns : List Node) : Bool :=
  ns.all fun n => match n with
    | .elem t _ => !c08_isListTag t
    | _ => true

theorem c08_noTopList_append (a b : List Node) :
    c08_noTopList (a ++ b) = (c08_noTopList a && c08_noTopList b) := by
  simp [c08_noTopList]

theorem c08_noTopList_addC (acc : List Node) (n : Node) (ha : c08_noTopList acc = true)
    (hn : c08_noTopList [n] = true) : c08_noTopList (addC acc n) = true := by
  match n with
  | .text s => rw [addC_text, c08_noTopList_append, ha, hn]; rfl
  | .forceWrite => rw [addC_fw, c08_noTopList_append, ha, hn]; rfl
  | .elem t cs =>
    unfold addC
    split
    · rename_i lt lcs hl
      split
      · have hacc := getLast?_eq_some_append acc _ hl
        rw [hacc, c08_noTopList_append] at ha
        simp only [Bool.and_eq_true] at ha
        rw [c08_noTopList_append, ha.1]
        simpa [c08_noTopList] using ha.2
      · rw [c08_noTopList_append, ha, hn]; rfl
    · rw [c08_noTopList_append, ha, hn]; rfl

theorem c08_noTopList_collapseFrom (acc ns : List Node) (ha : c08_noTopList acc = true)
    (hn : c08_noTopList ns = true) : c08_noTopList (collapseFrom acc ns) = true := by
  induction ns generalizing acc with
  | nil => simpa [collapseFrom] using ha
  | cons n ns ih =>
    have hn' : c08_noTopList [n] = true ∧ c08_noTopList ns = true := by
      simpa [c08_noTopList] using hn
    unfold collapseFrom
    refine ih _ (c08_noTopList_addC acc _ ha ?_) hn'.2
    cases n <;> simp [collapseNode, c08_noTopList] at hn' ⊢ <;> exact hn'.1

theorem c08_inert_of_noTopList (ns : List Node) (h : c08_noTopList ns = true) : c08_inert ns = true := by
  unfold c08_inert
  split
  · rename_i t cs hl
    have hacc := getLast?_eq_some_append ns _ hl
    rw [hacc, c08_noTopList_append] at h
    simp only [Bool.and_eq_true] at h
    simpa [c08_noTopList] using h.2
  · rfl

theorem c08_inert_collapse (content : List Node) (h : c08_noTopList content = true) :
    c08_inert (collapse content) = true :=
  c08_inert_of_noTopList _ (c08_noTopList_collapseFrom [] content (by simp [c08_noTopList]) h)

end Mammoth
