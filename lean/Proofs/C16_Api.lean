/-
  C16 — `apiConvert` in normal form; the raw (not yet de-duplicated) style-map warnings.
-/
import Proofs.C16_Mono
import Proofs.C16_Unique
namespace Mammoth

/-- the configuration `apiConvert` hands to the converter -/
def c16_apiCfg (p : Package) (base : Option Str) (world : Str → Option Bytes) (o : Options)
    (embedded : Option Str) : Cfg :=
  { styleMap := (readOptions o.styleMap embedded o.includeDefault).1, idPrefix := o.idPrefix.getD [],
    ignoreEmpty := o.ignoreEmpty, imageConv := o.imageConv, archive := archiveBytes p,
    base := base, world := world }

/-- what `apiConvert` does once the embedded style map has been read -/
def c16_apiRest (p : Package) (fuel : Nat) (base : Option Str) (world : Str → Option Bytes)
    (tr : Document → Document) (o : Options) (embedded : Option Str) : Except Err ApiOut :=
  match readPackage p fuel with
  | .error e => .error e
  | .ok (doc, readMsgs) =>
    match convertDoc (c16_apiCfg p base world o embedded) (tr doc) with
    | .error e => .error e
    | .ok r =>
      .ok { value := writeWith o.format (collapse (stripEmpty r.nodes)),
            messages := unique ((readOptions o.styleMap embedded o.includeDefault).2 ++ readMsgs ++ r.messages),
            nodes := r.nodes, document := tr doc, ioTrace := r.ioTrace, imageCalls := r.imageCalls }

theorem c16_apiConvert_eq (p : Package) (fuel : Nat) (base : Option Str) (world : Str → Option Bytes)
    (tr : Document → Document) (o : Options) :
    apiConvert p fuel base world tr o =
      match (if o.includeEmbedded then readEmbeddedStyleMap p else .ok none) with
      | .error e => .error e
      | .ok embedded => c16_apiRest p fuel base world tr o embedded := by
  unfold apiConvert c16_apiRest c16_apiCfg
  cases o.includeEmbedded
  · simp only [Bool.false_eq_true, if_false, bind, Except.bind, pure, Except.pure]
    cases readPackage p fuel with
    | error e => rfl
    | ok dr =>
      obtain ⟨doc, readMsgs⟩ := dr
      simp only
      cases convertDoc _ (tr doc) <;> rfl
  · simp only [if_true, bind, Except.bind, pure, Except.pure]
    cases readEmbeddedStyleMap p with
    | error e => rfl
    | ok embedded =>
      simp only
      cases readPackage p fuel with
      | error e => rfl
      | ok dr =>
        obtain ⟨doc, readMsgs⟩ := dr
        simp only
        cases convertDoc _ (tr doc) <;> rfl

/-- one warning per style-map line that could not be understood, in order, duplicates kept -/
def c16_styleWarnings (text : Str) : List Str :=
  ((styleLines text).map fun l => (l, readStyleMapping l)).filterMap
    fun (l, r) => if r.isNone then some (styleWarning l) else none

theorem c16_readStyleMap_messages (text : Str) :
    (readStyleMap text).2 = unique (c16_styleWarnings text) := rfl

/-- `readElem` on an element whose name has no handler (by unfolding one step of the dispatcher) -/
theorem c16_readElem_nohandler (env : REnv) (f : Nat) (st : RState) (name : Str) (as : Attrs)
    (cs : List XmlNode) (hh : handlerOf name = none) :
    readElem env (f + 1) st (.elem name as cs) =
      if Generated.ignored.contains name then .ok ({}, st)
      else .ok (rrMsg (S!"An unrecognised element was ignored: " ++ name), st) := by
  show (match handlerOf name with | none => _ | some h => _) = _
  rw [hh]

end Mammoth
