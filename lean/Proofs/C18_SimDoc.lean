/-
  C18 — the simulation for notes, comments, `visitDocument`, `convertDoc`, `apiConvert`.
-/
import Proofs.C18_SimVisit
namespace Mammoth

theorem c18_sim_visitNote (cfg : Cfg) (b : Option Str) (w : Str → Option Bytes) (n : Note) :
    c18_sim c18_any (visitNote cfg n) (visitNote (c18_reworld cfg b w) n) := by
  unfold visitNote
  exact c18_sim_then_pure (c18_sim_visitAll cfg b w false n.body) (fun _ _ => c18_sim_pure_any)

theorem c18_sim_visitComment (cfg : Cfg) (b : Option Str) (w : Str → Option Bytes)
    (lc : Str × Comment) :
    c18_sim c18_any (visitComment cfg lc) (visitComment (c18_reworld cfg b w) lc) := by
  unfold visitComment
  exact c18_sim_then_pure (c18_sim_visitAll cfg b w false lc.2.body) (fun _ _ => c18_sim_pure_any)

theorem c18_sim_mapMConcat {α : Type} (f f' : α → ConvM (List Node)) (xs : List α)
    (h : ∀ x, c18_sim c18_any (f x) (f' x)) :
    c18_sim c18_any (mapMConcat f xs) (mapMConcat f' xs) := by
  induction xs with
  | nil => simp only [mapMConcat]; exact c18_sim_pure_any
  | cons x xs ih =>
    simp only [mapMConcat]
    refine c18_sim_then_pure (h x) ?_
    intro a a'
    exact c18_sim_then_pure ih (fun _ _ => c18_sim_pure_any)

theorem c18_sim_visitDocument (cfg : Cfg) (b : Option Str) (w : Str → Option Bytes)
    (d : Document) :
    c18_sim c18_any (visitDocument cfg d) (visitDocument (c18_reworld cfg b w) d) := by
  unfold visitDocument
  refine c18_sim_then_pure (c18_sim_visitAll cfg b w false d.children) ?_
  intro nodes nodes'
  refine c18_sim_bind c18_sim_get ?_
  intro s s' hs
  dsimp only
  rw [hs.1]
  generalize List.mapM (resolveNote d.notes) s'.noteRefs = res
  cases res with
  | error e =>
    dsimp only
    exact c18_sim_bind (c18_sim_throw (fun _ _ => False) e) (fun _ _ h => h.elim)
  | ok notes =>
    dsimp only
    refine c18_sim_bind (c18_sim_pure (R := Eq) rfl) ?_
    intro ns ns' e
    subst e
    refine c18_sim_then_pure (c18_sim_mapMConcat _ _ ns (c18_sim_visitNote cfg b w)) ?_
    intro nn nn'
    refine c18_sim_bind c18_sim_get ?_
    intro t t' ht
    rw [ht.2]
    refine c18_sim_then_pure (c18_sim_mapMConcat _ _ _ (c18_sim_visitComment cfg b w)) ?_
    intro cn cn'
    exact c18_sim_pure_any

/-- Success or failure of `convertDoc` (with the very same error), and the note references it
    collects, do not depend on the input's directory nor on the outside world. -/
theorem c18_convertDoc_reworld (cfg : Cfg) (b : Option Str) (w : Str → Option Bytes)
    (d : Document) :
    (convertDoc cfg d).map (·.noteRefs) = (convertDoc (c18_reworld cfg b w) d).map (·.noteRefs) := by
  have h := c18_sim_visitDocument { cfg with comments := d.comments } b w d {} {} ⟨rfl, rfl⟩
  unfold convertDoc
  change c18_simR c18_any ((visitDocument { cfg with comments := d.comments } d).run {})
    ((visitDocument { c18_reworld cfg b w with comments := d.comments } d).run {}) at h
  cases e : (visitDocument { cfg with comments := d.comments } d).run {} with
  | error err =>
    cases e' : (visitDocument { c18_reworld cfg b w with comments := d.comments } d).run {} with
    | error err' => rw [e, e'] at h; cases h; rfl
    | ok p' => rw [e, e'] at h; exact h.elim
  | ok p =>
    cases e' : (visitDocument { c18_reworld cfg b w with comments := d.comments } d).run {} with
    | error err' => rw [e, e'] at h; exact h.elim
    | ok p' =>
      rw [e, e'] at h
      obtain ⟨a, s⟩ := p
      obtain ⟨a', s'⟩ := p'
      have := h.2.1
      simp only [Except.map]
      rw [this]

theorem c18_convertDoc_reworld_cases (cfg : Cfg) (b : Option Str) (w : Str → Option Bytes)
    (d : Document) :
    (∃ e, convertDoc cfg d = .error e ∧ convertDoc (c18_reworld cfg b w) d = .error e) ∨
    (∃ r r', convertDoc cfg d = .ok r ∧ convertDoc (c18_reworld cfg b w) d = .ok r') := by
  have h := c18_convertDoc_reworld cfg b w d
  cases e : convertDoc cfg d with
  | error err =>
    cases e' : convertDoc (c18_reworld cfg b w) d with
    | error err' => rw [e, e'] at h; cases h; exact Or.inl ⟨_, rfl, rfl⟩
    | ok r' => rw [e, e'] at h; cases h
  | ok r =>
    cases e' : convertDoc (c18_reworld cfg b w) d with
    | error err' => rw [e, e'] at h; cases h
    | ok r' => exact Or.inr ⟨r, r', rfl, rfl⟩

/-- the configuration built by `apiConvert` -/
@[reducible] def c18_apiCfg (p : Package) (o : Options) (sm : List Style) (base : Option Str)
    (world : Str → Option Bytes) : Cfg :=
  { styleMap := sm, idPrefix := o.idPrefix.getD [], ignoreEmpty := o.ignoreEmpty,
    imageConv := o.imageConv, archive := archiveBytes p, base := base, world := world }

/-- the tail of `apiConvert` after the options were read -/
@[reducible] def c18_apiTail (p : Package) (fuel : Nat) (base : Option Str)
    (world : Str → Option Bytes) (transform : Document → Document) (o : Options)
    (ro : List Style × List Str) : Except Err ApiOut :=
  readPackage p fuel >>= fun x =>
    convertDoc (c18_apiCfg p o ro.fst base world) (transform x.fst) >>= fun r =>
    pure { value := writeWith o.format (collapse (stripEmpty r.nodes)),
           messages := unique (ro.snd ++ x.snd ++ r.messages),
           nodes := r.nodes, document := transform x.fst, ioTrace := r.ioTrace,
           imageCalls := r.imageCalls }

theorem c18_apiTail_reworld (p : Package) (fuel : Nat) (base base' : Option Str)
    (world world' : Str → Option Bytes) (transform : Document → Document) (o : Options)
    (ro : List Style × List Str) :
    Except.map (·.document) (c18_apiTail p fuel base world transform o ro) =
      Except.map (·.document) (c18_apiTail p fuel base' world' transform o ro) := by
  cases hr : readPackage p fuel with
  | error e => simp only [bind, Except.bind, c18_apiTail, hr]
  | ok dm =>
    rcases c18_convertDoc_reworld_cases (c18_apiCfg p o ro.fst base world)
        base' world' (transform dm.fst) with
      ⟨e, h1, h2⟩ | ⟨r, r', h1, h2⟩
    · have h2' : convertDoc (c18_apiCfg p o ro.fst base' world') (transform dm.fst) = .error e := h2
      simp only [bind, Except.bind, c18_apiTail, hr, h1, h2']
    · have h2' : convertDoc (c18_apiCfg p o ro.fst base' world') (transform dm.fst) = .ok r' := h2
      simp only [bind, Except.bind, c18_apiTail, hr, h1, h2', pure, Except.pure, Except.map]

theorem c18_apiConvert_eq (p : Package) (fuel : Nat) (base : Option Str)
    (world : Str → Option Bytes) (transform : Document → Document) (o : Options) :
    apiConvert p fuel base world transform o =
      ((if o.includeEmbedded then readEmbeddedStyleMap p else pure none) >>= fun embedded =>
        c18_apiTail p fuel base world transform o
          (readOptions o.styleMap embedded o.includeDefault)) := by
  unfold apiConvert
  dsimp only
  by_cases hi : o.includeEmbedded = true
  · simp only [hi, if_true]
  · simp only [hi, Bool.false_eq_true, if_false]

theorem c18_map_bind_congr {α β γ : Type} (f : β → γ) (x : Except Err α) (g g' : α → Except Err β)
    (h : ∀ a, Except.map f (g a) = Except.map f (g' a)) :
    Except.map f (x >>= g) = Except.map f (x >>= g') := by
  cases x with
  | error e => rfl
  | ok a => exact h a

theorem c18_apiConvert_reworld (p : Package) (fuel : Nat) (base base' : Option Str)
    (world world' : Str → Option Bytes) (transform : Document → Document) (o : Options) :
    (apiConvert p fuel base world transform o).map (·.document) =
      (apiConvert p fuel base' world' transform o).map (·.document) := by
  rw [c18_apiConvert_eq, c18_apiConvert_eq]
  exact c18_map_bind_congr (·.document) _
    (fun embedded => c18_apiTail p fuel base world transform o
      (readOptions o.styleMap embedded o.includeDefault))
    (fun embedded => c18_apiTail p fuel base' world' transform o
      (readOptions o.styleMap embedded o.includeDefault))
    (fun embedded => c18_apiTail_reworld p fuel base base' world world' transform o _)

end Mammoth
