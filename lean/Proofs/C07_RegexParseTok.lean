/-
  C07 — the regex-driven tokeniser `c07_tokeniseRx` (the rules parsed from the source of
  tokeniser.py, tried in order with the backtracking matcher, first match wins) computes exactly
  what the hand-written lexer `tokenise` computes.
-/
import Proofs.C07_RegexParse
namespace Mammoth

theorem c07_firstMatch_snd (ty : TokTy) (r : C07Regex) (rest : List (TokTy × C07Regex)) (s : Str) :
    (c07_firstMatch ((ty, r) :: rest) s).2 =
      match (r.exec s).2 with
      | some s' => some (⟨ty, s.take (s.length - s'.length)⟩, s')
      | none => (c07_firstMatch rest s).2 := by
  simp only [c07_firstMatch]
  generalize r.exec s = R
  obtain ⟨n, o⟩ := R
  cases o <;> rfl

theorem c07_firstMatch_fst (ty : TokTy) (r : C07Regex) (rest : List (TokTy × C07Regex)) (s : Str) :
    (c07_firstMatch ((ty, r) :: rest) s).1 =
      match (r.exec s).2 with
      | some _ => r.steps s
      | none => r.steps s + (c07_firstMatch rest s).1 := by
  simp only [c07_firstMatch, C07Regex.steps]
  generalize r.exec s = R
  obtain ⟨n, o⟩ := R
  cases o <;> rfl

theorem c07_firstMatch_nil (s : Str) : c07_firstMatch [] s = (0, none) := rfl

/-- the matched prefix, recovered from what is left -/
theorem c07_take_of_split (m r s : Str) (h : m ++ r = s) : s.take (s.length - r.length) = m := by
  subst h; simp

/-- STRING then UNTERMINATED_STRING inside the rule list is `c07_lexStringRx` -/
theorem c07_string_steps_of_rx (s : Str) (X : Option (Token × Str)) :
    (match (c07_stringRuleNew.exec s).2 with
     | some s' => some ((⟨.string, s.take (s.length - s'.length)⟩ : Token), s')
     | none =>
       match (c07_unterminatedRule.exec s).2 with
       | some s' => some (⟨.unterminated, s.take (s.length - s'.length)⟩, s')
       | none => X) =
    match c07_lexStringRx s with
    | some (ty, m, r) => some (⟨ty, m⟩, r)
    | none => X := by
  unfold c07_lexStringRx
  cases (c07_stringRuleNew.exec s).2 with
  | some s' => rfl
  | none =>
    cases (c07_unterminatedRule.exec s).2 with
    | some s' => rfl
    | none => rfl

/-- one round of `regex_tokeniser`'s loop, with the regexes, is `lexOne` -/
theorem c07_firstMatch_lexOne (s : Str) : (c07_firstMatch c07_handRules s).2 = lexOne s := by
  unfold c07_handRules lexOne
  rw [c07_firstMatch_snd, (c07_ident_agrees s).2]
  cases h1 : lexIdent s with
  | some p =>
    obtain ⟨m, r⟩ := p
    simp [c07_take_of_split m r s (c07_lexIdent_split s m r h1).1]
  | none =>
    simp only [Option.map_none]
    rw [c07_firstMatch_snd, c07_symbol_result]
    cases h2 : lexSymbol s with
    | some p =>
      obtain ⟨m, r⟩ := p
      simp [c07_take_of_split m r s (c07_lexSymbol_split s m r h2).1]
    | none =>
      simp only [Option.map_none]
      rw [c07_firstMatch_snd, (c07_ws_agrees s).2]
      cases h3 : lexWs s with
      | some p =>
        obtain ⟨m, r⟩ := p
        simp [c07_take_of_split m r s (c07_lexWs_split s m r h3).1]
      | none =>
        simp only [Option.map_none]
        rw [c07_firstMatch_snd, c07_firstMatch_snd, c07_string_steps_of_rx, c07_lexStringRx_eq]
        cases h4 : lexString s with
        | some p =>
          obtain ⟨ty, m, r⟩ := p
          rfl
        | none =>
          simp only
          rw [c07_firstMatch_snd, (c07_int_agrees s).2]
          cases h5 : lexInt s with
          | some p =>
            obtain ⟨m, r⟩ := p
            simp [c07_take_of_split m r s (c07_lexInt_split s m r h5).1]
          | none =>
            simp only [Option.map_none]
            rw [c07_firstMatch_snd, c07_unknownRule_exec, c07_firstMatch_nil]
            cases s with
            | nil => rfl
            | cons c cs =>
              by_cases hd : isDot c = true
              · simp [hd]
              · simp [hd]

theorem c07_tokeniseRxFuel_cons (rules : List (TokTy × C07Regex)) (f : Nat) (c : Char) (cs : Str) :
    c07_tokeniseRxFuel rules (f+1) (c :: cs) =
      match c07_firstMatch rules (c :: cs) with
      | (n, some (t, r)) => (n + (c07_tokeniseRxFuel rules f r).1, (c07_tokeniseRxFuel rules f r).2.map (t :: ·))
      | (n, none) => (n, none) := by
  rfl

/-- with the same fuel the regex-driven loop and the hand-written loop give the same tokens -/
theorem c07_tokeniseRxFuel_eq (f : Nat) : ∀ s : Str,
    (c07_tokeniseRxFuel c07_handRules f s).2 = tokeniseFuel f s := by
  induction f with
  | zero => intro s; cases s <;> rfl
  | succ f ih =>
    intro s
    cases s with
    | nil => rfl
    | cons c cs =>
      rw [c07_tokeniseRxFuel_cons, c07_tokeniseFuel_cons, ← c07_firstMatch_lexOne]
      generalize c07_firstMatch c07_handRules (c :: cs) = R
      obtain ⟨n, o⟩ := R
      cases o with
      | none => rfl
      | some p =>
        obtain ⟨t, r⟩ := p
        simp only [ih r]

/-- `hgen`: the rules parsed from today's tokeniser.py are the seven hand-written values, in this
    order — a closed computation on `Generated.tokenRules`, checked in Properties/C07.lean
    (`C07_generated_rules`), so that this file does not depend on what the table contains -/
theorem c07_tokeniseRx_eq (hgen : c07_rxRules = some c07_handRules) (s : Str) :
    c07_tokeniseRx s = tokenise s := by
  unfold c07_tokeniseRx c07_tokeniseRxWith
  rw [hgen]
  simp only
  rw [c07_tokeniseRxFuel_eq]
  exact c07_tokeniseFuel_stable _ _ s (by omega) (Nat.le_refl _)

/-- fuel does not matter for the regex-driven loop either (tokens AND steps) once it covers the
    input: every successful match consumes a character -/
theorem c07_tokeniseRxFuel_stable (f : Nat) : ∀ (g : Nat) (s : Str), s.length ≤ f → s.length ≤ g →
    c07_tokeniseRxFuel c07_handRules f s = c07_tokeniseRxFuel c07_handRules g s := by
  induction f with
  | zero =>
    intro g s hf _
    have : s = [] := List.eq_nil_of_length_eq_zero (by omega)
    subst this
    cases g <;> rfl
  | succ f ih =>
    intro g s hf hg
    cases s with
    | nil => cases g <;> rfl
    | cons c cs =>
      cases g with
      | zero => simp at hg
      | succ g =>
        rw [c07_tokeniseRxFuel_cons, c07_tokeniseRxFuel_cons]
        have hl := c07_firstMatch_lexOne (c :: cs)
        generalize c07_firstMatch c07_handRules (c :: cs) = R at hl ⊢
        obtain ⟨n, o⟩ := R
        cases o with
        | none => rfl
        | some p =>
          obtain ⟨t, r⟩ := p
          have := c07_lexOne_shorter _ _ _ hl.symm
          simp only
          rw [ih g r (by simp at hf this; omega) (by simp at hg this; omega)]

end Mammoth
