/-
  C16 — the converter only ever appends to its list of messages.
-/
import Proofs.C03_Lemmas
namespace Mammoth

/-- running `m` can only extend the message list of the state -/
def c16_mono {α} (m : ConvM α) : Prop :=
  ∀ st a st', m.run st = .ok (a, st') → st.messages <+: st'.messages

theorem c16_mono_pure {α} (a : α) : c16_mono (pure a : ConvM α) := by
  intro st b st' h
  have e : (pure a : ConvM α).run st = .ok (a, st) := rfl
  rw [e] at h; cases h
  exact List.prefix_refl _

theorem c16_mono_throw {α} (e : Err) : c16_mono (throw e : ConvM α) := by
  intro st b st' h
  have e' : (throw e : ConvM α).run st = .error e := rfl
  rw [e'] at h; cases h

theorem c16_mono_bind {α β} (m : ConvM α) (f : α → ConvM β)
    (hm : c16_mono m) (hf : ∀ a, c16_mono (f a)) : c16_mono (m >>= f) := by
  intro st b st' h
  rw [c03_bind_run] at h
  cases hr : m.run st with
  | error e => rw [hr] at h; cases h
  | ok r =>
    obtain ⟨a, s1⟩ := r
    rw [hr] at h
    exact List.IsPrefix.trans (hm st a s1 hr) (hf a s1 b st' h)

theorem c16_mono_modify (f : ConvState → ConvState) (hf : ∀ s, s.messages <+: (f s).messages) :
    c16_mono (modify f : ConvM Unit) := by
  intro st b st' h
  have e : (modify f : ConvM Unit).run st = .ok ((), f st) := rfl
  rw [e] at h; cases h
  exact hf st

theorem c16_mono_get : c16_mono (get : ConvM ConvState) := by
  intro st b st' h
  have e : (get : ConvM ConvState).run st = .ok (st, st) := rfl
  rw [e] at h; cases h
  exact List.prefix_refl _

theorem c16_mono_warn (m : Str) : c16_mono (warn m) :=
  c16_mono_modify _ (fun _ => List.prefix_append _ _)

theorem c16_mono_findPathWarn (cfg : Cfg) (t : Target) (kind : Str) (sid sname : Option Str)
    (d : HtmlPath) : c16_mono (findPathWarn cfg t kind sid sname d) := by
  intro st a st' h
  rw [c03_findPathWarn_run] at h; cases h
  unfold c03_warnState
  split
  · exact List.prefix_append _ _
  · exact List.prefix_refl _

theorem c16_mono_openImage (cfg : Cfg) (src : ImageSrc) : c16_mono (openImage cfg src) := by
  unfold openImage
  cases src with
  | embedded name =>
    simp only
    split
    · exact c16_mono_pure _
    · exact c16_mono_throw _
  | linked uri =>
    simp only
    split
    · apply c16_mono_bind
      · exact c16_mono_modify _ (fun s => List.prefix_refl _)
      · intro _; split <;> exact c16_mono_pure _
    · split
      · apply c16_mono_bind
        · exact c16_mono_modify _ (fun s => List.prefix_refl _)
        · intro _; split <;> exact c16_mono_pure _
      · exact c16_mono_pure _

theorem c16_mono_convertImage (cfg : Cfg) (i : ImageProps) : c16_mono (convertImage cfg i) := by
  unfold convertImage
  apply c16_mono_bind
  · exact c16_mono_modify _ (fun s => List.prefix_refl _)
  · intro _
    simp only
    split
    · apply c16_mono_bind
      · exact c16_mono_openImage _ _
      · intro r; split
        · exact c16_mono_pure _
        · exact c16_mono_bind _ _ (c16_mono_warn _) (fun _ => c16_mono_pure _)
    · split
      · apply c16_mono_bind
        · exact c16_mono_openImage _ _
        · intro r; split
          · exact c16_mono_pure _
          · exact c16_mono_bind _ _ (c16_mono_warn _) (fun _ => c16_mono_pure _)
      · exact c16_mono_pure _

mutual
theorem c16_mono_visit (cfg : Cfg) (hdr : Bool) (e : Elem) : c16_mono (visit cfg hdr e) := by
  match e with
  | .paragraph p cs =>
    rw [visit]
    apply c16_mono_bind
    · exact c16_mono_findPathWarn _ _ _ _ _ _
    · intro path
      cases path with
      | ignore => exact c16_mono_pure _
      | elements es =>
        exact c16_mono_bind _ _ (c16_mono_visitAll cfg hdr cs) (fun _ => c16_mono_pure _)
  | .run r cs =>
    rw [visit]
    apply c16_mono_bind
    · exact c16_mono_findPathWarn _ _ _ _ _ _
    · intro sp
      simp only
      split
      · exact c16_mono_pure _
      · exact c16_mono_bind _ _ (c16_mono_visitAll cfg hdr cs) (fun _ => c16_mono_pure _)
  | .text s => rw [visit]; exact c16_mono_pure _
  | .hyperlink h cs =>
    rw [visit]
    exact c16_mono_bind _ _ (c16_mono_visitAll cfg hdr cs) (fun _ => c16_mono_pure _)
  | .checkbox c => rw [visit]; exact c16_mono_pure _
  | .table sid sname rows =>
    rw [visit]
    simp only
    split
    · exact c16_mono_pure _
    · exact c16_mono_bind _ _ (c16_mono_visitRows cfg true rows) (fun _ => c16_mono_pure _)
  | .row h cells =>
    rw [visit]
    exact c16_mono_bind _ _ (c16_mono_visitAll cfg hdr cells) (fun _ => c16_mono_pure _)
  | .cell c r v cs =>
    rw [visit]
    exact c16_mono_bind _ _ (c16_mono_visitAll cfg hdr cs) (fun _ => c16_mono_pure _)
  | .brk ty =>
    rw [visit]
    split
    · exact c16_mono_pure _
    · exact c16_mono_pure _
    · split <;> exact c16_mono_pure _
  | .tab => rw [visit]; exact c16_mono_pure _
  | .image i => rw [visit]; exact c16_mono_convertImage _ _
  | .bookmark n => rw [visit]; exact c16_mono_pure _
  | .noteRef ty id =>
    rw [visit]
    apply c16_mono_bind
    · exact c16_mono_modify _ (fun _ => List.prefix_refl _)
    · intro _
      exact c16_mono_bind _ _ c16_mono_get (fun _ => c16_mono_pure _)
  | .commentRef id =>
    rw [visit]
    split
    · exact c16_mono_pure _
    · exact c16_mono_pure _
    · split
      · exact c16_mono_throw _
      · apply c16_mono_bind _ _ c16_mono_get
        intro _
        apply c16_mono_bind
        · exact c16_mono_modify _ (fun _ => List.prefix_refl _)
        · intro _; exact c16_mono_pure _
theorem c16_mono_visitAll (cfg : Cfg) (hdr : Bool) (es : List Elem) :
    c16_mono (visitAll cfg hdr es) := by
  match es with
  | [] => rw [visitAll]; exact c16_mono_pure _
  | e :: es =>
    rw [visitAll]
    apply c16_mono_bind _ _ (c16_mono_visit cfg hdr e)
    intro _
    exact c16_mono_bind _ _ (c16_mono_visitAll cfg hdr es) (fun _ => c16_mono_pure _)
theorem c16_mono_visitRows (cfg : Cfg) (inHead : Bool) (rs : List Elem) :
    c16_mono (visitRows cfg inHead rs) := by
  match rs with
  | [] => rw [visitRows]; exact c16_mono_pure _
  | r :: rs =>
    rw [visitRows]
    split
    · apply c16_mono_bind _ _ (c16_mono_visit cfg true r)
      intro _
      exact c16_mono_bind _ _ (c16_mono_visitRows cfg true rs) (fun _ => c16_mono_pure _)
    · apply c16_mono_bind _ _ (c16_mono_visit cfg false r)
      intro _
      exact c16_mono_bind _ _ (c16_mono_visitRows cfg false rs) (fun _ => c16_mono_pure _)
end

end Mammoth
