/-
  C10, global part 6: ids and hrefs through `strip_empty` and `collapse`.
-/
import Proofs.C10_Global
import Proofs.Strip
import Proofs.Collapse
namespace Mammoth

/-! ### strip_empty = prune -/

mutual
/-- a node without content in which every element with an id has content carries no id at all -/
theorem c10_ids_noContent (n : Node) (h : hasContent n = false) (hi : c10_idContent n = true) :
    valsOf S!"id" n = [] := by
  match n with
  | .text s => simp [valsOf]
  | .forceWrite => simp [valsOf]
  | .elem t cs =>
    simp only [c10_idContent, Bool.and_eq_true, Bool.or_eq_true, h, Bool.false_eq_true, or_false,
      List.isEmpty_iff] at hi
    simp only [hasContent, Bool.or_eq_false_iff] at h
    simp [valsOf, hi.1, c10_ids_noContentL cs h.2 hi.2]
theorem c10_ids_noContentL (ns : List Node) (h : anyContent ns = false) (hi : c10_idContentL ns = true) :
    valsOfL S!"id" ns = [] := by
  match ns with
  | [] => simp [valsOfL]
  | c :: cs =>
    simp only [anyContent, Bool.or_eq_false_iff] at h
    simp only [c10_idContentL, Bool.and_eq_true] at hi
    simp [valsOfL, c10_ids_noContent c h.1 hi.1, c10_ids_noContentL cs h.2 hi.2]
end

mutual
theorem c10_ids_pruneNode (n : Node) (hi : c10_idContent n = true) :
    valsOf S!"id" (pruneNode n) = valsOf S!"id" n := by
  match n with
  | .text s => simp [pruneNode]
  | .forceWrite => simp [pruneNode]
  | .elem t cs =>
    simp only [c10_idContent, Bool.and_eq_true] at hi
    simp [pruneNode, valsOf, c10_ids_prune cs hi.2]
theorem c10_ids_prune (ns : List Node) (hi : c10_idContentL ns = true) :
    valsOfL S!"id" (prune ns) = valsOfL S!"id" ns := by
  match ns with
  | [] => simp [prune]
  | c :: cs =>
    simp only [c10_idContentL, Bool.and_eq_true] at hi
    unfold prune
    by_cases hc : hasContent c = true
    · simp [hc, valsOfL, c10_ids_pruneNode c hi.1, c10_ids_prune cs hi.2]
    · simp only [Bool.not_eq_true] at hc
      simp [hc, valsOfL, c10_ids_noContent c hc hi.1, c10_ids_prune cs hi.2]
end

mutual
theorem c10_vals_pruneNode (k : Str) (n : Node) : (valsOf k (pruneNode n)).Sublist (valsOf k n) := by
  match n with
  | .text s => simp [pruneNode]
  | .forceWrite => simp [pruneNode]
  | .elem t cs =>
    simp only [pruneNode, valsOf]
    exact List.Sublist.append (List.Sublist.refl _) (c10_vals_prune k cs)
theorem c10_vals_prune (k : Str) (ns : List Node) : (valsOfL k (prune ns)).Sublist (valsOfL k ns) := by
  match ns with
  | [] => simp [prune]
  | c :: cs =>
    unfold prune
    by_cases hc : hasContent c = true
    · simp only [hc, if_true, valsOfL]
      exact List.Sublist.append (c10_vals_pruneNode k c) (c10_vals_prune k cs)
    · simp only [hc, valsOfL]
      exact (c10_vals_prune k cs).trans (List.sublist_append_right _ _)
end

/-- `strip_empty` keeps every id (when id-carrying elements have content) … -/
theorem c10_ids_stripEmpty (ns : List Node) (hi : c10_idContentL ns = true) :
    idsOf (stripEmpty ns) = idsOf ns := by
  unfold stripEmpty idsOf
  rw [stripList_eq]
  exact c10_ids_prune ns hi

/-- … and never invents an attribute value -/
theorem c10_vals_stripEmpty (k : Str) (ns : List Node) : (valsOfL k (stripEmpty ns)).Sublist (valsOfL k ns) := by
  unfold stripEmpty
  rw [stripList_eq]
  exact c10_vals_prune k ns

/-! ### collapse: attribute values can only lose duplicates -/

/-- `a` is `b` with some repeated occurrences removed -/
def c10_sq (a b : List Str) : Prop := a.Sublist b ∧ ∀ x ∈ b, x ∈ a

theorem c10_sq_refl (a : List Str) : c10_sq a a := ⟨List.Sublist.refl _, fun _ h => h⟩
theorem c10_sq_trans {a b c : List Str} (h1 : c10_sq a b) (h2 : c10_sq b c) : c10_sq a c :=
  ⟨h1.1.trans h2.1, fun x hx => h1.2 x (h2.2 x hx)⟩
theorem c10_sq_append {a b a' b' : List Str} (h1 : c10_sq a b) (h2 : c10_sq a' b') :
    c10_sq (a ++ a') (b ++ b') :=
  ⟨List.Sublist.append h1.1 h2.1, fun x hx => by
    rw [List.mem_append] at hx ⊢
    exact hx.elim (fun h => Or.inl (h1.2 x h)) (fun h => Or.inr (h2.2 x h))⟩

theorem c10_sq_eq_of_nodup : ∀ {a b : List Str}, c10_sq a b → b.Nodup → a = b := by
  intro a b h
  obtain ⟨hs, hsub⟩ := h
  induction hs with
  | slnil => intro _; rfl
  | @cons l1 l2 x hs ih =>
    intro hn
    rw [List.nodup_cons] at hn
    exact absurd (hs.subset (hsub x (List.mem_cons_self ..))) hn.1
  | @cons_cons l1 l2 x hs ih =>
    intro hn
    rw [List.nodup_cons] at hn
    have : ∀ y ∈ l2, y ∈ l1 := by
      intro y hy
      have := hsub y (List.mem_cons_of_mem _ hy)
      rw [List.mem_cons] at this
      rcases this with e | h
      · subst e; exact absurd hy hn.1
      · exact h
    rw [ih this hn.2]

theorem c10_vals_sepText (k : Str) (t : Tag) : valsOfL k (sepText t) = [] := by
  unfold sepText
  split
  · split <;> simp [valsOfL, valsOf]
  · simp [valsOfL]

theorem c10_tagVals_match (k : Str) (lt t : Tag) (h : isMatch lt t = true) : c10_tagVals k lt = c10_tagVals k t := by
  simp only [isMatch, Bool.and_eq_true, beq_iff_eq] at h
  simp [c10_tagVals, h.2]

theorem c10_valsOfL_single (k : Str) (n : Node) : valsOfL k [n] = valsOf k n := by
  simp [valsOfL]

mutual
theorem c10_addC_sq (k : Str) (acc : List Node) (n : Node) :
    c10_sq (valsOfL k (addC acc n)) (valsOfL k acc ++ valsOf k n) := by
  match n with
  | .text s => rw [addC_text, valsOfL_append, c10_valsOfL_single]; exact c10_sq_refl _
  | .forceWrite => rw [addC_fw, valsOfL_append, c10_valsOfL_single]; exact c10_sq_refl _
  | .elem t cs =>
    unfold addC
    split
    · rename_i lt lcs hl
      split
      · rename_i hm
        simp only [Bool.and_eq_true] at hm
        have hacc := getLast?_eq_some_append acc _ hl
        have ih := c10_addAllC_sq k (lcs ++ sepText t) cs
        rw [valsOfL_append, c10_vals_sepText, List.append_nil] at ih
        have e := c10_tagVals_match k lt t hm.2
        conv => rhs; rw [hacc]
        simp only [valsOfL_append, c10_valsOfL_single, valsOf]
        -- lhs: V dl ++ (tv lt ++ V X);  rhs: (V dl ++ (tv lt ++ V lcs)) ++ (tv t ++ V cs)
        constructor
        · rw [List.append_assoc, List.append_assoc]
          apply List.Sublist.append (List.Sublist.refl _)
          apply List.Sublist.append (List.Sublist.refl _)
          exact ih.1.trans (List.Sublist.append (List.Sublist.refl _) (List.sublist_append_right _ _))
        · intro x hx
          simp only [List.mem_append] at hx ⊢
          rcases hx with (h1 | h2 | h3) | h4 | h5
          · exact Or.inl h1
          · exact Or.inr (Or.inl h2)
          · exact Or.inr (Or.inr (ih.2 x (List.mem_append_left _ h3)))
          · exact Or.inr (Or.inl (e ▸ h4))
          · exact Or.inr (Or.inr (ih.2 x (List.mem_append_right _ h5)))
      · rw [valsOfL_append, c10_valsOfL_single]; exact c10_sq_refl _
    · rw [valsOfL_append, c10_valsOfL_single]; exact c10_sq_refl _
theorem c10_addAllC_sq (k : Str) (acc ns : List Node) :
    c10_sq (valsOfL k (addAllC acc ns)) (valsOfL k acc ++ valsOfL k ns) := by
  match ns with
  | [] => simp only [addAllC_nil, valsOfL, List.append_nil]; exact c10_sq_refl _
  | c :: cs =>
    simp only [addAllC_cons, valsOfL]
    rw [← List.append_assoc]
    exact c10_sq_trans (c10_addAllC_sq k (addC acc c) cs) (c10_sq_append (c10_addC_sq k acc c) (c10_sq_refl _))
end

mutual
theorem c10_collapseNode_sq (k : Str) (n : Node) : c10_sq (valsOf k (collapseNode n)) (valsOf k n) := by
  match n with
  | .text s => simp only [collapseNode]; exact c10_sq_refl _
  | .forceWrite => simp only [collapseNode]; exact c10_sq_refl _
  | .elem t cs =>
    simp only [collapseNode, valsOf]
    have := c10_collapseFrom_sq k [] cs
    simp only [valsOfL, List.nil_append] at this
    exact c10_sq_append (c10_sq_refl _) this
theorem c10_collapseFrom_sq (k : Str) (acc ns : List Node) :
    c10_sq (valsOfL k (collapseFrom acc ns)) (valsOfL k acc ++ valsOfL k ns) := by
  match ns with
  | [] => simp only [collapseFrom, valsOfL, List.append_nil]; exact c10_sq_refl _
  | c :: cs =>
    unfold collapseFrom
    simp only [valsOfL]
    rw [← List.append_assoc]
    refine c10_sq_trans (c10_collapseFrom_sq k _ cs) (c10_sq_append ?_ (c10_sq_refl _))
    exact c10_sq_trans (c10_addC_sq k acc (collapseNode c)) (c10_sq_append (c10_sq_refl _) (c10_collapseNode_sq k c))
end

/-- `collapse` keeps every value of every attribute, possibly dropping repeated occurrences (when two
    adjacent elements with equal attributes are merged) -/
theorem c10_collapse_sq (k : Str) (ns : List Node) : c10_sq (valsOfL k (collapse ns)) (valsOfL k ns) := by
  have := c10_collapseFrom_sq k [] ns
  simpa [collapse, valsOfL] using this

/-! ### the rendered forest -/

/-- the ids of `collapse (strip_empty ns)`: the same values, in the same order, repeated ones possibly fewer -/
theorem c10_render_ids (ns : List Node) (hi : c10_idContentL ns = true) :
    c10_sq (idsOf (collapse (stripEmpty ns))) (idsOf ns) := by
  have := c10_collapse_sq S!"id" (stripEmpty ns)
  have e := c10_ids_stripEmpty ns hi
  unfold idsOf at *
  rw [← e]
  exact this

/-- distinct ids survive exactly -/
theorem c10_render_ids_nodup (ns : List Node) (hi : c10_idContentL ns = true) (hn : (idsOf ns).Nodup) :
    idsOf (collapse (stripEmpty ns)) = idsOf ns :=
  c10_sq_eq_of_nodup (c10_render_ids ns hi) hn

/-- no attribute value is invented -/
theorem c10_render_vals (k : Str) (ns : List Node) :
    (valsOfL k (collapse (stripEmpty ns))).Sublist (valsOfL k ns) :=
  (c10_collapse_sq k (stripEmpty ns)).1.trans (c10_vals_stripEmpty k ns)

end Mammoth
