/-
  C01 — the whole document: body, then the referenced notes, then the referenced comments.
-/
import Proofs.C01_Refine
namespace Mammoth

theorem c01_text_backLink (href : Str) : textOf (backLink href) = S!" ↑" := by
  simp [backLink, cel, el, upArrow]

theorem c01_proj_bind_map (x : ConvM (List Node)) (f : List Node → List Node) (g : Str → Str)
    (hf : ∀ ns, textOfL (f ns) = g (textOfL ns)) (st : ConvState) :
    c01_proj ((x >>= fun ns => pure (f ns)) st) =
      match c01_proj (x st) with
      | .error e => .error e
      | .ok (t, s) => .ok (g t, s) := by
  rw [c01_bind_run]
  cases x st with
  | error e => rfl
  | ok p => obtain ⟨a, s⟩ := p; simp [hf]

theorem c01_text_visitNote (cfg : Cfg) (n : Note) (st : ConvState) :
    c01_proj (visitNote cfg n st) = c01_noteText cfg st n := by
  unfold visitNote c01_noteText
  rw [c01_proj_bind_map _ _ (fun t => t ++ S!" ↑")
        (by intro ns; simp [el, c01_text_backLink]), c01_text_visitAll]
  cases c01_elemsText cfg st _ with
  | error e => rfl
  | ok p => rfl

theorem c01_text_visitComment (cfg : Cfg) (lc : Str × Comment) (st : ConvState) :
    c01_proj (visitComment cfg lc st) = c01_commentText cfg st lc := by
  unfold visitComment c01_commentText
  rw [c01_proj_bind_map _ _ (fun t => S!"Comment " ++ lc.1 ++ t ++ S!" ↑")
        (by intro ns; simp [el, c01_text_backLink]), c01_text_visitAll]
  cases c01_elemsText cfg st _ with
  | error e => rfl
  | ok p => rfl

theorem c01_text_mapMConcat {α} (f : α → ConvM (List Node))
    (g : ConvState → α → Except Err (Str × ConvState))
    (hfg : ∀ x st, c01_proj (f x st) = g st x) (xs : List α) (st : ConvState) :
    c01_proj (mapMConcat f xs st) = c01_seqText g st xs := by
  induction xs generalizing st with
  | nil => simp [mapMConcat, c01_seqText]
  | cons x xs ih =>
    simp only [mapMConcat, c01_seqText]
    rw [c01_bind_run]
    have h1 := hfg x st
    cases hx : f x st with
    | error e => rw [hx] at h1; simp [← h1]
    | ok p =>
      obtain ⟨a, st1⟩ := p
      rw [hx] at h1
      simp only [c01_proj_ok] at h1
      simp only [← h1]
      rw [c01_bind_run]
      have h2 := ih st1
      cases hy : mapMConcat f xs st1 with
      | error e => rw [hy] at h2; simp [← h2]
      | ok q =>
        obtain ⟨b, st2⟩ := q
        rw [hy] at h2
        simp only [c01_proj_ok] at h2
        simp [← h2]

theorem c01_text_visitDocument (cfg : Cfg) (d : Document) (st : ConvState) :
    c01_proj (visitDocument cfg d st) = c01_docTextSt cfg d st := by
  unfold visitDocument c01_docTextSt
  rw [c01_bind_run]
  have h1 := c01_text_visitAll cfg false d.children st
  cases hb : visitAll cfg false d.children st with
  | error e => rw [hb] at h1; simp [← h1]
  | ok p =>
    obtain ⟨nodes, st1⟩ := p
    rw [hb] at h1
    simp only [c01_proj_ok] at h1
    simp only [← h1]
    rw [c01_bind_run, c01_get_run]
    simp only []
    cases hn : st1.noteRefs.mapM (resolveNote d.notes) with
    | error e =>
      simp only []
      rw [c01_bind_run, c01_throw_run]
      rfl
    | ok notes =>
      simp only []
      rw [c01_bind_run, c01_pure_run]
      simp only []
      rw [c01_bind_run]
      have h2 := c01_text_mapMConcat (visitNote cfg) (c01_noteText cfg) (c01_text_visitNote cfg) notes st1
      rw [← c01_notesText] at h2
      cases hnn : mapMConcat (visitNote cfg) notes st1 with
      | error e => rw [hnn] at h2; simp [← h2]
      | ok q =>
        obtain ⟨noteNodes, st2⟩ := q
        rw [hnn] at h2
        simp only [c01_proj_ok] at h2
        simp only [← h2]
        rw [c01_bind_run, c01_get_run]
        simp only []
        rw [c01_bind_run]
        have h3 := c01_text_mapMConcat (visitComment cfg) (c01_commentText cfg) (c01_text_visitComment cfg)
          st2.refComments st2
        rw [← c01_commentsText] at h3
        cases hc : mapMConcat (visitComment cfg) st2.refComments st2 with
        | error e => rw [hc] at h3; simp [← h3]
        | ok r =>
          obtain ⟨commentNodes, st3⟩ := r
          rw [hc] at h3
          simp only [c01_proj_ok] at h3
          simp [← h3, el]

end Mammoth
