/-
  C17, converter half — for every document tree and configuration: the image converter is called once
  for every image that is not below an element mapped to `!`, in document order (`c17_visImages`), and the
  `img` elements of the produced forest are, in the same order, what the converter returns for these
  images (`c17_imgOf`: nothing for an image that cannot be opened).  Whole documents: body, then the
  referenced notes in reference order, then the referenced comments (`c17_docImages`).
-/
import Proofs.C10_GlobalDoc
import Proofs.C17_Images
namespace Mammoth

/-! ### the `img` elements of a forest -/

mutual
def c17_imgsN : Node → List Tag
  | .elem t cs => (if t.name = S!"img" then [t] else []) ++ c17_imgs cs
  | .text _ => []
  | .forceWrite => []
/-- the tags of the elements named `img`, in document order -/
def c17_imgs : List Node → List Tag
  | [] => []
  | c :: cs => c17_imgsN c ++ c17_imgs cs
end

@[simp] theorem c17_imgs_nil : c17_imgs [] = [] := by simp [c17_imgs]
@[simp] theorem c17_imgs_cons (c : Node) (cs : List Node) : c17_imgs (c :: cs) = c17_imgsN c ++ c17_imgs cs := by
  simp [c17_imgs]
@[simp] theorem c17_imgsN_text (s : Str) : c17_imgsN (.text s) = [] := by simp [c17_imgsN]
@[simp] theorem c17_imgsN_fw : c17_imgsN .forceWrite = [] := by simp [c17_imgsN]
theorem c17_imgsN_elem (t : Tag) (cs : List Node) :
    c17_imgsN (.elem t cs) = (if t.name = S!"img" then [t] else []) ++ c17_imgs cs := by simp [c17_imgsN]

theorem c17_imgs_append (a b : List Node) : c17_imgs (a ++ b) = c17_imgs a ++ c17_imgs b := by
  induction a with
  | nil => simp
  | cons x xs ih => simp [ih, List.append_assoc]

/-- an element that is not an `img` contributes the `img`s of its children -/
theorem c17_imgsN_other (t : Tag) (cs : List Node) (h : t.name ≠ S!"img") :
    c17_imgsN (.elem t cs) = c17_imgs cs := by simp [c17_imgsN_elem, h]

theorem c17_imgs_el (n : Str) (a : List (Str × Str)) (cs : List Node) (h : n ≠ S!"img") :
    c17_imgs [el n a cs] = c17_imgs cs := by
  simp [el, c17_imgsN_elem, h]
theorem c17_imgs_cel (n : Str) (a : List (Str × Str)) (cs : List Node) (h : n ≠ S!"img") :
    c17_imgs [cel n a cs] = c17_imgs cs := by
  simp [cel, c17_imgsN_elem, h]

/-! ### the specification: visible images of a document tree; what the converter makes of one image -/

mutual
/-- the images of the element that are not below a paragraph, run or table mapped to `!`, in document order -/
def c17_visImages (cfg : Cfg) : Elem → List ImageProps
  | .image i => [i]
  | .paragraph p cs =>
    if (c01_path cfg (.paragraph p) (.elements [pathElem S!"p" true])).isIgnore then [] else c17_visImagesL cfg cs
  | .run r cs => if (c01_runPaths cfg r).any HtmlPath.isIgnore then [] else c17_visImagesL cfg cs
  | .table sid sname rows =>
    if (c01_path cfg (.table sid sname) (.elements [pathElem S!"table" true])).isIgnore then []
    else c17_visImagesL cfg rows
  | .hyperlink _ cs => c17_visImagesL cfg cs
  | .row _ cells => c17_visImagesL cfg cells
  | .cell _ _ _ cs => c17_visImagesL cfg cs
  | .text _ => []
  | .tab => []
  | .noteRef _ _ => []
  | .commentRef _ => []
  | .checkbox _ => []
  | .brk _ => []
  | .bookmark _ => []
def c17_visImagesL (cfg : Cfg) : List Elem → List ImageProps
  | [] => []
  | e :: es => c17_visImages cfg e ++ c17_visImagesL cfg es
end

/-- the bytes `image.open()` yields, if it yields any: the archive entry of an embedded image, what the
    outside world has at the resolved location of a linked one -/
def c17_opened (cfg : Cfg) : ImageSrc → Option Bytes
  | .embedded name => lookupLast name cfg.archive
  | .linked uri =>
    if isAbsoluteUri uri then cfg.world uri
    else match cfg.base with
      | some b => cfg.world (osPathJoin b uri)
      | none => none

def c17_imgTag (attrs : List (Str × Str)) : Tag := { name := S!"img", attrs := Dict.ofList attrs }

/-- the data URI of `bytes` under the image's content type -/
def c17_dataUri (i : ImageProps) (bytes : Bytes) : Str :=
  S!"data:" ++ pyOpt i.contentType ++ S!";base64," ++ b64encode bytes

/-- the `img` tag the configured converter produces for an image: none when the image cannot be opened
    (a warning is issued instead) -/
def c17_imgOf (cfg : Cfg) (i : ImageProps) : List Tag :=
  match cfg.imageConv with
  | .dataUri =>
    match c17_opened cfg i.src with
    | some bytes => [c17_imgTag (c17_altAttr i ++ [(S!"src", c17_dataUri i bytes)])]
    | none => []
  | .fixed attrs opens =>
    if opens then
      match c17_opened cfg i.src with
      | some bytes => [c17_imgTag (c17_altAttr i ++ attrs ++ [(S!"data-len", natToStr bytes.length)])]
      | none => []
    else [c17_imgTag (c17_altAttr i ++ attrs)]

/-- no tag of the path has `img` among its names (`img`, `x|img`, …) -/
def c17_noImgPath : HtmlPath → Bool
  | .elements es => es.all fun t => !(t.names.contains S!"img")
  | .ignore => true

theorem c17_name_ne_img {t : Tag} (h : t.names.contains S!"img" = false) : t.name ≠ S!"img" := by
  intro e
  have : t.names.contains S!"img" = true := by simp [Tag.names, e]
  rw [h] at this; cases this

/-- no style mapping mentions an element named `img` -/
def c17_noImgMap (cfg : Cfg) : Bool := cfg.styleMap.all fun s => c17_noImgPath s.path

/-! ### paths without `img` -/

theorem c17_noImg_findPath (cfg : Cfg) (hm : c17_noImgMap cfg = true) (t : Target) (p : HtmlPath)
    (h : findPath cfg t = some p) : c17_noImgPath p = true := by
  unfold findPath findStyle at h
  cases hf : cfg.styleMap.find? (fun s => matcherMatches cfg.upper s.matcher t) with
  | none => simp [hf] at h
  | some s =>
    simp only [hf, Option.map_some, Option.some.injEq] at h
    have hmem := List.mem_of_find?_eq_some hf
    have := List.all_eq_true.mp hm s hmem
    rw [← h]; exact this

theorem c17_noImg_path (cfg : Cfg) (hm : c17_noImgMap cfg = true) (t : Target) (d : HtmlPath)
    (hd : c17_noImgPath d = true) : c17_noImgPath (c01_path cfg t d) = true := by
  unfold c01_path
  cases h : findPath cfg t with
  | none => simpa using hd
  | some q => simpa using c17_noImg_findPath cfg hm t q h

theorem c17_noImg_propPath (cfg : Cfg) (hm : c17_noImgMap cfg = true) (t : Target) (d : Option Str)
    (hd : ∀ n, d = some n → n ≠ S!"img") : c17_noImgPath (propPath cfg t d) = true := by
  unfold propPath
  cases h : findPath cfg t with
  | some p => exact c17_noImg_findPath cfg hm t p h
  | none =>
    cases d with
    | none => simp [c17_noImgPath]
    | some n =>
      have := hd n rfl
      simp only [c17_noImgPath, pathElem, Tag.names, List.all_cons, List.all_nil, Bool.and_true, Bool.not_eq_true',
        List.contains_cons, List.contains_nil, Bool.or_false, beq_eq_false_iff_ne, ne_eq]
      exact fun e => this e.symm

theorem c17_noImg_runPropPaths (cfg : Cfg) (hm : c17_noImgMap cfg = true) (r : RunProps) :
    (runPropPaths cfg r).all c17_noImgPath = true := by
  unfold runPropPaths
  simp only [List.all_append, Bool.and_eq_true]
  refine ⟨⟨⟨⟨⟨⟨⟨⟨?_, ?_⟩, ?_⟩, ?_⟩, ?_⟩, ?_⟩, ?_⟩, ?_⟩, ?_⟩
  · cases r.highlight with
    | none => simp
    | some c =>
      simp only []
      cases h : findPath cfg (.highlight c) with
      | none => simp
      | some p => simp [c17_noImg_findPath cfg hm _ p h]
  all_goals
    split
    · first
      | (simp only [List.all_cons, List.all_nil, Bool.and_true]
         exact c17_noImg_propPath cfg hm _ _ (by intro n hn; cases hn <;> decide))
      | (simp only [List.all_cons, List.all_nil, Bool.and_true]
         exact c17_noImg_propPath cfg hm _ _ (by intro n hn; cases hn))
      | (simp [c17_noImgPath, pathElem, Tag.names]; done)
    · simp

theorem c17_noImg_runPaths (cfg : Cfg) (hm : c17_noImgMap cfg = true) (r : RunProps) :
    (c01_runPaths cfg r).all c17_noImgPath = true := by
  unfold c01_runPaths
  simp only [List.all_append, Bool.and_eq_true, List.all_cons, List.all_nil, Bool.and_true]
  exact ⟨c17_noImg_runPropPaths cfg hm r, c17_noImg_path cfg hm _ _ rfl⟩

theorem c17_imgs_wrapElems (es : List Tag) (ns : List Node) (he : c17_noImgPath (.elements es) = true) :
    c17_imgs (wrapElems es ns) = c17_imgs ns := by
  induction es with
  | nil => rfl
  | cons t ts ih =>
    simp only [c17_noImgPath, List.all_cons, Bool.and_eq_true, Bool.not_eq_true'] at he
    simp only [wrapElems, c17_imgs_cons, c17_imgs_nil, List.append_nil]
    rw [c17_imgsN_other _ _ (c17_name_ne_img he.1)]
    exact ih (by simpa [c17_noImgPath] using he.2)

theorem c17_imgs_wrapAll (paths : List HtmlPath) (ns : List Node) (hp : paths.all c17_noImgPath = true) :
    c17_imgs (wrapAll paths ns) = if paths.any HtmlPath.isIgnore then [] else c17_imgs ns := by
  induction paths generalizing ns with
  | nil => simp [wrapAll]
  | cons p ps ih =>
    simp only [List.all_cons, Bool.and_eq_true] at hp
    cases p with
    | ignore =>
      simp only [wrapAll, List.any_cons, HtmlPath.isIgnore, Bool.true_or, if_true]
      rw [ih [] hp.2]
      split <;> simp
    | elements es =>
      simp only [wrapAll, List.any_cons, HtmlPath.isIgnore, Bool.false_or]
      rw [ih _ hp.2, c17_imgs_wrapElems es ns hp.1]

/-! ### the statement about one run of the converter -/

/-- from state `st` the computation returned `ns` and ended in `st'`; `imgs` are the images and `evs` the
    events (`c10_evs`) of the piece of document it converted -/
def c17_Post (cfg : Cfg) (st : ConvState) (imgs : List ImageProps) (evs : List c10_Ev) (ns : List Node)
    (st' : ConvState) : Prop :=
  st'.imageCalls = st.imageCalls ++ imgs ∧
  (c17_noImgMap cfg = true → c17_imgs ns = imgs.flatMap (c17_imgOf cfg)) ∧
  st'.noteRefs = st.noteRefs ++ c10_evRefs evs ∧
  st'.refComments.map Prod.snd = st.refComments.map Prod.snd ++ c10_evComments cfg evs

def c17_H (cfg : Cfg) (m : ConvM (List Node)) (imgs : List ImageProps) (evs : List c10_Ev) : Prop :=
  ∀ st ns st', m.run st = .ok (ns, st') → c17_Post cfg st imgs evs ns st'

def c17_H2 (cfg : Cfg) (m : ConvM (List Node × List Node)) (imgs : List ImageProps) (evs : List c10_Ev) : Prop :=
  ∀ st h b st', m.run st = .ok ((h, b), st') → c17_Post cfg st imgs evs (h ++ b) st'

/-- the computation leaves the call log and the two reference lists alone -/
def c17_keeps {α} (m : ConvM α) : Prop :=
  ∀ st a st', m.run st = .ok (a, st') →
    st'.imageCalls = st.imageCalls ∧ st'.noteRefs = st.noteRefs ∧ st'.refComments = st.refComments

theorem c17_H_pure (cfg : Cfg) (ns : List Node) (evs : List c10_Ev) (h1 : c17_noImgMap cfg = true → c17_imgs ns = [])
    (h2 : c10_evRefs evs = []) (h3 : c10_evCRefs evs = []) : c17_H cfg (pure ns) [] evs := by
  intro st ns' st' h
  rw [c10_run_pure] at h; cases h
  exact ⟨by simp, fun hm => by simp [h1 hm], by simp [h2], by simp [c10_evComments, h3]⟩

theorem c17_H_nil (cfg : Cfg) (ns : List Node) (h : c17_noImgMap cfg = true → c17_imgs ns = []) : c17_H cfg (pure ns) [] [] :=
  c17_H_pure cfg ns [] h rfl rfl

theorem c17_H_keeps_bind {α} (cfg : Cfg) (m : ConvM α) (f : α → ConvM (List Node)) (imgs : List ImageProps)
    (evs : List c10_Ev) (hm : c17_keeps m) (hf : ∀ a, c17_H cfg (f a) imgs evs) : c17_H cfg (m >>= f) imgs evs := by
  intro st ns st' h
  rw [c10_run_bind] at h
  split at h
  · rename_i a s hr
    obtain ⟨e0, e1, e2⟩ := hm st a s hr
    have := hf a s ns st' h
    unfold c17_Post at this ⊢
    rw [e0, e1, e2] at this
    exact this
  · cases h

theorem c17_H_findPathWarn (cfg : Cfg) (t : Target) (kind : Str) (sid sname : Option Str) (d : HtmlPath)
    (f : HtmlPath → ConvM (List Node)) (imgs : List ImageProps) (evs : List c10_Ev)
    (hf : c17_H cfg (f (c01_path cfg t d)) imgs evs) :
    c17_H cfg (findPathWarn cfg t kind sid sname d >>= f) imgs evs := by
  intro st ns st' h
  rw [c10_run_bind] at h
  have e : (findPathWarn cfg t kind sid sname d).run st =
      .ok (c01_path cfg t d, c01_warnState cfg t kind sid sname st) := c01_findPathWarn_run ..
  rw [e] at h
  have := hf _ ns st' h
  have e0 : (c01_warnState cfg t kind sid sname st).imageCalls = st.imageCalls := by
    unfold c01_warnState; split <;> rfl
  have e1 : (c01_warnState cfg t kind sid sname st).noteRefs = st.noteRefs := by
    unfold c01_warnState; split <;> rfl
  have e2 : (c01_warnState cfg t kind sid sname st).refComments = st.refComments := by
    unfold c01_warnState; split <;> rfl
  unfold c17_Post at this ⊢
  rw [e0, e1, e2] at this
  exact this

/-- wrap the result in something that adds no `img` -/
theorem c17_H_map (cfg : Cfg) (m : ConvM (List Node)) (g : List Node → List Node) (imgs : List ImageProps)
    (evs : List c10_Ev) (hm : c17_H cfg m imgs evs) (hg : c17_noImgMap cfg = true → ∀ ns, c17_imgs (g ns) = c17_imgs ns) :
    c17_H cfg (m >>= fun ns => pure (g ns)) imgs evs := by
  intro st ns st' h
  rw [c10_run_bind] at h
  split at h
  · rename_i a s hr
    rw [c10_run_pure] at h; cases h
    obtain ⟨p0, p1, p2, p3⟩ := hm st a st' hr
    exact ⟨p0, fun h' => by rw [hg h', p1 h'], p2, p3⟩
  · cases h

theorem c17_Post_seq (cfg : Cfg) (st s1 s2 : ConvState) (i1 i2 : List ImageProps) (e1 e2 : List c10_Ev)
    (a b : List Node) (p : c17_Post cfg st i1 e1 a s1) (q : c17_Post cfg s1 i2 e2 b s2) :
    c17_Post cfg st (i1 ++ i2) (e1 ++ e2) (a ++ b) s2 := by
  obtain ⟨p0, p1, p2, p3⟩ := p
  obtain ⟨q0, q1, q2, q3⟩ := q
  refine ⟨?_, ?_, ?_, ?_⟩
  · rw [q0, p0, List.append_assoc]
  · intro h'; rw [c17_imgs_append, p1 h', q1 h', List.flatMap_append]
  · rw [q2, p2, c10_evRefs_append, List.append_assoc]
  · rw [q3, p3, c10_evComments_append, List.append_assoc]

theorem c17_H_seq (cfg : Cfg) (m1 m2 : ConvM (List Node)) (i1 i2 : List ImageProps) (e1 e2 : List c10_Ev)
    (h1 : c17_H cfg m1 i1 e1) (h2 : c17_H cfg m2 i2 e2) :
    c17_H cfg (do let a ← m1; let b ← m2; pure (a ++ b)) (i1 ++ i2) (e1 ++ e2) := by
  intro st ns st' h
  rw [c10_run_bind] at h
  split at h
  · rename_i a s1 hr1
    rw [c10_run_bind] at h
    split at h
    · rename_i b s2 hr2
      rw [c10_run_pure] at h; cases h
      exact c17_Post_seq cfg st s1 st' i1 i2 e1 e2 a b (h1 st a s1 hr1) (h2 s1 b st' hr2)
    · cases h
  · cases h

/-! #### keeps -/

theorem c17_keeps_pure {α} (a : α) : c17_keeps (pure a : ConvM α) := by
  intro st b st' h; rw [c10_run_pure] at h; cases h; exact ⟨rfl, rfl, rfl⟩
theorem c17_keeps_throw {α} (e : Err) : c17_keeps (throw e : ConvM α) := by
  intro st b st' h; rw [c10_run_throw] at h; cases h
theorem c17_keeps_modify (f : ConvState → ConvState)
    (hf : ∀ s, (f s).imageCalls = s.imageCalls ∧ (f s).noteRefs = s.noteRefs ∧ (f s).refComments = s.refComments) :
    c17_keeps (modify f : ConvM PUnit) := by
  intro st b st' h; rw [c10_run_modify] at h; cases h; exact hf st
theorem c17_keeps_bind {α β} (m : ConvM α) (f : α → ConvM β) (hm : c17_keeps m)
    (hf : ∀ a, c17_keeps (f a)) : c17_keeps (m >>= f) := by
  intro st b st' h
  rw [c10_run_bind] at h
  split at h
  · rename_i a s hr
    obtain ⟨e0, e1, e2⟩ := hm st a s hr
    obtain ⟨e3, e4, e5⟩ := hf a s b st' h
    exact ⟨e3.trans e0, e4.trans e1, e5.trans e2⟩
  · cases h
theorem c17_keeps_warn (m : Str) : c17_keeps (warn m) :=
  c17_keeps_modify _ (fun _ => ⟨rfl, rfl, rfl⟩)

/-! #### one image -/

/-- the bytes in the result of `image.open()` -/
def c17_openRes : Except Str Bytes → Option Bytes
  | .ok b => some b
  | .error _ => none

/-- `image.open()`: either the bytes `c17_opened` names, or a warning text when there are none -/
theorem c17_openImage_spec (cfg : Cfg) (src : ImageSrc) (st st' : ConvState) (r : Except Str Bytes)
    (h : (openImage cfg src).run st = .ok (r, st')) :
    c17_opened cfg src = c17_openRes r ∧
    st'.imageCalls = st.imageCalls ∧ st'.noteRefs = st.noteRefs ∧ st'.refComments = st.refComments := by
  unfold openImage at h
  unfold c17_opened
  cases src with
  | embedded name =>
    simp only at h ⊢
    split at h
    · rename_i b hb; rw [c10_run_pure] at h; cases h; exact ⟨hb, rfl, rfl, rfl⟩
    · rw [c10_run_throw] at h; cases h
  | linked uri =>
    simp only at h ⊢
    split at h
    · rename_i habs
      rw [if_pos habs]
      simp only [c10_run_bind, c10_run_modify] at h
      split at h
      · rename_i b hb; rw [c10_run_pure] at h; cases h; exact ⟨hb, rfl, rfl, rfl⟩
      · rename_i hb; rw [c10_run_pure] at h; cases h; exact ⟨hb, rfl, rfl, rfl⟩
    · rename_i habs
      rw [if_neg habs]
      split at h
      · rename_i b hbase
        rw [hbase]
        simp only [c10_run_bind, c10_run_modify] at h
        split at h
        · rename_i bs hb; rw [c10_run_pure] at h; cases h; exact ⟨hb, rfl, rfl, rfl⟩
        · rename_i hb; rw [c10_run_pure] at h; cases h; exact ⟨hb, rfl, rfl, rfl⟩
      · rename_i hbase
        rw [hbase]
        rw [c10_run_pure] at h; cases h; exact ⟨rfl, rfl, rfl, rfl⟩

theorem c17_imgs_img (attrs : List (Str × Str)) : c17_imgs [el S!"img" attrs []] = [c17_imgTag attrs] := by
  simp [el, c17_imgTag, c17_imgsN_elem]

/-- after `image.open()`: one `img` with the attributes `f bytes`, or a warning and nothing -/
theorem c17_after_open_spec (cfg : Cfg) (src : ImageSrc) (f : Bytes → List (Str × Str))
    (st st' : ConvState) (ns : List Node)
    (h : (do match ← openImage cfg src with
              | .ok bytes => pure [el S!"img" (f bytes) []]
              | .error msg => do warn msg; pure [] : ConvM (List Node)).run st = .ok (ns, st')) :
    c17_imgs ns = (match c17_opened cfg src with | some b => [c17_imgTag (f b)] | none => []) ∧
    st'.imageCalls = st.imageCalls ∧ st'.noteRefs = st.noteRefs ∧ st'.refComments = st.refComments := by
  simp only [c10_run_bind] at h
  split at h
  · rename_i r s hop
    obtain ⟨h1, h2, h3, h4⟩ := c17_openImage_spec _ _ _ _ _ hop
    rw [h1]
    cases r with
    | ok b =>
      simp only [c10_run_pure] at h; cases h
      exact ⟨c17_imgs_img _, h2, h3, h4⟩
    | error m =>
      simp only [c10_run_bind, c17_run_warn, c10_run_pure] at h; cases h
      exact ⟨rfl, h2, h3, h4⟩
  · cases h

theorem c17_finish_spec (cfg : Cfg) (i : ImageProps) (st st' : ConvState) (ns : List Node)
    (h : (c17_finish cfg i).run st = .ok (ns, st')) :
    c17_imgs ns = c17_imgOf cfg i ∧
    st'.imageCalls = st.imageCalls ∧ st'.noteRefs = st.noteRefs ∧ st'.refComments = st.refComments := by
  unfold c17_finish at h
  unfold c17_imgOf
  cases hconv : cfg.imageConv with
  | dataUri =>
    simp only [hconv] at h ⊢
    exact c17_after_open_spec cfg i.src (fun bytes => c17_altAttr i ++ [(S!"src", c17_dataUri i bytes)]) st st' ns h
  | fixed attrs opens =>
    simp only [hconv] at h ⊢
    cases opens with
    | true =>
      simp only [if_true] at h ⊢
      exact c17_after_open_spec cfg i.src
        (fun bytes => c17_altAttr i ++ attrs ++ [(S!"data-len", natToStr bytes.length)]) st st' ns h
    | false =>
      simp only [Bool.false_eq_true, if_false] at h ⊢
      rw [c10_run_pure] at h; cases h
      exact ⟨c17_imgs_img _, rfl, rfl, rfl⟩

theorem c17_H_convertImage (cfg : Cfg) (i : ImageProps) : c17_H cfg (convertImage cfg i) [i] [] := by
  intro st ns st' h
  rw [c17_convertImage_run] at h
  obtain ⟨h1, h2, h3, h4⟩ := c17_finish_spec cfg i _ st' ns h
  refine ⟨by rw [h2]; rfl, fun _ => by simp [h1], by rw [h3]; simp [c17_logged, c10_evRefs], ?_⟩
  rw [h4]; simp [c17_logged, c10_evComments, c10_evCRefs]

/-! #### the visitor -/

mutual
theorem c17_H_visit (cfg : Cfg) (hdr : Bool) (e : Elem) :
    c17_H cfg (visit cfg hdr e) (c17_visImages cfg e) (c10_evs cfg e) := by
  match e with
  | .paragraph p cs =>
    rw [visit, c10_evs, c17_visImages]
    apply c17_H_findPathWarn
    cases hpath : c01_path cfg (.paragraph p) (.elements [pathElem S!"p" true]) with
    | ignore => exact c17_H_nil _ _ (fun _ => rfl)
    | elements es =>
      simp only [HtmlPath.isIgnore, Bool.false_eq_true, if_false]
      apply c17_H_map _ _ _ _ _ (c17_H_visitAll cfg hdr cs)
      intro hm ns
      have hp := c17_noImg_path cfg hm (.paragraph p) (.elements [pathElem S!"p" true]) (by decide)
      rw [hpath] at hp
      rw [c17_imgs_wrapElems _ _ hp]
      split <;> simp
  | .run r cs =>
    rw [visit, c10_evs, c17_visImages]
    apply c17_H_findPathWarn
    simp only
    rw [← c01_runPaths]
    split
    · rename_i hi
      apply c17_H_nil
      intro hm
      rw [c17_imgs_wrapAll _ _ (c17_noImg_runPaths cfg hm r)]
      simp [hi]
    · rename_i hi
      apply c17_H_map _ _ _ _ _ (c17_H_visitAll cfg hdr cs)
      intro hm ns
      rw [c17_imgs_wrapAll _ _ (c17_noImg_runPaths cfg hm r)]
      simp [hi]
  | .text s => rw [visit]; simp only [c10_evs, c17_visImages]; exact c17_H_nil _ _ (fun _ => by simp)
  | .hyperlink h cs =>
    rw [visit, c10_evs, c17_visImages]
    intro st ns st' hr
    have := c17_H_map cfg (visitAll cfg hdr cs) (fun ns => [cel S!"a" (c10_linkAttrs cfg h) ns])
      _ _ (c17_H_visitAll cfg hdr cs) (fun _ ns => c17_imgs_cel _ _ _ (by decide)) st ns st' hr
    obtain ⟨p0, p1, p2, p3⟩ := this
    exact ⟨p0, p1, by simpa [c10_evRefs] using p2, by simpa [c10_evComments, c10_evCRefs] using p3⟩
  | .checkbox c =>
    rw [visit]; simp only [c10_evs, c17_visImages]
    exact c17_H_nil _ _ (fun _ => c17_imgs_el _ _ _ (by decide))
  | .table sid sname rows =>
    rw [visit, c10_evs, c17_visImages]
    rw [← c01_path]
    cases hpath : c01_path cfg (.table sid sname) (.elements [pathElem S!"table" true]) with
    | ignore => exact c17_H_nil _ _ (fun _ => rfl)
    | elements es =>
      simp only [HtmlPath.isIgnore, Bool.false_eq_true, if_false]
      intro st ns st' h
      rw [c10_run_bind] at h
      split at h
      · rename_i hb s hr
        obtain ⟨hd, bd⟩ := hb
        rw [c10_run_pure] at h; cases h
        have ih := c17_H_visitRows cfg true rows st hd bd st' hr
        obtain ⟨i0, i1, i2, i3⟩ := ih
        refine ⟨i0, fun hm => ?_, i2, i3⟩
        have hp := c17_noImg_path cfg hm (.table sid sname) (.elements [pathElem S!"table" true]) (by decide)
        rw [hpath] at hp
        rw [← i1 hm, c17_imgs_wrapElems _ _ hp, c17_imgs_cons, c17_imgsN_fw, List.nil_append]
        split
        · rename_i hbi
          have : hd = [] := c01_visitRows_head_nil cfg rows (by simpa using hbi) st hd bd st' hr
          simp [this]
        · have e1 : c17_imgs [el S!"thead" [] hd] = c17_imgs hd := c17_imgs_el _ _ _ (by decide)
          have e2 : c17_imgs [el S!"tbody" [] bd] = c17_imgs bd := c17_imgs_el _ _ _ (by decide)
          have : c17_imgs [el S!"thead" [] hd, el S!"tbody" [] bd] =
              c17_imgs [el S!"thead" [] hd] ++ c17_imgs [el S!"tbody" [] bd] := by
            rw [← c17_imgs_append]; rfl
          rw [this, e1, e2, c17_imgs_append]
      · cases h
  | .row h cells =>
    rw [visit, c10_evs, c17_visImages]
    apply c17_H_map _ _ _ _ _ (c17_H_visitAll cfg hdr cells)
    intro _ ns
    rw [c17_imgs_el _ _ _ (by decide), c17_imgs_cons, c17_imgsN_fw, List.nil_append]
  | .cell a b c cs =>
    rw [visit, c10_evs, c17_visImages]
    apply c17_H_map _ _ _ _ _ (c17_H_visitAll cfg hdr cs)
    intro _ ns
    have : (if hdr then S!"th" else S!"td") ≠ S!"img" := by cases hdr <;> decide
    rw [c17_imgs_el _ _ _ this, c17_imgs_cons, c17_imgsN_fw, List.nil_append]
  | .brk ty =>
    rw [visit]; simp only [c10_evs, c17_visImages]
    split
    · rename_i es hf
      apply c17_H_nil
      intro hm
      rw [c17_imgs_wrapElems _ _ (c17_noImg_findPath cfg hm _ _ hf)]; rfl
    · exact c17_H_nil _ _ (fun _ => rfl)
    · split
      · apply c17_H_nil
        intro _
        simp [c17_imgsN_elem, pathElem]
      · exact c17_H_nil _ _ (fun _ => rfl)
  | .tab => rw [visit]; simp only [c10_evs, c17_visImages]; exact c17_H_nil _ _ (fun _ => by simp)
  | .image i => rw [visit]; simp only [c10_evs, c17_visImages]; exact c17_H_convertImage cfg i
  | .bookmark n =>
    rw [visit, c10_evs, c17_visImages]
    exact c17_H_pure _ _ _ (fun _ => by rw [c17_imgs_cel _ _ _ (by decide)]; simp) rfl rfl
  | .noteRef ty id =>
    rw [c10_evs, c17_visImages]
    intro st ns st' h
    rw [c10_visit_noteRef] at h
    cases h
    refine ⟨by simp, fun _ => ?_, rfl, by simp [c10_evComments, c10_evCRefs]⟩
    simp [el, c17_imgsN_elem]
  | .commentRef id =>
    rw [c10_evs, c17_visImages]
    cases hp : findPath cfg .commentReference with
    | none => rw [visit]; simp only [hp]; exact c17_H_nil _ _ (fun _ => rfl)
    | some p =>
      cases p with
      | ignore => rw [visit]; simp only [hp]; exact c17_H_nil _ _ (fun _ => rfl)
      | elements es =>
        simp only
        intro st ns st' h
        rw [visit] at h
        simp only [hp] at h
        cases hl : lookupLast id (cfg.comments.map fun c => (c.id, c)) with
        | none => simp only [hl, c10_run_throw] at h; cases h
        | some cm =>
          simp only [hl, c10_run_bind, c10_run_get, c10_run_modify, c10_run_pure] at h
          cases h
          refine ⟨by simp, fun hm => ?_, by simp [c10_evRefs], ?_⟩
          · rw [c17_imgs_wrapElems _ _ (c17_noImg_findPath cfg hm _ _ hp)]
            simp [el, c17_imgsN_elem]
          · simp [c10_evComments, c10_evCRefs, c10_findComment, hl]
theorem c17_H_visitAll (cfg : Cfg) (hdr : Bool) (es : List Elem) :
    c17_H cfg (visitAll cfg hdr es) (c17_visImagesL cfg es) (c10_evsL cfg es) := by
  match es with
  | [] => rw [visitAll, c10_evsL, c17_visImagesL]; exact c17_H_nil _ _ (fun _ => rfl)
  | e :: es =>
    rw [visitAll, c10_evsL, c17_visImagesL]
    exact c17_H_seq cfg _ _ _ _ _ _ (c17_H_visit cfg hdr e) (c17_H_visitAll cfg hdr es)
theorem c17_H_visitRows (cfg : Cfg) (inHead : Bool) (rs : List Elem) :
    c17_H2 cfg (visitRows cfg inHead rs) (c17_visImagesL cfg rs) (c10_evsL cfg rs) := by
  match rs with
  | [] =>
    rw [visitRows, c10_evsL, c17_visImagesL]
    intro st h b st' hr
    rw [c10_run_pure] at hr; cases hr
    exact c17_H_nil cfg [] (fun _ => rfl) st [] st rfl
  | r :: rs =>
    rw [visitRows, c10_evsL, c17_visImagesL]
    intro st h b st' hr
    split at hr
    · rw [c10_run_bind] at hr
      split at hr
      · rename_i a s1 hr1
        rw [c10_run_bind] at hr
        split at hr
        · rename_i hb s2 hr2
          obtain ⟨h', b'⟩ := hb
          simp only [c10_run_pure, Except.ok.injEq, Prod.mk.injEq] at hr
          obtain ⟨⟨e1, e2⟩, e3⟩ := hr
          subst e1 e2 e3
          have := c17_Post_seq cfg st s1 s2 _ _ _ _ a (h' ++ b') (c17_H_visit cfg true r st a s1 hr1)
            (c17_H_visitRows cfg true rs s1 h' b' s2 hr2)
          simpa [List.append_assoc] using this
        · cases hr
      · cases hr
    · rw [c10_run_bind] at hr
      split at hr
      · rename_i a s1 hr1
        rw [c10_run_bind] at hr
        split at hr
        · rename_i hb s2 hr2
          obtain ⟨h', b'⟩ := hb
          simp only [c10_run_pure, Except.ok.injEq, Prod.mk.injEq] at hr
          obtain ⟨⟨e1, e2⟩, e3⟩ := hr
          subst e1 e2 e3
          have hnil : h' = [] := c01_visitRows_false_head cfg rs s1 h' b' s2 hr2
          subst hnil
          have := c17_Post_seq cfg st s1 s2 _ _ _ _ a ([] ++ b') (c17_H_visit cfg false r st a s1 hr1)
            (c17_H_visitRows cfg false rs s1 [] b' s2 hr2)
          simpa using this
        · cases hr
      · cases hr
end

end Mammoth
