/-
  C18 — the invariant for notes, comments, `visitDocument` and `convertDoc`.
-/
import Proofs.C18_Visit
namespace Mammoth

theorem c18_grows_visitNote (cfg : Cfg) (n : Note) :
    c18_grows cfg (c18_linkedL n.body) (visitNote cfg n) := by
  unfold visitNote
  exact c18_grows_bind (c18_grows_visitAll cfg false n.body) (fun _ => c18_grows_pure _ _ _)

theorem c18_grows_visitComment (cfg : Cfg) (lc : Str × Comment) :
    c18_grows cfg (c18_linkedL lc.2.body) (visitComment cfg lc) := by
  unfold visitComment
  exact c18_grows_bind (c18_grows_visitAll cfg false lc.2.body) (fun _ => c18_grows_pure _ _ _)

theorem c18_grows_mapMConcat {α : Type} (cfg : Cfg) (U : List Str) (f : α → ConvM (List Node))
    (xs : List α) (h : ∀ x ∈ xs, c18_grows cfg U (f x)) : c18_grows cfg U (mapMConcat f xs) := by
  induction xs with
  | nil => simp only [mapMConcat]; exact c18_grows_pure _ _ _
  | cons x xs ih =>
    simp only [mapMConcat]
    refine c18_grows_bind (h x List.mem_cons_self) ?_
    intro a
    refine c18_grows_bind (ih (fun y hy => h y (List.mem_cons_of_mem _ hy))) ?_
    intro b
    exact c18_grows_pure _ _ _

theorem c18_resolveNote_mem {notes : List Note} {ref : Str × Str} {n : Note}
    (h : resolveNote notes ref = .ok n) : n ∈ notes := by
  unfold resolveNote at h
  split at h
  · rename_i n' hn
    cases h
    have := c18_lookupLast_mem _ _ _ hn
    obtain ⟨x, hx, e⟩ := List.mem_map.mp this
    cases e
    exact hx
  · cases h

theorem c18_mapM_resolve_mem {notes : List Note} (refs : List (Str × Str)) (ns : List Note)
    (h : refs.mapM (resolveNote notes) = .ok ns) : ∀ n ∈ ns, n ∈ notes := by
  induction refs generalizing ns with
  | nil =>
    rw [List.mapM_nil] at h
    cases h
    intro n hn; cases hn
  | cons r rs ih =>
    rw [List.mapM_cons] at h
    cases h1 : resolveNote notes r with
    | error e => rw [h1] at h; cases h
    | ok n1 =>
      rw [h1] at h
      cases h2 : rs.mapM (resolveNote notes) with
      | error e => rw [h2] at h; cases h
      | ok ns1 =>
        rw [h2] at h
        cases h
        intro n hn
        rcases List.mem_cons.mp hn with e | hn
        · subst e; exact c18_resolveNote_mem h1
        · exact ih ns1 h2 n hn

theorem c18_note_sub {d : Document} {n : Note} (hn : n ∈ d.notes) :
    c18_linkedL n.body ⊆ c18_docLinked d := by
  intro u hu
  unfold c18_docLinked
  refine List.mem_append_left _ (List.mem_append_right _ ?_)
  exact List.mem_flatMap.mpr ⟨n, hn, hu⟩

theorem c18_comment_sub {d : Document} {c : Comment} (hc : c ∈ d.comments) :
    c18_linkedL c.body ⊆ c18_docLinked d := by
  intro u hu
  unfold c18_docLinked
  refine List.mem_append_right _ ?_
  exact List.mem_flatMap.mpr ⟨c, hc, hu⟩

theorem c18_children_sub (d : Document) : c18_linkedL d.children ⊆ c18_docLinked d := by
  intro u hu
  unfold c18_docLinked
  exact List.mem_append_left _ (List.mem_append_left _ hu)

/-- all comments referenced so far belong to the document -/
def c18_refsOk (cfg : Cfg) (st : ConvState) : Prop := ∀ x ∈ st.refComments, x.2 ∈ cfg.comments

theorem c18_refsOk_step {cfg : Cfg} {U : List Str} {s1 s2 : ConvState} (h1 : c18_refsOk cfg s1)
    (h : c18_step cfg U s1 s2) : c18_refsOk cfg s2 := by
  obtain ⟨_, ⟨new, e, q⟩⟩ := h
  intro x hx
  rw [e] at hx
  rcases List.mem_append.mp hx with h | h
  · exact h1 x h
  · exact q x h

theorem c18_visitDocument (cfg : Cfg) (d : Document) (hc : cfg.comments = d.comments)
    (st : ConvState) (nodes : List Node) (st' : ConvState) (hinit : c18_refsOk cfg st)
    (h : (visitDocument cfg d).run st = .ok (nodes, st')) :
    c18_step cfg (c18_docLinked d) st st' := by
  unfold visitDocument at h
  obtain ⟨nodes1, s1, h1, h⟩ := c18_run_bind_ok _ _ _ _ _ h
  obtain ⟨g1, s1', hg, h⟩ := c18_run_bind_ok _ _ _ _ _ h
  rw [StateT.run_get] at hg
  cases hg
  dsimp only at h
  split at h
  case h_2 =>
    obtain ⟨_, _, hn, _⟩ := c18_run_bind_ok _ _ _ _ _ h
    cases hn
  rename_i notes hns
  obtain ⟨notes', s2, hn, h⟩ := c18_run_bind_ok _ _ _ _ _ h
  rw [StateT.run_pure] at hn
  cases hn
  have hmem := c18_mapM_resolve_mem _ _ hns
  obtain ⟨noteNodes, s3, h3, h⟩ := c18_run_bind_ok _ _ _ _ _ h
  obtain ⟨g3, s3', hg, h⟩ := c18_run_bind_ok _ _ _ _ _ h
  rw [StateT.run_get] at hg
  cases hg
  obtain ⟨commentNodes, s4, h4, h⟩ := c18_run_bind_ok _ _ _ _ _ h
  have e4 : s4 = st' := by
    rw [StateT.run_pure] at h
    cases h
    rfl
  have st1 : c18_step cfg (c18_docLinked d) st s1 :=
    c18_step_mono (c18_children_sub d) (c18_grows_visitAll cfg false d.children _ _ _ h1)
  have st2 : c18_step cfg (c18_docLinked d) s1 s3 := by
    refine c18_grows_mapMConcat cfg _ _ notes ?_ _ _ _ h3
    intro n hn
    exact c18_grows_mono (c18_note_sub (hmem n hn)) (c18_grows_visitNote cfg n)
  have ok3 : c18_refsOk cfg s3 := c18_refsOk_step (c18_refsOk_step hinit st1) st2
  have st3 : c18_step cfg (c18_docLinked d) s3 s4 := by
    refine c18_grows_mapMConcat cfg _ _ s3.refComments ?_ _ _ _ h4
    intro lc hlc
    have : lc.2 ∈ d.comments := hc ▸ ok3 lc hlc
    exact c18_grows_mono (c18_comment_sub this) (c18_grows_visitComment cfg lc)
  exact e4 ▸ c18_step_trans (c18_step_trans st1 st2) st3

/-- the invariant at the level of `convertDoc` -/
theorem c18_convertDoc (cfg : Cfg) (d : Document) (r : ConvResult) (h : convertDoc cfg d = .ok r) :
    ∀ op ∈ r.ioTrace, c18_opens cfg = true ∧ c18_opOk cfg.base (c18_docLinked d) op := by
  unfold convertDoc at h
  split at h
  · rename_i nodes st hrun
    cases h
    have := c18_visitDocument { cfg with comments := d.comments } d rfl {} nodes st
      (by intro x hx; cases hx) hrun
    obtain ⟨⟨ops, e, p⟩, _⟩ := this
    intro op hop
    simp only at hop
    rw [e] at hop
    simp only [List.nil_append] at hop
    exact p op hop
  · cases h

end Mammoth
