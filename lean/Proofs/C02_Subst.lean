/-
  C02 — substitution of strings in a forest: `strip_empty`, `collapse` and the token stream commute
  with replacing the strings (text, attribute values, separators) of a forest, as long as the
  replacement keeps empty/non-empty apart and keeps distinct attribute values distinct.
-/
import MammothModel.Html
import Proofs.Collapse
import Proofs.C02_Tokens
namespace Mammoth

/-! ### substitutions -/

/-- A substitution of the strings of a forest: one function for each place where a string sits.
    `attr k v` is the new value of an attribute named `k` whose value is `v`. -/
structure c02_Sub where
  /-- applied to text nodes and to separators (a separator becomes a text node when `collapse` merges) -/
  text : Str → Str
  attr : Str → Str → Str

/-- the same function everywhere -/
def c02_Sub.uniform (σ : Str → Str) : c02_Sub := ⟨σ, fun _ => σ⟩

/-- text and separator strings stay empty / non-empty -/
def c02_Sub.TextOk (σ : c02_Sub) : Prop := ∀ s, (σ.text s).isEmpty = s.isEmpty
/-- distinct values of the same attribute stay distinct -/
def c02_Sub.AttrInj (σ : c02_Sub) : Prop := ∀ k a b, σ.attr k a = σ.attr k b → a = b

/-- values replaced, keys and order kept -/
def c02_mapAttrs (f : Str → Str → Str) : Dict Str → Dict Str
  | [] => []
  | (k, v) :: r => (k, f k v) :: c02_mapAttrs f r

/-- name, alternatives and the collapsible flag are kept -/
def c02_mapTag (σ : c02_Sub) (t : Tag) : Tag :=
  { name := t.name, alts := t.alts, attrs := c02_mapAttrs σ.attr t.attrs,
    collapsible := t.collapsible, separator := t.separator.map σ.text }

mutual
def c02_mapNode (σ : c02_Sub) : Node → Node
  | .text s => .text (σ.text s)
  | .forceWrite => .forceWrite
  | .elem t cs => .elem (c02_mapTag σ t) (c02_mapForest σ cs)
/-- apply the substitution to every text node, attribute value and separator of the forest -/
def c02_mapForest (σ : c02_Sub) : List Node → List Node
  | [] => []
  | c :: cs => c02_mapNode σ c :: c02_mapForest σ cs
end

/-- `mapStrings σ`: the one-function form -/
def c02_mapStrings (σ : Str → Str) (ns : List Node) : List Node := c02_mapForest (c02_Sub.uniform σ) ns

@[simp] theorem c02_mapForest_nil (σ : c02_Sub) : c02_mapForest σ [] = [] := by simp [c02_mapForest]
@[simp] theorem c02_mapForest_cons (σ : c02_Sub) (c : Node) (cs : List Node) :
    c02_mapForest σ (c :: cs) = c02_mapNode σ c :: c02_mapForest σ cs := by simp [c02_mapForest]
@[simp] theorem c02_mapNode_text (σ : c02_Sub) (s : Str) : c02_mapNode σ (.text s) = .text (σ.text s) := by
  simp [c02_mapNode]
@[simp] theorem c02_mapNode_fw (σ : c02_Sub) : c02_mapNode σ .forceWrite = .forceWrite := by
  simp [c02_mapNode]
@[simp] theorem c02_mapNode_elem (σ : c02_Sub) (t : Tag) (cs : List Node) :
    c02_mapNode σ (.elem t cs) = .elem (c02_mapTag σ t) (c02_mapForest σ cs) := by
  simp [c02_mapNode]

theorem c02_mapForest_append (σ : c02_Sub) (a b : List Node) :
    c02_mapForest σ (a ++ b) = c02_mapForest σ a ++ c02_mapForest σ b := by
  induction a with
  | nil => simp
  | cons x xs ih => simp [ih]

theorem c02_mapForest_isEmpty (σ : c02_Sub) (a : List Node) : (c02_mapForest σ a).isEmpty = a.isEmpty := by
  cases a <;> simp

theorem c02_mapForest_dropLast (σ : c02_Sub) (a : List Node) :
    (c02_mapForest σ a).dropLast = c02_mapForest σ a.dropLast := by
  induction a with
  | nil => simp
  | cons x xs ih =>
    cases xs with
    | nil => simp
    | cons y ys => simpa using ih

theorem c02_mapForest_getLast? (σ : c02_Sub) (a : List Node) :
    (c02_mapForest σ a).getLast? = a.getLast?.map (c02_mapNode σ) := by
  induction a with
  | nil => simp
  | cons x xs ih =>
    cases xs with
    | nil => simp
    | cons y ys => simpa [List.getLast?_cons_cons] using ih

@[simp] theorem c02_mapTag_name (σ : c02_Sub) (t : Tag) : (c02_mapTag σ t).name = t.name := rfl
@[simp] theorem c02_mapTag_alts (σ : c02_Sub) (t : Tag) : (c02_mapTag σ t).alts = t.alts := rfl
@[simp] theorem c02_mapTag_names (σ : c02_Sub) (t : Tag) : (c02_mapTag σ t).names = t.names := rfl
@[simp] theorem c02_mapTag_collapsible (σ : c02_Sub) (t : Tag) :
    (c02_mapTag σ t).collapsible = t.collapsible := rfl
@[simp] theorem c02_mapTag_attrs (σ : c02_Sub) (t : Tag) :
    (c02_mapTag σ t).attrs = c02_mapAttrs σ.attr t.attrs := rfl
@[simp] theorem c02_mapTag_separator (σ : c02_Sub) (t : Tag) :
    (c02_mapTag σ t).separator = t.separator.map σ.text := rfl

theorem c02_isVoid_map (σ : c02_Sub) (t : Tag) (cs : List Node) :
    isVoid (c02_mapTag σ t) (c02_mapForest σ cs) = isVoid t cs := by
  simp [isVoid, c02_mapForest_isEmpty]

/-! ### strip_empty -/
mutual
theorem c02_stripNode_map (σ : c02_Sub) (ht : σ.TextOk) (n : Node) :
    stripNode (c02_mapNode σ n) = c02_mapForest σ (stripNode n) := by
  match n with
  | .text s =>
    simp only [c02_mapNode_text, stripNode, ht s]
    split <;> simp
  | .forceWrite => simp [stripNode]
  | .elem t cs =>
    simp only [c02_mapNode_elem, stripNode, c02_stripList_map σ ht cs, c02_mapForest_isEmpty, c02_isVoid_map]
    split <;> simp
theorem c02_stripList_map (σ : c02_Sub) (ht : σ.TextOk) (ns : List Node) :
    stripList (c02_mapForest σ ns) = c02_mapForest σ (stripList ns) := by
  match ns with
  | [] => simp [stripList]
  | c :: cs =>
    simp only [c02_mapForest_cons, stripList, c02_stripNode_map σ ht c, c02_stripList_map σ ht cs,
      c02_mapForest_append]
end

theorem c02_stripEmpty_map (σ : c02_Sub) (ht : σ.TextOk) (ns : List Node) :
    stripEmpty (c02_mapForest σ ns) = c02_mapForest σ (stripEmpty ns) :=
  c02_stripList_map σ ht ns

/-! ### collapse -/

theorem c02_mapAttrs_inj (f : Str → Str → Str) (hf : ∀ k a b, f k a = f k b → a = b) :
    ∀ (a b : Dict Str), c02_mapAttrs f a = c02_mapAttrs f b → a = b
  | [], [], _ => rfl
  | [], (k, v) :: r, h => by simp [c02_mapAttrs] at h
  | (k, v) :: r, [], h => by simp [c02_mapAttrs] at h
  | (k, v) :: r, (k', v') :: r', h => by
    simp only [c02_mapAttrs, List.cons.injEq, Prod.mk.injEq] at h
    obtain ⟨⟨hk, hv⟩, hr⟩ := h
    subst hk
    rw [hf k v v' hv, c02_mapAttrs_inj f hf r r' hr]

theorem c02_isMatch_map (σ : c02_Sub) (ha : σ.AttrInj) (a b : Tag) :
    isMatch (c02_mapTag σ a) (c02_mapTag σ b) = isMatch a b := by
  have h : (c02_mapAttrs σ.attr a.attrs == c02_mapAttrs σ.attr b.attrs) = (a.attrs == b.attrs) := by
    rw [Bool.eq_iff_iff]
    simp only [beq_iff_eq]
    exact ⟨c02_mapAttrs_inj σ.attr ha _ _, fun h => by rw [h]⟩
  simp [isMatch, h]

theorem c02_sepText_map (σ : c02_Sub) (hs : σ.TextOk) (t : Tag) :
    sepText (c02_mapTag σ t) = c02_mapForest σ (sepText t) := by
  unfold sepText
  cases h : t.separator with
  | none => simp [h]
  | some s =>
    simp only [c02_mapTag_separator, h, Option.map_some, hs s]
    split <;> simp

mutual
theorem c02_addC_map (σ : c02_Sub) (ht : σ.TextOk) (ha : σ.AttrInj) (acc : List Node) (n : Node) :
    addC (c02_mapForest σ acc) (c02_mapNode σ n) = c02_mapForest σ (addC acc n) := by
  match n with
  | .text s => simp [addC_text, c02_mapForest_append]
  | .forceWrite => simp [addC_fw, c02_mapForest_append]
  | .elem t cs =>
    rw [c02_mapNode_elem]
    cases hl : acc.getLast? with
    | none =>
      have hl' : (c02_mapForest σ acc).getLast? = none := by rw [c02_mapForest_getLast?, hl]; rfl
      rw [addC_elem_nomerge_last _ _ _ (by simp [hl']), addC_elem_nomerge_last _ _ _ (by simp [hl])]
      simp [c02_mapForest_append]
    | some l =>
      have hl' : (c02_mapForest σ acc).getLast? = some (c02_mapNode σ l) := by
        rw [c02_mapForest_getLast?, hl]; rfl
      match l with
      | .text s =>
        rw [addC_elem_nomerge_last _ _ _ (by simp [hl']), addC_elem_nomerge_last _ _ _ (by simp [hl])]
        simp [c02_mapForest_append]
      | .forceWrite =>
        rw [addC_elem_nomerge_last _ _ _ (by simp [hl']), addC_elem_nomerge_last _ _ _ (by simp [hl])]
        simp [c02_mapForest_append]
      | .elem lt lcs =>
        rw [c02_mapNode_elem] at hl'
        by_cases hc : (t.collapsible && isMatch lt t) = true
        · simp only [Bool.and_eq_true] at hc
          rw [addC_elem_merge _ _ _ _ _ hl hc.1 hc.2,
            addC_elem_merge _ _ _ _ _ hl' (by simpa using hc.1) (by rw [c02_isMatch_map σ ha]; exact hc.2)]
          rw [c02_mapForest_append, c02_mapForest_dropLast, c02_sepText_map σ ht, ← c02_mapForest_append,
            c02_addAllC_map σ ht ha (lcs ++ sepText t) cs]
          simp
        · simp only [Bool.not_eq_true] at hc
          rw [addC_elem_nomerge_cond _ _ _ _ _ hl hc,
            addC_elem_nomerge_cond _ _ _ _ _ hl' (by rw [c02_isMatch_map σ ha]; simpa using hc)]
          simp [c02_mapForest_append]
theorem c02_addAllC_map (σ : c02_Sub) (ht : σ.TextOk) (ha : σ.AttrInj) (acc ns : List Node) :
    addAllC (c02_mapForest σ acc) (c02_mapForest σ ns) = c02_mapForest σ (addAllC acc ns) := by
  match ns with
  | [] => simp
  | c :: cs =>
    simp only [c02_mapForest_cons, addAllC_cons]
    rw [c02_addC_map σ ht ha acc c, c02_addAllC_map σ ht ha (addC acc c) cs]
end

mutual
theorem c02_collapseNode_map (σ : c02_Sub) (ht : σ.TextOk) (ha : σ.AttrInj) (n : Node) :
    collapseNode (c02_mapNode σ n) = c02_mapNode σ (collapseNode n) := by
  match n with
  | .text s => simp [collapseNode]
  | .forceWrite => simp [collapseNode]
  | .elem t cs =>
    simp only [c02_mapNode_elem, collapseNode]
    have := c02_collapseFrom_map σ ht ha [] cs
    simp only [c02_mapForest_nil] at this
    rw [this]
theorem c02_collapseFrom_map (σ : c02_Sub) (ht : σ.TextOk) (ha : σ.AttrInj) (acc ns : List Node) :
    collapseFrom (c02_mapForest σ acc) (c02_mapForest σ ns) = c02_mapForest σ (collapseFrom acc ns) := by
  match ns with
  | [] => simp [collapseFrom]
  | c :: cs =>
    simp only [c02_mapForest_cons, collapseFrom]
    rw [c02_collapseNode_map σ ht ha c, c02_addC_map σ ht ha acc (collapseNode c),
      c02_collapseFrom_map σ ht ha _ cs]
end

theorem c02_collapse_map (σ : c02_Sub) (ht : σ.TextOk) (ha : σ.AttrInj) (ns : List Node) :
    collapse (c02_mapForest σ ns) = c02_mapForest σ (collapse ns) := by
  have := c02_collapseFrom_map σ ht ha [] ns
  simpa [collapse] using this

end Mammoth
