/-
  C08 — which default mapping a paragraph gets (`findStyle` on the explicit default map).
-/
import Proofs.C08_DefaultMap
namespace Mammoth

/-- style id `Heading<n>` -/
def c08_hId (n : Nat) : Str := S!"Heading" ++ natToStr n
/-- style name `Heading <n>` -/
def c08_hName (n : Nat) : Str := S!"Heading " ++ natToStr n
/-- tag name `h<n>` -/
def c08_hTag (n : Nat) : Str := 'h' :: natToStr n

/-- the style ids that the default map matches by id -/
def c08_headingIds : List Str := (List.range 6).map fun i => c08_hId (i+1)

/-- upper-cased style names matched by a default paragraph mapping that precedes the list mappings -/
def c08_earlierUpper : List Str :=
  [S!"HEADING 1", S!"HEADING 2", S!"HEADING 3", S!"HEADING 4", S!"HEADING 5", S!"HEADING 6",
   S!"FOOTNOTE TEXT", S!"ENDNOTE TEXT", S!"ANNOTATION TEXT", S!"FOOTNOTE", S!"ENDNOTE"]

/-- the paragraph's style id is not one of `Heading1`..`Heading6` -/
def c08_notHeadingId (sid : Option Str) : Bool :=
  match sid with
  | none => true
  | some s => !c08_headingIds.contains s

/-- the paragraph's style name (if any) is not, up to ASCII case, one of the names that the
    default map sends to a heading or to a note paragraph -/
def c08_noEarlierName (name : Option Str) : Bool :=
  match name with
  | none => true
  | some n => !c08_earlierUpper.contains (upperAscii n)

/-- the ten numbering levels that the default map knows: index "0".."4", either kind -/
def c08_knownLevel (num : Option NumLevel) : Bool :=
  match num with
  | none => false
  | some l => ((List.range 5).map natToStr).contains l.levelIndex

theorem c08_natToStr_small : natToStr 0 = S!"0" ∧ natToStr 1 = S!"1" ∧ natToStr 2 = S!"2" ∧
    natToStr 3 = S!"3" ∧ natToStr 4 = S!"4" ∧ natToStr 5 = S!"5" ∧ natToStr 6 = S!"6" := by decide

theorem c08_upper_lits :
    upperAscii S!"Heading 1" = S!"HEADING 1" ∧ upperAscii S!"Heading 2" = S!"HEADING 2" ∧
    upperAscii S!"Heading 3" = S!"HEADING 3" ∧ upperAscii S!"Heading 4" = S!"HEADING 4" ∧
    upperAscii S!"Heading 5" = S!"HEADING 5" ∧ upperAscii S!"Heading 6" = S!"HEADING 6" ∧
    upperAscii S!"heading 1" = S!"HEADING 1" ∧ upperAscii S!"heading 2" = S!"HEADING 2" ∧
    upperAscii S!"heading 3" = S!"HEADING 3" ∧ upperAscii S!"heading 4" = S!"HEADING 4" ∧
    upperAscii S!"heading 5" = S!"HEADING 5" ∧ upperAscii S!"heading 6" = S!"HEADING 6" ∧
    upperAscii S!"footnote text" = S!"FOOTNOTE TEXT" ∧ upperAscii S!"endnote text" = S!"ENDNOTE TEXT" ∧
    upperAscii S!"annotation text" = S!"ANNOTATION TEXT" ∧ upperAscii S!"Footnote" = S!"FOOTNOTE" ∧
    upperAscii S!"Endnote" = S!"ENDNOTE" ∧ upperAscii S!"Normal" = S!"NORMAL" := by decide

theorem c08_small_cases (n : Nat) (h1 : 1 ≤ n) (h6 : n ≤ 6) :
    n = 1 ∨ n = 2 ∨ n = 3 ∨ n = 4 ∨ n = 5 ∨ n = 6 := by omega

theorem c08_notHeadingId_spec (sid : Option Str) (h : c08_notHeadingId sid = true) :
    sid ≠ some S!"Heading1" ∧ sid ≠ some S!"Heading2" ∧ sid ≠ some S!"Heading3" ∧
    sid ≠ some S!"Heading4" ∧ sid ≠ some S!"Heading5" ∧ sid ≠ some S!"Heading6" := by
  cases sid with
  | none => simp
  | some s =>
    simpa [c08_notHeadingId, c08_headingIds, List.range, List.range.loop, c08_hId, c08_natToStr_small] using h

/-- (a) by id -/
theorem c08_path_heading_id (n : Nat) (h1 : 1 ≤ n) (h6 : n ≤ 6) (name : Option Str) (num : Option NumLevel) :
    findStyle upperAscii defaultStyleMap
        (.paragraph { styleId := some (c08_hId n), styleName := name, numbering := num })
      = some (c08_byId (c08_hId n) (c08_hTag n)) := by
  rw [c08_default_map_value]
  rcases c08_small_cases n h1 h6 with h | h | h | h | h | h <;> subst h <;>
  simp [c08_defaultMapValue, findStyle, c08_byId, matcherMatches, optEqOrNone, nameMatches, c08_hId,
    c08_hTag, c08_natToStr_small]

/-- (b) by name, any ASCII letter case -/
theorem c08_path_heading_name (n : Nat) (h1 : 1 ≤ n) (h6 : n ≤ 6) (sid : Option Str)
    (hs : c08_notHeadingId sid = true) (name : Str) (hn : upperAscii name = upperAscii (c08_hName n))
    (num : Option NumLevel) :
    findStyle upperAscii defaultStyleMap
        (.paragraph { styleId := sid, styleName := some name, numbering := num })
      = some (c08_byName (c08_hName n) (c08_hTag n)) := by
  rw [c08_default_map_value]
  obtain ⟨s1, s2, s3, s4, s5, s6⟩ := c08_notHeadingId_spec sid hs
  rcases c08_small_cases n h1 h6 with h | h | h | h | h | h <;> subst h <;>
  simp [c08_defaultMapValue, findStyle, c08_byId, c08_byName, matcherMatches, optEqOrNone, nameMatches,
    c08_hTag, c08_natToStr_small, StrMatch.matches, hn, c08_hName, c08_upper_lits, s1, s2, s3, s4, s5, s6]

theorem c08_noEarlierName_spec (n : Str) (h : c08_noEarlierName (some n) = true) :
    upperAscii n ≠ S!"HEADING 1" ∧ upperAscii n ≠ S!"HEADING 2" ∧ upperAscii n ≠ S!"HEADING 3" ∧
    upperAscii n ≠ S!"HEADING 4" ∧ upperAscii n ≠ S!"HEADING 5" ∧ upperAscii n ≠ S!"HEADING 6" ∧
    upperAscii n ≠ S!"FOOTNOTE TEXT" ∧ upperAscii n ≠ S!"ENDNOTE TEXT" ∧
    upperAscii n ≠ S!"ANNOTATION TEXT" ∧ upperAscii n ≠ S!"FOOTNOTE" ∧ upperAscii n ≠ S!"ENDNOTE" := by
  simpa [c08_noEarlierName, c08_earlierUpper] using h

theorem c08_lt5_cases (k : Nat) (h : k < 5) : k = 0 ∨ k = 1 ∨ k = 2 ∨ k = 3 ∨ k = 4 := by omega

/-- (c) list paragraphs -/
theorem c08_path_list (k : Nat) (hk : k < 5) (ordered : Bool) (sid name : Option Str)
    (hs : c08_notHeadingId sid = true) (hn : c08_noEarlierName name = true) :
    findStyle upperAscii defaultStyleMap
        (.paragraph { styleId := sid, styleName := name, numbering := some ⟨natToStr k, ordered⟩ })
      = some (c08_listStyle k ordered) := by
  rw [c08_default_map_value]
  obtain ⟨s1, s2, s3, s4, s5, s6⟩ := c08_notHeadingId_spec sid hs
  cases name with
  | none =>
    rcases c08_lt5_cases k hk with h | h | h | h | h <;> subst h <;> cases ordered <;>
    simp [c08_defaultMapValue, findStyle, c08_byId, c08_byName, c08_runEmpty, c08_listStyle, matcherMatches,
      optEqOrNone, nameMatches, c08_natToStr_small, s1, s2, s3, s4, s5, s6]
  | some n =>
    obtain ⟨n1, n2, n3, n4, n5, n6, n7, n8, n9, n10, n11⟩ := c08_noEarlierName_spec n hn
    rcases c08_lt5_cases k hk with h | h | h | h | h <;> subst h <;> cases ordered <;>
    simp [c08_defaultMapValue, findStyle, c08_byId, c08_byName, c08_runEmpty, c08_listStyle, matcherMatches,
      optEqOrNone, nameMatches, c08_natToStr_small, StrMatch.matches, c08_upper_lits, s1, s2, s3, s4, s5, s6,
      Ne.symm n1, Ne.symm n2, Ne.symm n3, Ne.symm n4, Ne.symm n5, Ne.symm n6, Ne.symm n7, Ne.symm n8,
      Ne.symm n9, Ne.symm n10, Ne.symm n11]

theorem c08_knownLevel_spec (l : NumLevel) (h : c08_knownLevel (some l) = false) (o : Bool) :
    l ≠ ⟨S!"0", o⟩ ∧ l ≠ ⟨S!"1", o⟩ ∧ l ≠ ⟨S!"2", o⟩ ∧ l ≠ ⟨S!"3", o⟩ ∧ l ≠ ⟨S!"4", o⟩ := by
  have h' : l.levelIndex ≠ S!"0" ∧ l.levelIndex ≠ S!"1" ∧ l.levelIndex ≠ S!"2" ∧ l.levelIndex ≠ S!"3" ∧
      l.levelIndex ≠ S!"4" := by
    simpa [c08_knownLevel, List.range, List.range.loop, c08_natToStr_small] using h
  obtain ⟨a, b, c, d, e⟩ := h'
  refine ⟨?_, ?_, ?_, ?_, ?_⟩ <;> intro hh <;> subst hh <;> simp at *

/-- (d) nothing in the default map applies -/
theorem c08_path_none (sid name : Option Str) (num : Option NumLevel)
    (hs : c08_notHeadingId sid = true) (hn : c08_noEarlierName name = true)
    (hN : name.map upperAscii ≠ some S!"NORMAL") (hl : c08_knownLevel num = false) :
    findStyle upperAscii defaultStyleMap
        (.paragraph { styleId := sid, styleName := name, numbering := num }) = none := by
  rw [c08_default_map_value]
  obtain ⟨s1, s2, s3, s4, s5, s6⟩ := c08_notHeadingId_spec sid hs
  have hnum : ∀ i o, i ∈ [S!"0", S!"1", S!"2", S!"3", S!"4"] → (num == some ⟨i, o⟩) = false := by
    intro i o hi
    cases num with
    | none => simp
    | some l =>
      obtain ⟨a, b, c, d, e⟩ := c08_knownLevel_spec l hl o
      simp only [List.mem_cons, List.not_mem_nil, or_false] at hi
      rcases hi with h | h | h | h | h <;> subst h <;> simp [a, b, c, d, e]
  have l0 := hnum S!"0"; have l1 := hnum S!"1"; have l2 := hnum S!"2"; have l3 := hnum S!"3"
  have l4 := hnum S!"4"
  cases name with
  | none =>
    simp [c08_defaultMapValue, findStyle, c08_byId, c08_byName, c08_runEmpty, c08_listStyle, matcherMatches,
      optEqOrNone, nameMatches, c08_natToStr_small, s1, s2, s3, s4, s5, s6, l0, l1, l2, l3, l4]
  | some n =>
    obtain ⟨n1, n2, n3, n4, n5, n6, n7, n8, n9, n10, n11⟩ := c08_noEarlierName_spec n hn
    have n12 : upperAscii n ≠ S!"NORMAL" := by simpa using hN
    simp [c08_defaultMapValue, findStyle, c08_byId, c08_byName, c08_runEmpty, c08_listStyle, matcherMatches,
      optEqOrNone, nameMatches, c08_natToStr_small, StrMatch.matches, c08_upper_lits, s1, s2, s3, s4, s5, s6,
      Ne.symm n1, Ne.symm n2, Ne.symm n3, Ne.symm n4, Ne.symm n5, Ne.symm n6, Ne.symm n7, Ne.symm n8,
      Ne.symm n9, Ne.symm n10, Ne.symm n11, Ne.symm n12, l0, l1, l2, l3, l4]

end Mammoth
