/-
  C02 — the lexer accepts nothing but renderings of token lists: if `c02_lexHtml s = some toks`
  then `s` is literally the concatenation of the tokens' canonical spellings (`c02_render toks`).
  So the language of the lexer is exactly the writer's output grammar.
-/
import Proofs.C02_Lexer
namespace Mammoth

/-- the canonical spelling of a token -/
def c02_renderTok : c02_Tok → Str
  | .start n as => ['<'] ++ n ++ attrString as ++ ['>']
  | .end n => S!"</" ++ n ++ ['>']
  | .selfClose n as => ['<'] ++ n ++ attrString as ++ S!" />"
  | .text s => escape s

def c02_render : List c02_Tok → Str
  | [] => []
  | t :: r => c02_renderTok t ++ c02_render r

@[simp] theorem c02_render_nil : c02_render [] = [] := rfl
@[simp] theorem c02_render_cons (t : c02_Tok) (r : List c02_Tok) :
    c02_render (t :: r) = c02_renderTok t ++ c02_render r := rfl

theorem c02_render_append (a b : List c02_Tok) : c02_render (a ++ b) = c02_render a ++ c02_render b := by
  induction a with
  | nil => simp
  | cons t r ih => simp [ih]

theorem c02_render_flush (acc : Str) : c02_render (c02_flush acc) = escape acc := by
  unfold c02_flush; split
  · rename_i h; simp [List.isEmpty_iff.mp h]
  · simp [c02_renderTok]

theorem c02_attrString_append (a b : Dict Str) : attrString (a ++ b) = attrString a ++ attrString b := by
  induction a with
  | nil => simp [attrString]
  | cons kv r ih => obtain ⟨k, v⟩ := kv; simp [attrString, ih]

/-- the part of the input consumed since the last complete token, as a function of the mode -/
def c02_modeStr : c02_Mode → Str
  | .text acc => escape acc
  | .ent acc buf => escape acc ++ ['&'] ++ buf
  | .name n => ['<'] ++ n
  | .attrs n as => ['<'] ++ n ++ attrString as
  | .sp n as => ['<'] ++ n ++ attrString as ++ [' ']
  | .key n as k => ['<'] ++ n ++ attrString as ++ [' '] ++ k
  | .eq n as k => ['<'] ++ n ++ attrString as ++ [' '] ++ k ++ ['=']
  | .val n as k v => ['<'] ++ n ++ attrString as ++ [' '] ++ k ++ S!"=\"" ++ escape v
  | .vent n as k v buf => ['<'] ++ n ++ attrString as ++ [' '] ++ k ++ S!"=\"" ++ escape v ++ ['&'] ++ buf
  | .slash n as => ['<'] ++ n ++ attrString as ++ S!" /"
  | .close n => S!"</" ++ n
  | .fail => []

/-- the input consumed so far, reconstructed from the state -/
def c02_stStr (st : c02_St) : Str := c02_render st.toks ++ c02_modeStr st.mode

theorem c02_entity_escape (buf : Str) (ch : Char) (h : c02_entity buf = some ch) :
    ['&'] ++ buf ++ [';'] = escapeChar ch := by
  unfold c02_entity at h
  split at h
  · rename_i hb; cases h; subst hb; rw [c02_escapeChar_amp]; rfl
  · split at h
    · rename_i hb; cases h; subst hb; rw [c02_escapeChar_lt]; rfl
    · split at h
      · rename_i hb; cases h; subst hb; rw [c02_escapeChar_gt]; rfl
      · split at h
        · rename_i hb; cases h; subst hb; rw [c02_escapeChar_quot]; rfl
        · cases h

theorem c02_escape_snoc (acc : Str) (c : Char) : escape (acc ++ [c]) = escape acc ++ escapeChar c := by
  simp [c02_escape_append]

/-- a step that does not fail consumes exactly the character it was given -/
theorem c02_step_str (st : c02_St) (c : Char) (hf : (c02_step st c).mode ≠ .fail) :
    c02_stStr (c02_step st c) = c02_stStr st ++ [c] := by
  obtain ⟨toks, mode⟩ := st
  cases mode with
  | text acc =>
    simp only [c02_step] at hf ⊢
    split at hf
    · rename_i h; subst h
      simp [c02_stStr, c02_modeStr, c02_render_append, c02_render_flush]
    · split at hf
      · rename_i h1 h; subst h
        simp [c02_stStr, c02_modeStr]
      · split at hf
        · exact absurd rfl hf
        · split at hf
          · exact absurd rfl hf
          · rename_i h1 h2 h3 h4
            simp [h1, h2, h3, h4, c02_stStr, c02_modeStr, c02_escape_append,
              c02_escapeChar_other c h4 h2 h1 h3]
  | ent acc buf =>
    simp only [c02_step] at hf ⊢
    split at hf
    · rename_i h; subst h
      cases he : c02_entity buf with
      | none => rw [he] at hf; exact absurd rfl hf
      | some ch =>
        have := c02_entity_escape buf ch he
        simp only [List.append_assoc] at this
        simp [c02_stStr, c02_modeStr, c02_escape_append, ← this]
    · rename_i h
      simp [h, c02_stStr, c02_modeStr]
  | name n =>
    simp only [c02_step] at hf ⊢
    split at hf
    · rename_i h; simp [h, c02_stStr, c02_modeStr]
    · rename_i h
      split at hf
      · rename_i hn
        split at hf
        · rename_i hc; subst hc
          simp [h, c02_stStr, c02_modeStr, List.isEmpty_iff.mp hn]
        · exact absurd rfl hf
      · rename_i hn
        split at hf
        · rename_i hc; subst hc
          simp [h, hn, c02_stStr, c02_modeStr, attrString]
        · split at hf
          · rename_i hc' hc; subst hc
            simp [h, hn, c02_stStr, c02_modeStr, c02_render_append, c02_renderTok, attrString]
          · exact absurd rfl hf
  | attrs n as =>
    simp only [c02_step] at hf ⊢
    split at hf
    · rename_i hc; subst hc
      simp [c02_stStr, c02_modeStr]
    · split at hf
      · rename_i hc' hc; subst hc
        simp [c02_stStr, c02_modeStr, c02_render_append, c02_renderTok]
      · exact absurd rfl hf
  | sp n as =>
    simp only [c02_step] at hf ⊢
    split at hf
    · rename_i h; simp [h, c02_stStr, c02_modeStr]
    · rename_i h
      split at hf
      · rename_i hc; subst hc
        simp [h, c02_stStr, c02_modeStr]
      · exact absurd rfl hf
  | key n as k =>
    simp only [c02_step] at hf ⊢
    split at hf
    · rename_i h; simp [h, c02_stStr, c02_modeStr]
    · rename_i h
      split at hf
      · rename_i hc; subst hc
        simp [h, c02_stStr, c02_modeStr]
      · exact absurd rfl hf
  | eq n as k =>
    simp only [c02_step] at hf ⊢
    split at hf
    · rename_i hc; subst hc
      simp [c02_stStr, c02_modeStr]
    · exact absurd rfl hf
  | val n as k v =>
    simp only [c02_step] at hf ⊢
    split at hf
    · rename_i h; subst h
      simp [c02_stStr, c02_modeStr, c02_attrString_append, attrString]
    · split at hf
      · rename_i h1 h; subst h
        simp [c02_stStr, c02_modeStr]
      · split at hf
        · exact absurd rfl hf
        · split at hf
          · exact absurd rfl hf
          · rename_i h1 h2 h3 h4
            simp [h1, h2, h3, h4, c02_stStr, c02_modeStr, c02_escape_append,
              c02_escapeChar_other c h1 h2 h3 h4]
  | vent n as k v buf =>
    simp only [c02_step] at hf ⊢
    split at hf
    · rename_i h; subst h
      cases he : c02_entity buf with
      | none => rw [he] at hf; exact absurd rfl hf
      | some ch =>
        have := c02_entity_escape buf ch he
        simp only [List.append_assoc] at this
        simp [c02_stStr, c02_modeStr, c02_escape_append, ← this]
    · rename_i h
      simp [h, c02_stStr, c02_modeStr]
  | slash n as =>
    simp only [c02_step] at hf ⊢
    split at hf
    · rename_i hc; subst hc
      simp [c02_stStr, c02_modeStr, c02_render_append, c02_renderTok]
    · exact absurd rfl hf
  | close n =>
    simp only [c02_step] at hf ⊢
    split at hf
    · rename_i h; simp [h, c02_stStr, c02_modeStr]
    · rename_i h
      split at hf
      · exact absurd rfl hf
      · rename_i hn
        split at hf
        · rename_i hc; subst hc
          simp [h, hn, c02_stStr, c02_modeStr, c02_render_append, c02_renderTok]
        · exact absurd rfl hf
  | fail => exact absurd rfl hf

theorem c02_run_fail (toks : List c02_Tok) (s : Str) : c02_run ⟨toks, .fail⟩ s = ⟨toks, .fail⟩ := by
  induction s with
  | nil => rfl
  | cons c cs ih => simp [c02_step, ih]

theorem c02_run_str (s : Str) (st : c02_St) (hf : (c02_run st s).mode ≠ .fail) :
    c02_stStr (c02_run st s) = c02_stStr st ++ s := by
  induction s generalizing st with
  | nil => simp
  | cons c cs ih =>
    rw [c02_run_cons] at hf ⊢
    have hstep : (c02_step st c).mode ≠ .fail := by
      intro h
      have : c02_step st c = ⟨(c02_step st c).toks, .fail⟩ := by
        cases hs : c02_step st c with
        | mk t m => rw [hs] at h; simp at h; subst h; rfl
      rw [this, c02_run_fail] at hf
      exact hf rfl
    rw [ih _ hf, c02_step_str st c hstep]
    simp

/-- whatever the lexer accepts is the canonical spelling of the tokens it returns -/
theorem c02_lexHtml_sound (s : Str) (toks : List c02_Tok) (h : c02_lexHtml s = some toks) :
    s = c02_render toks := by
  unfold c02_lexHtml at h
  split at h
  · rename_i toks' acc hr
    cases h
    have hf : (c02_run ⟨[], .text []⟩ s).mode ≠ .fail := by rw [hr]; simp
    have := c02_run_str s _ hf
    rw [hr] at this
    simp [c02_stStr, c02_modeStr] at this
    simp [c02_render_append, c02_render_flush, this]
  · cases h

/-! ### conversely, every rendering of plain-named tokens is accepted -/

/-- tag names and attribute keys of a token are plain names -/
def c02_plainTok : c02_Tok → Bool
  | .start n as => c02_plainName n && c02_plainAttrs as
  | .end n => c02_plainName n
  | .selfClose n as => c02_plainName n && c02_plainAttrs as
  | .text _ => true

theorem c02_run_renderTok (t : c02_Tok) (hp : c02_plainTok t = true) (toks : List c02_Tok) (acc : Str) :
    c02_run ⟨toks, .text acc⟩ (c02_renderTok t)
      = ⟨(c02_feedStep (toks, acc) t).1, .text (c02_feedStep (toks, acc) t).2⟩ := by
  cases t with
  | start n as =>
    simp only [c02_plainTok, Bool.and_eq_true] at hp
    have := c02_run_startTag { name := n, attrs := as } hp.1 hp.2 toks acc
    simpa [c02_renderTok, c02_feedStep] using this
  | «end» n =>
    simp only [c02_plainTok] at hp
    have := c02_run_endTag n hp toks acc
    simpa [c02_renderTok, c02_feedStep] using this
  | selfClose n as =>
    simp only [c02_plainTok, Bool.and_eq_true] at hp
    have := c02_run_selfClose { name := n, attrs := as } hp.1 hp.2 toks acc
    simpa [c02_renderTok, c02_feedStep] using this
  | text s => simp [c02_renderTok, c02_run_text_escape, c02_feedStep]

theorem c02_run_render (ts : List c02_Tok) (hp : ts.all c02_plainTok = true) (toks : List c02_Tok) (acc : Str) :
    c02_run ⟨toks, .text acc⟩ (c02_render ts)
      = ⟨(c02_feed (toks, acc) ts).1, .text (c02_feed (toks, acc) ts).2⟩ := by
  induction ts generalizing toks acc with
  | nil => simp
  | cons t r ih =>
    simp only [List.all_cons, Bool.and_eq_true] at hp
    rw [c02_render_cons, c02_run_append, c02_run_renderTok t hp.1, ih hp.2]
    simp

theorem c02_lexHtml_render (ts : List c02_Tok) (hp : ts.all c02_plainTok = true) :
    c02_lexHtml (c02_render ts) = some (c02_coalesce ts) := by
  simp [c02_lexHtml, c02_run_render ts hp, c02_coalesce]

end Mammoth
