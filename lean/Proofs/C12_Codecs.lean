/-
  C12 helper: the hypotheses `XmlCodec.Lawful` and `ZipCodec.Lawful` are satisfiable.

  Two toy codecs (NOT XML, NOT zip: a unary byte code) that satisfy the round-trip laws for every
  tree and every archive.  They only witness that the theorems taking the laws as hypotheses are
  not vacuous.
-/
import MammothModel.Embed
namespace Mammoth

/-! ### lists of lists of numbers ↔ bytes (unary: `n` ticks `1`, then `0`; a list ends with `2`) -/

def c12_encNat (n : Nat) : Bytes := List.replicate n 1 ++ [0]

def c12_encNats : List Nat → Bytes
  | [] => [2]
  | n :: ns => c12_encNat n ++ c12_encNats ns

def c12_encLL : List (List Nat) → Bytes
  | [] => []
  | l :: ls => c12_encNats l ++ c12_encLL ls

def c12_decLL : Nat → List Nat → List (List Nat) → Bytes → List (List Nat)
  | _, _, acc, [] => acc.reverse
  | tick, cur, acc, b :: bs =>
    if b = 1 then c12_decLL (tick + 1) cur acc bs
    else if b = 0 then c12_decLL 0 (tick :: cur) acc bs
    else c12_decLL tick [] (cur.reverse :: acc) bs

theorem c12_decLL_ticks (n tick : Nat) (cur : List Nat) (acc : List (List Nat)) (rest : Bytes) :
    c12_decLL tick cur acc (List.replicate n 1 ++ rest) = c12_decLL (tick + n) cur acc rest := by
  induction n generalizing tick with
  | zero => simp
  | succ n ih =>
    simp only [List.replicate_succ, List.cons_append, c12_decLL, if_true]
    rw [ih]; congr 1; omega

theorem c12_decLL_nat (n : Nat) (cur : List Nat) (acc : List (List Nat)) (rest : Bytes) :
    c12_decLL 0 cur acc (c12_encNat n ++ rest) = c12_decLL 0 (n :: cur) acc rest := by
  unfold c12_encNat
  rw [List.append_assoc, c12_decLL_ticks]
  simp [c12_decLL]

theorem c12_decLL_nats (ns cur : List Nat) (acc : List (List Nat)) (rest : Bytes) :
    c12_decLL 0 cur acc (c12_encNats ns ++ rest)
      = c12_decLL 0 [] ((cur.reverse ++ ns) :: acc) rest := by
  induction ns generalizing cur with
  | nil => simp [c12_encNats, c12_decLL]
  | cons n ns ih =>
    simp only [c12_encNats, List.append_assoc]
    rw [c12_decLL_nat, ih]
    simp

theorem c12_decLL_ll (ls acc : List (List Nat)) (rest : Bytes) :
    c12_decLL 0 [] acc (c12_encLL ls ++ rest) = c12_decLL 0 [] (ls.reverse ++ acc) rest := by
  induction ls generalizing acc with
  | nil => simp [c12_encLL]
  | cons l ls ih =>
    simp only [c12_encLL, List.append_assoc]
    rw [c12_decLL_nats, ih]
    simp

theorem c12_decLL_encLL (ls : List (List Nat)) : c12_decLL 0 [] [] (c12_encLL ls) = ls := by
  have := c12_decLL_ll ls [] []
  simp only [List.append_nil] at this
  rw [this]; simp [c12_decLL]

/-! ### strings and byte strings as lists of numbers -/

def c12_codes (s : Str) : List Nat := s.map Char.toNat
def c12_uncodes (l : List Nat) : Str := l.map Char.ofNat

theorem c12_uncodes_codes (s : Str) : c12_uncodes (c12_codes s) = s := by
  induction s with
  | nil => rfl
  | cons c cs ih =>
    simp only [c12_codes, c12_uncodes, List.map_cons, List.map_map] at ih ⊢
    rw [ih, Char.ofNat_toNat]

theorem c12_bytes_codes (b : Bytes) : (b.map UInt8.toNat).map Nat.toUInt8 = b := by
  induction b with
  | nil => rfl
  | cons x xs ih =>
    simp only [List.map_cons, ih]
    congr 1
    apply UInt8.toNat_inj.mp
    simp [Nat.toUInt8]

def c12_pairUp {α} : List α → List (α × α)
  | k :: v :: rest => (k, v) :: c12_pairUp rest
  | _ => []

/-! ### a lawful zip codec -/

def c12_archiveLL : Archive → List (List Nat)
  | [] => []
  | (n, b) :: rest => c12_codes n :: b.map UInt8.toNat :: c12_archiveLL rest

def c12_llArchive (ll : List (List Nat)) : Archive :=
  (c12_pairUp ll).map fun (n, b) => (c12_uncodes n, b.map Nat.toUInt8)

theorem c12_llArchive_archiveLL (a : Archive) : c12_llArchive (c12_archiveLL a) = a := by
  induction a with
  | nil => rfl
  | cons e rest ih =>
    obtain ⟨n, b⟩ := e
    simp only [c12_llArchive, c12_archiveLL, c12_pairUp, List.map_cons] at ih ⊢
    rw [ih, c12_uncodes_codes, c12_bytes_codes]

def c12_toyZip : ZipCodec where
  serialise a := c12_encLL (c12_archiveLL a)
  parse b := some (c12_llArchive (c12_decLL 0 [] [] b))

theorem c12_toyZip_lawful : c12_toyZip.Lawful := by
  intro a _
  simp only [c12_toyZip, c12_decLL_encLL, c12_llArchive_archiveLL]

/-! ### a lawful tree codec: tokens `0 :: codes` (a string), `[1]` (end of header), `[2]` (close) -/

def c12_attrToks : List (Str × Str) → List (List Nat)
  | [] => []
  | (k, v) :: rest => (0 :: c12_codes k) :: (0 :: c12_codes v) :: c12_attrToks rest

mutual
def c12_toks : EElem → List (List Nat)
  | ⟨t, as, cs⟩ => (0 :: c12_codes t) :: (c12_attrToks as ++ [1] :: (c12_toksL cs ++ [[2]]))
def c12_toksL : List EElem → List (List Nat)
  | [] => []
  | c :: cs => c12_toks c ++ c12_toksL cs
end

structure c12_Frame where
  tag : Str
  attrs : List (Str × Str)
  kids : List EElem   -- reversed

def c12_close (f : c12_Frame) : EElem := ⟨f.tag, f.attrs, f.kids.reverse⟩

def c12_parseToks : List Str → List c12_Frame → List (List Nat) → Option EElem
  | _, _, [] => none
  | strs, stack, tok :: toks =>
    match tok with
    | 0 :: cs => c12_parseToks (c12_uncodes cs :: strs) stack toks
    | [1] =>
      match strs.reverse with
      | [] => none
      | t :: kv => c12_parseToks [] (⟨t, c12_pairUp kv, []⟩ :: stack) toks
    | _ =>
      match stack with
      | [] => none
      | [f] => some (c12_close f)
      | f :: g :: more => c12_parseToks strs (⟨g.tag, g.attrs, c12_close f :: g.kids⟩ :: more) toks

def c12_flatAttrs : List (Str × Str) → List Str
  | [] => []
  | (k, v) :: rest => k :: v :: c12_flatAttrs rest

theorem c12_pairUp_flat (as : List (Str × Str)) : c12_pairUp (c12_flatAttrs as) = as := by
  induction as with
  | nil => rfl
  | cons kv rest ih => obtain ⟨k, v⟩ := kv; simp [c12_flatAttrs, c12_pairUp, ih]

theorem c12_parse_str (s : Str) (strs : List Str) (stack : List c12_Frame)
    (rest : List (List Nat)) :
    c12_parseToks strs stack ((0 :: c12_codes s) :: rest) = c12_parseToks (s :: strs) stack rest := by
  simp [c12_parseToks, c12_uncodes_codes]

theorem c12_parse_attrs (as : List (Str × Str)) (strs : List Str) (stack : List c12_Frame)
    (rest : List (List Nat)) :
    c12_parseToks strs stack (c12_attrToks as ++ rest)
      = c12_parseToks ((c12_flatAttrs as).reverse ++ strs) stack rest := by
  induction as generalizing strs with
  | nil => rfl
  | cons kv more ih =>
    obtain ⟨k, v⟩ := kv
    simp only [c12_attrToks, List.cons_append, c12_parse_str, ih, c12_flatAttrs,
      List.reverse_cons, List.append_assoc, List.nil_append]

theorem c12_parse_header (t : Str) (as : List (Str × Str)) (stack : List c12_Frame)
    (rest : List (List Nat)) :
    c12_parseToks [] stack ((0 :: c12_codes t) :: (c12_attrToks as ++ [1] :: rest))
      = c12_parseToks [] (⟨t, as, []⟩ :: stack) rest := by
  rw [c12_parse_str, c12_parse_attrs]
  simp [c12_parseToks, c12_pairUp_flat]

theorem c12_parse_close (f g : c12_Frame) (more : List c12_Frame) (rest : List (List Nat)) :
    c12_parseToks [] (f :: g :: more) ([2] :: rest)
      = c12_parseToks [] (⟨g.tag, g.attrs, c12_close f :: g.kids⟩ :: more) rest := by
  simp [c12_parseToks]

mutual
theorem c12_parse_elem (e : EElem) (g : c12_Frame) (more : List c12_Frame)
    (rest : List (List Nat)) :
    c12_parseToks [] (g :: more) (c12_toks e ++ rest)
      = c12_parseToks [] (⟨g.tag, g.attrs, e :: g.kids⟩ :: more) rest := by
  match e with
  | ⟨t, as, cs⟩ =>
    simp only [c12_toks, List.cons_append, List.append_assoc]
    rw [c12_parse_header, c12_parse_elems cs ⟨t, as, []⟩ (g :: more)]
    simp only [List.nil_append, List.append_nil]
    rw [c12_parse_close]
    simp [c12_close]
theorem c12_parse_elems (es : List EElem) (g : c12_Frame) (more : List c12_Frame)
    (rest : List (List Nat)) :
    c12_parseToks [] (g :: more) (c12_toksL es ++ rest)
      = c12_parseToks [] (⟨g.tag, g.attrs, es.reverse ++ g.kids⟩ :: more) rest := by
  match es with
  | [] => simp [c12_toksL]
  | c :: cs =>
    simp only [c12_toksL, List.append_assoc]
    rw [c12_parse_elem c g more, c12_parse_elems cs _ more]
    simp
end

theorem c12_parse_toks (e : EElem) : c12_parseToks [] [] (c12_toks e) = some e := by
  obtain ⟨t, as, cs⟩ := e
  simp only [c12_toks]
  rw [c12_parse_header, c12_parse_elems cs ⟨t, as, []⟩ []]
  simp [c12_parseToks, c12_close]

def c12_toyXml : XmlCodec where
  serialise e := c12_encLL (c12_toks e)
  parse b := c12_parseToks [] [] (c12_decLL 0 [] [] b)

theorem c12_toyXml_lawful : c12_toyXml.Lawful := by
  intro e
  simp only [c12_toyXml, c12_decLL_encLL, c12_parse_toks]

end Mammoth
