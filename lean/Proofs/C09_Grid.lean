/-
  C09 — abstract table grids: the input type, validity, the specification of `calculateRowSpans`.
-/
import MammothModel.Reader
namespace Mammoth

/-- `w:vMerge` of a cell: absent, `restart`, or a continuation (`continue` / no value) -/
inductive c09_Merge where
  | none | restart | cont
deriving DecidableEq, Repr, Inhabited

/-- a table cell as the reader sees it: its grid span, its vertical-merge kind, its (already read) content -/
structure c09_Cell where
  span : Nat
  merge : c09_Merge
  content : List Elem := []
deriving Repr, Inhabited

abbrev c09_Row := List c09_Cell

def c09_Cell.isCont (c : c09_Cell) : Bool := c.merge == .cont

/-- the `TableCell` the reader builds before `calculate_row_spans`: rowspan 1, `_vmerge` set for continuations -/
def c09_toCell (c : c09_Cell) : Elem := .cell c.span 1 c.isCont c.content

/-- the `TableRow`s of a grid; `hdr i` is the header flag of row `i` (rows numbered from `r`) -/
def c09_toElemsFrom (hdr : Nat → Bool) : Nat → List c09_Row → List Elem
  | _, [] => []
  | r, row :: rest => .row (hdr r) (row.map c09_toCell) :: c09_toElemsFrom hdr (r + 1) rest

def c09_toElems (hdr : Nat → Bool) (rows : List c09_Row) : List Elem := c09_toElemsFrom hdr 0 rows

/-- the cell of the row `cells` (laid out left to right from column `ci`) that starts at column `s` -/
def c09_findStart : c09_Row → Nat → Nat → Option c09_Cell
  | [], _, _ => none
  | c :: cs, ci, s => if ci = s then some c else c09_findStart cs (ci + c.span) s

/-- the row has a continuation cell starting at column `s` -/
def c09_hasContAtFrom (cells : c09_Row) (ci s : Nat) : Bool :=
  match c09_findStart cells ci s with
  | some c => c.isCont
  | none => false

def c09_hasContAt (row : c09_Row) (s : Nat) : Bool := c09_hasContAtFrom row 0 s

/-- number of consecutive rows, from the top of `below`, that have a continuation cell starting at column `s` -/
def c09_chain : List c09_Row → Nat → Nat
  | [], _ => 0
  | row :: rest, s => if c09_hasContAt row s then 1 + c09_chain rest s else 0

/-- every span is ≥ 1 and every continuation cell of `cells` (laid out from `ci`) has, in the row `prev`,
    a `restart`/`cont` cell with the same start column and the same span -/
def c09_rowOkFrom (prev : c09_Row) : c09_Row → Nat → Bool
  | [], _ => true
  | c :: cs, ci =>
    decide (1 ≤ c.span) &&
    (!c.isCont ||
      (match c09_findStart prev 0 ci with
       | some p => p.span == c.span && p.merge != .none
       | none => false)) &&
    c09_rowOkFrom prev cs (ci + c.span)

def c09_width : c09_Row → Nat
  | [] => 0
  | c :: cs => c.span + c09_width cs

/-- each row is well-formed with respect to the row above it (`prev` above the first one) -/
def c09_validFrom (prev : c09_Row) : List c09_Row → Bool
  | [] => true
  | row :: rest => c09_rowOkFrom prev row 0 && c09_validFrom row rest

/-- a well-formed grid: all spans ≥ 1, all rows have the same total width, every continuation cell has
    directly above it a `restart` or `cont` cell with the same start column and span (so there is none
    in the first row) -/
def c09_validGrid (rows : List c09_Row) : Bool :=
  c09_validFrom [] rows &&
  (match rows with
   | [] => true
   | r :: rs => rs.all fun r' => c09_width r' == c09_width r)

/-- what `calculate_row_spans` should make of one row, given the rows below it: the continuation cells are
    gone, every other cell keeps its span and gets rowspan 1 + the length of the merge chain below it -/
def c09_expectedCells (below : List c09_Row) : c09_Row → Nat → List Elem
  | [], _ => []
  | c :: cs, ci =>
    if c.isCont then c09_expectedCells below cs (ci + c.span)
    else .cell c.span (1 + c09_chain below ci) false c.content :: c09_expectedCells below cs (ci + c.span)

def c09_expectedFrom (hdr : Nat → Bool) : Nat → List c09_Row → List Elem
  | _, [] => []
  | r, row :: rest => .row (hdr r) (c09_expectedCells rest row 0) :: c09_expectedFrom hdr (r + 1) rest

def c09_expected (hdr : Nat → Bool) (rows : List c09_Row) : List Elem := c09_expectedFrom hdr 0 rows

/-- a 3×3 grid: column 0 of rows 0–1 is one vertically merged cell, columns 1–2 of row 0 one wide cell -/
def c09_ex : List c09_Row :=
  [[⟨1, .restart, [.text S!"a"]⟩, ⟨2, .none, [.text S!"b"]⟩],
   [⟨1, .cont, []⟩, ⟨1, .none, []⟩, ⟨1, .none, []⟩],
   [⟨1, .none, []⟩, ⟨1, .none, []⟩, ⟨1, .none, []⟩]]

/-! ### basic facts -/

theorem c09_findStart_lt (cells : c09_Row) (ci s : Nat) (h : s < ci) : c09_findStart cells ci s = none := by
  induction cells generalizing ci with
  | nil => rfl
  | cons c cs ih =>
    have : ci ≠ s := by omega
    simp only [c09_findStart, this, if_false]
    exact ih _ (by omega)

theorem c09_rowOk_span (prev : c09_Row) (c : c09_Cell) (cs : c09_Row) (ci : Nat)
    (h : c09_rowOkFrom prev (c :: cs) ci = true) : 1 ≤ c.span ∧ c09_rowOkFrom prev cs (ci + c.span) = true := by
  simp only [c09_rowOkFrom, Bool.and_eq_true, decide_eq_true_eq] at h
  exact ⟨h.1.1, h.2⟩

/-- validity: a continuation cell has a same-span mergeable cell above it -/
theorem c09_rowOk_above (prev cells : c09_Row) (ci s : Nat) (c : c09_Cell)
    (hok : c09_rowOkFrom prev cells ci = true) (hf : c09_findStart cells ci s = some c)
    (hc : c.isCont = true) :
    ∃ p, c09_findStart prev 0 s = some p ∧ p.span = c.span ∧ p.merge ≠ .none := by
  induction cells generalizing ci with
  | nil => simp [c09_findStart] at hf
  | cons d ds ih =>
    simp only [c09_findStart] at hf
    by_cases hcs : ci = s
    · simp only [hcs, if_true, Option.some.injEq] at hf
      subst hf; subst hcs
      simp only [c09_rowOkFrom, Bool.and_eq_true, hc, Bool.not_true, Bool.false_or] at hok
      cases hp : c09_findStart prev 0 ci with
      | none => simp [hp] at hok
      | some p =>
        simp [hp] at hok
        exact ⟨p, rfl, hok.1.2.1, hok.1.2.2⟩
    · simp only [hcs, if_false] at hf
      exact ih _ (c09_rowOk_span prev d ds ci hok).2 hf

end Mammoth
