/-
  C06_Escape — the escape round trip: decoding what the printer wrote gives the string back.
-/
import Proofs.C06_Syntax
namespace Mammoth

theorem c06_decode_raw (c : Char) (cs : Str) (h : c ≠ '\\') :
    decodeEscapes (c :: cs) = c :: decodeEscapes cs := by
  rw [decodeEscapes.eq_def]
  split
  · rename_i heq; simp at heq; exact absurd heq.1 h
  · rename_i heq; simp at heq; rw [heq.1, heq.2]
  · rename_i heq; simp at heq

theorem c06_decode_bs (c : Char) (cs : Str) (h : isDot c = true) :
    decodeEscapes ('\\' :: c :: cs) =
      (if c == 'n' then '\n' else if c == 'r' then '\r' else if c == 't' then '\t' else c) :: decodeEscapes cs := by
  rw [decodeEscapes]; simp [h]

theorem c06_decode_escChar (c : Char) (rest : Str) :
    decodeEscapes (c06_escChar c ++ rest) = c :: decodeEscapes rest := by
  unfold c06_escChar
  by_cases h1 : c = '\n'
  · subst h1; simp; rw [c06_decode_bs _ _ (by decide)]; rfl
  by_cases h2 : c = '\r'
  · subst h2; simp; rw [c06_decode_bs _ _ (by decide)]; rfl
  by_cases h3 : c = '\t'
  · subst h3; simp; rw [c06_decode_bs _ _ (by decide)]; rfl
  simp only [beq_iff_eq, h1, h2, h3, if_false]
  by_cases h4 : (isIdentStart c || isDigit c) = true
  · rw [if_pos h4]
    have : c ≠ '\\' := by intro h; subst h; revert h4; decide
    simp [c06_decode_raw _ _ this]
  · rw [if_neg h4]
    have hn : c ≠ 'n' := by intro h; subst h; revert h4; decide
    have hr : c ≠ 'r' := by intro h; subst h; revert h4; decide
    have ht : c ≠ 't' := by intro h; subst h; revert h4; decide
    have hd : isDot c = true := by simp [isDot, h1]
    simp [c06_decode_bs _ _ hd, hn, hr, ht]

theorem c06_decode_escFirst (c : Char) (rest : Str) :
    decodeEscapes (c06_escFirst c ++ rest) = c :: decodeEscapes rest := by
  unfold c06_escFirst
  by_cases h : isDigit c = true
  · rw [if_pos h]
    have hn : c ≠ 'n' := by intro h'; subst h'; revert h; decide
    have hr : c ≠ 'r' := by intro h'; subst h'; revert h; decide
    have ht : c ≠ 't' := by intro h'; subst h'; revert h; decide
    have hd : isDot c = true := by
      have : c ≠ '\n' := by intro h'; subst h'; revert h; decide
      simp [isDot, this]
    simp [c06_decode_bs _ _ hd, hn, hr, ht]
  · rw [if_neg h]; exact c06_decode_escChar c rest

theorem c06_decode_escRest (s rest : Str) :
    decodeEscapes (c06_escRest s ++ rest) = s ++ decodeEscapes rest := by
  induction s with
  | nil => simp [c06_escRest]
  | cons c cs ih => simp [c06_escRest, List.append_assoc, c06_decode_escChar, ih]

theorem c06_decode_nil : decodeEscapes [] = [] := by simp [decodeEscapes]

/-- decoding the identifier form of `s` gives `s` -/
theorem c06_decode_printIdent (s : Str) : decodeEscapes (c06_printIdent s) = s := by
  cases s with
  | nil => simp [c06_printIdent, decodeEscapes]
  | cons c cs =>
    have := c06_decode_escRest cs []
    simp only [List.append_nil] at this
    simp [c06_printIdent, c06_decode_escFirst, this, c06_decode_nil]

theorem c06_decode_strChar (c : Char) (rest : Str) :
    decodeEscapes (c06_strChar c ++ rest) = c :: decodeEscapes rest := by
  unfold c06_strChar
  by_cases h1 : c = '\''
  · subst h1; simp; rw [c06_decode_bs _ _ (by decide)]; rfl
  by_cases h2 : c = '\\'
  · subst h2; simp; rw [c06_decode_bs _ _ (by decide)]; rfl
  by_cases h3 : c = '\n'
  · subst h3; simp; rw [c06_decode_bs _ _ (by decide)]; rfl
  by_cases h4 : c = '\r'
  · subst h4; simp; rw [c06_decode_bs _ _ (by decide)]; rfl
  by_cases h5 : c = '\t'
  · subst h5; simp; rw [c06_decode_bs _ _ (by decide)]; rfl
  simp [h1, h2, h3, h4, h5, c06_decode_raw _ _ h2]

theorem c06_decode_stringBody_append (s rest : Str) :
    decodeEscapes (c06_stringBody s ++ rest) = s ++ decodeEscapes rest := by
  induction s with
  | nil => simp [c06_stringBody]
  | cons c cs ih => simp [c06_stringBody, List.append_assoc, c06_decode_strChar, ih]

/-- decoding the body of the quoted form of `s` gives `s` -/
theorem c06_decode_stringBody (s : Str) : decodeEscapes (c06_stringBody s) = s := by
  have := c06_decode_stringBody_append s []
  simpa [c06_decode_nil] using this

/-- what `parse_string` computes from the token text: `value[1:-1]` -/
theorem c06_printString_body (s : Str) : ((c06_printString s).drop 1).dropLast = c06_stringBody s := by
  simp [c06_printString]

end Mammoth
