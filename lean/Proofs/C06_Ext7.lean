/-
  C06_Ext7 — the printed text of a mapping is ONE line (no raw line break survives the escapes), so the
  style-map reader (`readStyleMap`, which splits its text at `\n`) sees it as one mapping; which attribute
  keys an element has; leading zeros of a list level.
-/
import Proofs.C06_Chain
import Proofs.C06_Meaning
namespace Mammoth

/-! ### no raw line break in the printed text -/

theorem c06x7_nl_escChar (c : Char) : '\n' ∉ c06_escChar c := by
  unfold c06_escChar
  by_cases h : c = '\n'
  · subst h; decide
  · have h' : ¬ '\n' = c := fun e => h e.symm
    split
    · decide
    · split
      · decide
      · split
        · decide
        · split <;> simp [h']

theorem c06x7_nl_escFirst (c : Char) : '\n' ∉ c06_escFirst c := by
  unfold c06_escFirst
  split
  · rename_i hd
    have : ¬ '\n' = c := by rintro rfl; revert hd; decide
    simp [this]
  · exact c06x7_nl_escChar c

theorem c06x7_nl_escRest (s : Str) : '\n' ∉ c06_escRest s := by
  induction s with
  | nil => simp [c06_escRest]
  | cons c cs ih => simp [c06_escRest, c06x7_nl_escChar, ih]

theorem c06x7_nl_printIdent (s : Str) : '\n' ∉ c06_printIdent s := by
  cases s with
  | nil => simp [c06_printIdent]
  | cons c cs => simp [c06_printIdent, c06x7_nl_escFirst, c06x7_nl_escRest]

theorem c06x7_nl_strChar (c : Char) : '\n' ∉ c06_strChar c := by
  unfold c06_strChar
  by_cases h : c = '\n'
  · subst h; decide
  · have h' : ¬ '\n' = c := fun e => h e.symm
    split
    · decide
    · split
      · decide
      · split
        · decide
        · split
          · decide
          · split
            · decide
            · simp [h']

theorem c06x7_nl_stringBody (s : Str) : '\n' ∉ c06_stringBody s := by
  induction s with
  | nil => simp [c06_stringBody]
  | cons c cs ih => simp [c06_stringBody, c06x7_nl_strChar, ih]

theorem c06x7_nl_printString (s : Str) : '\n' ∉ c06_printString s := by
  simp [c06_printString, c06x7_nl_stringBody]

theorem c06x7_nl_printNat (n : Nat) : '\n' ∉ c06_printNat n := by
  intro h
  have := c06_printNat_digits n _ h
  revert this; decide

theorem c06x7_text_append (a b : List Token) : c06_text (a ++ b) = c06_text a ++ c06_text b := by
  induction a with
  | nil => simp [c06_text]
  | cons t ts ih => simp [c06_text, ih]

theorem c06x7_nl_brk (ty : c06_Brk) : '\n' ∉ ty.str := by cases ty <;> decide

theorem c06x7_nl_listWord (b : Bool) : '\n' ∉ c06_listWord b := by cases b <;> decide

theorem c06x7_nl_sid (o : Option Str) : '\n' ∉ c06_text (c06_sidToks o) := by
  cases o <;> simp [c06_sidToks, c06_text, c06_sym, c06_id, c06x7_nl_printIdent]

theorem c06x7_nl_sn (o : Option StrMatch) : '\n' ∉ c06_text (c06_snToks o) := by
  cases o with
  | none => simp [c06_snToks, c06_text]
  | some m =>
    cases m <;>
      simp [c06_snToks, c06_smToks, c06_text, c06_sym, c06_kw, c06_str, c06x7_nl_printString]

theorem c06x7_nl_num (o : Option c06_Level) : '\n' ∉ c06_text (c06_numToks o) := by
  cases o with
  | none => simp [c06_numToks, c06_text]
  | some l =>
    simp [c06_numToks, c06_text, c06_sym, c06_kw, c06x7_nl_printNat, c06x7_nl_listWord]

theorem c06x7_nl_bracket (key v : Str) (hk : '\n' ∉ key) : '\n' ∉ c06_text (c06_bracketToks key v) := by
  simp [c06_bracketToks, c06_text, c06_sym, c06_kw, c06_str, c06x7_nl_printString, hk]

theorem c06x7_nl_matcher (m : c06_Matcher) : '\n' ∉ c06_text (c06_matcherToks m) := by
  cases m with
  | highlight c =>
    cases c with
    | none => simp [c06_matcherToks, c06_text, c06_kw]
    | some c =>
      have := c06x7_nl_bracket S!"color" c (by decide)
      simp [c06_matcherToks, c06_text, c06_kw, this]
  | brk ty =>
    have := c06x7_nl_bracket S!"type" ty.str (by decide)
    simp [c06_matcherToks, c06_text, c06_kw, this]
  | _ =>
    simp [c06_matcherToks, c06_text, c06_kw, c06x7_text_append, c06x7_nl_sid, c06x7_nl_sn, c06x7_nl_num]

theorem c06x7_nl_alts (as : List Str) : '\n' ∉ c06_text (c06_altToks as) := by
  induction as with
  | nil => simp [c06_altToks, c06_text]
  | cons a as ih => simp [c06_altToks, c06_text, c06_sym, c06_id, c06x7_nl_printIdent, ih]

theorem c06x7_nl_events (evs : List AttrOrClass) : '\n' ∉ c06_text (c06_eventToks evs) := by
  induction evs with
  | nil => simp [c06_eventToks, c06_text]
  | cons e evs ih =>
    cases e <;>
      simp [c06_eventToks, c06_text, c06_sym, c06_id, c06_str, c06x7_nl_printIdent, c06x7_nl_printString, ih]

theorem c06x7_nl_fresh (b : Bool) : '\n' ∉ c06_text (c06_freshToks b) := by
  cases b <;> simp [c06_freshToks, c06_text, c06_sym, c06_kw]

theorem c06x7_nl_sep (o : Option Str) : '\n' ∉ c06_text (c06_sepToks o) := by
  cases o <;> simp [c06_sepToks, c06_text, c06_sym, c06_kw, c06_str, c06x7_nl_printString]

theorem c06x7_nl_elem (e : c06_Elem) : '\n' ∉ c06_text (c06_elemToks e) := by
  simp [c06_elemToks, c06_text, c06_id, c06x7_text_append, c06x7_nl_printIdent, c06x7_nl_alts,
    c06x7_nl_events, c06x7_nl_fresh, c06x7_nl_sep]

theorem c06x7_nl_more (es : List c06_Elem) : '\n' ∉ c06_text (c06_moreToks es) := by
  induction es with
  | nil => simp [c06_moreToks, c06_text]
  | cons e es ih =>
    simp [c06_moreToks, c06_text, c06_sp, c06_sym, c06x7_text_append, c06x7_nl_elem, ih]

theorem c06x7_nl_path (p : c06_Path) : '\n' ∉ c06_text (c06_pathToks p) := by
  cases p with
  | ignore => simp [c06_pathToks, c06_text, c06_sym]
  | elems es =>
    cases es with
    | nil => simp [c06_pathToks, c06_text]
    | cons e es => simp [c06_pathToks, c06x7_text_append, c06x7_nl_elem, c06x7_nl_more]

/-- no raw line break in the printed text of any mapping -/
theorem c06x7_nl_print (sp : Bool) (m : c06_Mapping) : '\n' ∉ c06_print sp m := by
  cases sp <;>
    simp [c06_print, c06_tokens, c06_text, c06x7_text_append, c06_sp, c06_sym, c06x7_nl_matcher, c06x7_nl_path]

/-! ### the style-map reader on a one-line text -/

theorem c06x7_split_one (s : Str) (h : '\n' ∉ s) : splitOnChar '\n' s = [s] := by
  induction s with
  | nil => simp [splitOnChar]
  | cons c cs ih =>
    have hc : ¬ c = '\n' := fun e => h (by simp [e])
    have hcs : '\n' ∉ cs := fun e => h (by simp [e])
    simp [splitOnChar, ih hcs, hc]

/-- the first character of the matcher text is a letter: the line is neither empty nor a comment -/
theorem c06x7_print_head (sp : Bool) (m : c06_Mapping) :
    ∃ c r, c06_print sp m = c :: r ∧ c ≠ '#' := by
  obtain ⟨mm, p⟩ := m
  cases mm with
  | highlight c => cases c <;> exact ⟨'h', _, by simp [c06_print, c06_tokens, c06_matcherToks, c06_text, c06_kw]; rfl, by decide⟩
  | paragraph _ _ _ => exact ⟨'p', _, by simp [c06_print, c06_tokens, c06_matcherToks, c06_text, c06_kw]; rfl, by decide⟩
  | run _ _ => exact ⟨'r', _, by simp [c06_print, c06_tokens, c06_matcherToks, c06_text, c06_kw]; rfl, by decide⟩
  | table _ _ => exact ⟨'t', _, by simp [c06_print, c06_tokens, c06_matcherToks, c06_text, c06_kw]; rfl, by decide⟩
  | bold => exact ⟨'b', _, by simp [c06_print, c06_tokens, c06_matcherToks, c06_text, c06_kw]; rfl, by decide⟩
  | italic => exact ⟨'i', _, by simp [c06_print, c06_tokens, c06_matcherToks, c06_text, c06_kw]; rfl, by decide⟩
  | underline => exact ⟨'u', _, by simp [c06_print, c06_tokens, c06_matcherToks, c06_text, c06_kw]; rfl, by decide⟩
  | strikethrough => exact ⟨'s', _, by simp [c06_print, c06_tokens, c06_matcherToks, c06_text, c06_kw]; rfl, by decide⟩
  | allCaps => exact ⟨'a', _, by simp [c06_print, c06_tokens, c06_matcherToks, c06_text, c06_kw]; rfl, by decide⟩
  | smallCaps => exact ⟨'s', _, by simp [c06_print, c06_tokens, c06_matcherToks, c06_text, c06_kw]; rfl, by decide⟩
  | commentReference => exact ⟨'c', _, by simp [c06_print, c06_tokens, c06_matcherToks, c06_text, c06_kw]; rfl, by decide⟩
  | brk _ => exact ⟨'b', _, by simp [c06_print, c06_tokens, c06_matcherToks, c06_text, c06_kw]; rfl, by decide⟩

/-! ### which attribute keys an element has -/

/-- the event sets key `k`: an attribute named `k`, or any class when `k` is `class` -/
def c06x7_mentions (k : Str) : AttrOrClass → Bool
  | .attr n _ => decide (k = n)
  | .cls _ => decide (k = S!"class")

theorem c06x7_attrSpec_some (k : Str) (evs : List AttrOrClass) : ∀ v, ∃ w, c06_attrSpec k (some v) evs = some w := by
  induction evs with
  | nil => intro v; exact ⟨v, rfl⟩
  | cons e evs ih =>
    intro v
    cases e with
    | attr n x =>
      simp only [c06_attrSpec]
      by_cases h : k = n
      · subst h; simp only [if_true]; exact ih x
      · simp only [h, if_false]; exact ih v
    | cls c =>
      simp only [c06_attrSpec]
      by_cases h : k = S!"class"
      · rw [if_pos h]
        by_cases hv : v.isEmpty = true
        · simp only [hv, if_true]; exact ih _
        · simp only [hv]; exact ih _
      · rw [if_neg h]; exact ih v

theorem c06x7_attrSpec_none (k : Str) (evs : List AttrOrClass) :
    c06_attrSpec k none evs = none ↔ ∀ ev ∈ evs, c06x7_mentions k ev = false := by
  induction evs with
  | nil => simp [c06_attrSpec]
  | cons e evs ih =>
    cases e with
    | attr n x =>
      by_cases h : k = n
      · obtain ⟨w, hw⟩ := c06x7_attrSpec_some k evs x
        subst h
        simp [c06_attrSpec, c06x7_mentions, hw]
      · simp [c06_attrSpec, h, c06x7_mentions, ih]
    | cls c =>
      by_cases h : k = S!"class"
      · obtain ⟨w, hw⟩ := c06x7_attrSpec_some k evs c
        simp only [c06_attrSpec, if_pos h, hw]
        simp [c06x7_mentions, h]
      · simp [c06_attrSpec, h, c06x7_mentions, ih]

/-! ### leading zeros of a list level -/

theorem c06x7_digitsToNat_zero (ds : Str) : digitsToNat ('0' :: ds) = digitsToNat ds := by
  simp [digitsToNat]

end Mammoth
