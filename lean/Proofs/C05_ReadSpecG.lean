/-
  C05 — the reader specification of `Proofs/C05_ReadSpec.lean` with the hypothesis "no `w:numStyleLink`"
  replaced by the weakest one: `_read_numbering_properties` returns normally (`c05_numOk`), which holds
  exactly when the `w:numStyleLink` chains are acyclic (`c05_linksAcyclic`, Proofs/C05_Links.lean).
  On statically well-formed input the element reader fails only by running out of fuel or by popping an
  empty complex-field stack.
-/
import Proofs.C05_ReadSpec
import Proofs.C05_Links
namespace Mammoth

/-- `_read_numbering_properties` returns normally in this environment, whatever the paragraph says -/
def c05_numOk (env : REnv) : Prop := ∀ sid numPr, ∃ r, readNumberingProps env sid numPr = .ok r

theorem c05_numOk_of_acyclic (env : REnv) (hl : c05_linksAcyclic env = true) : c05_numOk env :=
  fun sid numPr => c05_readNumberingProps_ok_acyclic env hl sid numPr

theorem c05_readBody_specG (env : REnv) (hn : c05_numOk env) (ra : c05_RdAll)
    (ih : ∀ st ns, c05_staticL env ns = true → c05_staticL env st.deleted = true →
      c05_spec c05_allowed (c05_Q env) (ra st ns))
    (st : RState) (name : Str) (as : Attrs) (cs : List XmlNode)
    (hel : c05_elemOk env name as cs = true) (hcs : c05_staticL env cs = true)
    (hdel : c05_staticL env st.deleted = true) :
    c05_spec c05_allowed (c05_Q env) (c05_readBody env ra st name as cs) := by
  unfold c05_readBody
  split
  · split <;> exact c05_spec_ok _ hdel
  · rename_i g hg
    repeat' (first
      | with_reducible refine c05_spec_ite _ _ _ (fun _ => ?_) (fun _ => ?_)
      | exact c05_spec_ok _ hdel
      | exact c05_spec_pure _ (by assumption)
      | exact ih _ _ hcs hdel
      | exact ih _ _ (c05_staticL_findChild env _ cs hcs) hdel
      | exact c05_spec_ok _ (by show c05_staticL env (st.deleted ++ cs) = true; rw [c05_staticL_append, hdel, hcs]; rfl)
      | exact c05_spec_weaken (c05_readFldChar_spec st as cs) (fun a ha => by show c05_staticL env a.2.deleted = true; rw [ha]; exact hdel)
      | refine c05_spec_bind (Q := c05_Q env) _ _ (ih _ _ hcs hdel) (fun _ _ => ?_)
      | refine c05_spec_bind (Q := c05_Q env) _ _ (ih _ _ (by rw [c05_staticL_append, hdel, hcs]; rfl) rfl) (fun _ _ => ?_)
      | refine c05_spec_bind (Q := fun _ => True) _ _ (c05_spec_of_isOk _ (hn _ _)) (fun _ _ => ?_)
      | exact c05_spec_map _ _ (c05_spec_of_isOk _ (c05_readSymbol_ok as
          (c05_elemOk_symbol env name g as cs hg (by assumption) hel))) (fun _ _ => hdel)
      | exact c05_spec_map _ _ (c05_spec_of_isOk _ (c05_readInline_ok env cs
          (c05_elemOk_inline env name g as cs hg (by assumption) hel))) (fun _ _ => hdel)
      | exact c05_spec_map _ _ (c05_spec_of_isOk _ (c05_readEmbeddedImage_ok env _ _
          (c05_match_some (c05_elemOk_imagedata env name g as cs hg (by assumption) hel) (by assumption))))
          (fun _ _ => hdel)
      | exact (c05_cell_contra (by assumption) (by assumption)
          (c05_match_some (c05_elemOk_cell env name g as cs hg (by assumption) hel) (by assumption))).elim
      | exact (c05_isSome_contra (c05_elemOk_noteRef env name g as cs hg (by assumption) hel) (by assumption)).elim
      | exact (c05_isSome_contra (c05_elemOk_commentRef env name g as cs hg (by assumption) hel) (by assumption)).elim
      | refine c05_spec_bind (Q := fun _ => True) _ _ (c05_spec_of_isOk _ (c05_targetById_ok env _
          (c05_match_some (c05_elemOk_hyperlink env name g as cs hg (by assumption) hel) (by assumption))))
          (fun _ _ => ?_)
      | split
      | dsimp only)
    -- the final `else`: every handler name of the table is covered by the chain
    have hany := c05_handler_any name g hg
    simp only [c05_handlerNames, List.any_cons, List.any_nil, Bool.or_false, Bool.or_eq_true] at hany
    have hnote : ¬ (g == S!"note_reference:footnote" || g == S!"note_reference:endnote") = true := by assumption
    rcases hany with h|h|h|h|h|h|h|h|h|h|h|h|h|h|h|h|h|h|h|h|h|h|h|h
    all_goals first
      | contradiction
      | exact absurd (by rw [h]; rfl) hnote
      | exact absurd (by rw [h]; exact Bool.or_true _) hnote

theorem c05_readElem_specG (env : REnv) (hn : c05_numOk env) :
    ∀ (f : Nat) (st : RState) (n : XmlNode), c05_static env n = true → c05_staticL env st.deleted = true →
      c05_spec c05_allowed (c05_Q env) (readElem env f st n)
  | f, st, .text s, _, hd => by rw [c05_readElem_text]; exact c05_spec_ok _ hd
  | 0, st, .elem name as cs, _, _ => by
    rw [c05_readElem_zero]
    exact ⟨fun e he => (by cases he; exact Or.inl rfl), fun a ha => (by cases ha)⟩
  | f+1, st, .elem name as cs, hs, hd => by
    rw [c05_readElem_succ]
    simp only [c05_static, Bool.and_eq_true] at hs
    exact c05_readBody_specG env hn _
      (fun st ns h1 h2 => c05_readAllWith_spec env _ (c05_readElem_specG env hn f) ns st h1 h2)
      st name as cs hs.1 hs.2 hd

end Mammoth
