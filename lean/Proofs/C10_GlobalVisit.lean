/-
  C10, global part 2: the EVENTS of a document element (bookmarks, links, note and comment references met
  in reading order, as the converter visits them) and the theorem that the summary of the converter's
  output (ids, hrefs, anchors) is the one these events prescribe.
-/
import Proofs.C10_Global
namespace Mammoth

/-- what matters for ids and hrefs, in reading order -/
inductive c10_Ev where
  | bookmark (name : Str)          -- a bookmark (name already formatted: a missing one is `None`)
  | link (h : LinkProps)           -- a hyperlink
  | noteRef (ty id : Str)          -- a note reference
  | commentRef (id : Str)          -- a comment reference, when a style mapping enables them
  | item (ty id : Str)             -- the `li` of a note / the `dt` of a comment (`ty = "comment"`)
  | back (ty id : Str)             -- the back-link that ends a note or comment body
deriving DecidableEq, Repr

/-! #### the events of the input, by recursion over the document tree -/
mutual
/-- the events of one element: nothing below an ignored paragraph / run / table; a disabled comment
    reference is no event -/
def c10_evs (cfg : Cfg) : Elem → List c10_Ev
  | .paragraph p cs =>
    if (c01_path cfg (.paragraph p) (.elements [pathElem S!"p" true])).isIgnore then [] else c10_evsL cfg cs
  | .run r cs => if (c01_runPaths cfg r).any HtmlPath.isIgnore then [] else c10_evsL cfg cs
  | .hyperlink h cs => .link h :: c10_evsL cfg cs
  | .table sid sname rows =>
    if (c01_path cfg (.table sid sname) (.elements [pathElem S!"table" true])).isIgnore then []
    else c10_evsL cfg rows
  | .row _ cells => c10_evsL cfg cells
  | .cell _ _ _ cs => c10_evsL cfg cs
  | .bookmark name => [.bookmark (pyOpt name)]
  | .noteRef ty id => [.noteRef ty id]
  | .commentRef id =>
    match findPath cfg .commentReference with
    | some (.elements _) => [.commentRef id]
    | _ => []
  | _ => []
def c10_evsL (cfg : Cfg) : List Elem → List c10_Ev
  | [] => []
  | e :: es => c10_evs cfg e ++ c10_evsL cfg es
end

/-! #### what the events prescribe -/

def c10_commentTy : Str := S!"comment"

/-- the id an event gives rise to -/
def c10_evId (cfg : Cfg) : c10_Ev → List Str
  | .bookmark n => [htmlId cfg n]
  | .noteRef ty id => [referenceId cfg ty id]
  | .commentRef id => [referenceId cfg c10_commentTy id]
  | .item ty id => [referentId cfg ty id]
  | _ => []
/-- the href an event gives rise to -/
def c10_evHref (cfg : Cfg) : c10_Ev → List Str
  | .link h => [c10_linkHref cfg h]
  | .noteRef ty id => [['#'] ++ referentId cfg ty id]
  | .commentRef id => [['#'] ++ referentId cfg c10_commentTy id]
  | .back ty id => [['#'] ++ referenceId cfg ty id]
  | _ => []

def c10_evIds (cfg : Cfg) (evs : List c10_Ev) : List Str := evs.flatMap (c10_evId cfg)
def c10_evHrefs (cfg : Cfg) (evs : List c10_Ev) : List Str := evs.flatMap (c10_evHref cfg)

/-- the note references among the events -/
def c10_evRefs : List c10_Ev → List (Str × Str)
  | [] => []
  | .noteRef ty id :: r => (ty, id) :: c10_evRefs r
  | _ :: r => c10_evRefs r
/-- the comment references among the events -/
def c10_evCRefs : List c10_Ev → List Str
  | [] => []
  | .commentRef id :: r => id :: c10_evCRefs r
  | _ :: r => c10_evCRefs r

def c10_findComment (cfg : Cfg) (id : Str) : Option Comment :=
  lookupLast id (cfg.comments.map fun c => (c.id, c))

/-- the comments the comment references among the events stand for -/
def c10_evComments (cfg : Cfg) (evs : List c10_Ev) : List Comment :=
  (c10_evCRefs evs).filterMap (c10_findComment cfg)

/-- the anchors (id, href, label): the k-th note reference is labelled `[k]`, the k-th comment reference
    `[` initials k `]`; `n`, `c` are the numbers of note / comment references met before -/
def c10_evAnchors (cfg : Cfg) : Nat → Nat → List c10_Ev → List (Str × Str × Str)
  | _, _, [] => []
  | n, c, .noteRef ty id :: r =>
    (referenceId cfg ty id, ['#'] ++ referentId cfg ty id, ['['] ++ natToStr (n + 1) ++ [']'])
      :: c10_evAnchors cfg (n + 1) c r
  | n, c, .commentRef id :: r =>
    match c10_findComment cfg id with
    | some cm =>
      (referenceId cfg c10_commentTy id, ['#'] ++ referentId cfg c10_commentTy id,
        ['['] ++ commentAuthorLabel cm ++ natToStr (c + 1) ++ [']']) :: c10_evAnchors cfg n (c + 1) r
    | none => c10_evAnchors cfg n c r
  | n, c, _ :: r => c10_evAnchors cfg n c r

def c10_evSum (cfg : Cfg) (n c : Nat) (evs : List c10_Ev) : c10_Sum :=
  (c10_evIds cfg evs, c10_evHrefs cfg evs, c10_evAnchors cfg n c evs, true)

theorem c10_evRefs_append (a b : List c10_Ev) : c10_evRefs (a ++ b) = c10_evRefs a ++ c10_evRefs b := by
  induction a with
  | nil => rfl
  | cons x xs ih => cases x <;> simp [c10_evRefs, ih]

theorem c10_evCRefs_append (a b : List c10_Ev) : c10_evCRefs (a ++ b) = c10_evCRefs a ++ c10_evCRefs b := by
  induction a with
  | nil => rfl
  | cons x xs ih => cases x <;> simp [c10_evCRefs, ih]

theorem c10_evComments_append (cfg : Cfg) (a b : List c10_Ev) :
    c10_evComments cfg (a ++ b) = c10_evComments cfg a ++ c10_evComments cfg b := by
  simp [c10_evComments, c10_evCRefs_append]

theorem c10_evAnchors_append (cfg : Cfg) (a b : List c10_Ev) (n c : Nat) :
    c10_evAnchors cfg n c (a ++ b) =
      c10_evAnchors cfg n c a ++
        c10_evAnchors cfg (n + (c10_evRefs a).length) (c + (c10_evComments cfg a).length) b := by
  induction a generalizing n c with
  | nil => simp [c10_evAnchors, c10_evRefs, c10_evComments, c10_evCRefs]
  | cons x xs ih =>
    cases x with
    | noteRef ty id =>
      simp only [List.cons_append, c10_evAnchors, ih, c10_evRefs, c10_evComments, c10_evCRefs, List.length_cons]
      simp [Nat.add_assoc, Nat.add_comm 1]
    | commentRef id =>
      simp only [List.cons_append, c10_evAnchors, c10_evRefs, c10_evComments, c10_evCRefs, List.filterMap_cons]
      cases c10_findComment cfg id with
      | none => simp only [ih]; rfl
      | some cm =>
        simp only [ih, List.length_cons, c10_evComments]
        simp [Nat.add_assoc, Nat.add_comm 1]
    | bookmark _ => simpa [c10_evAnchors, c10_evRefs, c10_evComments, c10_evCRefs] using ih n c
    | link _ => simpa [c10_evAnchors, c10_evRefs, c10_evComments, c10_evCRefs] using ih n c
    | item _ _ => simpa [c10_evAnchors, c10_evRefs, c10_evComments, c10_evCRefs] using ih n c
    | back _ _ => simpa [c10_evAnchors, c10_evRefs, c10_evComments, c10_evCRefs] using ih n c

theorem c10_evSum_append (cfg : Cfg) (a b : List c10_Ev) (n c : Nat) :
    c10_evSum cfg n c (a ++ b) =
      c10_add (c10_evSum cfg n c a)
        (c10_evSum cfg (n + (c10_evRefs a).length) (c + (c10_evComments cfg a).length) b) := by
  simp [c10_evSum, c10_add, c10_evIds, c10_evHrefs, c10_evAnchors_append]

/-! #### the Hoare-style statement -/

/-- after running from `st` with result `ns`, `st'`: the output's summary is the one `evs` prescribes
    (labels counted from the state's counters), and the state has recorded exactly the references -/
def c10_Post (cfg : Cfg) (st : ConvState) (evs : List c10_Ev) (ns : List Node) (st' : ConvState) : Prop :=
  c10_sum ns = c10_evSum cfg st.noteRefs.length st.refComments.length evs ∧
  st'.noteRefs = st.noteRefs ++ c10_evRefs evs ∧
  st'.refComments.map Prod.snd = st.refComments.map Prod.snd ++ c10_evComments cfg evs ∧
  (∀ id ∈ c10_evCRefs evs, (c10_findComment cfg id).isSome = true)

def c10_H (cfg : Cfg) (m : ConvM (List Node)) (evs : List c10_Ev) : Prop :=
  ∀ st ns st', m.run st = .ok (ns, st') → c10_Post cfg st evs ns st'

def c10_H2 (cfg : Cfg) (m : ConvM (List Node × List Node)) (evs : List c10_Ev) : Prop :=
  ∀ st h b st', m.run st = .ok ((h, b), st') → c10_Post cfg st evs (h ++ b) st'

/-- the computation leaves the two reference lists alone -/
def c10_keeps {α} (m : ConvM α) : Prop :=
  ∀ st a st', m.run st = .ok (a, st') → st'.noteRefs = st.noteRefs ∧ st'.refComments = st.refComments

theorem c10_Post_len (cfg : Cfg) (st : ConvState) (evs : List c10_Ev) (ns : List Node) (st' : ConvState)
    (h : c10_Post cfg st evs ns st') :
    st'.noteRefs.length = st.noteRefs.length + (c10_evRefs evs).length ∧
    st'.refComments.length = st.refComments.length + (c10_evComments cfg evs).length := by
  obtain ⟨_, h2, h3, _⟩ := h
  constructor
  · rw [h2, List.length_append]
  · have := congrArg List.length h3
    simpa using this

theorem c10_H_pure (cfg : Cfg) (ns : List Node) (evs : List c10_Ev)
    (h1 : ∀ n c, c10_sum ns = c10_evSum cfg n c evs) (h2 : c10_evRefs evs = [])
    (h3 : c10_evCRefs evs = []) : c10_H cfg (pure ns) evs := by
  intro st ns' st' h
  rw [c10_run_pure] at h; cases h
  exact ⟨h1 _ _, by simp [h2], by simp [c10_evComments, h3], by simp [h3]⟩

theorem c10_H_nil (cfg : Cfg) (ns : List Node) (h : c10_sum ns = c10_zero) : c10_H cfg (pure ns) [] :=
  c10_H_pure cfg ns [] (fun _ _ => by rw [h]; rfl) rfl rfl

theorem c10_H_keeps_bind {α} (cfg : Cfg) (m : ConvM α) (f : α → ConvM (List Node)) (evs : List c10_Ev)
    (hm : c10_keeps m) (hf : ∀ a, c10_H cfg (f a) evs) : c10_H cfg (m >>= f) evs := by
  intro st ns st' h
  rw [c10_run_bind] at h
  split at h
  · rename_i a s hr
    obtain ⟨e1, e2⟩ := hm st a s hr
    have := hf a s ns st' h
    unfold c10_Post at this ⊢
    rw [e1, e2] at this
    exact this
  · cases h

theorem c10_H_findPathWarn (cfg : Cfg) (t : Target) (kind : Str) (sid sname : Option Str) (d : HtmlPath)
    (f : HtmlPath → ConvM (List Node)) (evs : List c10_Ev) (hf : c10_H cfg (f (c01_path cfg t d)) evs) :
    c10_H cfg (findPathWarn cfg t kind sid sname d >>= f) evs := by
  intro st ns st' h
  rw [c10_run_bind] at h
  have e : (findPathWarn cfg t kind sid sname d).run st =
      .ok (c01_path cfg t d, c01_warnState cfg t kind sid sname st) := c01_findPathWarn_run ..
  rw [e] at h
  have := hf _ ns st' h
  have e1 : (c01_warnState cfg t kind sid sname st).noteRefs = st.noteRefs := by
    unfold c01_warnState; split <;> rfl
  have e2 : (c01_warnState cfg t kind sid sname st).refComments = st.refComments := by
    unfold c01_warnState; split <;> rfl
  unfold c10_Post at this ⊢
  rw [e1, e2] at this
  exact this

/-- wrap the result in something that adds the static events `pre` before and `post` after -/
theorem c10_H_wrap (cfg : Cfg) (m : ConvM (List Node)) (g : List Node → List Node)
    (pre evs post : List c10_Ev) (hm : c10_H cfg m evs)
    (hpre : c10_evRefs pre = [] ∧ c10_evCRefs pre = [] ∧ ∀ n c, c10_evAnchors cfg n c pre = [])
    (hpost : c10_evRefs post = [] ∧ c10_evCRefs post = [] ∧ ∀ n c, c10_evAnchors cfg n c post = [])
    (hg : ∀ ns, c10_sum (g ns) = c10_add (c10_evSum cfg 0 0 pre) (c10_add (c10_sum ns) (c10_evSum cfg 0 0 post))) :
    c10_H cfg (m >>= fun ns => pure (g ns)) (pre ++ evs ++ post) := by
  intro st ns st' h
  rw [c10_run_bind] at h
  split at h
  · rename_i a s hr
    rw [c10_run_pure] at h; cases h
    obtain ⟨p1, p2, p3, p4⟩ := hm st a st' hr
    refine ⟨?_, ?_, ?_, ?_⟩
    · rw [hg, p1]
      simp only [c10_evSum_append, c10_evComments, hpre.1, hpre.2.1, List.length_nil, Nat.add_zero,
        List.filterMap_nil]
      simp [c10_evSum, c10_add, hpre.2.2, hpost.2.2]
    · simp [c10_evRefs_append, hpre.1, hpost.1, p2]
    · simp [c10_evComments, c10_evCRefs_append, hpre.2.1, hpost.2.1, p3]
    · simpa [c10_evCRefs_append, hpre.2.1, hpost.2.1] using p4
  · cases h

theorem c10_H_map (cfg : Cfg) (m : ConvM (List Node)) (g : List Node → List Node) (evs : List c10_Ev)
    (hm : c10_H cfg m evs) (hg : ∀ ns, c10_sum (g ns) = c10_sum ns) :
    c10_H cfg (m >>= fun ns => pure (g ns)) evs := by
  have := c10_H_wrap cfg m g [] evs [] hm ⟨rfl, rfl, fun _ _ => rfl⟩ ⟨rfl, rfl, fun _ _ => rfl⟩
    (by intro ns; rw [hg]; simp [c10_evSum, c10_evIds, c10_evHrefs, c10_evAnchors, c10_add])
  simpa using this

theorem c10_Post_seq (cfg : Cfg) (st s1 s2 : ConvState) (e1 e2 : List c10_Ev) (a b : List Node)
    (p : c10_Post cfg st e1 a s1) (q : c10_Post cfg s1 e2 b s2) : c10_Post cfg st (e1 ++ e2) (a ++ b) s2 := by
  obtain ⟨l1, l2⟩ := c10_Post_len cfg st e1 a s1 p
  obtain ⟨p1, p2, p3, p4⟩ := p
  obtain ⟨q1, q2, q3, q4⟩ := q
  refine ⟨?_, ?_, ?_, ?_⟩
  · rw [c10_sum_append, p1, q1, c10_evSum_append, l1, l2]
  · rw [q2, p2, c10_evRefs_append, List.append_assoc]
  · rw [q3, p3, c10_evComments_append, List.append_assoc]
  · intro id hid
    rw [c10_evCRefs_append, List.mem_append] at hid
    exact hid.elim (p4 id) (q4 id)

theorem c10_H_seq (cfg : Cfg) (m1 m2 : ConvM (List Node)) (e1 e2 : List c10_Ev)
    (h1 : c10_H cfg m1 e1) (h2 : c10_H cfg m2 e2) :
    c10_H cfg (do let a ← m1; let b ← m2; pure (a ++ b)) (e1 ++ e2) := by
  intro st ns st' h
  rw [c10_run_bind] at h
  split at h
  · rename_i a s1 hr1
    rw [c10_run_bind] at h
    split at h
    · rename_i b s2 hr2
      rw [c10_run_pure] at h; cases h
      exact c10_Post_seq cfg st s1 st' e1 e2 a b (h1 st a s1 hr1) (h2 s1 b st' hr2)
    · cases h
  · cases h

/-! #### keeps -/

theorem c10_keeps_pure {α} (a : α) : c10_keeps (pure a : ConvM α) := by
  intro st b st' h; rw [c10_run_pure] at h; cases h; exact ⟨rfl, rfl⟩
theorem c10_keeps_throw {α} (e : Err) : c10_keeps (throw e : ConvM α) := by
  intro st b st' h; rw [c10_run_throw] at h; cases h
theorem c10_keeps_modify (f : ConvState → ConvState)
    (hf : ∀ s, (f s).noteRefs = s.noteRefs ∧ (f s).refComments = s.refComments) :
    c10_keeps (modify f : ConvM PUnit) := by
  intro st b st' h; rw [c10_run_modify] at h; cases h; exact hf st
theorem c10_keeps_bind {α β} (m : ConvM α) (f : α → ConvM β) (hm : c10_keeps m)
    (hf : ∀ a, c10_keeps (f a)) : c10_keeps (m >>= f) := by
  intro st b st' h
  rw [c10_run_bind] at h
  split at h
  · rename_i a s hr
    obtain ⟨e1, e2⟩ := hm st a s hr
    obtain ⟨e3, e4⟩ := hf a s b st' h
    exact ⟨e3.trans e1, e4.trans e2⟩
  · cases h
theorem c10_keeps_warn (m : Str) : c10_keeps (warn m) :=
  c10_keeps_modify _ (fun _ => ⟨rfl, rfl⟩)

theorem c10_keeps_openImage (cfg : Cfg) (src : ImageSrc) : c10_keeps (openImage cfg src) := by
  unfold openImage
  cases src with
  | embedded name =>
    simp only
    split
    · exact c10_keeps_pure _
    · exact c10_keeps_throw _
  | linked uri =>
    simp only
    split
    · apply c10_keeps_bind
      · exact c10_keeps_modify _ (fun s => ⟨rfl, rfl⟩)
      · intro _; split <;> exact c10_keeps_pure _
    · split
      · apply c10_keeps_bind
        · exact c10_keeps_modify _ (fun s => ⟨rfl, rfl⟩)
        · intro _; split <;> exact c10_keeps_pure _
      · exact c10_keeps_pure _

theorem c10_cleanAlt (o : Option Str) :
    c10_cleanAttrs (match o with
      | some a => if a.isEmpty then [] else [(S!"alt", a)]
      | none => []) = true := by
  cases o with
  | none => rfl
  | some a => simp only; split <;> simp [c10_cleanAttrs]

theorem c10_H_convertImage (cfg : Cfg) (hc : c10_cleanCfg cfg = true) (i : ImageProps) :
    c10_H cfg (convertImage cfg i) [] := by
  unfold convertImage
  apply c10_H_keeps_bind
  · exact c10_keeps_modify _ (fun s => ⟨rfl, rfl⟩)
  · intro _
    simp only
    split
    · apply c10_H_keeps_bind _ _ _ _ (c10_keeps_openImage _ _)
      intro r; split
      · apply c10_H_nil
        rw [c10_sum_el _ _ _ (by rw [c10_cleanAttrs_append, Bool.and_eq_true]; exact ⟨c10_cleanAlt i.altText, rfl⟩)]; rfl
      · exact c10_H_keeps_bind _ _ _ _ (c10_keeps_warn _) (fun _ => c10_H_nil _ _ rfl)
    · rename_i attrs opens hi
      have ha : c10_cleanAttrs attrs = true := by
        simp only [c10_cleanCfg, hi, Bool.and_eq_true] at hc
        exact hc.2
      split
      · apply c10_H_keeps_bind _ _ _ _ (c10_keeps_openImage _ _)
        intro r; split
        · apply c10_H_nil
          rw [c10_sum_el _ _ _ (by simp only [c10_cleanAttrs_append, Bool.and_eq_true]; exact ⟨⟨c10_cleanAlt i.altText, ha⟩, rfl⟩)]; rfl
        · exact c10_H_keeps_bind _ _ _ _ (c10_keeps_warn _) (fun _ => c10_H_nil _ _ rfl)
      · apply c10_H_nil
        rw [c10_sum_el _ _ _ (by rw [c10_cleanAttrs_append, Bool.and_eq_true]; exact ⟨c10_cleanAlt i.altText, ha⟩)]; rfl

/-! #### the visitor -/

theorem c10_ofList_href_id (x y : Str) :
    Dict.ofList [(S!"href", x), (S!"id", y)] = [(S!"href", x), (S!"id", y)] := rfl
theorem c10_ofList_id (x : Str) : Dict.ofList [(S!"id", x)] = [(S!"id", x)] := rfl

theorem c10_sum_noteRef (cfg : Cfg) (ty id : Str) (n c : Nat) :
    c10_sum [el S!"sup" [] [el S!"a" [(S!"href", ['#'] ++ referentId cfg ty id), (S!"id", referenceId cfg ty id)]
        [.text (['['] ++ natToStr (n + 1) ++ [']'])]]] = c10_evSum cfg n c [.noteRef ty id] := by
  rw [c10_sum_el _ _ _ rfl]
  simp [el, c10_ofList_href_id, c10_sum_elem, c10_tagSum, c10_tagVals, c10_tagAnchor, c10_add, c10_evSum, c10_evIds, c10_evHrefs,
    c10_evId, c10_evHref, c10_evAnchors, c10_zero, hasContent, anyContent]

theorem c10_sum_commentRef (cfg : Cfg) (id : Str) (cm : Comment) (n c : Nat)
    (hc : c10_findComment cfg id = some cm) :
    c10_sum [el S!"a" [(S!"href", ['#'] ++ referentId cfg S!"comment" id), (S!"id", referenceId cfg S!"comment" id)]
        [.text (['['] ++ commentAuthorLabel cm ++ natToStr (c + 1) ++ [']'])]]
      = c10_evSum cfg n c [.commentRef id] := by
  simp [el, c10_ofList_href_id, c10_sum_elem, c10_tagSum, c10_tagVals, c10_tagAnchor, c10_add, c10_evSum, c10_evIds, c10_evHrefs,
    c10_evId, c10_evHref, c10_evAnchors, c10_zero, hasContent, anyContent, hc, c10_commentTy]

theorem c10_sum_bookmark (cfg : Cfg) (name : Str) (n c : Nat) :
    c10_sum [cel S!"a" [(S!"id", htmlId cfg name)] [.forceWrite]] = c10_evSum cfg n c [.bookmark name] := by
  simp [cel, c10_ofList_id, c10_sum_elem, c10_tagSum, c10_tagVals, c10_tagAnchor, c10_add, c10_evSum, c10_evIds, c10_evHrefs,
    c10_evId, c10_evHref, c10_evAnchors, c10_zero, hasContent, anyContent]

theorem c10_sum_link (cfg : Cfg) (h : LinkProps) (ns : List Node) :
    c10_sum [cel S!"a" (c10_linkAttrs cfg h) ns] =
      c10_add (c10_evSum cfg 0 0 [.link h]) (c10_add (c10_sum ns) (c10_evSum cfg 0 0 [])) := by
  have e : Dict.ofList (c10_linkAttrs cfg h) = c10_linkAttrs cfg h := by
    unfold c10_linkAttrs; cases h.targetFrame <;> rfl
  unfold cel
  rw [c10_sum_elem]
  have e2 : c10_tagSum { name := S!"a", attrs := Dict.ofList (c10_linkAttrs cfg h), collapsible := true } ns =
      c10_evSum cfg 0 0 [.link h] := by
    rw [e]
    unfold c10_linkAttrs
    cases h.targetFrame <;>
      simp [c10_tagSum, c10_tagVals, c10_tagAnchor, c10_evSum, c10_evIds, c10_evHrefs, c10_evId, c10_evHref,
        c10_evAnchors]
  show c10_add (c10_tagSum _ ns) _ = _
  rw [e2]
  simp [c10_evSum, c10_evIds, c10_evHrefs, c10_evAnchors, c10_add]

theorem c10_cleanCell (a b : Nat) : c10_cleanAttrs (cellAttrs a b) = true := by
  unfold cellAttrs
  rw [c10_cleanAttrs_append]
  split <;> split <;> simp [c10_cleanAttrs]

mutual
theorem c10_H_visit (cfg : Cfg) (hc : c10_cleanCfg cfg = true) (hdr : Bool) (e : Elem) :
    c10_H cfg (visit cfg hdr e) (c10_evs cfg e) := by
  match e with
  | .paragraph p cs =>
    rw [visit, c10_evs]
    apply c10_H_findPathWarn
    have hp := c10_path_clean cfg hc (.paragraph p) (.elements [pathElem S!"p" true]) rfl
    cases hpath : c01_path cfg (.paragraph p) (.elements [pathElem S!"p" true]) with
    | ignore => exact c10_H_nil _ _ rfl
    | elements es =>
      rw [hpath] at hp
      simp only [HtmlPath.isIgnore, Bool.false_eq_true, if_false]
      apply c10_H_map _ _ _ _ (c10_H_visitAll cfg hc hdr cs)
      intro ns
      rw [c10_sum_wrapElems _ _ (by simpa [c10_cleanPath] using hp)]
      split <;> simp
  | .run r cs =>
    rw [visit, c10_evs]
    apply c10_H_findPathWarn
    have hp := c10_runPaths_clean cfg hc r
    simp only
    rw [← c01_runPaths]
    split
    · rename_i hi
      apply c10_H_nil
      rw [c10_sum_wrapAll _ hp]
      simp [hi]
    · rename_i hi
      apply c10_H_map _ _ _ _ (c10_H_visitAll cfg hc hdr cs)
      intro ns
      rw [c10_sum_wrapAll _ hp]
      simp [hi]
  | .text s => rw [visit]; simp only [c10_evs]; exact c10_H_nil _ _ (by simp)
  | .hyperlink h cs =>
    rw [visit, c10_evs]
    have := c10_H_wrap cfg (visitAll cfg hdr cs) (fun ns => [cel S!"a" (c10_linkAttrs cfg h) ns])
      [.link h] (c10_evsL cfg cs) [] (c10_H_visitAll cfg hc hdr cs) ⟨rfl, rfl, fun _ _ => rfl⟩
      ⟨rfl, rfl, fun _ _ => rfl⟩ (fun ns => c10_sum_link cfg h ns)
    simp only [List.append_nil, List.singleton_append] at this
    exact this
  | .checkbox c =>
    rw [visit]; simp only [c10_evs]
    apply c10_H_nil
    rw [c10_sum_el _ _ _ (by cases c <;> rfl)]; rfl
  | .table sid sname rows =>
    rw [visit, c10_evs]
    rw [← c01_path]
    have hp := c10_path_clean cfg hc (.table sid sname) (.elements [pathElem S!"table" true]) rfl
    cases hpath : c01_path cfg (.table sid sname) (.elements [pathElem S!"table" true]) with
    | ignore => exact c10_H_nil _ _ rfl
    | elements es =>
      rw [hpath] at hp
      simp only [HtmlPath.isIgnore, Bool.false_eq_true, if_false]
      intro st ns st' h
      rw [c10_run_bind] at h
      split at h
      · rename_i hb s hr
        obtain ⟨hd, bd⟩ := hb
        rw [c10_run_pure] at h; cases h
        have ih := c10_H_visitRows cfg hc true rows st hd bd st' hr
        obtain ⟨i1, i2, i3, i4⟩ := ih
        refine ⟨?_, i2, i3, i4⟩
        rw [← i1, c10_sum_wrapElems _ _ (by simpa [c10_cleanPath] using hp), c10_sum_fw_cons]
        split
        · rename_i hbi
          have : hd = [] := c01_visitRows_head_nil cfg rows (by simpa using hbi) st hd bd st' hr
          simp [this]
        · rw [c10_sum_cons, c10_sum_el _ _ _ rfl, c10_sum_el _ _ _ rfl, c10_sum_append]
      · cases h
  | .row h cells =>
    rw [visit, c10_evs]
    apply c10_H_map _ _ _ _ (c10_H_visitAll cfg hc hdr cells)
    intro ns
    rw [c10_sum_el _ _ _ rfl, c10_sum_fw_cons]
  | .cell a b c cs =>
    rw [visit, c10_evs]
    apply c10_H_map _ _ _ _ (c10_H_visitAll cfg hc hdr cs)
    intro ns
    rw [c10_sum_el _ _ _ (c10_cleanCell a b), c10_sum_fw_cons]
  | .brk ty =>
    rw [visit]; simp only [c10_evs]
    split
    · rename_i es hf
      have := c10_findPath_clean cfg hc _ _ hf
      apply c10_H_nil
      rw [c10_sum_wrapElems _ _ (by simpa [c10_cleanPath] using this)]; rfl
    · exact c10_H_nil _ _ rfl
    · split
      · apply c10_H_nil
        rw [c10_sum_cleanElem _ _ rfl]; rfl
      · exact c10_H_nil _ _ rfl
  | .tab => rw [visit]; simp only [c10_evs]; exact c10_H_nil _ _ (by simp)
  | .image i => rw [visit]; simp only [c10_evs]; exact c10_H_convertImage cfg hc i
  | .bookmark n =>
    rw [visit, c10_evs]
    exact c10_H_pure _ _ _ (fun n' c => c10_sum_bookmark cfg (pyOpt n) n' c) rfl rfl
  | .noteRef ty id =>
    rw [c10_evs]
    intro st ns st' h
    rw [c10_visit_noteRef] at h
    cases h
    exact ⟨c10_sum_noteRef cfg ty id _ _, rfl, by simp [c10_evComments, c10_evCRefs], by simp [c10_evCRefs]⟩
  | .commentRef id =>
    rw [c10_evs]
    cases hp : findPath cfg .commentReference with
    | none => rw [visit]; simp only [hp]; exact c10_H_nil _ _ rfl
    | some p =>
      cases p with
      | ignore => rw [visit]; simp only [hp]; exact c10_H_nil _ _ rfl
      | elements es =>
        have hcl := c10_findPath_clean cfg hc _ _ hp
        simp only
        intro st ns st' h
        rw [visit] at h
        simp only [hp] at h
        cases hl : lookupLast id (cfg.comments.map fun c => (c.id, c)) with
        | none => simp only [hl, c10_run_throw] at h; cases h
        | some cm =>
          simp only [hl, c10_run_bind, c10_run_get, c10_run_modify, c10_run_pure] at h
          cases h
          refine ⟨?_, by simp [c10_evRefs], ?_, ?_⟩
          · rw [c10_sum_wrapElems _ _ (by simpa [c10_cleanPath] using hcl)]
            exact c10_sum_commentRef cfg id cm _ _ hl
          · simp [c10_evComments, c10_evCRefs, c10_findComment, hl]
          · simp [c10_evCRefs, c10_findComment, hl]
theorem c10_H_visitAll (cfg : Cfg) (hc : c10_cleanCfg cfg = true) (hdr : Bool) (es : List Elem) :
    c10_H cfg (visitAll cfg hdr es) (c10_evsL cfg es) := by
  match es with
  | [] => rw [visitAll, c10_evsL]; exact c10_H_nil _ _ rfl
  | e :: es =>
    rw [visitAll, c10_evsL]
    exact c10_H_seq cfg _ _ _ _ (c10_H_visit cfg hc hdr e) (c10_H_visitAll cfg hc hdr es)
theorem c10_H_visitRows (cfg : Cfg) (hc : c10_cleanCfg cfg = true) (inHead : Bool) (rs : List Elem) :
    c10_H2 cfg (visitRows cfg inHead rs) (c10_evsL cfg rs) := by
  match rs with
  | [] =>
    rw [visitRows, c10_evsL]
    intro st h b st' hr
    rw [c10_run_pure] at hr; cases hr
    exact c10_H_nil cfg [] rfl st [] st rfl
  | r :: rs =>
    rw [visitRows, c10_evsL]
    intro st h b st' hr
    split at hr
    · rw [c10_run_bind] at hr
      split at hr
      · rename_i a s1 hr1
        rw [c10_run_bind] at hr
        split at hr
        · rename_i hb s2 hr2
          obtain ⟨h', b'⟩ := hb
          simp only [c10_run_pure, Except.ok.injEq, Prod.mk.injEq] at hr
          obtain ⟨⟨e1, e2⟩, e3⟩ := hr
          subst e1 e2 e3
          have := c10_Post_seq cfg st s1 s2 _ _ a (h' ++ b') (c10_H_visit cfg hc true r st a s1 hr1)
            (c10_H_visitRows cfg hc true rs s1 h' b' s2 hr2)
          simpa [List.append_assoc] using this
        · cases hr
      · cases hr
    · rw [c10_run_bind] at hr
      split at hr
      · rename_i a s1 hr1
        rw [c10_run_bind] at hr
        split at hr
        · rename_i hb s2 hr2
          obtain ⟨h', b'⟩ := hb
          simp only [c10_run_pure, Except.ok.injEq, Prod.mk.injEq] at hr
          obtain ⟨⟨e1, e2⟩, e3⟩ := hr
          subst e1 e2 e3
          have hnil : h' = [] := c01_visitRows_false_head cfg rs s1 h' b' s2 hr2
          subst hnil
          have := c10_Post_seq cfg st s1 s2 _ _ a ([] ++ b') (c10_H_visit cfg hc false r st a s1 hr1)
            (c10_H_visitRows cfg hc false rs s1 [] b' s2 hr2)
          simpa using this
        · cases hr
      · cases hr
end

end Mammoth
