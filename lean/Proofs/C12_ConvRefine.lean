/-
  C12 (conversion) — `c12_embedPkg` (on the trees the converter reads) refines `embedArchive` (on the
  ElementTree trees of `MammothModel/Embed.lean`) under the codec law.

  The two representations: an `EElem` has a tag in Clark notation (`{uri}local`) and no text; an `XmlNode`
  has the name `parse_xml` gives it (`prefix:local`).  `c12_ofE nm` translates the former into the latter,
  `nm` being the translation of names (tags and attribute keys).  The translation commutes with
  `_add_or_update_element` whenever the test of `_find_child` gives the same answer on every element before
  and after translation (`c12_agreeAll`); `c12_agree_of_unique` gives the natural sufficient condition:
  attribute keys are unique (they are: `Element.attrib` is a `dict`) and `nm` does not identify another tag
  with the element name, nor another key with the identifying attribute.
-/
import Proofs.C12_Convert
import Proofs.C12_Embed
namespace Mammoth

def c12_ofAttrs (nm : Str → Str) (as : List (Str × Str)) : Attrs := as.map fun kv => (nm kv.1, kv.2)

mutual
/-- an ElementTree element as the tree `parse_xml` builds (text dropped) -/
def c12_ofE (nm : Str → Str) : EElem → XmlNode
  | ⟨t, as, cs⟩ => .elem (nm t) (c12_ofAttrs nm as) (c12_ofEL nm cs)
def c12_ofEL (nm : Str → Str) : List EElem → List XmlNode
  | [] => []
  | c :: cs => c12_ofE nm c :: c12_ofEL nm cs
end

theorem c12_ofEL_append (nm : Str → Str) (xs ys : List EElem) :
    c12_ofEL nm (xs ++ ys) = c12_ofEL nm xs ++ c12_ofEL nm ys := by
  induction xs with
  | nil => simp [c12_ofEL]
  | cons x xs ih => simp [c12_ofEL, ih]

/-- the test of `_find_child` gives the same answer on the element and on its translation -/
def c12_agree (nm : Str → Str) (name idAttr : Str) (attrs : List (Str × Str)) (e : EElem) : Bool :=
  xMatches (nm name) (nm idAttr) (c12_ofAttrs nm attrs) (nm e.tag) (c12_ofAttrs nm e.attrs)
    == eMatches name idAttr attrs e

mutual
def c12_agreeAll (nm : Str → Str) (name idAttr : Str) (attrs : List (Str × Str)) : EElem → Bool
  | ⟨t, as, cs⟩ => c12_agree nm name idAttr attrs ⟨t, as, cs⟩ && c12_agreeAllL nm name idAttr attrs cs
def c12_agreeAllL (nm : Str → Str) (name idAttr : Str) (attrs : List (Str × Str)) : List EElem → Bool
  | [] => true
  | c :: cs => c12_agreeAll nm name idAttr attrs c && c12_agreeAllL nm name idAttr attrs cs
end

section
variable (nm : Str → Str) (name idAttr : Str) (attrs : List (Str × Str))

mutual
theorem c12_setFirst_ofE (e : EElem) (h : c12_agreeAll nm name idAttr attrs e = true) :
    xSetFirst (xMatches (nm name) (nm idAttr) (c12_ofAttrs nm attrs)) (c12_ofAttrs nm attrs) (c12_ofE nm e)
      = (eSetFirst (eMatches name idAttr attrs) attrs e).map (c12_ofE nm) := by
  match e with
  | ⟨t, as, cs⟩ =>
    simp only [c12_agreeAll, Bool.and_eq_true] at h
    have hag : xMatches (nm name) (nm idAttr) (c12_ofAttrs nm attrs) (nm t) (c12_ofAttrs nm as)
        = eMatches name idAttr attrs ⟨t, as, cs⟩ := eq_of_beq h.1
    simp only [c12_ofE, xSetFirst, eSetFirst, hag]
    by_cases hm : eMatches name idAttr attrs ⟨t, as, cs⟩ = true
    · simp only [hm, if_true, Option.map_some, c12_ofE]
    · simp only [hm, Bool.false_eq_true, if_false]
      rw [c12_setFirstL_ofE cs h.2]
      cases eSetFirstL (eMatches name idAttr attrs) attrs cs with
      | none => rfl
      | some cs' => simp only [Option.map_some, c12_ofE]
theorem c12_setFirstL_ofE (es : List EElem) (h : c12_agreeAllL nm name idAttr attrs es = true) :
    xSetFirstL (xMatches (nm name) (nm idAttr) (c12_ofAttrs nm attrs)) (c12_ofAttrs nm attrs) (c12_ofEL nm es)
      = (eSetFirstL (eMatches name idAttr attrs) attrs es).map (c12_ofEL nm) := by
  match es with
  | [] => rfl
  | c :: cs =>
    simp only [c12_agreeAllL, Bool.and_eq_true] at h
    simp only [c12_ofEL, xSetFirstL, eSetFirstL]
    rw [c12_setFirst_ofE c h.1]
    cases eSetFirst (eMatches name idAttr attrs) attrs c with
    | some c' => simp only [Option.map_some, c12_ofEL]
    | none =>
      simp only [Option.map_none]
      rw [c12_setFirstL_ofE cs h.2]
      cases eSetFirstL (eMatches name idAttr attrs) attrs cs with
      | none => rfl
      | some cs' => simp only [Option.map_some, c12_ofEL]
end

/-- `_add_or_update_element` commutes with the translation -/
theorem c12_addOrUpdate_ofE (r : EElem) (h : c12_agreeAll nm name idAttr attrs r = true) :
    xAddOrUpdate (c12_ofE nm r) (nm name) (nm idAttr) (c12_ofAttrs nm attrs)
      = some (c12_ofE nm (addOrUpdate r name idAttr attrs)) := by
  have hs := c12_setFirst_ofE nm name idAttr attrs r h
  obtain ⟨t, as, cs⟩ := r
  unfold addOrUpdate
  simp only [c12_ofE] at hs ⊢
  unfold xAddOrUpdate
  simp only [hs]
  cases eSetFirst (eMatches name idAttr attrs) attrs ⟨t, as, cs⟩ with
  | some r' => simp only [Option.map_some]
  | none =>
    simp only [Option.map_none, c12_ofE, c12_ofEL_append, c12_ofEL]

end

/-! ### a natural sufficient condition for `c12_agree` -/

/-- first-match and last-match lookup agree when the key occurs at most once after translation -/
theorem c12_attr_ofAttrs (nm : Str → Str) (k : Str) (as : List (Str × Str))
    (hk : ∀ k', k' ∈ as.map (·.1) → nm k' = nm k → k' = k) (hu : strsNodup (as.map (·.1)) = true) :
    attr? (nm k) (c12_ofAttrs nm as) = eAttr? k as := by
  unfold attr?
  induction as with
  | nil => rfl
  | cons kv rest ih =>
    obtain ⟨k', v⟩ := kv
    simp only [List.map_cons, strsNodup, Bool.and_eq_true, Bool.not_eq_true'] at hu
    have ih' := ih (fun k'' hm he => hk k'' (List.mem_cons_of_mem _ hm) he) hu.2
    simp only [c12_ofAttrs, List.map_cons, lookupLast, eAttr?] at ih' ⊢
    rw [ih']
    by_cases hkk : k = k'
    · subst hkk
      -- the key does not occur in the rest
      have hnot : eAttr? k rest = none := by
        have hc : (rest.map (·.1)).contains k = false := hu.1
        clear ih ih' hk hu
        induction rest with
        | nil => rfl
        | cons x xs ihx =>
          obtain ⟨a, b⟩ := x
          simp only [List.map_cons, List.contains_cons, Bool.or_eq_false_iff, beq_eq_false_iff_ne] at hc
          simp only [eAttr?, hc.1, if_false]
          exact ihx hc.2
      simp [hnot]
    · have hne : nm k ≠ nm k' := fun e => hkk (hk k' (by simp) e.symm).symm
      simp only [hkk, hne, if_false]
      cases eAttr? k rest <;> rfl

/-- the tests agree on an element whose attribute keys are unique, when `nm` identifies no other tag with
    `name` and no other key (of the element or of `attrs`) with `idAttr` -/
theorem c12_agree_of_unique (nm : Str → Str) (name idAttr : Str) (attrs : List (Str × Str)) (e : EElem)
    (htag : nm e.tag = nm name → e.tag = name)
    (hk1 : ∀ k', k' ∈ e.attrs.map (·.1) → nm k' = nm idAttr → k' = idAttr)
    (hk2 : ∀ k', k' ∈ attrs.map (·.1) → nm k' = nm idAttr → k' = idAttr)
    (hu1 : strsNodup (e.attrs.map (·.1)) = true) (hu2 : strsNodup (attrs.map (·.1)) = true) :
    c12_agree nm name idAttr attrs e = true := by
  unfold c12_agree xMatches eMatches
  rw [c12_attr_ofAttrs nm idAttr e.attrs hk1 hu1, c12_attr_ofAttrs nm idAttr attrs hk2 hu2]
  have : (nm e.tag == nm name) = (e.tag == name) := by
    by_cases h : e.tag = name
    · rw [h, beq_self_eq_true, beq_self_eq_true]
    · have h' : nm e.tag ≠ nm name := fun e' => h (htag e')
      rw [beq_eq_false_iff_ne.mpr h, beq_eq_false_iff_ne.mpr h']
  rw [this]
  exact beq_self_eq_true _

/-! ### the package-level embed is the image of the archive-level embed -/

/-- If the archive `a` and the package `p` hold the same relationships part and the same content-types part
    (the package the translation `c12_ofE nm` of what the codec parses), `nm` keeps the names the embed writes,
    and the `_find_child` tests agree on both trees, then whenever `embedArchive` succeeds so does
    `c12_embedPkg`, and the new package again holds the translations of what the codec parses from the new
    archive; the style-map entry is the same bytes; every other entry is untouched on both sides. -/
theorem c12_embedPkg_refines (x : XmlCodec) (hx : x.Lawful) (nm : Str → Str) (a a' : Archive) (p : Package)
    (s : Str) (rb cb : Bytes) (re te : EElem)
    (h : embedArchive x a s = some a')
    (hrb : a.get? relsPartPath = some rb) (hre : x.parse rb = some re)
    (hcb : a.get? contentTypesPartPath = some cb) (hte : x.parse cb = some te)
    (hpr : lookupLast relsPartPath p.parts = some (.xml (c12_ofE nm re)))
    (hpt : lookupLast contentTypesPartPath p.parts = some (.xml (c12_ofE nm te)))
    (hn1 : nm relationshipElemName = c12_relName) (hn2 : nm overrideElemName = c12_overrideName)
    (hn3 : nm S!"Id" = S!"Id") (hn4 : nm S!"PartName" = S!"PartName")
    (hn5 : c12_ofAttrs nm styleMapRelAttrs = styleMapRelAttrs)
    (hn6 : c12_ofAttrs nm styleMapOverrideAttrs = styleMapOverrideAttrs)
    (hag1 : c12_agreeAll nm relationshipElemName S!"Id" styleMapRelAttrs re = true)
    (hag2 : c12_agreeAll nm overrideElemName S!"PartName" styleMapOverrideAttrs te = true) :
    ∃ p', c12_embedPkg p s = some p' ∧
      lookupLast styleMapPath p'.parts = some (.bytes (utf8Encode s)) ∧
      a'.get? styleMapPath = some (utf8Encode s) ∧
      (∃ bs e, a'.get? relsPartPath = some bs ∧ x.parse bs = some e ∧
        lookupLast relsPartPath p'.parts = some (.xml (c12_ofE nm e))) ∧
      (∃ bs e, a'.get? contentTypesPartPath = some bs ∧ x.parse bs = some e ∧
        lookupLast contentTypesPartPath p'.parts = some (.xml (c12_ofE nm e))) ∧
      (∀ n, n ≠ styleMapPath → n ≠ relsPartPath → n ≠ contentTypesPartPath →
        a'.get? n = a.get? n ∧ lookupLast n p'.parts = lookupLast n p.parts) := by
  have e1 := c12_addOrUpdate_ofE nm relationshipElemName S!"Id" styleMapRelAttrs re hag1
  have e2 := c12_addOrUpdate_ofE nm overrideElemName S!"PartName" styleMapOverrideAttrs te hag2
  rw [hn1, hn3, hn5] at e1
  rw [hn2, hn4, hn6] at e2
  have hp : c12_embedPkg p s = some (c12_embedded p s (c12_ofE nm (relsUpdate re))
      (c12_ofE nm (contentTypesUpdate te))) := by
    unfold c12_embedPkg
    simp only [hpr, hpt, e1, e2]
    rfl
  obtain ⟨q1, q2⟩ := c12_embed_parts_first x a a' s rb cb re te hrb hre hcb hte h
  refine ⟨_, hp, c12_embedded_sm _ _ _ _, c12_embed_get_sm x a a' s h,
    ⟨_, _, q1, hx _, c12_embedded_rels _ _ _ _⟩, ⟨_, _, q2, hx _, c12_embedded_ct _ _ _ _⟩, ?_⟩
  intro n h1 h2 h3
  exact ⟨c12_embed_get_other x a a' s h n (by simp [c12_three, h1, h2, h3]),
    c12_embedded_other _ _ _ _ n h1 h2 h3⟩

end Mammoth
