/-
  C20 — every image handed to an image converter that opens images and that cannot be opened has its
  warning among the messages: an invariant of the converter's state (`c20_warned`), preserved by every
  step of `visit` / `visitDocument`, hence true of the result of `convertDoc` and of `apiConvert`.
-/
import Proofs.C16_Image
import Proofs.C16_Mono
import Proofs.C17_Package
import Proofs.C18_Io
namespace Mammoth

/-- every converter call logged so far whose image cannot be opened (`c16_openError`: the warning text
    `Image.open` ends in) has that warning among the messages so far; and the part of every embedded image
    handed to the converter exists (otherwise the conversion has died with a KeyError) -/
def c20_warned (cfg : Cfg) (st : ConvState) : Prop :=
  ∀ i ∈ st.imageCalls, (∀ m, c16_openError cfg i.src = some m → m ∈ st.messages) ∧
    (∀ name, i.src = .embedded name → (lookupLast name cfg.archive).isSome = true)

/-- every successful run of `m` preserves `c20_warned` -/
def c20_keepsW {α : Type} (cfg : Cfg) (m : ConvM α) : Prop :=
  ∀ st a st', m.run st = .ok (a, st') → c20_warned cfg st → c20_warned cfg st'

theorem c20_keepsW_pure {α : Type} (cfg : Cfg) (a : α) : c20_keepsW cfg (pure a : ConvM α) := by
  intro st a' st' h hw
  rw [StateT.run_pure] at h
  cases h
  exact hw

theorem c20_keepsW_throw {α : Type} (cfg : Cfg) (e : Err) : c20_keepsW cfg (throw e : ConvM α) := by
  intro st a st' h
  cases h

theorem c20_keepsW_bind {α β : Type} {cfg : Cfg} {m : ConvM α} {f : α → ConvM β}
    (hm : c20_keepsW cfg m) (hf : ∀ a, c20_keepsW cfg (f a)) : c20_keepsW cfg (m >>= f) := by
  intro st b st'' h hw
  obtain ⟨a, st', h1, h2⟩ := c18_run_bind_ok m f st b st'' h
  exact hf a _ _ _ h2 (hm _ _ _ h1 hw)

theorem c20_keepsW_get (cfg : Cfg) : c20_keepsW cfg (get : ConvM ConvState) := by
  intro st a st' h hw
  rw [StateT.run_get] at h
  cases h
  exact hw

theorem c20_keepsW_modify (cfg : Cfg) (f : ConvState → ConvState)
    (h1 : ∀ s, (f s).imageCalls = s.imageCalls) (h2 : ∀ s, s.messages ⊆ (f s).messages) :
    c20_keepsW cfg (modify f : ConvM PUnit) := by
  intro st a st' h hw
  rw [StateT.run_modify] at h
  cases h
  intro i hi
  rw [h1] at hi
  exact ⟨fun m hm => h2 st ((hw i hi).1 m hm), (hw i hi).2⟩

theorem c20_keepsW_warn (cfg : Cfg) (m : Str) : c20_keepsW cfg (warn m) :=
  c20_keepsW_modify cfg _ (fun _ => rfl) (fun _ => List.subset_append_left _ _)

theorem c20_keepsW_findPathWarn (cfg : Cfg) (t : Target) (kind : Str) (sid sname : Option Str)
    (dflt : HtmlPath) : c20_keepsW cfg (findPathWarn cfg t kind sid sname dflt) := by
  unfold findPathWarn
  split
  · exact c20_keepsW_pure _ _
  · dsimp only
    split
    · exact c20_keepsW_bind (c20_keepsW_warn _ _) (fun _ => c20_keepsW_pure _ _)
    · exact c20_keepsW_pure _ _

/-- a successful call of a converter that opens images: the part of an embedded image exists -/
theorem c20_convertImage_present (cfg : Cfg) (ho : c16_opens cfg = true) (i : ImageProps) (name : Str)
    (hs : i.src = .embedded name) (st st' : ConvState) (ns : List Node)
    (h : (convertImage cfg i).run st = .ok (ns, st')) : (lookupLast name cfg.archive).isSome = true := by
  cases hl : lookupLast name cfg.archive with
  | some b => rfl
  | none =>
    exfalso
    rw [c17_convertImage_run] at h
    unfold c17_finish at h
    unfold c16_opens at ho
    cases hc : cfg.imageConv with
    | dataUri =>
      rw [hc] at h
      simp only [hs, openImage, hl, c17_run_bind, c17_run_throw] at h
      cases h
    | fixed attrs opens =>
      rw [hc] at ho h
      simp only at ho
      subst ho
      simp only [if_true, hs, openImage, hl, c17_run_bind, c17_run_throw] at h
      cases h

/-- THE STEP THAT MATTERS: the call is logged, and when the image cannot be opened the warning is issued -/
theorem c20_keepsW_convertImage (cfg : Cfg) (ho : c16_opens cfg = true) (i : ImageProps) :
    c20_keepsW cfg (convertImage cfg i) := by
  intro st ns st' h hw
  have hcalls : st'.imageCalls = st.imageCalls ++ [i] := by
    rw [c17_convertImage_run] at h
    exact c17_finish_calls cfg i _ st' ns h
  have hmono : st.messages ⊆ st'.messages := (c16_mono_convertImage cfg i st ns st' h).subset
  intro j hj
  rw [hcalls] at hj
  rcases List.mem_append.mp hj with hj | hj
  · exact ⟨fun m hm => hmono ((hw j hj).1 m hm), (hw j hj).2⟩
  · simp only [List.mem_singleton] at hj
    subst hj
    refine ⟨fun m hm => ?_, fun name hs => c20_convertImage_present cfg ho j name hs st st' ns h⟩
    obtain ⟨st'', hrun, hmsg⟩ := c16_convertImage_fails cfg j m st ho hm
    rw [hrun] at h
    cases h
    rw [hmsg]
    simp

mutual
theorem c20_keepsW_visit (cfg : Cfg) (ho : c16_opens cfg = true) (hdr : Bool) (e : Elem) :
    c20_keepsW cfg (visit cfg hdr e) := by
  match e with
  | .paragraph p cs =>
    simp only [visit]
    refine c20_keepsW_bind (c20_keepsW_findPathWarn _ _ _ _ _ _) ?_
    intro path
    split
    · exact c20_keepsW_pure _ _
    · exact c20_keepsW_bind (c20_keepsW_visitAll cfg ho hdr cs) (fun _ => c20_keepsW_pure _ _)
  | .run r cs =>
    simp only [visit]
    refine c20_keepsW_bind (c20_keepsW_findPathWarn _ _ _ _ _ _) ?_
    intro sp
    split
    · exact c20_keepsW_pure _ _
    · exact c20_keepsW_bind (c20_keepsW_visitAll cfg ho hdr cs) (fun _ => c20_keepsW_pure _ _)
  | .text s => simp only [visit]; exact c20_keepsW_pure _ _
  | .hyperlink h cs =>
    simp only [visit]
    exact c20_keepsW_bind (c20_keepsW_visitAll cfg ho hdr cs) (fun _ => c20_keepsW_pure _ _)
  | .checkbox c => simp only [visit]; exact c20_keepsW_pure _ _
  | .table sid sname rows =>
    simp only [visit]
    split
    · exact c20_keepsW_pure _ _
    · refine c20_keepsW_bind (c20_keepsW_visitRows cfg ho true rows) ?_
      intro x
      exact c20_keepsW_pure _ _
  | .row _ cells =>
    simp only [visit]
    exact c20_keepsW_bind (c20_keepsW_visitAll cfg ho hdr cells) (fun _ => c20_keepsW_pure _ _)
  | .cell _ _ _ cs =>
    simp only [visit]
    exact c20_keepsW_bind (c20_keepsW_visitAll cfg ho hdr cs) (fun _ => c20_keepsW_pure _ _)
  | .brk ty =>
    simp only [visit]
    split
    · exact c20_keepsW_pure _ _
    · exact c20_keepsW_pure _ _
    · split <;> exact c20_keepsW_pure _ _
  | .tab => simp only [visit]; exact c20_keepsW_pure _ _
  | .image i => simp only [visit]; exact c20_keepsW_convertImage cfg ho i
  | .bookmark _ => simp only [visit]; exact c20_keepsW_pure _ _
  | .noteRef ty id =>
    simp only [visit]
    refine c20_keepsW_bind (c20_keepsW_modify _ _ (fun _ => rfl) (fun _ => List.Subset.refl _)) ?_
    intro _
    exact c20_keepsW_bind (c20_keepsW_get _) (fun _ => c20_keepsW_pure _ _)
  | .commentRef id =>
    simp only [visit]
    split
    · exact c20_keepsW_pure _ _
    · exact c20_keepsW_pure _ _
    · split
      · exact c20_keepsW_throw _ _
      · refine c20_keepsW_bind (c20_keepsW_get _) ?_
        intro s
        refine c20_keepsW_bind (c20_keepsW_modify _ _ (fun _ => rfl) (fun _ => List.Subset.refl _)) ?_
        intro _
        exact c20_keepsW_pure _ _
theorem c20_keepsW_visitAll (cfg : Cfg) (ho : c16_opens cfg = true) (hdr : Bool) (es : List Elem) :
    c20_keepsW cfg (visitAll cfg hdr es) := by
  match es with
  | [] => simp only [visitAll]; exact c20_keepsW_pure _ _
  | e :: es =>
    simp only [visitAll]
    refine c20_keepsW_bind (c20_keepsW_visit cfg ho hdr e) ?_
    intro a
    refine c20_keepsW_bind (c20_keepsW_visitAll cfg ho hdr es) ?_
    intro b
    exact c20_keepsW_pure _ _
theorem c20_keepsW_visitRows (cfg : Cfg) (ho : c16_opens cfg = true) (inHead : Bool) (es : List Elem) :
    c20_keepsW cfg (visitRows cfg inHead es) := by
  match es with
  | [] => simp only [visitRows]; exact c20_keepsW_pure _ _
  | r :: rs =>
    simp only [visitRows]
    split
    · refine c20_keepsW_bind (c20_keepsW_visit cfg ho true r) ?_
      intro a
      refine c20_keepsW_bind (c20_keepsW_visitRows cfg ho true rs) ?_
      intro b
      exact c20_keepsW_pure _ _
    · refine c20_keepsW_bind (c20_keepsW_visit cfg ho false r) ?_
      intro a
      refine c20_keepsW_bind (c20_keepsW_visitRows cfg ho false rs) ?_
      intro b
      exact c20_keepsW_pure _ _
end

theorem c20_keepsW_visitNote (cfg : Cfg) (ho : c16_opens cfg = true) (n : Note) :
    c20_keepsW cfg (visitNote cfg n) := by
  unfold visitNote
  exact c20_keepsW_bind (c20_keepsW_visitAll cfg ho false n.body) (fun _ => c20_keepsW_pure _ _)

theorem c20_keepsW_visitComment (cfg : Cfg) (ho : c16_opens cfg = true) (lc : Str × Comment) :
    c20_keepsW cfg (visitComment cfg lc) := by
  unfold visitComment
  exact c20_keepsW_bind (c20_keepsW_visitAll cfg ho false lc.2.body) (fun _ => c20_keepsW_pure _ _)

theorem c20_keepsW_mapMConcat {α : Type} (cfg : Cfg) (f : α → ConvM (List Node))
    (hf : ∀ x, c20_keepsW cfg (f x)) : ∀ xs : List α, c20_keepsW cfg (mapMConcat f xs)
  | [] => by rw [mapMConcat]; exact c20_keepsW_pure _ _
  | x :: xs => by
    rw [mapMConcat]
    refine c20_keepsW_bind (hf x) ?_
    intro a
    refine c20_keepsW_bind (c20_keepsW_mapMConcat cfg f hf xs) ?_
    intro b
    exact c20_keepsW_pure _ _

theorem c20_keepsW_visitDocument (cfg : Cfg) (ho : c16_opens cfg = true) (d : Document) :
    c20_keepsW cfg (visitDocument cfg d) := by
  unfold visitDocument
  refine c20_keepsW_bind (c20_keepsW_visitAll cfg ho false d.children) ?_
  intro nodes
  refine c20_keepsW_bind (c20_keepsW_get _) ?_
  intro s
  dsimp only
  split
  · refine c20_keepsW_bind (c20_keepsW_pure _ _) ?_
    intro notes
    refine c20_keepsW_bind (c20_keepsW_mapMConcat cfg _ (c20_keepsW_visitNote cfg ho) _) ?_
    intro noteNodes
    refine c20_keepsW_bind (c20_keepsW_get _) ?_
    intro s2
    refine c20_keepsW_bind (c20_keepsW_mapMConcat cfg _ (c20_keepsW_visitComment cfg ho) _) ?_
    intro commentNodes
    exact c20_keepsW_pure _ _
  · intro st b st' h
    obtain ⟨_, _, hn, _⟩ := c18_run_bind_ok _ _ _ _ _ h
    cases hn

theorem c20_mem_unique {α} [DecidableEq α] (x : α) (xs : List α) (h : x ∈ xs) : x ∈ unique xs := by
  have key : ∀ (seen : List α) (ys : List α), x ∈ ys → x ∉ seen → x ∈ uniqueAux seen ys := by
    intro seen ys
    induction ys generalizing seen with
    | nil => intro h; cases h
    | cons y ys ih =>
      intro hy hs
      unfold uniqueAux
      by_cases hyx : y = x
      · subst hyx
        simp [hs]
      · have hx : x ∈ ys := by
          rcases List.mem_cons.mp hy with e | e
          · exact absurd e.symm hyx
          · exact e
        split
        · exact ih seen hx hs
        · refine List.mem_cons_of_mem _ (ih (y :: seen) hx ?_)
          intro hm
          rcases List.mem_cons.mp hm with e | e
          · exact hyx e.symm
          · exact hs e
  exact key [] xs h (by simp)

/-- the result of `convertDoc` under a converter that opens images: every image handed to the converter that
    cannot be opened has its warning among the messages -/
theorem c20_convertDoc_warned (cfg : Cfg) (ho : c16_opens cfg = true) (d : Document) (r : ConvResult)
    (h : convertDoc cfg d = .ok r) :
    ∀ i ∈ r.imageCalls, (∀ m, c16_openError cfg i.src = some m → m ∈ r.messages) ∧
      (∀ name, i.src = .embedded name → (lookupLast name cfg.archive).isSome = true) := by
  unfold convertDoc at h
  split at h
  · rename_i nodes st hv
    cases h
    have hw := c20_keepsW_visitDocument { cfg with comments := d.comments } ho d {} nodes st hv
      (by intro i hi; cases hi)
    intro i hi
    exact ⟨fun m hm => c20_mem_unique _ _ ((hw i hi).1 m hm), (hw i hi).2⟩
  · cases h

/-- … and of `apiConvert` -/
theorem c20_api_warned (p : Package) (fuel : Nat) (base : Option Str) (world : Str → Option Bytes)
    (o : Options) (out : ApiOut) (h : apiConvert p fuel base world id o = .ok out)
    (ho : c16_opens (c05_apiCfg p base world o (c17_embOf p o)) = true) :
    ∀ i ∈ out.imageCalls,
      (∀ m, c16_openError (c05_apiCfg p base world o (c17_embOf p o)) i.src = some m → m ∈ out.messages) ∧
      (∀ name, i.src = .embedded name → (lookupLast name (archiveBytes p)).isSome = true) := by
  obtain ⟨emb, doc, readMsgs, hread, hconv, hmsgs⟩ :
      ∃ emb doc readMsgs, readPackage p fuel = .ok (doc, readMsgs) ∧
        (∃ r, convertDoc (c05_apiCfg p base world o emb) doc = .ok r ∧ out.imageCalls = r.imageCalls ∧
          out.messages = unique ((readOptions o.styleMap emb o.includeDefault).2 ++ readMsgs ++ r.messages)) ∧
        emb = c17_embOf p o := by
    unfold apiConvert at h
    dsimp only at h
    have key : ∀ emb, (do
        let __x ← readPackage p fuel
        let r ← convertDoc (c05_apiCfg p base world o emb) (id __x.fst)
        (pure
            { value := writeWith o.format (collapse (stripEmpty r.nodes)),
              messages := unique ((readOptions o.styleMap emb o.includeDefault).snd ++ __x.snd ++ r.messages),
              nodes := r.nodes, document := id __x.fst, ioTrace := r.ioTrace, imageCalls := r.imageCalls }
            : Except Err ApiOut)) = .ok out →
        ∃ doc readMsgs, readPackage p fuel = .ok (doc, readMsgs) ∧
          (∃ r, convertDoc (c05_apiCfg p base world o emb) doc = .ok r ∧ out.imageCalls = r.imageCalls ∧
            out.messages = unique ((readOptions o.styleMap emb o.includeDefault).2 ++ readMsgs ++ r.messages)) := by
      intro emb h
      cases h1 : readPackage p fuel with
      | error e => rw [h1] at h; cases h
      | ok dm =>
        obtain ⟨doc, msgs⟩ := dm
        rw [h1] at h
        simp only [bind, Except.bind, id] at h
        cases h2 : convertDoc (c05_apiCfg p base world o emb) doc with
        | error e => rw [h2] at h; cases h
        | ok r =>
          rw [h2] at h
          simp only [pure, Except.pure, Except.ok.injEq] at h
          subst h
          exact ⟨doc, msgs, rfl, r, h2, rfl, rfl⟩
    unfold c17_embOf
    split at h
    · rename_i hinc
      rw [if_pos hinc]
      cases he : readEmbeddedStyleMap p with
      | error e => rw [he] at h; cases h
      | ok emb =>
        rw [he] at h
        obtain ⟨doc, msgs, a, b⟩ := key emb h
        exact ⟨emb, doc, msgs, a, b, rfl⟩
    · rename_i hinc
      rw [if_neg hinc]
      obtain ⟨doc, msgs, a, b⟩ := key none h
      exact ⟨none, doc, msgs, a, b, rfl⟩
  subst hmsgs
  obtain ⟨r, hc, hcalls, hm⟩ := hconv
  intro i hi
  rw [hcalls] at hi
  rw [hm]
  obtain ⟨w1, w2⟩ := c20_convertDoc_warned _ ho doc r hc i hi
  exact ⟨fun m hmi => c20_mem_unique _ _ (List.mem_append_right _ (w1 m hmi)), w2⟩

/-- an image that `image.open()` cannot open, whose part exists if it is embedded, is a linked image with a
    warning text -/
theorem c20_unopened_has_warning (cfg : Cfg) (src : ImageSrc)
    (hp : ∀ name, src = .embedded name → (lookupLast name cfg.archive).isSome = true)
    (h : c17_opened cfg src = none) : ∃ m, c16_openError cfg src = some m := by
  cases src with
  | embedded name =>
    have := hp name rfl
    simp only [c17_opened] at h
    rw [h] at this; cases this
  | linked uri =>
    simp only [c17_opened, c16_openError] at h ⊢
    by_cases ha : isAbsoluteUri uri = true
    · simp only [ha, if_true] at h ⊢
      rw [h]; exact ⟨_, rfl⟩
    · simp only [ha, Bool.false_eq_true, if_false] at h ⊢
      cases hb : cfg.base with
      | none => exact ⟨_, rfl⟩
      | some b =>
        rw [hb] at h
        simp only at h ⊢
        rw [h]; exact ⟨_, rfl⟩

/-- conversely an image with a warning text cannot be opened -/
theorem c20_warning_unopened (cfg : Cfg) (src : ImageSrc) (m : Str) (h : c16_openError cfg src = some m) :
    c17_opened cfg src = none := by
  cases src with
  | embedded name => simp [c16_openError] at h
  | linked uri =>
    simp only [c17_opened, c16_openError] at h ⊢
    by_cases ha : isAbsoluteUri uri = true
    · simp only [ha, if_true] at h ⊢
      cases hw : cfg.world uri with
      | none => rfl
      | some b => rw [hw] at h; cases h
    · simp only [ha, Bool.false_eq_true, if_false] at h ⊢
      cases hb : cfg.base with
      | none => rfl
      | some b =>
        rw [hb] at h
        simp only at h ⊢
        cases hw : cfg.world (osPathJoin b uri) with
        | none => rfl
        | some bs => rw [hw] at h; cases h

end Mammoth
