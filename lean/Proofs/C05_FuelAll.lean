/-
  C05 — fuel is enough for ALL trees, deleted paragraph marks included.  A deleted paragraph mark defers
  the paragraph's children (`st.deleted`); the next undeleted paragraph reads them before its own children,
  one level of fuel below itself.  So the fuel needed is bounded by the size of the node PLUS the size of
  what is deferred on entry, and what is deferred on exit is no larger than that sum:

      xmlSize n + xmlSizeL st.deleted ≤ fuel  ⟹  no `.fuel`, and xmlSizeL st'.deleted ≤ xmlSize n + xmlSizeL st.deleted
-/
import Proofs.C05_FuelEnough
namespace Mammoth

/-- postcondition: the deferred content is no larger than `B` -/
abbrev c05_Qsz (B : Nat) : ReadResult × RState → Prop := fun p => xmlSizeL p.2.deleted ≤ B

theorem c05_xmlSizeL_append (xs ys : List XmlNode) : xmlSizeL (xs ++ ys) = xmlSizeL xs + xmlSizeL ys := by
  induction xs with
  | nil => simp [xmlSizeL]
  | cons x xs ih => simp only [List.cons_append, xmlSizeL, ih]; omega

theorem c05_readBody_nofuelA (env : REnv) (ra : c05_RdAll) (F : Nat)
    (ih : ∀ st ns, xmlSizeL ns + xmlSizeL st.deleted ≤ F →
      c05_spec c05_notFuel (c05_Qsz (xmlSizeL ns + xmlSizeL st.deleted)) (ra st ns))
    (st : RState) (name : Str) (as : Attrs) (cs : List XmlNode)
    (hsz : xmlSizeL cs + xmlSizeL st.deleted ≤ F) (B : Nat) (hB : xmlSizeL cs + xmlSizeL st.deleted ≤ B) :
    c05_spec c05_notFuel (c05_Qsz B) (c05_readBody env ra st name as cs) := by
  have hdel : xmlSizeL st.deleted ≤ B := by omega
  have h1 : c05_spec c05_notFuel (c05_Qsz B) (ra st cs) :=
    c05_spec_weaken (ih st cs hsz) (fun a ha => Nat.le_trans ha hB)
  have h2 : ∀ nm, c05_spec c05_notFuel (c05_Qsz B) (ra st (findChildOrNull nm cs).2) := fun nm =>
    c05_spec_weaken (ih st _ (by have := c05_xmlSizeL_findChild nm cs; omega))
      (fun a ha => by have := c05_xmlSizeL_findChild nm cs; exact Nat.le_trans ha (by omega))
  have h3 : c05_spec c05_notFuel (c05_Qsz B) (ra { st with deleted := [] } (st.deleted ++ cs)) :=
    c05_spec_weaken (ih { st with deleted := [] } (st.deleted ++ cs)
        (by rw [c05_xmlSizeL_append]; simp only [xmlSizeL]; omega))
      (fun a ha => by
        rw [c05_xmlSizeL_append] at ha; simp only [xmlSizeL] at ha
        exact Nat.le_trans ha (by omega))
  have hdefer : xmlSizeL (st.deleted ++ cs) ≤ B := by rw [c05_xmlSizeL_append]; omega
  unfold c05_readBody
  cases hg : handlerOf name with
  | none =>
    dsimp only
    split <;> exact c05_spec_ok _ hdel
  | some g =>
    dsimp only
    repeat' (first
      | with_reducible refine c05_spec_ite _ _ _ (fun _ => ?_) (fun _ => ?_)
      | exact c05_spec_ok _ hdel
      | exact c05_spec_ok _ hdefer
      | exact c05_spec_pure _ (by assumption)
      | exact c05_spec_err _ (by intro h; cases h)
      | exact h1
      | exact h2 _
      | exact c05_spec_weaken (c05_readFldChar_nf st as cs) (fun a ha => by show xmlSizeL a.2.deleted ≤ B; rw [ha]; exact hdel)
      | refine c05_spec_bind (Q := c05_Qsz B) _ _ h1 (fun _ _ => ?_)
      | refine c05_spec_bind (Q := c05_Qsz B) _ _ h3 (fun _ _ => ?_)
      | refine c05_spec_bind (Q := fun _ => True) _ _ (c05_readNumberingProps_nf env _ _) (fun _ _ => ?_)
      | refine c05_spec_bind (Q := fun _ => True) _ _ (c05_targetById_nf _ _) (fun _ _ => ?_)
      | refine c05_spec_bind (Q := fun _ => True) _ _ (c05_spec_err _ (by intro h; cases h)) (fun _ _ => ?_)
      | exact c05_spec_map _ _ (c05_readSymbol_nf as) (fun _ _ => hdel)
      | exact c05_spec_map _ _ (c05_readInline_nf env cs) (fun _ _ => hdel)
      | exact c05_spec_map _ _ (c05_readEmbeddedImage_nf env _ _) (fun _ _ => hdel)
      | split
      | dsimp only)

theorem c05_readAllWith_nofuelA (rd : c05_Rd) (F : Nat)
    (hrd : ∀ st n, xmlSize n + xmlSizeL st.deleted ≤ F →
      c05_spec c05_notFuel (c05_Qsz (xmlSize n + xmlSizeL st.deleted)) (rd st n)) :
    ∀ (ns : List XmlNode) (st : RState), xmlSizeL ns + xmlSizeL st.deleted ≤ F →
      c05_spec c05_notFuel (c05_Qsz (xmlSizeL ns + xmlSizeL st.deleted)) (readAllWith rd st ns)
  | [], st, _ => by
    simp only [readAllWith]; exact c05_spec_ok _ (by show xmlSizeL st.deleted ≤ _; omega)
  | .text _ :: rest, st, hsz => by
    simp only [readAllWith]
    simp only [xmlSizeL, xmlSize] at hsz ⊢
    exact c05_spec_weaken (c05_readAllWith_nofuelA rd F hrd rest st (by omega))
      (fun a ha => Nat.le_trans ha (by omega))
  | .elem n as cs :: rest, st, hsz => by
    simp only [readAllWith]
    simp only [xmlSizeL] at hsz ⊢
    refine c05_spec_bind (Q := c05_Qsz (xmlSize (.elem n as cs) + xmlSizeL st.deleted)) _ _
      (hrd _ _ (by omega)) (fun a ha => ?_)
    have ha' : xmlSizeL a.2.deleted ≤ xmlSize (.elem n as cs) + xmlSizeL st.deleted := ha
    refine c05_spec_bind (Q := c05_Qsz (xmlSizeL rest + xmlSizeL a.2.deleted)) _ _
      (c05_readAllWith_nofuelA rd F hrd rest _ (by omega)) (fun b hb => ?_)
    have hb' : xmlSizeL b.2.deleted ≤ xmlSizeL rest + xmlSizeL a.2.deleted := hb
    exact c05_spec_pure _ (by show xmlSizeL b.2.deleted ≤ _; omega)

theorem c05_readElem_nofuelA (env : REnv) :
    ∀ (f : Nat) (st : RState) (n : XmlNode), xmlSize n + xmlSizeL st.deleted ≤ f →
      c05_spec c05_notFuel (c05_Qsz (xmlSize n + xmlSizeL st.deleted)) (readElem env f st n)
  | f, st, .text s, _ => by
    rw [c05_readElem_text]; exact c05_spec_ok _ (by show xmlSizeL st.deleted ≤ _; omega)
  | 0, st, .elem name as cs, hsz => by simp only [xmlSize] at hsz; omega
  | f+1, st, .elem name as cs, hsz => by
    rw [c05_readElem_succ]
    simp only [xmlSize] at hsz ⊢
    exact c05_readBody_nofuelA env _ f
      (fun st ns h => c05_readAllWith_nofuelA _ f (c05_readElem_nofuelA env f) ns st h)
      st name as cs (by omega) _ (by omega)

end Mammoth
