/-
  C05 — balanced complex fields: the element reader never pops the empty field stack.
-/
import Proofs.C05_Balanced
namespace Mammoth

theorem c05_some_none_contra {α} {o : Option α} {v : α} (h1 : o = some v) (h2 : o = none) : False := by
  rw [h1] at h2; cases h2

theorem c05_readBody_bal (env : REnv) (hn : c05_noStyleLinks env = true) (ra : c05_RdAll)
    (all : Nat → List XmlNode → Option Nat)
    (ih : ∀ st ns, c05_staticL env ns = true → c05_noDelL ns = true → st.deleted = [] →
      c05_rel (all st.stack.length ns) (ra st ns))
    (st : RState) (name : Str) (as : Attrs) (cs : List XmlNode)
    (hel : c05_elemOk env name as cs = true) (hcs : c05_staticL env cs = true)
    (hnd : c05_elemNoDel name cs = true) (hncs : c05_noDelL cs = true) (hdel : st.deleted = []) :
    c05_rel (c05_depthBody all st.stack.length name as cs) (c05_readBody env ra st name as cs) := by
  unfold c05_readBody c05_depthBody
  cases hg : handlerOf name with
  | none =>
    dsimp only
    split <;> exact c05_rel_some _ _ (c05_spec_ok _ ⟨hdel, rfl⟩)
  | some g =>
    dsimp only
    repeat' (first
      | with_reducible refine c05_rel_ite2 _ _ _ _ _ (fun _ => ?_) (fun _ => ?_)
      | exact c05_rel_some _ _ (c05_spec_ok _ ⟨hdel, rfl⟩)
      | exact c05_spec_pure _ (by assumption)
      | exact ih _ _ hcs hncs hdel
      | exact ih _ _ (c05_staticL_findChild env _ cs hcs) (c05_noDelL_findChild _ cs hncs) hdel
      | exact c05_readFldChar_rel st as cs hdel
      | refine c05_rel_bind _ _ _ (ih _ _ hcs hncs hdel) (fun _ _ _ => ?_)
      | (rw [show st.deleted ++ cs = cs from by simp [hdel]]
         refine c05_rel_bind _ _ _ (ih { st with deleted := [] } cs hcs hncs rfl) (fun _ _ _ => ?_))
      | refine c05_spec_bind (Q := fun _ => True) _ _ (c05_spec_of_isOk _ (c05_readNumberingProps_ok env hn _ _)) (fun _ _ => ?_)
      | exact c05_rel_some _ _ (c05_spec_map _ _ (c05_spec_of_isOk _ (c05_readSymbol_ok as
          (c05_elemOk_symbol env name g as cs hg (by assumption) hel))) (fun _ _ => ⟨hdel, rfl⟩))
      | exact c05_rel_some _ _ (c05_spec_map _ _ (c05_spec_of_isOk _ (c05_readInline_ok env cs
          (c05_elemOk_inline env name g as cs hg (by assumption) hel))) (fun _ _ => ⟨hdel, rfl⟩))
      | exact c05_rel_some _ _ (c05_spec_map _ _ (c05_spec_of_isOk _ (c05_readEmbeddedImage_ok env _ _
          (c05_match_some (c05_elemOk_imagedata env name g as cs hg (by assumption) hel) (by assumption))))
          (fun _ _ => ⟨hdel, rfl⟩))
      | exact (c05_cell_contra (by assumption) (by assumption)
          (c05_match_some (c05_elemOk_cell env name g as cs hg (by assumption) hel) (by assumption))).elim
      | exact (c05_isSome_contra (c05_elemOk_noteRef env name g as cs hg (by assumption) hel) (by assumption)).elim
      | exact (c05_isSome_contra (c05_elemOk_commentRef env name g as cs hg (by assumption) hel) (by assumption)).elim
      | exact absurd (by assumption) (c05_elemNoDel_para name g cs hg (by assumption) hnd)
      | refine c05_spec_bind (Q := fun _ => True) _ _ (c05_spec_of_isOk _ (c05_targetById_ok env _
          (c05_match_some (c05_elemOk_hyperlink env name g as cs hg (by assumption) hel) (by assumption))))
          (fun _ _ => ?_)
      | exact (c05_some_none_contra (o := findChild S!"wordml:checkbox" (findChildOrNull S!"w:sdtPr" cs).2)
          (by assumption) (by assumption)).elim
      | with_reducible refine c05_rel_iteR _ _ _ _ (fun _ => ?_) (fun _ => ?_)
      | split
      | dsimp only)
    -- the final `else`: every handler name of the table is covered by the chain
    have hany := c05_handler_any name g hg
    simp only [c05_handlerNames, List.any_cons, List.any_nil, Bool.or_false, Bool.or_eq_true] at hany
    have hnote : ¬ (g == S!"note_reference:footnote" || g == S!"note_reference:endnote") = true := by assumption
    rcases hany with h|h|h|h|h|h|h|h|h|h|h|h|h|h|h|h|h|h|h|h|h|h|h|h
    all_goals first
      | exact absurd h (by assumption)
      | exact absurd (by rw [h]; rfl) hnote
      | exact absurd (by rw [h]; exact Bool.or_true _) hnote

theorem c05_readAllWith_bal (env : REnv) (rd : c05_Rd) (dp : Nat → XmlNode → Option Nat)
    (hrd : ∀ st n, c05_static env n = true → c05_noDel n = true → st.deleted = [] →
      c05_rel (dp st.stack.length n) (rd st n)) :
    ∀ (ns : List XmlNode) (st : RState), c05_staticL env ns = true → c05_noDelL ns = true → st.deleted = [] →
      c05_rel (c05_depthAllWith dp st.stack.length ns) (readAllWith rd st ns)
  | [], st, _, _, hd => by
    simp only [readAllWith, c05_depthAllWith]; exact c05_rel_some _ _ (c05_spec_ok _ ⟨hd, rfl⟩)
  | .text _ :: rest, st, hs, hn, hd => by
    simp only [readAllWith, c05_depthAllWith]
    simp only [c05_staticL, c05_noDelL, Bool.and_eq_true] at hs hn
    exact c05_readAllWith_bal env rd dp hrd rest st hs.2 hn.2 hd
  | .elem n as cs :: rest, st, hs, hn, hd => by
    simp only [readAllWith, c05_depthAllWith]
    simp only [c05_staticL, c05_noDelL, Bool.and_eq_true] at hs hn
    constructor; intro k hk
    cases hdp : dp st.stack.length (.elem n as cs) with
    | none => rw [hdp] at hk; cases hk
    | some d1 =>
      rw [hdp] at hk
      simp only [Option.bind] at hk
      refine c05_spec_bind (Q := c05_Qb d1) _ _ ((hrd _ _ hs.1 hn.1 hd).h d1 hdp) (fun a ha => ?_)
      have hrest := c05_readAllWith_bal env rd dp hrd rest a.2 hs.2 hn.2 ha.1
      rw [ha.2] at hrest
      refine c05_spec_bind (Q := c05_Qb k) _ _ (hrest.h k hk) (fun b hb => ?_)
      exact c05_spec_pure _ hb

theorem c05_readElem_bal (env : REnv) (hn : c05_noStyleLinks env = true) :
    ∀ (f : Nat) (st : RState) (n : XmlNode), c05_static env n = true → c05_noDel n = true → st.deleted = [] →
      c05_rel (c05_depth f st.stack.length n) (readElem env f st n)
  | f, st, .text s, _, _, hd => by
    rw [c05_readElem_text]
    have : c05_depth f st.stack.length (.text s) = some st.stack.length := by cases f <;> rfl
    rw [this]
    exact c05_rel_some _ _ (c05_spec_ok _ ⟨hd, rfl⟩)
  | 0, st, .elem name as cs, _, _, _ => by
    rw [c05_readElem_zero]
    exact ⟨fun k _ => ⟨fun e he => (by cases he; rfl), fun a ha => (by cases ha)⟩⟩
  | f+1, st, .elem name as cs, hs, hnd, hd => by
    rw [c05_readElem_succ]
    simp only [c05_static, c05_noDel, Bool.and_eq_true] at hs hnd
    show c05_rel (c05_depthBody (c05_depthAllWith (c05_depth f)) st.stack.length name as cs) _
    exact c05_readBody_bal env hn _ _
      (fun st ns h1 h2 h3 => c05_readAllWith_bal env _ _ (c05_readElem_bal env hn f) ns st h1 h2 h3)
      st name as cs hs.1 hs.2 hnd.1 hnd.2 hd

end Mammoth
