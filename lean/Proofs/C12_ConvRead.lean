/-
  C12 (conversion) — the body reader under two environments that differ only in the relationships
  (answers for the id `rMammothStyleMap`) and in the content types (answer for the path
  `mammoth/style-map`): on XML that does not use either, the two runs are equal.

  `c12_useOk chk env` is the per-element condition, by handler, exactly where the reader consults the
  relationships / content types: `w:hyperlink/@r:id`, `a:blip/@r:embed|@r:link` below `wp:inline`/`wp:anchor`,
  `v:imagedata/@r:id`.  `chk` says whether the relationships of this part are the ones the embed rewrote.
-/
import Proofs.C12_ConvRels
import Proofs.C05_ReadSpec
namespace Mammoth

/-- the relationship id is not the one the embed (re)defines — only relevant (`chk`) for a part whose
    relationships part is `word/_rels/document.xml.rels` -/
def c12_ridOk (chk : Bool) (rid : Str) : Bool := !(chk && rid == c12_smId)

/-- an embedded image: the id is fine and the zip entry it names is not `mammoth/style-map` -/
def c12_embedOk (chk : Bool) (env : REnv) (rid : Str) : Bool :=
  c12_ridOk chk rid &&
  match env.rels.targetById rid with
  | .ok t => uriToZipEntryName S!"word" t != styleMapPath
  | .error _ => true

/-- a linked image: the id is fine and the path whose content type is looked up is not `mammoth/style-map` -/
def c12_linkOk (chk : Bool) (env : REnv) (rid : Str) : Bool :=
  c12_ridOk chk rid &&
  match env.rels.targetById rid with
  | .ok t => t != styleMapPath
  | .error _ => true

def c12_blipOk (chk : Bool) (env : REnv) (as : Attrs) : Bool :=
  match attr? S!"r:embed" as with
  | some rid => c12_embedOk chk env rid
  | none =>
    match attr? S!"r:link" as with
    | some rid => c12_linkOk chk env rid
    | none => true

/-- the local, per-element condition (by handler of the element name) -/
def c12_elemOk (chk : Bool) (env : REnv) (name : Str) (as : Attrs) (cs : List XmlNode) : Bool :=
  match handlerOf name with
  | none => true
  | some h =>
    if h == S!"hyperlink" then
      (match attr? S!"r:id" as with | none => true | some rid => c12_ridOk chk rid)
    else if h == S!"inline" then (c05_blips cs).all fun b => c12_blipOk chk env b.1
    else if h == S!"read_imagedata" then
      (match attr? S!"r:id" as with | none => true | some rid => c12_embedOk chk env rid)
    else true

mutual
/-- every element of the tree satisfies `c12_elemOk` -/
def c12_useOk (chk : Bool) (env : REnv) : XmlNode → Bool
  | .text _ => true
  | .elem name as cs => c12_elemOk chk env name as cs && c12_useOkL chk env cs
def c12_useOkL (chk : Bool) (env : REnv) : List XmlNode → Bool
  | [] => true
  | c :: cs => c12_useOk chk env c && c12_useOkL chk env cs
end

theorem c12_useOkL_append (chk : Bool) (env : REnv) (xs ys : List XmlNode) :
    c12_useOkL chk env (xs ++ ys) = (c12_useOkL chk env xs && c12_useOkL chk env ys) := by
  induction xs with
  | nil => simp [c12_useOkL]
  | cons x xs ih => simp [c12_useOkL, ih, Bool.and_assoc]

theorem c12_useOkL_findChild (chk : Bool) (env : REnv) (name : Str) (cs : List XmlNode)
    (h : c12_useOkL chk env cs = true) : c12_useOkL chk env (findChildOrNull name cs).2 = true := by
  unfold findChildOrNull
  induction cs with
  | nil => simp [findChild, c12_useOkL]
  | cons c cs ih =>
    simp only [c12_useOkL, Bool.and_eq_true] at h
    cases c with
    | text s => simp only [findChild]; exact ih h.2
    | elem n as ccs =>
      simp only [findChild]
      split
      · simp only [Option.getD]
        have := h.1; simp only [c12_useOk, Bool.and_eq_true] at this; exact this.2
      · exact ih h.2

/-! ### the two environments -/

/-- `env` with other relationships and content types -/
@[reducible] def c12_reenv (env : REnv) (rels' : Rels) (ct' : ContentTypes) : REnv :=
  { env with rels := rels', contentTypes := ct' }

structure c12_EnvSim (chk : Bool) (env : REnv) (rels' : Rels) (ct' : ContentTypes) : Prop where
  byId : ∀ rid, c12_ridOk chk rid = true → rels'.targetById rid = env.rels.targetById rid
  ct : c12_CtSim env.contentTypes ct'

section
variable {chk : Bool} {env : REnv} {rels' : Rels} {ct' : ContentTypes}

theorem c12_readImage_eq (hs : c12_EnvSim chk env rels' ct') (path : Str) (src : ImageSrc) (alt : Option Str)
    (hp : path ≠ styleMapPath) :
    readImage (c12_reenv env rels' ct') path src alt = readImage env path src alt := by
  unfold readImage
  show (let ct := findContentType ct' path; _) = _
  dsimp only
  rw [hs.ct path hp]

theorem c12_readEmbeddedImage_eq (hs : c12_EnvSim chk env rels' ct') (rid : Str) (alt : Option Str)
    (h : c12_embedOk chk env rid = true) :
    readEmbeddedImage (c12_reenv env rels' ct') rid alt = readEmbeddedImage env rid alt := by
  simp only [c12_embedOk, Bool.and_eq_true] at h
  unfold readEmbeddedImage
  show (rels'.targetById rid >>= _) = _
  rw [hs.byId rid h.1]
  cases ht : env.rels.targetById rid with
  | error e => rfl
  | ok t =>
    have h2 := h.2
    rw [ht] at h2
    simp only [bind, Except.bind, pure, Except.pure]
    rw [c12_readImage_eq hs _ _ _ (by simpa using h2)]

theorem c12_readBlip_eq (hs : c12_EnvSim chk env rels' ct') (as : Attrs) (alt : Option Str)
    (h : c12_blipOk chk env as = true) :
    readBlip (c12_reenv env rels' ct') as alt = readBlip env as alt := by
  unfold c12_blipOk at h
  unfold readBlip
  cases he : attr? S!"r:embed" as with
  | some rid => rw [he] at h; exact c12_readEmbeddedImage_eq hs rid alt h
  | none =>
    rw [he] at h
    cases hl : attr? S!"r:link" as with
    | none => rfl
    | some rid =>
      rw [hl] at h
      simp only [c12_linkOk, Bool.and_eq_true] at h
      show (rels'.targetById rid >>= _) = (env.rels.targetById rid >>= _)
      rw [hs.byId rid h.1]
      cases ht : env.rels.targetById rid with
      | error e => rfl
      | ok t =>
        have h2 := h.2
        rw [ht] at h2
        simp only [bind, Except.bind, pure, Except.pure]
        rw [c12_readImage_eq hs _ _ _ (by simpa using h2)]

theorem c12_mapM_congr {α β} (f g : α → Except Err β) (l : List α) (h : ∀ a ∈ l, f a = g a) :
    l.mapM f = l.mapM g := by
  induction l with
  | nil => rfl
  | cons a l ih =>
    rw [List.mapM_cons, List.mapM_cons, h a List.mem_cons_self,
      ih (fun b hb => h b (List.mem_cons_of_mem _ hb))]

theorem c12_readInline_eq (hs : c12_EnvSim chk env rels' ct') (cs : List XmlNode)
    (h : ((c05_blips cs).all fun b => c12_blipOk chk env b.1) = true) :
    readInline (c12_reenv env rels' ct') cs = readInline env cs := by
  unfold readInline
  dsimp only
  rw [List.all_eq_true] at h
  congr 1
  exact c12_mapM_congr _ _ _ (fun b hb => c12_readBlip_eq hs b.1 _ (h b hb))

theorem c12_readNumberingProps_eq (sid : Option Str) (numPr : List XmlNode) :
    readNumberingProps (c12_reenv env rels' ct') sid numPr = readNumberingProps env sid numPr := rfl

end

/-! ### agreement of two runs -/

/-- the two runs are equal, and a normal result leaves a state satisfying `I` -/
def c12_ag (I : RState → Prop) (x' x : Except Err (ReadResult × RState)) : Prop :=
  x' = x ∧ ∀ a, x = .ok a → I a.2

theorem c12_ag_ok {I : RState → Prop} (a : ReadResult × RState) (h : I a.2) : c12_ag I (.ok a) (.ok a) :=
  ⟨rfl, fun _ ha => by cases ha; exact h⟩

theorem c12_ag_pure {I : RState → Prop} (a : ReadResult × RState) (h : I a.2) : c12_ag I (pure a) (pure a) :=
  c12_ag_ok a h

theorem c12_ag_err {I : RState → Prop} (e : Err) : c12_ag I (.error e) (.error e) :=
  ⟨rfl, fun _ ha => by cases ha⟩

theorem c12_ag_ite {I : RState → Prop} (c : Prop) [Decidable c] {a' a b' b : Except Err (ReadResult × RState)}
    (h1 : c → c12_ag I a' a) (h2 : ¬ c → c12_ag I b' b) :
    c12_ag I (if c then a' else b') (if c then a else b) := by
  by_cases hc : c
  · rw [if_pos hc, if_pos hc]; exact h1 hc
  · rw [if_neg hc, if_neg hc]; exact h2 hc

theorem c12_ag_bind {I : RState → Prop} {x' x : Except Err (ReadResult × RState)}
    {f' f : ReadResult × RState → Except Err (ReadResult × RState)}
    (hx : c12_ag I x' x) (hf : ∀ a, I a.2 → c12_ag I (f' a) (f a)) : c12_ag I (x' >>= f') (x >>= f) := by
  obtain ⟨rfl, hI⟩ := hx
  cases hxx : x' with
  | error e => exact c12_ag_err e
  | ok a => exact hf a (hI a hxx)

/-- a step whose result type is not a reader result: equal on both sides -/
theorem c12_ag_bind_eq {I : RState → Prop} {β} {y' y : Except Err β}
    {f' f : β → Except Err (ReadResult × RState)}
    (hy : y' = y) (hf : ∀ b, c12_ag I (f' b) (f b)) : c12_ag I (y' >>= f') (y >>= f) := by
  subst hy
  cases y' with
  | error e => exact c12_ag_err e
  | ok b => exact hf b

theorem c12_ag_map {I : RState → Prop} {y' y : Except Err ReadResult} (st : RState) (hy : y' = y) (h : I st) :
    c12_ag I (y'.map (·, st)) (y.map (·, st)) := by
  subst hy
  cases y' with
  | error e => exact c12_ag_err e
  | ok b => exact c12_ag_ok _ h

theorem c12_ag_same {I : RState → Prop} (x : Except Err (ReadResult × RState)) (h : ∀ a, x = .ok a → I a.2) :
    c12_ag I x x := ⟨rfl, h⟩

/-! ### the reader -/

abbrev c12_I (chk : Bool) (env : REnv) : RState → Prop := fun st => c12_useOkL chk env st.deleted = true

theorem c12_elemOk_hyperlink (chk : Bool) (env : REnv) (name h : Str) (as : Attrs) (cs : List XmlNode)
    (hh : handlerOf name = some h) (hc : (h == S!"hyperlink") = true) (hel : c12_elemOk chk env name as cs = true) :
    (match attr? S!"r:id" as with | none => true | some rid => c12_ridOk chk rid) = true := by
  have := eq_of_beq hc; subst this
  unfold c12_elemOk at hel; rw [hh] at hel
  exact hel

theorem c12_elemOk_inline (chk : Bool) (env : REnv) (name h : Str) (as : Attrs) (cs : List XmlNode)
    (hh : handlerOf name = some h) (hc : (h == S!"inline") = true) (hel : c12_elemOk chk env name as cs = true) :
    ((c05_blips cs).all fun b => c12_blipOk chk env b.1) = true := by
  have := eq_of_beq hc; subst this
  unfold c12_elemOk at hel; rw [hh] at hel
  exact hel

theorem c12_elemOk_imagedata (chk : Bool) (env : REnv) (name h : Str) (as : Attrs) (cs : List XmlNode)
    (hh : handlerOf name = some h) (hc : (h == S!"read_imagedata") = true)
    (hel : c12_elemOk chk env name as cs = true) :
    (match attr? S!"r:id" as with | none => true | some rid => c12_embedOk chk env rid) = true := by
  have := eq_of_beq hc; subst this
  unfold c12_elemOk at hel; rw [hh] at hel
  exact hel

theorem c12_readBody_ag {chk : Bool} {env : REnv} {rels' : Rels} {ct' : ContentTypes}
    (hs : c12_EnvSim chk env rels' ct') (ra' ra : c05_RdAll)
    (ih : ∀ st ns, c12_useOkL chk env ns = true → c12_useOkL chk env st.deleted = true →
      c12_ag (c12_I chk env) (ra' st ns) (ra st ns))
    (st : RState) (name : Str) (as : Attrs) (cs : List XmlNode)
    (hel : c12_elemOk chk env name as cs = true) (hcs : c12_useOkL chk env cs = true)
    (hdel : c12_useOkL chk env st.deleted = true) :
    c12_ag (c12_I chk env) (c05_readBody (c12_reenv env rels' ct') ra' st name as cs)
      (c05_readBody env ra st name as cs) := by
  unfold c05_readBody
  simp only [c12_readNumberingProps_eq]
  split
  · split <;> exact c12_ag_ok _ hdel
  · rename_i g hg
    repeat' (first
      | with_reducible refine c12_ag_ite _ (fun _ => ?_) (fun _ => ?_)
      | exact c12_ag_ok _ hdel
      | exact c12_ag_err _
      | exact c12_ag_pure _ (by assumption)
      | exact ih _ _ hcs hdel
      | exact ih _ _ (c12_useOkL_findChild chk env _ cs hcs) hdel
      | exact c12_ag_ok _ (by show c12_useOkL chk env (st.deleted ++ cs) = true; rw [c12_useOkL_append, hdel, hcs]; rfl)
      | exact c12_ag_same _ (fun a ha => by
          show c12_useOkL chk env a.2.deleted = true
          rw [(c05_readFldChar_spec st as cs).ok a ha]; exact hdel)
      | refine c12_ag_bind (ih _ _ hcs hdel) (fun _ _ => ?_)
      | refine c12_ag_bind (ih _ _ (by rw [c12_useOkL_append, hdel, hcs]; rfl) rfl) (fun _ _ => ?_)
      | refine c12_ag_bind_eq rfl (fun _ => ?_)
      | exact c12_ag_map st rfl hdel
      | exact c12_ag_map st (c12_readInline_eq hs cs (c12_elemOk_inline chk env name g as cs hg (by assumption) hel)) hdel
      | exact c12_ag_map st (c12_readEmbeddedImage_eq hs _ _
          (c05_match_some (c12_elemOk_imagedata chk env name g as cs hg (by assumption) hel) (by assumption))) hdel
      | refine c12_ag_bind_eq (hs.byId _
          (c05_match_some (c12_elemOk_hyperlink chk env name g as cs hg (by assumption) hel) (by assumption)))
          (fun _ => ?_)
      | split
      | dsimp only)

end Mammoth
