import MammothModel.Convert
namespace Mammoth

structure c05_keyOnly {α} (m : ConvM α) : Prop where
  h : ∀ st e, m.run st = .error e → ∃ w, e = Err.key w

theorem c05_keyOnly_pure {α} (a : α) : c05_keyOnly (pure a : ConvM α) := by
  constructor; intro st e h; simp [pure, StateT.pure, StateT.run, Except.pure] at h

theorem c05_keyOnly_bind {α β} (m : ConvM α) (f : α → ConvM β)
    (hm : c05_keyOnly m) (hf : ∀ a, c05_keyOnly (f a)) : c05_keyOnly (m >>= f) := by
  constructor; intro st e h
  rw [StateT.run_bind] at h
  cases hr : m.run st with
  | error e' =>
    rw [hr] at h
    simp [bind, Except.bind] at h
    subst h
    exact hm.h st _ hr
  | ok p =>
    rw [hr] at h
    simp [bind, Except.bind] at h
    exact (hf _).h _ _ h

theorem c05_keyOnly_modify (g : ConvState → ConvState) : c05_keyOnly (modify g : ConvM Unit) := by
  constructor; intro st e h
  simp [modify, modifyGet, MonadStateOf.modifyGet, StateT.modifyGet, StateT.run, pure, Except.pure] at h

theorem c05_keyOnly_get : c05_keyOnly (get : ConvM ConvState) := by
  constructor; intro st e h
  simp [get, getThe, MonadStateOf.get, StateT.get, StateT.run, pure, Except.pure] at h

theorem c05_keyOnly_throw {α} (w : Str) : c05_keyOnly (throw (Err.key w) : ConvM α) := by
  constructor; intro st e h
  simp [throw, throwThe, MonadExceptOf.throw, StateT.run, StateT.lift, bind, Except.bind] at h
  exact ⟨w, h.symm⟩

macro "c05_ko_step" : tactic =>
  `(tactic| first
    | apply c05_keyOnly_pure | apply c05_keyOnly_throw | apply c05_keyOnly_modify
    | apply c05_keyOnly_get | apply c05_keyOnly_bind | intro _ | split | dsimp only)

theorem c05_warn_keyOnly (m : Str) : c05_keyOnly (warn m) := by
  unfold warn; apply c05_keyOnly_modify

theorem c05_openImage_keyOnly (cfg : Cfg) (src : ImageSrc) : c05_keyOnly (openImage cfg src) := by
  unfold openImage
  repeat c05_ko_step

theorem c05_convertImage_keyOnly (cfg : Cfg) (i : ImageProps) : c05_keyOnly (convertImage cfg i) := by
  unfold convertImage
  repeat (first | apply c05_openImage_keyOnly | apply c05_warn_keyOnly | c05_ko_step)

theorem c05_findPathWarn_keyOnly (cfg : Cfg) (t k a b d) : c05_keyOnly (findPathWarn cfg t k a b d) := by
  unfold findPathWarn
  repeat (first | apply c05_warn_keyOnly | c05_ko_step)

mutual
theorem c05_visit_keyOnly (cfg : Cfg) (hdr : Bool) (e : Elem) : c05_keyOnly (visit cfg hdr e) := by
  match e with
  | .paragraph p cs =>
    unfold visit
    repeat (first | apply c05_findPathWarn_keyOnly | exact c05_visitAll_keyOnly cfg hdr cs | c05_ko_step)
  | .run r cs =>
    unfold visit
    repeat (first | apply c05_findPathWarn_keyOnly | exact c05_visitAll_keyOnly cfg hdr cs | c05_ko_step)
  | .text s => unfold visit; repeat c05_ko_step
  | .hyperlink h cs =>
    unfold visit
    repeat (first | exact c05_visitAll_keyOnly cfg hdr cs | c05_ko_step)
  | .checkbox c => unfold visit; repeat c05_ko_step
  | .table sid sname rows =>
    unfold visit
    repeat (first | exact c05_visitRows_keyOnly cfg true rows | c05_ko_step)
  | .row _ cells =>
    unfold visit
    repeat (first | exact c05_visitAll_keyOnly cfg hdr cells | c05_ko_step)
  | .cell _ _ _ cs =>
    unfold visit
    repeat (first | exact c05_visitAll_keyOnly cfg hdr cs | c05_ko_step)
  | .brk ty => unfold visit; repeat c05_ko_step
  | .tab => unfold visit; repeat c05_ko_step
  | .image i => unfold visit; apply c05_convertImage_keyOnly
  | .bookmark name => unfold visit; repeat c05_ko_step
  | .noteRef ty id => unfold visit; repeat c05_ko_step
  | .commentRef id => unfold visit; repeat c05_ko_step
theorem c05_visitAll_keyOnly (cfg : Cfg) (hdr : Bool) (es : List Elem) : c05_keyOnly (visitAll cfg hdr es) := by
  match es with
  | [] => unfold visitAll; repeat c05_ko_step
  | e :: es =>
    unfold visitAll
    repeat (first | exact c05_visit_keyOnly cfg hdr e | exact c05_visitAll_keyOnly cfg hdr es | c05_ko_step)
theorem c05_visitRows_keyOnly (cfg : Cfg) (inHead : Bool) (es : List Elem) : c05_keyOnly (visitRows cfg inHead es) := by
  match es with
  | [] => unfold visitRows; repeat c05_ko_step
  | e :: es =>
    unfold visitRows
    repeat (first | exact c05_visit_keyOnly cfg _ e | exact c05_visitRows_keyOnly cfg _ es | c05_ko_step)
end

theorem c05_keyOnly_throwE {α} (e : Err) (he : ∃ w, e = Err.key w) : c05_keyOnly (throw e : ConvM α) := by
  obtain ⟨w, rfl⟩ := he; exact c05_keyOnly_throw w

theorem c05_mapMConcat_keyOnly {α} (f : α → ConvM (List Node)) (hf : ∀ a, c05_keyOnly (f a)) (xs : List α) :
    c05_keyOnly (mapMConcat f xs) := by
  induction xs with
  | nil => unfold mapMConcat; repeat c05_ko_step
  | cons x xs ih =>
    unfold mapMConcat
    repeat (first | exact hf x | exact ih | c05_ko_step)

theorem c05_visitNote_keyOnly (cfg : Cfg) (n : Note) : c05_keyOnly (visitNote cfg n) := by
  unfold visitNote
  repeat (first | apply c05_visitAll_keyOnly | c05_ko_step)

theorem c05_visitComment_keyOnly (cfg : Cfg) (lc : Str × Comment) : c05_keyOnly (visitComment cfg lc) := by
  unfold visitComment
  repeat (first | apply c05_visitAll_keyOnly | c05_ko_step)

theorem c05_resolveNote_err (notes : List Note) (r : Str × Str) (e : Err)
    (h : resolveNote notes r = .error e) : ∃ w, e = Err.key w := by
  unfold resolveNote at h
  split at h
  · cases h
  · injection h with h; exact ⟨_, h.symm⟩

theorem c05_mapM_resolve_err (notes : List Note) (refs : List (Str × Str)) (e : Err)
    (h : refs.mapM (resolveNote notes) = .error e) : ∃ w, e = Err.key w := by
  induction refs generalizing e with
  | nil => simp [pure, Except.pure] at h
  | cons r rs ih =>
    rw [List.mapM_cons] at h
    cases hr : resolveNote notes r with
    | error e' =>
      rw [hr] at h; simp [bind, Except.bind] at h; subst h
      exact c05_resolveNote_err _ _ _ hr
    | ok n =>
      rw [hr] at h
      cases hrs : rs.mapM (resolveNote notes) with
      | error e' =>
        rw [hrs] at h; simp [bind, Except.bind] at h; subst h
        exact ih _ hrs
      | ok ns => rw [hrs] at h; simp [bind, Except.bind, pure, Except.pure] at h

theorem c05_visitDocument_keyOnly (cfg : Cfg) (d : Document) : c05_keyOnly (visitDocument cfg d) := by
  unfold visitDocument
  repeat (first
    | apply c05_visitAll_keyOnly
    | exact c05_mapMConcat_keyOnly _ (c05_visitNote_keyOnly cfg) _
    | exact c05_mapMConcat_keyOnly _ (c05_visitComment_keyOnly cfg) _
    | (apply c05_keyOnly_throwE; apply c05_mapM_resolve_err; assumption)
    | c05_ko_step)

theorem c05_convertDoc_err (cfg : Cfg) (d : Document) (e : Err)
    (h : convertDoc cfg d = .error e) : ∃ w, e = Err.key w := by
  unfold convertDoc at h
  split at h
  · cases h
  · rename_i e' he
    injection h with h; subst h
    exact (c05_visitDocument_keyOnly _ d).h _ _ he

end Mammoth
