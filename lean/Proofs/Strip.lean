/-
  `strip_empty` characterised as pruning by a content predicate.
-/
import Proofs.HtmlText
namespace Mammoth

mutual
/-- a node has content: non-empty text, a force-write marker, a void element without children,
    or an element with some contentful child -/
def hasContent : Node → Bool
  | .text s => !s.isEmpty
  | .forceWrite => true
  | .elem t cs => isVoid t cs || anyContent cs
def anyContent : List Node → Bool
  | [] => false
  | c :: cs => hasContent c || anyContent cs
end

mutual
/-- keep exactly the contentful nodes, recursively -/
def pruneNode : Node → Node
  | .elem t cs => .elem t (prune cs)
  | n => n
def prune : List Node → List Node
  | [] => []
  | c :: cs => if hasContent c then pruneNode c :: prune cs else prune cs
end

theorem isVoid_nonempty (t : Tag) (c : Node) (cs : List Node) : isVoid t (c :: cs) = false := by
  simp [isVoid]

mutual
theorem stripNode_eq (n : Node) : stripNode n = if hasContent n then [pruneNode n] else [] := by
  match n with
  | .text s => by_cases h : s.isEmpty <;> simp [stripNode, hasContent, pruneNode, h]
  | .forceWrite => simp [stripNode, hasContent, pruneNode]
  | .elem t cs =>
    have ih := stripList_eq cs
    have hne := stripList_isEmpty cs
    unfold stripNode
    simp only [hasContent, pruneNode]
    rw [hne, ih]
    by_cases hv : isVoid t cs = true
    · simp [hv]
    · simp only [Bool.not_eq_true] at hv
      by_cases ha : anyContent cs = true
      · simp [hv, ha]
      · simp only [Bool.not_eq_true] at ha
        simp [hv, ha]
theorem stripList_eq (ns : List Node) : stripList ns = prune ns := by
  match ns with
  | [] => simp [stripList, prune]
  | c :: cs =>
    unfold stripList prune
    rw [stripNode_eq c, stripList_eq cs]
    by_cases h : hasContent c = true <;> simp [h]
theorem stripList_isEmpty (ns : List Node) : (stripList ns).isEmpty = !anyContent ns := by
  match ns with
  | [] => simp [stripList, anyContent]
  | c :: cs =>
    unfold stripList anyContent
    rw [stripNode_eq c]
    have ih := stripList_isEmpty cs
    by_cases h : hasContent c = true
    · simp [h]
    · simp only [Bool.not_eq_true] at h
      simp [h, ih]
end

/-! ### nothing empty survives -/
mutual
/-- every element (at any depth) is void-and-childless or has a contentful child -/
def allContent : Node → Bool
  | .elem t cs => hasContent (.elem t cs) && allContentL cs
  | n => hasContent n
def allContentL : List Node → Bool
  | [] => true
  | c :: cs => allContent c && allContentL cs
end

mutual
theorem hasContent_pruneNode (n : Node) (h : hasContent n = true) : hasContent (pruneNode n) = true := by
  match n with
  | .text s => simpa [pruneNode] using h
  | .forceWrite => simp [pruneNode, hasContent]
  | .elem t cs =>
    simp only [pruneNode, hasContent, Bool.or_eq_true] at h ⊢
    cases h with
    | inl hv =>
      left
      have : cs = [] := by
        cases cs with
        | nil => rfl
        | cons c cs => simp [isVoid] at hv
      subst this
      simpa [prune] using hv
    | inr ha => right; exact anyContent_prune cs ha
theorem anyContent_prune (ns : List Node) (h : anyContent ns = true) : anyContent (prune ns) = true := by
  match ns with
  | [] => simp [anyContent] at h
  | c :: cs =>
    simp only [anyContent, Bool.or_eq_true] at h
    unfold prune
    by_cases hc : hasContent c = true
    · simp only [hc, if_true, anyContent, Bool.or_eq_true]
      left; exact hasContent_pruneNode c hc
    · simp only [hc]
      cases h with
      | inl h1 => exact absurd h1 hc
      | inr h2 => simpa using anyContent_prune cs h2
end

mutual
theorem allContent_pruneNode (n : Node) (h : hasContent n = true) : allContent (pruneNode n) = true := by
  match n with
  | .text s => simpa [pruneNode, allContent] using h
  | .forceWrite => simp [pruneNode, allContent, hasContent]
  | .elem t cs =>
    have h1 := hasContent_pruneNode (.elem t cs) h
    simp only [pruneNode] at h1
    simp only [pruneNode, allContent, Bool.and_eq_true]
    exact ⟨h1, allContentL_prune cs⟩
theorem allContentL_prune (ns : List Node) : allContentL (prune ns) = true := by
  match ns with
  | [] => simp [prune, allContentL]
  | c :: cs =>
    unfold prune
    by_cases hc : hasContent c = true
    · simp only [hc, if_true, allContentL, Bool.and_eq_true]
      exact ⟨allContent_pruneNode c hc, allContentL_prune cs⟩
    · simp only [hc]
      simpa using allContentL_prune cs
end

end Mammoth
