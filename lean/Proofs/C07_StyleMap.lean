/-
  C07 — the line splitter (`styleLines`), `unique`, and the specification of `readStyleMap`.
-/
import Proofs.C07_Lexer
namespace Mammoth

/-! ### `splitOnChar` -/

theorem c07_splitOnChar_ne_nil (sep : Char) (s : Str) : splitOnChar sep s ≠ [] := by
  cases s with
  | nil => simp [splitOnChar]
  | cons c cs =>
    rw [splitOnChar]
    split
    · simp
    · split <;> simp

theorem c07_splitOnChar_cons (sep c : Char) (cs : Str) :
    splitOnChar sep (c :: cs) =
      match splitOnChar sep cs with
      | [] => [[]]
      | p :: ps => if c == sep then [] :: p :: ps else (c :: p) :: ps := rfl

theorem c07_splitOnChar_no_sep (sep : Char) (s : Str) :
    ∀ p ∈ splitOnChar sep s, ∀ c ∈ p, c ≠ sep := by
  induction s with
  | nil => simp [splitOnChar]
  | cons c cs ih =>
    rw [splitOnChar]
    split
    · simp
    · rename_i p ps heq
      rw [heq] at ih
      intro q hq a ha
      by_cases hc : c = sep
      · simp only [hc, beq_self_eq_true, if_true, List.mem_cons] at hq
        rcases hq with rfl | rfl | hq
        · simp at ha
        · exact ih q (by simp) a ha
        · exact ih q (by simp [hq]) a ha
      · have : (c == sep) = false := by simpa using hc
        rw [this] at hq
        rcases List.mem_cons.mp hq with rfl | hq
        · rcases List.mem_cons.mp ha with rfl | ha
          · exact hc
          · exact ih p (by simp) a ha
        · exact ih q (by simp [hq]) a ha

/-- splitting distributes over a separator in the middle -/
theorem c07_splitOnChar_append (sep : Char) (a b : Str) :
    splitOnChar sep (a ++ sep :: b) = splitOnChar sep a ++ splitOnChar sep b := by
  induction a with
  | nil =>
    have := c07_splitOnChar_ne_nil sep b
    simp only [List.nil_append]
    cases h : splitOnChar sep b with
    | nil => exact absurd h this
    | cons p ps => rw [c07_splitOnChar_cons, h]; simp [splitOnChar]
  | cons c cs ih =>
    simp only [List.cons_append]
    rw [c07_splitOnChar_cons, ih, c07_splitOnChar_cons]
    have := c07_splitOnChar_ne_nil sep cs
    cases h : splitOnChar sep cs with
    | nil => exact absurd h this
    | cons p ps =>
      simp only [List.cons_append]
      split <;> simp

/-! ### `strip` only removes characters -/

theorem c07_mem_lstripWs (s : Str) (c : Char) (h : c ∈ lstripWs s) : c ∈ s := by
  induction s with
  | nil => simp [lstripWs] at h
  | cons a as ih =>
    rw [lstripWs] at h
    split at h
    · exact List.mem_cons_of_mem _ (ih h)
    · exact h

theorem c07_mem_strip (s : Str) (c : Char) (h : c ∈ strip s) : c ∈ s := by
  unfold strip rstripWs at h
  have h1 := c07_mem_lstripWs _ c (List.mem_reverse.mp h)
  exact c07_mem_lstripWs _ c (List.mem_reverse.mp h1)

theorem c07_styleLines_mem (text l : Str) (h : l ∈ styleLines text) :
    (∃ p ∈ splitOnChar '\n' text, l = strip p) ∧ l ≠ [] ∧ startsWith l ['#'] = false := by
  unfold styleLines at h
  simp only [List.mem_filter, List.mem_map] at h
  obtain ⟨⟨p, hp, rfl⟩, h2⟩ := h
  refine ⟨⟨p, hp, rfl⟩, ?_, ?_⟩
  · intro e; simp [e] at h2
  · simp at h2; exact h2.2

theorem c07_styleLines_append (a b : Str) :
    styleLines (a ++ '\n' :: b) = styleLines a ++ styleLines b := by
  simp [styleLines, c07_splitOnChar_append]

/-! ### `unique` -/

theorem c07_mem_uniqueAux {α} [DecidableEq α] (xs : List α) : ∀ (seen : List α) (x : α),
    x ∈ uniqueAux seen xs ↔ x ∈ xs ∧ x ∉ seen := by
  induction xs with
  | nil => simp [uniqueAux]
  | cons a as ih =>
    intro seen x
    rw [uniqueAux]
    split
    · rename_i hm
      rw [ih]
      constructor
      · rintro ⟨h1, h2⟩; exact ⟨List.mem_cons_of_mem _ h1, h2⟩
      · rintro ⟨h1, h2⟩
        rcases List.mem_cons.mp h1 with rfl | h1
        · exact absurd hm h2
        · exact ⟨h1, h2⟩
    · rename_i hm
      simp only [List.mem_cons, ih]
      constructor
      · rintro (rfl | ⟨h1, h2⟩)
        · exact ⟨Or.inl rfl, hm⟩
        · exact ⟨Or.inr h1, fun h => h2 (Or.inr h)⟩
      · rintro ⟨rfl | h1, h2⟩
        · exact Or.inl rfl
        · by_cases hx : x = a
          · exact Or.inl hx
          · exact Or.inr ⟨h1, fun h => h.elim hx h2⟩

theorem c07_nodup_uniqueAux {α} [DecidableEq α] (xs : List α) : ∀ (seen : List α),
    (uniqueAux seen xs).Nodup := by
  induction xs with
  | nil => simp [uniqueAux]
  | cons a as ih =>
    intro seen
    rw [uniqueAux]
    split
    · exact ih seen
    · refine List.nodup_cons.mpr ⟨?_, ih _⟩
      rw [c07_mem_uniqueAux]; simp

/-! ### `readStyleMap` -/

/-- the warnings before de-duplication: one per line that was not understood, in order -/
def c07_rawWarnings (text : Str) : List Str :=
  ((styleLines text).filter (fun l => (readStyleMapping l).isNone)).map styleWarning

theorem c07_readStyleMap_fst (text : Str) :
    (readStyleMap text).1 = (styleLines text).filterMap readStyleMapping := by
  simp [readStyleMap, List.filterMap_map, Function.comp_def]

theorem c07_readStyleMap_snd (text : Str) :
    (readStyleMap text).2 = unique (c07_rawWarnings text) := by
  simp only [readStyleMap, c07_rawWarnings, List.filterMap_map, Function.comp_def]
  congr 1
  induction styleLines text with
  | nil => rfl
  | cons l ls ih =>
    simp only [Option.isNone_iff_eq_none] at ih ⊢
    cases h : readStyleMapping l <;> simp [h, ih]

theorem c07_rawWarnings_append (a b : Str) :
    c07_rawWarnings (a ++ '\n' :: b) = c07_rawWarnings a ++ c07_rawWarnings b := by
  simp [c07_rawWarnings, c07_styleLines_append]

/-- a text without separator is one piece -/
theorem c07_splitOnChar_single (sep : Char) (p : Str) (h : ∀ c ∈ p, c ≠ sep) :
    splitOnChar sep p = [p] := by
  induction p with
  | nil => rfl
  | cons c cs ih =>
    rw [c07_splitOnChar_cons, ih (fun a ha => h a (List.mem_cons_of_mem _ ha))]
    have : (c == sep) = false := by simpa using h c (by simp)
    simp [this]

theorem c07_styleLines_single (p : Str) (h : ∀ c ∈ p, c ≠ '\n') :
    styleLines p = if !(strip p).isEmpty && !startsWith (strip p) ['#'] then [strip p] else [] := by
  simp only [styleLines, c07_splitOnChar_single '\n' p h, List.map_cons, List.map_nil, List.filter_cons,
    List.filter_nil]

theorem c07_mem_unique {α} [DecidableEq α] (xs : List α) (x : α) : x ∈ unique xs ↔ x ∈ xs := by
  simp [unique, c07_mem_uniqueAux]

theorem c07_mem_rawWarnings (text w : Str) :
    w ∈ c07_rawWarnings text ↔
      ∃ l ∈ styleLines text, readStyleMapping l = none ∧ w = styleWarning l := by
  simp only [c07_rawWarnings, List.mem_map, List.mem_filter, Option.isNone_iff_eq_none]
  constructor
  · rintro ⟨l, ⟨h1, h2⟩, rfl⟩; exact ⟨l, h1, h2, rfl⟩
  · rintro ⟨l, h1, h2, rfl⟩; exact ⟨l, ⟨h1, h2⟩, rfl⟩

end Mammoth
