/-
  C01 — the converter only emits separator-free tags unless the style map asks for a separator.
-/
import Proofs.C01_Refine
namespace Mammoth

/-- no tag of the path carries a (non-empty) separator -/
def c01_noSepPath : HtmlPath → Bool
  | .elements es => es.all fun t => (sepText t).isEmpty
  | .ignore => true

/-- no style mapping of the configuration uses a separator (`:separator('…')`) -/
def c01_noSepMap (cfg : Cfg) : Bool := cfg.styleMap.all fun s => c01_noSepPath s.path

/-- every successful result of the computation satisfies `P` -/
def c01_post {α} (P : α → Prop) (m : ConvM α) : Prop :=
  ∀ st a st', m st = .ok (a, st') → P a

theorem c01_post_bind {α β} (P : α → Prop) (Q : β → Prop) (x : ConvM α) (f : α → ConvM β)
    (hx : c01_post P x) (h : ∀ a, P a → c01_post Q (f a)) : c01_post Q (x >>= f) := by
  intro st b st' hr
  rw [c01_bind_run] at hr
  cases hxs : x st with
  | error e => simp [hxs] at hr
  | ok p =>
    obtain ⟨a, s⟩ := p
    simp only [hxs] at hr
    exact h a (hx st a s hxs) s b st' hr

theorem c01_post_true {α} (x : ConvM α) : c01_post (fun _ => True) x := fun _ _ _ _ => trivial

theorem c01_post_bind_any {α β} (Q : β → Prop) (x : ConvM α) (f : α → ConvM β)
    (h : ∀ a, c01_post Q (f a)) : c01_post Q (x >>= f) :=
  c01_post_bind (fun _ => True) Q x f (c01_post_true x) (fun a _ => h a)

theorem c01_post_pure {α} (P : α → Prop) (a : α) (h : P a) : c01_post P (pure a) := by
  intro st a' st' hr
  cases hr
  exact h

/-! ### paths -/

theorem c01_noSep_findPath (cfg : Cfg) (hm : c01_noSepMap cfg = true) (t : Target) (p : HtmlPath)
    (h : findPath cfg t = some p) : c01_noSepPath p = true := by
  unfold findPath findStyle at h
  cases hf : cfg.styleMap.find? (fun s => matcherMatches cfg.upper s.matcher t) with
  | none => simp [hf] at h
  | some s =>
    simp only [hf, Option.map_some, Option.some.injEq] at h
    have hmem := List.mem_of_find?_eq_some hf
    have := List.all_eq_true.mp hm s hmem
    rw [← h]; exact this

theorem c01_noSep_pathElem (n : Str) (f : Bool) : (sepText (pathElem n f)).isEmpty = true := by
  simp [pathElem, sepText]

theorem c01_noSep_propPath (cfg : Cfg) (hm : c01_noSepMap cfg = true) (t : Target) (d : Option Str) :
    c01_noSepPath (propPath cfg t d) = true := by
  unfold propPath
  cases h : findPath cfg t with
  | some p => exact c01_noSep_findPath cfg hm t p h
  | none => cases d <;> simp [c01_noSepPath, c01_noSep_pathElem]

theorem c01_noSep_runPropPaths (cfg : Cfg) (hm : c01_noSepMap cfg = true) (r : RunProps) :
    (runPropPaths cfg r).all c01_noSepPath = true := by
  unfold runPropPaths
  simp only [List.all_append, Bool.and_eq_true]
  refine ⟨⟨⟨⟨⟨⟨⟨⟨?_, ?_⟩, ?_⟩, ?_⟩, ?_⟩, ?_⟩, ?_⟩, ?_⟩, ?_⟩
  · cases r.highlight with
    | none => simp
    | some c =>
      simp only []
      cases h : findPath cfg (.highlight c) with
      | none => simp
      | some p => simp [c01_noSep_findPath cfg hm _ p h]
  all_goals
    split
    · first
      | (simp [c01_noSep_propPath cfg hm]; done)
      | simp [c01_noSepPath, c01_noSep_pathElem]
    · simp

theorem c01_noSepL_wrapElems (es : List Tag) (ns : List Node)
    (he : c01_noSepPath (.elements es) = true) (hn : noSepL ns = true) :
    noSepL (wrapElems es ns) = true := by
  induction es with
  | nil => simpa [wrapElems] using hn
  | cons t ts ih =>
    simp only [c01_noSepPath, List.all_cons, Bool.and_eq_true] at he
    simp only [wrapElems, noSepL, noSep, Bool.and_eq_true, and_true]
    exact ⟨he.1, ih (by simpa [c01_noSepPath] using he.2)⟩

theorem c01_noSepL_wrapAll (paths : List HtmlPath) (ns : List Node)
    (hp : paths.all c01_noSepPath = true) (hn : noSepL ns = true) :
    noSepL (wrapAll paths ns) = true := by
  induction paths generalizing ns with
  | nil => simpa [wrapAll] using hn
  | cons p ps ih =>
    simp only [List.all_cons, Bool.and_eq_true] at hp
    cases p with
    | ignore => exact ih [] hp.2 (by simp [noSepL])
    | elements es => exact ih _ hp.2 (c01_noSepL_wrapElems es ns hp.1 hn)

@[simp] theorem c01_noSep_el (n : Str) (a : List (Str × Str)) (cs : List Node) :
    noSep (el n a cs) = noSepL cs := by
  simp [el, noSep, sepText]

@[simp] theorem c01_noSep_cel (n : Str) (a : List (Str × Str)) (cs : List Node) :
    noSep (cel n a cs) = noSepL cs := by
  simp [cel, noSep, sepText]

/-! ### the visitor -/

/-- the forest contains no tag with a separator -/
abbrev c01_NS (ns : List Node) : Prop := noSepL ns = true

theorem c01_noSep_findPathWarn (cfg : Cfg) (hm : c01_noSepMap cfg = true) (t : Target) (kind : Str)
    (sid sname : Option Str) (dflt : HtmlPath) (hd : c01_noSepPath dflt = true) :
    c01_post (fun p => c01_noSepPath p = true) (findPathWarn cfg t kind sid sname dflt) := by
  intro st p st' hr
  rw [c01_findPathWarn_run] at hr
  cases hr
  unfold c01_path
  cases h : findPath cfg t with
  | none => simpa using hd
  | some q => simpa using c01_noSep_findPath cfg hm t q h

theorem c01_noSep_convertImage (cfg : Cfg) (i : ImageProps) : c01_post c01_NS (convertImage cfg i) := by
  unfold convertImage
  refine c01_post_bind_any _ _ _ ?_; intro _
  extract_lets altAttr
  have hel : ∀ a, c01_NS [el S!"img" a []] := by
    intro a; simp [c01_NS, noSepL, c01_noSep_el]
  split
  · refine c01_post_bind_any _ _ _ ?_; intro r
    split
    · exact c01_post_pure _ _ (hel _)
    · refine c01_post_bind_any _ _ _ ?_; intro _
      exact c01_post_pure _ _ rfl
  · split
    · refine c01_post_bind_any _ _ _ ?_; intro r
      split
      · exact c01_post_pure _ _ (hel _)
      · refine c01_post_bind_any _ _ _ ?_; intro _
        exact c01_post_pure _ _ rfl
    · exact c01_post_pure _ _ (hel _)

mutual
theorem c01_noSep_visit (cfg : Cfg) (hm : c01_noSepMap cfg = true) (hdr : Bool) (e : Elem) :
    c01_post c01_NS (visit cfg hdr e) := by
  match e with
  | .paragraph p cs =>
    simp only [visit]
    refine c01_post_bind _ _ _ _ (c01_noSep_findPathWarn cfg hm _ _ _ _ _ (by simp [c01_noSepPath, c01_noSep_pathElem])) ?_
    intro path hpath
    cases path with
    | ignore => exact c01_post_pure _ _ rfl
    | elements es =>
      refine c01_post_bind _ _ _ _ (c01_noSep_visitAll cfg hm hdr cs) ?_
      intro content hc
      refine c01_post_pure _ _ ?_
      apply c01_noSepL_wrapElems es _ hpath
      split
      · exact hc
      · simpa [noSepL, noSep] using hc
  | .run r cs =>
    simp only [visit]
    refine c01_post_bind _ _ _ _ (c01_noSep_findPathWarn cfg hm _ _ _ _ _ (by simp [c01_noSepPath])) ?_
    intro sp hsp
    have hall : (runPropPaths cfg r ++ [sp]).all c01_noSepPath = true := by
      simp [List.all_append, c01_noSep_runPropPaths cfg hm r, hsp]
    split
    · exact c01_post_pure _ _ (c01_noSepL_wrapAll _ _ hall rfl)
    · refine c01_post_bind _ _ _ _ (c01_noSep_visitAll cfg hm hdr cs) ?_
      intro ns hns
      exact c01_post_pure _ _ (c01_noSepL_wrapAll _ _ hall hns)
  | .text s => exact c01_post_pure _ _ rfl
  | .hyperlink h cs =>
    simp only [visit]
    refine c01_post_bind _ _ _ _ (c01_noSep_visitAll cfg hm hdr cs) ?_
    intro ns hns
    refine c01_post_pure _ _ ?_
    simp [c01_NS, noSepL, c01_noSep_cel, hns]
  | .checkbox c =>
    simp only [visit]
    refine c01_post_pure _ _ ?_
    simp [c01_NS, noSepL, c01_noSep_el]
  | .table sid sname rows =>
    simp only [visit]
    have hpath : c01_noSepPath ((findPath cfg (.table sid sname)).getD (.elements [pathElem S!"table" true])) = true := by
      cases h : findPath cfg (.table sid sname) with
      | none => simp [c01_noSepPath, c01_noSep_pathElem]
      | some q => simpa using c01_noSep_findPath cfg hm _ q h
    revert hpath
    generalize (findPath cfg (.table sid sname)).getD (.elements [pathElem S!"table" true]) = path
    intro hpath
    cases path with
    | ignore => exact c01_post_pure _ _ rfl
    | elements es =>
      refine c01_post_bind _ _ _ _ (c01_noSep_visitRows cfg hm true rows) ?_
      intro hb hhb
      refine c01_post_pure _ _ ?_
      apply c01_noSepL_wrapElems es _ hpath
      split <;> simp [noSepL, noSep, hhb.1, hhb.2]
  | .row h cells =>
    simp only [visit]
    refine c01_post_bind _ _ _ _ (c01_noSep_visitAll cfg hm hdr cells) ?_
    intro ns hns
    refine c01_post_pure _ _ ?_
    simp [c01_NS, noSepL, c01_noSep_el, noSep, hns]
  | .cell a b c cs =>
    simp only [visit]
    refine c01_post_bind _ _ _ _ (c01_noSep_visitAll cfg hm hdr cs) ?_
    intro ns hns
    refine c01_post_pure _ _ ?_
    simp [c01_NS, noSepL, c01_noSep_el, noSep, hns]
  | .brk ty =>
    simp only [visit]
    cases h : findPath cfg (.brk ty) with
    | none =>
      simp only []
      split
      · refine c01_post_pure _ _ ?_; simp [c01_NS, noSepL, noSep, c01_noSep_pathElem]
      · exact c01_post_pure _ _ rfl
    | some p =>
      have := c01_noSep_findPath cfg hm _ p h
      cases p with
      | ignore => exact c01_post_pure _ _ rfl
      | elements es => exact c01_post_pure _ _ (c01_noSepL_wrapElems es [] this rfl)
  | .tab => exact c01_post_pure _ _ rfl
  | .image i => simp only [visit]; exact c01_noSep_convertImage cfg i
  | .bookmark n =>
    simp only [visit]
    refine c01_post_pure _ _ ?_
    simp [c01_NS, noSepL, c01_noSep_cel, noSep]
  | .noteRef ty id =>
    simp only [visit]
    refine c01_post_bind_any _ _ _ ?_; intro _
    refine c01_post_bind_any _ _ _ ?_; intro _
    refine c01_post_pure _ _ ?_
    simp [c01_NS, noSepL, c01_noSep_el, noSep]
  | .commentRef id =>
    simp only [visit]
    cases h : findPath cfg .commentReference with
    | none => exact c01_post_pure _ _ rfl
    | some p =>
      have := c01_noSep_findPath cfg hm _ p h
      cases p with
      | ignore => exact c01_post_pure _ _ rfl
      | elements es =>
        simp only []
        split
        · intro st a st' hr; simp at hr
        · refine c01_post_bind_any _ _ _ ?_; intro _
          refine c01_post_bind_any _ _ _ ?_; intro _
          refine c01_post_pure _ _ ?_
          apply c01_noSepL_wrapElems es _ this
          simp [noSepL, c01_noSep_el, noSep]
theorem c01_noSep_visitAll (cfg : Cfg) (hm : c01_noSepMap cfg = true) (hdr : Bool) (es : List Elem) :
    c01_post c01_NS (visitAll cfg hdr es) := by
  match es with
  | [] => exact c01_post_pure _ _ rfl
  | e :: es =>
    simp only [visitAll]
    refine c01_post_bind _ _ _ _ (c01_noSep_visit cfg hm hdr e) ?_
    intro a ha
    refine c01_post_bind _ _ _ _ (c01_noSep_visitAll cfg hm hdr es) ?_
    intro b hb
    refine c01_post_pure _ _ ?_
    simp [c01_NS, noSepL_append, ha, hb]
theorem c01_noSep_visitRows (cfg : Cfg) (hm : c01_noSepMap cfg = true) (inHead : Bool) (rs : List Elem) :
    c01_post (fun p => c01_NS p.1 ∧ c01_NS p.2) (visitRows cfg inHead rs) := by
  match rs with
  | [] => exact c01_post_pure _ _ ⟨rfl, rfl⟩
  | r :: rs =>
    simp only [visitRows]
    split
    · refine c01_post_bind _ _ _ _ (c01_noSep_visit cfg hm true r) ?_
      intro a ha
      refine c01_post_bind _ _ _ _ (c01_noSep_visitRows cfg hm true rs) ?_
      intro hb hhb
      refine c01_post_pure _ _ ?_
      exact ⟨by simp [c01_NS, noSepL_append, ha, hhb.1], hhb.2⟩
    · refine c01_post_bind _ _ _ _ (c01_noSep_visit cfg hm false r) ?_
      intro a ha
      refine c01_post_bind _ _ _ _ (c01_noSep_visitRows cfg hm false rs) ?_
      intro hb hhb
      refine c01_post_pure _ _ ?_
      exact ⟨hhb.1, by simp [c01_NS, noSepL_append, ha, hhb.2]⟩
end

theorem c01_noSep_backLink (href : Str) : noSep (backLink href) = true := by
  simp [backLink, noSepL, noSep]

theorem c01_noSep_mapMConcat {α} (f : α → ConvM (List Node)) (hf : ∀ x, c01_post c01_NS (f x))
    (xs : List α) : c01_post c01_NS (mapMConcat f xs) := by
  induction xs with
  | nil => exact c01_post_pure _ _ rfl
  | cons x xs ih =>
    simp only [mapMConcat]
    refine c01_post_bind _ _ _ _ (hf x) ?_
    intro a ha
    refine c01_post_bind _ _ _ _ ih ?_
    intro b hb
    refine c01_post_pure _ _ ?_
    simp [c01_NS, noSepL_append, ha, hb]

theorem c01_noSep_visitNote (cfg : Cfg) (hm : c01_noSepMap cfg = true) (n : Note) :
    c01_post c01_NS (visitNote cfg n) := by
  unfold visitNote
  refine c01_post_bind _ _ _ _ (c01_noSep_visitAll cfg hm false n.body) ?_
  intro b hb
  refine c01_post_pure _ _ ?_
  simp [c01_NS, noSepL, noSepL_append, hb, c01_noSep_backLink]

theorem c01_noSep_visitComment (cfg : Cfg) (hm : c01_noSepMap cfg = true) (lc : Str × Comment) :
    c01_post c01_NS (visitComment cfg lc) := by
  unfold visitComment
  refine c01_post_bind _ _ _ _ (c01_noSep_visitAll cfg hm false lc.2.body) ?_
  intro b hb
  refine c01_post_pure _ _ ?_
  simp [c01_NS, noSepL, noSep, noSepL_append, hb, c01_noSep_backLink]

theorem c01_noSep_visitDocument (cfg : Cfg) (hm : c01_noSepMap cfg = true) (d : Document) :
    c01_post c01_NS (visitDocument cfg d) := by
  unfold visitDocument
  refine c01_post_bind _ _ _ _ (c01_noSep_visitAll cfg hm false d.children) ?_
  intro nodes hnodes
  refine c01_post_bind_any _ _ _ ?_; intro st1
  simp only []
  have key : ∀ notes, c01_post c01_NS (do
      let noteNodes ← mapMConcat (visitNote cfg) notes
      let __do_lift ← get
      let commentNodes ← mapMConcat (visitComment cfg) __do_lift.refComments
      pure (nodes ++ [el S!"ol" [] noteNodes, el S!"dl" [] commentNodes])) := by
    intro notes
    refine c01_post_bind _ _ _ _ (c01_noSep_mapMConcat _ (c01_noSep_visitNote cfg hm) notes) ?_
    intro nn hnn
    refine c01_post_bind_any _ _ _ ?_; intro st2
    refine c01_post_bind _ _ _ _ (c01_noSep_mapMConcat _ (c01_noSep_visitComment cfg hm) _) ?_
    intro cn hcn
    refine c01_post_pure _ _ ?_
    simp [c01_NS, noSepL, noSepL_append, hnodes, hnn, hcn]
  split
  · refine c01_post_bind_any _ _ _ ?_; intro notes
    exact key notes
  · intro st a st' hr
    rw [c01_bind_run, c01_throw_run] at hr
    simp at hr

/-! ### strip_empty introduces no separator -/
mutual
theorem c01_noSepL_stripNode (n : Node) (h : noSep n = true) : noSepL (stripNode n) = true := by
  match n with
  | .text s => unfold stripNode; split <;> simp [noSepL, noSep]
  | .forceWrite => simp [stripNode, noSepL, noSep]
  | .elem t cs =>
    have h' := h
    simp only [noSep, Bool.and_eq_true] at h'
    unfold stripNode
    simp only []
    split
    · simp [noSepL]
    · simp [noSepL, noSep, h'.1, c01_noSepL_stripList cs h'.2]
theorem c01_noSepL_stripList (ns : List Node) (h : noSepL ns = true) : noSepL (stripList ns) = true := by
  match ns with
  | [] => simp [stripList, noSepL]
  | c :: cs =>
    have h' := h
    simp only [noSepL, Bool.and_eq_true] at h'
    unfold stripList
    simp [noSepL_append, c01_noSepL_stripNode c h'.1, c01_noSepL_stripList cs h'.2]
end

end Mammoth
