/-
  C07 — a general linear bound for the backtracking matcher on rules of the shape
  `prefix (A₁|…|Aₙ)* suffix` (prefix, suffix, Aᵢ words of character classes) whose alternatives
  start with pairwise disjoint character classes.
-/
import Proofs.C07_Regex
namespace Mammoth

/-- a word: a sequence of one-character matchers (no choice inside) -/
def c07_word : List C07Class → C07Regex
  | [] => .eps
  | [p] => .chr p
  | p :: ps => .seq (.chr p) (c07_word ps)

/-- a word followed by a regex -/
def c07_wordThen : List C07Class → C07Regex → C07Regex
  | [], r => r
  | p :: ps, r => .seq (.chr p) (c07_wordThen ps r)

/-- ordered alternation of non-empty words, each given as (first class, rest) -/
def c07_altsRegex : List (C07Class × List C07Class) → C07Regex
  | [] => .chr (.set [])
  | [a] => c07_word (a.1 :: a.2)
  | a :: as => .alt (c07_word (a.1 :: a.2)) (c07_altsRegex as)

/-- rules of the shape `prefix (A₁|…|Aₙ)* suffix` where prefix, suffix and the `Aᵢ` are words -/
structure C07StarRule where
  pre : List C07Class
  alts : List (C07Class × List C07Class)
  suf : List C07Class

def C07StarRule.toRegex (r : C07StarRule) : C07Regex :=
  c07_wordThen r.pre (.seq (.star (c07_altsRegex r.alts)) (c07_word r.suf))

/-- the two classes have no character in common -/
def c07_disj (p q : C07Class) : Prop := ∀ c, ¬(p.test c = true ∧ q.test c = true)

theorem c07_word_cons_run (p : C07Class) (ps : List C07Class) (s : Str) (k : Str → C07Res) :
    (c07_word (p :: ps)).run s k = (C07Regex.chr p).run s fun s' => (c07_word ps).run s' k := by
  cases ps <;> rfl

theorem c07_word_cost (w : List C07Class) : ∀ (s : Str) (k : Str → C07Res) (M : Nat),
    (∀ s', s'.length ≤ s.length → (k s').1 ≤ M) → ((c07_word w).run s k).1 ≤ w.length + M := by
  induction w with
  | nil => intro s k M h; simpa [c07_word, C07Regex.run] using h s (Nat.le_refl _)
  | cons p ps ih =>
    intro s k M h
    rw [c07_word_cons_run]
    cases s with
    | nil => rw [c07_run_chr_nil]; simp; omega
    | cons c cs =>
      rw [c07_run_chr_cons]
      split
      · have := ih cs k M (fun s' hs' => h s' (by simp; omega))
        simp only [c07_tick_fst, List.length_cons]; omega
      · simp; omega

theorem c07_word_head_fail (p : C07Class) (ps : List C07Class) (c : Char) (cs : Str) (k : Str → C07Res)
    (h : p.test c = false) : (c07_word (p :: ps)).run (c :: cs) k = (1, none) := by
  rw [c07_word_cons_run, c07_run_chr_cons, h]; rfl

theorem c07_word_nil_fail (p : C07Class) (ps : List C07Class) (k : Str → C07Res) :
    (c07_word (p :: ps)).run [] k = (1, none) := by
  rw [c07_word_cons_run, c07_run_chr_nil]

theorem c07_wordThen_cost (w : List C07Class) (r : C07Regex) : ∀ (s : Str) (k : Str → C07Res) (M : Nat),
    (∀ s', s'.length ≤ s.length → (r.run s' k).1 ≤ M) → ((c07_wordThen w r).run s k).1 ≤ w.length + M := by
  induction w with
  | nil => intro s k M h; simpa [c07_wordThen] using h s (Nat.le_refl _)
  | cons p ps ih =>
    intro s k M h
    rw [c07_wordThen, c07_run_seq]
    cases s with
    | nil => rw [c07_run_chr_nil]; simp; omega
    | cons c cs =>
      rw [c07_run_chr_cons]
      split
      · have := ih cs k M (fun s' hs' => h s' (by simp; omega))
        simp only [c07_tick_fst, List.length_cons]; omega
      · simp; omega

/-- total size of the alternatives -/
def c07_altsSize : List (C07Class × List C07Class) → Nat
  | [] => 0
  | a :: as => a.2.length + 1 + c07_altsSize as

/-- no first class of an alternative accepts the next character (or there is none) -/
def c07_noHead (alts : List (C07Class × List C07Class)) : Str → Prop
  | [] => True
  | c :: _ => ∀ a ∈ alts, a.1.test c = false

theorem c07_alts_cost (alts : List (C07Class × List C07Class))
    (hd : alts.Pairwise fun a b => c07_disj a.1 b.1) :
    ∀ (s : Str) (k : Str → C07Res) (M : Nat), (∀ s', s'.length ≤ s.length → (k s').1 ≤ M) →
      ((c07_altsRegex alts).run s k).1 ≤ 2 * alts.length + 1 + c07_altsSize alts + M ∧
      (c07_noHead alts s → ((c07_altsRegex alts).run s k).1 ≤ 2 * alts.length + 1) := by
  induction alts with
  | nil =>
    intro s k M _
    have : ((c07_altsRegex []).run s k) = (1, none) := by
      cases s <;> rfl
    rw [this]; simp; omega
  | cons a as ih =>
    intro s k M hk
    have ih' := ih (List.Pairwise.of_cons hd) s k M hk
    have hw := c07_word_cost (a.1 :: a.2) s k M hk
    cases as with
    | nil =>
      simp only [c07_altsRegex, List.length_cons, List.length_nil, c07_altsSize]
      refine ⟨by simp only [List.length_cons] at hw; omega, ?_⟩
      intro hn
      cases s with
      | nil => rw [c07_word_nil_fail]; simp
      | cons c cs => rw [c07_word_head_fail _ _ _ _ _ (hn a (by simp))]; simp
    | cons b bs =>
      have hrun : (c07_altsRegex (a :: b :: bs)).run s k =
          (((c07_word (a.1 :: a.2)).run s k).orElse ((c07_altsRegex (b :: bs)).run s k)).tick := rfl
      rw [hrun]
      have hor := c07_orElse_fst_le ((c07_word (a.1 :: a.2)).run s k) ((c07_altsRegex (b :: bs)).run s k)
      simp only [c07_tick_fst, List.length_cons, c07_altsSize] at hw ih' ⊢
      -- does the head of `a` accept the next character?
      cases s with
      | nil =>
        rw [c07_word_nil_fail] at hor ⊢
        have h2 := ih'.2 trivial
        simp only at hor
        constructor
        · omega
        · intro _; omega
      | cons c cs =>
        by_cases ha : a.1.test c = true
        · -- all other heads reject `c`
          have hno : c07_noHead (b :: bs) (c :: cs) := by
            intro x hx
            have := (List.pairwise_cons.mp hd).1 x hx c
            cases hx' : x.1.test c with
            | false => rfl
            | true => exact absurd ⟨ha, hx'⟩ this
          have h2 := ih'.2 hno
          constructor
          · omega
          · intro hn; have := hn a (by simp); rw [ha] at this; cases this
        · have ha' : a.1.test c = false := by simpa using ha
          rw [c07_word_head_fail _ _ _ _ _ ha'] at hor ⊢
          simp only at hor
          constructor
          · omega
          · intro hn
            have h2 := ih'.2 (fun x hx => hn x (List.mem_cons_of_mem _ hx))
            omega

/-- per-character constant of the loop: body + continuation + the iteration itself -/
def c07_loopConst (alts : List (C07Class × List C07Class)) (B : Nat) : Nat :=
  2 * alts.length + 1 + c07_altsSize alts + B + 1

theorem c07_detLoop_cost (alts : List (C07Class × List C07Class))
    (hd : alts.Pairwise fun a b => c07_disj a.1 b.1) (k : Str → C07Res) (B : Nat)
    (hk : ∀ s, (k s).1 ≤ B) :
    ∀ (n : Nat) (s : Str), s.length ≤ n →
      ((C07Regex.star (c07_altsRegex alts)).run s k).1 ≤ (s.length + 1) * c07_loopConst alts B := by
  intro n
  induction n with
  | zero =>
    intro s hs
    have : s = [] := List.eq_nil_of_length_eq_zero (by omega)
    subst this
    rw [c07_star_unfold]
    have h1 := (c07_alts_cost alts hd [] (fun s' => if s'.length < ([] : Str).length then
        (C07Regex.star (c07_altsRegex alts)).run s' k else .fail) 0 (by intro s' _; simp)).1
    have h2 := c07_orElse_fst_le ((c07_altsRegex alts).run [] (fun s' => if s'.length < ([] : Str).length then
        (C07Regex.star (c07_altsRegex alts)).run s' k else .fail)) (k [])
    have h3 := hk []
    simp only [c07_tick_fst, List.length_nil, c07_loopConst] at *
    omega
  | succ n ih =>
    intro s hs
    rw [c07_star_unfold]
    let D := c07_loopConst alts B
    have hM : ∀ s' : Str, s'.length ≤ s.length →
        ((fun s' : Str => if s'.length < s.length then
          (C07Regex.star (c07_altsRegex alts)).run s' k else C07Res.fail) s').1 ≤ s.length * D := by
      intro s' _
      simp only
      split
      · rename_i hlt
        have := ih s' (by omega)
        exact Nat.le_trans this (Nat.mul_le_mul_right D hlt)
      · simp
    have h1 := (c07_alts_cost alts hd s _ _ hM).1
    have h2 := c07_orElse_fst_le ((c07_altsRegex alts).run s (fun s' => if s'.length < s.length then
        (C07Regex.star (c07_altsRegex alts)).run s' k else .fail)) (k s)
    have h3 := hk s
    have h4 : (s.length + 1) * D = s.length * D + D := Nat.succ_mul _ _
    show _ ≤ (s.length + 1) * D
    rw [h4]
    simp only [c07_tick_fst]
    have : D = 2 * alts.length + 1 + c07_altsSize alts + B + 1 := rfl
    omega

/-- a sound (not complete) syntactic disjointness test for character classes -/
def c07_disjointB : C07Class → C07Class → Bool
  | .lit a, q => !q.test a
  | p, .lit a => !p.test a
  | .set rs, .set rs' =>
    rs.all fun r => rs'.all fun r' => decide (r.2.toNat < r'.1.toNat) || decide (r'.2.toNat < r.1.toNat)
  | _, _ => false

theorem c07_disjointB_sound (p q : C07Class) (h : c07_disjointB p q = true) : c07_disj p q := by
  intro c ⟨hp, hq⟩
  cases p with
  | lit a =>
    have : c = a := by simpa [C07Class.test] using hp
    subst this
    simp [c07_disjointB, hq] at h
  | any =>
    cases q with
    | lit a =>
      have : c = a := by simpa [C07Class.test] using hq
      subst this
      simp [c07_disjointB, hp] at h
    | _ => simp [c07_disjointB] at h
  | nset rs =>
    cases q with
    | lit a =>
      have : c = a := by simpa [C07Class.test] using hq
      subst this
      simp [c07_disjointB, hp] at h
    | _ => simp [c07_disjointB] at h
  | set rs =>
    cases q with
    | lit a =>
      have : c = a := by simpa [C07Class.test] using hq
      subst this
      simp [c07_disjointB, hp] at h
    | set rs' =>
      simp only [c07_disjointB, List.all_eq_true, Bool.or_eq_true, decide_eq_true_eq] at h
      simp only [C07Class.test, c07_inRanges, List.any_eq_true, Bool.and_eq_true, decide_eq_true_eq] at hp hq
      obtain ⟨r, hr, h1, h2⟩ := hp
      obtain ⟨r', hr', h1', h2'⟩ := hq
      have := h r hr r' hr'
      omega
    | _ => simp [c07_disjointB] at h

/-- all pairs (earlier, later) satisfy the test -/
def c07_pairwiseB {α} (f : α → α → Bool) : List α → Bool
  | [] => true
  | a :: as => as.all (f a) && c07_pairwiseB f as

theorem c07_pairwiseB_sound {α} (f : α → α → Bool) (R : α → α → Prop) (hf : ∀ a b, f a b = true → R a b) :
    ∀ l : List α, c07_pairwiseB f l = true → l.Pairwise R := by
  intro l
  induction l with
  | nil => intro _; exact List.Pairwise.nil
  | cons a as ih =>
    intro h
    simp only [c07_pairwiseB, Bool.and_eq_true, List.all_eq_true] at h
    exact List.pairwise_cons.mpr ⟨fun b hb => hf a b (h.1 b hb), ih h.2⟩

/-- DETERMINISTIC: the first-character classes of the alternatives under the star are pairwise
    disjoint (checked syntactically), so at every position at most one alternative can start -/
def c07_deterministic (r : C07StarRule) : Bool :=
  c07_pairwiseB (fun a b => c07_disjointB a.1 b.1) r.alts

/-- the constant of the linear bound -/
def c07_detConst (r : C07StarRule) : Nat := r.pre.length + c07_loopConst r.alts r.suf.length

theorem c07_deterministic_steps (r : C07StarRule) (h : c07_deterministic r = true) (s : Str) :
    r.toRegex.steps s ≤ c07_detConst r * (s.length + 1) := by
  have hd : r.alts.Pairwise fun a b => c07_disj a.1 b.1 :=
    c07_pairwiseB_sound _ _ (fun a b hab => c07_disjointB_sound a.1 b.1 hab) _ h
  unfold C07Regex.steps C07Regex.exec C07StarRule.toRegex
  let D := c07_loopConst r.alts r.suf.length
  have hk : ∀ s' : Str, ((fun s'' : Str => (c07_word r.suf).run s'' fun s' => (0, some s')) s').1 ≤ r.suf.length := by
    intro s'
    have := c07_word_cost r.suf s' (fun s' => (0, some s')) 0 (by intro _ _; simp)
    simpa using this
  have hloop : ∀ s' : Str, s'.length ≤ s.length →
      ((C07Regex.seq (.star (c07_altsRegex r.alts)) (c07_word r.suf)).run s' fun s' => (0, some s')).1
        ≤ (s.length + 1) * D := by
    intro s' hs'
    rw [c07_run_seq]
    have := c07_detLoop_cost r.alts hd _ r.suf.length hk s'.length s' (Nat.le_refl _)
    exact Nat.le_trans this (Nat.mul_le_mul_right D (by omega))
  have := c07_wordThen_cost r.pre _ s _ _ hloop
  have e : c07_detConst r * (s.length + 1) = r.pre.length * (s.length + 1) + (s.length + 1) * D := by
    unfold c07_detConst; rw [Nat.add_mul, Nat.mul_comm D]
  have : r.pre.length ≤ r.pre.length * (s.length + 1) := Nat.le_mul_of_pos_right _ (by omega)
  omega

/-- the repaired STRING rule is an instance -/
def c07_newStarRule : C07StarRule :=
  ⟨[c07_ccQuote], [(c07_ccBackslash, [.any]), (c07_ccNotQuoteBackslash, [])], [c07_ccQuote]⟩
def c07_oldStarRule : C07StarRule :=
  ⟨[c07_ccQuote], [(c07_ccBackslash, [.any]), (c07_ccNotQuote, [])], [c07_ccQuote]⟩

theorem c07_newStarRule_regex : c07_newStarRule.toRegex = c07_stringRuleNew := rfl
theorem c07_oldStarRule_regex : c07_oldStarRule.toRegex = c07_stringRuleOld := rfl
theorem c07_newStarRule_det : c07_deterministic c07_newStarRule = true := by decide
theorem c07_oldStarRule_not_det : c07_deterministic c07_oldStarRule = false := by decide

/-- the IDENTIFIER rule `(?:[a-zA-Z\-_]|\\.)(?:[a-zA-Z\-_]|\\.|[0-9])*` with the alternation
    flattened (same language, same priorities); its first character is covered by the first
    alternative of `c07_identRule` only, so this instance describes the loop -/
def c07_identLoopRule : C07StarRule :=
  ⟨[], [(c07_ccIdentStart, []), (c07_ccBackslash, [.any]), (c07_ccDigit, [])], []⟩
theorem c07_identLoopRule_det : c07_deterministic c07_identLoopRule = true := by decide

end Mammoth
