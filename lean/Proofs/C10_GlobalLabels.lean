/-
  C10, global part 7: the labels of the note references, in closed form.
-/
import Proofs.C10_GlobalProps
namespace Mammoth

/-- the anchors of a list of note references met from counter `n` on: the k-th is labelled `[n+k]` -/
def c10_noteAnchors (cfg : Cfg) : Nat → List (Str × Str) → List (Str × Str × Str)
  | _, [] => []
  | n, (ty, id) :: r =>
    (referenceId cfg ty id, ['#'] ++ referentId cfg ty id, ['['] ++ natToStr (n + 1) ++ [']'])
      :: c10_noteAnchors cfg (n + 1) r

/-- without comment-reference events the anchors are those of the note references -/
theorem c10_evAnchors_notes (cfg : Cfg) (evs : List c10_Ev) (h : c10_evCRefs evs = []) (n c : Nat) :
    c10_evAnchors cfg n c evs = c10_noteAnchors cfg n (c10_evRefs evs) := by
  induction evs generalizing n with
  | nil => rfl
  | cons ev evs ih =>
    cases ev with
    | commentRef id => simp [c10_evCRefs] at h
    | noteRef ty id =>
      simp only [c10_evAnchors, c10_evRefs, c10_noteAnchors]
      rw [ih (by simpa [c10_evCRefs] using h)]
    | bookmark _ => simpa [c10_evAnchors, c10_evRefs] using ih (by simpa [c10_evCRefs] using h) n
    | link _ => simpa [c10_evAnchors, c10_evRefs] using ih (by simpa [c10_evCRefs] using h) n
    | item _ _ => simpa [c10_evAnchors, c10_evRefs] using ih (by simpa [c10_evCRefs] using h) n
    | back _ _ => simpa [c10_evAnchors, c10_evRefs] using ih (by simpa [c10_evCRefs] using h) n

/-- `[k]` -/
def c10_label (k : Nat) : Str := ['['] ++ natToStr k ++ [']']

theorem c10_noteAnchors_text (cfg : Cfg) (refs : List (Str × Str)) (n : Nat) :
    (c10_noteAnchors cfg n refs).map (·.2.2) = (List.range' (n + 1) refs.length).map c10_label := by
  induction refs generalizing n with
  | nil => rfl
  | cons r rs ih =>
    obtain ⟨ty, id⟩ := r
    simp only [c10_noteAnchors, List.map_cons, List.length_cons, List.range'_succ, ih]
    rfl

theorem c10_noteAnchors_href (cfg : Cfg) (refs : List (Str × Str)) (n : Nat) :
    (c10_noteAnchors cfg n refs).map (·.2.1) = refs.map (fun r => ['#'] ++ referentId cfg r.1 r.2) := by
  induction refs generalizing n with
  | nil => rfl
  | cons r rs ih => obtain ⟨ty, id⟩ := r; simp only [c10_noteAnchors, List.map_cons, ih]

theorem c10_noteAnchors_id (cfg : Cfg) (refs : List (Str × Str)) (n : Nat) :
    (c10_noteAnchors cfg n refs).map (·.1) = refs.map (fun r => referenceId cfg r.1 r.2) := by
  induction refs generalizing n with
  | nil => rfl
  | cons r rs ih => obtain ⟨ty, id⟩ := r; simp only [c10_noteAnchors, List.map_cons, ih]

end Mammoth
