/-
  C05 — more fuel never changes a result of the element reader, errors included: a normal result AND every
  error other than `.fuel` is the same with more fuel.  (So the outcome is a function of the input as soon as
  the fuel suffices; `.fuel` is the only outcome that depends on it.)
-/
import Proofs.C05_Fuel
namespace Mammoth

/-- `x ≤ y`: whenever `x` has a definite outcome (a value, or an error that is not `.fuel`), `y` has the same -/
structure c05_le2 {α} (x y : Except Err α) : Prop where
  ok : ∀ r, x = .ok r → y = .ok r
  err : ∀ e, x = .error e → e ≠ .fuel → y = .error e

theorem c05_le2_refl {α} (x : Except Err α) : c05_le2 x x := ⟨fun _ h => h, fun _ h _ => h⟩

theorem c05_le2_bind {α β} (x x' : Except Err α) (f f' : α → Except Err β)
    (hx : c05_le2 x x') (hf : ∀ a, c05_le2 (f a) (f' a)) : c05_le2 (x >>= f) (x' >>= f') := by
  cases hxx : x with
  | error e =>
    constructor
    · intro r h; simp [bind, Except.bind] at h
    · intro e' h hne
      simp only [bind, Except.bind] at h
      cases h
      rw [hx.err e hxx hne]; rfl
  | ok a =>
    rw [hx.ok a hxx]
    exact hf a

theorem c05_le2_ite {α} (c : Prop) [Decidable c] (a a' b b' : Except Err α)
    (h1 : c → c05_le2 a a') (h2 : ¬ c → c05_le2 b b') : c05_le2 (if c then a else b) (if c then a' else b') := by
  by_cases hc : c
  · rw [if_pos hc, if_pos hc]; exact h1 hc
  · rw [if_neg hc, if_neg hc]; exact h2 hc

theorem c05_le2_map {α β} (x x' : Except Err α) (f : α → β)
    (hx : c05_le2 x x') : c05_le2 (x.map f) (x'.map f) := by
  cases hxx : x with
  | error e =>
    constructor
    · intro r h; simp [Except.map] at h
    · intro e' h hne
      simp only [Except.map] at h
      cases h
      rw [hx.err e hxx hne]; rfl
  | ok a =>
    rw [hx.ok a hxx]
    exact c05_le2_refl _

theorem c05_readAllWith_le2 (rd rd' : c05_Rd) (hrd : ∀ st n, c05_le2 (rd st n) (rd' st n)) :
    ∀ (ns : List XmlNode) (st : RState), c05_le2 (readAllWith rd st ns) (readAllWith rd' st ns)
  | [], st => by simp only [readAllWith]; exact c05_le2_refl _
  | .text _ :: rest, st => by simp only [readAllWith]; exact c05_readAllWith_le2 rd rd' hrd rest st
  | .elem n as cs :: rest, st => by
    simp only [readAllWith]
    apply c05_le2_bind
    · exact hrd _ _
    · intro a
      apply c05_le2_bind
      · exact c05_readAllWith_le2 rd rd' hrd rest _
      · intro b; exact c05_le2_refl _

theorem c05_readBody_le2 (env : REnv) (ra ra' : c05_RdAll) (ih : ∀ st ns, c05_le2 (ra st ns) (ra' st ns))
    (st : RState) (name : Str) (as : Attrs) (cs : List XmlNode) :
    c05_le2 (c05_readBody env ra st name as cs) (c05_readBody env ra' st name as cs) := by
  unfold c05_readBody
  repeat' (first
    | with_reducible exact c05_le2_refl _
    | exact ih _ _
    | refine c05_le2_bind _ _ _ _ ?_ (fun _ => ?_)
    | refine c05_le2_map _ _ _ ?_
    | refine c05_le2_ite _ _ _ _ _ (fun _ => ?_) (fun _ => ?_)
    | split
    | dsimp only)

theorem c05_readElem_le2_succ (env : REnv) : ∀ (f : Nat) (st : RState) (n : XmlNode),
    c05_le2 (readElem env f st n) (readElem env (f+1) st n)
  | f, st, .text s => by rw [c05_readElem_text, c05_readElem_text]; exact c05_le2_refl _
  | 0, st, .elem name as cs => by
    rw [c05_readElem_zero]
    exact ⟨fun r h => (by cases h), fun e h hne => (by cases h; exact absurd rfl hne)⟩
  | f+1, st, .elem name as cs => by
    rw [c05_readElem_succ, c05_readElem_succ]
    exact c05_readBody_le2 env _ _ (fun st ns => c05_readAllWith_le2 _ _ (c05_readElem_le2_succ env f) ns st) st name as cs

theorem c05_readElem_le2_add (env : REnv) (f k : Nat) (st : RState) (n : XmlNode) :
    c05_le2 (readElem env f st n) (readElem env (f+k) st n) := by
  induction k with
  | zero => exact c05_le2_refl _
  | succ k ih =>
    have h := c05_readElem_le2_succ env (f+k) st n
    exact ⟨fun r hr => h.ok r (ih.ok r hr), fun e he hne => h.err e (ih.err e he hne) hne⟩

/-- for lists of nodes: every definite outcome at fuel `f` is the outcome at every fuel `f' ≥ f` -/
theorem c05_readAll_le2 (env : REnv) (f f' : Nat) (hf : f ≤ f') (st : RState) (ns : List XmlNode) :
    c05_le2 (readAll env f st ns) (readAll env f' st ns) := by
  obtain ⟨k, rfl⟩ := Nat.exists_eq_add_of_le hf
  exact c05_readAllWith_le2 _ _ (fun st n => c05_readElem_le2_add env f k st n) ns st

end Mammoth
