/-
  C14 — table structure survives `strip_empty`: every table not mapped to `!`, every row and every cell
  is written, empty or not (they all carry a force-write marker); only an empty `tbody` disappears.
-/
import Proofs.C14_Sites
namespace Mammoth

theorem c14_pruneNode_cellNode (hdr : Bool) (c r : Nat) (ns : List Node) :
    pruneNode (c09_cellNode hdr c r ns) = c09_cellNode hdr c r (prune ns) := by
  simp [c09_cellNode, el, pruneNode, prune, hasContent]

theorem c14_hasContent_cellNode (hdr : Bool) (c r : Nat) (ns : List Node) :
    hasContent (c09_cellNode hdr c r ns) = true := by
  simp [c09_cellNode, el, hasContent, anyContent]

theorem c14_pruneNode_rowNode (ns : List Node) : pruneNode (c09_rowNode ns) = c09_rowNode (prune ns) := by
  simp [c09_rowNode, el, pruneNode, prune, hasContent]

theorem c14_hasContent_rowNode (ns : List Node) : hasContent (c09_rowNode ns) = true := by
  simp [c09_rowNode, el, hasContent, anyContent]

/-- one cell element per cell, also after `strip_empty` -/
theorem c14_cells_kept (hdr : Bool) (cells : List Elem) (ns : List Node)
    (h : c09_Forall2 (c09_cellRel hdr) cells ns) : c09_Forall2 (c09_cellRel hdr) cells (prune ns) := by
  induction h with
  | nil => simp only [prune]; exact .nil
  | cons hab _ ih =>
    obtain ⟨c, r, vm, cs, x, he, hn⟩ := hab
    subst hn
    simp only [prune, c14_hasContent_cellNode, if_true, c14_pruneNode_cellNode]
    exact .cons ⟨c, r, vm, cs, _, he, rfl⟩ ih

/-- one `tr` per row with one cell element per cell, also after `strip_empty` -/
theorem c14_rows_kept (hdr : Bool) (rows : List Elem) (ns : List Node)
    (h : c09_Forall2 (c09_rowRel hdr) rows ns) : c09_Forall2 (c09_rowRel hdr) rows (prune ns) := by
  induction h with
  | nil => simp only [prune]; exact .nil
  | cons hab _ ih =>
    obtain ⟨hh, cells, x, he, hn, hc⟩ := hab
    subst hn
    simp only [prune, c14_hasContent_rowNode, if_true, c14_pruneNode_rowNode]
    exact .cons ⟨hh, cells, _, he, rfl, c14_cells_kept hdr cells x hc⟩ ih

theorem c14_forall2_nil_iff {α β} {R : α → β → Prop} {as : List α} {bs : List β}
    (h : c09_Forall2 R as bs) : bs = [] ↔ as = [] := by
  cases h <;> simp

theorem c14_rows_anyContent (hdr : Bool) (rows : List Elem) (ns : List Node)
    (h : c09_Forall2 (c09_rowRel hdr) rows ns) : anyContent ns = !rows.isEmpty := by
  cases h with
  | nil => simp [anyContent]
  | cons hab _ =>
    obtain ⟨_, _, x, _, hn, _⟩ := hab
    subst hn
    simp [anyContent, c14_hasContent_rowNode]

/-- `strip_empty` of the children of a table element -/
theorem c14_prune_tableChildren (rows : List Elem) (headNs bodyNs : List Node)
    (hh : c09_Forall2 (c09_rowRel true) (rows.take (bodyIndex rows)) headNs)
    (hb : c09_Forall2 (c09_rowRel false) (rows.drop (bodyIndex rows)) bodyNs) :
    prune (if bodyIndex rows = 0 then bodyNs else [el S!"thead" [] headNs, el S!"tbody" [] bodyNs]) =
      if bodyIndex rows = 0 then prune bodyNs
      else el S!"thead" [] (prune headNs) ::
        (if (rows.drop (bodyIndex rows)).isEmpty then [] else [el S!"tbody" [] (prune bodyNs)]) := by
  by_cases h0 : bodyIndex rows = 0
  · simp [h0]
  · simp only [h0, if_false]
    -- the head part is not empty, and rows are never empty
    have hne : rows.take (bodyIndex rows) ≠ [] := by
      intro he
      have := congrArg List.length he
      rw [c09_take_bodyIndex, ← c09_bodyIndex_eq] at this
      exact h0 (by simpa using this)
    have hhead : anyContent headNs = true := by
      rw [c14_rows_anyContent _ _ _ hh]
      cases hl : rows.take (bodyIndex rows) with
      | nil => exact absurd hl hne
      | cons a as => rfl
    have hbody : anyContent bodyNs = !(rows.drop (bodyIndex rows)).isEmpty :=
      c14_rows_anyContent _ _ _ hb
    have h1 : hasContent (el S!"thead" [] headNs) = true := by
      simp [el, hasContent, hhead]
    have h2 : hasContent (el S!"tbody" [] bodyNs) = !(rows.drop (bodyIndex rows)).isEmpty := by
      rw [← hbody]
      cases bodyNs with
      | nil => simp only [el, hasContent, isVoid, anyContent]; rfl
      | cons b bs => simp [el, hasContent, isVoid]
    simp only [prune, h1, if_true, h2]
    cases (rows.drop (bodyIndex rows)).isEmpty <;> simp [el, pruneNode]

/-- Structure of a converted table after `strip_empty`: the whole table path, the force-write marker and
    then either the `tr`s (no leading header row) or `thead` (with the `tr`s of the leading header rows)
    followed by `tbody` (with the other `tr`s) — `tbody` only if there is a non-header row —; one `tr` per
    row and one `th`/`td` per cell, in order, whether or not the cells have content. -/
theorem c14_table_structure_kept (cfg : Cfg) (hdr : Bool) (sid sname : Option Str) (rows : List Elem)
    (es : List Tag) (s s' : ConvState) (nodes : List Node)
    (hrows : rows.all (fun r => isRow r && (rowCells r).all isCell) = true)
    (hpath : c01_path cfg (.table sid sname) (.elements [pathElem S!"table" true]) = .elements es)
    (hrun : visit cfg hdr (.table sid sname rows) s = .ok (nodes, s')) :
    ∃ headNs bodyNs,
      stripEmpty nodes = wrapElems es (.forceWrite ::
        (if bodyIndex rows = 0 then bodyNs
         else el S!"thead" [] headNs ::
           (if (rows.drop (bodyIndex rows)).isEmpty then [] else [el S!"tbody" [] bodyNs]))) ∧
      c09_Forall2 (c09_rowRel true) (rows.take (bodyIndex rows)) headNs ∧
      c09_Forall2 (c09_rowRel false) (rows.drop (bodyIndex rows)) bodyNs := by
  have hrun' : (visit cfg hdr (.table sid sname rows)).run s = .ok (nodes, s') := hrun
  rw [c09_visit_table] at hrun'
  have hp : (findPath cfg (.table sid sname)).getD (.elements [pathElem S!"table" true]) = .elements es := hpath
  rw [hp] at hrun'
  simp only [] at hrun'
  rw [c09_visitRows_true] at hrun'
  simp only [bind_assoc, pure_bind] at hrun'
  rw [c09_bind_ok] at hrun'
  obtain ⟨headNs, s1, h1, hrun'⟩ := hrun'
  rw [c09_bind_ok] at hrun'
  obtain ⟨bodyNs, s2, h2, hrun'⟩ := hrun'
  rw [c09_pure_ok] at hrun'
  have hall := List.all_eq_true.mp hrows
  have hh := c09_visitAll_rows cfg true _
      (List.all_eq_true.mpr fun x hx => hall x (List.mem_of_mem_take hx)) s s1 headNs h1
  have hb := c09_visitAll_rows cfg false _
      (List.all_eq_true.mpr fun x hx => hall x (List.mem_of_mem_drop hx)) s1 s2 bodyNs h2
  refine ⟨prune headNs, prune bodyNs, ?_, c14_rows_kept _ _ _ hh, c14_rows_kept _ _ _ hb⟩
  rw [← hrun'.1, stripEmpty_wrapElems_fw]
  have := c14_prune_tableChildren rows headNs bodyNs hh hb
  by_cases hb0 : bodyIndex rows = 0
  · simp only [hb0, beq_self_eq_true, if_true, stripEmpty, stripList_eq] at this ⊢
  · have hbeq : (bodyIndex rows == 0) = false := by simpa using hb0
    simp only [hb0, if_false, hbeq, Bool.false_eq_true, stripEmpty, stripList_eq] at this ⊢
    rw [this]

end Mammoth
