/-
  C16, reader half — small facts used by the refinement proof: element names versus handler names, the
  summary of an element list that the table reader looks at, the abstraction of the reader's field state,
  and the results of the childless readers (symbols, breaks, images, field characters).
-/
import Proofs.C16_XmlSpec
import Proofs.C01_ReadAtoms
namespace Mammoth

/-! ### element names and handlers -/

def c16_handlerKind (h : Str) : c16_Kind :=
  if h ∈ [S!"text", S!"tab", S!"no_break_hyphen", S!"soft_hyphen", S!"note_reference:footnote",
          S!"note_reference:endnote", S!"read_comment_reference"] then .atom
  else if h = S!"symbol" then .sym else if h = S!"break_" then .br
  else if h = S!"bookmark_start" then .bookmark else if h = S!"read_fld_char" then .fldChar
  else if h = S!"read_instr_text" then .instrText else if h = S!"run" then .run
  else if h = S!"paragraph" then .paragraph else if h = S!"table" then .table
  else if h = S!"table_row" then .row else if h = S!"table_cell" then .cell
  else if h = S!"read_child_elements" then .through else if h = S!"pict" then .pict
  else if h = S!"hyperlink" then .hyperlink else if h = S!"inline" then .inline
  else if h = S!"read_imagedata" then .imagedata else if h = S!"alternate_content" then .alt
  else if h = S!"read_sdt" then .sdt
  else .unknown

theorem c16_kinds_agree :
    Generated.handlers.all (fun p => decide (c16_kindOf p.1 = c16_handlerKind p.2)) = true := by decide

theorem c16_kinds_known : c16_kinds.all (fun p => (handlerOf p.1).isSome) = true := by decide

theorem c16_kindOf_handler {name h : Str} (hh : handlerOf name = some h) : c16_kindOf name = c16_handlerKind h := by
  have hm := c05_lookupLast_mem _ _ _ hh
  have := List.all_eq_true.mp c16_kinds_agree _ hm
  simpa using this

theorem c16_kindIn_unknown (tbl : List (Str × c16_Kind)) (name : Str) :
    c16_kindIn tbl name = .unknown ∨ ∃ p ∈ tbl, p.1 = name := by
  induction tbl with
  | nil => exact Or.inl rfl
  | cons p tbl ih =>
    obtain ⟨k, v⟩ := p
    simp only [c16_kindIn]
    split
    · rename_i hk; exact Or.inr ⟨(k, v), List.mem_cons_self, hk.symm⟩
    · rcases ih with h | ⟨q, hq, hqn⟩
      · exact Or.inl h
      · exact Or.inr ⟨q, List.mem_cons_of_mem _ hq, hqn⟩

/-- a name without a handler is of kind `unknown` -/
theorem c16_kindOf_none {name : Str} (hh : handlerOf name = none) : c16_kindOf name = .unknown := by
  rcases c16_kindIn_unknown c16_kinds name with h | ⟨p, hp, hpn⟩
  · exact h
  · have := List.all_eq_true.mp c16_kinds_known p hp
    rw [hpn, hh] at this
    cases this

theorem c16_hk {name g : Str} {k : c16_Kind} (hg : handlerOf name = some g) (hk : c16_handlerKind g = k) :
    c16_kindOf name = k := (c16_kindOf_handler hg).trans hk

/-- …and conversely: the names of kind `unknown` are exactly those without a reader -/
theorem c16_kindOf_unknown_iff (name : Str) : c16_kindOf name = .unknown ↔ handlerOf name = none := by
  constructor
  · intro h
    cases hg : handlerOf name with
    | none => rfl
    | some g =>
      have hm := c05_lookupLast_mem _ _ _ hg
      have hall : Generated.handlers.all (fun p => decide (c16_kindOf p.1 ≠ .unknown)) = true := by decide
      have := List.all_eq_true.mp hall _ hm
      simp only [decide_eq_true_eq] at this
      exact absurd h this
  · exact c16_kindOf_none

/-! ### what the table reader looks at -/

/-- 0: only rows made of cells only; 1: only rows, one with a non-cell; 2: something that is not a row -/
def c16_code (es : List Elem) : Nat :=
  if !es.all isRow then 2 else if !(es.all fun r => (rowCells r).all isCell) then 1 else 0

theorem c16_code_nil : c16_code [] = 0 := rfl

theorem c16_code_append (a b : List Elem) : c16_code (a ++ b) = max (c16_code a) (c16_code b) := by
  unfold c16_code
  simp only [List.all_append]
  cases a.all isRow <;> cases b.all isRow <;>
    cases (a.all fun r => (rowCells r).all isCell) <;> cases (b.all fun r => (rowCells r).all isCell) <;> rfl

theorem c16_calculateRowSpans_msgs (rows : List Elem) : (calculateRowSpans rows).2 = c16_gridWarn (c16_code rows) := by
  unfold calculateRowSpans c16_code c16_gridWarn
  cases rows.all isRow <;> cases (rows.all fun r => (rowCells r).all isCell) <;> rfl

/-- neither a row nor a cell -/
def c16_other (e : Elem) : Bool := !isRow e && !isCell e

theorem c16_code_others (es : List Elem) (h : es.all c16_other = true) :
    c16_code es = (if es.isEmpty then 0 else 2) ∧ es.all isCell = es.isEmpty := by
  cases es with
  | nil => exact ⟨rfl, rfl⟩
  | cons e es =>
    simp only [List.all_cons, Bool.and_eq_true, c16_other, Bool.not_eq_true'] at h
    simp [c16_code, h.1.1, h.1.2]

theorem c16_code_row (hd : Bool) (cells : List Elem) :
    c16_code [.row hd cells] = (if cells.all isCell then 0 else 1) := by
  simp only [c16_code, List.all_cons, List.all_nil, isRow, rowCells, Bool.and_true, Bool.not_true]
  cases cells.all isCell <;> rfl

/-- the result `r` is summarised by `o` -/
structure c16_Sum (r : ReadResult) (o : c16_Out) : Prop where
  msgs : r.messages = o.msgs
  code : c16_code r.elements = o.code
  cells : r.elements.all isCell = o.cells

theorem c16_Sum_empty (fs : c16_FS) : c16_Sum {} (c16_skip fs) := ⟨rfl, rfl, rfl⟩

/-- messages `ms` and elements none of which is a row or a cell -/
theorem c16_Sum_emit (r : ReadResult) (ms : List Str) (elem : Bool) (fs : c16_FS)
    (hm : r.messages = ms) (ho : r.elements.all c16_other = true) (he : r.elements.isEmpty = !elem) :
    c16_Sum r (c16_emit ms elem fs) := by
  obtain ⟨h1, h2⟩ := c16_code_others _ ho
  refine ⟨hm, ?_, ?_⟩
  · rw [h1, he]; cases elem <;> rfl
  · rw [h2, he]; rfl

theorem c16_Sum_one (e : Elem) (ms : List Str) (fs : c16_FS) (ho : c16_other e = true) :
    c16_Sum { elements := [e], messages := ms } (c16_emit ms true fs) :=
  c16_Sum_emit _ ms true fs rfl (by simp [ho]) rfl

theorem c16_Sum_msg (ms : List Str) (fs : c16_FS) :
    c16_Sum { messages := ms } (c16_emit ms false fs) :=
  c16_Sum_emit _ ms false fs rfl rfl rfl

/-- one element that is neither row nor cell, with messages `pre ++` those of its content -/
theorem c16_Sum_box (e : Elem) (ex : List Elem) (pre ms : List Str) (o : c16_Out) (ho : c16_other e = true)
    (hm : ms = o.msgs) :
    c16_Sum { elements := [e], extra := ex, messages := pre ++ ms } ⟨pre ++ o.msgs, 2, false, o.fs⟩ := by
  simp only [c16_other, Bool.and_eq_true, Bool.not_eq_true'] at ho
  exact ⟨by rw [hm], by simp [c16_code, ho.1], by simp [ho.2]⟩

theorem c16_Sum_concat {a b : ReadResult} {ea eb : c16_Eff} {fs fs1 : c16_FS}
    (ha : c16_Sum a (ea fs)) (hfs : fs1 = (ea fs).fs) (hb : c16_Sum b (eb fs1)) :
    c16_Sum (a.concat b) (c16_seq ea eb fs) := by
  subst hfs
  refine ⟨?_, ?_, ?_⟩
  · simp [ReadResult.concat, c16_seq, ha.msgs, hb.msgs]
  · simp [ReadResult.concat, c16_seq, c16_code_append, ha.code, hb.code]
  · simp [ReadResult.concat, c16_seq, List.all_append, ha.cells, hb.cells]

/-! ### the field state of the reader, abstracted -/

def c16_absField : Field → Option Bool
  | .begin _ => none
  | .checkbox _ => some true
  | _ => some false

def c16_abs (st : RState) : c16_FS := ⟨st.stack.map c16_absField, st.instr⟩

theorem c16_absField_parse (instr : Str) (cs : List XmlNode) :
    c16_absField (parseInstrText instr cs) = some (c16_isCheckboxInstr instr) := by
  unfold parseInstrText c16_isCheckboxInstr
  cases matchExternalLink instr with
  | some u => rfl
  | none =>
    cases matchInternalLink instr with
    | some a => rfl
    | none =>
      cases hc : matchCheckbox instr with
      | false => simp [c16_absField]
      | true =>
        simp only [if_true, Option.isNone_none, Bool.and_self]
        split <;> rfl

theorem c16_absField_current (st : RState) (f : Field) :
    c16_absField (parseCurrentInstr st f) = some (c16_isCheckboxInstr st.instr) := by
  unfold parseCurrentInstr
  split <;> exact c16_absField_parse _ _

/-- `w:fldChar` -/
theorem c16_readFldChar (st : RState) (as : Attrs) (cs : List XmlNode) (r : ReadResult) (st' : RState)
    (h : readFldChar st as cs = .ok (r, st')) :
    c16_Sum r (c16_fldChar as (c16_abs st)) ∧ c16_abs st' = (c16_fldChar as (c16_abs st)).fs ∧
      st'.deleted = st.deleted := by
  unfold readFldChar at h
  unfold c16_fldChar
  dsimp only at h ⊢
  by_cases h1 : attr? S!"w:fldCharType" as = some S!"begin"
  · simp only [h1, beq_self_eq_true, if_true] at h ⊢
    cases h
    refine ⟨⟨?_, ?_, ?_⟩, ?_, ?_⟩ <;> first | rfl | trivial
  · have h1' : (attr? S!"w:fldCharType" as == some S!"begin") = false := by simpa using h1
    simp only [h1', h1, Bool.false_eq_true, if_false] at h ⊢
    by_cases h2 : attr? S!"w:fldCharType" as = some S!"end"
    · simp only [h2, beq_self_eq_true, if_true] at h ⊢
      cases hs : st.stack with
      | nil => rw [hs] at h; cases h
      | cons top rest =>
        rw [hs] at h
        simp only [c16_abs, hs, List.map_cons]
        cases top with
        | begin fcs =>
          simp only [c16_absField, Option.getD_none] at h ⊢
          have hp := c16_absField_current st (.begin fcs)
          cases hf : parseCurrentInstr st (.begin fcs) with
          | checkbox c =>
            rw [hf] at h hp
            simp only [c16_absField, Option.some.injEq] at hp
            cases h
            simp only [← hp, if_true]
            refine ⟨⟨?_, ?_, ?_⟩, ?_, ?_⟩ <;> first | rfl | trivial
          | begin x =>
            rw [hf] at hp; cases hp
          | hyperlink kw =>
            rw [hf] at h hp
            simp only [c16_absField, Option.some.injEq] at hp
            cases h
            simp only [← hp, Bool.false_eq_true, if_false]
            refine ⟨⟨?_, ?_, ?_⟩, ?_, ?_⟩ <;> first | rfl | trivial
          | unknown =>
            rw [hf] at h hp
            simp only [c16_absField, Option.some.injEq] at hp
            cases h
            simp only [← hp, Bool.false_eq_true, if_false]
            refine ⟨⟨?_, ?_, ?_⟩, ?_, ?_⟩ <;> first | rfl | trivial
        | checkbox c =>
          cases h
          refine ⟨⟨?_, ?_, ?_⟩, ?_, ?_⟩ <;> first | rfl | trivial
        | hyperlink kw =>
          cases h
          refine ⟨⟨?_, ?_, ?_⟩, ?_, ?_⟩ <;> first | rfl | trivial
        | unknown =>
          cases h
          refine ⟨⟨?_, ?_, ?_⟩, ?_, ?_⟩ <;> first | rfl | trivial
    · have h2' : (attr? S!"w:fldCharType" as == some S!"end") = false := by simpa using h2
      simp only [h2', h2, Bool.false_eq_true, if_false] at h ⊢
      by_cases h3 : attr? S!"w:fldCharType" as = some S!"separate"
      · simp only [h3, beq_self_eq_true, if_true] at h ⊢
        cases hs : st.stack with
        | nil => rw [hs] at h; cases h
        | cons top rest =>
          rw [hs] at h
          cases h
          simp only [c16_abs, hs, List.map_cons, c16_absField_current]
          refine ⟨⟨?_, ?_, ?_⟩, ?_, ?_⟩ <;> first | rfl | trivial
      · have h3' : (attr? S!"w:fldCharType" as == some S!"separate") = false := by simpa using h3
        simp only [h3', h3, Bool.false_eq_true, if_false] at h ⊢
        cases h
        refine ⟨⟨?_, ?_, ?_⟩, ?_, ?_⟩ <;> first | rfl | trivial

/-! ### symbols, breaks, images -/

/-- the model's lookup of the code point -/
def c16_modelCp (font : Option Str) (ch : Str) (code : Nat) : Option Nat :=
  match dingbat font code with
  | some c => some c
  | none =>
    match ch with
    | 'F' :: '0' :: a :: b :: _ =>
      if a != '\n' && b != '\n' then (parseHex (ch.drop 2)).bind (dingbat font) else none
    | _ => none

theorem c16_symLook_eq (font : Option Str) (ch : Str) (code : Nat) (hcode : parseHex ch = some code) :
    c16_symLook font ch = c16_modelCp font ch code := by
  unfold c16_symLook c16_modelCp
  dsimp only
  rw [hcode]
  simp only [Option.bind_some]
  exact c01_sym_cp _ ch code

theorem c16_symChar_eq (as : Attrs) (ch : Str) (code : Nat) (hch : attr? S!"w:char" as = some ch)
    (hcode : parseHex ch = some code) :
    c16_symChar as = c16_modelCp (attr? S!"w:font" as) ch code := by
  unfold c16_symChar
  rw [hch]
  exact c16_symLook_eq _ ch code hcode

theorem c16_readSymbol (as : Attrs) (r : ReadResult) (fs : c16_FS) (h : readSymbol as = .ok r) :
    c16_Sum r (c16_emit (c16_symWarn as) (c16_symChar as).isSome fs) := by
  unfold readSymbol at h
  dsimp only at h
  split at h
  · rename_i hch
    cases h
    have hs : c16_symChar as = none := by unfold c16_symChar; rw [hch]
    unfold c16_symWarn
    rw [hs]
    exact c16_Sum_msg _ fs
  · rename_i ch hch
    split at h
    · cases h
    · rename_i code hcode
      have hs := c16_symChar_eq as ch code hch hcode
      unfold c16_modelCp at hs
      split at h
      · rename_i c hc
        cases h
        have hs := hs.trans hc
        unfold c16_symWarn
        rw [hs]
        exact c16_Sum_one _ _ fs rfl
      · rename_i hc
        cases h
        have hs := hs.trans hc
        unfold c16_symWarn
        rw [hs]
        exact c16_Sum_msg _ fs

theorem c16_readBreak (as : Attrs) (fs : c16_FS) :
    c16_Sum (readBreak as) (c16_emit (c16_breakWarn as) (c16_breakWarn as).isEmpty fs) := by
  unfold readBreak c16_breakWarn
  cases attr? S!"w:type" as with
  | none => exact c16_Sum_one _ _ fs rfl
  | some t =>
    dsimp only
    by_cases h1 : t = []
    · subst h1; exact c16_Sum_one _ _ fs rfl
    · by_cases h2 : t = S!"textWrapping"
      · subst h2; exact c16_Sum_one _ _ fs rfl
      · by_cases h3 : t = S!"page"
        · subst h3; exact c16_Sum_one _ _ fs rfl
        · by_cases h4 : t = S!"column"
          · subst h4; exact c16_Sum_one _ _ fs rfl
          · have e1 : t.isEmpty = false := by cases t with | nil => exact absurd rfl h1 | cons _ _ => rfl
            have e2 : (t == S!"textWrapping") = false := by simpa using h2
            have e3 : (t == S!"page") = false := by simpa using h3
            have e4 : (t == S!"column") = false := by simpa using h4
            simp only [e1, e2, e3, e4, Bool.or_self, Bool.false_eq_true, if_false, h1, h2, h3, h4, or_self]
            exact c16_Sum_msg _ fs

theorem c16_readImage (env : REnv) (path : Str) (src : ImageSrc) (alt : Option Str) :
    (readImage env path src alt).messages = c16_imageWarn env path ∧
    ∃ i, (readImage env path src alt).elements = [.image i] := by
  unfold readImage c16_imageWarn
  cases findContentType env.contentTypes path with
  | none => exact ⟨rfl, _, rfl⟩
  | some c =>
    dsimp only
    by_cases hc : c ∈ Generated.browserImageTypes
    · have : Generated.browserImageTypes.contains c = true := by simpa using hc
      simp only [this, if_true, hc]
      exact ⟨rfl, _, rfl⟩
    · have : Generated.browserImageTypes.contains c = false := by simpa using hc
      simp only [this, Bool.false_eq_true, if_false, hc]
      exact ⟨rfl, _, rfl⟩

theorem c16_readEmbedded (env : REnv) (rid : Str) (alt : Option Str) (r : ReadResult)
    (h : readEmbeddedImage env rid alt = .ok r) :
    r.messages = c16_embeddedWarn env rid ∧ ∃ i, r.elements = [.image i] := by
  unfold readEmbeddedImage at h
  unfold c16_embeddedWarn
  cases ht : env.rels.targetById rid with
  | error e => rw [ht] at h; cases h
  | ok t =>
    rw [ht] at h
    simp only [bind, Except.bind, pure, Except.pure, Except.ok.injEq] at h
    rw [← h]; exact c16_readImage _ _ _ _

theorem c16_readBlip (env : REnv) (as : Attrs) (alt : Option Str) (r : ReadResult)
    (h : readBlip env as alt = .ok r) :
    r.messages = c16_blipWarn env as ∧ r.elements.all c16_other = true ∧
      r.elements.isEmpty = !c16_blipHasImage as := by
  unfold readBlip at h
  unfold c16_blipWarn c16_blipHasImage
  split at h
  · rename_i rid hrid
    rw [hrid]
    obtain ⟨h1, i, h2⟩ := c16_readEmbedded _ _ _ _ h
    exact ⟨h1, by rw [h2]; rfl, by rw [h2]; rfl⟩
  · rename_i hne
    rw [hne]
    split at h
    · rename_i rid hrid
      rw [hrid]
      cases ht : env.rels.targetById rid with
      | error e => rw [ht] at h; cases h
      | ok t =>
        rw [ht] at h
        simp only [bind, Except.bind, pure, Except.pure, Except.ok.injEq] at h
        rw [← h]
        obtain ⟨h1, i, h2⟩ := c16_readImage env t (.linked t) alt
        simp only [ht]
        exact ⟨h1, by rw [h2]; rfl, by rw [h2]; rfl⟩
    · rename_i hnl
      rw [hnl]
      cases h
      exact ⟨rfl, rfl, rfl⟩

theorem c16_isEmpty_append {α} (a b : List α) : (a ++ b).isEmpty = (a.isEmpty && b.isEmpty) := by
  cases a <;> cases b <;> rfl

theorem c16_blips_eq (cs : List XmlNode) :
    (flatChildren S!"a:blip" (flatChildren S!"pic:blipFill" (flatChildren S!"pic:pic"
      (flatChildren S!"a:graphicData" (findChildren S!"a:graphic" cs))))).map (·.1) = c16_blips cs := rfl

theorem c16_mapM_blips (env : REnv) (alt : Option Str) :
    ∀ (bl : List (Attrs × List XmlNode)) (rs : List ReadResult) (acc : ReadResult),
      bl.mapM (fun x => readBlip env x.1 alt) = .ok rs →
      (rs.foldl ReadResult.concat acc).messages = acc.messages ++ c16_blipsWarn env (bl.map (·.1)) ∧
      ((rs.foldl ReadResult.concat acc).elements.all c16_other =
        (acc.elements.all c16_other)) ∧
      ((rs.foldl ReadResult.concat acc).elements.isEmpty =
        (acc.elements.isEmpty && !(bl.map (·.1)).any c16_blipHasImage))
  | [], rs, acc, h => by
    simp only [List.mapM_nil, pure, Except.pure, Except.ok.injEq] at h
    subst h
    simp [c16_blipsWarn]
  | b :: bl, rs, acc, h => by
    rw [List.mapM_cons] at h
    obtain ⟨r1, hr1, h⟩ := c01_bind_ok h
    obtain ⟨rs1, hrs1, h⟩ := c01_bind_ok h
    simp only [pure, Except.pure, Except.ok.injEq] at h
    subst h
    obtain ⟨m1, o1, e1⟩ := c16_readBlip env b.1 alt r1 hr1
    obtain ⟨m2, o2, e2⟩ := c16_mapM_blips env alt bl rs1 (acc.concat r1) hrs1
    simp only [List.foldl_cons, List.map_cons, c16_blipsWarn, List.any_cons]
    refine ⟨?_, ?_, ?_⟩
    · rw [m2]; simp [ReadResult.concat, m1]
    · rw [o2]; simp [ReadResult.concat, List.all_append, o1]
    · rw [e2]
      simp only [ReadResult.concat, c16_isEmpty_append, e1]
      cases acc.elements.isEmpty <;> cases c16_blipHasImage b.1 <;> simp

theorem c16_readInline (env : REnv) (cs : List XmlNode) (r : ReadResult) (fs : c16_FS)
    (h : readInline env cs = .ok r) :
    c16_Sum r (c16_emit (c16_blipsWarn env (c16_blips cs)) ((c16_blips cs).any c16_blipHasImage) fs) := by
  unfold readInline at h
  dsimp only at h
  obtain ⟨rs, hrs, h⟩ := c01_bind_ok h
  simp only [pure, Except.pure, Except.ok.injEq] at h
  rw [← h, ← c16_blips_eq]
  obtain ⟨m, o, e⟩ := c16_mapM_blips env _ _ rs {} hrs
  refine c16_Sum_emit _ _ _ fs ?_ ?_ ?_
  · rw [m]; rfl
  · rw [o]; rfl
  · rw [e]; rfl

end Mammoth
