/-
  C05 — the element reader `readElem` with its recursive call abstracted: `c05_readBody env readAll`
  is, verbatim, the body of `readElem env (f+1) st (.elem name as cs)` with
  `readAll := readAllWith (readElem env f)` (see `c05_readElem_succ`, proved by `rfl`).
-/
import MammothModel.Reader
import Lean.Elab.Tactic
namespace Mammoth

open Lean Elab Tactic Meta in
/-- closes `a = b` with `Eq.refl a`, leaving the definitional-equality check to the kernel -/
elab "c05_kernel_rfl" : tactic => do
  let g ← getMainGoal
  let t ← g.getType
  let some (_, lhs, _) := t.eq? | throwError "not an equation"
  g.assign (← mkEqRefl lhs)

abbrev c05_Rd := RState → XmlNode → Except Err (ReadResult × RState)
abbrev c05_RdAll := RState → List XmlNode → Except Err (ReadResult × RState)

def c05_readBody (env : REnv) (readAll : c05_RdAll) (st : RState) (name : Str) (as : Attrs) (cs : List XmlNode) :
    Except Err (ReadResult × RState) :=
    match handlerOf name with
    | none =>
      if Generated.ignored.contains name then .ok ({}, st)
      else .ok (rrMsg (S!"An unrecognised element was ignored: " ++ name), st)
    | some h =>
      if h == S!"text" then .ok (rrElems [.text (innerTextL cs)], st)
      else if h == S!"run" then do
        let props := (findChildOrNull S!"w:rPr" cs).2
        let (style, smsgs) := readStyle props S!"w:rStyle" S!"Run" env.styles.character
        let (r, st1) ← readAll st cs
        let children := match currentHyperlink st1.stack with
          | none => r.elements
          | some kw => [.hyperlink kw r.elements]
        pure ({ elements := [.run (readRunProps props style) children], extra := r.extra,
                messages := smsgs ++ r.messages }, st1)
      else if h == S!"paragraph" then
        let props := (findChildOrNull S!"w:pPr" cs).2
        if (findChild S!"w:del" (findChildOrNull S!"w:rPr" props).2).isSome then
          .ok ({}, { st with deleted := st.deleted ++ cs })
        else do
          let (style, smsgs) := readStyle props S!"w:pStyle" S!"Paragraph" env.styles.paragraph
          let (r, st1) ← readAll { st with deleted := [] } (st.deleted ++ cs)
          let num ← readNumberingProps env style.1 (findChildOrNull S!"w:numPr" props).2
          let p : Elem := .paragraph { styleId := style.1, styleName := style.2, numbering := num } r.elements
          -- `.append_extra()`
          pure ({ elements := p :: r.extra, extra := [], messages := smsgs ++ r.messages }, st1)
      else if h == S!"read_fld_char" then readFldChar st as cs
      else if h == S!"read_instr_text" then .ok ({}, { st with instr := st.instr ++ innerTextL cs })
      else if h == S!"tab" then .ok (rrElems [.tab], st)
      else if h == S!"no_break_hyphen" then .ok (rrElems [.text [Char.ofNat 0x2011]], st)
      else if h == S!"soft_hyphen" then .ok (rrElems [.text [Char.ofNat 0xAD]], st)
      else if h == S!"symbol" then (readSymbol as).map (·, st)
      else if h == S!"table" then do
        let props := (findChildOrNull S!"w:tblPr" cs).2
        let (style, smsgs) := readStyle props S!"w:tblStyle" S!"Table" env.styles.table
        let (r, st1) ← readAll st cs
        let (rows, rmsgs) := calculateRowSpans r.elements
        pure ({ elements := [.table style.1 style.2 rows], extra := r.extra,
                messages := smsgs ++ (r.messages ++ rmsgs) }, st1)
      else if h == S!"table_row" then do
        let props := (findChildOrNull S!"w:trPr" cs).2
        let isHeader := (findChild S!"w:tblHeader" props).isSome
        let (r, st1) ← readAll st cs
        pure ({ r with elements := [.row isHeader r.elements] }, st1)
      else if h == S!"table_cell" then do
        let props := (findChildOrNull S!"w:tcPr" cs).2
        let colspan ← match childAttr S!"w:gridSpan" S!"w:val" props with
          | none => pure 1
          | some g => match parseDec g with
            | some n => pure n
            | none => throw (.value g)
        let (r, st1) ← readAll st cs
        pure ({ r with elements := [.cell colspan 1 (readVmerge props) r.elements] }, st1)
      else if h == S!"read_child_elements" then readAll st cs
      else if h == S!"pict" then do
        let (r, st1) ← readAll st cs
        -- `.to_extra()`
        pure ({ elements := [], extra := r.extra ++ r.elements, messages := r.messages }, st1)
      else if h == S!"hyperlink" then do
        let anchor := attr? S!"w:anchor" as
        let tf := match attr? S!"w:tgtFrame" as with
          | some t => if t.isEmpty then none else some t
          | none => none
        -- `children_result` is computed before the relationship lookup
        let (r, st1) ← readAll st cs
        match attr? S!"r:id" as with
        | some rid => do
          let href ← env.rels.targetById rid
          let href := match anchor with | some a => replaceFragment href a | none => href
          pure ({ r with elements := [.hyperlink { href := some href, targetFrame := tf } r.elements] }, st1)
        | none =>
          match anchor with
          | some a => pure ({ r with elements := [.hyperlink { anchor := some a, targetFrame := tf } r.elements] }, st1)
          | none => pure (r, st1)
      else if h == S!"bookmark_start" then
        let name := attr? S!"w:name" as
        if name == some S!"_GoBack" then .ok ({}, st) else .ok (rrElems [.bookmark name], st)
      else if h == S!"break_" then .ok (readBreak as, st)
      else if h == S!"inline" then (readInline env cs).map (·, st)
      else if h == S!"read_imagedata" then
        match attr? S!"r:id" as with
        | none => .ok (rrMsg S!"A v:imagedata element without a relationship ID was ignored", st)
        | some rid => (readEmbeddedImage env rid (attr? S!"o:title" as)).map (·, st)
      else if h == S!"note_reference:footnote" || h == S!"note_reference:endnote" then
        match attr? S!"w:id" as with
        | none => .error (.key S!"w:id")
        | some id => .ok (rrElems [.noteRef (h.drop 15) id], st)
      else if h == S!"read_comment_reference" then
        match attr? S!"w:id" as with
        | none => .error (.key S!"w:id")
        | some id => .ok (rrElems [.commentRef id], st)
      else if h == S!"alternate_content" then
        readAll st (findChildOrNull S!"mc:Fallback" cs).2
      else if h == S!"read_sdt" then
        match findChild S!"wordml:checkbox" (findChildOrNull S!"w:sdtPr" cs).2 with
        | some (_, cbcs) =>
          let checked := match findChild S!"wordml:checked" cbcs with
            | some (cas, _) => readBoolAttr (attr? S!"wordml:val" cas)
            | none => false
          .ok (rrElems [.checkbox checked], st)
        | none => readAll st (findChildOrNull S!"w:sdtContent" cs).2
      else .error (.attr (S!"unmodelled handler " ++ h))

theorem c05_readElem_text (env : REnv) (f : Nat) (st : RState) (s : Str) :
    readElem env f st (.text s) = .ok ({}, st) := by
  cases f <;> rfl

theorem c05_readElem_zero (env : REnv) (st : RState) (n : Str) (a : Attrs) (c : List XmlNode) :
    readElem env 0 st (.elem n a c) = .error .fuel := rfl

theorem c05_readElem_succ (env : REnv) (f : Nat) (st : RState) (name : Str) (as : Attrs) (cs : List XmlNode) :
    readElem env (f+1) st (.elem name as cs) = c05_readBody env (readAllWith (readElem env f)) st name as cs := by
  c05_kernel_rfl

end Mammoth
