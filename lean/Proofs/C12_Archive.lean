/-
  C12 helpers: `unique`, last-wins lookup and the in-memory rebuild `updateZip`.
-/
import MammothModel.Embed
namespace Mammoth

theorem c12_mem_uniqueAux (x : Str) (seen xs : List Str) :
    x ∈ uniqueAux seen xs ↔ x ∈ xs ∧ x ∉ seen := by
  induction xs generalizing seen with
  | nil => simp [uniqueAux]
  | cons y ys ih =>
    unfold uniqueAux
    by_cases hy : y ∈ seen
    · simp only [hy, if_true, ih, List.mem_cons]
      constructor
      · rintro ⟨h1, h2⟩; exact ⟨Or.inr h1, h2⟩
      · rintro ⟨h1 | h1, h2⟩
        · subst h1; exact absurd hy h2
        · exact ⟨h1, h2⟩
    · simp only [hy, if_false, List.mem_cons, ih]
      constructor
      · rintro (h | ⟨h1, h2⟩)
        · subst h; exact ⟨Or.inl rfl, hy⟩
        · exact ⟨Or.inr h1, fun h => h2 (Or.inr h)⟩
      · rintro ⟨h1 | h1, h2⟩
        · exact Or.inl h1
        · by_cases hxy : x = y
          · exact Or.inl hxy
          · exact Or.inr ⟨h1, fun h => h.elim hxy h2⟩

theorem c12_mem_unique (x : Str) (xs : List Str) : x ∈ unique xs ↔ x ∈ xs := by
  simp [unique, c12_mem_uniqueAux]

theorem c12_strsNodup_cons (x : Str) (xs : List Str) :
    strsNodup (x :: xs) = true ↔ x ∉ xs ∧ strsNodup xs = true := by
  simp [strsNodup]

theorem c12_nodup_uniqueAux (seen xs : List Str) : strsNodup (uniqueAux seen xs) = true := by
  induction xs generalizing seen with
  | nil => simp [uniqueAux, strsNodup]
  | cons y ys ih =>
    unfold uniqueAux
    by_cases hy : y ∈ seen
    · simp only [hy, if_true]; exact ih seen
    · simp only [hy, if_false]
      rw [c12_strsNodup_cons]
      refine ⟨?_, ih _⟩
      rw [c12_mem_uniqueAux]
      intro h; exact h.2 (List.mem_cons_self ..)

theorem c12_nodup_unique (xs : List Str) : strsNodup (unique xs) = true :=
  c12_nodup_uniqueAux [] xs

/-- last-wins lookup in a list whose values are a function of the key -/
theorem c12_lookupLast_map {β} (f : Str → β) (ns : List Str) (n : Str) :
    lookupLast n (ns.map fun m => (m, f m)) = if n ∈ ns then some (f n) else none := by
  induction ns with
  | nil => simp [lookupLast]
  | cons m ms ih =>
    simp only [List.map_cons, lookupLast, ih, List.mem_cons]
    by_cases h : n ∈ ms
    · simp [h]
    · by_cases h2 : n = m
      · subst h2; simp [h]
      · simp [h, h2]

theorem c12_lookupLast_isSome {β} (n : Str) (a : List (Str × β)) :
    (lookupLast n a).isSome = true ↔ n ∈ a.map (·.1) := by
  induction a with
  | nil => simp [lookupLast]
  | cons kv rest ih =>
    obtain ⟨k, v⟩ := kv
    simp only [lookupLast, List.map_cons, List.mem_cons]
    cases h : lookupLast n rest with
    | some w =>
      have : n ∈ rest.map (·.1) := ih.mp (by simp [h])
      simp [this]
    | none =>
      have : n ∉ rest.map (·.1) := fun hm => by simpa [h] using ih.mpr hm
      by_cases hk : n = k <;> simp [hk, this]

theorem c12_lookupLast_none {β} (n : Str) (a : List (Str × β)) :
    lookupLast n a = none ↔ n ∉ a.map (·.1) := by
  rw [← c12_lookupLast_isSome]
  cases lookupLast n a <;> simp

/-- names of the rebuilt archive: the union, each once -/
theorem c12_updateZip_names_mem (a : Archive) (files : List (Str × Bytes)) (n : Str) :
    n ∈ (updateZip a files).names ↔ n ∈ a.names ∨ n ∈ files.map (·.1) := by
  simp only [updateZip, Archive.names, List.map_map]
  have : ((fun x : Str × Bytes => x.1) ∘ fun n => (n, updateZipContent a files n)) = id := by
    funext x; rfl
  rw [this, List.map_id, c12_mem_unique, List.mem_append]

theorem c12_updateZip_names (a : Archive) (files : List (Str × Bytes)) :
    (updateZip a files).names = unique (a.names ++ files.map (·.1)) := by
  simp only [updateZip, Archive.names, List.map_map]
  have : ((fun x : Str × Bytes => x.1) ∘ fun n => (n, updateZipContent a files n)) = id := by
    funext x; rfl
  rw [this, List.map_id]

theorem c12_updateZip_unique (a : Archive) (files : List (Str × Bytes)) :
    (updateZip a files).uniqueNames = true := by
  rw [Archive.uniqueNames, c12_updateZip_names]; exact c12_nodup_unique _

/-- content of the rebuilt archive: `files` wins, otherwise the old content, otherwise absent -/
theorem c12_updateZip_get (a : Archive) (files : List (Str × Bytes)) (n : Str) :
    (updateZip a files).get? n =
      match lookupLast n files with
      | some b => some b
      | none => a.get? n := by
  unfold updateZip Archive.get?
  rw [c12_lookupLast_map (updateZipContent a files)]
  unfold updateZipContent
  cases hf : lookupLast n files with
  | some b =>
    have : n ∈ files.map (·.1) := (c12_lookupLast_isSome n files).mp (by simp [hf])
    simp [c12_mem_unique, this]
  | none =>
    have hnf : n ∉ files.map (·.1) := (c12_lookupLast_none n files).mp hf
    cases ha : lookupLast n a with
    | some b =>
      have : n ∈ a.names := (c12_lookupLast_isSome n a).mp (by simp [ha])
      simp [c12_mem_unique, this, Archive.get?, ha]
    | none =>
      have : n ∉ a.names := (c12_lookupLast_none n a).mp ha
      simp only [c12_mem_unique, List.mem_append, this, false_or]
      rw [if_neg hnf]

end Mammoth
