/-
  C04 — the literal (fuelled) transcription of the Python algorithm (`collapseAllPy`, `addPy`,
  `collapseNodePy`: re-collapses the children of the already collapsed node while merging) computes
  the same forest as the structural `collapse` as soon as the fuel exceeds three times the nesting
  depth.  The one place where the two differ — `addPy` calls `collapseAllPy` on the collapsed
  children where `addC` calls `addAllC` — is bridged by idempotence (`collapseNode_of_stable`).
-/
import Proofs.Stable
namespace Mammoth

/-! ### nesting depth -/
mutual
/-- nesting depth of a node: text and force-write markers have depth 0, an element one more than its
    deepest child -/
def nodeDepth : Node → Nat
  | .elem _ cs => nodeDepthL cs + 1
  | _ => 0
def nodeDepthL : List Node → Nat
  | [] => 0
  | c :: cs => max (nodeDepth c) (nodeDepthL cs)
end

@[simp] theorem nodeDepthL_nil : nodeDepthL [] = 0 := by simp [nodeDepthL]
@[simp] theorem nodeDepthL_cons (c : Node) (cs : List Node) :
    nodeDepthL (c :: cs) = max (nodeDepth c) (nodeDepthL cs) := by simp [nodeDepthL]
@[simp] theorem nodeDepth_text (s : Str) : nodeDepth (.text s) = 0 := by simp [nodeDepth]
@[simp] theorem nodeDepth_fw : nodeDepth .forceWrite = 0 := by simp [nodeDepth]
@[simp] theorem nodeDepth_elem (t : Tag) (cs : List Node) : nodeDepth (.elem t cs) = nodeDepthL cs + 1 := by
  simp [nodeDepth]

theorem nodeDepthL_append (a b : List Node) : nodeDepthL (a ++ b) = max (nodeDepthL a) (nodeDepthL b) := by
  induction a with
  | nil => simp
  | cons x xs ih => simp [ih, Nat.max_assoc]

theorem nodeDepthL_sepText (t : Tag) : nodeDepthL (sepText t) = 0 := by
  unfold sepText
  split
  · split <;> simp
  · simp

/-! ### merging never deepens the forest -/
mutual
theorem nodeDepthL_addC (acc : List Node) (n : Node) :
    nodeDepthL (addC acc n) ≤ max (nodeDepthL acc) (nodeDepth n) := by
  match n with
  | .text s => simp [addC_text, nodeDepthL_append]
  | .forceWrite => simp [addC_fw, nodeDepthL_append]
  | .elem t cs =>
    unfold addC
    split
    · rename_i lt lcs hl
      split
      · have hacc := getLast?_eq_some_append acc _ hl
        have ih := nodeDepthL_addAllC (lcs ++ sepText t) cs
        rw [nodeDepthL_append, nodeDepthL_sepText] at ih
        have e : nodeDepthL acc = max (nodeDepthL acc.dropLast) (nodeDepthL lcs + 1) := by
          conv => lhs; rw [hacc]
          simp [nodeDepthL_append]
        rw [e]
        simp only [nodeDepthL_append, nodeDepthL_cons, nodeDepth_elem, nodeDepthL_nil]
        omega
      · simp [nodeDepthL_append]
    · simp [nodeDepthL_append]
theorem nodeDepthL_addAllC (acc ns : List Node) :
    nodeDepthL (addAllC acc ns) ≤ max (nodeDepthL acc) (nodeDepthL ns) := by
  match ns with
  | [] => simp
  | c :: cs =>
    have h1 := nodeDepthL_addAllC (addC acc c) cs
    have h2 := nodeDepthL_addC acc c
    simp only [addAllC_cons, nodeDepthL_cons]
    omega
end

mutual
theorem nodeDepth_collapseNode (n : Node) : nodeDepth (collapseNode n) ≤ nodeDepth n := by
  match n with
  | .text s => simp [collapseNode]
  | .forceWrite => simp [collapseNode]
  | .elem t cs =>
    have := nodeDepthL_collapseFrom [] cs
    simp only [collapseNode, nodeDepth_elem]
    simp only [nodeDepthL_nil] at this
    omega
theorem nodeDepthL_collapseFrom (acc ns : List Node) :
    nodeDepthL (collapseFrom acc ns) ≤ max (nodeDepthL acc) (nodeDepthL ns) := by
  match ns with
  | [] => simp [collapseFrom]
  | c :: cs =>
    unfold collapseFrom
    have h1 := nodeDepthL_collapseFrom (addC acc (collapseNode c)) cs
    have h2 := nodeDepthL_addC acc (collapseNode c)
    have h3 := nodeDepth_collapseNode c
    simp only [nodeDepthL_cons]
    omega
end

/-! ### on collapsed children, collapsing again is just adding (idempotence at work) -/
theorem collapseFrom_eq_addAllC_of_stable : ∀ (acc cs : List Node), stableL cs = true →
    collapseFrom acc cs = addAllC acc cs
  | acc, [], _ => by simp [collapseFrom]
  | acc, c :: cs, h => by
    rw [stableL_cons_eq] at h
    simp only [Bool.and_eq_true] at h
    unfold collapseFrom
    rw [collapseNode_of_stable c h.1.1, addAllC_cons]
    exact collapseFrom_eq_addAllC_of_stable (addC acc c) cs h.2

/-! ### the literal algorithm -/

/-- a forest of depth 0 consists of text nodes and markers only: nothing merges -/
theorem collapseFrom_depth0 : ∀ (acc ns : List Node), nodeDepthL ns = 0 → collapseFrom acc ns = acc ++ ns
  | acc, [], _ => by simp [collapseFrom]
  | acc, .text s :: cs, h => by
    simp only [nodeDepthL_cons, nodeDepth_text] at h
    unfold collapseFrom
    simp only [collapseNode]
    rw [addC_text, collapseFrom_depth0 _ cs (by omega)]; simp
  | acc, .forceWrite :: cs, h => by
    simp only [nodeDepthL_cons, nodeDepth_fw] at h
    unfold collapseFrom
    simp only [collapseNode]
    rw [addC_fw, collapseFrom_depth0 _ cs (by omega)]; simp
  | acc, .elem t cs' :: cs, h => by
    simp only [nodeDepthL_cons, nodeDepth_elem] at h; omega

/-- the statement for one fuel value: fuel `F` is enough for forests of depth `d` when `3 * d ≤ F + 1`
    (any fuel for depth 0, `3 * d - 1` otherwise; this is sharp, see the examples in Properties/C04) -/
def PyAgrees (F : Nat) : Prop :=
  ∀ (acc ns : List Node), 3 * nodeDepthL ns ≤ F + 1 → collapseAllPy F acc ns = collapseFrom acc ns

theorem collapseNodePy_of (f : Nat) (ih : ∀ g, g < f → PyAgrees g) (n : Node)
    (h : 3 * nodeDepth n ≤ f + 3) : collapseNodePy f n = collapseNode n := by
  match f, n with
  | 0, .text s => simp [collapseNodePy, collapseNode]
  | 0, .forceWrite => simp [collapseNodePy, collapseNode]
  | 0, .elem t cs =>
    simp only [nodeDepth_elem] at h
    simp only [collapseNodePy, collapseNode]
    rw [collapseFrom_depth0 [] cs (by omega)]; simp
  | g+1, .text s => simp [collapseNodePy, collapseNode]
  | g+1, .forceWrite => simp [collapseNodePy, collapseNode]
  | g+1, .elem t cs =>
    simp only [nodeDepth_elem] at h
    simp only [collapseNodePy, collapseNode]
    rw [ih g (by omega) [] cs (by omega)]

theorem addPy_of (F : Nat) (ih : ∀ g, g < F → PyAgrees g) (acc : List Node) (n : Node)
    (h : 3 * nodeDepth n ≤ F + 2) : addPy F acc n = addC acc (collapseNode n) := by
  match F, n with
  | 0, .text s => simp [addPy, collapseNode, addC_text]
  | 0, .forceWrite => simp [addPy, collapseNode, addC_fw]
  | 0, .elem t cs => simp only [nodeDepth_elem] at h; omega
  | f+1, .text s => simp [addPy, collapseNodePy_of f (fun g hg => ih g (by omega)) (.text s) (by simp), collapseNode, addC_text]
  | f+1, .forceWrite => simp [addPy, collapseNodePy_of f (fun g hg => ih g (by omega)) .forceWrite (by simp), collapseNode, addC_fw]
  | f+1, .elem t cs =>
    simp only [nodeDepth_elem] at h
    have hn := collapseNodePy_of f (fun g hg => ih g (by omega)) (.elem t cs) (by simp only [nodeDepth_elem]; omega)
    have hst : stableL (collapseFrom [] cs) = true := stableL_collapseFrom [] cs (by simp [stableL])
    have hd : nodeDepthL (collapseFrom [] cs) ≤ nodeDepthL cs := by
      have := nodeDepthL_collapseFrom [] cs
      simpa using this
    unfold addPy
    rw [hn]
    simp only [collapseNode]
    unfold addC
    split
    · rename_i lt lcs hl
      split
      · rw [ih f (by omega) _ _ (by omega), collapseFrom_eq_addAllC_of_stable _ _ hst]
      · rfl
    · rfl

theorem pyAgrees_all (F : Nat) : PyAgrees F := by
  induction F using Nat.strongRecOn with
  | _ F ih =>
    intro acc ns
    induction ns generalizing acc with
    | nil =>
      intro _
      cases F <;> simp [collapseAllPy, collapseFrom]
    | cons c cs ihl =>
      intro h
      match F, ih, ihl with
      | 0, _, _ =>
        simp only [collapseAllPy]
        rw [collapseFrom_depth0 acc (c :: cs) (by omega)]
      | f+1, ih, ihl =>
        simp only [nodeDepthL_cons] at h
        simp only [collapseAllPy, collapseFrom]
        rw [addPy_of f (fun g hg => ih g (by omega)) acc c (by omega)]
        exact ihl _ (by omega)

/-- the literal list algorithm agrees with the structural one for every accumulator -/
theorem collapseAllPy_eq (F : Nat) (acc ns : List Node) (h : 3 * nodeDepthL ns ≤ F + 1) :
    collapseAllPy F acc ns = collapseFrom acc ns := pyAgrees_all F acc ns h

/-- `_collapse_node` -/
theorem collapseNodePy_eq (F : Nat) (n : Node) (h : 3 * nodeDepth n ≤ F + 3) :
    collapseNodePy F n = collapseNode n :=
  collapseNodePy_of F (fun g _ => pyAgrees_all g) n h

/-- `_collapsing_add` -/
theorem addPy_eq (F : Nat) (acc : List Node) (n : Node) (h : 3 * nodeDepth n ≤ F + 2) :
    addPy F acc n = addC acc (collapseNode n) :=
  addPy_of F (fun g _ => pyAgrees_all g) acc n h

end Mammoth
