/-
  C14 — the converter's visitor refines the weight specification `c14_weight` (Proofs/C14_Weight.lean):
  whatever a successful `visit` returns for a document element has exactly the specified fate under
  `strip_empty`.
-/
import Proofs.C14_Weight
namespace Mammoth

theorem c14_hasW_convertImage (cfg : Cfg) (i : ImageProps) :
    c14_hasW (convertImage cfg i) (if c14_imageShown cfg i then .full else .none) := by
  intro st ns st' h
  unfold convertImage at h
  rw [c01_bind_run, c01_modify_run] at h
  simp only [] at h
  unfold c14_imageShown
  cases hc : cfg.imageConv with
  | dataUri =>
    simp only [hc] at h ⊢
    rw [c01_bind_run] at h
    cases ho : openImage cfg i.src { st with imageCalls := st.imageCalls ++ [i] } with
    | error e => simp [ho] at h
    | ok p =>
      obtain ⟨r, s1⟩ := p
      have hr := c14_openImage cfg i.src _ r s1 ho
      simp only [ho] at h
      cases r with
      | ok bytes =>
        simp only [c01_pure_run, Except.ok.injEq, Prod.mk.injEq] at h
        rw [← h.1, c14_weightOf_img, ← hr]; rfl
      | error msg =>
        simp only [] at h
        rw [c01_bind_run] at h
        simp only [warn, c01_modify_run, c01_pure_run, Except.ok.injEq, Prod.mk.injEq] at h
        rw [← h.1, ← hr]; rfl
  | fixed attrs opens =>
    simp only [hc] at h ⊢
    cases opens with
    | false =>
      simp only [Bool.false_eq_true, if_false, c01_pure_run, Except.ok.injEq, Prod.mk.injEq] at h
      rw [← h.1, c14_weightOf_img]; rfl
    | true =>
      simp only [if_true] at h
      rw [c01_bind_run] at h
      cases ho : openImage cfg i.src { st with imageCalls := st.imageCalls ++ [i] } with
      | error e => simp [ho] at h
      | ok p =>
        obtain ⟨r, s1⟩ := p
        have hr := c14_openImage cfg i.src _ r s1 ho
        simp only [ho] at h
        cases r with
        | ok bytes =>
          simp only [c01_pure_run, Except.ok.injEq, Prod.mk.injEq] at h
          rw [← h.1, c14_weightOf_img, ← hr]; rfl
        | error msg =>
          simp only [] at h
          rw [c01_bind_run] at h
          simp only [warn, c01_modify_run, c01_pure_run, Except.ok.injEq, Prod.mk.injEq] at h
          rw [← h.1, ← hr]; rfl

/-- below a `!` the content does not matter -/
theorem c14_wrapAll_ignore (paths : List HtmlPath) (h : paths.any HtmlPath.isIgnore = true)
    (w v : Weight) : w.wrapAll paths = v.wrapAll paths := by
  induction paths generalizing w v with
  | nil => simp at h
  | cons p ps ih =>
    cases p with
    | ignore => rfl
    | elements es =>
      have h' : ps.any HtmlPath.isIgnore = true := by simpa [HtmlPath.isIgnore] using h
      exact ih h' _ _

theorem c14_weightOf_text (s : Str) : weightOf [.text s] = if s.isEmpty then .hollow else .full := by
  cases s <;> simp [weightOf, anyContent, hasContent]

theorem c14_wrap1_nonvoid (t : Tag) (w : Weight) (h : voidTag t = false) :
    w.wrap1 t = if w = .full then .full else .hollow := by
  cases w <;> simp [Weight.wrap1, h]

mutual
theorem c14_weight_visit (cfg : Cfg) (hdr : Bool) (e : Elem) :
    c14_hasW (visit cfg hdr e) (c14_weight cfg e) := by
  match e with
  | .paragraph p cs =>
    intro st ns st' h
    simp only [visit] at h
    rw [c01_bind_run, c01_findPathWarn_run] at h
    simp only [] at h
    simp only [c14_weight]
    cases hp : c01_path cfg (.paragraph p) (.elements [pathElem S!"p" true]) with
    | ignore =>
      simp only [hp, c01_pure_run, Except.ok.injEq, Prod.mk.injEq] at h
      rw [← h.1]; rfl
    | elements es =>
      simp only [hp] at h ⊢
      have ih := c14_weight_visitAll cfg hdr cs
      cases hi : cfg.ignoreEmpty with
      | true =>
        simp only [hi, if_true] at h ⊢
        exact c14_hasW_map _ (fun c => wrapElems es c) (fun w => w.wrap es) _ ih
          (fun c => weightOf_wrapElems es c) _ ns st' h
      | false =>
        simp only [hi, Bool.false_eq_true, if_false] at h ⊢
        have := c14_hasW_map _ (fun c => wrapElems es (.forceWrite :: c)) (fun _ => Weight.full.wrap es) _ ih
          (fun c => by rw [weightOf_wrapElems, weightOf_cons_fw]) _ ns st' h
        exact this
  | .run r cs =>
    intro st ns st' h
    simp only [visit] at h
    rw [c01_bind_run, c01_findPathWarn_run] at h
    simp only [] at h
    rw [← c01_runPaths] at h
    simp only [c14_weight]
    have ih := c14_weight_visitAll cfg hdr cs
    split at h
    · rename_i hany
      simp only [c01_pure_run, Except.ok.injEq, Prod.mk.injEq] at h
      rw [← h.1, weightOf_wrapAll, weightOf_nil]
      exact (c14_wrapAll_ignore _ hany _ _)
    · exact c14_hasW_map _ (fun c => wrapAll (c01_runPaths cfg r) c)
        (fun w => w.wrapAll (c01_runPaths cfg r)) _ ih (fun c => weightOf_wrapAll _ c) _ ns st' h
  | .text s =>
    intro st ns st' h
    simp only [visit, c01_pure_run, Except.ok.injEq, Prod.mk.injEq] at h
    rw [← h.1, c14_weightOf_text]; rfl
  | .hyperlink l cs =>
    intro st ns st' h
    simp only [visit] at h
    simp only [c14_weight]
    have ih := c14_weight_visitAll cfg hdr cs
    have := c14_hasW_map _ (fun c => [cel S!"a" ([(S!"href", match l.anchor with
        | none => pyOpt l.href
        | some a => ['#'] ++ htmlId cfg a)] ++
        (match l.targetFrame with | some t => [(S!"target", t)] | none => [])) c])
      (fun w => if w = .full then .full else .hollow) _ ih
      (fun c => by
        simp only [cel, weightOf_single_elem]
        exact c14_wrap1_nonvoid _ _ (by rfl)) _ ns st' h
    exact this
  | .checkbox c =>
    intro st ns st' h
    simp only [visit, c01_pure_run, Except.ok.injEq, Prod.mk.injEq] at h
    rw [← h.1]
    simp only [el, weightOf_single_elem, weightOf_nil, c14_weight]
    rfl
  | .table sid sname rows =>
    intro st ns st' h
    simp only [visit] at h
    rw [← c01_path] at h
    simp only [c14_weight]
    cases hp : c01_path cfg (.table sid sname) (.elements [pathElem S!"table" true]) with
    | ignore =>
      simp only [hp, c01_pure_run, Except.ok.injEq, Prod.mk.injEq] at h
      rw [← h.1]; rfl
    | elements es =>
      simp only [hp] at h ⊢
      rw [c01_bind_run] at h
      cases hv : visitRows cfg true rows st with
      | error err => simp [hv] at h
      | ok q =>
        obtain ⟨⟨hd, bd⟩, st1⟩ := q
        simp only [hv, c01_pure_run, Except.ok.injEq, Prod.mk.injEq] at h
        rw [← h.1, weightOf_wrapElems, weightOf_cons_fw, Weight.wrap_full]
  | .row hh cells =>
    intro st ns st' h
    simp only [visit] at h
    rw [c01_bind_run] at h
    cases hv : visitAll cfg hdr cells st with
    | error err => simp [hv] at h
    | ok q =>
      obtain ⟨c, st1⟩ := q
      simp only [hv, c01_pure_run, Except.ok.injEq, Prod.mk.injEq] at h
      rw [← h.1]
      simp only [el, weightOf_single_elem, weightOf_cons_fw, c14_weight, Weight.wrap1]
  | .cell a b vm cs =>
    intro st ns st' h
    simp only [visit] at h
    rw [c01_bind_run] at h
    cases hv : visitAll cfg hdr cs st with
    | error err => simp [hv] at h
    | ok q =>
      obtain ⟨c, st1⟩ := q
      simp only [hv, c01_pure_run, Except.ok.injEq, Prod.mk.injEq] at h
      rw [← h.1]
      simp only [el, weightOf_single_elem, weightOf_cons_fw, c14_weight, Weight.wrap1]
  | .brk ty =>
    intro st ns st' h
    simp only [visit] at h
    simp only [c14_weight]
    cases hf : findPath cfg (.brk ty) with
    | none =>
      simp only [hf] at h ⊢
      by_cases hl : ty = S!"line"
      · simp only [hl, beq_self_eq_true, if_true, c01_pure_run, Except.ok.injEq, Prod.mk.injEq] at h
        rw [← h.1]
        simp only [hl, if_true, weightOf_single_elem, weightOf_nil]
        rfl
      · have hb : (ty == S!"line") = false := by simpa using hl
        simp only [hb, Bool.false_eq_true, if_false, c01_pure_run, Except.ok.injEq, Prod.mk.injEq] at h
        rw [← h.1]; simp [hl]
    | some p =>
      cases p with
      | ignore =>
        simp only [hf, c01_pure_run, Except.ok.injEq, Prod.mk.injEq] at h ⊢
        rw [← h.1]; rfl
      | elements es =>
        simp only [hf, c01_pure_run, Except.ok.injEq, Prod.mk.injEq] at h ⊢
        rw [← h.1, weightOf_wrapElems, weightOf_nil]
  | .tab =>
    intro st ns st' h
    simp only [visit, c01_pure_run, Except.ok.injEq, Prod.mk.injEq] at h
    rw [← h.1]; rfl
  | .image i =>
    simp only [visit, c14_weight]
    exact c14_hasW_convertImage cfg i
  | .bookmark n =>
    intro st ns st' h
    simp only [visit, c01_pure_run, Except.ok.injEq, Prod.mk.injEq] at h
    rw [← h.1]
    simp only [cel, weightOf_single_elem, weightOf_cons_fw, c14_weight, Weight.wrap1]
  | .noteRef ty id =>
    intro st ns st' h
    simp only [visit] at h
    rw [c01_bind_run, c01_modify_run] at h
    simp only [] at h
    rw [c01_bind_run, c01_get_run] at h
    simp only [c01_pure_run, Except.ok.injEq, Prod.mk.injEq] at h
    rw [← h.1]
    simp [el, weightOf, anyContent, hasContent, isVoid, c14_weight]
  | .commentRef id =>
    intro st ns st' h
    simp only [visit] at h
    simp only [c14_weight]
    cases hf : findPath cfg .commentReference with
    | none =>
      simp only [hf, c01_pure_run, Except.ok.injEq, Prod.mk.injEq] at h ⊢
      rw [← h.1]; rfl
    | some p =>
      cases p with
      | ignore =>
        simp only [hf, c01_pure_run, Except.ok.injEq, Prod.mk.injEq] at h ⊢
        rw [← h.1]; rfl
      | elements es =>
        simp only [hf] at h ⊢
        cases hl : lookupLast id (List.map (fun c => (c.id, c)) cfg.comments) with
        | none => simp [hl] at h
        | some c =>
          simp only [hl] at h
          rw [c01_bind_run, c01_get_run] at h
          simp only [] at h
          rw [c01_bind_run, c01_modify_run] at h
          simp only [c01_pure_run, Except.ok.injEq, Prod.mk.injEq] at h
          rw [← h.1, weightOf_wrapElems]
          have : weightOf [el S!"a" [(S!"href", ['#'] ++ referentId cfg S!"comment" id),
              (S!"id", referenceId cfg S!"comment" id)]
              [.text (['['] ++ commentAuthorLabel c ++ natToStr (st.refComments.length + 1) ++ [']'])]] = .full := by
            simp [el, weightOf, anyContent, hasContent]
          rw [this, Weight.wrap_full]
theorem c14_weight_visitAll (cfg : Cfg) (hdr : Bool) (es : List Elem) :
    c14_hasW (visitAll cfg hdr es) (c14_weightL cfg es) := by
  match es with
  | [] =>
    simp only [visitAll, c14_weightL]
    exact c14_hasW_pure _ _ weightOf_nil
  | e :: es =>
    simp only [visitAll, c14_weightL]
    exact c14_hasW_append _ _ _ _ (c14_weight_visit cfg hdr e) (c14_weight_visitAll cfg hdr es)
end

end Mammoth
