/-
  C13 helpers, part 1: the DOM → XmlNode conversion (`MammothModel/Dom.lean`).
-/
import MammothModel.Dom
namespace Mammoth

/-! ### basic equations -/

@[simp] theorem c13_convertNodes_nil (T : List (Str × Str)) : convertNodes T [] = [] := by
  simp [convertNodes]

theorem c13_convertNodes_cons (T : List (Str × Str)) (c : DomNode) (cs : List DomNode) :
    convertNodes T (c :: cs) = (convertNode T c).toList ++ convertNodes T cs := by
  rw [convertNodes]
  cases convertNode T c <;> simp

theorem c13_convertNodes_append (T : List (Str × Str)) (a b : List DomNode) :
    convertNodes T (a ++ b) = convertNodes T a ++ convertNodes T b := by
  induction a with
  | nil => simp
  | cons x xs ih => simp [c13_convertNodes_cons, ih]

@[simp] theorem c13_convertNode_elem (T : List (Str × Str)) ns l as cs :
    convertNode T (.elem ns l as cs) = some (.elem (convertName T ns l) (convertAttrs T as) (convertNodes T cs)) := by
  simp [convertNode]
@[simp] theorem c13_convertNode_text (T : List (Str × Str)) s : convertNode T (.text s) = some (.text s) := by
  simp [convertNode]
@[simp] theorem c13_convertNode_cdata (T : List (Str × Str)) s : convertNode T (.cdata s) = some (.text s) := by
  simp [convertNode]
@[simp] theorem c13_convertNode_comment (T : List (Str × Str)) s : convertNode T (.comment s) = none := by
  simp [convertNode]
@[simp] theorem c13_convertNode_pi (T : List (Str × Str)) t d : convertNode T (.pi t d) = none := by
  simp [convertNode]

/-! ### a DOM that still carries prefixes -/

/-- an attribute as minidom really stores it: with its `prefix` -/
structure c13_PAttr where
  pfx : Option Str
  ns : Option Str
  localName : Str
  value : Str

/-- a minidom node with the `prefix` field that `parse_xml` never reads -/
inductive c13_PNode where
  | elem (pfx : Option Str) (ns : Option Str) (localName : Str) (attrs : List c13_PAttr) (children : List c13_PNode)
  | text (s : Str)
  | cdata (s : Str)
  | comment (s : Str)
  | pi (target data : Str)

def c13_eraseAttr (a : c13_PAttr) : DomAttr := ⟨a.ns, a.localName, a.value⟩

mutual
/-- forget the prefixes: exactly the fields `parse_xml` reads remain -/
def c13_erasePrefix : c13_PNode → DomNode
  | .elem _ ns l as cs => .elem ns l (as.map c13_eraseAttr) (c13_erasePrefixL cs)
  | .text s => .text s
  | .cdata s => .cdata s
  | .comment s => .comment s
  | .pi t d => .pi t d
def c13_erasePrefixL : List c13_PNode → List DomNode
  | [] => []
  | c :: cs => c13_erasePrefix c :: c13_erasePrefixL cs
end

def c13_relabelAttr (r : Option Str → Option Str) (a : c13_PAttr) : c13_PAttr := { a with pfx := r a.pfx }

mutual
/-- replace every prefix `p` by `r p` (the namespace URIs stay): what re-serialising a document
    with other prefixes, or with a default namespace (`r _ = none`), does to the DOM -/
def c13_relabel (r : Option Str → Option Str) : c13_PNode → c13_PNode
  | .elem p ns l as cs => .elem (r p) ns l (as.map (c13_relabelAttr r)) (c13_relabelL r cs)
  | .text s => .text s
  | .cdata s => .cdata s
  | .comment s => .comment s
  | .pi t d => .pi t d
def c13_relabelL (r : Option Str → Option Str) : List c13_PNode → List c13_PNode
  | [] => []
  | c :: cs => c13_relabel r c :: c13_relabelL r cs
end

theorem c13_eraseAttr_relabel (r : Option Str → Option Str) (as : List c13_PAttr) :
    (as.map (c13_relabelAttr r)).map c13_eraseAttr = as.map c13_eraseAttr := by
  induction as with
  | nil => rfl
  | cons a as ih => simp [c13_eraseAttr, c13_relabelAttr]

mutual
theorem c13_erase_relabel (r : Option Str → Option Str) (d : c13_PNode) :
    c13_erasePrefix (c13_relabel r d) = c13_erasePrefix d := by
  match d with
  | .elem p ns l as cs =>
    simp only [c13_relabel, c13_erasePrefix, c13_eraseAttr_relabel, c13_erase_relabelL r cs]
  | .text s => simp [c13_relabel, c13_erasePrefix]
  | .cdata s => simp [c13_relabel, c13_erasePrefix]
  | .comment s => simp [c13_relabel, c13_erasePrefix]
  | .pi t x => simp [c13_relabel, c13_erasePrefix]
theorem c13_erase_relabelL (r : Option Str → Option Str) (ds : List c13_PNode) :
    c13_erasePrefixL (c13_relabelL r ds) = c13_erasePrefixL ds := by
  match ds with
  | [] => simp [c13_relabelL, c13_erasePrefixL]
  | c :: cs => simp [c13_relabelL, c13_erasePrefixL, c13_erase_relabel r c, c13_erase_relabelL r cs]
end

/-! ### Strict ↔ Transitional -/

/-- the other URI that `office_xml._namespaces` lists under the same prefix (Transitional ↔ Strict
    for `w`, `r`, `wp`, `a`, `pic`); every other string is left alone -/
def c13_swapNs (uri : Str) : Str :=
  match Generated.namespaces.find? (fun pu => pu.2 == uri) with
  | none => uri
  | some pu =>
    match Generated.namespaces.find? (fun qu => qu.1 == pu.1 && qu.2 != uri) with
    | some qu => qu.2
    | none => uri

/-- everything the proof needs about the extracted table, checked by evaluation on its 17 rows -/
def c13_tableOk : Bool :=
  Generated.namespaces.all fun pu =>
    nsPrefix Generated.namespaces (c13_swapNs pu.2) == nsPrefix Generated.namespaces pu.2
    && (nsPrefix Generated.namespaces pu.2).isSome
    && c13_swapNs (c13_swapNs pu.2) == pu.2
    && c13_swapNs pu.2 != xmlnsUri && pu.2 != xmlnsUri

set_option maxRecDepth 100000 in
theorem c13_tableOk_true : c13_tableOk = true := by decide

theorem c13_swap_cases (uri : Str) :
    c13_swapNs uri = uri ∨
    (nsPrefix Generated.namespaces (c13_swapNs uri) = nsPrefix Generated.namespaces uri
      ∧ (nsPrefix Generated.namespaces uri).isSome = true
      ∧ c13_swapNs (c13_swapNs uri) = uri
      ∧ c13_swapNs uri ≠ xmlnsUri ∧ uri ≠ xmlnsUri) := by
  cases h : Generated.namespaces.find? (fun pu => pu.2 == uri) with
  | none => left; simp [c13_swapNs, h]
  | some pu =>
    right
    have hm := List.mem_of_find?_eq_some h
    have he : pu.2 = uri := by
      have := List.find?_some h
      simpa using this
    have hok := c13_tableOk_true
    unfold c13_tableOk at hok
    rw [List.all_eq_true] at hok
    have := hok pu hm
    rw [he] at this
    simp only [Bool.and_eq_true, beq_iff_eq, bne_iff_ne, ne_eq] at this
    obtain ⟨⟨⟨⟨h1, h2⟩, h3⟩, h4⟩, h5⟩ := this
    exact ⟨h1, h2, h3, h4, h5⟩

theorem c13_swap_involutive (uri : Str) : c13_swapNs (c13_swapNs uri) = uri := by
  rcases c13_swap_cases uri with h | h
  · rw [h, h]
  · exact h.2.2.1

theorem c13_swap_xmlns (uri : Str) : (c13_swapNs uri = xmlnsUri) ↔ (uri = xmlnsUri) := by
  rcases c13_swap_cases uri with h | h
  · rw [h]
  · exact ⟨fun e => absurd e h.2.2.2.1, fun e => absurd e h.2.2.2.2⟩

theorem c13_convertName_swap (ns : Option Str) (l : Str) :
    convertName Generated.namespaces (ns.map c13_swapNs) l = convertName Generated.namespaces ns l := by
  cases ns with
  | none => rfl
  | some uri =>
    rcases c13_swap_cases uri with h | h
    · simp [h]
    · simp only [Option.map_some, convertName, h.1]
      cases hp : nsPrefix Generated.namespaces uri with
      | none => rw [hp] at h; simp at h
      | some p => rfl

def c13_mapAttrNs (f : Str → Str) (a : DomAttr) : DomAttr := { a with ns := a.ns.map f }

mutual
/-- rewrite every namespace URI (of elements and of attributes) with `f` -/
def c13_mapNs (f : Str → Str) : DomNode → DomNode
  | .elem ns l as cs => .elem (ns.map f) l (as.map (c13_mapAttrNs f)) (c13_mapNsL f cs)
  | .text s => .text s
  | .cdata s => .cdata s
  | .comment s => .comment s
  | .pi t d => .pi t d
def c13_mapNsL (f : Str → Str) : List DomNode → List DomNode
  | [] => []
  | c :: cs => c13_mapNs f c :: c13_mapNsL f cs
end

theorem c13_convertAttrPairs_swap (as : List DomAttr) :
    convertAttrPairs Generated.namespaces (as.map (c13_mapAttrNs c13_swapNs))
      = convertAttrPairs Generated.namespaces as := by
  induction as with
  | nil => rfl
  | cons a as ih =>
    unfold convertAttrPairs at ih ⊢
    have hx : ((c13_mapAttrNs c13_swapNs a).ns != some xmlnsUri) = (a.ns != some xmlnsUri) := by
      cases hn : a.ns with
      | none => simp [c13_mapAttrNs, hn]
      | some u =>
        have := c13_swap_xmlns u
        simp only [c13_mapAttrNs, hn, Option.map_some]
        by_cases hu : u = xmlnsUri
        · have h2 := this.mpr hu
          rw [h2, hu]
        · have h2 : c13_swapNs u ≠ xmlnsUri := fun e => hu (this.mp e)
          have e1 : (some (c13_swapNs u) != some xmlnsUri) = true := by simp [h2]
          have e2 : (some u != some xmlnsUri) = true := by simp [hu]
          rw [e1, e2]
    simp only [List.map_cons, List.filter_cons, hx]
    by_cases hk : (a.ns != some xmlnsUri) = true
    · simp only [hk, if_true, List.map_cons, ih]
      congr 1
      simp [c13_mapAttrNs, c13_convertName_swap]
    · simp only [hk]
      exact ih

mutual
theorem c13_convertNode_swap (d : DomNode) :
    convertNode Generated.namespaces (c13_mapNs c13_swapNs d) = convertNode Generated.namespaces d := by
  match d with
  | .elem ns l as cs =>
    simp only [c13_mapNs, c13_convertNode_elem, c13_convertName_swap, convertAttrs,
      c13_convertAttrPairs_swap, c13_convertNodes_swap cs]
  | .text s => simp [c13_mapNs]
  | .cdata s => simp [c13_mapNs]
  | .comment s => simp [c13_mapNs]
  | .pi t x => simp [c13_mapNs]
theorem c13_convertNodes_swap (ds : List DomNode) :
    convertNodes Generated.namespaces (c13_mapNsL c13_swapNs ds) = convertNodes Generated.namespaces ds := by
  match ds with
  | [] => simp [c13_mapNsL]
  | c :: cs =>
    simp only [c13_mapNsL, c13_convertNodes_cons, c13_convertNode_swap c, c13_convertNodes_swap cs]
end

/-! ### comments and processing instructions -/

def c13_notCommentOrPi : DomNode → Bool
  | .comment _ => false
  | .pi _ _ => false
  | _ => true

mutual
/-- remove every comment and processing instruction, at every depth -/
def c13_stripNoise : DomNode → DomNode
  | .elem ns l as cs => .elem ns l as (c13_stripNoiseL cs)
  | .text s => .text s
  | .cdata s => .cdata s
  | .comment s => .comment s
  | .pi t d => .pi t d
def c13_stripNoiseL : List DomNode → List DomNode
  | [] => []
  | c :: cs => if c13_notCommentOrPi c then c13_stripNoise c :: c13_stripNoiseL cs else c13_stripNoiseL cs
end

mutual
theorem c13_convertNode_stripNoise (T : List (Str × Str)) (d : DomNode) :
    convertNode T (c13_stripNoise d) = convertNode T d := by
  match d with
  | .elem ns l as cs => simp only [c13_stripNoise, c13_convertNode_elem, c13_convertNodes_stripNoise T cs]
  | .text s => simp [c13_stripNoise]
  | .cdata s => simp [c13_stripNoise]
  | .comment s => simp [c13_stripNoise]
  | .pi t x => simp [c13_stripNoise]
theorem c13_convertNodes_stripNoise (T : List (Str × Str)) (ds : List DomNode) :
    convertNodes T (c13_stripNoiseL ds) = convertNodes T ds := by
  match ds with
  | [] => simp [c13_stripNoiseL]
  | c :: cs =>
    have ih := c13_convertNodes_stripNoise T cs
    have ihc := c13_convertNode_stripNoise T c
    unfold c13_stripNoiseL
    cases c with
    | comment s => simp [c13_notCommentOrPi, c13_convertNodes_cons, ih]
    | pi t x => simp [c13_notCommentOrPi, c13_convertNodes_cons, ih]
    | elem ns l as cs' => simp only [c13_notCommentOrPi, if_true, c13_convertNodes_cons, ih, ihc]
    | text s => simp only [c13_notCommentOrPi, if_true, c13_convertNodes_cons, ih, ihc]
    | cdata s => simp only [c13_notCommentOrPi, if_true, c13_convertNodes_cons, ih, ihc]
end

theorem c13_convertNodes_filter (T : List (Str × Str)) (ds : List DomNode) :
    convertNodes T (ds.filter c13_notCommentOrPi) = convertNodes T ds := by
  induction ds with
  | nil => rfl
  | cons c cs ih =>
    cases c <;> simp [List.filter_cons, c13_notCommentOrPi, c13_convertNodes_cons, ih]

/-! ### CDATA -/

mutual
/-- replace every CDATA section by a text node with the same characters -/
def c13_cdataToText : DomNode → DomNode
  | .elem ns l as cs => .elem ns l as (c13_cdataToTextL cs)
  | .text s => .text s
  | .cdata s => .text s
  | .comment s => .comment s
  | .pi t d => .pi t d
def c13_cdataToTextL : List DomNode → List DomNode
  | [] => []
  | c :: cs => c13_cdataToText c :: c13_cdataToTextL cs
end

mutual
theorem c13_convertNode_cdataToText (T : List (Str × Str)) (d : DomNode) :
    convertNode T (c13_cdataToText d) = convertNode T d := by
  match d with
  | .elem ns l as cs => simp only [c13_cdataToText, c13_convertNode_elem, c13_convertNodes_cdataToText T cs]
  | .text s => simp [c13_cdataToText]
  | .cdata s => simp [c13_cdataToText]
  | .comment s => simp [c13_cdataToText]
  | .pi t x => simp [c13_cdataToText]
theorem c13_convertNodes_cdataToText (T : List (Str × Str)) (ds : List DomNode) :
    convertNodes T (c13_cdataToTextL ds) = convertNodes T ds := by
  match ds with
  | [] => simp [c13_cdataToTextL]
  | c :: cs =>
    simp only [c13_cdataToTextL, c13_convertNodes_cons, c13_convertNode_cdataToText T c,
      c13_convertNodes_cdataToText T cs]
end

/-! ### namespace declarations -/

def c13_isXmlnsDecl (a : DomAttr) : Bool := a.ns == some xmlnsUri

theorem c13_convertAttrPairs_filter (T : List (Str × Str)) (as : List DomAttr) :
    convertAttrPairs T (as.filter fun a => !c13_isXmlnsDecl a) = convertAttrPairs T as := by
  unfold convertAttrPairs
  rw [List.filter_filter]
  congr 1
  apply List.filter_congr
  intro a _
  simp [c13_isXmlnsDecl, bne]

theorem c13_convertAttrPairs_insert (T : List (Str × Str)) (a b : List DomAttr) (x : DomAttr)
    (hx : c13_isXmlnsDecl x = true) :
    convertAttrPairs T (a ++ x :: b) = convertAttrPairs T (a ++ b) := by
  unfold convertAttrPairs
  have : (x.ns != some xmlnsUri) = false := by
    simp only [c13_isXmlnsDecl, beq_iff_eq] at hx
    simp [hx]
  simp [List.filter_append, this]

mutual
/-- remove every namespace declaration, at every depth -/
def c13_stripXmlns : DomNode → DomNode
  | .elem ns l as cs => .elem ns l (as.filter fun a => !c13_isXmlnsDecl a) (c13_stripXmlnsL cs)
  | .text s => .text s
  | .cdata s => .cdata s
  | .comment s => .comment s
  | .pi t d => .pi t d
def c13_stripXmlnsL : List DomNode → List DomNode
  | [] => []
  | c :: cs => c13_stripXmlns c :: c13_stripXmlnsL cs
end

mutual
theorem c13_convertNode_stripXmlns (T : List (Str × Str)) (d : DomNode) :
    convertNode T (c13_stripXmlns d) = convertNode T d := by
  match d with
  | .elem ns l as cs =>
    simp only [c13_stripXmlns, c13_convertNode_elem, convertAttrs, c13_convertAttrPairs_filter,
      c13_convertNodes_stripXmlns T cs]
  | .text s => simp [c13_stripXmlns]
  | .cdata s => simp [c13_stripXmlns]
  | .comment s => simp [c13_stripXmlns]
  | .pi t x => simp [c13_stripXmlns]
theorem c13_convertNodes_stripXmlns (T : List (Str × Str)) (ds : List DomNode) :
    convertNodes T (c13_stripXmlnsL ds) = convertNodes T ds := by
  match ds with
  | [] => simp [c13_stripXmlnsL]
  | c :: cs =>
    simp only [c13_stripXmlnsL, c13_convertNodes_cons, c13_convertNode_stripXmlns T c,
      c13_convertNodes_stripXmlns T cs]
end

/-! ### whole packages -/

/-- rewrite the DOM of every XML part; the rewrite may depend on the part's name -/
def c13_mapParts (f : Str → DomNode → DomNode) : DomPackage → DomPackage
  | [] => []
  | (n, .xml root) :: rest => (n, .xml (f n root)) :: c13_mapParts f rest
  | (n, .bytes b) :: rest => (n, .bytes b) :: c13_mapParts f rest

theorem c13_parseParts_mapParts (f : Str → DomNode → DomNode)
    (hf : ∀ n d, parseXml (f n d) = parseXml d) (dp : DomPackage) :
    DomPackage.parseParts (c13_mapParts f dp) = DomPackage.parseParts dp := by
  induction dp with
  | nil => rfl
  | cons x rest ih =>
    obtain ⟨n, part⟩ := x
    cases part with
    | xml root => simp only [c13_mapParts, DomPackage.parseParts, DomPart.parse, hf, ih]
    | bytes b => simp only [c13_mapParts, DomPackage.parseParts, DomPart.parse, ih]

/-- the rewrites of this file, closed under composition -/
inductive c13_Respelling : (DomNode → DomNode) → Prop where
  | same : c13_Respelling id
  | strictTransitional : c13_Respelling (c13_mapNs c13_swapNs)
  | dropCommentsPis : c13_Respelling c13_stripNoise
  | cdataToText : c13_Respelling c13_cdataToText
  | dropXmlns : c13_Respelling c13_stripXmlns
  | comp {f g : DomNode → DomNode} : c13_Respelling f → c13_Respelling g → c13_Respelling (f ∘ g)

theorem c13_respelling_parse {f : DomNode → DomNode} (h : c13_Respelling f) (d : DomNode) :
    parseXml (f d) = parseXml d := by
  induction h generalizing d with
  | same => rfl
  | strictTransitional => exact c13_convertNode_swap d
  | dropCommentsPis => exact c13_convertNode_stripNoise _ d
  | cdataToText => exact c13_convertNode_cdataToText _ d
  | dropXmlns => exact c13_convertNode_stripXmlns _ d
  | comp _ _ ihf ihg => simp only [Function.comp]; rw [ihf, ihg]

/-- `mammoth.convert` started from the DOM level: parse every XML part, then the model's pipeline -/
def c13_convertDom (dp : DomPackage) (fuel : Nat) (base : Option Str) (world : Str → Option Bytes)
    (transform : Document → Document) (o : Options) : Option (Except Err ApiOut) :=
  dp.toPackage.map fun p => apiConvert p fuel base world transform o

end Mammoth
