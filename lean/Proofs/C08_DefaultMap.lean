/-
  C08 — the default style map as an explicit value (kernel evaluation of the model's own DSL
  parser on the text extracted from mammoth/options.py) and helper definitions naming its parts.
-/
import MammothModel.Package
namespace Mammoth

/-- `name:fresh` -/
def c08_fresh (name : Str) : Tag := { name := name, collapsible := false }
/-- `ul|ol` (not fresh) -/
def c08_ulol : Tag := { name := S!"ul", alts := [S!"ol"], collapsible := true }
/-- `ul` / `ol` (not fresh) -/
def c08_ul : Tag := { name := S!"ul", collapsible := true }
def c08_ol : Tag := { name := S!"ol", collapsible := true }
/-- `li` (not fresh) -/
def c08_li : Tag := { name := S!"li", collapsible := true }
/-- `li:fresh` -/
def c08_liFresh : Tag := c08_fresh S!"li"

/-- the innermost list tag of a default list path -/
def c08_listTag (ordered : Bool) : Tag := if ordered then c08_ol else c08_ul

/-- `ul|ol > li > … > ul|ol > li >` (`k` times) -/
def c08_outer : Nat → List Tag
  | 0 => []
  | k+1 => c08_ulol :: c08_li :: c08_outer k

/-- the default path of a list paragraph at depth `d = k+1`:
    `ul|ol > li > … > (ol|ul) > li:fresh` -/
def c08_listPath (k : Nat) (ordered : Bool) : List Tag :=
  c08_outer k ++ [c08_listTag ordered, c08_liFresh]

/-- `p.<sid> => <tag>:fresh` -/
def c08_byId (sid tag : Str) : Style := ⟨.paragraph (some sid) none none, .elements [c08_fresh tag]⟩
/-- `p[style-name='<name>'] => <tag>:fresh` -/
def c08_byName (name tag : Str) : Style :=
  ⟨.paragraph none (some (.equalTo name)) none, .elements [c08_fresh tag]⟩
/-- `r[style-name='<name>'] =>` (the empty path) -/
def c08_runEmpty (name : Str) : Style := ⟨.run none (some (.equalTo name)), .elements []⟩
/-- `p:(un)ordered-list(k+1) => …` -/
def c08_listStyle (k : Nat) (ordered : Bool) : Style :=
  ⟨.paragraph none none (some ⟨natToStr k, ordered⟩), .elements (c08_listPath k ordered)⟩

/-- the 41 mappings of `options._default_style_map`, in order -/
def c08_defaultMapValue : List Style := [
  c08_byId S!"Heading1" S!"h1", c08_byId S!"Heading2" S!"h2", c08_byId S!"Heading3" S!"h3",
  c08_byId S!"Heading4" S!"h4", c08_byId S!"Heading5" S!"h5", c08_byId S!"Heading6" S!"h6",
  c08_byName S!"Heading 1" S!"h1", c08_byName S!"Heading 2" S!"h2", c08_byName S!"Heading 3" S!"h3",
  c08_byName S!"Heading 4" S!"h4", c08_byName S!"Heading 5" S!"h5", c08_byName S!"Heading 6" S!"h6",
  c08_byName S!"heading 1" S!"h1", c08_byName S!"heading 2" S!"h2", c08_byName S!"heading 3" S!"h3",
  c08_byName S!"heading 4" S!"h4", c08_byName S!"heading 5" S!"h5", c08_byName S!"heading 6" S!"h6",
  ⟨.run none (some (.equalTo S!"Strong")), .elements [{ name := S!"strong", collapsible := true }]⟩,
  c08_byName S!"footnote text" S!"p", c08_runEmpty S!"footnote reference",
  c08_byName S!"endnote text" S!"p", c08_runEmpty S!"endnote reference",
  c08_byName S!"annotation text" S!"p", c08_runEmpty S!"annotation reference",
  c08_byName S!"Footnote" S!"p", c08_runEmpty S!"Footnote anchor",
  c08_byName S!"Endnote" S!"p", c08_runEmpty S!"Endnote anchor",
  c08_listStyle 0 false, c08_listStyle 1 false, c08_listStyle 2 false, c08_listStyle 3 false,
  c08_listStyle 4 false,
  c08_listStyle 0 true, c08_listStyle 1 true, c08_listStyle 2 true, c08_listStyle 3 true,
  c08_listStyle 4 true,
  c08_runEmpty S!"Hyperlink",
  c08_byName S!"Normal" S!"p"]

theorem c08_default_map_value : defaultStyleMap = c08_defaultMapValue := by decide +kernel

theorem c08_default_no_warnings : (readStyleMap Generated.defaultStyleMapText).2 = [] := by decide +kernel

end Mammoth
