/-
  C14 — SPECIFICATION of what the converter emits for a document element, as far as `strip_empty` is
  concerned: nothing at all (`none`), nodes that `strip_empty` removes completely (`hollow`), or nodes of
  which something survives (`full`).  The specification walks the *document* tree; it shares with the
  model only the style lookup (`c01_path`, `c01_runPaths`, `findPath`).
-/
import Proofs.Strip
import Proofs.C01_Refine
import Proofs.C14_Collapse
namespace Mammoth

/-- the three possible fates of a forest under `strip_empty` -/
inductive Weight where
  | none      -- the empty forest
  | hollow    -- a non-empty forest without content: `strip_empty` returns `[]`
  | full      -- a forest with content: `strip_empty` returns a non-empty forest
deriving DecidableEq, Repr, Inhabited

/-- concatenation of forests -/
def Weight.add : Weight → Weight → Weight
  | .full, _ => .full
  | _, .full => .full
  | .hollow, _ => .hollow
  | _, .hollow => .hollow
  | .none, .none => .none

/-- the weight of a forest of HTML nodes -/
def weightOf (ns : List Node) : Weight :=
  if anyContent ns then .full else if ns.isEmpty then .none else .hollow

def voidTag (t : Tag) : Bool := voidNames.contains t.name

/-- one element around a forest: it has content iff the forest has, or there is no forest at all and the
    element is void (`br`, `hr`, `img`, `input`) -/
def Weight.wrap1 (t : Tag) : Weight → Weight
  | .full => .full
  | .hollow => .hollow
  | .none => if voidTag t then .full else .hollow

/-- a path (outermost element first) around a forest -/
def Weight.wrap : List Tag → Weight → Weight
  | [], w => w
  | t :: ts, w => (w.wrap ts).wrap1 t

/-- the paths of a run, innermost first; `!` discards what is inside it -/
def Weight.wrapAll : List HtmlPath → Weight → Weight
  | [], w => w
  | .elements es :: ps, w => Weight.wrapAll ps (w.wrap es)
  | .ignore :: ps, _ => Weight.wrapAll ps .none

/-! ### weights of forests -/

@[simp] theorem weightOf_nil : weightOf [] = .none := by simp [weightOf, anyContent]

theorem weightOf_append (a b : List Node) : weightOf (a ++ b) = (weightOf a).add (weightOf b) := by
  unfold weightOf
  rw [anyContent_append]
  cases ha : anyContent a <;> cases hb : anyContent b <;> cases a <;> cases b <;> simp [Weight.add]

theorem weightOf_single_elem (t : Tag) (cs : List Node) :
    weightOf [.elem t cs] = (weightOf cs).wrap1 t := by
  unfold weightOf
  cases hc : anyContent cs
  · cases cs with
    | nil => by_cases hv : voidTag t = true <;> simp_all [anyContent, hasContent, isVoid, Weight.wrap1, voidTag]
    | cons c cs => simp_all [anyContent, hasContent, isVoid, Weight.wrap1]
  · simp [anyContent, hasContent, hc, Weight.wrap1]

theorem weightOf_wrapElems (es : List Tag) (ns : List Node) :
    weightOf (wrapElems es ns) = (weightOf ns).wrap es := by
  induction es with
  | nil => rfl
  | cons t ts ih => simp only [wrapElems, Weight.wrap, weightOf_single_elem, ih]

theorem weightOf_wrapAll (paths : List HtmlPath) (ns : List Node) :
    weightOf (wrapAll paths ns) = (weightOf ns).wrapAll paths := by
  induction paths generalizing ns with
  | nil => rfl
  | cons p ps ih =>
    cases p with
    | ignore => simp only [wrapAll, Weight.wrapAll, ih, weightOf_nil]
    | elements es => simp only [wrapAll, Weight.wrapAll, ih, weightOf_wrapElems]

theorem weightOf_cons_fw (ns : List Node) : weightOf (.forceWrite :: ns) = .full := by
  simp [weightOf, anyContent, hasContent]

@[simp] theorem Weight.wrap_full (es : List Tag) : Weight.full.wrap es = .full := by
  induction es with
  | nil => rfl
  | cons t ts ih => simp [Weight.wrap, ih, Weight.wrap1]

theorem Weight.wrap_hollow (es : List Tag) : Weight.hollow.wrap es = .hollow := by
  induction es with
  | nil => rfl
  | cons t ts ih => simp [Weight.wrap, ih, Weight.wrap1]

/-- is the innermost element of the path void? -/
def endsVoid : List Tag → Bool
  | [] => false
  | [t] => voidTag t
  | _ :: t :: ts => endsVoid (t :: ts)

/-- closed form: nothing, wrapped in a non-empty path, has content iff the innermost element is void -/
theorem Weight.wrap_none (es : List Tag) :
    Weight.none.wrap es = if es.isEmpty then .none else if endsVoid es then .full else .hollow := by
  induction es with
  | nil => rfl
  | cons t ts ih =>
    cases ts with
    | nil => by_cases h : voidTag t = true <;> simp [Weight.wrap, Weight.wrap1, endsVoid, h]
    | cons u us =>
      simp only [Weight.wrap] at ih ⊢
      rw [ih]
      by_cases h : endsVoid (u :: us) = true <;> simp [h, endsVoid, Weight.wrap1]

/-- `strip_empty` returns the empty forest exactly for the forests that are not `full` -/
theorem stripEmpty_eq_nil_iff (ns : List Node) : stripEmpty ns = [] ↔ weightOf ns ≠ .full := by
  have h := stripList_isEmpty ns
  unfold weightOf
  cases ha : anyContent ns
  · rw [ha] at h
    have : stripList ns = [] := List.isEmpty_iff.mp (by simpa using h)
    simp only [stripEmpty, this, true_iff]
    cases ns <;> simp
  · rw [ha] at h
    simp only [stripEmpty, if_true, ne_eq, not_true, iff_false]
    intro h0; rw [h0] at h; simp at h

/-! ### the specification -/

/-- can the image be read?  (an embedded image missing from the archive is an error, not an empty
    result; a linked image is asked from the outside world) -/
def c14_readable (cfg : Cfg) : ImageSrc → Bool
  | .embedded _ => true
  | .linked uri =>
    if isAbsoluteUri uri then (cfg.world uri).isSome
    else match cfg.base with
      | some b => (cfg.world (osPathJoin b uri)).isSome
      | none => false

/-- does the image yield an `img` element (otherwise: a warning and nothing) -/
def c14_imageShown (cfg : Cfg) (i : ImageProps) : Bool :=
  match cfg.imageConv with
  | .dataUri => c14_readable cfg i.src
  | .fixed _ opens => !opens || c14_readable cfg i.src

mutual
/-- the weight of what is emitted for one document element (when the conversion succeeds) -/
def c14_weight (cfg : Cfg) : Elem → Weight
  | .paragraph p cs =>
    match c01_path cfg (.paragraph p) (.elements [pathElem S!"p" true]) with
    | .ignore => .none
    | .elements es =>
      -- `ignore_empty_paragraphs=False`: a force-write marker is put inside the innermost element
      (if cfg.ignoreEmpty then c14_weightL cfg cs else .full).wrap es
  | .run r cs => (c14_weightL cfg cs).wrapAll (c01_runPaths cfg r)
  | .text s => if s.isEmpty then .hollow else .full
  | .hyperlink _ cs => if c14_weightL cfg cs = .full then .full else .hollow   -- `a` is not void
  | .checkbox _ => .full                                                        -- `input` is void
  | .table sid sname _ =>
    match c01_path cfg (.table sid sname) (.elements [pathElem S!"table" true]) with
    | .ignore => .none
    | .elements _ => .full                                                      -- force-write
  | .row _ _ => .full                                                           -- force-write
  | .cell _ _ _ _ => .full                                                      -- force-write
  | .brk ty =>
    match findPath cfg (.brk ty) with
    | some (.elements es) => Weight.none.wrap es
    | some .ignore => .none
    | none => if ty = S!"line" then .full else .none                            -- `br` is void
  | .tab => .full
  | .image i => if c14_imageShown cfg i then .full else .none                   -- `img` is void
  | .bookmark _ => .full                                                        -- force-write
  | .noteRef _ _ => .full                                                       -- `[n]`
  | .commentRef _ =>
    match findPath cfg .commentReference with
    | some (.elements _) => .full                                               -- `[XYn]`
    | _ => .none
def c14_weightL (cfg : Cfg) : List Elem → Weight
  | [] => .none
  | e :: es => (c14_weight cfg e).add (c14_weightL cfg es)
end

/-! ### the converter refines it -/

/-- every successful result of the computation has weight `w` -/
def c14_hasW (m : ConvM (List Node)) (w : Weight) : Prop :=
  ∀ st ns st', m st = .ok (ns, st') → weightOf ns = w

theorem c14_hasW_pure (ns : List Node) (w : Weight) (h : weightOf ns = w) : c14_hasW (pure ns) w := by
  intro st ns' st' hr
  cases hr
  exact h

theorem c14_hasW_bind {α} (x : ConvM α) (f : α → ConvM (List Node)) (w : Weight)
    (h : ∀ a, c14_hasW (f a) w) : c14_hasW (x >>= f) w := by
  intro st ns st' hr
  rw [c01_bind_run] at hr
  cases hx : x st with
  | error e => simp [hx] at hr
  | ok p =>
    obtain ⟨a, s⟩ := p
    simp only [hx] at hr
    exact h a s ns st' hr

theorem c14_hasW_map (x : ConvM (List Node)) (f : List Node → List Node) (g : Weight → Weight) (w : Weight)
    (hx : c14_hasW x w) (hf : ∀ ns, weightOf (f ns) = g (weightOf ns)) :
    c14_hasW (x >>= fun ns => pure (f ns)) (g w) := by
  intro st ns st' hr
  rw [c01_bind_run] at hr
  cases h1 : x st with
  | error e => simp [h1] at hr
  | ok p =>
    obtain ⟨a, s⟩ := p
    simp only [h1, c01_pure_run, Except.ok.injEq, Prod.mk.injEq] at hr
    rw [← hr.1, hf, hx st a s h1]

theorem c14_hasW_append (x y : ConvM (List Node)) (w v : Weight)
    (hx : c14_hasW x w) (hy : c14_hasW y v) :
    c14_hasW (x >>= fun a => y >>= fun b => pure (a ++ b)) (w.add v) := by
  intro st ns st' hr
  rw [c01_bind_run] at hr
  cases h1 : x st with
  | error e => simp [h1] at hr
  | ok p =>
    obtain ⟨a, s⟩ := p
    simp only [h1] at hr
    rw [c01_bind_run] at hr
    cases h2 : y s with
    | error e => simp [h2] at hr
    | ok q =>
      obtain ⟨b, s2⟩ := q
      simp only [h2, c01_pure_run, Except.ok.injEq, Prod.mk.injEq] at hr
      rw [← hr.1, weightOf_append, hx st a s h1, hy s b s2 h2]

theorem c14_weightOf_img (attrs : List (Str × Str)) : weightOf [el S!"img" attrs []] = .full := by
  simp only [el, weightOf_single_elem, weightOf_nil, Weight.wrap1, voidTag]
  rfl

def c14_isOk : Except Str Bytes → Bool
  | .ok _ => true
  | .error _ => false

/-- `Image.open()`: an `.ok` answer exactly for readable sources -/
theorem c14_openImage (cfg : Cfg) (src : ImageSrc) (st : ConvState) (r : Except Str Bytes)
    (st' : ConvState) (h : openImage cfg src st = .ok (r, st')) :
    c14_isOk r = c14_readable cfg src := by
  unfold openImage at h
  unfold c14_readable
  cases src with
  | embedded name =>
    simp only at h ⊢
    cases hl : lookupLast name cfg.archive with
    | none => simp [hl] at h
    | some b =>
      simp only [hl, c01_pure_run, Except.ok.injEq, Prod.mk.injEq] at h
      rw [← h.1]; rfl
  | linked uri =>
    simp only at h ⊢
    by_cases ha : isAbsoluteUri uri = true
    · simp only [ha, if_true] at h ⊢
      rw [c01_bind_run, c01_modify_run] at h
      simp only [] at h
      cases hw : cfg.world uri with
      | none => simp only [hw, c01_pure_run, Except.ok.injEq, Prod.mk.injEq] at h; rw [← h.1]; rfl
      | some b => simp only [hw, c01_pure_run, Except.ok.injEq, Prod.mk.injEq] at h; rw [← h.1]; rfl
    · simp only [ha, Bool.false_eq_true, if_false] at h ⊢
      cases hb : cfg.base with
      | none => simp only [hb, c01_pure_run, Except.ok.injEq, Prod.mk.injEq] at h; rw [← h.1]; rfl
      | some b =>
        simp only [hb] at h ⊢
        rw [c01_bind_run, c01_modify_run] at h
        simp only [] at h
        cases hw : cfg.world (osPathJoin b uri) with
        | none => simp only [hw, c01_pure_run, Except.ok.injEq, Prod.mk.injEq] at h; rw [← h.1]; rfl
        | some bs => simp only [hw, c01_pure_run, Except.ok.injEq, Prod.mk.injEq] at h; rw [← h.1]; rfl

end Mammoth
