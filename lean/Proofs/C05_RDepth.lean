/-
  C05 — the complex-field stack depth IN READING ORDER.  A paragraph with a deleted paragraph mark
  (`w:pPr/w:rPr/w:del`) is not read where it stands: its children are deferred and read, before the own
  children, by the next paragraph without such a mark.  `c05_rdepth` follows that order: it threads the pair
  (depth of the complex-field stack, deferred nodes) through the tree exactly as the reader threads its state.
-/
import Proofs.C05_BalancedSpec
namespace Mammoth

/-- (depth of the complex-field stack, deferred children of deleted paragraphs) -/
abbrev c05_DS := Nat × List XmlNode

def c05_rdepthAllWith (dp : c05_DS → XmlNode → Option c05_DS) : c05_DS → List XmlNode → Option c05_DS
  | s, [] => some s
  | s, .text _ :: rest => c05_rdepthAllWith dp s rest
  | s, .elem n as cs :: rest => (dp s (.elem n as cs)).bind fun s1 => c05_rdepthAllWith dp s1 rest

/-- (depth, deferred) after an element, given the function `all` for the lists of nodes that are read -/
def c05_rdepthBody (all : c05_DS → List XmlNode → Option c05_DS) (s : c05_DS) (name : Str) (as : Attrs)
    (cs : List XmlNode) : Option c05_DS :=
  match handlerOf name with
  | none => some s
  | some h =>
    if h == S!"text" then some s
    else if h == S!"run" then all s cs
    else if h == S!"paragraph" then
      if (findChild S!"w:del" (findChildOrNull S!"w:rPr" (findChildOrNull S!"w:pPr" cs).2).2).isSome then
        -- deleted paragraph mark: nothing is read now, the children are deferred
        some (s.1, s.2 ++ cs)
      else
        -- the deferred nodes are read first, then the own children
        all (s.1, []) (s.2 ++ cs)
    else if h == S!"read_fld_char" then (c05_fldDepth s.1 as).map fun d => (d, s.2)
    else if h == S!"read_instr_text" then some s
    else if h == S!"tab" then some s
    else if h == S!"no_break_hyphen" then some s
    else if h == S!"soft_hyphen" then some s
    else if h == S!"symbol" then some s
    else if h == S!"table" then all s cs
    else if h == S!"table_row" then all s cs
    else if h == S!"table_cell" then all s cs
    else if h == S!"read_child_elements" then all s cs
    else if h == S!"pict" then all s cs
    else if h == S!"hyperlink" then all s cs
    else if h == S!"bookmark_start" then some s
    else if h == S!"break_" then some s
    else if h == S!"inline" then some s
    else if h == S!"read_imagedata" then some s
    else if h == S!"note_reference:footnote" || h == S!"note_reference:endnote" then some s
    else if h == S!"read_comment_reference" then some s
    else if h == S!"alternate_content" then all s (findChildOrNull S!"mc:Fallback" cs).2
    else if h == S!"read_sdt" then
      match findChild S!"wordml:checkbox" (findChildOrNull S!"w:sdtPr" cs).2 with
      | some _ => some s
      | none => all s (findChildOrNull S!"w:sdtContent" cs).2
    else some s

/-- (depth of the complex-field stack, deferred nodes) after reading a node IN READING ORDER from `s`;
    `none` = a `w:fldChar` end/separate meets the empty stack.  Fuelled like `readElem`, because deferred
    nodes are read again later (no structural recursion); with fuel 0 nothing is inspected. -/
def c05_rdepth : Nat → c05_DS → XmlNode → Option c05_DS
  | _, s, .text _ => some s
  | 0, s, .elem _ _ _ => some s
  | f+1, s, .elem name as cs => c05_rdepthBody (c05_rdepthAllWith (c05_rdepth f)) s name as cs

/-- reading a list of nodes (a body) in reading order -/
def c05_rdepthL (f : Nat) (s : c05_DS) (ns : List XmlNode) : Option c05_DS :=
  c05_rdepthAllWith (c05_rdepth f) s ns

/-- BALANCED IN READING ORDER: reading the body from the fresh state (empty field stack, nothing deferred)
    never meets a `w:fldChar` end/separate on the empty stack.  The fuel `xmlSizeL ns` is enough to
    inspect everything (`C05_fuel_enough_all`). -/
def c05_balanced (ns : List XmlNode) : Bool := (c05_rdepthL (xmlSizeL ns) (0, []) ns).isSome

/-- postcondition: stack depth and deferred nodes are the computed ones -/
abbrev c05_Qr (s : c05_DS) : ReadResult × RState → Prop := fun p => p.2.stack.length = s.1 ∧ p.2.deleted = s.2

/-- if the depth function says `some s'`, the reader fails at most with `.fuel` and ends in a state with
    that depth and those deferred nodes -/
structure c05_rrel (o : Option c05_DS) (x : Except Err (ReadResult × RState)) : Prop where
  h : ∀ s', o = some s' → c05_spec c05_fuelOnly (c05_Qr s') x

theorem c05_rrel_some (s : c05_DS) (x : Except Err (ReadResult × RState))
    (h : c05_spec c05_fuelOnly (c05_Qr s) x) : c05_rrel (some s) x :=
  ⟨fun k hk => by cases hk; exact h⟩

theorem c05_rrel_ite2 (c : Prop) [Decidable c] (o1 o2 : Option c05_DS) (x1 x2 : Except Err (ReadResult × RState))
    (h1 : c → c05_rrel o1 x1) (h2 : ¬ c → c05_rrel o2 x2) :
    c05_rrel (if c then o1 else o2) (if c then x1 else x2) := by
  by_cases hc : c
  · rw [if_pos hc, if_pos hc]; exact h1 hc
  · rw [if_neg hc, if_neg hc]; exact h2 hc

theorem c05_rrel_iteR (c : Prop) [Decidable c] (o : Option c05_DS) (x1 x2 : Except Err (ReadResult × RState))
    (h1 : c → c05_rrel o x1) (h2 : ¬ c → c05_rrel o x2) : c05_rrel o (if c then x1 else x2) := by
  by_cases hc : c
  · rw [if_pos hc]; exact h1 hc
  · rw [if_neg hc]; exact h2 hc

theorem c05_rrel_bind (o : Option c05_DS) (x : Except Err (ReadResult × RState))
    (f : ReadResult × RState → Except Err (ReadResult × RState)) (hx : c05_rrel o x)
    (hf : ∀ s a, c05_Qr s a → c05_spec c05_fuelOnly (c05_Qr s) (f a)) : c05_rrel o (x >>= f) :=
  ⟨fun k hk => c05_spec_bind _ _ (hx.h k hk) (hf k)⟩

theorem c05_readFldChar_rrel (st : RState) (as : Attrs) (cs : List XmlNode) :
    c05_rrel ((c05_fldDepth st.stack.length as).map fun d => (d, st.deleted)) (readFldChar st as cs) := by
  unfold readFldChar c05_fldDepth
  dsimp only
  by_cases h1 : (attr? S!"w:fldCharType" as == some S!"begin") = true
  · rw [if_pos h1, if_pos h1]; exact c05_rrel_some _ _ (c05_spec_ok _ ⟨rfl, rfl⟩)
  rw [if_neg h1, if_neg h1]
  by_cases h2 : (attr? S!"w:fldCharType" as == some S!"end") = true
  · rw [if_pos h2, if_pos h2]
    cases hst : st.stack with
    | nil => exact ⟨fun k hk => by simp [List.length] at hk⟩
    | cons top rest =>
      dsimp only [List.length, Option.map]
      split <;> exact c05_rrel_some _ _ (c05_spec_ok _ ⟨rfl, rfl⟩)
  rw [if_neg h2, if_neg h2]
  by_cases h3 : (attr? S!"w:fldCharType" as == some S!"separate") = true
  · rw [if_pos h3, if_pos h3]
    cases hst : st.stack with
    | nil => exact ⟨fun k hk => by simp [List.length] at hk⟩
    | cons top rest =>
      dsimp only [List.length, Option.map]
      exact c05_rrel_some _ _ (c05_spec_ok _ ⟨by simp, rfl⟩)
  · rw [if_neg h3, if_neg h3]; exact c05_rrel_some _ _ (c05_spec_ok _ ⟨rfl, rfl⟩)

end Mammoth
