/-
  C10 helpers: the STRINGS that the two link regexes of `parse_instr_text` match, said without any
  matcher: `ws* HYPERLINK ws+ " u " rest` (resp. with `\l ws+` before the quote), `u` free of `"`;
  then group 1 is `u` and the match ends right after the closing quote.  Both directions, for
  every string.
-/
import Proofs.C10_InstrRegexAgree
namespace Mammoth

/-! ### the hand-written pieces, read backwards -/

theorem c10_lstripWs_split (s : Str) : ∃ w, c10_allWs w = true ∧ s = w ++ lstripWs s := by
  induction s with
  | nil => exact ⟨[], rfl, rfl⟩
  | cons c cs ih =>
    by_cases h : isSpace c = true
    · obtain ⟨w, hw, e⟩ := ih
      refine ⟨c :: w, by simp [c10_allWs, h] at hw ⊢; exact hw, ?_⟩
      simp only [lstripWs, h, if_true, List.cons_append]
      rw [← e]
    · have h' : isSpace c = false := by simpa using h
      exact ⟨[], rfl, by simp [lstripWs, h']⟩

theorem c10_stripPrefix_some (w : Str) : ∀ (a r : Str), stripPrefix? a w = some r → a = w ++ r := by
  induction w with
  | nil => intro a r h; cases a <;> simp [stripPrefix?] at h <;> simp [h]
  | cons p ps ih =>
    intro a r h
    cases a with
    | nil => simp [stripPrefix?] at h
    | cons c cs =>
      simp only [stripPrefix?] at h
      by_cases hc : (c == p) = true
      · simp only [hc, if_true] at h
        have := ih cs r h
        have e : c = p := by simpa using hc
        rw [e, this]; rfl
      · simp [hc] at h

theorem c10_ws1_some (a r : Str) (h : ws1 a = some r) :
    ∃ w, w ≠ [] ∧ c10_allWs w = true ∧ a = w ++ r := by
  cases a with
  | nil => simp [ws1] at h
  | cons c cs =>
    simp only [ws1, skipWs] at h
    by_cases hc : isSpace c = true
    · simp only [hc, if_true, Option.some.injEq] at h
      obtain ⟨w, hw, e⟩ := c10_lstripWs_split cs
      refine ⟨c :: w, by simp, by simp [c10_allWs, hc] at hw ⊢; exact hw, ?_⟩
      rw [← h, List.cons_append, ← e]
    · simp [hc] at h

theorem c10_afterDq_some (a r : Str) : c10_afterDq a = some r ↔ a = '"' :: r := by
  cases a with
  | nil => simp [c10_afterDq]
  | cons c cs =>
    simp only [c10_afterDq]
    by_cases hc : (c == '"') = true
    · have e : c = '"' := by simpa using hc
      subst e; simp
    · have hc' : (c == '"') = false := by simpa using hc
      have : c ≠ '"' := by simpa using hc'
      simp [hc', this]

theorem c10_dropWhile_stop (u rest : Str) (h : '"' ∉ u) :
    (u ++ '"' :: rest).dropWhile c10_ccNotDq.test = '"' :: rest := by
  rw [c10_test_notDq']
  induction u with
  | nil => simp
  | cons c cs ih =>
    simp only [List.mem_cons, not_or] at h
    have hc : (c != '"') = true := by simpa using fun e => h.1 e.symm
    simp [hc, ih h.2]

theorem c10_mem_takeWhile (p : Char → Bool) (x : Char) : ∀ l : Str, x ∈ l.takeWhile p → p x = true := by
  intro l
  induction l with
  | nil => intro h; simp at h
  | cons c cs ih =>
    intro h
    by_cases hc : p c = true
    · rw [List.takeWhile_cons_of_pos hc] at h
      rcases List.mem_cons.mp h with e | h'
      · rw [e]; exact hc
      · exact ih h'
    · rw [List.takeWhile_cons_of_neg hc] at h; simp at h

theorem c10_notMem_takeWhile (s : Str) : '"' ∉ s.takeWhile c10_ccNotDq.test := by
  intro h
  have := c10_mem_takeWhile _ _ s h
  rw [c10_test_notDq] at this
  simp at this

/-- the tail `( [^"]* ) "` from the input `s1` after the opening quote -/
theorem c10_tail_iff (s1 s2 s3 : Str) :
    (c10_interp [.star c10_ccNotDq] s1 = some s2 ∧ c10_interp [C10Item.lit '"'] s2 = some s3) ↔
    ∃ u, '"' ∉ u ∧ s1 = u ++ '"' :: s3 ∧ s2 = '"' :: s3 := by
  simp only [c10_interp, c10_interp_dq, Option.some.injEq, c10_afterDq_some]
  constructor
  · rintro ⟨h1, h2⟩
    refine ⟨s1.takeWhile c10_ccNotDq.test, c10_notMem_takeWhile s1, ?_, h2⟩
    rw [← h2, ← h1]
    exact (List.takeWhile_append_dropWhile).symm
  · rintro ⟨u, hu, e1, e2⟩
    exact ⟨by rw [e1, e2]; exact c10_dropWhile_stop u s3 hu, e2⟩

theorem c10_gi_interp_iff (g : C10GroupedItems) (s s1 s2 s3 : Str) :
    g.interp s = some (s1, s2, s3) ↔
      c10_interp g.pre s = some s1 ∧ c10_interp g.body s1 = some s2 ∧ c10_interp g.post s2 = some s3 := by
  unfold C10GroupedItems.interp
  cases c10_interp g.pre s with
  | none => simp
  | some a =>
    simp only
    cases h2 : c10_interp g.body a with
    | none =>
      simp only [Option.some.injEq]
      constructor
      · intro h; cases h
      · rintro ⟨rfl, h, _⟩; rw [h2] at h; cases h
    | some b =>
      simp only
      cases h3 : c10_interp g.post b with
      | none =>
        simp only [Option.some.injEq]
        constructor
        · intro h; cases h
        · rintro ⟨rfl, h, h'⟩
          rw [h2] at h; cases h
          rw [h3] at h'; cases h'
      | some c =>
        simp only [Option.some.injEq, Prod.mk.injEq]
        constructor
        · rintro ⟨rfl, rfl, rfl⟩; exact ⟨rfl, h2, h3⟩
        · rintro ⟨rfl, h, h'⟩
          rw [h2] at h; cases h
          rw [h3] at h'; cases h'
          exact ⟨rfl, rfl, rfl⟩

/-! ### the part before the group -/

theorem c10_external_pre_iff (s s1 : Str) :
    c10_interp c10_giExternal.pre s = some s1 ↔
    ∃ w1 w2, c10_allWs w1 = true ∧ c10_allWs w2 = true ∧ w2 ≠ [] ∧
      s = w1 ++ (S!"HYPERLINK" ++ (w2 ++ '"' :: s1)) := by
  simp only [c10_giExternal, c10_interp_starWs, c10_interp_lits]
  constructor
  · intro h
    cases h1 : stripPrefix? (lstripWs s) S!"HYPERLINK" with
    | none => simp [h1] at h
    | some r =>
      simp only [h1, Option.bind_some, c10_interp_plusWs] at h
      cases h2 : ws1 r with
      | none => simp [h2] at h
      | some r1 =>
        simp only [h2, Option.bind_some, c10_interp_dq] at h
        obtain ⟨w1, hw1, e1⟩ := c10_lstripWs_split s
        obtain ⟨w2, hne, hw2, e2⟩ := c10_ws1_some r r1 h2
        refine ⟨w1, w2, hw1, hw2, hne, ?_⟩
        rw [← (c10_afterDq_some r1 s1).mp h, ← e2, ← c10_stripPrefix_some _ _ _ h1]
        exact e1
  · rintro ⟨w1, w2, h1, h2, hne, rfl⟩
    have hk := c10_keyword w1 (w2 ++ '"' :: s1) h1
    simp only [skipWs] at hk
    rw [hk]
    simp only [Option.bind_some, c10_interp_plusWs]
    rw [c10_ws1_ws w2 s1 '"' hne h2 (by decide)]
    simp [c10_interp_dq, c10_afterDq]

theorem c10_internal_pre_iff (s s1 : Str) :
    c10_interp c10_giInternal.pre s = some s1 ↔
    ∃ w1 w2 w3, c10_allWs w1 = true ∧ c10_allWs w2 = true ∧ w2 ≠ [] ∧ c10_allWs w3 = true ∧ w3 ≠ [] ∧
      s = w1 ++ (S!"HYPERLINK" ++ (w2 ++ (S!"\\l" ++ (w3 ++ '"' :: s1)))) := by
  simp only [c10_giInternal, c10_interp_starWs, c10_interp_lits]
  constructor
  · intro h
    cases h1 : stripPrefix? (lstripWs s) S!"HYPERLINK" with
    | none => simp [h1] at h
    | some r =>
      simp only [h1, Option.bind_some, c10_interp_plusWs] at h
      cases h2 : ws1 r with
      | none => simp [h2] at h
      | some r1 =>
        simp only [h2, Option.bind_some, c10_interp_lits] at h
        cases h3 : stripPrefix? r1 S!"\\l" with
        | none => simp [h3] at h
        | some r2 =>
          simp only [h3, Option.bind_some, c10_interp_plusWs] at h
          cases h4 : ws1 r2 with
          | none => simp [h4] at h
          | some r3 =>
            simp only [h4, Option.bind_some, c10_interp_dq] at h
            obtain ⟨w1, hw1, e1⟩ := c10_lstripWs_split s
            obtain ⟨w2, hne2, hw2, e2⟩ := c10_ws1_some r r1 h2
            obtain ⟨w3, hne3, hw3, e3⟩ := c10_ws1_some r2 r3 h4
            refine ⟨w1, w2, w3, hw1, hw2, hne2, hw3, hne3, ?_⟩
            rw [← (c10_afterDq_some r3 s1).mp h, ← e3, ← c10_stripPrefix_some _ _ _ h3, ← e2,
              ← c10_stripPrefix_some _ _ _ h1]
            exact e1
  · rintro ⟨w1, w2, w3, h1, h2, hne2, h3, hne3, rfl⟩
    have hk := c10_keyword w1 (w2 ++ (S!"\\l" ++ (w3 ++ '"' :: s1))) h1
    simp only [skipWs] at hk
    rw [hk]
    simp only [Option.bind_some, c10_interp_plusWs]
    rw [show w2 ++ (S!"\\l" ++ (w3 ++ '"' :: s1)) = w2 ++ '\\' :: ('l' :: (w3 ++ '"' :: s1)) from rfl,
      c10_ws1_ws w2 _ '\\' hne2 h2 (by decide)]
    simp only [Option.bind_some, c10_interp_lits]
    rw [show '\\' :: ('l' :: (w3 ++ '"' :: s1)) = S!"\\l" ++ (w3 ++ '"' :: s1) from rfl,
      c10_stripPrefix_append]
    simp only [Option.bind_some, c10_interp_plusWs]
    rw [c10_ws1_ws w3 s1 '"' hne3 h3 (by decide)]
    simp [c10_interp_dq, c10_afterDq]

/-! ### group 1 and the end of the match of a deterministic grouped sequence, from `interp` -/

theorem c10_gi_group1_matchLen (g : C10GroupedItems) (h : g.det = true) (s u : Str) (n : Nat) :
    (g.grouped.group1 s = some u ∧ g.grouped.regex.matchLen s = some n) ↔
    ∃ s1 s2 s3, g.interp s = some (s1, s2, s3) ∧ u = s1.take (s1.length - s2.length) ∧
      n = s.length - s3.length := by
  unfold C07Regex.matchLen
  rw [c10_gi_group1 g h s, (c10_gi_exec g h s).1]
  cases g.interp s with
  | none => simp
  | some t =>
    obtain ⟨s1, s2, s3⟩ := t
    simp only [Option.map_some, Option.some.injEq, Prod.mk.injEq]
    constructor
    · rintro ⟨rfl, rfl⟩; exact ⟨s1, s2, s3, ⟨rfl, rfl, rfl⟩, rfl, rfl⟩
    · rintro ⟨a, b, c, ⟨rfl, rfl, rfl⟩, rfl, rfl⟩; exact ⟨rfl, rfl⟩

/-- EXTERNAL link regex: which strings, which group, how long -/
theorem c10_external_shape (s u : Str) (n : Nat) :
    (c10_groupExternal.group1 s = some u ∧ c10_rxExternal.matchLen s = some n) ↔
    ∃ w1 w2 rest, c10_allWs w1 = true ∧ c10_allWs w2 = true ∧ w2 ≠ [] ∧ '"' ∉ u ∧
      s = w1 ++ S!"HYPERLINK" ++ w2 ++ ['"'] ++ u ++ ['"'] ++ rest ∧
      n = w1.length + 9 + w2.length + u.length + 2 := by
  rw [← c10_groupExternal_regex]
  unfold c10_groupExternal
  rw [c10_gi_group1_matchLen _ c10_giExternal_det]
  constructor
  · rintro ⟨s1, s2, s3, hi, rfl, rfl⟩
    rw [c10_gi_interp_iff] at hi
    obtain ⟨hp, hb, hq⟩ := hi
    obtain ⟨w1, w2, h1, h2, hne, rfl⟩ := (c10_external_pre_iff s s1).mp hp
    obtain ⟨u, hu, rfl, rfl⟩ := (c10_tail_iff s1 s2 s3).mp ⟨hb, hq⟩
    refine ⟨w1, w2, s3, h1, h2, hne, ?_, ?_, ?_⟩
    · simpa using hu
    · simp
    · simp; omega
  · rintro ⟨w1, w2, rest, h1, h2, hne, hu, rfl, rfl⟩
    refine ⟨u ++ '"' :: rest, '"' :: rest, rest, ?_, by simp, by simp; omega⟩
    rw [c10_gi_interp_iff]
    have ht := (c10_tail_iff (u ++ '"' :: rest) ('"' :: rest) rest).mpr ⟨u, hu, rfl, rfl⟩
    refine ⟨(c10_external_pre_iff _ _).mpr ⟨w1, w2, h1, h2, hne, by simp⟩, ht.1, ht.2⟩

/-- INTERNAL link regex: which strings, which group, how long -/
theorem c10_internal_shape (s u : Str) (n : Nat) :
    (c10_groupInternal.group1 s = some u ∧ c10_rxInternal.matchLen s = some n) ↔
    ∃ w1 w2 w3 rest, c10_allWs w1 = true ∧ c10_allWs w2 = true ∧ w2 ≠ [] ∧ c10_allWs w3 = true ∧
      w3 ≠ [] ∧ '"' ∉ u ∧
      s = w1 ++ S!"HYPERLINK" ++ w2 ++ S!"\\l" ++ w3 ++ ['"'] ++ u ++ ['"'] ++ rest ∧
      n = w1.length + 9 + w2.length + 2 + w3.length + u.length + 2 := by
  rw [← c10_groupInternal_regex]
  unfold c10_groupInternal
  rw [c10_gi_group1_matchLen _ c10_giInternal_det]
  constructor
  · rintro ⟨s1, s2, s3, hi, rfl, rfl⟩
    rw [c10_gi_interp_iff] at hi
    obtain ⟨hp, hb, hq⟩ := hi
    obtain ⟨w1, w2, w3, h1, h2, hne2, h3, hne3, rfl⟩ := (c10_internal_pre_iff s s1).mp hp
    obtain ⟨u, hu, rfl, rfl⟩ := (c10_tail_iff s1 s2 s3).mp ⟨hb, hq⟩
    refine ⟨w1, w2, w3, s3, h1, h2, hne2, h3, hne3, ?_, ?_, ?_⟩
    · simpa using hu
    · simp
    · simp; omega
  · rintro ⟨w1, w2, w3, rest, h1, h2, hne2, h3, hne3, hu, rfl, rfl⟩
    refine ⟨u ++ '"' :: rest, '"' :: rest, rest, ?_, by simp, by simp; omega⟩
    rw [c10_gi_interp_iff]
    have ht := (c10_tail_iff (u ++ '"' :: rest) ('"' :: rest) rest).mpr ⟨u, hu, rfl, rfl⟩
    refine ⟨(c10_internal_pre_iff _ _).mpr ⟨w1, w2, w3, h1, h2, hne2, h3, hne3, by simp⟩, ht.1, ht.2⟩

end Mammoth
