/-
  C01 — `extract_raw_text`: helper definitions and lemmas.
-/
import MammothModel.Convert
namespace Mammoth

@[simp] theorem c01_rawTextL_nil : rawTextL [] = [] := by simp [rawTextL]
@[simp] theorem c01_rawTextL_cons (e : Elem) (es : List Elem) :
    rawTextL (e :: es) = rawText e ++ rawTextL es := by simp [rawTextL]

theorem c01_rawTextL_append (a b : List Elem) : rawTextL (a ++ b) = rawTextL a ++ rawTextL b := by
  induction a with
  | nil => simp
  | cons x xs ih => simp [ih, List.append_assoc]

/-- a paragraph given as (properties, inline children) -/
abbrev c01_Para := ParaProps × List Elem

def c01_paraElem (p : c01_Para) : Elem := .paragraph p.1 p.2

mutual
/-- number of paragraphs anywhere inside the element -/
def c01_paraCount : Elem → Nat
  | .paragraph _ cs => 1 + c01_paraCountL cs
  | .run _ cs => c01_paraCountL cs
  | .hyperlink _ cs => c01_paraCountL cs
  | .table _ _ cs => c01_paraCountL cs
  | .row _ cs => c01_paraCountL cs
  | .cell _ _ _ cs => c01_paraCountL cs
  | _ => 0
def c01_paraCountL : List Elem → Nat
  | [] => 0
  | e :: es => c01_paraCount e + c01_paraCountL es
end

mutual
/-- number of occurrences of the character `ch` in the text and tab leaves of the element -/
def c01_leafCount (ch : Char) : Elem → Nat
  | .text s => s.count ch
  | .tab => if ch = '\t' then 1 else 0
  | .paragraph _ cs => c01_leafCountL ch cs
  | .run _ cs => c01_leafCountL ch cs
  | .hyperlink _ cs => c01_leafCountL ch cs
  | .table _ _ cs => c01_leafCountL ch cs
  | .row _ cs => c01_leafCountL ch cs
  | .cell _ _ _ cs => c01_leafCountL ch cs
  | _ => 0
def c01_leafCountL (ch : Char) : List Elem → Nat
  | [] => 0
  | e :: es => c01_leafCount ch e + c01_leafCountL ch es
end

mutual
theorem c01_count_rawText (ch : Char) (e : Elem) :
    (rawText e).count ch = c01_leafCount ch e + (if ch = '\n' then 2 * c01_paraCount e else 0) := by
  match e with
  | .text s => simp [rawText, c01_leafCount, c01_paraCount]
  | .tab =>
    simp only [rawText, c01_leafCount, c01_paraCount]
    by_cases h : ch = '\t'
    · subst h; simp
    · have : ¬ ('\t' = ch) := fun h' => h h'.symm
      simp [h, this]
  | .paragraph p cs =>
    simp only [rawText, c01_leafCount, c01_paraCount, List.count_append, c01_count_rawTextL ch cs]
    by_cases h : ch = '\n'
    · subst h; simp; omega
    · have : ¬ ('\n' = ch) := fun h' => h h'.symm
      simp [h, this]
  | .run _ cs => simp only [rawText, c01_leafCount, c01_paraCount, c01_count_rawTextL ch cs]
  | .hyperlink _ cs => simp only [rawText, c01_leafCount, c01_paraCount, c01_count_rawTextL ch cs]
  | .table _ _ cs => simp only [rawText, c01_leafCount, c01_paraCount, c01_count_rawTextL ch cs]
  | .row _ cs => simp only [rawText, c01_leafCount, c01_paraCount, c01_count_rawTextL ch cs]
  | .cell _ _ _ cs => simp only [rawText, c01_leafCount, c01_paraCount, c01_count_rawTextL ch cs]
  | .checkbox _ => simp [rawText, c01_leafCount, c01_paraCount]
  | .brk _ => simp [rawText, c01_leafCount, c01_paraCount]
  | .image _ => simp [rawText, c01_leafCount, c01_paraCount]
  | .bookmark _ => simp [rawText, c01_leafCount, c01_paraCount]
  | .noteRef _ _ => simp [rawText, c01_leafCount, c01_paraCount]
  | .commentRef _ => simp [rawText, c01_leafCount, c01_paraCount]
theorem c01_count_rawTextL (ch : Char) (es : List Elem) :
    (rawTextL es).count ch = c01_leafCountL ch es + (if ch = '\n' then 2 * c01_paraCountL es else 0) := by
  match es with
  | [] => simp [c01_leafCountL, c01_paraCountL]
  | e :: es =>
    simp only [c01_rawTextL_cons, List.count_append, c01_count_rawText ch e, c01_count_rawTextL ch es,
      c01_leafCountL, c01_paraCountL]
    split <;> omega
end

theorem c01_rawTextL_paras (ps : List c01_Para) :
    rawTextL (ps.map c01_paraElem) = concatStr (ps.map fun p => rawTextL p.2 ++ S!"\n\n") := by
  induction ps with
  | nil => simp [concatStr]
  | cons p ps ih => simp [concatStr, c01_paraElem, rawText, ih]

end Mammoth
