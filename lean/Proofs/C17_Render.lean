/-
  C17 — the `img` elements survive rendering.

  `c17_imgGood ns`: every element named `img` is childless, and no tag that could be merged with an `img`
  (a tag having `img` among its names) is collapsible.  The converter's forest is like that when no style
  mapping mentions `img` (`Proofs/C17_RenderVisit.lean`).  For such forests `strip_empty` keeps every `img`
  (it is void) and `collapse` never merges anything into or with one: the sequence of `img` tags of
  `collapse (strip_empty ns)` is that of `ns`, and the written HTML has exactly these `<img … />` tags.
-/
import Proofs.C17_Visit
import Proofs.C02_AllTags
namespace Mammoth

/-- the condition on one element -/
def c17_imgGoodTag (t : Tag) (cs : List Node) : Bool :=
  (t.name != S!"img" || cs.isEmpty) && (!(t.names.contains S!"img") || !t.collapsible)

mutual
def c17_imgGoodN : Node → Bool
  | .elem t cs => c17_imgGoodTag t cs && c17_imgGood cs
  | .text _ => true
  | .forceWrite => true
def c17_imgGood : List Node → Bool
  | [] => true
  | c :: cs => c17_imgGoodN c && c17_imgGood cs
end

@[simp] theorem c17_imgGood_nil : c17_imgGood [] = true := by simp [c17_imgGood]
@[simp] theorem c17_imgGood_cons (c : Node) (cs : List Node) :
    c17_imgGood (c :: cs) = (c17_imgGoodN c && c17_imgGood cs) := by simp [c17_imgGood]
@[simp] theorem c17_imgGoodN_text (s : Str) : c17_imgGoodN (.text s) = true := by simp [c17_imgGoodN]
@[simp] theorem c17_imgGoodN_fw : c17_imgGoodN .forceWrite = true := by simp [c17_imgGoodN]
theorem c17_imgGoodN_elem (t : Tag) (cs : List Node) :
    c17_imgGoodN (.elem t cs) = (c17_imgGoodTag t cs && c17_imgGood cs) := by simp [c17_imgGoodN]

theorem c17_imgGood_append (a b : List Node) : c17_imgGood (a ++ b) = (c17_imgGood a && c17_imgGood b) := by
  induction a with
  | nil => simp
  | cons x xs ih => simp [ih, Bool.and_assoc]

theorem c17_imgGood_sepText (t : Tag) : c17_imgGood (sepText t) = true ∧ c17_imgs (sepText t) = [] := by
  unfold sepText
  split
  · split <;> simp
  · simp

/-- a good element named `img` has no children -/
theorem c17_good_img_void {t : Tag} {cs : List Node} (h : c17_imgGoodTag t cs = true) (hn : t.name = S!"img") :
    cs = [] := by
  simp only [c17_imgGoodTag, Bool.and_eq_true, Bool.or_eq_true, bne_iff_ne, ne_eq, List.isEmpty_iff] at h
  rcases h.1 with h1 | h1
  · exact absurd hn h1
  · exact h1

/-- a good collapsible tag does not have `img` among its names -/
theorem c17_good_collapsible {t : Tag} {cs : List Node} (h : c17_imgGoodTag t cs = true)
    (hc : t.collapsible = true) : t.names.contains S!"img" = false := by
  simp only [c17_imgGoodTag, Bool.and_eq_true, Bool.or_eq_true, Bool.not_eq_true'] at h
  rcases h.2 with h2 | h2
  · exact h2
  · rw [hc] at h2; cases h2

theorem c17_voidNames_img : voidNames.contains S!"img" = true := by decide

/-! ### strip_empty -/
mutual
theorem c17_strip_node (n : Node) (h : c17_imgGoodN n = true) :
    c17_imgGood (stripNode n) = true ∧ c17_imgs (stripNode n) = c17_imgsN n := by
  match n with
  | .text s => unfold stripNode; split <;> simp
  | .forceWrite => simp [stripNode]
  | .elem t cs =>
    simp only [c17_imgGoodN_elem, Bool.and_eq_true] at h
    obtain ⟨ih1, ih2⟩ := c17_strip_list cs h.2
    unfold stripNode
    simp only []
    by_cases hn : t.name = S!"img"
    · have hcs := c17_good_img_void h.1 hn
      subst hcs
      have hv : isVoid t [] = true := by
        simp only [isVoid, List.isEmpty_nil, Bool.true_and, hn]; exact c17_voidNames_img
      simp [stripList, hv, c17_imgGoodN_elem, h.1, c17_imgsN_elem]
    · split
      · rename_i hd
        simp only [Bool.and_eq_true, List.isEmpty_iff] at hd
        rw [hd.1] at ih2
        simp [c17_imgsN_elem, hn, ← ih2]
      · have hg : c17_imgGoodTag t (stripList cs) = true := by
          simp only [c17_imgGoodTag, Bool.and_eq_true, Bool.or_eq_true, bne_iff_ne, ne_eq] at h ⊢
          exact ⟨Or.inl hn, h.1.2⟩
        simp [c17_imgGoodN_elem, hg, ih1, c17_imgsN_elem, ih2]
theorem c17_strip_list (ns : List Node) (h : c17_imgGood ns = true) :
    c17_imgGood (stripList ns) = true ∧ c17_imgs (stripList ns) = c17_imgs ns := by
  match ns with
  | [] => simp [stripList]
  | c :: cs =>
    simp only [c17_imgGood_cons, Bool.and_eq_true] at h
    obtain ⟨a1, a2⟩ := c17_strip_node c h.1
    obtain ⟨b1, b2⟩ := c17_strip_list cs h.2
    unfold stripList
    simp [c17_imgGood_append, c17_imgs_append, a1, a2, b1, b2]
end

/-! ### collapse -/
mutual
theorem c17_addC (acc : List Node) (n : Node) (ha : c17_imgGood acc = true) (h : c17_imgGoodN n = true) :
    c17_imgGood (addC acc n) = true ∧ c17_imgs (addC acc n) = c17_imgs acc ++ c17_imgsN n := by
  match n with
  | .text s => simp [addC_text, c17_imgGood_append, c17_imgs_append, ha]
  | .forceWrite => simp [addC_fw, c17_imgGood_append, c17_imgs_append, ha]
  | .elem t cs =>
    have h' := h
    simp only [c17_imgGoodN_elem, Bool.and_eq_true] at h'
    unfold addC
    split
    · rename_i lt lcs hl
      split
      · rename_i hcm
        simp only [Bool.and_eq_true] at hcm
        have hacc := getLast?_eq_some_append acc _ hl
        have ha' := ha
        rw [hacc, c17_imgGood_append] at ha'
        simp only [Bool.and_eq_true, c17_imgGood_cons, c17_imgGoodN_elem, c17_imgGood_nil, and_true] at ha'
        obtain ⟨hinit, hlt, hlcs⟩ := ha'
        -- the merged tag does not have `img` among its names
        have hnot := c17_good_collapsible h'.1 hcm.1
        have htn : t.name ≠ S!"img" := by
          intro e
          have : t.names.contains S!"img" = true := by simp [Tag.names, e]
          rw [hnot] at this; cases this
        have hltn : lt.name ≠ S!"img" := by
          intro e
          have hm := hcm.2
          simp only [isMatch, Bool.and_eq_true] at hm
          rw [e, hnot] at hm
          cases hm.1
        have hsep := c17_imgGood_sepText t
        have hl2 : c17_imgGood (lcs ++ sepText t) = true := by simp [c17_imgGood_append, hlcs, hsep.1]
        obtain ⟨g1, g2⟩ := c17_addAllC (lcs ++ sepText t) cs hl2 h'.2
        have hgt : c17_imgGoodTag lt (addAllC (lcs ++ sepText t) cs) = true := by
          simp only [c17_imgGoodTag, Bool.and_eq_true, Bool.or_eq_true, bne_iff_ne, ne_eq] at hlt ⊢
          exact ⟨Or.inl hltn, hlt.2⟩
        refine ⟨by simp [c17_imgGood_append, hinit, c17_imgGoodN_elem, hgt, g1], ?_⟩
        conv => rhs; rw [hacc]
        simp [c17_imgs_append, c17_imgsN_elem, g2, hsep.2, htn, hltn, List.append_assoc]
      · simp [c17_imgGood_append, c17_imgs_append, ha, h]
    · simp [c17_imgGood_append, c17_imgs_append, ha, h]
theorem c17_addAllC (acc ns : List Node) (ha : c17_imgGood acc = true) (h : c17_imgGood ns = true) :
    c17_imgGood (addAllC acc ns) = true ∧ c17_imgs (addAllC acc ns) = c17_imgs acc ++ c17_imgs ns := by
  match ns with
  | [] => simp [ha]
  | c :: cs =>
    simp only [c17_imgGood_cons, Bool.and_eq_true] at h
    obtain ⟨a1, a2⟩ := c17_addC acc c ha h.1
    obtain ⟨b1, b2⟩ := c17_addAllC (addC acc c) cs a1 h.2
    simp only [addAllC_cons]
    exact ⟨b1, by rw [b2, a2]; simp [List.append_assoc]⟩
end

mutual
theorem c17_collapseNode (n : Node) (h : c17_imgGoodN n = true) :
    c17_imgGoodN (collapseNode n) = true ∧ c17_imgsN (collapseNode n) = c17_imgsN n := by
  match n with
  | .text s => simp [collapseNode]
  | .forceWrite => simp [collapseNode]
  | .elem t cs =>
    simp only [c17_imgGoodN_elem, Bool.and_eq_true] at h
    obtain ⟨i1, i2⟩ := c17_collapseFrom [] cs (by simp) h.2
    simp only [collapseNode, c17_imgGoodN_elem, Bool.and_eq_true, c17_imgsN_elem]
    refine ⟨⟨?_, i1⟩, by rw [i2]; simp⟩
    by_cases hn : t.name = S!"img"
    · have hcs := c17_good_img_void h.1 hn
      subst hcs
      simpa [collapseFrom] using h.1
    · simp only [c17_imgGoodTag, Bool.and_eq_true, Bool.or_eq_true, bne_iff_ne, ne_eq] at h ⊢
      exact ⟨Or.inl hn, h.1.2⟩
theorem c17_collapseFrom (acc ns : List Node) (ha : c17_imgGood acc = true) (h : c17_imgGood ns = true) :
    c17_imgGood (collapseFrom acc ns) = true ∧ c17_imgs (collapseFrom acc ns) = c17_imgs acc ++ c17_imgs ns := by
  match ns with
  | [] => simp [collapseFrom, ha]
  | c :: cs =>
    simp only [c17_imgGood_cons, Bool.and_eq_true] at h
    obtain ⟨n1, n2⟩ := c17_collapseNode c h.1
    obtain ⟨a1, a2⟩ := c17_addC acc (collapseNode c) ha n1
    obtain ⟨b1, b2⟩ := c17_collapseFrom (addC acc (collapseNode c)) cs a1 h.2
    unfold collapseFrom
    exact ⟨b1, by rw [b2, a2, n2]; simp [List.append_assoc]⟩
end

/-- the `img` tags of `collapse (strip_empty ns)` are those of `ns`, in order -/
theorem c17_imgs_render (ns : List Node) (h : c17_imgGood ns = true) :
    c17_imgs (collapse (stripEmpty ns)) = c17_imgs ns ∧ c17_imgGood (collapse (stripEmpty ns)) = true := by
  obtain ⟨s1, s2⟩ := c17_strip_list ns h
  obtain ⟨c1, c2⟩ := c17_collapseFrom [] (stripList ns) (by simp) s1
  exact ⟨by simpa [collapse, stripEmpty, s2] using c2, c1⟩

/-! ### the written HTML -/

/-- the attribute lists of the `img` start tags (`<img …>` or `<img … />`) among the tokens, in order -/
def c17_tokImgs : List c02_Tok → List (List (Str × Str))
  | [] => []
  | .start n as :: r => (if n = S!"img" then [as] else []) ++ c17_tokImgs r
  | .selfClose n as :: r => (if n = S!"img" then [as] else []) ++ c17_tokImgs r
  | .end _ :: r => c17_tokImgs r
  | .text _ :: r => c17_tokImgs r

/-- the void ones only: `<img … />` -/
def c17_tokVoidImgs : List c02_Tok → List (List (Str × Str))
  | [] => []
  | .selfClose n as :: r => (if n = S!"img" then [as] else []) ++ c17_tokVoidImgs r
  | _ :: r => c17_tokVoidImgs r

theorem c17_tokImgs_append (a b : List c02_Tok) : c17_tokImgs (a ++ b) = c17_tokImgs a ++ c17_tokImgs b := by
  induction a with
  | nil => simp [c17_tokImgs]
  | cons t ts ih => cases t <;> simp [c17_tokImgs, ih]

theorem c17_tokVoidImgs_append (a b : List c02_Tok) :
    c17_tokVoidImgs (a ++ b) = c17_tokVoidImgs a ++ c17_tokVoidImgs b := by
  induction a with
  | nil => simp [c17_tokVoidImgs]
  | cons t ts ih => cases t <;> simp [c17_tokVoidImgs, ih]

theorem c17_tokImgs_markup (ts : List c02_Tok) : c17_tokImgs (c02_tokMarkup ts) = c17_tokImgs ts := by
  induction ts with
  | nil => rfl
  | cons t ts ih => cases t <;> simp [c02_tokMarkup, c17_tokImgs, ih]

theorem c17_tokVoidImgs_markup (ts : List c02_Tok) : c17_tokVoidImgs (c02_tokMarkup ts) = c17_tokVoidImgs ts := by
  induction ts with
  | nil => rfl
  | cons t ts ih => cases t <;> simp [c02_tokMarkup, c17_tokVoidImgs, ih]

mutual
theorem c17_tokImgs_tokensN (n : Node) : c17_tokImgs (c02_tokensN n) = (c17_imgsN n).map (·.attrs) := by
  match n with
  | .text s => simp [c17_tokImgs]
  | .forceWrite => simp [c17_tokImgs]
  | .elem t cs =>
    rw [c02_tokensN_elem, c17_imgsN_elem]
    by_cases hv : isVoid t cs = true
    · have hcs : cs = [] := by
        simp only [isVoid, Bool.and_eq_true, List.isEmpty_iff] at hv; exact hv.1
      subst hcs
      simp only [hv, if_true, c17_tokImgs, c17_imgs_nil, List.append_nil]
      split <;> simp
    · simp only [hv, Bool.false_eq_true, if_false, c17_tokImgs_append, c17_tokImgs, List.append_nil,
        c17_tokImgs_tokens cs, List.map_append, List.cons_append, List.nil_append]
      split <;> simp
theorem c17_tokImgs_tokens (ns : List Node) : c17_tokImgs (c02_tokens ns) = (c17_imgs ns).map (·.attrs) := by
  match ns with
  | [] => simp [c17_tokImgs]
  | c :: cs => simp [c17_tokImgs_append, c17_tokImgs_tokensN c, c17_tokImgs_tokens cs]
end

mutual
theorem c17_tokVoidImgs_tokensN (n : Node) (h : c17_imgGoodN n = true) :
    c17_tokVoidImgs (c02_tokensN n) = (c17_imgsN n).map (·.attrs) := by
  match n with
  | .text s => simp [c17_tokVoidImgs]
  | .forceWrite => simp [c17_tokVoidImgs]
  | .elem t cs =>
    simp only [c17_imgGoodN_elem, Bool.and_eq_true] at h
    rw [c02_tokensN_elem, c17_imgsN_elem]
    by_cases hn : t.name = S!"img"
    · have hcs := c17_good_img_void h.1 hn
      subst hcs
      have hv : isVoid t [] = true := by
        simp only [isVoid, List.isEmpty_nil, Bool.true_and, hn]; exact c17_voidNames_img
      simp [hv, c17_tokVoidImgs, hn]
    · by_cases hv : isVoid t cs = true
      · have hcs : cs = [] := by
          simp only [isVoid, Bool.and_eq_true, List.isEmpty_iff] at hv; exact hv.1
        subst hcs
        simp [hv, c17_tokVoidImgs, hn]
      · simp only [hv, Bool.false_eq_true, if_false, c17_tokVoidImgs_append, c17_tokVoidImgs, List.append_nil,
          c17_tokVoidImgs_tokens cs h.2, List.singleton_append, hn, List.nil_append]
theorem c17_tokVoidImgs_tokens (ns : List Node) (h : c17_imgGood ns = true) :
    c17_tokVoidImgs (c02_tokens ns) = (c17_imgs ns).map (·.attrs) := by
  match ns with
  | [] => simp [c17_tokVoidImgs]
  | c :: cs =>
    simp only [c17_imgGood_cons, Bool.and_eq_true] at h
    simp [c17_tokVoidImgs_append, c17_tokVoidImgs_tokensN c h.1, c17_tokVoidImgs_tokens cs h.2]
end

theorem c17_lex_write (ns : List Node) (hp : c02_plainNames ns = true) :
    c02_lexHtml (writeHtml ns) = some (c02_coalesce (c02_tokens ns)) := by
  simp [c02_lexHtml, writeHtml, c02_run_writeList ns hp, c02_coalesce]

/-- THE WRITTEN HTML.  For a forest with plain tag and attribute names in which `img` elements are
    childless and unmergeable, the strict lexer accepts `render ns`, and the `img` start tags it finds —
    all of them of the void form `<img … />` — carry, in order, exactly the attribute lists of the `img`
    elements of `ns` (values decoded back to the original strings). -/
theorem c17_written_imgs (ns : List Node) (hp : c02_plainNames ns = true) (hg : c17_imgGood ns = true) :
    ∃ toks, c02_lexHtml (render ns) = some toks ∧
      c17_tokImgs toks = (c17_imgs ns).map (·.attrs) ∧
      c17_tokVoidImgs toks = (c17_imgs ns).map (·.attrs) := by
  have hp' := c02_plainNames_render ns hp
  obtain ⟨r1, r2⟩ := c17_imgs_render ns hg
  refine ⟨_, c17_lex_write _ hp', ?_, ?_⟩
  · rw [← c17_tokImgs_markup, c02_tokMarkup_coalesce, c17_tokImgs_markup, c17_tokImgs_tokens, r1]
  · rw [← c17_tokVoidImgs_markup, c02_tokMarkup_coalesce, c17_tokVoidImgs_markup,
      c17_tokVoidImgs_tokens _ r2, r1]

end Mammoth
