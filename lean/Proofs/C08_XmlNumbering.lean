/-
  C08, from the XML — the numbering definitions as `readNumberingXml` reads them from numbering.xml: every level of an
  abstract numbering is filed under its own `w:ilvl`, and is ordered iff its `w:numFmt` is not `bullet`.
-/
import Proofs.C08_Xml
import Proofs.C01_ReadAtoms
namespace Mammoth

theorem c08x_findChildren (name : Str) (ns : List XmlNode) : findChildren name ns = c11x_named name ns := by
  induction ns with
  | nil => rfl
  | cons n ns ih =>
    cases n with
    | text s => simpa [findChildren, c11x_named] using ih
    | elem m as cs =>
      by_cases h : m = name
      · simp [findChildren, c11x_named, h] at ih ⊢; exact ih
      · simp [findChildren, c11x_named, h] at ih ⊢; exact ih

theorem c08x_mapM_mem {α β} (f : α → Except Err β) : ∀ (l : List α) (bs : List β), l.mapM f = .ok bs →
    ∀ b ∈ bs, ∃ a ∈ l, f a = .ok b := by
  intro l
  induction l with
  | nil =>
    intro bs h b hb
    simp only [List.mapM_nil, pure, Except.pure, Except.ok.injEq] at h
    subst h; cases hb
  | cons a l ih =>
    intro bs h b hb
    rw [List.mapM_cons] at h
    cases hfa : f a with
    | error e => rw [hfa] at h; cases h
    | ok b1 =>
      cases hl : l.mapM f with
      | error e => rw [hfa, hl] at h; cases h
      | ok bs1 =>
        rw [hfa, hl] at h
        simp only [bind, Except.bind, pure, Except.pure, Except.ok.injEq] at h
        subst h
        rcases List.mem_cons.mp hb with rfl | hb'
        · exact ⟨a, List.mem_cons_self, hfa⟩
        · obtain ⟨a', ha', hfa'⟩ := ih bs1 hl b hb'
          exact ⟨a', List.mem_cons_of_mem _ ha', hfa'⟩

/-- the level `l` filed under `key` comes from a `w:lvl` element with `w:ilvl` = `key`; it is ordered iff that
    element's `w:numFmt/@w:val` is not `bullet`; its paragraph style is that element's `w:pStyle/@w:val` -/
def c08x_levelFrom (lvls : List (Attrs × List XmlNode)) (key : Str) (l : AbsLevel) : Prop :=
  l.levelIndex = key ∧
  ∃ p ∈ lvls, c11x_attr S!"w:ilvl" p.1 = some key ∧
    l.isOrdered = decide ((c11x_propVal S!"w:numFmt" p.2).join ≠ some S!"bullet") ∧
    l.pStyle = (c11x_propVal S!"w:pStyle" p.2).join

theorem c08x_readAbsLevel (las : Attrs) (lcs : List XmlNode) (l : AbsLevel) (h : readAbsLevel las lcs = .ok l) :
    c11x_attr S!"w:ilvl" las = some l.levelIndex ∧
    l.isOrdered = decide ((c11x_propVal S!"w:numFmt" lcs).join ≠ some S!"bullet") ∧
    l.pStyle = (c11x_propVal S!"w:pStyle" lcs).join := by
  unfold readAbsLevel at h
  rw [c11x_attr_eq, c11x_childAttr, c11x_childAttr] at h
  cases hi : c11x_attr S!"w:ilvl" las with
  | none => rw [hi] at h; cases h
  | some ilvl =>
    rw [hi] at h
    cases h
    refine ⟨rfl, ?_, rfl⟩
    cases (c11x_propVal S!"w:numFmt" lcs).join with
    | none => rfl
    | some v => by_cases hv : v = S!"bullet" <;> simp [hv]

/-- NUMBERING DEFINITIONS FROM numbering.xml.  If `readNumberingXml` succeeds with `n`, every abstract numbering of `n`
    comes from a `w:abstractNum` child of the root with that `w:abstractNumId`, carries that element's
    `w:numStyleLink`, and each of its levels comes from one of that element's `w:lvl` children (`c08x_levelFrom`);
    every num comes from a `w:num` child with that `w:numId` whose `w:abstractNumId/@w:val` is the abstract id. -/
theorem c08x_readNumberingXml (root : List XmlNode) (styles : Styles) (n : Numbering)
    (h : readNumberingXml root styles = .ok n) :
    n.styles = styles ∧
    (∀ e ∈ n.abstractNums, ∃ p ∈ c11x_named S!"w:abstractNum" root,
        e.1 = c11x_attr S!"w:abstractNumId" p.1 ∧
        e.2.numStyleLink = (c11x_propVal S!"w:numStyleLink" p.2).join ∧
        ∀ q ∈ e.2.levels, c08x_levelFrom (c11x_named S!"w:lvl" p.2) q.1 q.2) ∧
    (∀ e ∈ n.nums, ∃ p ∈ c11x_named S!"w:num" root,
        e.1 = c11x_attr S!"w:numId" p.1 ∧ (c11x_propVal S!"w:abstractNumId" p.2).join = some e.2) := by
  unfold readNumberingXml at h
  obtain ⟨abs, habs, h⟩ := c01_bind_ok h
  obtain ⟨nums, hnums, h⟩ := c01_bind_ok h
  simp only [pure, Except.pure, Except.ok.injEq] at h
  subst h
  refine ⟨rfl, ?_, ?_⟩
  · intro e he
    obtain ⟨p, hp, hf⟩ := c08x_mapM_mem _ _ _ habs e he
    obtain ⟨as, cs⟩ := p
    rw [c08x_findChildren] at hp
    refine ⟨(as, cs), hp, ?_⟩
    dsimp only at hf
    obtain ⟨lvls, hlvls, hf⟩ := c01_bind_ok hf
    simp only [pure, Except.pure, Except.ok.injEq] at hf
    subst hf
    refine ⟨c11x_attr_eq _ _, c11x_childAttr _ _, ?_⟩
    intro q hq
    simp only [List.mem_map] at hq
    obtain ⟨l, hl, rfl⟩ := hq
    obtain ⟨lp, hlp, hlf⟩ := c08x_mapM_mem _ _ _ hlvls l hl
    obtain ⟨las, lcs⟩ := lp
    rw [c08x_findChildren] at hlp
    obtain ⟨h1, h2, h3⟩ := c08x_readAbsLevel las lcs l hlf
    exact ⟨rfl, (las, lcs), hlp, h1, h2, h3⟩
  · intro e he
    obtain ⟨p, hp, hf⟩ := c08x_mapM_mem _ _ _ hnums e he
    obtain ⟨as, cs⟩ := p
    rw [c08x_findChildren] at hp
    refine ⟨(as, cs), hp, ?_⟩
    dsimp only at hf
    rw [c11x_childAttr] at hf
    cases hv : (c11x_propVal S!"w:abstractNumId" cs).join with
    | none => rw [hv] at hf; cases hf
    | some a =>
      rw [hv] at hf
      simp only [pure, Except.pure, Except.ok.injEq] at hf
      subst hf
      exact ⟨c11x_attr_eq _ _, rfl⟩

/-- A PARAGRAPH'S OWN NUMBERING, DIRECT CASE: the `w:numPr` names num `numId` and level `lvl`; the num points to an
    abstract numbering without a numbering-style link that has a level filed under `lvl`.  Then the numbering of the
    paragraph is that level. -/
theorem c08x_numbering_direct (env : REnv) (pPr : List XmlNode) (numId lvl absId : Str) (an : AbstractNum)
    (l : AbsLevel)
    (hnp : c08x_numPr pPr = (some numId, some lvl))
    (h1 : lookupLast (some numId) env.numbering.nums = some absId)
    (h2 : lookupLast (some absId) env.numbering.abstractNums = some an)
    (h3 : an.numStyleLink = none)
    (h4 : lookupLast lvl an.levels = some l) :
    c08x_numbering env pPr = .ok (some ⟨l.levelIndex, l.isOrdered⟩) := by
  unfold c08x_numbering
  rw [hnp]
  simp [findLevel, h1, h2, h3, h4, toNumLevel]

/-- …and when the definitions were read from numbering.xml, that level's index is `lvl` itself and it is ordered iff
    the `w:numFmt` of its `w:lvl` element is not `bullet` -/
theorem c08x_numbering_direct_xml (env : REnv) (root : List XmlNode) (styles : Styles)
    (pPr : List XmlNode) (numId lvl absId : Str) (an : AbstractNum) (l : AbsLevel)
    (hn : readNumberingXml root styles = .ok env.numbering)
    (hnp : c08x_numPr pPr = (some numId, some lvl))
    (h1 : lookupLast (some numId) env.numbering.nums = some absId)
    (h2 : lookupLast (some absId) env.numbering.abstractNums = some an)
    (h3 : an.numStyleLink = none)
    (h4 : lookupLast lvl an.levels = some l) :
    c08x_numbering env pPr = .ok (some ⟨lvl, l.isOrdered⟩) ∧
    ∃ ap ∈ c11x_named S!"w:abstractNum" root, c11x_attr S!"w:abstractNumId" ap.1 = some absId ∧
      ∃ lp ∈ c11x_named S!"w:lvl" ap.2, c11x_attr S!"w:ilvl" lp.1 = some lvl ∧
        l.isOrdered = decide ((c11x_propVal S!"w:numFmt" lp.2).join ≠ some S!"bullet") := by
  obtain ⟨_, habs, _⟩ := c08x_readNumberingXml root styles _ hn
  obtain ⟨ap, hap, hid, _, hlv⟩ := habs _ (c05_lookupLast_mem _ _ _ h2)
  obtain ⟨hidx, lp, hlp, hil, hord, _⟩ := hlv _ (c05_lookupLast_mem _ _ _ h4)
  refine ⟨?_, ap, hap, hid.symm, lp, hlp, hil, hord⟩
  rw [c08x_numbering_direct env pPr numId lvl absId an l hnp h1 h2 h3 h4]
  simp only at hidx
  rw [hidx]

end Mammoth
