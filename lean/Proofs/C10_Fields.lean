/-
  C10 helpers, part 2: the complex-field state machine (`read_fld_char` on the stack of open fields) and
  `current_hyperlink_kwargs`; the reader branches for `w:fldChar`, `w:instrText`, `w:bookmarkStart`,
  `w:r`, `w:hyperlink` as equations.
-/
import MammothModel.Reader
namespace Mammoth

inductive c10_fldKind where
  | begin | end_ | separate | other
deriving DecidableEq, Repr

/-- the kind of a `w:fldChar`, by its `w:fldCharType` attribute -/
def c10_kind (as : Attrs) : c10_fldKind :=
  let ty := attr? S!"w:fldCharType" as
  if ty == some S!"begin" then .begin
  else if ty == some S!"end" then .end_
  else if ty == some S!"separate" then .separate
  else .other

/-- the events that touch the reader state: `w:fldChar` and `w:instrText` -/
inductive c10_ev where
  | fld (as : Attrs) (cs : List XmlNode)
  | instr (text : Str)

def c10_step (st : RState) : c10_ev → Except Err RState
  | .fld as cs => (readFldChar st as cs).map (·.2)
  | .instr t => .ok { st with instr := st.instr ++ t }

def c10_run : RState → List c10_ev → Except Err RState
  | st, [] => .ok st
  | st, e :: es =>
    match c10_step st e with
    | .ok st' => c10_run st' es
    | .error err => .error err

/-- starting at depth `d`, no `end`/`separate` ever meets an empty stack -/
def c10_wellNested : Nat → List c10_ev → Bool
  | _, [] => true
  | d, .instr _ :: es => c10_wellNested d es
  | d, .fld as _ :: es =>
    match c10_kind as with
    | .begin => c10_wellNested (d + 1) es
    | .end_ => decide (0 < d) && c10_wellNested (d - 1) es
    | .separate => decide (0 < d) && c10_wellNested d es
    | .other => c10_wellNested d es

def c10_isKind (k : c10_fldKind) : c10_ev → Bool
  | .fld as _ => c10_kind as == k
  | .instr _ => false

def c10_begins (es : List c10_ev) : Nat := (es.filter (c10_isKind .begin)).length
def c10_ends (es : List c10_ev) : Nat := (es.filter (c10_isKind .end_)).length

theorem c10_fld_begin (st : RState) (as : Attrs) (cs : List XmlNode) (h : c10_kind as = .begin) :
    readFldChar st as cs = .ok ({}, { st with stack := .begin cs :: st.stack, instr := [] }) := by
  unfold c10_kind at h
  unfold readFldChar
  simp only at h ⊢
  split
  · rfl
  · rename_i h1; simp [h1] at h; split at h <;> (try split at h) <;> cases h

theorem c10_fld_separate (st : RState) (as : Attrs) (cs : List XmlNode) (h : c10_kind as = .separate) :
    readFldChar st as cs =
      match st.stack with
      | [] => .error (.index S!"pop from empty list")
      | top :: rest => .ok ({}, { st with stack := parseCurrentInstr st top :: rest }) := by
  unfold c10_kind at h
  unfold readFldChar
  simp only at h ⊢
  split
  · rename_i h1; simp [h1] at h
  · split
    · rename_i h1 h2; simp [h1, h2] at h
    · split
      · rfl
      · rename_i h1 h2 h3; simp [h1, h2, h3] at h

theorem c10_fld_other (st : RState) (as : Attrs) (cs : List XmlNode) (h : c10_kind as = .other) :
    readFldChar st as cs = .ok ({}, st) := by
  unfold c10_kind at h
  unfold readFldChar
  simp only at h ⊢
  split
  · rename_i h1; simp [h1] at h
  · split
    · rename_i h1 h2; simp [h1, h2] at h
    · split
      · rename_i h1 h2 h3; simp [h1, h2, h3] at h
      · rfl

/-- what `end` emits: a checkbox field yields its checkbox, every other field nothing -/
def c10_endField (st : RState) (top : Field) : Field :=
  match top with
  | .begin _ => parseCurrentInstr st top
  | other => other

def c10_endResult : Field → ReadResult
  | .checkbox c => rrElems [.checkbox c]
  | _ => {}

theorem c10_fld_end (st : RState) (as : Attrs) (cs : List XmlNode) (h : c10_kind as = .end_) :
    readFldChar st as cs =
      match st.stack with
      | [] => .error (.index S!"pop from empty list")
      | top :: rest => .ok (c10_endResult (c10_endField st top), { st with stack := rest }) := by
  unfold c10_kind at h
  unfold readFldChar
  simp only at h ⊢
  split
  · rename_i h1; simp [h1] at h
  · split
    · cases st.stack with
      | nil => rfl
      | cons top rest =>
        have key : ∀ (fld : Field) (s : RState),
            (match fld with
              | .checkbox c => (Except.ok (rrElems [.checkbox c], s) : Except Err (ReadResult × RState))
              | _ => .ok ({}, s)) = .ok (c10_endResult fld, s) := by
          intro fld s; cases fld <;> rfl
        exact key _ _
    · rename_i h1 h2; simp [h1, h2] at h; split at h <;> cases h


theorem c10_counts_instr (t : Str) (es : List c10_ev) :
    c10_begins (.instr t :: es) = c10_begins es ∧ c10_ends (.instr t :: es) = c10_ends es := by
  simp [c10_begins, c10_ends, c10_isKind]

theorem c10_counts_fld (as : Attrs) (cs : List XmlNode) (es : List c10_ev) :
    c10_begins (.fld as cs :: es) = (if c10_kind as = .begin then 1 else 0) + c10_begins es ∧
    c10_ends (.fld as cs :: es) = (if c10_kind as = .end_ then 1 else 0) + c10_ends es := by
  simp only [c10_begins, c10_ends, List.filter_cons, c10_isKind, beq_iff_eq]
  constructor <;> split <;> simp <;> omega

theorem c10_step_fld (st : RState) (as : Attrs) (cs : List XmlNode) :
    c10_step st (.fld as cs) = (readFldChar st as cs).map (·.2) := rfl

theorem c10_run_ok : ∀ (evs : List c10_ev) (st : RState), c10_wellNested st.stack.length evs = true →
    ∃ st', c10_run st evs = .ok st' ∧ st'.stack.length + c10_ends evs = st.stack.length + c10_begins evs
  | [], st, _ => ⟨st, rfl, by simp [c10_begins, c10_ends]⟩
  | .instr t :: es, st, h => by
    simp only [c10_wellNested] at h
    obtain ⟨st', h1, h2⟩ := c10_run_ok es { st with instr := st.instr ++ t } h
    refine ⟨st', by simpa [c10_run, c10_step] using h1, ?_⟩
    rw [(c10_counts_instr t es).1, (c10_counts_instr t es).2]; exact h2
  | .fld as cs :: es, st, h => by
    simp only [c10_wellNested] at h
    have hc := c10_counts_fld as cs es
    rw [hc.1, hc.2]
    cases hk : c10_kind as with
    | begin =>
      simp only [hk] at h
      obtain ⟨st', h1, h2⟩ := c10_run_ok es { st with stack := .begin cs :: st.stack, instr := [] } h
      refine ⟨st', ?_, ?_⟩
      · simp only [c10_run, c10_step_fld, c10_fld_begin st as cs hk]; exact h1
      · simp only [List.length_cons] at h2; simp; omega
    | other =>
      simp only [hk] at h
      obtain ⟨st', h1, h2⟩ := c10_run_ok es st h
      refine ⟨st', ?_, ?_⟩
      · simp only [c10_run, c10_step_fld, c10_fld_other st as cs hk]; exact h1
      · simp; omega
    | separate =>
      simp only [hk, Bool.and_eq_true, decide_eq_true_eq] at h
      cases hs : st.stack with
      | nil => simp [hs] at h
      | cons top rest =>
        have h' : c10_wellNested (RState.stack { st with stack := parseCurrentInstr st top :: rest }).length es = true := by
          simpa [hs] using h.2
        obtain ⟨st', h1, h2⟩ := c10_run_ok es _ h'
        refine ⟨st', ?_, ?_⟩
        · simp only [c10_run, c10_step_fld, c10_fld_separate st as cs hk, hs]; exact h1
        · simp only [List.length_cons] at h2; simp; omega
    | end_ =>
      simp only [hk, Bool.and_eq_true, decide_eq_true_eq] at h
      cases hs : st.stack with
      | nil => simp [hs] at h
      | cons top rest =>
        have h' : c10_wellNested (RState.stack { st with stack := rest }).length es = true := by
          simpa [hs] using h.2
        obtain ⟨st', h1, h2⟩ := c10_run_ok es _ h'
        refine ⟨st', ?_, ?_⟩
        · simp only [c10_run, c10_step_fld, c10_fld_end st as cs hk, hs]; exact h1
        · simp only [List.length_cons] at h2 ⊢; simp; omega

theorem c10_run_err : ∀ (evs : List c10_ev) (st : RState), c10_wellNested st.stack.length evs = false →
    c10_run st evs = .error (.index S!"pop from empty list")
  | [], st, h => by simp [c10_wellNested] at h
  | .instr t :: es, st, h => by
    simp only [c10_wellNested] at h
    have := c10_run_err es { st with instr := st.instr ++ t } h
    simpa [c10_run, c10_step] using this
  | .fld as cs :: es, st, h => by
    simp only [c10_wellNested] at h
    cases hk : c10_kind as with
    | begin =>
      simp only [hk] at h
      have := c10_run_err es { st with stack := .begin cs :: st.stack, instr := [] } h
      simp only [c10_run, c10_step_fld, c10_fld_begin st as cs hk]; exact this
    | other =>
      simp only [hk] at h
      have := c10_run_err es st h
      simp only [c10_run, c10_step_fld, c10_fld_other st as cs hk]; exact this
    | separate =>
      simp only [hk] at h
      cases hs : st.stack with
      | nil => simp only [c10_run, c10_step_fld, c10_fld_separate st as cs hk, hs]; rfl
      | cons top rest =>
        have h' : c10_wellNested (RState.stack { st with stack := parseCurrentInstr st top :: rest }).length es = false := by
          simpa [hs] using h
        have := c10_run_err es _ h'
        simp only [c10_run, c10_step_fld, c10_fld_separate st as cs hk, hs]; exact this
    | end_ =>
      simp only [hk] at h
      cases hs : st.stack with
      | nil => simp only [c10_run, c10_step_fld, c10_fld_end st as cs hk, hs]; rfl
      | cons top rest =>
        have h' : c10_wellNested (RState.stack { st with stack := rest }).length es = false := by
          simpa [hs] using h
        have := c10_run_err es _ h'
        simp only [c10_run, c10_step_fld, c10_fld_end st as cs hk, hs]; exact this

theorem c10_kind_begin (as : Attrs) (h : attr? S!"w:fldCharType" as = some S!"begin") :
    c10_kind as = .begin := by simp [c10_kind, h]
theorem c10_kind_end (as : Attrs) (h : attr? S!"w:fldCharType" as = some S!"end") :
    c10_kind as = .end_ := by simp [c10_kind, h]
theorem c10_kind_separate (as : Attrs) (h : attr? S!"w:fldCharType" as = some S!"separate") :
    c10_kind as = .separate := by simp [c10_kind, h]

/-! ### `current_hyperlink_kwargs` -/

def c10_linkOf : Field → Option LinkProps
  | .hyperlink kw => some kw
  | _ => none

def c10_isHyperlink (f : Field) : Bool := (c10_linkOf f).isSome

/-- the top-most hyperlink field of the stack (the head is the top) -/
theorem c10_currentHyperlink_eq (stack : List Field) :
    currentHyperlink stack = stack.findSome? c10_linkOf := by
  induction stack with
  | nil => rfl
  | cons f rest ih => cases f <;> simp [currentHyperlink, c10_linkOf, List.findSome?, ih]

theorem c10_currentHyperlink_skip (pre rest : List Field) (h : pre.all (fun f => !c10_isHyperlink f) = true) :
    currentHyperlink (pre ++ rest) = currentHyperlink rest := by
  induction pre with
  | nil => rfl
  | cons f pre ih =>
    simp only [List.all_cons, Bool.and_eq_true] at h
    cases f with
    | hyperlink kw => simp [c10_isHyperlink, c10_linkOf] at h
    | _ => simpa [currentHyperlink] using ih h.2

/-! ### the reader branches, as equations (all by unfolding `readElem`) -/

theorem c10_reader_fldChar (env : REnv) (f : Nat) (st : RState) (as : Attrs) (cs : List XmlNode) :
    readElem env (f+1) st (.elem S!"w:fldChar" as cs) = readFldChar st as cs := rfl

theorem c10_reader_instr (env : REnv) (f : Nat) (st : RState) (as : Attrs) (cs : List XmlNode) :
    readElem env (f+1) st (.elem S!"w:instrText" as cs) =
      .ok ({}, { st with instr := st.instr ++ innerTextL cs }) := rfl

theorem c10_reader_bookmark (env : REnv) (f : Nat) (st : RState) (as : Attrs) (cs : List XmlNode) :
    readElem env (f+1) st (.elem S!"w:bookmarkStart" as cs) =
      if attr? S!"w:name" as == some S!"_GoBack" then .ok ({}, st)
      else .ok (rrElems [.bookmark (attr? S!"w:name" as)], st) := rfl

/-- what `run` builds from the result `r` of its children read up to state `st1` -/
def c10_runResult (env : REnv) (cs : List XmlNode) (r : ReadResult) (st1 : RState) : ReadResult :=
  { elements := [.run (readRunProps (findChildOrNull S!"w:rPr" cs).2
                  (readStyle (findChildOrNull S!"w:rPr" cs).2 S!"w:rStyle" S!"Run" env.styles.character).1)
                (match currentHyperlink st1.stack with
                  | none => r.elements
                  | some kw => [.hyperlink kw r.elements])],
    extra := r.extra,
    messages := (readStyle (findChildOrNull S!"w:rPr" cs).2 S!"w:rStyle" S!"Run" env.styles.character).2
                  ++ r.messages }

theorem c10_reader_run (env : REnv) (f : Nat) (st : RState) (as : Attrs) (cs : List XmlNode) :
    readElem env (f+1) st (.elem S!"w:r" as cs) =
      (readAllWith (readElem env f) st cs >>= fun p => pure (c10_runResult env cs p.1 p.2, p.2)) := rfl

/-- `w:tgtFrame`, empty counts as absent -/
def c10_tgtFrame (as : Attrs) : Option Str :=
  match attr? S!"w:tgtFrame" as with
  | some t => if t.isEmpty then none else some t
  | none => none

/-- what `hyperlink` builds from the result `r` of its children -/
def c10_hyperlinkResult (env : REnv) (as : Attrs) (r : ReadResult) : Except Err ReadResult :=
  match attr? S!"r:id" as with
  | some rid =>
    match env.rels.targetById rid with
    | .ok href =>
      .ok { r with elements := [.hyperlink
              { href := some (match attr? S!"w:anchor" as with
                              | some a => replaceFragment href a
                              | none => href),
                targetFrame := c10_tgtFrame as } r.elements] }
    | .error e => .error e
  | none =>
    match attr? S!"w:anchor" as with
    | some a => .ok { r with elements := [.hyperlink { anchor := some a, targetFrame := c10_tgtFrame as } r.elements] }
    | none => .ok r

theorem c10_reader_hyperlink (env : REnv) (f : Nat) (st st1 : RState) (as : Attrs) (cs : List XmlNode)
    (r : ReadResult) (hr : readAllWith (readElem env f) st cs = .ok (r, st1)) :
    readElem env (f+1) st (.elem S!"w:hyperlink" as cs) = (c10_hyperlinkResult env as r).map (·, st1) := by
  have : readElem env (f+1) st (.elem S!"w:hyperlink" as cs) =
      (readAllWith (readElem env f) st cs >>= fun p =>
        match attr? S!"r:id" as with
        | some rid => do
          let href ← env.rels.targetById rid
          let href := match attr? S!"w:anchor" as with | some a => replaceFragment href a | none => href
          pure ({ p.1 with elements := [.hyperlink { href := some href, targetFrame := c10_tgtFrame as } p.1.elements] }, p.2)
        | none =>
          match attr? S!"w:anchor" as with
          | some a => pure ({ p.1 with elements := [.hyperlink { anchor := some a, targetFrame := c10_tgtFrame as } p.1.elements] }, p.2)
          | none => pure (p.1, p.2)) := rfl
  rw [this, hr]
  unfold c10_hyperlinkResult
  cases attr? S!"r:id" as with
  | none => cases attr? S!"w:anchor" as <;> rfl
  | some rid => simp only []; cases env.rels.targetById rid <;> rfl

end Mammoth
