/-
  C16 — two concrete packages.

  `c16_exCleanPkg`: content types, package and document relationships, `styles.xml` (a paragraph, a
  character and a table style), a footnotes part (with a separator note that is not read), an image, and a
  main document with a styled heading, a styled run, a footnote reference, an external hyperlink, a page
  break, a dingbat, a bookmark, a styled table (two rows, a spanning cell with a picture in it) and a text
  box.  Everything in it is supported and every style is defined and mapped.

  `c16_exAnomalyPkg`: the same package with the unknown element `w:foo` injected twice, at different
  depths: inside a run of a body paragraph, and inside a table cell in a text box in the footnote.
-/
import Proofs.C16_PkgSpec
namespace Mammoth

def c16_exEl (name : Str) (cs : List XmlNode := []) : XmlNode := .elem name [] cs
def c16_exVal (name val : Str) : XmlNode := .elem name [(S!"w:val", val)] []
def c16_exRun (cs : List XmlNode) : XmlNode := .elem S!"w:r" [] cs
def c16_exTxt (s : Str) : XmlNode := c16_exRun [.elem S!"w:t" [] [.text s]]
def c16_exPara (cs : List XmlNode) : XmlNode := .elem S!"w:p" [] cs

def c16_exRel (id ty target : Str) : XmlNode :=
  .elem S!"relationships:Relationship" [(S!"Id", id), (S!"Type", relTypePrefix ++ ty), (S!"Target", target)] []

def c16_exStyle (ty id name : Str) : XmlNode :=
  .elem S!"w:style" [(S!"w:type", ty), (S!"w:styleId", id)] [c16_exVal S!"w:name" name]

def c16_exDrawing (rid : Str) : XmlNode :=
  c16_exEl S!"w:drawing" [c16_exEl S!"wp:inline" [
    .elem S!"wp:docPr" [(S!"descr", S!"a picture")] [],
    c16_exEl S!"a:graphic" [c16_exEl S!"a:graphicData" [c16_exEl S!"pic:pic" [c16_exEl S!"pic:blipFill" [
      .elem S!"a:blip" [(S!"r:embed", rid)] []]]]]]]

def c16_exTextBox (cs : List XmlNode) : XmlNode :=
  c16_exRun [c16_exEl S!"w:pict" [c16_exEl S!"v:shape" [c16_exEl S!"v:textbox" [c16_exEl S!"w:txbxContent" cs]]]]

/-- the body; `extra` is put into the first run of the second paragraph -/
def c16_exBody (extra : List XmlNode) : List XmlNode :=
  [ c16_exPara [c16_exEl S!"w:pPr" [c16_exVal S!"w:pStyle" S!"Heading1"], c16_exTxt S!"Title"],
    c16_exPara [
      c16_exRun ([c16_exEl S!"w:rPr" [c16_exVal S!"w:rStyle" S!"Strong", c16_exEl S!"w:b"],
                  .elem S!"w:t" [] [.text S!"bold"]] ++ extra),
      c16_exRun [.elem S!"w:footnoteReference" [(S!"w:id", S!"1")] []],
      .elem S!"w:hyperlink" [(S!"r:id", S!"rId1")] [c16_exTxt S!"link"],
      c16_exRun [.elem S!"w:br" [(S!"w:type", S!"page")] []],
      c16_exRun [.elem S!"w:sym" [(S!"w:font", S!"Wingdings"), (S!"w:char", S!"F04A")] []],
      .elem S!"w:bookmarkStart" [(S!"w:name", S!"b1")] [], c16_exEl S!"w:bookmarkEnd"],
    c16_exEl S!"w:tbl" [
      c16_exEl S!"w:tblPr" [c16_exVal S!"w:tblStyle" S!"TableGrid"], c16_exEl S!"w:tblGrid",
      c16_exEl S!"w:tr" [c16_exEl S!"w:tc" [c16_exPara [c16_exTxt S!"a"]], c16_exEl S!"w:tc" [c16_exPara []]],
      c16_exEl S!"w:tr" [c16_exEl S!"w:tc" [c16_exEl S!"w:tcPr" [c16_exVal S!"w:gridSpan" S!"2"],
                                           c16_exPara [c16_exRun [c16_exDrawing S!"rId2"]]]]],
    c16_exPara [c16_exTextBox [c16_exPara [c16_exTxt S!"box"]]],
    c16_exEl S!"w:sectPr" ]

/-- the footnote; `extra` is put into a table cell in a text box -/
def c16_exFootnotes (extra : List XmlNode) : XmlNode :=
  c16_exEl S!"w:footnotes" [
    .elem S!"w:footnote" [(S!"w:type", S!"separator"), (S!"w:id", S!"-1")] [c16_exPara [c16_exEl S!"w:notRead"]],
    .elem S!"w:footnote" [(S!"w:id", S!"1")] [
      c16_exPara [c16_exTxt S!"note",
        c16_exTextBox [c16_exEl S!"w:tbl" [c16_exEl S!"w:tr" [c16_exEl S!"w:tc" (c16_exPara [] :: extra)]]]]]]

def c16_exParts (bodyExtra noteExtra : List XmlNode) : List (Str × Part) :=
  [ (S!"[Content_Types].xml", .xml (c16_exEl S!"content-types:Types" [
      .elem S!"content-types:Default" [(S!"Extension", S!"png"), (S!"ContentType", S!"image/png")] []])),
    (S!"_rels/.rels", .xml (c16_exEl S!"relationships:Relationships" [
      c16_exRel S!"rId1" S!"officeDocument" S!"word/document.xml"])),
    (S!"word/_rels/document.xml.rels", .xml (c16_exEl S!"relationships:Relationships" [
      c16_exRel S!"rId1" S!"hyperlink" S!"http://example.com",
      c16_exRel S!"rId2" S!"image" S!"media/a.png",
      c16_exRel S!"rId3" S!"footnotes" S!"footnotes.xml",
      c16_exRel S!"rId4" S!"styles" S!"styles.xml"])),
    (S!"word/styles.xml", .xml (c16_exEl S!"w:styles" [
      c16_exStyle S!"paragraph" S!"Heading1" S!"heading 1",
      c16_exStyle S!"character" S!"Strong" S!"Strong",
      c16_exStyle S!"table" S!"TableGrid" S!"Table Grid"])),
    (S!"word/footnotes.xml", .xml (c16_exFootnotes noteExtra)),
    (S!"word/document.xml", .xml (c16_exEl S!"w:document" [c16_exEl S!"w:body" (c16_exBody bodyExtra)])),
    (S!"word/media/a.png", .bytes [137, 80, 78, 71]) ]

def c16_exCleanPkg : Package := ⟨c16_exParts [] []⟩

def c16_exAnomalyPkg : Package := ⟨c16_exParts [c16_exEl S!"w:foo"] [c16_exEl S!"w:foo"]⟩

end Mammoth
