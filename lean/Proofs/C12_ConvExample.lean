/-
  C12 (conversion) — a concrete package (a `Heading1` paragraph, a footnote, an embedded PNG picture, a
  hyperlink) that satisfies every hypothesis of `c12_embed_convert`, and for each hypothesis a concrete
  package that violates only it and on which the two conversions differ.
-/
import Proofs.C12_ConvMain
import Proofs.C12_ConvRefine
namespace Mammoth

def c12_exRel (id ty target : Str) : XmlNode :=
  .elem S!"relationships:Relationship" [(S!"Id", id), (S!"Type", relTypePrefix ++ ty), (S!"Target", target)] []

def c12_exRun (cs : List XmlNode) : XmlNode := .elem S!"w:r" [] cs
def c12_exTxt (s : Str) : XmlNode := c12_exRun [.elem S!"w:t" [] [.text s]]

def c12_exDrawing (rid : Str) : XmlNode :=
  .elem S!"w:drawing" [] [.elem S!"wp:inline" [] [
    .elem S!"wp:docPr" [(S!"descr", S!"pic")] [],
    .elem S!"a:graphic" [] [.elem S!"a:graphicData" [] [.elem S!"pic:pic" [] [.elem S!"pic:blipFill" [] [
      .elem S!"a:blip" [(S!"r:embed", rid)] []]]]]]]

/-- the body: a `Heading1` paragraph, a paragraph with a footnote reference and a hyperlink (relationship
    `linkRel`), a paragraph with a picture (relationship `imgRel`) -/
def c12_exBody (linkRel imgRel : Str) : List XmlNode :=
  [ .elem S!"w:p" [] [.elem S!"w:pPr" [] [.elem S!"w:pStyle" [(S!"w:val", S!"Heading1")] []], c12_exTxt S!"Title"],
    .elem S!"w:p" [] [c12_exTxt S!"Hello",
      c12_exRun [.elem S!"w:footnoteReference" [(S!"w:id", S!"1")] []],
      .elem S!"w:hyperlink" [(S!"r:id", linkRel)] [c12_exTxt S!"link"]],
    .elem S!"w:p" [] [c12_exRun [c12_exDrawing imgRel]] ]

def c12_exContentTypes (extra : List XmlNode) : XmlNode :=
  .elem S!"content-types:Types" [] ([
    .elem S!"content-types:Default" [(S!"Extension", S!"png"), (S!"ContentType", S!"image/png")] [],
    .elem S!"content-types:Override" [(S!"PartName", S!"/word/document.xml"),
      (S!"ContentType", S!"application/vnd.openxmlformats-officedocument.wordprocessingml.document.main+xml")] []]
    ++ extra)

/-- the example package, parameterised by what the variants change -/
def c12_exParts (docRels : List XmlNode) (body : List XmlNode) (ctExtra : List XmlNode)
    (more : List (Str × Part)) : List (Str × Part) :=
  [ (S!"[Content_Types].xml", .xml (c12_exContentTypes ctExtra)),
    (S!"_rels/.rels", .xml (.elem S!"relationships:Relationships" [] [
      c12_exRel S!"rId1" S!"officeDocument" S!"word/document.xml"])),
    (S!"word/_rels/document.xml.rels", .xml (.elem S!"relationships:Relationships" [] docRels)),
    (S!"word/document.xml", .xml (.elem S!"w:document" [] [.elem S!"w:body" [] body])),
    (S!"word/styles.xml", .xml (.elem S!"w:styles" [] [
      .elem S!"w:style" [(S!"w:type", S!"paragraph"), (S!"w:styleId", S!"Heading1")] [
        .elem S!"w:name" [(S!"w:val", S!"Heading 1")] []]])),
    (S!"word/footnotes.xml", .xml (.elem S!"w:footnotes" [] [
      .elem S!"w:footnote" [(S!"w:id", S!"1")] [.elem S!"w:p" [] [c12_exTxt S!"Note"]]])),
    (S!"word/media/image1.png", .bytes [0x89, 0x50, 0x4E, 0x47]) ] ++ more

def c12_exDocRels : List XmlNode :=
  [ c12_exRel S!"rId1" S!"footnotes" S!"footnotes.xml",
    c12_exRel S!"rId2" S!"image" S!"media/image1.png",
    c12_exRel S!"rId3" S!"styles" S!"styles.xml",
    c12_exRel S!"rId4" S!"hyperlink" S!"http://example.com/" ]

/-- THE EXAMPLE -/
def c12_exPkg : Package := ⟨c12_exParts c12_exDocRels (c12_exBody S!"rId4" S!"rId2") [] []⟩

/-- the style map embedded -/
def c12_exMap : Str := S!"p.Heading1 => h2\nr => em"

/-- observe a conversion: the HTML and the messages, or the error -/
def c12_obs (x : Except Err ApiOut) : Err ⊕ (Str × List Str) :=
  match x with
  | .error e => .inl e
  | .ok r => .inr (r.value, r.messages)

/-- converting the file after the embed (no `style_map=`, embedded map included) -/
def c12_convAfter (p : Package) (s : Str) (o : Options) : Option (Err ⊕ (Str × List Str)) :=
  (c12_embedPkg p s).map fun p' =>
    c12_obs (apiConvert p' 20 none (fun _ => none) id { o with styleMap := none, includeEmbedded := true })

/-- converting the original with `style_map=s`, embedded map not included -/
def c12_convBefore (p : Package) (s : Str) (o : Options) : Err ⊕ (Str × List Str) :=
  c12_obs (apiConvert p 20 none (fun _ => none) id { o with styleMap := some s, includeEmbedded := false })

/-! ### variants: each violates one hypothesis -/

def c12_exFootnotesPart (text : Str) : Part :=
  .xml (.elem S!"w:footnotes" [] [.elem S!"w:footnote" [(S!"w:id", S!"1")] [.elem S!"w:p" [] [c12_exTxt text]]])

/-- `c12_relEntryOk` fails: the id `rMammothStyleMap` is already used, for the footnotes part `word/notes.xml` -/
def c12_exIdTaken : Package :=
  ⟨c12_exParts ([c12_exRel S!"rMammothStyleMap" S!"footnotes" S!"notes.xml"] ++ c12_exDocRels.drop 1)
    (c12_exBody S!"rId4" S!"rId2") [] [(S!"word/notes.xml", c12_exFootnotesPart S!"Other")]⟩

/-- `c12_relEntryOk` fails: a `Relationship Id="rMammothStyleMap"` without `Target`/`Type` -/
def c12_exIdBroken : Package :=
  ⟨c12_exParts (c12_exDocRels ++ [.elem S!"relationships:Relationship" [(S!"Id", S!"rMammothStyleMap")] []])
    (c12_exBody S!"rId4" S!"rId2") [] []⟩

/-- `c12_overrideEntryOk` fails: an `Override PartName="/mammoth/style-map"` without `ContentType` -/
def c12_exOverrideBroken : Package :=
  ⟨c12_exParts c12_exDocRels (c12_exBody S!"rId4" S!"rId2")
    [.elem S!"content-types:Override" [(S!"PartName", S!"/mammoth/style-map")] []] []⟩

/-- `c12_lookupOk` fails: the first footnotes relationship targets the (not yet existing) `/mammoth/style-map` -/
def c12_exLookup : Package :=
  ⟨c12_exParts ([c12_exRel S!"rId9" S!"footnotes" S!"/mammoth/style-map"] ++ c12_exDocRels)
    (c12_exBody S!"rId4" S!"rId2") [] []⟩

/-- `c12_refsOk` fails: the hyperlink uses the (undefined) relationship id `rMammothStyleMap` -/
def c12_exRefId : Package := ⟨c12_exParts c12_exDocRels (c12_exBody S!"rMammothStyleMap" S!"rId2") [] []⟩

/-- `c12_refsOk` (and `c12_imagesOk`) fail: the picture is the zip entry `mammoth/style-map` -/
def c12_exRefImage : Package :=
  ⟨c12_exParts (c12_exDocRels ++ [c12_exRel S!"rId5" S!"image" S!"/mammoth/style-map"])
    (c12_exBody S!"rId4" S!"rId5") [] [(S!"mammoth/style-map", .bytes (utf8Encode S!"p => h1"))]⟩

/-- `c12_imagesOk` alone fails: `transform_document` puts in an image read from `mammoth/style-map` -/
def c12_exTransform (d : Document) : Document :=
  { d with children := d.children ++ [.image { src := .embedded styleMapPath }] }

/-- `c12_archiveOk` fails: two entries `word/media/image1.png`, the picture first, an XML entry last -/
def c12_exDuplicate : Package :=
  ⟨c12_exParts c12_exDocRels (c12_exBody S!"rId4" S!"rId2") []
    [(S!"word/media/image1.png", .xml (.elem S!"x" [] []))]⟩

/-- the example with the map `p.Heading1 => h3` already embedded -/
def c12_exPkg0 : Package := (c12_embedPkg c12_exPkg S!"p.Heading1 => h3").getD c12_exPkg

/-- converting the original with `style_map=s` and the embedded map INCLUDED -/
def c12_convBeforeIncl (p : Package) (s : Str) (o : Options) : Err ⊕ (Str × List Str) :=
  c12_obs (apiConvert p 20 none (fun _ => none) id { o with styleMap := some s, includeEmbedded := true })

/-! ### the example satisfies every hypothesis; each variant violates exactly one and the conversions differ -/

/-- all six conditions at once (fuel 20, identity `transform_document`) -/
def c12_exHyps (p : Package) : List Bool :=
  [c12_relEntryOk p, c12_overrideEntryOk p, c12_lookupOk p, c12_refsOk p, c12_archiveOk p,
   c12_imagesOk p 20 id]

def c12_exHtml : Str :=
  S!"<h2><em>Title</em></h2><p><em>Hello<sup><a href=\"#footnote-1\" id=\"footnote-ref-1\">[1]</a></sup></em><a href=\"http://example.com/\"><em>link</em></a></p><p><em><img alt=\"pic\" src=\"data:image/png;base64,iVBORw==\" /></em></p><ol><li id=\"footnote-1\"><p><em>Note</em> <a href=\"#footnote-ref-1\">↑</a></p></li></ol>"

set_option maxRecDepth 100000 in
theorem c12_ex_hyps : c12_exHyps c12_exPkg = [true, true, true, true, true, true] := by decide +kernel

set_option maxRecDepth 100000 in
theorem c12_ex_before : c12_convBefore c12_exPkg c12_exMap {} = .inr (c12_exHtml, []) := by decide +kernel

set_option maxRecDepth 100000 in
theorem c12_ex_after : c12_convAfter c12_exPkg c12_exMap {} = some (.inr (c12_exHtml, [])) := by decide +kernel

set_option maxRecDepth 100000 in
/-- the original already carries `p.Heading1 => h3`: it satisfies the hypotheses; after embedding `r => em`
    the conversion equals converting the original with `style_map="r => em"` and the embedded map EXCLUDED
    (`<h1>`), and differs from converting it with the embedded map included (`<h3>`) -/
theorem c12_ex_replace :
    c12_exHyps c12_exPkg0 = [true, true, true, true, true, true] ∧
    (readEmbeddedStyleMap c12_exPkg0).toOption = some (some S!"p.Heading1 => h3") ∧
    c12_convAfter c12_exPkg0 S!"r => em" {} = some (c12_convBefore c12_exPkg0 S!"r => em" {}) ∧
    c12_convAfter c12_exPkg0 S!"r => em" {} ≠ some (c12_convBeforeIncl c12_exPkg0 S!"r => em" {}) := by
  decide +kernel

/-! ### `c12_embedPkg_refines`: its hypotheses hold for a concrete name translation and concrete trees -/

def c12_exRelsTag : Str := S!"{http://schemas.openxmlformats.org/package/2006/relationships}Relationships"
def c12_exTypesTag : Str := S!"{http://schemas.openxmlformats.org/package/2006/content-types}Types"

/-- `convert_name` on the handful of Clark names that occur in the two parts -/
def c12_exNm (t : Str) : Str :=
  if t = relationshipElemName then c12_relName
  else if t = overrideElemName then c12_overrideName
  else if t = c12_exRelsTag then S!"relationships:Relationships"
  else if t = c12_exTypesTag then S!"content-types:Types"
  else t

/-- the relationships part of `c12_exPkg0` (a style map is embedded already) as an ElementTree tree -/
def c12_exRe : EElem :=
  ⟨c12_exRelsTag, [], [
    ⟨relationshipElemName, [(S!"Id", S!"rId1"), (S!"Type", relTypePrefix ++ S!"footnotes"),
                            (S!"Target", S!"footnotes.xml")], []⟩,
    ⟨relationshipElemName, styleMapRelAttrs, []⟩]⟩

def c12_exTe : EElem :=
  ⟨c12_exTypesTag, [], [⟨overrideElemName, [(S!"PartName", S!"/word/document.xml"), (S!"ContentType", S!"x")], []⟩]⟩

theorem c12_ex_refines_hyps :
    c12_exNm relationshipElemName = c12_relName ∧ c12_exNm overrideElemName = c12_overrideName ∧
    c12_exNm S!"Id" = S!"Id" ∧ c12_exNm S!"PartName" = S!"PartName" ∧
    c12_ofAttrs c12_exNm styleMapRelAttrs = styleMapRelAttrs ∧
    c12_ofAttrs c12_exNm styleMapOverrideAttrs = styleMapOverrideAttrs ∧
    c12_agreeAll c12_exNm relationshipElemName S!"Id" styleMapRelAttrs c12_exRe = true ∧
    c12_agreeAll c12_exNm overrideElemName S!"PartName" styleMapOverrideAttrs c12_exTe = true := by
  decide +kernel

end Mammoth
