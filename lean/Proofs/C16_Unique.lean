/-
  C16 — `lists.unique` (first occurrences, order kept): lemmas about `uniqueAux`.
-/
import MammothModel.Basic
namespace Mammoth

variable {α : Type} [DecidableEq α]

theorem c16_uniqueAux_cons_mem (seen ys : List α) (y : α) (h : y ∈ seen) :
    uniqueAux seen (y :: ys) = uniqueAux seen ys := by
  rw [uniqueAux]; simp only [h, if_true]

theorem c16_uniqueAux_cons_not_mem (seen ys : List α) (y : α) (h : y ∉ seen) :
    uniqueAux seen (y :: ys) = y :: uniqueAux (y :: seen) ys := by
  rw [uniqueAux]; simp only [h, if_false]

theorem c16_uniqueAux_mem (seen l : List α) (x : α) :
    x ∈ uniqueAux seen l ↔ x ∈ l ∧ x ∉ seen := by
  induction l generalizing seen with
  | nil => simp [uniqueAux]
  | cons y ys ih =>
    unfold uniqueAux
    by_cases hy : y ∈ seen
    · simp only [hy, if_true, ih, List.mem_cons]
      constructor
      · rintro ⟨h1, h2⟩; exact ⟨Or.inr h1, h2⟩
      · rintro ⟨h1 | h1, h2⟩
        · subst h1; exact absurd hy h2
        · exact ⟨h1, h2⟩
    · simp only [hy, if_false, List.mem_cons, ih, not_or]
      constructor
      · rintro (h | ⟨h1, h2, h3⟩)
        · subst h; exact ⟨Or.inl rfl, hy⟩
        · exact ⟨Or.inr h1, h3⟩
      · rintro ⟨h1 | h1, h2⟩
        · exact Or.inl h1
        · by_cases hxy : x = y
          · exact Or.inl hxy
          · exact Or.inr ⟨h1, hxy, h2⟩

theorem c16_uniqueAux_nodup (seen l : List α) : (uniqueAux seen l).Nodup := by
  induction l generalizing seen with
  | nil => simp [uniqueAux]
  | cons y ys ih =>
    unfold uniqueAux
    by_cases hy : y ∈ seen
    · simp only [hy, if_true]; exact ih seen
    · simp only [hy, if_false, List.nodup_cons]
      refine ⟨?_, ih _⟩
      rw [c16_uniqueAux_mem]
      simp

theorem c16_uniqueAux_sublist (seen l : List α) : (uniqueAux seen l).Sublist l := by
  induction l generalizing seen with
  | nil => simp [uniqueAux]
  | cons y ys ih =>
    unfold uniqueAux
    by_cases hy : y ∈ seen
    · simp only [hy, if_true]; exact (ih seen).cons y
    · simp only [hy, if_false]; exact (ih _).cons_cons y

/-- `uniqueAux` depends on `seen` only through membership -/
theorem c16_uniqueAux_congr (s1 s2 l : List α) (h : ∀ x, x ∈ s1 ↔ x ∈ s2) :
    uniqueAux s1 l = uniqueAux s2 l := by
  induction l generalizing s1 s2 with
  | nil => rfl
  | cons y ys ih =>
    unfold uniqueAux
    by_cases hy : y ∈ s1
    · have hy2 : y ∈ s2 := (h y).mp hy
      simp only [hy, hy2, if_true]; exact ih s1 s2 h
    · have hy2 : y ∉ s2 := fun h2 => hy ((h y).mpr h2)
      simp only [hy, hy2, if_false]
      rw [ih (y :: s1) (y :: s2) (fun x => by simp [h x])]

theorem c16_uniqueAux_append (seen a b : List α) :
    uniqueAux seen (a ++ b) = uniqueAux seen a ++ uniqueAux (a ++ seen) b := by
  induction a generalizing seen with
  | nil => rfl
  | cons x a ih =>
    simp only [List.cons_append]
    by_cases hx : x ∈ seen
    · rw [c16_uniqueAux_cons_mem _ _ _ hx, c16_uniqueAux_cons_mem _ _ _ hx, ih]
      congr 1
      apply c16_uniqueAux_congr
      intro y; simp only [List.mem_append, List.mem_cons]
      constructor
      · rintro (h | h); exact Or.inr (Or.inl h); exact Or.inr (Or.inr h)
      · rintro (h | h | h)
        · subst h; exact Or.inr hx
        · exact Or.inl h
        · exact Or.inr h
    · rw [c16_uniqueAux_cons_not_mem _ _ _ hx, c16_uniqueAux_cons_not_mem _ _ _ hx, ih,
        List.cons_append]
      congr 2
      apply c16_uniqueAux_congr
      intro y; simp only [List.mem_append, List.mem_cons]
      constructor
      · rintro (h | h | h); exact Or.inr (Or.inl h); exact Or.inl h; exact Or.inr (Or.inr h)
      · rintro (h | h | h); exact Or.inr (Or.inl h); exact Or.inl h; exact Or.inr (Or.inr h)

/-- de-duplicating something already de-duplicated against a smaller `seen` changes nothing -/
theorem c16_uniqueAux_idem (s s' l : List α) (h : ∀ x, x ∈ s' → x ∈ s) :
    uniqueAux s (uniqueAux s' l) = uniqueAux s l := by
  induction l generalizing s s' with
  | nil => rfl
  | cons y ys ih =>
    by_cases hy' : y ∈ s'
    · have hy : y ∈ s := h y hy'
      rw [uniqueAux, uniqueAux]
      simp only [hy, hy', if_true]
      exact ih s s' h
    · by_cases hy : y ∈ s
      · have e1 : uniqueAux s' (y :: ys) = y :: uniqueAux (y :: s') ys := by
          rw [uniqueAux]; simp only [hy', if_false]
        have e2 : uniqueAux s (y :: ys) = uniqueAux s ys := by
          rw [uniqueAux]; simp only [hy, if_true]
        rw [e1, e2, uniqueAux]
        simp only [hy, if_true]
        apply ih
        intro x hx
        rcases List.mem_cons.mp hx with rfl | hx
        · exact hy
        · exact h x hx
      · have e1 : uniqueAux s' (y :: ys) = y :: uniqueAux (y :: s') ys := by
          rw [uniqueAux]; simp only [hy', if_false]
        have e2 : uniqueAux s (y :: ys) = y :: uniqueAux (y :: s) ys := by
          rw [uniqueAux]; simp only [hy, if_false]
        rw [e1, e2, uniqueAux]
        simp only [hy, if_false]
        congr 1
        apply ih
        intro x hx
        rcases List.mem_cons.mp hx with rfl | hx
        · exact List.mem_cons_self
        · exact List.mem_cons_of_mem _ (h x hx)

theorem c16_uniqueAux_of_nodup (seen l : List α) (hn : l.Nodup) (hd : ∀ x ∈ l, x ∉ seen) :
    uniqueAux seen l = l := by
  induction l generalizing seen with
  | nil => rfl
  | cons y ys ih =>
    rw [uniqueAux]
    have hy : y ∉ seen := hd y List.mem_cons_self
    simp only [hy, if_false]
    congr 1
    rw [List.nodup_cons] at hn
    apply ih _ hn.2
    intro x hx
    simp only [List.mem_cons, not_or]
    exact ⟨fun e => hn.1 (e ▸ hx), hd x (List.mem_cons_of_mem _ hx)⟩

theorem c16_uniqueAux_unique_append (s b c : List α) :
    uniqueAux s (unique b ++ c) = uniqueAux s (b ++ c) := by
  rw [c16_uniqueAux_append, c16_uniqueAux_append]
  unfold unique
  rw [c16_uniqueAux_idem s [] b (fun _ h => by cases h)]
  congr 1
  apply c16_uniqueAux_congr
  intro x
  simp only [List.mem_append, c16_uniqueAux_mem, List.not_mem_nil, not_false_eq_true, and_true]

theorem c16_unique_mid (a b c : List α) :
    unique (a ++ (unique b ++ c)) = unique (a ++ (b ++ c)) := by
  unfold unique
  rw [c16_uniqueAux_append, c16_uniqueAux_append [] a (b ++ c)]
  congr 1
  exact c16_uniqueAux_unique_append _ b c

end Mammoth
