/-
  C02 — `strip_empty` and `collapse` only rearrange tags that are already in the forest: any predicate
  that holds of every tag of the input holds of every tag of the output.  In particular plain names
  stay plain, so the lexer theorems apply to `render ns = writeHtml (collapse (stripEmpty ns))`.
-/
import Proofs.Collapse
import Proofs.C02_Lexer
import Proofs.C02_Subst
namespace Mammoth

mutual
def c02_allTagsN (P : Tag → Bool) : Node → Bool
  | .text _ => true
  | .forceWrite => true
  | .elem t cs => P t && c02_allTags P cs
/-- `P` holds of every tag of the forest, at any depth -/
def c02_allTags (P : Tag → Bool) : List Node → Bool
  | [] => true
  | c :: cs => c02_allTagsN P c && c02_allTags P cs
end

@[simp] theorem c02_allTags_nil (P : Tag → Bool) : c02_allTags P [] = true := by simp [c02_allTags]
@[simp] theorem c02_allTags_cons (P : Tag → Bool) (c : Node) (cs : List Node) :
    c02_allTags P (c :: cs) = (c02_allTagsN P c && c02_allTags P cs) := by simp [c02_allTags]
@[simp] theorem c02_allTagsN_text (P : Tag → Bool) (s : Str) : c02_allTagsN P (.text s) = true := by
  simp [c02_allTagsN]
@[simp] theorem c02_allTagsN_fw (P : Tag → Bool) : c02_allTagsN P .forceWrite = true := by
  simp [c02_allTagsN]
@[simp] theorem c02_allTagsN_elem (P : Tag → Bool) (t : Tag) (cs : List Node) :
    c02_allTagsN P (.elem t cs) = (P t && c02_allTags P cs) := by simp [c02_allTagsN]

theorem c02_allTags_append (P : Tag → Bool) (a b : List Node) :
    c02_allTags P (a ++ b) = (c02_allTags P a && c02_allTags P b) := by
  induction a with
  | nil => simp
  | cons x xs ih => simp [ih, Bool.and_assoc]

theorem c02_allTags_sepText (P : Tag → Bool) (t : Tag) : c02_allTags P (sepText t) = true := by
  unfold sepText
  split
  · split <;> simp
  · simp

/-! ### strip_empty -/
mutual
theorem c02_allTags_stripNode (P : Tag → Bool) (n : Node) (h : c02_allTagsN P n = true) :
    c02_allTags P (stripNode n) = true := by
  match n with
  | .text s => unfold stripNode; split <;> simp
  | .forceWrite => simp [stripNode]
  | .elem t cs =>
    simp only [c02_allTagsN_elem, Bool.and_eq_true] at h
    unfold stripNode
    simp only []
    split
    · simp
    · simp [h.1, c02_allTags_stripList P cs h.2]
theorem c02_allTags_stripList (P : Tag → Bool) (ns : List Node) (h : c02_allTags P ns = true) :
    c02_allTags P (stripList ns) = true := by
  match ns with
  | [] => simp [stripList]
  | c :: cs =>
    simp only [c02_allTags_cons, Bool.and_eq_true] at h
    unfold stripList
    simp [c02_allTags_append, c02_allTags_stripNode P c h.1, c02_allTags_stripList P cs h.2]
end

/-! ### collapse -/
mutual
theorem c02_allTags_addC (P : Tag → Bool) (acc : List Node) (n : Node)
    (ha : c02_allTags P acc = true) (h : c02_allTagsN P n = true) : c02_allTags P (addC acc n) = true := by
  match n with
  | .text s => simp [addC_text, c02_allTags_append, ha]
  | .forceWrite => simp [addC_fw, c02_allTags_append, ha]
  | .elem t cs =>
    have h' := h
    simp only [c02_allTagsN_elem, Bool.and_eq_true] at h'
    unfold addC
    split
    · rename_i lt lcs hl
      split
      · have hacc := getLast?_eq_some_append acc _ hl
        rw [hacc, c02_allTags_append] at ha
        simp only [Bool.and_eq_true, c02_allTags_cons, c02_allTagsN_elem, c02_allTags_nil, and_true] at ha
        have hlcs : c02_allTags P (lcs ++ sepText t) = true := by
          simp [c02_allTags_append, ha.2.2, c02_allTags_sepText]
        have ih := c02_allTags_addAllC P (lcs ++ sepText t) cs hlcs h'.2
        simp [c02_allTags_append, ha.1, ha.2.1, ih]
      · simp [c02_allTags_append, ha, h'.1, h'.2]
    · simp [c02_allTags_append, ha, h'.1, h'.2]
theorem c02_allTags_addAllC (P : Tag → Bool) (acc ns : List Node)
    (ha : c02_allTags P acc = true) (h : c02_allTags P ns = true) : c02_allTags P (addAllC acc ns) = true := by
  match ns with
  | [] => simpa using ha
  | c :: cs =>
    simp only [c02_allTags_cons, Bool.and_eq_true] at h
    simp only [addAllC_cons]
    exact c02_allTags_addAllC P _ cs (c02_allTags_addC P acc c ha h.1) h.2
end

mutual
theorem c02_allTags_collapseNode (P : Tag → Bool) (n : Node) (h : c02_allTagsN P n = true) :
    c02_allTagsN P (collapseNode n) = true := by
  match n with
  | .text s => simp [collapseNode]
  | .forceWrite => simp [collapseNode]
  | .elem t cs =>
    simp only [c02_allTagsN_elem, Bool.and_eq_true] at h
    simp only [collapseNode, c02_allTagsN_elem, Bool.and_eq_true]
    exact ⟨h.1, c02_allTags_collapseFrom P [] cs (by simp) h.2⟩
theorem c02_allTags_collapseFrom (P : Tag → Bool) (acc ns : List Node)
    (ha : c02_allTags P acc = true) (h : c02_allTags P ns = true) :
    c02_allTags P (collapseFrom acc ns) = true := by
  match ns with
  | [] => simpa [collapseFrom] using ha
  | c :: cs =>
    simp only [c02_allTags_cons, Bool.and_eq_true] at h
    unfold collapseFrom
    exact c02_allTags_collapseFrom P _ cs
      (c02_allTags_addC P acc _ ha (c02_allTags_collapseNode P c h.1)) h.2
end

/-- every tag of `collapse (strip_empty ns)` satisfies what every tag of `ns` satisfies -/
theorem c02_allTags_render (P : Tag → Bool) (ns : List Node) (h : c02_allTags P ns = true) :
    c02_allTags P (collapse (stripEmpty ns)) = true :=
  c02_allTags_collapseFrom P [] _ (by simp) (c02_allTags_stripList P ns h)

/-! ### plain names -/

/-- the tag's name and its attribute names are plain names -/
def c02_plainTag (t : Tag) : Bool := c02_plainName t.name && c02_plainAttrs t.attrs

mutual
theorem c02_plainNamesN_eq (n : Node) : c02_plainNamesN n = c02_allTagsN c02_plainTag n := by
  match n with
  | .text s => simp [c02_plainNamesN]
  | .forceWrite => simp [c02_plainNamesN]
  | .elem t cs => simp [c02_plainNamesN, c02_plainTag, c02_plainNames_eq cs]
theorem c02_plainNames_eq (ns : List Node) : c02_plainNames ns = c02_allTags c02_plainTag ns := by
  match ns with
  | [] => simp [c02_plainNames]
  | c :: cs => simp [c02_plainNames, c02_plainNamesN_eq c, c02_plainNames_eq cs]
end

/-- plain names stay plain through `strip_empty` and `collapse` -/
theorem c02_plainNames_render (ns : List Node) (h : c02_plainNames ns = true) :
    c02_plainNames (collapse (stripEmpty ns)) = true := by
  rw [c02_plainNames_eq] at h ⊢
  exact c02_allTags_render _ ns h

theorem c02_plainAttrs_map (f : Str → Str → Str) (d : Dict Str) :
    c02_plainAttrs (c02_mapAttrs f d) = c02_plainAttrs d := by
  induction d with
  | nil => rfl
  | cons kv r ih =>
    obtain ⟨k, v⟩ := kv
    simp only [c02_plainAttrs, c02_mapAttrs, List.all_cons] at ih ⊢
    rw [ih]

mutual
theorem c02_plainNamesN_map (σ : c02_Sub) (n : Node) : c02_plainNamesN (c02_mapNode σ n) = c02_plainNamesN n := by
  match n with
  | .text s => simp [c02_plainNamesN]
  | .forceWrite => simp [c02_plainNamesN]
  | .elem t cs => simp [c02_plainNamesN, c02_plainAttrs_map, c02_plainNames_map σ cs]
/-- substitution does not touch names -/
theorem c02_plainNames_map (σ : c02_Sub) (ns : List Node) :
    c02_plainNames (c02_mapForest σ ns) = c02_plainNames ns := by
  match ns with
  | [] => simp [c02_plainNames]
  | c :: cs => simp [c02_plainNames, c02_plainNamesN_map σ c, c02_plainNames_map σ cs]
end

end Mammoth
