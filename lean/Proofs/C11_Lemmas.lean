/-
  C11 — helper definitions and lemmas: the specification of the formatting paths of a run.
-/
import Proofs.C03_Lemmas
namespace Mammoth

/-- a non-fresh element with that name and no attributes: what `html_paths.element(name)` builds -/
def c11_tag (name : Str) : Tag := { name := name, collapsible := true }

theorem c11_pathElem (name : Str) : pathElem name false = c11_tag name := rfl

/-- the path of an on/off formatting property: nothing when off; when on, the path of the first
    matching mapping, else the default element `dflt`, else the empty path (no element) -/
def c11_propSpec (cfg : Cfg) (on : Bool) (t : Target) (dflt : Option Str) : List HtmlPath :=
  if on then
    [match findStyle cfg.upper cfg.styleMap t with
     | some s => s.path
     | none =>
       match dflt with
       | some d => .elements [c11_tag d]
       | none => .elements []]
  else []

/-- highlight: only when a colour is set and a highlight mapping matches it -/
def c11_highlightSpec (cfg : Cfg) (h : Option Str) : List HtmlPath :=
  match h with
  | none => []
  | some c =>
    match findStyle cfg.upper cfg.styleMap (.highlight c) with
    | some s => [s.path]
    | none => []

/-- vertical alignment: `sub` / `sup`, never mapped -/
def c11_vertSpec (v : Option Str) : List HtmlPath :=
  if v = some S!"subscript" then [.elements [c11_tag S!"sub"]]
  else if v = some S!"superscript" then [.elements [c11_tag S!"sup"]]
  else []

theorem c11_propPath_eq (cfg : Cfg) (t : Target) (dflt : Option Str) :
    propPath cfg t dflt =
      match findStyle cfg.upper cfg.styleMap t with
      | some s => s.path
      | none =>
        match dflt with
        | some d => .elements [c11_tag d]
        | none => .elements [] := by
  unfold propPath findPath
  cases findStyle cfg.upper cfg.styleMap t <;> cases dflt <;> rfl

theorem c11_prop_eq (cfg : Cfg) (on : Bool) (t : Target) (dflt : Option Str) :
    (if on = true then [propPath cfg t dflt] else []) = c11_propSpec cfg on t dflt := by
  unfold c11_propSpec
  rw [c11_propPath_eq]

theorem c11_highlight_eq (cfg : Cfg) (h : Option Str) :
    (match h with
      | some c => (match findPath cfg (.highlight c) with | some p => [p] | none => [])
      | none => []) = c11_highlightSpec cfg h := by
  unfold c11_highlightSpec findPath
  cases h with
  | none => rfl
  | some c =>
    show (match (findStyle cfg.upper cfg.styleMap (.highlight c)).map (·.path) with
          | some p => [p] | none => []) =
         (match findStyle cfg.upper cfg.styleMap (.highlight c) with
          | some s => [s.path] | none => [])
    cases findStyle cfg.upper cfg.styleMap (.highlight c) <;> rfl

theorem c11_vert_eq (v : Option Str) :
    (if (v == some S!"subscript") = true then [HtmlPath.elements [pathElem S!"sub" false]] else []) ++
    (if (v == some S!"superscript") = true then [HtmlPath.elements [pathElem S!"sup" false]] else []) =
      c11_vertSpec v := by
  unfold c11_vertSpec
  by_cases h1 : v = some S!"subscript"
  · subst h1; simp [c11_pathElem]
  · by_cases h2 : v = some S!"superscript"
    · subst h2; simp [c11_pathElem]
    · simp [h1, h2]

/-- wrap in one element iff the flag is set -/
def c11_wrapIf (b : Bool) (t : Tag) (ns : List Node) : List Node :=
  if b then [.elem t ns] else ns

theorem c11_wrapAll_if (b : Bool) (t : Tag) (ns : List Node) :
    wrapAll (if b = true then [.elements [t]] else []) ns = c11_wrapIf b t ns := by
  cases b <;> rfl

theorem c11_wrapAll_if_empty (b : Bool) (ns : List Node) :
    wrapAll (if b = true then [.elements []] else []) ns = ns := by
  cases b <;> rfl

theorem c11_any_if (b : Bool) (es : List Tag) :
    (if b = true then [HtmlPath.elements es] else []).any HtmlPath.isIgnore = false := by
  cases b <;> rfl

theorem c11_wrapElems_append (a b : List Tag) (ns : List Node) :
    wrapElems (a ++ b) ns = wrapElems a (wrapElems b ns) := by
  induction a with
  | nil => rfl
  | cons t a ih => simp only [List.cons_append, wrapElems, ih]

theorem c11_findPath_nil (cfg : Cfg) (t : Target) (h : cfg.styleMap = []) : findPath cfg t = none := by
  simp [findPath, findStyle, h]

/-- `match x with ok (a, s) => ok (a, s) | error e => error e` is `x` -/
theorem c11_match_id {α} (x : Except Err (α × ConvState)) :
    (match x with
      | .ok (a, s) => (.ok (a, s) : Except Err (α × ConvState))
      | .error e => .error e) = x := by
  cases x with
  | error e => rfl
  | ok r => rfl

end Mammoth
