/-
  C09 — the HTML side: the slot assignment of the HTML "forming a table" algorithm for rows of
  (colspan, rowspan) cells, the document's own grid, and basic lemmas about both.
-/
import Proofs.C09_Rebuild
namespace Mammoth

/-! ### HTML: forming a table

  Rows are processed top to bottom.  The cells still growing downwards from earlier rows (`carry`) occupy
  their columns; each cell of the row takes the first column at or after the cursor that is not occupied by
  one of those, spans `colspan` columns (whatever is there) and `rowspan` rows; the cursor moves past it.
  (This is the algorithm of the HTML standard, "forming a table" / "processing rows", for a single row
  group and rowspan ≥ 1.) -/

/-- a cell as it lies in one row of the table: first column, width, rows still to cover (this row
    included), and the identity (row, index in the row) of the HTML cell -/
structure c09_Seg where
  x : Nat
  w : Nat
  rem : Nat
  id : c09_Id
deriving DecidableEq, Repr

def c09_Seg.covers (e : c09_Seg) (x : Nat) : Bool := decide (e.x ≤ x) && decide (x < e.x + e.w)

/-- column `x` is taken by a cell growing down from an earlier row -/
def c09_occ (carry : List c09_Seg) (x : Nat) : Bool := carry.any (·.covers x)

/-- a column beyond which nothing is occupied -/
def c09_bound : List c09_Seg → Nat
  | [] => 0
  | e :: es => max (e.x + e.w) (c09_bound es)

/-- "while the slot is occupied, increase x" (at most `fuel` times) -/
def c09_nextFree (occ : Nat → Bool) : Nat → Nat → Nat
  | 0, x => x
  | f + 1, x => if occ x then c09_nextFree occ f (x + 1) else x

/-- place the cells `(colspan, rowspan)` of row `y`, numbered from `i`, cursor at column `x` -/
def c09_placeRow (carry : List c09_Seg) (y : Nat) : List (Nat × Nat) → Nat → Nat → List c09_Seg
  | [], _, _ => []
  | (cs, rs) :: rest, i, x =>
    let x' := c09_nextFree (c09_occ carry) (c09_bound carry - x) x
    ⟨x', cs, rs, (y, i)⟩ :: c09_placeRow carry y rest (i + 1) (x' + cs)

/-- the cells that continue into the next row -/
def c09_carryNext (segs : List c09_Seg) : List c09_Seg :=
  (segs.filter fun e => decide (1 < e.rem)).map fun e => { e with rem := e.rem - 1 }

/-- for each row, all cells present in it (growing down from above, or starting here) -/
def c09_htmlRows (carry : List c09_Seg) (y : Nat) : List (List (Nat × Nat)) → List (List c09_Seg)
  | [] => []
  | row :: rest =>
    let segs := carry ++ c09_placeRow carry y row 0 0
    segs :: c09_htmlRows (c09_carryNext segs) (y + 1) rest

/-- the cells lying on column `x` -/
def c09_slot (segs : List c09_Seg) (x : Nat) : List c09_Id := (segs.filter (·.covers x)).map (·.id)

def c09_slotAt (rows : List (List c09_Seg)) (y x : Nat) : List c09_Id :=
  match rows[y]? with
  | some segs => c09_slot segs x
  | none => []

/-- the HTML cells (row, index in row) that the table layout puts on slot (row `y`, column `x`):
    `[]` = a gap, two or more = overlapping cells -/
def c09_htmlLayout (cells : List (List (Nat × Nat))) (y x : Nat) : List c09_Id :=
  c09_slotAt (c09_htmlRows [] 0 cells) y x

/-- The same for a table whose first `n` rows are in `thead` and the others in `tbody` (`n ≠ 0`): the HTML
    standard ends all downward-growing cells at the end of a row group, so each group is laid out on its
    own; the identities of the body cells are renumbered to whole-table row numbers. -/
def c09_htmlLayoutGroups (cells : List (List (Nat × Nat))) (n : Nat) (y x : Nat) : List c09_Id :=
  if n = 0 then c09_htmlLayout cells y x
  else if y < n then c09_htmlLayout (cells.take n) y x
  else (c09_htmlLayout (cells.drop n) (y - n) x).map fun id => (id.1 + n, id.2)

/-- (colspan, rowspan) of the cells of a row -/
def c09_spans : List Elem → List (Nat × Nat)
  | [] => []
  | .cell c r _ _ :: es => (c, r) :: c09_spans es
  | _ :: es => c09_spans es

/-- the rows of a table as lists of (colspan, rowspan) -/
def c09_cellsOf : List Elem → List (List (Nat × Nat))
  | [] => []
  | .row _ cells :: rest => c09_spans cells :: c09_cellsOf rest
  | _ :: rest => c09_cellsOf rest

/-! ### the document's grid -/

/-- the cell of the row (laid out from column `ci`, non-continuation cells numbered from `i`) that covers
    column `x ≥ ci`: (its start column, its number among the non-continuation cells, the cell) -/
def c09_cellAt : c09_Row → Nat → Nat → Nat → Option (Nat × Nat × c09_Cell)
  | [], _, _, _ => none
  | c :: cs, ci, i, x =>
    if x < ci + c.span then some (ci, i, c)
    else c09_cellAt cs (ci + c.span) (if c.isCont then i else i + 1) x

/-- owner of each column of row `y`: a continuation cell's columns belong to whoever owns them in the row
    above, any other cell owns its columns; the owner's identity is (row, number among the
    non-continuation cells of that row), i.e. the identity of the HTML cell it becomes -/
def c09_docRow (prevOwn : Nat → Option c09_Id) (y : Nat) (row : c09_Row) : Nat → Option c09_Id := fun x =>
  match c09_cellAt row 0 0 x with
  | none => none
  | some (_, i, c) => if c.isCont then prevOwn x else some (y, i)

def c09_docRows (prevOwn : Nat → Option c09_Id) (y : Nat) : List c09_Row → List (Nat → Option c09_Id)
  | [] => []
  | row :: rest => c09_docRow prevOwn y row :: c09_docRows (c09_docRow prevOwn y row) (y + 1) rest

def c09_ownAt (fs : List (Nat → Option c09_Id)) (y x : Nat) : Option c09_Id :=
  match fs[y]? with
  | some f => f x
  | none => none

/-- the cell that owns grid position (row `y`, column `x`) in the document (`none` outside the grid) -/
def c09_docGrid (rows : List c09_Row) (y x : Nat) : Option c09_Id :=
  c09_ownAt (c09_docRows (fun _ => none) 0 rows) y x

/-! ### what `calculateRowSpans` hands to the converter, as (colspan, rowspan) lists -/

def c09_specSpans (below : List c09_Row) : c09_Row → Nat → List (Nat × Nat)
  | [], _ => []
  | c :: cs, ci =>
    if c.isCont then c09_specSpans below cs (ci + c.span)
    else (c.span, 1 + c09_chain below ci) :: c09_specSpans below cs (ci + c.span)

def c09_specCells : List c09_Row → List (List (Nat × Nat))
  | [] => []
  | row :: rest => c09_specSpans rest row 0 :: c09_specCells rest

theorem c09_spans_expected (below : List c09_Row) (cells : c09_Row) (ci : Nat) :
    c09_spans (c09_expectedCells below cells ci) = c09_specSpans below cells ci := by
  induction cells generalizing ci with
  | nil => rfl
  | cons c cs ih =>
    by_cases h : c.isCont = true
    · simp [c09_expectedCells, c09_specSpans, h, ih]
    · simp [c09_expectedCells, c09_specSpans, h, ih, c09_spans]

theorem c09_cellsOf_expected (hdr : Nat → Bool) (rows : List c09_Row) (r : Nat) :
    c09_cellsOf (c09_expectedFrom hdr r rows) = c09_specCells rows := by
  induction rows generalizing r with
  | nil => rfl
  | cons row rest ih => simp [c09_expectedFrom, c09_cellsOf, c09_specCells, c09_spans_expected, ih]

/-! ### small lemmas -/

theorem c09_any_eq_filter {α} (p : α → Bool) (l : List α) : l.any p = !(l.filter p).isEmpty := by
  induction l with
  | nil => rfl
  | cons a l ih => by_cases h : p a = true <;> simp [h, ih]

theorem c09_occ_lt_bound (carry : List c09_Seg) (c : Nat) (h : c09_occ carry c = true) : c < c09_bound carry := by
  induction carry with
  | nil => simp [c09_occ] at h
  | cons e es ih =>
    simp only [c09_occ, List.any_cons, Bool.or_eq_true] at h
    simp only [c09_bound]
    rcases h with h | h
    · simp only [c09_Seg.covers, Bool.and_eq_true, decide_eq_true_eq] at h; omega
    · have := ih h; omega

theorem c09_nextFree_eq (occ : Nat → Bool) (ci : Nat) :
    ∀ (fuel x : Nat), x ≤ ci → (∀ c, x ≤ c → c < ci → occ c = true) → occ ci = false → ci - x ≤ fuel →
      c09_nextFree occ fuel x = ci := by
  intro fuel
  induction fuel with
  | zero => intro x hx _ _ hf; simp only [c09_nextFree]; omega
  | succ f ih =>
    intro x hx hocc hfree hf
    simp only [c09_nextFree]
    by_cases hxc : x = ci
    · subst hxc; simp [hfree]
    · have : occ x = true := hocc x (Nat.le_refl _) (by omega)
      rw [if_pos this]
      exact ih (x + 1) (by omega) (fun c h1 h2 => hocc c (by omega) h2) hfree (by omega)

/-! ### `cellAt` and `findStart` -/

theorem c09_cellAt_findStart (prev cells : c09_Row) :
    ∀ (ci i x s j : Nat) (c : c09_Cell), c09_rowOkFrom prev cells ci = true → ci ≤ x →
      c09_cellAt cells ci i x = some (s, j, c) →
      c09_findStart cells ci s = some c ∧ s ≤ x ∧ x < s + c.span := by
  induction cells with
  | nil => intro ci i x s j c _ _ h; simp [c09_cellAt] at h
  | cons d ds ih =>
    intro ci i x s j c hok hx h
    obtain ⟨hspan, hok'⟩ := c09_rowOk_span prev d ds ci hok
    simp only [c09_cellAt] at h
    by_cases hlt : x < ci + d.span
    · rw [if_pos hlt] at h
      simp only [Option.some.injEq, Prod.mk.injEq] at h
      obtain ⟨rfl, _, rfl⟩ := h
      exact ⟨c09_findStart_cons_eq _ _ _, hx, hlt⟩
    · rw [if_neg hlt] at h
      obtain ⟨h1, h2, h3⟩ := ih _ _ x s j c hok' (by omega) h
      refine ⟨?_, h2, h3⟩
      have hne : ci ≠ s := by
        intro he; subst he
        rw [c09_findStart_lt ds (ci + d.span) ci (by omega)] at h1; simp at h1
      rw [c09_findStart_cons_ne d ds hne]; exact h1

theorem c09_findStart_cellAt (prev cells : c09_Row) :
    ∀ (ci i x s : Nat) (c : c09_Cell), c09_rowOkFrom prev cells ci = true →
      c09_findStart cells ci s = some c → s ≤ x → x < s + c.span →
      ∃ j, c09_cellAt cells ci i x = some (s, j, c) := by
  induction cells with
  | nil => intro ci i x s c _ h; simp [c09_findStart] at h
  | cons d ds ih =>
    intro ci i x s c hok h hsx hxs
    obtain ⟨hspan, hok'⟩ := c09_rowOk_span prev d ds ci hok
    by_cases hcs : ci = s
    · subst hcs
      rw [c09_findStart_cons_eq] at h
      obtain rfl := Option.some.inj h
      exact ⟨i, by simp [c09_cellAt, hxs]⟩
    · rw [c09_findStart_cons_ne d ds hcs] at h
      have hge : ci + d.span ≤ s := by
        apply Nat.le_of_not_lt; intro hlt
        rw [c09_findStart_lt ds _ s hlt] at h; simp at h
      obtain ⟨j, hj⟩ := ih (ci + d.span) (if d.isCont then i else i + 1) x s c hok' h hsx hxs
      refine ⟨j, ?_⟩
      simp only [c09_cellAt]
      rw [if_neg (by omega)]; exact hj

theorem c09_cellAt_lt (ci i x : Nat) (c : c09_Cell) (cs : c09_Row) (h : x < ci + c.span) :
    c09_cellAt (c :: cs) ci i x = some (ci, i, c) := by simp [c09_cellAt, h]

theorem c09_cellAt_ge (c : c09_Cell) (cs : c09_Row) (ci i x : Nat) (h : ¬ x < ci + c.span) :
    c09_cellAt (c :: cs) ci i x = c09_cellAt cs (ci + c.span) (if c.isCont then i else i + 1) x := by
  simp [c09_cellAt, h]

end Mammoth
