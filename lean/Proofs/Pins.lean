/-
  Pins.lean - the CONTENT of the tables that gen/extract.py regenerates from /repo's source on every run, as it was when
  the model was last validated (a static file: it is NOT regenerated).  The model consumes `Generated.*`, so an edit of a
  table in the library silently changes the functions the theorems are about; the theorems below say that today's tables
  still have the validated content, so that such an edit breaks a proof obligation of every property that depends on the
  table (found by the mechanical mutation sweep of the third session: removing `image/gif` from the browser-friendly image
  types, or `office-word:wrap` from the ignored elements, changed model and code alike and no check noticed).
  Order-insensitive where the order carries no meaning (sets written as lists in the source).
-/
import MammothModel.Generated
namespace Mammoth

/-- equality as sets of two duplicate-tolerant lists -/
def sameSet {α} [BEq α] (a b : List α) : Bool := a.all b.contains && b.all a.contains

def pin_handlers : List (Str × Str) := [
  (S!"mc:AlternateContent", S!"alternate_content"),
  (S!"v:group", S!"read_child_elements"),
  (S!"v:imagedata", S!"read_imagedata"),
  (S!"v:rect", S!"read_child_elements"),
  (S!"v:roundrect", S!"read_child_elements"),
  (S!"v:shape", S!"read_child_elements"),
  (S!"v:textbox", S!"read_child_elements"),
  (S!"w:bookmarkStart", S!"bookmark_start"),
  (S!"w:br", S!"break_"),
  (S!"w:commentReference", S!"read_comment_reference"),
  (S!"w:drawing", S!"read_child_elements"),
  (S!"w:endnoteReference", S!"note_reference:endnote"),
  (S!"w:fldChar", S!"read_fld_char"),
  (S!"w:footnoteReference", S!"note_reference:footnote"),
  (S!"w:hyperlink", S!"hyperlink"),
  (S!"w:ins", S!"read_child_elements"),
  (S!"w:instrText", S!"read_instr_text"),
  (S!"w:noBreakHyphen", S!"no_break_hyphen"),
  (S!"w:object", S!"read_child_elements"),
  (S!"w:p", S!"paragraph"),
  (S!"w:pict", S!"pict"),
  (S!"w:r", S!"run"),
  (S!"w:sdt", S!"read_sdt"),
  (S!"w:smartTag", S!"read_child_elements"),
  (S!"w:softHyphen", S!"soft_hyphen"),
  (S!"w:sym", S!"symbol"),
  (S!"w:t", S!"text"),
  (S!"w:tab", S!"tab"),
  (S!"w:tbl", S!"table"),
  (S!"w:tc", S!"table_cell"),
  (S!"w:tr", S!"table_row"),
  (S!"w:txbxContent", S!"read_child_elements"),
  (S!"wp:anchor", S!"inline"),
  (S!"wp:inline", S!"inline")]

def pin_ignored : List Str := [S!"office-word:wrap", S!"v:shadow", S!"v:shapetype", S!"w:annotationRef", S!"w:bookmarkEnd", S!"w:commentRangeEnd", S!"w:commentRangeStart", S!"w:del", S!"w:endnoteRef", S!"w:footnoteRef", S!"w:lastRenderedPageBreak", S!"w:pPr", S!"w:proofErr", S!"w:rPr", S!"w:sectPr", S!"w:tblGrid", S!"w:tblPr", S!"w:tcPr", S!"w:trPr"]

def pin_browserImageTypes : List Str := [S!"image/png", S!"image/gif", S!"image/jpeg", S!"image/svg+xml", S!"image/tiff"]

def pin_imageExtensions : List (Str × Str) := [(S!"bmp", S!"bmp"), (S!"gif", S!"gif"), (S!"jpeg", S!"jpeg"), (S!"jpg", S!"jpeg"), (S!"png", S!"png"), (S!"tif", S!"tiff"), (S!"tiff", S!"tiff")]

def pin_voidTagNames : List Str := [S!"br", S!"hr", S!"img", S!"input"]

def pin_escapeTable : List (Char × Str) := [('"', S!"&quot;"), ('&', S!"&amp;"), ('<', S!"&lt;"), ('>', S!"&gt;")]

def pin_namespaces : List (Str × Str) := [
  (S!"w", S!"http://schemas.openxmlformats.org/wordprocessingml/2006/main"),
  (S!"r", S!"http://schemas.openxmlformats.org/officeDocument/2006/relationships"),
  (S!"wp", S!"http://schemas.openxmlformats.org/drawingml/2006/wordprocessingDrawing"),
  (S!"a", S!"http://schemas.openxmlformats.org/drawingml/2006/main"),
  (S!"pic", S!"http://schemas.openxmlformats.org/drawingml/2006/picture"),
  (S!"w", S!"http://purl.oclc.org/ooxml/wordprocessingml/main"),
  (S!"r", S!"http://purl.oclc.org/ooxml/officeDocument/relationships"),
  (S!"wp", S!"http://purl.oclc.org/ooxml/drawingml/wordprocessingDrawing"),
  (S!"a", S!"http://purl.oclc.org/ooxml/drawingml/main"),
  (S!"pic", S!"http://purl.oclc.org/ooxml/drawingml/picture"),
  (S!"content-types", S!"http://schemas.openxmlformats.org/package/2006/content-types"),
  (S!"relationships", S!"http://schemas.openxmlformats.org/package/2006/relationships"),
  (S!"mc", S!"http://schemas.openxmlformats.org/markup-compatibility/2006"),
  (S!"v", S!"urn:schemas-microsoft-com:vml"),
  (S!"office-word", S!"urn:schemas-microsoft-com:office:word"),
  (S!"o", S!"urn:schemas-microsoft-com:office:office"),
  (S!"wordml", S!"http://schemas.microsoft.com/office/word/2010/wordml")]


theorem pins_handlers : Generated.handlers = pin_handlers := by decide
theorem pins_ignored : sameSet Generated.ignored pin_ignored = true := by decide
theorem pins_browserImageTypes : sameSet Generated.browserImageTypes pin_browserImageTypes = true := by decide
theorem pins_imageExtensions : Generated.imageExtensions = pin_imageExtensions := by decide
theorem pins_voidTagNames : Generated.voidTagNames = pin_voidTagNames := by decide
theorem pins_escapeTable : Generated.escapeTable = pin_escapeTable := by decide
theorem pins_namespaces : sameSet Generated.namespaces pin_namespaces = true := by decide

/-- the dingbat table: number of entries and two checksums (over the (font, code) keys and over the code points) -/
def dingbatSums (t : List ((Str × Nat) × Nat)) : Nat × Nat × Nat :=
  (t.length, t.foldl (fun acc e => acc + e.1.1.length * 7 + e.1.2) 0, t.foldl (fun acc e => acc + e.2) 0)

theorem pins_dingbats : dingbatSums Generated.dingbats = (1061, 217117, 77998056) := by decide +kernel

end Mammoth
