/-
  C17, reader half — small facts used by the refinement proof: element names versus handler names, the
  specification's relationship / part-name / alt-text functions versus the model's, and the results of
  the two image readers (`readInline`, `v:imagedata`).
-/
import Proofs.C17_XmlSpec
import Proofs.C17_ElemImages
import Proofs.C01_ReadAtoms
namespace Mammoth

/-! ### element names and handlers -/

/-- the kind of image content each handler of the reader stands for -/
def c17_handlerKind (h : Str) : c17_Kind :=
  if h = S!"inline" then .drawing else if h = S!"read_imagedata" then .imagedata
  else if h = S!"paragraph" then .paragraph else if h = S!"pict" then .pict
  else if h = S!"alternate_content" then .alt else if h = S!"read_sdt" then .sdt
  else if h ∈ [S!"run", S!"table", S!"table_row", S!"table_cell", S!"read_child_elements", S!"hyperlink"] then .through
  else .skip

theorem c17_kinds_agree :
    Generated.handlers.all (fun p => decide (c17_kindOf p.1 = c17_handlerKind p.2)) = true := by decide

theorem c17_kinds_known : c17_kinds.all (fun p => (handlerOf p.1).isSome) = true := by decide

/-- a name with a handler has the kind of that handler -/
theorem c17_kindOf_handler {name h : Str} (hh : handlerOf name = some h) : c17_kindOf name = c17_handlerKind h := by
  have hm := c05_lookupLast_mem _ _ _ hh
  have := List.all_eq_true.mp c17_kinds_agree _ hm
  simpa using this

theorem c17_kindIn_skip (tbl : List (Str × c17_Kind)) (name : Str) :
    c17_kindIn tbl name = .skip ∨ ∃ p ∈ tbl, p.1 = name := by
  induction tbl with
  | nil => exact Or.inl rfl
  | cons p tbl ih =>
    obtain ⟨k, v⟩ := p
    simp only [c17_kindIn]
    split
    · rename_i hk; exact Or.inr ⟨(k, v), List.mem_cons_self, hk.symm⟩
    · rcases ih with h | ⟨q, hq, hqn⟩
      · exact Or.inl h
      · exact Or.inr ⟨q, List.mem_cons_of_mem _ hq, hqn⟩

/-- a name without a handler is skipped -/
theorem c17_kindOf_none {name : Str} (hh : handlerOf name = none) : c17_kindOf name = .skip := by
  rcases c17_kindIn_skip c17_kinds name with h | ⟨p, hp, hpn⟩
  · exact h
  · have := List.all_eq_true.mp c17_kinds_known p hp
    rw [hpn, hh] at this
    cases this

theorem c17_hk {name g : Str} {k : c17_Kind} (hg : handlerOf name = some g) (hk : c17_handlerKind g = k) :
    c17_kindOf name = k := (c17_kindOf_handler hg).trans hk

/-! ### the specification's helpers are the model's -/

theorem c17_relTarget_eq (rs : Rels) (id : Str) :
    c17_relTarget rs id = lookupLast id (rs.map fun r => (r.id, r.target)) := by
  induction rs with
  | nil => rfl
  | cons r rest ih =>
    simp only [c17_relTarget, List.map_cons, lookupLast, ih]
    cases lookupLast id (rest.map fun r => (r.id, r.target)) with
    | some w => simp
    | none =>
      simp only [Option.none_or]
      by_cases h : r.id = id
      · simp [h]
      · have : ¬ id = r.id := fun e => h e.symm
        simp [h, this]

theorem c17_targetById_ok {rs : Rels} {id t : Str} (h : rs.targetById id = .ok t) :
    c17_relTarget rs id = some t := by
  rw [c17_relTarget_eq]
  unfold Rels.targetById at h
  split at h
  · rename_i t' ht; cases h; exact ht
  · cases h

theorem c17_partName_eq (t : Str) : uriToZipEntryName S!"word" t = c17_partName t := by
  unfold uriToZipEntryName c17_partName
  split
  · rfl
  · rename_i h
    split
    · rename_i rest; exact absurd rfl (h rest)
    · simp

theorem c17_lstripWs_nil (s : Str) : lstripWs s = [] ↔ s.all isSpace = true := by
  induction s with
  | nil => simp [lstripWs]
  | cons c cs ih =>
    simp only [lstripWs, List.all_cons, Bool.and_eq_true]
    by_cases hc : isSpace c = true
    · simp [hc, ih]
    · simp [hc]

theorem c17_lstripWs_head (s : Str) (c : Char) (rest : Str) (h : lstripWs s = c :: rest) : isSpace c = false := by
  induction s with
  | nil => simp [lstripWs] at h
  | cons d ds ih =>
    simp only [lstripWs] at h
    by_cases hd : isSpace d = true
    · rw [if_pos hd] at h; exact ih h
    · rw [if_neg hd] at h
      cases h
      simpa using hd

/-- `strip()` leaves nothing iff the string is blank -/
theorem c17_strip_isEmpty (s : Str) : (strip s).isEmpty = c17_isBlank s := by
  unfold strip rstripWs c17_isBlank
  cases hl : lstripWs s with
  | nil =>
    have := (c17_lstripWs_nil s).mp hl
    simp [lstripWs, this]
  | cons c rest =>
    have hc := c17_lstripWs_head s c rest hl
    have hne : s.all isSpace ≠ true := fun h => by
      rw [(c17_lstripWs_nil s).mpr h] at hl; cases hl
    have h2 : lstripWs (c :: rest).reverse ≠ [] := by
      intro h
      have := (c17_lstripWs_nil _).mp h
      rw [List.all_reverse] at this
      simp only [List.all_cons, Bool.and_eq_true] at this
      rw [hc] at this
      exact absurd this.1 (by simp)
    have h3 : ((lstripWs (c :: rest).reverse).reverse).isEmpty = false := by
      cases hr : lstripWs (c :: rest).reverse with
      | nil => exact absurd hr h2
      | cons a b => simp
    rw [h3]
    cases hb : s.all isSpace with
    | true => exact absurd hb hne
    | false => rfl

theorem c17_inlineAlt_eq (cs : List XmlNode) :
    c17_inlineAlt cs = c17_altText (findChildOrNull S!"wp:docPr" cs).1 := by
  unfold c17_inlineAlt c17_altText
  simp only []
  cases hd : attr? S!"descr" (findChildOrNull S!"wp:docPr" cs).1 with
  | none => simp [strip, rstripWs, lstripWs]
  | some d =>
    simp only [Option.getD_some, c17_strip_isEmpty]
    cases c17_isBlank d <;> simp

/-- the blips of a drawing, depth first, are the model's breadth-wise collection -/
theorem c17_inlineBlips_eq (cs : List XmlNode) :
    (c17_inlineBlips cs).map (·.1) = c17_descend c17_blipPath cs := by
  simp only [c17_inlineBlips, c17_blipPath, c17_descend, flatChildren, List.flatMap_assoc, List.map_flatMap]

/-! ### results without children -/

/-- a result made of childless elements, with nothing in the extra channel, whose images are `l` -/
def c17_leafRes (r : ReadResult) (l : List ImageProps) : Prop :=
  r.extra = [] ∧ r.elements.all c01_atom = true ∧ c17_elemImagesL r.elements = l

theorem c17_leafRes_empty : c17_leafRes {} [] := ⟨rfl, rfl, by simp⟩
theorem c17_leafRes_msg (m : Str) : c17_leafRes (rrMsg m) [] := ⟨rfl, rfl, by simp [rrMsg]⟩

theorem c17_leafRes_concat {a b : ReadResult} {la lb : List ImageProps}
    (ha : c17_leafRes a la) (hb : c17_leafRes b lb) : c17_leafRes (a.concat b) (la ++ lb) := by
  obtain ⟨a1, a2, a3⟩ := ha
  obtain ⟨b1, b2, b3⟩ := hb
  refine ⟨by simp [ReadResult.concat, a1, b1], by simp only [ReadResult.concat, List.all_append, a2, b2]; rfl, ?_⟩
  simp [ReadResult.concat, c17_elemImagesL_append, a3, b3]

/-- a result whose elements are childless and carry no image -/
theorem c17_leafRes_of_silent {r : ReadResult} (h1 : r.extra = []) (h2 : r.elements.all c01_atom = true)
    (h3 : c17_elemImagesL r.elements = []) : c17_leafRes r [] := ⟨h1, h2, h3⟩

theorem c17_leafRes_break (as : Attrs) : c17_leafRes (readBreak as) [] := by
  unfold readBreak
  repeat' split
  all_goals first
    | exact c17_leafRes_msg _
    | exact ⟨rfl, rfl, by simp [rrElems, c17_elemImages]⟩

theorem c17_leafRes_symbol (as : Attrs) (r : ReadResult) (h : readSymbol as = .ok r) : c17_leafRes r [] := by
  unfold readSymbol at h
  dsimp only at h
  repeat' split at h
  all_goals first
    | (cases h; done)
    | (cases h; exact c17_leafRes_msg _)
    | (cases h; exact ⟨rfl, rfl, by simp [rrElems, c17_elemImages]⟩)

theorem c17_leafRes_fldChar (st : RState) (as : Attrs) (cs : List XmlNode) (r : ReadResult) (st' : RState)
    (h : readFldChar st as cs = .ok (r, st')) : c17_leafRes r [] ∧ st'.deleted = st.deleted := by
  unfold readFldChar at h
  dsimp only at h
  repeat' split at h
  all_goals first
    | (cases h; done)
    | (cases h; exact ⟨c17_leafRes_empty, rfl⟩)
    | (cases h; exact ⟨⟨rfl, rfl, by simp [rrElems, c17_elemImages]⟩, rfl⟩)

theorem c17_leafRes_image (env : REnv) (path : Str) (src : ImageSrc) (alt : Option Str) :
    c17_leafRes (readImage env path src alt) [c17_image env path src alt] := by
  unfold readImage c17_image
  rw [c17_findContentType_eq]
  dsimp only
  repeat' split
  all_goals exact ⟨rfl, rfl, by simp [rrElems, c17_elemImages]⟩

theorem c17_leafRes_embedded (env : REnv) (rid : Str) (alt : Option Str) (r : ReadResult)
    (h : readEmbeddedImage env rid alt = .ok r) : c17_leafRes r (c17_embedded env rid alt) := by
  unfold readEmbeddedImage at h
  cases ht : env.rels.targetById rid with
  | error e => rw [ht] at h; cases h
  | ok t =>
    rw [ht] at h
    simp only [bind, Except.bind, pure, Except.pure, Except.ok.injEq] at h
    rw [← h, c17_partName_eq]
    unfold c17_embedded
    rw [c17_targetById_ok ht]
    exact c17_leafRes_image _ _ _ _

theorem c17_leafRes_blip (env : REnv) (as : Attrs) (alt : Option Str) (r : ReadResult)
    (h : readBlip env as alt = .ok r) : c17_leafRes r (c17_blip env as alt) := by
  unfold readBlip at h
  unfold c17_blip
  split at h
  · rename_i rid he
    rw [he]
    exact c17_leafRes_embedded _ _ _ _ h
  · rename_i he
    rw [he]
    dsimp only
    split at h
    · rename_i rid hl
      rw [hl]
      dsimp only
      cases ht : env.rels.targetById rid with
      | error e => rw [ht] at h; cases h
      | ok t =>
        rw [ht] at h
        simp only [bind, Except.bind, pure, Except.pure, Except.ok.injEq] at h
        rw [← h]
        unfold c17_linked
        rw [c17_targetById_ok ht]
        exact c17_leafRes_image _ _ _ _
    · rename_i hl
      rw [hl]
      cases h; exact c17_leafRes_msg _

theorem c17_leafRes_mapM {α} (f : α → Except Err ReadResult) (g : α → List ImageProps)
    (hf : ∀ a r, f a = .ok r → c17_leafRes r (g a)) :
    ∀ (l : List α) (rs : List ReadResult) (acc : ReadResult) (la : List ImageProps),
      l.mapM f = .ok rs → c17_leafRes acc la → c17_leafRes (rs.foldl ReadResult.concat acc) (la ++ l.flatMap g) := by
  intro l
  induction l with
  | nil =>
    intro rs acc la h hacc
    simp only [List.mapM_nil, pure, Except.pure, Except.ok.injEq] at h
    subst h
    simpa using hacc
  | cons a l ih =>
    intro rs acc la h hacc
    rw [List.mapM_cons] at h
    cases hfa : f a with
    | error e => rw [hfa] at h; cases h
    | ok b1 =>
      cases hl : l.mapM f with
      | error e => rw [hfa, hl] at h; cases h
      | ok bs1 =>
        rw [hfa, hl] at h
        simp only [bind, Except.bind, pure, Except.pure, Except.ok.injEq] at h
        subst h
        simp only [List.foldl_cons, List.flatMap_cons]
        rw [← List.append_assoc]
        exact ih bs1 _ _ hl (c17_leafRes_concat hacc (hf a b1 hfa))

/-- `wp:inline` / `wp:anchor` -/
theorem c17_leafRes_inline (env : REnv) (cs : List XmlNode) (r : ReadResult)
    (h : readInline env cs = .ok r) : c17_leafRes r (c17_drawing env cs) := by
  rw [c17_readInline_eq] at h
  cases hm : (c17_inlineBlips cs).mapM (fun (b : Attrs × List XmlNode) => readBlip env b.1 (c17_inlineAlt cs)) with
  | error e => rw [hm] at h; cases h
  | ok rs =>
    rw [hm] at h
    simp only [Except.map, Except.ok.injEq] at h
    rw [← h]
    have := c17_leafRes_mapM (fun (b : Attrs × List XmlNode) => readBlip env b.1 (c17_inlineAlt cs))
      (fun b => c17_blip env b.1 (c17_inlineAlt cs))
      (fun a r ha => c17_leafRes_blip env a.1 _ r ha) _ rs {} [] hm c17_leafRes_empty
    simp only [List.nil_append] at this
    unfold c17_drawing
    rw [← c17_inlineBlips_eq, ← c17_inlineAlt_eq, List.flatMap_map]
    exact this

/-- `v:imagedata` -/
theorem c17_leafRes_imagedata (env : REnv) (as : Attrs) (st : RState) (r : ReadResult) (st' : RState)
    (h : (match attr? S!"r:id" as with
          | none => Except.ok (rrMsg S!"A v:imagedata element without a relationship ID was ignored", st)
          | some rid => (readEmbeddedImage env rid (attr? S!"o:title" as)).map (·, st)) = .ok (r, st')) :
    c17_leafRes r (c17_imagedata env as) ∧ st' = st := by
  unfold c17_imagedata
  split at h
  · rename_i hid
    rw [hid]
    cases h; exact ⟨c17_leafRes_msg _, rfl⟩
  · rename_i rid hid
    rw [hid]
    cases hs : readEmbeddedImage env rid (attr? S!"o:title" as) with
    | error e => rw [hs] at h; cases h
    | ok r1 =>
      rw [hs] at h
      simp only [Except.map, Except.ok.injEq, Prod.mk.injEq] at h
      obtain ⟨rfl, rfl⟩ := h
      exact ⟨c17_leafRes_embedded env _ _ r1 hs, rfl⟩

end Mammoth
