/-
  C12 (conversion) — every hypothesis of `c12_embed_convert` is necessary: for each, a variant of the example
  package (Proofs/C12_ConvExample.lean) that violates only it and on which the two conversions differ.
-/
import Proofs.C12_ConvExample
namespace Mammoth

set_option maxRecDepth 100000 in
/-- the id `rMammothStyleMap` already names the footnotes relationship: the embed overwrites it, the
    footnotes are then read from the fallback `word/footnotes.xml` ("Note") instead of `word/notes.xml` ("Other") -/
theorem c12_ex_idTaken :
    c12_exHyps c12_exIdTaken = [false, true, true, true, true, true] ∧
    c12_convAfter c12_exIdTaken c12_exMap {} ≠ some (c12_convBefore c12_exIdTaken c12_exMap {}) := by
  decide +kernel

set_option maxRecDepth 100000 in
/-- a `Relationship Id="rMammothStyleMap"` without `Target`: the original raises KeyError, the new file converts -/
theorem c12_ex_idBroken :
    c12_exHyps c12_exIdBroken = [false, true, true, true, true, true] ∧
    c12_convBefore c12_exIdBroken c12_exMap {} = .inl (.key S!"Id/Target/Type") ∧
    c12_convAfter c12_exIdBroken c12_exMap {} = some (.inr (c12_exHtml, [])) := by
  decide +kernel

set_option maxRecDepth 100000 in
/-- an `Override PartName="/mammoth/style-map"` without `ContentType`: KeyError before, fine after -/
theorem c12_ex_overrideBroken :
    c12_exHyps c12_exOverrideBroken = [true, false, true, true, true, true] ∧
    c12_convBefore c12_exOverrideBroken c12_exMap {} = .inl (.key S!"PartName/ContentType") ∧
    c12_convAfter c12_exOverrideBroken c12_exMap {} = some (.inr (c12_exHtml, [])) := by
  decide +kernel

set_option maxRecDepth 100000 in
/-- a footnotes relationship targets `/mammoth/style-map`: not a part before (skipped), the style map after
    (not XML) -/
theorem c12_ex_lookup :
    c12_exHyps c12_exLookup = [true, true, false, true, true, true] ∧
    c12_convBefore c12_exLookup c12_exMap {} = .inr (c12_exHtml, []) ∧
    c12_convAfter c12_exLookup c12_exMap {} = some (.inl (.value S!"not XML: mammoth/style-map")) := by
  decide +kernel

set_option maxRecDepth 100000 in
/-- the hyperlink uses the relationship id `rMammothStyleMap`: undefined before (KeyError), the style map after -/
theorem c12_ex_refId :
    c12_exHyps c12_exRefId = [true, true, true, false, true, true] ∧
    c12_convBefore c12_exRefId c12_exMap {} = .inl (.key S!"rMammothStyleMap") ∧
    (c12_convAfter c12_exRefId c12_exMap {}).isSome = true ∧
    c12_convAfter c12_exRefId c12_exMap {} ≠ some (c12_convBefore c12_exRefId c12_exMap {}) := by
  decide +kernel

set_option maxRecDepth 100000 in
/-- the picture IS the zip entry `mammoth/style-map`: other bytes and another content type after the embed -/
theorem c12_ex_refImage :
    c12_exHyps c12_exRefImage = [true, true, true, false, true, false] ∧
    c12_convAfter c12_exRefImage c12_exMap {} ≠ some (c12_convBefore c12_exRefImage c12_exMap {}) := by
  decide +kernel

set_option maxRecDepth 100000 in
/-- `transform_document` adds an image read from `mammoth/style-map`: KeyError before, the style map after.
    (Only the model's `transform` can do this: a Python transform has no way to name a zip entry.) -/
theorem c12_ex_transform :
    c12_imagesOk c12_exPkg 20 c12_exTransform = false ∧
    c12_obs (apiConvert c12_exPkg 20 none (fun _ => none) c12_exTransform
      { styleMap := some c12_exMap, includeEmbedded := false }) = .inl (.key S!"mammoth/style-map") ∧
    ((c12_embedPkg c12_exPkg c12_exMap).map fun p' =>
      (c12_obs (apiConvert p' 20 none (fun _ => none) c12_exTransform
        { styleMap := none, includeEmbedded := true })).isRight) = some true := by
  decide +kernel

set_option maxRecDepth 100000 in
/-- two entries of the same name, a `bytes` one first and an `xml` one last: the MODEL's image reader sees
    the first before the embed and none after it (`update_zip` keeps the last).  The real `zipfile` reads the
    last entry both times — see the report: a model artefact, not a behaviour of the library. -/
theorem c12_ex_duplicate :
    c12_exHyps c12_exDuplicate = [true, true, true, true, false, true] ∧
    c12_convBefore c12_exDuplicate c12_exMap {} = .inr (c12_exHtml, []) ∧
    c12_convAfter c12_exDuplicate c12_exMap {} = some (.inl (.key S!"word/media/image1.png")) := by
  decide +kernel

end Mammoth
