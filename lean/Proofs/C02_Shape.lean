/-
  C02 — the shape of a forest (all strings erased) and the skeleton of a token list (all strings
  erased); how substitution acts on tokens and on the coalesced token list the lexer returns.
-/
import Proofs.C02_Subst
namespace Mammoth

/-! ### the shape of a forest: tag names, attribute names, nesting, position of the text leaves -/

inductive c02_Shape where
  | text
  | mark
  | elem (name : Str) (keys : List Str) (children : List c02_Shape)
deriving Repr, Inhabited

/-- the attribute names, in order -/
def c02_keys : Dict Str → List Str
  | [] => []
  | (k, _) :: r => k :: c02_keys r

mutual
def c02_shapeN : Node → c02_Shape
  | .text _ => .text
  | .forceWrite => .mark
  | .elem t cs => .elem t.name (c02_keys t.attrs) (c02_shape cs)
/-- the forest with every string erased: what is left are the tag names, the attribute names (in
    order), the nesting, and the places of the text leaves and force-write markers -/
def c02_shape : List Node → List c02_Shape
  | [] => []
  | c :: cs => c02_shapeN c :: c02_shape cs
end

theorem c02_keys_mapAttrs (f : Str → Str → Str) (d : Dict Str) : c02_keys (c02_mapAttrs f d) = c02_keys d := by
  induction d with
  | nil => rfl
  | cons kv r ih => obtain ⟨k, v⟩ := kv; simp [c02_mapAttrs, c02_keys, ih]

mutual
theorem c02_shapeN_map (σ : c02_Sub) (n : Node) : c02_shapeN (c02_mapNode σ n) = c02_shapeN n := by
  match n with
  | .text s => simp [c02_shapeN]
  | .forceWrite => simp [c02_shapeN]
  | .elem t cs => simp [c02_shapeN, c02_keys_mapAttrs, c02_shape_map σ cs]
theorem c02_shape_map (σ : c02_Sub) (ns : List Node) : c02_shape (c02_mapForest σ ns) = c02_shape ns := by
  match ns with
  | [] => simp [c02_shape]
  | c :: cs => simp [c02_shape, c02_shapeN_map σ c, c02_shape_map σ cs]
end

/-- SHAPE INVARIANCE for forests: after `strip_empty` and `collapse` the substituted forest has the
    shape of the original one. -/
theorem c02_shape_subst (σ : c02_Sub) (ht : σ.TextOk) (ha : σ.AttrInj) (ns : List Node) :
    c02_shape (collapse (stripEmpty (c02_mapForest σ ns))) = c02_shape (collapse (stripEmpty ns)) := by
  rw [c02_stripEmpty_map σ ht, c02_collapse_map σ ht ha, c02_shape_map]

/-! ### tokens -/

def c02_mapTok (σ : c02_Sub) : c02_Tok → c02_Tok
  | .start n as => .start n (c02_mapAttrs σ.attr as)
  | .end n => .end n
  | .selfClose n as => .selfClose n (c02_mapAttrs σ.attr as)
  | .text s => .text (σ.text s)

mutual
theorem c02_tokensN_map (σ : c02_Sub) (n : Node) :
    c02_tokensN (c02_mapNode σ n) = (c02_tokensN n).map (c02_mapTok σ) := by
  match n with
  | .text s => simp [c02_mapTok]
  | .forceWrite => simp
  | .elem t cs =>
    rw [c02_mapNode_elem, c02_tokensN_elem, c02_tokensN_elem, c02_isVoid_map, c02_tokens_map σ cs]
    split <;> simp [c02_mapTok]
theorem c02_tokens_map (σ : c02_Sub) (ns : List Node) :
    c02_tokens (c02_mapForest σ ns) = (c02_tokens ns).map (c02_mapTok σ) := by
  match ns with
  | [] => simp
  | c :: cs => simp [c02_tokensN_map σ c, c02_tokens_map σ cs]
end

/-! ### the skeleton of a token list -/

inductive c02_Skel where
  | start (name : Str) (keys : List Str)
  | «end» (name : Str)
  | selfClose (name : Str) (keys : List Str)
  | text
deriving DecidableEq, Repr, Inhabited

def c02_skelTok : c02_Tok → c02_Skel
  | .start n as => .start n (c02_keys as)
  | .end n => .end n
  | .selfClose n as => .selfClose n (c02_keys as)
  | .text _ => .text

/-- the token list with every string erased: tags with their attribute names, and one `text` mark
    per text token -/
def c02_skeleton (ts : List c02_Tok) : List c02_Skel := ts.map c02_skelTok

theorem c02_skelTok_map (σ : c02_Sub) (t : c02_Tok) : c02_skelTok (c02_mapTok σ t) = c02_skelTok t := by
  cases t <;> simp [c02_mapTok, c02_skelTok, c02_keys_mapAttrs]

theorem c02_skeleton_map (σ : c02_Sub) (ts : List c02_Tok) :
    c02_skeleton (ts.map (c02_mapTok σ)) = c02_skeleton ts := by
  simp [c02_skeleton, List.map_map, Function.comp_def, c02_skelTok_map]

theorem c02_skeleton_append (a b : List c02_Tok) : c02_skeleton (a ++ b) = c02_skeleton a ++ c02_skeleton b := by
  simp [c02_skeleton]

theorem c02_skeleton_flush (a b : Str) (h : a.isEmpty = b.isEmpty) :
    c02_skeleton (c02_flush a) = c02_skeleton (c02_flush b) := by
  unfold c02_flush
  rw [h]
  split <;> simp [c02_skeleton, c02_skelTok]

theorem c02_tokMarkup_flush' (acc : Str) : c02_tokMarkup (c02_flush acc) = [] := c02_tokMarkup_flush acc

/-- Coalescing, on substituted tokens: the fold over the substituted list stays related to the fold
    over the original list — same skeleton of what was emitted, the emitted tags are the images of
    the original tags, and the pending text is empty on both sides or on neither. -/
theorem c02_feed_map (σ : c02_Sub) (ht : σ.TextOk) (ts : List c02_Tok)
    (toks toks' : List c02_Tok) (acc acc' : Str)
    (h1 : c02_skeleton toks' = c02_skeleton toks)
    (h2 : c02_tokMarkup toks' = (c02_tokMarkup toks).map (c02_mapTok σ))
    (h3 : acc'.isEmpty = acc.isEmpty) :
    c02_skeleton (c02_feed (toks', acc') (ts.map (c02_mapTok σ))).1 = c02_skeleton (c02_feed (toks, acc) ts).1 ∧
    c02_tokMarkup (c02_feed (toks', acc') (ts.map (c02_mapTok σ))).1
      = (c02_tokMarkup (c02_feed (toks, acc) ts).1).map (c02_mapTok σ) ∧
    (c02_feed (toks', acc') (ts.map (c02_mapTok σ))).2.isEmpty = (c02_feed (toks, acc) ts).2.isEmpty := by
  induction ts generalizing toks toks' acc acc' with
  | nil => exact ⟨h1, h2, h3⟩
  | cons t ts ih =>
    cases t with
    | text s =>
      simp only [List.map_cons, c02_mapTok, c02_feed_cons, c02_feedStep]
      apply ih _ _ _ _ h1 h2
      have := ht s
      cases acc <;> cases acc' <;> simp_all
    | start n as =>
      simp only [List.map_cons, c02_mapTok, c02_feed_cons, c02_feedStep]
      apply ih
      · rw [c02_skeleton_append, c02_skeleton_append, c02_skeleton_append, c02_skeleton_append, h1,
          c02_skeleton_flush _ _ h3]
        simp [c02_skeleton, c02_skelTok, c02_keys_mapAttrs]
      · simp [c02_tokMarkup_append, c02_tokMarkup_flush, h2, c02_tokMarkup, c02_mapTok]
      · rfl
    | «end» n =>
      simp only [List.map_cons, c02_mapTok, c02_feed_cons, c02_feedStep]
      apply ih
      · rw [c02_skeleton_append, c02_skeleton_append, c02_skeleton_append, c02_skeleton_append, h1,
          c02_skeleton_flush _ _ h3]
      · simp [c02_tokMarkup_append, c02_tokMarkup_flush, h2, c02_tokMarkup, c02_mapTok]
      · rfl
    | selfClose n as =>
      simp only [List.map_cons, c02_mapTok, c02_feed_cons, c02_feedStep]
      apply ih
      · rw [c02_skeleton_append, c02_skeleton_append, c02_skeleton_append, c02_skeleton_append, h1,
          c02_skeleton_flush _ _ h3]
        simp [c02_skeleton, c02_skelTok, c02_keys_mapAttrs]
      · simp [c02_tokMarkup_append, c02_tokMarkup_flush, h2, c02_tokMarkup, c02_mapTok]
      · rfl

/-- the coalesced substituted tokens have the skeleton of the coalesced original tokens -/
theorem c02_skeleton_coalesce_map (σ : c02_Sub) (ht : σ.TextOk) (ts : List c02_Tok) :
    c02_skeleton (c02_coalesce (ts.map (c02_mapTok σ))) = c02_skeleton (c02_coalesce ts) := by
  have := c02_feed_map σ ht ts [] [] [] [] rfl rfl rfl
  simp only [c02_coalesce, c02_skeleton_append, this.1, c02_skeleton_flush _ _ this.2.2]

/-- ... and their tags (with attributes) are exactly the images of the original tags, in order -/
theorem c02_tokMarkup_coalesce_map (σ : c02_Sub) (ts : List c02_Tok) :
    c02_tokMarkup (c02_coalesce (ts.map (c02_mapTok σ))) = (c02_tokMarkup (c02_coalesce ts)).map (c02_mapTok σ) := by
  rw [c02_tokMarkup_coalesce, c02_tokMarkup_coalesce]
  induction ts with
  | nil => simp [c02_tokMarkup]
  | cons t ts ih => cases t <;> simp [c02_tokMarkup, c02_mapTok, ih]

/-- when no text is empty and no two text tokens are adjacent, substitution keeps it so -/
theorem c02_textSeparated_map (σ : c02_Sub) (ht : σ.TextOk) (ts : List c02_Tok) :
    c02_textSeparated (ts.map (c02_mapTok σ)) = c02_textSeparated ts := by
  induction ts with
  | nil => rfl
  | cons t ts ih =>
    cases t with
    | text s =>
      simp only [List.map_cons, c02_mapTok, c02_textSeparated, ih, ht s]
      cases ts with
      | nil => simp
      | cons u us => cases u <;> simp [c02_mapTok]
    | start n as => simpa [c02_mapTok, c02_textSeparated] using ih
    | «end» n => simpa [c02_mapTok, c02_textSeparated] using ih
    | selfClose n as => simpa [c02_mapTok, c02_textSeparated] using ih

end Mammoth
