/-
  C10 helpers: capture group 1 on top of the backtracking cost model of MammothModel/Regex.lean,
  and a calculus for DETERMINISTIC item sequences (literal characters, `p*`, `p+` of a single
  class followed by something that cannot start with a character of the class) - the shape of
  the three regexes of `parse_instr_text`.

  Group 1.  The model has no capture groups, and it is not changed here.  The matcher is written
  in continuation-passing style and never looks at the string a continuation RETURNS (only at
  whether it returned one), so the path to the first successful match is the same whatever the
  final continuation returns.  For a regex `pre ( body ) post` the run is split at the two
  parentheses and the final continuation is made to return what was left at the opening
  parenthesis (`s1`), at the closing one (`s2`) or at the end (`s3`): `C10Grouped.runWith`.
  `c10_runWith_uniform` is the theorem that justifies it: either every such run fails, or there
  is ONE triple `s1 s2 s3` (suffixes of each other) that all of them report, at the same cost.
-/
import MammothModel.RegexParse
import Proofs.C07_RegexParse
namespace Mammoth

/-! ### sequences -/

theorem c10_run_eps (s : Str) (k : Str → C07Res) : C07Regex.eps.run s k = k s := by
  rw [C07Regex.run]

theorem c10_mkSeq_cons_run (a : C07Regex) (rest : List C07Regex) (s : Str) (k : Str → C07Res) :
    (c07_mkSeq (a :: rest)).run s k = a.run s fun s' => (c07_mkSeq rest).run s' k := by
  cases rest with
  | nil => simp only [c07_mkSeq, c10_run_eps]
  | cons b r => rfl

theorem c10_mkSeq_append_run (as bs : List C07Regex) : ∀ (s : Str) (k : Str → C07Res),
    (c07_mkSeq (as ++ bs)).run s k = (c07_mkSeq as).run s fun s' => (c07_mkSeq bs).run s' k := by
  induction as with
  | nil => intro s k; simp only [List.nil_append, c07_mkSeq, c10_run_eps]
  | cons a as ih =>
    intro s k
    rw [List.cons_append, c10_mkSeq_cons_run, c10_mkSeq_cons_run]
    congr 1
    funext s'
    exact ih s' k

/-! ### a regex with one capture group: `pre ( body ) post` -/

structure C10Grouped where
  pre : List C07Regex
  body : C07Regex
  post : List C07Regex

/-- the regex without the parentheses, as the parser of RegexParse.lean builds it -/
def C10Grouped.regex (g : C10Grouped) : C07Regex := c07_mkSeq (g.pre ++ g.body :: g.post)

/-- the run of `pre ( body ) post`, the final continuation reporting `out s1 s2 s3` where `s1` is
    what was left at `(`, `s2` at `)`, `s3` at the end of the match -/
def C10Grouped.runWith (g : C10Grouped) (s : Str) (out : Str → Str → Str → Str) : C07Res :=
  (c07_mkSeq g.pre).run s fun s1 => g.body.run s1 fun s2 =>
    (c07_mkSeq g.post).run s2 fun s3 => (0, some (out s1 s2 s3))

/-- `match.group(1)`: the text between what was left at `(` and what was left at `)` in the first
    successful match -/
def C10Grouped.group1 (g : C10Grouped) (s : Str) : Option Str :=
  match (g.runWith s fun s1 _ _ => s1).2, (g.runWith s fun _ s2 _ => s2).2 with
  | some s1, some s2 => some (s1.take (s1.length - s2.length))
  | _, _ => none

theorem c10_grouped_exec (g : C10Grouped) (s : Str) :
    g.regex.exec s = g.runWith s fun _ _ s3 => s3 := by
  unfold C10Grouped.regex C07Regex.exec C10Grouped.runWith
  rw [c10_mkSeq_append_run]
  congr 1
  funext s1
  rw [c10_mkSeq_cons_run]

/-! ### the path to the first match does not depend on what the continuation returns -/

/-- a family of results that agree on the cost and on success, the returned strings related by `Q` -/
def c10_uniform {ι : Type} (Q : (ι → Str) → Prop) (a : ι → C07Res) : Prop :=
  (∀ i j, (a i).1 = (a j).1) ∧
  ((∀ i, (a i).2 = none) ∨ ∃ x : ι → Str, (∀ i, (a i).2 = some (x i)) ∧ Q x)

theorem c10_uniform_const {ι : Type} (Q : (ι → Str) → Prop) (n : Nat) :
    c10_uniform Q (fun _ : ι => ((n, none) : C07Res)) :=
  ⟨fun _ _ => rfl, .inl fun _ => rfl⟩

theorem c10_uniform_tick {ι : Type} (Q : (ι → Str) → Prop) (a : ι → C07Res) (h : c10_uniform Q a) :
    c10_uniform Q (fun i => (a i).tick) := by
  refine ⟨fun i j => ?_, ?_⟩
  · simp only [c07_tick_fst, h.1 i j]
  · simpa only [c07_tick_snd] using h.2

theorem c10_uniform_orElse {ι : Type} (Q : (ι → Str) → Prop) (a b : ι → C07Res)
    (ha : c10_uniform Q a) (hb : c10_uniform Q b) : c10_uniform Q (fun i => (a i).orElse (b i)) := by
  obtain ⟨ha1, ha2⟩ := ha
  rcases ha2 with hn | ⟨x, hx, hq⟩
  · have e : ∀ i, (a i).orElse (b i) = ((a i).1 + (b i).1, (b i).2) := fun i => c07_orElse_none _ _ (hn i)
    refine ⟨fun i j => ?_, ?_⟩
    · show ((a i).orElse (b i)).1 = ((a j).orElse (b j)).1
      rw [e i, e j]
      show (a i).1 + (b i).1 = (a j).1 + (b j).1
      rw [ha1 i j, hb.1 i j]
    · rcases hb.2 with hbn | ⟨y, hy, hqy⟩
      · left; intro i
        show ((a i).orElse (b i)).2 = none
        rw [e i]; exact hbn i
      · right
        refine ⟨y, fun i => ?_, hqy⟩
        show ((a i).orElse (b i)).2 = some (y i)
        rw [e i]; exact hy i
  · have e : ∀ i, (a i).orElse (b i) = a i := fun i => c07_orElse_some _ _ _ (hx i)
    refine ⟨fun i j => ?_, .inr ⟨x, fun i => ?_, hq⟩⟩
    · show ((a i).orElse (b i)).1 = ((a j).orElse (b j)).1
      rw [e i, e j]; exact ha1 i j
    · show ((a i).orElse (b i)).2 = some (x i)
      rw [e i]; exact hx i

theorem c10_starLoop_uniform {ι : Type} (Q : (ι → Str) → Prop)
    (body : Str → (Str → C07Res) → C07Res)
    (hbody : ∀ (s : Str) (k : ι → Str → C07Res),
      (∀ s', s' <:+ s → c10_uniform Q (fun i => k i s')) → c10_uniform Q (fun i => body s (k i))) :
    ∀ (f : Nat) (s : Str) (k : ι → Str → C07Res),
      (∀ s', s' <:+ s → c10_uniform Q (fun i => k i s')) →
      c10_uniform Q (fun i => c07_starLoop body f s (k i)) := by
  intro f
  induction f with
  | zero => intro s k hk; exact hk s (List.suffix_refl s)
  | succ f ih =>
    intro s k hk
    simp only [c07_starLoop]
    apply c10_uniform_tick
    apply c10_uniform_orElse
    · apply hbody s (fun i s' => if s'.length < s.length then c07_starLoop body f s' (k i) else .fail)
      intro s' hs'
      by_cases h : s'.length < s.length
      · simp only [h, if_true]
        exact ih s' k (fun s'' h' => hk s'' (h'.trans hs'))
      · simp only [h, if_false]
        exact c10_uniform_const Q 0
    · exact hk s (List.suffix_refl s)

/-- PARAMETRICITY of the matcher in what the continuation returns (only suffixes of the input are
    ever passed on) -/
theorem c10_run_uniform {ι : Type} (Q : (ι → Str) → Prop) (r : C07Regex) :
    ∀ (s : Str) (k : ι → Str → C07Res),
      (∀ s', s' <:+ s → c10_uniform Q (fun i => k i s')) → c10_uniform Q (fun i => r.run s (k i)) := by
  induction r with
  | eps => intro s k hk; simpa only [c10_run_eps] using hk s (List.suffix_refl s)
  | chr p =>
    intro s k hk
    cases s with
    | nil => simp only [c07_run_chr_nil]; exact c10_uniform_const Q 1
    | cons c cs =>
      simp only [c07_run_chr_cons]
      by_cases h : p.test c = true
      · simp only [h, if_true]
        exact c10_uniform_tick Q _ (hk cs (List.suffix_cons c cs))
      · simp only [h]
        exact c10_uniform_const Q 1
  | seq a b iha ihb =>
    intro s k hk
    simp only [c07_run_seq]
    exact iha s (fun i s' => b.run s' (k i)) (fun s' hs' => ihb s' k (fun s'' h => hk s'' (h.trans hs')))
  | alt a b iha ihb =>
    intro s k hk
    simp only [c07_run_alt]
    exact c10_uniform_tick Q _ (c10_uniform_orElse Q _ _ (iha s k hk) (ihb s k hk))
  | star a iha =>
    intro s k hk
    simp only [c07_run_star]
    exact c10_starLoop_uniform Q a.run iha _ s k hk

/-- ONE first match: the cost of `runWith` does not depend on what is reported, and either every
    report fails or there are `s1 ⊒ s2 ⊒ s3` (suffixes of the input and of each other) such that
    every report returns its function of exactly these three -/
theorem c10_runWith_uniform (g : C10Grouped) (s : Str) :
    (∀ out out', (g.runWith s out).1 = (g.runWith s out').1) ∧
    ((∀ out, (g.runWith s out).2 = none) ∨
      ∃ s1 s2 s3 : Str, s1 <:+ s ∧ s2 <:+ s1 ∧ s3 <:+ s2 ∧
        ∀ out, (g.runWith s out).2 = some (out s1 s2 s3)) := by
  let Q : ((Str → Str → Str → Str) → Str) → Prop := fun x =>
    ∃ s1 s2 s3 : Str, s1 <:+ s ∧ s2 <:+ s1 ∧ s3 <:+ s2 ∧ ∀ out, x out = out s1 s2 s3
  have h := c10_run_uniform Q (c07_mkSeq g.pre) s
    (fun out s1 => g.body.run s1 fun s2 => (c07_mkSeq g.post).run s2 fun s3 => (0, some (out s1 s2 s3)))
    (fun s1 h1 => c10_run_uniform Q g.body s1
      (fun out s2 => (c07_mkSeq g.post).run s2 fun s3 => (0, some (out s1 s2 s3)))
      (fun s2 h2 => c10_run_uniform Q (c07_mkSeq g.post) s2
        (fun out s3 => (0, some (out s1 s2 s3)))
        (fun s3 h3 => ⟨fun _ _ => rfl, .inr ⟨fun out => out s1 s2 s3, fun _ => rfl,
          s1, s2, s3, h1, h2, h3, fun _ => rfl⟩⟩)))
  refine ⟨h.1, ?_⟩
  rcases h.2 with hn | ⟨x, hx, s1, s2, s3, h1, h2, h3, hq⟩
  · exact .inl hn
  · exact .inr ⟨s1, s2, s3, h1, h2, h3, fun out => by rw [← hq out]; exact hx out⟩

/-- group 1 is a piece of the matched prefix: no match and no group, or the input is
    `p ++ u ++ q ++ rest` with `p ++ u ++ q` the match and `u` the group -/
theorem c10_group1_spec (g : C10Grouped) (s : Str) :
    (g.regex.matchLen s = none ∧ g.group1 s = none) ∨
    ∃ p u q rest : Str, s = p ++ (u ++ (q ++ rest)) ∧ (g.regex.exec s).2 = some rest ∧
      g.regex.matchLen s = some (p.length + u.length + q.length) ∧ g.group1 s = some u := by
  rcases (c10_runWith_uniform g s).2 with hn | ⟨s1, s2, s3, ⟨p, hp⟩, ⟨u, hu⟩, ⟨q, hq⟩, h⟩
  · left
    refine ⟨?_, ?_⟩
    · unfold C07Regex.matchLen; rw [c10_grouped_exec, hn]; rfl
    · unfold C10Grouped.group1; rw [hn]
  · right
    refine ⟨p, u, q, s3, ?_, ?_, ?_, ?_⟩
    · rw [hq, hu, hp]
    · rw [c10_grouped_exec, h]
    · unfold C07Regex.matchLen; rw [c10_grouped_exec, h]
      simp only [Option.map_some]
      rw [← hp, ← hu, ← hq]
      simp only [List.length_append]
      congr 1; omega
    · unfold C10Grouped.group1; rw [h, h]
      simp only
      rw [← hu]
      congr 1
      simp

/-! ### deterministic item sequences -/

/-- what follows a loop `p*` either fails at once on a character of `p`, or never fails: then giving
    characters back cannot help, and the loop costs at most 3 steps a character -/
def c10_tailOK (p : C07Class) (k : Str → C07Res) : Prop :=
  (∀ c cs, p.test c = true → (k (c :: cs)).2 = none ∧ (k (c :: cs)).1 ≤ 1) ∨ (∀ s', (k s').2 ≠ none)

theorem c10_starChr_run (p : C07Class) (k : Str → C07Res) (h : c10_tailOK p k) (s : Str) :
    ((C07Regex.star (.chr p)).run s k).2 = (k (s.dropWhile p.test)).2 ∧
    ((C07Regex.star (.chr p)).run s k).1 + 3 * (s.dropWhile p.test).length ≤
      3 * s.length + 2 + (k (s.dropWhile p.test)).1 := by
  induction s with
  | nil =>
    rw [c07_star_unfold, c07_run_chr_nil]
    simp [C07Res.orElse, C07Res.tick]
    omega
  | cons c cs ih =>
    rw [c07_star_unfold, c07_run_chr_cons]
    by_cases hc : p.test c = true
    · simp only [hc, if_true, List.dropWhile_cons_of_pos, List.length_cons, Nat.lt_add_one]
      generalize (C07Regex.star (.chr p)).run cs k = R at ih ⊢
      obtain ⟨n, o⟩ := R
      simp only at ih
      cases o with
      | some x =>
        simp only [C07Res.orElse, C07Res.tick]
        refine ⟨ih.1, ?_⟩
        have := ih.2
        omega
      | none =>
        rcases h with h1 | h2
        · have hk := h1 c cs hc
          simp only [C07Res.orElse, C07Res.tick]
          refine ⟨by rw [hk.1]; exact ih.1, ?_⟩
          have := ih.2
          have := hk.2
          omega
        · exact absurd ih.1.symm (h2 _)
    · have hc' : p.test c = false := by simpa using hc
      simp [hc', C07Res.orElse, C07Res.tick]
      omega

/-- an item of a deterministic sequence -/
inductive C10Item where
  | lit (c : Char)           -- a literal character
  | star (p : C07Class)      -- `p*`
  | plus (p : C07Class)      -- `p+`
deriving DecidableEq, Repr

def C10Item.rx : C10Item → C07Regex
  | .lit c => .chr (.lit c)
  | .star p => .star (.chr p)
  | .plus p => C07Regex.plus (.chr p)

/-- the regex of a sequence of items (what the parser builds for their concatenation) -/
def c10_itemsRx (is : List C10Item) : C07Regex := c07_mkSeq (is.map C10Item.rx)

/-- the literal characters of a word -/
def c10_lits (w : Str) : List C10Item := w.map .lit

/-- WHAT a deterministic sequence matches, read off the input: a literal takes its character, a
    loop takes the longest run of characters of its class (`p+`: at least one); the result is what
    is left -/
def c10_interp : List C10Item → Str → Option Str
  | [], s => some s
  | .lit _ :: _, [] => none
  | .lit c :: r, d :: ds => if d == c then c10_interp r ds else none
  | .star p :: r, s => c10_interp r (s.dropWhile p.test)
  | .plus _ :: _, [] => none
  | .plus p :: r, d :: ds => if p.test d then c10_interp r (ds.dropWhile p.test) else none

/-- the item after a loop of `p` is a literal outside `p` (or there is none) -/
def c10_firstOK (p : C07Class) : List C10Item → Bool
  | [] => true
  | .lit c :: _ => !p.test c
  | _ => false

/-- every loop is followed by a literal character outside its class -/
def c10_det : List C10Item → Bool
  | [] => true
  | .lit _ :: r => c10_det r
  | .star p :: r => c10_firstOK p r && c10_det r
  | .plus p :: r => c10_firstOK p r && c10_det r

/-- the class of the loop the sequence ends with, if it ends with one -/
def c10_lastLoop : List C10Item → Option C07Class
  | [] => none
  | [.lit _] => none
  | [.star p] => some p
  | [.plus p] => some p
  | _ :: b :: r => c10_lastLoop (b :: r)

theorem c10_lastLoop_cons (i : C10Item) (r : List C10Item) (p : C07Class) (h : c10_lastLoop r = some p) :
    c10_lastLoop (i :: r) = some p := by
  cases r with
  | nil => simp [c10_lastLoop] at h
  | cons b r => simpa [c10_lastLoop] using h

theorem c10_itemsRx_nil_run (s : Str) (k : Str → C07Res) : (c10_itemsRx []).run s k = k s := by
  simp only [c10_itemsRx, List.map_nil, c07_mkSeq, c10_run_eps]

theorem c10_itemsRx_cons_run (i : C10Item) (r : List C10Item) (s : Str) (k : Str → C07Res) :
    (c10_itemsRx (i :: r)).run s k = i.rx.run s fun s' => (c10_itemsRx r).run s' k := by
  simp only [c10_itemsRx, List.map_cons, c10_mkSeq_cons_run]

/-- a sequence that starts with a literal outside `p` fails in one step on a character of `p` -/
theorem c10_tailOK_lit (p : C07Class) (c : Char) (r : List C10Item) (k : Str → Str → C07Res)
    (h : p.test c = false) : c10_tailOK p (fun s' => (c10_itemsRx (.lit c :: r)).run s' (k s')) := by
  left
  intro d ds hd
  have hdc : (d == c) = false := by
    cases e : d == c with
    | false => rfl
    | true => simp at e; subst e; rw [h] at hd; contradiction
  simp only [c10_itemsRx_cons_run, C10Item.rx, c07_run_chr_cons, c07_test_lit, hdc]
  simp

theorem c10_tailOK_next (p : C07Class) (r : List C10Item) (k : Str → C07Res)
    (hf : c10_firstOK p r = true) (hl : r = [] → c10_tailOK p k) :
    c10_tailOK p (fun s' => (c10_itemsRx r).run s' k) := by
  cases r with
  | nil => simpa only [c10_itemsRx_nil_run] using hl rfl
  | cons j r' =>
    cases j with
    | lit c => exact c10_tailOK_lit p c r' (fun _ => k) (by simpa [c10_firstOK] using hf)
    | star q => simp [c10_firstOK] at hf
    | plus q => simp [c10_firstOK] at hf

/-- a deterministic sequence computes `c10_interp`, in at most 3 steps a character plus 2 an item -/
theorem c10_items_run (is : List C10Item) : ∀ (s : Str) (k : Str → C07Res) (M : Nat),
    c10_det is = true → (∀ p, c10_lastLoop is = some p → c10_tailOK p k) →
    (∀ s', (k s').1 ≤ 3 * s'.length + M) →
    ((c10_itemsRx is).run s k).2 = (match c10_interp is s with | some s' => (k s').2 | none => none) ∧
    ((c10_itemsRx is).run s k).1 ≤ 3 * s.length + M + 2 * is.length := by
  induction is with
  | nil =>
    intro s k M _ _ hk
    simp only [c10_itemsRx_nil_run, c10_interp, List.length_nil]
    exact ⟨trivial, hk s⟩
  | cons i r ih =>
    intro s k M hdet hlast hk
    have hlast' : ∀ p, c10_lastLoop r = some p → c10_tailOK p k :=
      fun p hp => hlast p (c10_lastLoop_cons i r p hp)
    rw [c10_itemsRx_cons_run]
    cases i with
    | lit c =>
      have hdet' : c10_det r = true := by simpa [c10_det] using hdet
      cases s with
      | nil => simp [C10Item.rx, c07_run_chr_nil, c10_interp]; omega
      | cons d ds =>
        have := ih ds k M hdet' hlast' hk
        simp only [C10Item.rx, c07_run_chr_cons, c07_test_lit, c10_interp]
        by_cases hdc : (d == c) = true
        · simp only [hdc, if_true, c07_tick_fst, c07_tick_snd, List.length_cons]
          exact ⟨this.1, by omega⟩
        · have hdc' : (d == c) = false := by simpa using hdc
          simp only [hdc', List.length_cons]
          exact ⟨rfl, by simp; omega⟩
    | star p =>
      have hd : c10_firstOK p r = true ∧ c10_det r = true := by simpa [c10_det] using hdet
      have hK := c10_tailOK_next p r k hd.1 (fun e => hlast p (by subst e; rfl))
      have hA := c10_starChr_run p _ hK s
      have := ih (s.dropWhile p.test) k M hd.2 hlast' hk
      simp only [C10Item.rx, c10_interp, List.length_cons]
      exact ⟨hA.1.trans this.1, by omega⟩
    | plus p =>
      have hd : c10_firstOK p r = true ∧ c10_det r = true := by simpa [c10_det] using hdet
      have hK := c10_tailOK_next p r k hd.1 (fun e => hlast p (by subst e; rfl))
      cases s with
      | nil => simp [C10Item.rx, C07Regex.plus, c07_run_seq, c07_run_chr_nil, c10_interp]; omega
      | cons d ds =>
        have hA := c10_starChr_run p _ hK ds
        have := ih (ds.dropWhile p.test) k M hd.2 hlast' hk
        simp only [C10Item.rx, C07Regex.plus, c07_run_seq, c07_run_chr_cons, c10_interp]
        by_cases hpd : p.test d = true
        · simp only [hpd, if_true, c07_tick_fst, c07_tick_snd, List.length_cons]
          exact ⟨hA.1.trans this.1, by omega⟩
        · have hpd' : p.test d = false := by simpa using hpd
          simp only [hpd', List.length_cons]
          exact ⟨rfl, by simp; omega⟩

/-- the final continuation never fails -/
theorem c10_tailOK_final (p : C07Class) (f : Str → Str) : c10_tailOK p (fun s' => (0, some (f s'))) :=
  .inr fun _ => by simp

/-- `exec` of a deterministic sequence -/
theorem c10_items_exec (is : List C10Item) (h : c10_det is = true) (s : Str) :
    ((c10_itemsRx is).exec s).2 = c10_interp is s ∧
    (c10_itemsRx is).steps s ≤ 3 * s.length + 2 * is.length := by
  have := c10_items_run is s (fun s' => (0, some s')) 0 h (fun p _ => c10_tailOK_final p id)
    (fun s' => by simp)
  unfold C07Regex.steps C07Regex.exec
  refine ⟨?_, by simpa using this.2⟩
  rw [this.1]
  cases c10_interp is s <;> rfl

/-! ### a deterministic sequence with a group -/

structure C10GroupedItems where
  pre : List C10Item
  body : List C10Item
  post : List C10Item

def C10GroupedItems.grouped (g : C10GroupedItems) : C10Grouped :=
  ⟨g.pre.map C10Item.rx, c10_itemsRx g.body, g.post.map C10Item.rx⟩

/-- a part that ends with a loop is followed by a part that starts with a literal outside it -/
def c10_link (a b : List C10Item) : Bool :=
  match c10_lastLoop a with
  | none => true
  | some p => (match b with | .lit c :: _ => !p.test c | _ => false)

def C10GroupedItems.det (g : C10GroupedItems) : Bool :=
  c10_det g.pre && c10_det g.body && c10_det g.post && c10_link g.pre g.body && c10_link g.body g.post

/-- what the three parts take, one after the other -/
def C10GroupedItems.interp (g : C10GroupedItems) (s : Str) : Option (Str × Str × Str) :=
  match c10_interp g.pre s with
  | none => none
  | some s1 =>
    match c10_interp g.body s1 with
    | none => none
    | some s2 =>
      match c10_interp g.post s2 with
      | none => none
      | some s3 => some (s1, s2, s3)

theorem c10_tailOK_link (a b : List C10Item) (k : Str → Str → C07Res) (h : c10_link a b = true) :
    ∀ p, c10_lastLoop a = some p → c10_tailOK p (fun s' => (c10_itemsRx b).run s' (k s')) := by
  intro p hp
  simp only [c10_link, hp] at h
  cases b with
  | nil => simp at h
  | cons j b' =>
    cases j with
    | lit c => exact c10_tailOK_lit p c b' k (by simpa using h)
    | star q => simp at h
    | plus q => simp at h

theorem c10_groupedItems_run (g : C10GroupedItems) (h : g.det = true) (s : Str)
    (out : Str → Str → Str → Str) :
    (g.grouped.runWith s out).2 = (g.interp s).map (fun t => out t.1 t.2.1 t.2.2) ∧
    (g.grouped.runWith s out).1 ≤ 3 * s.length + 2 * (g.pre.length + g.body.length + g.post.length) := by
  simp only [C10GroupedItems.det, Bool.and_eq_true] at h
  obtain ⟨⟨⟨⟨h1, h2⟩, h3⟩, h4⟩, h5⟩ := h
  have e : g.grouped.runWith s out =
      (c10_itemsRx g.pre).run s fun s1 => (c10_itemsRx g.body).run s1 fun s2 =>
        (c10_itemsRx g.post).run s2 fun s3 => (0, some (out s1 s2 s3)) := rfl
  rw [e]
  have P3 := fun s1 s2 => c10_items_run g.post s2 (fun s3 => (0, some (out s1 s2 s3))) 0 h3
    (fun p _ => c10_tailOK_final p _) (fun s' => by simp)
  have P2 := fun s1 s2 => c10_items_run g.body s2
    (fun s2 => (c10_itemsRx g.post).run s2 fun s3 => (0, some (out s1 s2 s3))) (2 * g.post.length) h2
    (c10_tailOK_link g.body g.post (fun s2 s3 => (0, some (out s1 s2 s3))) h5) (fun s' => by have := (P3 s1 s').2; omega)
  have P1 := c10_items_run g.pre s
    (fun s1 => (c10_itemsRx g.body).run s1 fun s2 => (c10_itemsRx g.post).run s2 fun s3 =>
      (0, some (out s1 s2 s3))) (2 * g.post.length + 2 * g.body.length) h1
    (c10_tailOK_link g.pre g.body (fun s1 s2 => (c10_itemsRx g.post).run s2 fun s3 =>
      (0, some (out s1 s2 s3))) h4) (fun s' => by have := (P2 s' s').2; omega)
  refine ⟨?_, by have := P1.2; omega⟩
  rw [P1.1]
  unfold C10GroupedItems.interp
  cases h1 : c10_interp g.pre s with
  | none => rfl
  | some s1 =>
    simp only
    rw [(P2 s1 s1).1]
    cases h2 : c10_interp g.body s1 with
    | none => rfl
    | some s2 =>
      simp only
      rw [(P3 s1 s2).1]
      cases h3 : c10_interp g.post s2 <;> rfl

end Mammoth
