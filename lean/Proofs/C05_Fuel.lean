/-
  C05 — more fuel never changes a result of the element reader.
-/
import Proofs.C05_ReadBody
namespace Mammoth

/-- `x ≤ y`: whenever `x` returns normally, `y` returns the same value -/
structure c05_le {α} (x y : Except Err α) : Prop where
  h : ∀ r, x = .ok r → y = .ok r

theorem c05_le_refl {α} (x : Except Err α) : c05_le x x := ⟨fun _ h => h⟩

theorem c05_le_bind {α β} (x x' : Except Err α) (f f' : α → Except Err β)
    (hx : c05_le x x') (hf : ∀ a, c05_le (f a) (f' a)) : c05_le (x >>= f) (x' >>= f') := by
  constructor; intro r h
  cases hxx : x with
  | error e => rw [hxx] at h; simp [bind, Except.bind] at h
  | ok a =>
    rw [hx.h a hxx]
    rw [hxx] at h
    simp only [bind, Except.bind] at h ⊢
    exact (hf a).h r h

theorem c05_le_ite {α} (c : Prop) [Decidable c] (a a' b b' : Except Err α)
    (h1 : c → c05_le a a') (h2 : ¬ c → c05_le b b') : c05_le (if c then a else b) (if c then a' else b') := by
  by_cases hc : c
  · rw [if_pos hc, if_pos hc]; exact h1 hc
  · rw [if_neg hc, if_neg hc]; exact h2 hc

theorem c05_le_map {α β} (x x' : Except Err α) (f : α → β)
    (hx : c05_le x x') : c05_le (x.map f) (x'.map f) := by
  constructor; intro r h
  cases hxx : x with
  | error e => rw [hxx] at h; simp [Except.map] at h
  | ok a =>
    rw [hx.h a hxx]
    rw [hxx] at h
    exact h


theorem c05_readAllWith_le (rd rd' : c05_Rd) (hrd : ∀ st n, c05_le (rd st n) (rd' st n)) :
    ∀ (ns : List XmlNode) (st : RState), c05_le (readAllWith rd st ns) (readAllWith rd' st ns)
  | [], st => by simp only [readAllWith]; exact c05_le_refl _
  | .text _ :: rest, st => by simp only [readAllWith]; exact c05_readAllWith_le rd rd' hrd rest st
  | .elem n as cs :: rest, st => by
    simp only [readAllWith]
    apply c05_le_bind
    · exact hrd _ _
    · intro a
      apply c05_le_bind
      · exact c05_readAllWith_le rd rd' hrd rest _
      · intro b; exact c05_le_refl _

theorem c05_readBody_le (env : REnv) (ra ra' : c05_RdAll) (ih : ∀ st ns, c05_le (ra st ns) (ra' st ns))
    (st : RState) (name : Str) (as : Attrs) (cs : List XmlNode) :
    c05_le (c05_readBody env ra st name as cs) (c05_readBody env ra' st name as cs) := by
  unfold c05_readBody
  repeat' (first
    | with_reducible exact c05_le_refl _
    | exact ih _ _
    | refine c05_le_bind _ _ _ _ ?_ (fun _ => ?_)
    | refine c05_le_map _ _ _ ?_
    | refine c05_le_ite _ _ _ _ _ (fun _ => ?_) (fun _ => ?_)
    | split
    | dsimp only)

theorem c05_readElem_le_succ (env : REnv) : ∀ (f : Nat) (st : RState) (n : XmlNode),
    c05_le (readElem env f st n) (readElem env (f+1) st n)
  | f, st, .text s => by rw [c05_readElem_text, c05_readElem_text]; exact c05_le_refl _
  | 0, st, .elem name as cs => by
    constructor; intro r h; rw [c05_readElem_zero] at h; cases h
  | f+1, st, .elem name as cs => by
    rw [c05_readElem_succ, c05_readElem_succ]
    exact c05_readBody_le env _ _ (fun st ns => c05_readAllWith_le _ _ (c05_readElem_le_succ env f) ns st) st name as cs

theorem c05_readElem_le_add (env : REnv) (f k : Nat) (st : RState) (n : XmlNode) :
    c05_le (readElem env f st n) (readElem env (f+k) st n) := by
  induction k with
  | zero => exact c05_le_refl _
  | succ k ih =>
    constructor; intro r h
    exact (c05_readElem_le_succ env (f+k) st n).h r (ih.h r h)

end Mammoth
