/-
  C07 — the tokeniser's rules as PARSED FROM THE SOURCE (`MammothModel/RegexParse.lean`):
  the white-space table of `\s` is `isSpace`; what the backtracking matcher computes, and at what
  cost, for the rules that had no hand-written counterpart yet: SYMBOL (no repetition: constant
  cost), WHITESPACE `\s+`, INTEGER `[0-9]+`, and the catch-all `.`.
-/
import MammothModel.RegexParse
import Proofs.C07_RegexIdent
namespace Mammoth

/-- the ranges of `\s` are the set `isSpace` (`Py_UNICODE_ISSPACE`) of Basic.lean -/
theorem c07_wsRanges_isSpace (c : Char) : c07_inRanges c07_wsRanges c = isSpace c := by
  simp only [c07_inRanges, c07_wsRanges, isSpace, List.any_cons, List.any_nil]
  rw [Bool.eq_iff_iff]
  simp
  omega

theorem c07_test_space : c07_ccSpace.test = isSpace := by
  funext c; exact c07_wsRanges_isSpace c

theorem c07_test_digit' : c07_ccDigit.test = isDigit := by
  funext c; exact c07_test_digit c

theorem c07_exec_k0 (r : C07Regex) (s : Str) : r.exec s = r.run s c07_k0 := rfl

/-! ### a rule without repetition costs a constant -/

def c07_starFree : C07Regex → Bool
  | .eps => true
  | .chr _ => true
  | .seq a b => c07_starFree a && c07_starFree b
  | .alt a b => c07_starFree a && c07_starFree b
  | .star _ => false

/-- bound on the steps of a repetition-free expression when the continuation costs at most `M` -/
def c07_flatBound : C07Regex → Nat → Nat
  | .eps, M => M
  | .chr _, M => M + 1
  | .seq a b, M => c07_flatBound a (c07_flatBound b M)
  | .alt a b, M => c07_flatBound a M + c07_flatBound b M + 1
  | .star _, _ => 0

theorem c07_flat_cost (r : C07Regex) (h : c07_starFree r = true) :
    ∀ (s : Str) (k : Str → C07Res) (M : Nat), (∀ s', (k s').1 ≤ M) →
      (r.run s k).1 ≤ c07_flatBound r M := by
  induction r with
  | eps => intro s k M hk; exact hk s
  | chr p =>
    intro s k M hk
    cases s with
    | nil => rw [c07_run_chr_nil]; simp [c07_flatBound]
    | cons c cs =>
      rw [c07_run_chr_cons]
      have := hk cs
      split <;> simp [c07_flatBound] <;> omega
  | seq a b iha ihb =>
    intro s k M hk
    simp only [c07_starFree, Bool.and_eq_true] at h
    rw [c07_run_seq]
    exact iha h.1 s _ _ (fun s' => ihb h.2 s' k M hk)
  | alt a b iha ihb =>
    intro s k M hk
    simp only [c07_starFree, Bool.and_eq_true] at h
    rw [c07_run_alt]
    have h1 := iha h.1 s k M hk
    have h2 := ihb h.2 s k M hk
    have h3 := c07_orElse_fst_le (a.run s k) (b.run s k)
    simp only [c07_tick_fst, c07_flatBound]
    omega
  | star a _ => simp [c07_starFree] at h

theorem c07_flat_steps (r : C07Regex) (h : c07_starFree r = true) (s : Str) :
    r.steps s ≤ c07_flatBound r 0 :=
  c07_flat_cost r h s _ 0 (fun _ => Nat.le_refl _)

/-! ### `p*` and `p+` for a single class `p` : exactly `spanP` -/

theorem c07_starChr_k0 (p : C07Class) (s : Str) :
    (C07Regex.star (.chr p)).run s c07_k0 =
      (2 * (spanP p.test s).1.length + 2, some (spanP p.test s).2) := by
  induction s with
  | nil =>
    rw [c07_star_unfold, c07_run_chr_nil]
    simp [spanP, c07_k0, C07Res.orElse, C07Res.tick]
  | cons c cs ih =>
    rw [c07_star_unfold, c07_run_chr_cons]
    by_cases h : p.test c = true
    · simp [h, spanP, ih, C07Res.orElse, C07Res.tick]
      omega
    · have h' : p.test c = false := by simpa using h
      simp [h', spanP, c07_k0, C07Res.orElse, C07Res.tick]

theorem c07_plusChr_exec (p : C07Class) (s : Str) :
    (C07Regex.plus (.chr p)).exec s =
      if (spanP p.test s).1 = [] then (1, none)
      else (2 * (spanP p.test s).1.length + 1, some (spanP p.test s).2) := by
  rw [c07_exec_k0, C07Regex.plus, c07_run_seq]
  cases s with
  | nil => rw [c07_run_chr_nil]; simp [spanP]
  | cons c cs =>
    rw [c07_run_chr_cons]
    by_cases h : p.test c = true
    · simp [h, spanP, c07_starChr_k0, C07Res.tick]
      omega
    · have h' : p.test c = false := by simpa using h
      simp [h', spanP]

/-- the `match` of `lexWs` / `lexInt` as an `if` -/
theorem c07_spanOpt_eq (p : Char → Bool) (s : Str) :
    (match spanP p s with | ([], _) => none | (m, r) => some (m, r)) =
      if (spanP p s).1 = [] then none else some (spanP p s) := by
  split
  · rename_i h; simp [h]
  · rename_i m r hne h
    have : m ≠ [] := by
      intro e; subst e; exact hne rfl
    simp [h, this]

/-! ### WHITESPACE `\s+`, INTEGER `[0-9]+`, the catch-all `.` -/

theorem c07_wsRule_exec (s : Str) :
    c07_wsRule.exec s =
      if (spanP isSpace s).1 = [] then (1, none)
      else (2 * (spanP isSpace s).1.length + 1, some (spanP isSpace s).2) := by
  rw [c07_wsRule, c07_plusChr_exec, c07_test_space]

theorem c07_intRule_exec (s : Str) :
    c07_intRule.exec s =
      if (spanP isDigit s).1 = [] then (1, none)
      else (2 * (spanP isDigit s).1.length + 1, some (spanP isDigit s).2) := by
  rw [c07_intRule, c07_plusChr_exec, c07_test_digit']

theorem c07_lexWs_eq (s : Str) :
    lexWs s = if (spanP isSpace s).1 = [] then none else some (spanP isSpace s) :=
  c07_spanOpt_eq isSpace s

theorem c07_lexInt_eq (s : Str) :
    lexInt s = if (spanP isDigit s).1 = [] then none else some (spanP isDigit s) :=
  c07_spanOpt_eq isDigit s

theorem c07_spanP_length (p : Char → Bool) (s : Str) : (spanP p s).1.length ≤ s.length := by
  have := congrArg List.length (c07_spanP_split p s)
  simp at this; omega

theorem c07_ws_agrees (s : Str) :
    c07_wsRule.steps s ≤ 2 * s.length + 1 ∧ (c07_wsRule.exec s).2 = (lexWs s).map (·.2) := by
  have := c07_spanP_length isSpace s
  unfold C07Regex.steps
  rw [c07_wsRule_exec, c07_lexWs_eq]
  split <;> simp <;> omega

theorem c07_int_agrees (s : Str) :
    c07_intRule.steps s ≤ 2 * s.length + 1 ∧ (c07_intRule.exec s).2 = (lexInt s).map (·.2) := by
  have := c07_spanP_length isDigit s
  unfold C07Regex.steps
  rw [c07_intRule_exec, c07_lexInt_eq]
  split <;> simp <;> omega

theorem c07_unknownRule_exec (s : Str) :
    c07_unknownRule.exec s =
      match s with
      | c :: cs => if isDot c then (1, some cs) else (1, none)
      | [] => (1, none) := by
  cases s with
  | nil => rfl
  | cons c cs =>
    rw [c07_exec_k0, c07_unknownRule, c07_run_chr_cons, c07_test_any]
    simp only [isDot]
    by_cases h : (c != '\n') = true
    · simp only [h, if_true]; rfl
    · simp only [h]; rfl

/-! ### SYMBOL -/

theorem c07_test_lit (a c : Char) : (C07Class.lit a).test c = (c == a) := rfl

theorem c07_beq_false_of_head (a c : Char) (cs : Str) (h : ∀ cs', c :: cs = a :: cs' → False) :
    (c == a) = false := by
  cases hb : c == a with
  | false => rfl
  | true => simp at hb; subst hb; exact absurd rfl (h cs)

theorem c07_symbolRule_starFree : c07_starFree c07_symbolRule = true := by decide
theorem c07_symbolRule_bound : c07_flatBound c07_symbolRule 0 = 25 := by decide

theorem c07_symbol_steps (s : Str) : c07_symbolRule.steps s ≤ 25 := by
  have := c07_flat_steps c07_symbolRule c07_symbolRule_starFree s
  rwa [c07_symbolRule_bound] at this

/-- the ordered alternation `:|>|=>|\^=|=|\(|\)|\[|\]|\||!|\.` leaves what `lexSymbol` leaves -/
theorem c07_symbol_result (s : Str) : (c07_symbolRule.exec s).2 = (lexSymbol s).map (·.2) := by
  fun_cases lexSymbol s
  all_goals try rfl
  case case5 cs hx =>
    cases cs with
    | nil => rfl
    | cons d ds =>
      have hd : (d == '>') = false := c07_beq_false_of_head '>' d ds hx
      simp [c07_symbolRule, c07_exec_k0, c07_run_alt, c07_run_seq, c07_run_chr_cons, c07_test_lit,
        c07_k0, hd, C07Res.orElse, C07Res.tick]
  case case13 h1 h2 h3 h4 h5 h6 h7 h8 h9 h10 h11 h12 =>
    cases s with
    | nil => rfl
    | cons c cs =>
      have e1 := c07_beq_false_of_head _ c cs h1
      have e2 := c07_beq_false_of_head _ c cs h2
      have e5 := c07_beq_false_of_head _ c cs h5
      have e6 := c07_beq_false_of_head _ c cs h6
      have e7 := c07_beq_false_of_head _ c cs h7
      have e8 := c07_beq_false_of_head _ c cs h8
      have e9 := c07_beq_false_of_head _ c cs h9
      have e10 := c07_beq_false_of_head _ c cs h10
      have e11 := c07_beq_false_of_head _ c cs h11
      have e12 := c07_beq_false_of_head _ c cs h12
      by_cases hc : c = '^'
      · subst hc
        cases cs with
        | nil => rfl
        | cons d ds =>
          have hd : (d == '=') = false := c07_beq_false_of_head '=' d ds (fun cs' e => h4 cs' (by rw [e]))
          simp [c07_symbolRule, c07_exec_k0, c07_run_alt, c07_run_seq, c07_run_chr_cons, c07_test_lit,
            hd, C07Res.orElse, C07Res.tick]
      · have e4 : (c == '^') = false := by simpa using hc
        simp [c07_symbolRule, c07_exec_k0, c07_run_alt, c07_run_seq, c07_run_chr_cons, c07_test_lit,
          e1, e2, e4, e5, e6, e7, e8, e9, e10, e11, e12, C07Res.orElse, C07Res.tick]

end Mammoth
