/-
  C10 helpers, part 3: the converter — hyperlinks, bookmarks, note references, notes, the document.
-/
import MammothModel.Reader
import Proofs.Strip
namespace Mammoth

/-! ### `Dict.ofList` read back with `Dict.get?` is the last-wins lookup -/

theorem c10_get_insert {β} (k k' : Str) (v : β) (d : Dict β) :
    Dict.get? k (Dict.insert k' v d) = if k = k' then some v else Dict.get? k d := by
  induction d with
  | nil => simp [Dict.insert, Dict.get?]
  | cons hd tl ih =>
    obtain ⟨k'', v''⟩ := hd
    simp only [Dict.insert]
    split
    · subst_vars; simp only [Dict.get?]; split <;> rfl
    · split
      · simp only [Dict.get?]
      · simp only [Dict.get?, ih]
        split
        · split
          · subst_vars; contradiction
          · rfl
        · rfl

theorem c10_get_foldl {β} (k : Str) (kvs : List (Str × β)) (d : Dict β) :
    Dict.get? k (kvs.foldl (fun d kv => Dict.insert kv.1 kv.2 d) d) =
      (lookupLast k kvs).or (Dict.get? k d) := by
  induction kvs generalizing d with
  | nil => simp [lookupLast]
  | cons hd tl ih =>
    obtain ⟨k', v⟩ := hd
    simp only [List.foldl_cons, ih, c10_get_insert, lookupLast]
    cases lookupLast k tl <;> simp
    split <;> simp

theorem c10_get_ofList {β} (k : Str) (kvs : List (Str × β)) :
    Dict.get? k (Dict.ofList kvs) = lookupLast k kvs := by
  simp [Dict.ofList, c10_get_foldl, Dict.get?]

theorem c10_lookupLast_append {α β} [DecidableEq α] (k : α) (a b : List (α × β)) :
    lookupLast k (a ++ b) = (lookupLast k b).or (lookupLast k a) := by
  induction a with
  | nil => simp [lookupLast]
  | cons hd tl ih =>
    obtain ⟨k', v⟩ := hd
    simp only [List.cons_append, lookupLast, ih]
    cases lookupLast k b <;> simp

/-! ### running `ConvM` programs; the visitor cases -/

theorem c10_run_bind {α β} (m : ConvM α) (f : α → ConvM β) (st : ConvState) :
    (m >>= f).run st = match m.run st with
      | .ok (a, s) => (f a).run s
      | .error e => .error e := by
  simp only [StateT.run, bind, StateT.bind, Except.bind]
  split <;> simp_all
theorem c10_run_pure {α} (a : α) (st : ConvState) : (pure a : ConvM α).run st = .ok (a, st) := rfl
theorem c10_run_modify (f : ConvState → ConvState) (st : ConvState) :
    (modify f : ConvM PUnit).run st = .ok (⟨⟩, f st) := rfl
theorem c10_run_get (st : ConvState) : (get : ConvM ConvState).run st = .ok (st, st) := rfl
theorem c10_run_throw {α} (e : Err) (st : ConvState) : (throw e : ConvM α).run st = .error e := rfl

def c10_linkHref (cfg : Cfg) (h : LinkProps) : Str :=
  match h.anchor with
  | none => pyOpt h.href
  | some a => ['#'] ++ htmlId cfg a

def c10_linkAttrs (cfg : Cfg) (h : LinkProps) : List (Str × Str) :=
  [(S!"href", c10_linkHref cfg h)] ++ (match h.targetFrame with | some t => [(S!"target", t)] | none => [])

theorem c10_visit_hyperlink (cfg : Cfg) (hdr : Bool) (h : LinkProps) (cs : List Elem) (st st' : ConvState)
    (ns : List Node) (hv : (visitAll cfg hdr cs).run st = .ok (ns, st')) :
    (visit cfg hdr (.hyperlink h cs)).run st = .ok ([cel S!"a" (c10_linkAttrs cfg h) ns], st') := by
  rw [visit]
  simp only [c10_run_bind, hv]
  rfl

theorem c10_visit_bookmark (cfg : Cfg) (hdr : Bool) (name : Option Str) (st : ConvState) :
    (visit cfg hdr (.bookmark name)).run st =
      .ok ([cel S!"a" [(S!"id", htmlId cfg (pyOpt name))] [.forceWrite]], st) := by
  rw [visit]; rfl

theorem c10_visit_noteRef (cfg : Cfg) (hdr : Bool) (ty id : Str) (st : ConvState) :
    (visit cfg hdr (.noteRef ty id)).run st =
      .ok ([el S!"sup" [] [el S!"a" [(S!"href", ['#'] ++ referentId cfg ty id), (S!"id", referenceId cfg ty id)]
              [.text (['['] ++ natToStr (st.noteRefs.length + 1) ++ [']'])]]],
           { st with noteRefs := st.noteRefs ++ [(ty, id)] }) := by
  rw [visit]
  simp only [c10_run_bind, c10_run_modify, c10_run_get, c10_run_pure, List.length_append, List.length_cons, List.length_nil]

theorem c10_visitNote (cfg : Cfg) (n : Note) (st st' : ConvState) (body : List Node)
    (hv : (visitAll cfg false n.body).run st = .ok (body, st')) :
    (visitNote cfg n).run st =
      .ok ([el S!"li" [(S!"id", referentId cfg n.ty n.id)]
              (body ++ [backLink (['#'] ++ referenceId cfg n.ty n.id)])], st') := by
  unfold visitNote
  simp only [c10_run_bind, hv]
  rfl

theorem c10_visitDocument (cfg : Cfg) (d : Document) (st st1 st2 st3 : ConvState)
    (nodes noteNodes commentNodes : List Node) (notes : List Note)
    (h1 : (visitAll cfg false d.children).run st = .ok (nodes, st1))
    (h2 : st1.noteRefs.mapM (resolveNote d.notes) = .ok notes)
    (h3 : (mapMConcat (visitNote cfg) notes).run st1 = .ok (noteNodes, st2))
    (h4 : (mapMConcat (visitComment cfg) st2.refComments).run st2 = .ok (commentNodes, st3)) :
    (visitDocument cfg d).run st =
      .ok (nodes ++ [el S!"ol" [] noteNodes, el S!"dl" [] commentNodes], st3) := by
  unfold visitDocument
  simp only [c10_run_bind, h1, c10_run_get, h2, c10_run_pure, h3, h4]

/-! ### attributes of the anchor -/

theorem c10_linkAttrs_get (cfg : Cfg) (h : LinkProps) :
    Dict.get? S!"href" (Dict.ofList (c10_linkAttrs cfg h)) = some (c10_linkHref cfg h) ∧
    Dict.get? S!"target" (Dict.ofList (c10_linkAttrs cfg h)) = h.targetFrame := by
  simp only [c10_get_ofList, c10_linkAttrs]
  cases h.targetFrame <;> (constructor <;> simp [lookupLast])

/-! ### notes resolve to their own key, in order -/

theorem c10_lookup_key {α κ} [DecidableEq κ] (key : α → κ) (k : κ) (l : List α) (a : α)
    (h : lookupLast k (l.map fun x => (key x, x)) = some a) : key a = k := by
  induction l with
  | nil => simp [lookupLast] at h
  | cons x xs ih =>
    simp only [List.map_cons, lookupLast] at h
    cases hl : lookupLast k (xs.map fun x => (key x, x)) with
    | some w => rw [hl] at h; simp only [Option.some.injEq] at h; subst h; exact ih hl
    | none =>
      rw [hl] at h
      simp only at h
      split at h
      · rename_i e; simp only [Option.some.injEq] at h; subst h; exact e.symm
      · cases h

theorem c10_resolve_key (notes : List Note) (ref : Str × Str) (n : Note)
    (h : resolveNote notes ref = .ok n) : (n.ty, n.id) = ref := by
  unfold resolveNote at h
  split at h
  · rename_i m hm
    cases h
    exact c10_lookup_key (fun n : Note => (n.ty, n.id)) ref notes _ hm
  · cases h

theorem c10_resolve_all (notes : List Note) : ∀ (refs : List (Str × Str)) (ns : List Note),
    refs.mapM (resolveNote notes) = .ok ns → ns.map (fun n => (n.ty, n.id)) = refs
  | [], ns, h => by simp only [List.mapM_nil] at h; cases h; rfl
  | r :: rs, ns, h => by
    rw [List.mapM_cons] at h
    cases h1 : resolveNote notes r with
    | error e => rw [h1] at h; cases h
    | ok n =>
      cases h2 : rs.mapM (resolveNote notes) with
      | error e => rw [h1, h2] at h; cases h
      | ok ns' =>
        rw [h1, h2] at h
        cases h
        simp only [List.map_cons, c10_resolve_key notes r n h1, c10_resolve_all notes rs ns' h2]

/-- the `id` attribute of an element node -/
def c10_nodeId : Node → Option Str
  | .elem t _ => Dict.get? S!"id" t.attrs
  | _ => none

theorem c10_visitNote_shape (cfg : Cfg) (n : Note) (st st' : ConvState) (ns : List Node)
    (h : (visitNote cfg n).run st = .ok (ns, st')) :
    ∃ body, (visitAll cfg false n.body).run st = .ok (body, st') ∧
      ns = [el S!"li" [(S!"id", referentId cfg n.ty n.id)]
              (body ++ [backLink (['#'] ++ referenceId cfg n.ty n.id)])] := by
  unfold visitNote at h
  simp only [c10_run_bind] at h
  split at h
  · rename_i body s hb
    simp only [c10_run_pure] at h
    cases h
    exact ⟨body, hb, rfl⟩
  · cases h

theorem c10_noteItems_ids (cfg : Cfg) : ∀ (notes : List Note) (st st' : ConvState) (ns : List Node),
    (mapMConcat (visitNote cfg) notes).run st = .ok (ns, st') →
    ns.map c10_nodeId = notes.map (fun n => some (referentId cfg n.ty n.id))
  | [], st, st', ns, h => by rw [mapMConcat] at h; cases h; rfl
  | n :: rest, st, st', ns, h => by
    rw [mapMConcat] at h
    simp only [c10_run_bind] at h
    split at h
    · rename_i a s ha
      obtain ⟨body, _, ea⟩ := c10_visitNote_shape cfg n st s a ha
      split at h
      · rename_i b s2 hb
        have ih := c10_noteItems_ids cfg rest s s2 b hb
        simp only [c10_run_pure] at h
        cases h
        subst ea
        simp only [List.cons_append, List.nil_append, List.map_cons, ih, c10_nodeId, el, c10_get_ofList,
          lookupLast]
        simp
      · cases h
    · cases h

end Mammoth
