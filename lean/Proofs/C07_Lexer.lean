/-
  C07 — progress / totality of the tokeniser model (`lexOne`, `tokenise`).
  Every lexer function splits its input into (matched, rest) with `matched ++ rest = input`,
  and every rule that matches consumes at least one character.
-/
import MammothModel.Dsl
namespace Mammoth

theorem c07_lexIdentRest_split (s : Str) : (lexIdentRest s).1 ++ (lexIdentRest s).2 = s := by
  fun_induction lexIdentRest s <;> simp_all

theorem c07_spanP_split (p : Char → Bool) (s : Str) : (spanP p s).1 ++ (spanP p s).2 = s := by
  fun_induction spanP p s <;> simp_all

theorem c07_lexStringBody_split (s : Str) : (lexStringBody s).1 ++ (lexStringBody s).2 = s := by
  fun_induction lexStringBody s <;> simp_all

theorem c07_lexIdent_split (s m r : Str) : lexIdent s = some (m, r) → m ++ r = s ∧ m ≠ [] := by
  fun_cases lexIdent s
  case case1 c cs h m' r' hx =>
    intro e; simp at e; obtain ⟨rfl, rfl⟩ := e
    have := c07_lexIdentRest_split cs; rw [hx] at this; simp_all
  case case3 c cs _ h m' r' hx =>
    intro e; simp at e; obtain ⟨rfl, rfl⟩ := e
    have := c07_lexIdentRest_split cs; rw [hx] at this; simp_all
  all_goals simp

theorem c07_lexSymbol_split (s m r : Str) : lexSymbol s = some (m, r) → m ++ r = s ∧ m ≠ [] := by
  fun_cases lexSymbol s <;> simp <;> (rintro rfl rfl; simp)

theorem c07_spanOpt_split (p : Char → Bool) (s m r : Str) :
    (match spanP p s with | ([], _) => none | (m, r) => some (m, r)) = some (m, r) →
    m ++ r = s ∧ m ≠ [] := by
  have := c07_spanP_split p s
  split
  · simp
  · rename_i x m' r' hne heq
    intro e; simp at e; obtain ⟨rfl, rfl⟩ := e
    rw [heq] at this
    exact ⟨this, fun h => hne h⟩

theorem c07_lexWs_split (s m r : Str) : lexWs s = some (m, r) → m ++ r = s ∧ m ≠ [] :=
  c07_spanOpt_split isSpace s m r

theorem c07_lexInt_split (s m r : Str) : lexInt s = some (m, r) → m ++ r = s ∧ m ≠ [] :=
  c07_spanOpt_split isDigit s m r

theorem c07_lexString_split (s m r : Str) (ty : TokTy) :
    lexString s = some (ty, m, r) → m ++ r = s ∧ m ≠ [] := by
  fun_cases lexString s
  case case1 cs m' r' hx =>
    intro e; simp at e; obtain ⟨_, rfl, rfl⟩ := e
    have := c07_lexStringBody_split cs; rw [hx] at this; simp_all
  case case2 cs m' r' _ hx =>
    intro e; simp at e; obtain ⟨_, rfl, rfl⟩ := e
    have := c07_lexStringBody_split cs; rw [hx] at this; simp_all
  all_goals simp

/-- whatever rule fires, the token value is a non-empty prefix of the input and the rest follows it -/
theorem c07_lexOne_split (s r : Str) (t : Token) :
    lexOne s = some (t, r) → t.val ++ r = s ∧ t.val ≠ [] := by
  unfold lexOne
  split
  · rename_i m r' h; intro e; simp at e; obtain ⟨rfl, rfl⟩ := e; exact c07_lexIdent_split _ _ _ h
  split
  · rename_i m r' h; intro e; simp at e; obtain ⟨rfl, rfl⟩ := e; exact c07_lexSymbol_split _ _ _ h
  split
  · rename_i m r' h; intro e; simp at e; obtain ⟨rfl, rfl⟩ := e; exact c07_lexWs_split _ _ _ h
  split
  · rename_i ty m r' h; intro e; simp at e; obtain ⟨rfl, rfl⟩ := e
    exact c07_lexString_split _ _ _ _ h
  split
  · rename_i m r' h; intro e; simp at e; obtain ⟨rfl, rfl⟩ := e; exact c07_lexInt_split _ _ _ h
  split
  · split
    · intro e; simp at e; obtain ⟨rfl, rfl⟩ := e; simp
    · simp
  · simp

theorem c07_lexOne_shorter (s r : Str) (t : Token) (h : lexOne s = some (t, r)) :
    r.length < s.length := by
  obtain ⟨h1, h2⟩ := c07_lexOne_split s r t h
  have : (t.val ++ r).length = s.length := by rw [h1]
  have : 0 < t.val.length := List.length_pos_iff.mpr h2
  simp at *; omega

/-- the catch-all rule: `lexOne` fails only on the empty input or on a newline that the whitespace
    rule did not take (which cannot happen, see `c07_lexOne_ne_none`) -/
theorem c07_lexOne_none (s : Str) (h : lexOne s = none) :
    s = [] ∨ ∃ cs, s = '\n' :: cs := by
  cases s with
  | nil => exact Or.inl rfl
  | cons c cs =>
    right
    unfold lexOne at h
    split at h; · simp at h
    split at h; · simp at h
    split at h; · simp at h
    split at h; · simp at h
    split at h; · simp at h
    simp [isDot] at h
    exact ⟨cs, by rw [h]⟩

/-- in fact the newline is white space, so `lexOne` fails on the empty input only -/
theorem c07_lexOne_ne_none (c : Char) (cs : Str) : lexOne (c :: cs) ≠ none := by
  intro h
  rcases c07_lexOne_none _ h with h' | ⟨cs', h'⟩
  · simp at h'
  · simp at h'
    obtain ⟨rfl, rfl⟩ := h'
    unfold lexOne at h
    have hid : lexIdent ('\n' :: cs) = none := by
      unfold lexIdent; simp; decide
    have hsym : lexSymbol ('\n' :: cs) = none := by
      unfold lexSymbol; simp
    have hws : ∃ m r, lexWs ('\n' :: cs) = some (m, r) := by
      unfold lexWs
      have : spanP isSpace ('\n' :: cs) = ('\n' :: (spanP isSpace cs).1, (spanP isSpace cs).2) := by
        rw [spanP]; simp; decide
      rw [this]; simp
    obtain ⟨m, r, hws⟩ := hws
    simp [hid, hsym, hws] at h

theorem c07_lexOne_progress' (s : Str) (hne : s ≠ []) :
    ∃ t r, lexOne s = some (t, r) ∧ r.length < s.length := by
  cases s with
  | nil => exact absurd rfl hne
  | cons c cs =>
    cases h : lexOne (c :: cs) with
    | none => exact absurd h (c07_lexOne_ne_none c cs)
    | some p => exact ⟨p.1, p.2, rfl, c07_lexOne_shorter _ _ _ h⟩

theorem c07_tokeniseFuel_cons (f : Nat) (c : Char) (cs : Str) :
    tokeniseFuel (f+1) (c :: cs) =
      match lexOne (c :: cs) with
      | some (t, r) => (tokeniseFuel f r).map (t :: ·)
      | none => none := by
  rfl

/-- fuel at least the length of the input is enough; the token list ends with END and the token
    values concatenate to the input -/
theorem c07_tokeniseFuel_total (f : Nat) : ∀ s : Str, s.length ≤ f →
    ∃ ts, tokeniseFuel f s = some ts ∧ ts.getLast? = some ⟨.end, []⟩ ∧
      (ts.map (·.val)).flatten = s := by
  induction f with
  | zero =>
    intro s hs
    have : s = [] := List.eq_nil_of_length_eq_zero (by omega)
    subst this
    exact ⟨_, rfl, rfl, rfl⟩
  | succ f ih =>
    intro s hs
    cases s with
    | nil => exact ⟨_, rfl, rfl, rfl⟩
    | cons c cs =>
      obtain ⟨t, r, h1, h2⟩ := c07_lexOne_progress' (c :: cs) (by simp)
      obtain ⟨ts, h3, h4, h5⟩ := ih r (by simp at hs h2; omega)
      refine ⟨t :: ts, ?_, ?_, ?_⟩
      · rw [c07_tokeniseFuel_cons]; simp [h1, h3]
      · cases ts with
        | nil => simp at h4
        | cons a as => simpa [List.getLast?_cons_cons] using h4
      · simp [h5, (c07_lexOne_split _ _ _ h1).1]

/-- fuel does not matter once it covers the input -/
theorem c07_tokeniseFuel_stable (f g : Nat) (s : Str) (hf : s.length ≤ f) (hg : s.length ≤ g) :
    tokeniseFuel f s = tokeniseFuel g s := by
  induction f generalizing g s with
  | zero =>
    have : s = [] := List.eq_nil_of_length_eq_zero (by omega)
    subst this
    cases g <;> rfl
  | succ f ih =>
    cases s with
    | nil => cases g <;> rfl
    | cons c cs =>
      cases g with
      | zero => simp at hg
      | succ g =>
        rw [c07_tokeniseFuel_cons, c07_tokeniseFuel_cons]
        cases h : lexOne (c :: cs) with
        | none => rfl
        | some p =>
          obtain ⟨t, r⟩ := p
          have := c07_lexOne_shorter _ _ _ h
          simp only
          rw [ih g r (by simp at hf this; omega) (by simp at hg this; omega)]

end Mammoth
