/-
  C05 — balanced complex fields IN READING ORDER: for every statically well-formed tree (deleted paragraph
  marks allowed, anything deferred on entry allowed) on which the reading-order depth function `c05_rdepth`
  does not underflow, the element reader never pops the empty field stack; it ends with exactly the computed
  stack depth and the computed deferred nodes.
-/
import Proofs.C05_RDepth
import Proofs.C05_ReadSpecG
namespace Mammoth

theorem c05_spec_and {α} {E E' : Err → Prop} {Q Q' : α → Prop} {x : Except Err α}
    (h : c05_spec E Q x) (h' : c05_spec E' Q' x) : c05_spec E (fun a => Q a ∧ Q' a) x :=
  ⟨h.err, fun a ha => ⟨h.ok a ha, h'.ok a ha⟩⟩

theorem c05_readBody_rbal (env : REnv) (hn : c05_numOk env) (ra : c05_RdAll)
    (all : c05_DS → List XmlNode → Option c05_DS)
    (ih : ∀ st ns, c05_staticL env ns = true → c05_staticL env st.deleted = true →
      c05_rrel (all (st.stack.length, st.deleted) ns) (ra st ns))
    (st : RState) (name : Str) (as : Attrs) (cs : List XmlNode)
    (hel : c05_elemOk env name as cs = true) (hcs : c05_staticL env cs = true)
    (hdel : c05_staticL env st.deleted = true) :
    c05_rrel (c05_rdepthBody all (st.stack.length, st.deleted) name as cs) (c05_readBody env ra st name as cs) := by
  unfold c05_readBody c05_rdepthBody
  cases hg : handlerOf name with
  | none =>
    dsimp only
    split <;> exact c05_rrel_some _ _ (c05_spec_ok _ ⟨rfl, rfl⟩)
  | some g =>
    dsimp only
    repeat' (first
      | with_reducible refine c05_rrel_ite2 _ _ _ _ _ (fun _ => ?_) (fun _ => ?_)
      | exact c05_rrel_some _ _ (c05_spec_ok _ ⟨rfl, rfl⟩)
      | exact c05_spec_pure _ (by assumption)
      | exact ih _ _ hcs hdel
      | exact ih _ _ (c05_staticL_findChild env _ cs hcs) hdel
      | exact c05_readFldChar_rrel st as cs
      | refine c05_rrel_bind _ _ _ (ih _ _ hcs hdel) (fun _ _ _ => ?_)
      | refine c05_rrel_bind _ _ _ (ih { st with deleted := [] } (st.deleted ++ cs)
          (by rw [c05_staticL_append, hdel, hcs]; rfl) rfl) (fun _ _ _ => ?_)
      | refine c05_spec_bind (Q := fun _ => True) _ _ (c05_spec_of_isOk _ (hn _ _)) (fun _ _ => ?_)
      | exact c05_rrel_some _ _ (c05_spec_map _ _ (c05_spec_of_isOk _ (c05_readSymbol_ok as
          (c05_elemOk_symbol env name g as cs hg (by assumption) hel))) (fun _ _ => ⟨rfl, rfl⟩))
      | exact c05_rrel_some _ _ (c05_spec_map _ _ (c05_spec_of_isOk _ (c05_readInline_ok env cs
          (c05_elemOk_inline env name g as cs hg (by assumption) hel))) (fun _ _ => ⟨rfl, rfl⟩))
      | exact c05_rrel_some _ _ (c05_spec_map _ _ (c05_spec_of_isOk _ (c05_readEmbeddedImage_ok env _ _
          (c05_match_some (c05_elemOk_imagedata env name g as cs hg (by assumption) hel) (by assumption))))
          (fun _ _ => ⟨rfl, rfl⟩))
      | exact (c05_cell_contra (by assumption) (by assumption)
          (c05_match_some (c05_elemOk_cell env name g as cs hg (by assumption) hel) (by assumption))).elim
      | exact (c05_isSome_contra (c05_elemOk_noteRef env name g as cs hg (by assumption) hel) (by assumption)).elim
      | exact (c05_isSome_contra (c05_elemOk_commentRef env name g as cs hg (by assumption) hel) (by assumption)).elim
      | refine c05_spec_bind (Q := fun _ => True) _ _ (c05_spec_of_isOk _ (c05_targetById_ok env _
          (c05_match_some (c05_elemOk_hyperlink env name g as cs hg (by assumption) hel) (by assumption))))
          (fun _ _ => ?_)
      | exact (c05_some_none_contra (o := findChild S!"wordml:checkbox" (findChildOrNull S!"w:sdtPr" cs).2)
          (by assumption) (by assumption)).elim
      | with_reducible refine c05_rrel_iteR _ _ _ _ (fun _ => ?_) (fun _ => ?_)
      | split
      | dsimp only)
    -- the final `else`: every handler name of the table is covered by the chain
    have hany := c05_handler_any name g hg
    simp only [c05_handlerNames, List.any_cons, List.any_nil, Bool.or_false, Bool.or_eq_true] at hany
    have hnote : ¬ (g == S!"note_reference:footnote" || g == S!"note_reference:endnote") = true := by assumption
    rcases hany with h|h|h|h|h|h|h|h|h|h|h|h|h|h|h|h|h|h|h|h|h|h|h|h
    all_goals first
      | exact absurd h (by assumption)
      | exact absurd (by rw [h]; rfl) hnote
      | exact absurd (by rw [h]; exact Bool.or_true _) hnote

theorem c05_readAllWith_rbal (env : REnv) (rd : c05_Rd) (dp : c05_DS → XmlNode → Option c05_DS)
    (hrd : ∀ st n, c05_static env n = true → c05_staticL env st.deleted = true →
      c05_rrel (dp (st.stack.length, st.deleted) n) (rd st n))
    (hst : ∀ st n, c05_static env n = true → c05_staticL env st.deleted = true →
      c05_spec c05_allowed (c05_Q env) (rd st n)) :
    ∀ (ns : List XmlNode) (st : RState), c05_staticL env ns = true → c05_staticL env st.deleted = true →
      c05_rrel (c05_rdepthAllWith dp (st.stack.length, st.deleted) ns) (readAllWith rd st ns)
  | [], st, _, _ => by
    simp only [readAllWith, c05_rdepthAllWith]; exact c05_rrel_some _ _ (c05_spec_ok _ ⟨rfl, rfl⟩)
  | .text _ :: rest, st, hs, hd => by
    simp only [readAllWith, c05_rdepthAllWith]
    simp only [c05_staticL, Bool.and_eq_true] at hs
    exact c05_readAllWith_rbal env rd dp hrd hst rest st hs.2 hd
  | .elem n as cs :: rest, st, hs, hd => by
    simp only [readAllWith, c05_rdepthAllWith]
    simp only [c05_staticL, Bool.and_eq_true] at hs
    constructor; intro s' hk
    cases hdp : dp (st.stack.length, st.deleted) (.elem n as cs) with
    | none => rw [hdp] at hk; cases hk
    | some s1 =>
      rw [hdp] at hk
      simp only [Option.bind] at hk
      refine c05_spec_bind (Q := fun a => c05_Qr s1 a ∧ c05_Q env a) _ _
        (c05_spec_and ((hrd _ _ hs.1 hd).h s1 hdp) (hst _ _ hs.1 hd)) (fun a ha => ?_)
      have hrest := c05_readAllWith_rbal env rd dp hrd hst rest a.2 hs.2 ha.2
      have hs1 : (a.2.stack.length, a.2.deleted) = s1 := Prod.ext ha.1.1 ha.1.2
      rw [hs1] at hrest
      refine c05_spec_bind (Q := c05_Qr s') _ _ (hrest.h s' hk) (fun b hb => ?_)
      exact c05_spec_pure _ hb

theorem c05_readElem_rbal (env : REnv) (hn : c05_numOk env) :
    ∀ (f : Nat) (st : RState) (n : XmlNode), c05_static env n = true → c05_staticL env st.deleted = true →
      c05_rrel (c05_rdepth f (st.stack.length, st.deleted) n) (readElem env f st n)
  | f, st, .text s, _, _ => by
    rw [c05_readElem_text]
    have : c05_rdepth f (st.stack.length, st.deleted) (.text s) = some (st.stack.length, st.deleted) := by
      cases f <;> rfl
    rw [this]
    exact c05_rrel_some _ _ (c05_spec_ok _ ⟨rfl, rfl⟩)
  | 0, st, .elem name as cs, _, _ => by
    rw [c05_readElem_zero]
    exact ⟨fun k _ => ⟨fun e he => (by cases he; rfl), fun a ha => (by cases ha)⟩⟩
  | f+1, st, .elem name as cs, hs, hd => by
    rw [c05_readElem_succ]
    simp only [c05_static, Bool.and_eq_true] at hs
    show c05_rrel (c05_rdepthBody (c05_rdepthAllWith (c05_rdepth f)) (st.stack.length, st.deleted) name as cs) _
    exact c05_readBody_rbal env hn _ _
      (fun st ns h1 h2 => c05_readAllWith_rbal env _ _ (c05_readElem_rbal env hn f)
        (c05_readElem_specG env hn f) ns st h1 h2)
      st name as cs hs.1 hs.2 hd

end Mammoth
