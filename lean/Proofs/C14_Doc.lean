/-
  C14 — whole documents: the stripped output is, in order, what is left of each body element; a body
  paragraph or table is there (as one element with the first tag of its path) exactly when the
  specification `c14_weight` says `full`; fresh top-level elements are never merged by `collapse`.
-/
import Proofs.C14_Table
import Proofs.Stable
namespace Mammoth

/-! ### the body: one part per element -/

/-- `part` is what some successful visit of `e` returned -/
def c14_partRel (cfg : Cfg) (hdr : Bool) (e : Elem) (part : List Node) : Prop :=
  ∃ s s', visit cfg hdr e s = .ok (part, s')

theorem c14_visitAll_parts (cfg : Cfg) (hdr : Bool) (es : List Elem) :
    ∀ (st st' : ConvState) (ns : List Node), visitAll cfg hdr es st = .ok (ns, st') →
      ∃ parts, ns = parts.flatten ∧ c09_Forall2 (c14_partRel cfg hdr) es parts := by
  induction es with
  | nil =>
    intro st st' ns h
    simp only [visitAll, c01_pure_run, Except.ok.injEq, Prod.mk.injEq] at h
    exact ⟨[], by simp [← h.1], .nil⟩
  | cons e es ih =>
    intro st st' ns h
    simp only [visitAll] at h
    obtain ⟨a, s1, h1, h2⟩ := c14_bind_ok _ _ _ _ _ h
    obtain ⟨b, s2, h3, h4⟩ := c14_bind_ok _ _ _ _ _ h2
    simp only [c01_pure_run, Except.ok.injEq, Prod.mk.injEq] at h4
    obtain ⟨parts, hp, hf⟩ := ih s1 s2 b h3
    exact ⟨a :: parts, by simp [← h4.1, hp], .cons ⟨st, s1, h1⟩ hf⟩

/-- strip each part and concatenate -/
def c14_stripParts : List (List Node) → List Node
  | [] => []
  | p :: ps => stripEmpty p ++ c14_stripParts ps

theorem c14_stripEmpty_flatten (parts : List (List Node)) :
    stripEmpty parts.flatten = c14_stripParts parts := by
  induction parts with
  | nil => rfl
  | cons p ps ih => simp only [List.flatten_cons, stripEmpty_append, ih, c14_stripParts]

/-! ### blocks -/

/-- the path of a body-level block (paragraph or table) -/
def c14_blockPath (cfg : Cfg) : Elem → Option HtmlPath
  | .paragraph p _ => some (c01_path cfg (.paragraph p) (.elements [pathElem S!"p" true]))
  | .table sid sname _ => some (c01_path cfg (.table sid sname) (.elements [pathElem S!"table" true]))
  | _ => none

/-- a paragraph or table whose path is `!` or has at least one element -/
def c14_isBlock (cfg : Cfg) (e : Elem) : Bool :=
  match c14_blockPath cfg e with
  | some .ignore => true
  | some (.elements (_ :: _)) => true
  | _ => false

/-- the outermost tags of the blocks that are written: one per block whose weight is `full` -/
def c14_heads (cfg : Cfg) : List Elem → List Tag
  | [] => []
  | e :: es =>
    match c14_blockPath cfg e with
    | some (.elements (t :: _)) => if c14_weight cfg e = .full then t :: c14_heads cfg es else c14_heads cfg es
    | _ => c14_heads cfg es

/-- `n` is an element with tag `t` -/
def c14_hasTag (t : Tag) (n : Node) : Prop := ∃ kids, n = .elem t kids

theorem c14_forall2_append {α β} {R : α → β → Prop} {as as' : List α} {bs bs' : List β}
    (h : c09_Forall2 R as bs) (h' : c09_Forall2 R as' bs') : c09_Forall2 R (as ++ as') (bs ++ bs') := by
  induction h with
  | nil => simpa using h'
  | cons hab _ ih => exact .cons hab ih

/-- what is left of one block: nothing, or one element with the first tag of the path -/
theorem c14_block_part (cfg : Cfg) (hdr : Bool) (e : Elem) (part : List Node)
    (hb : c14_isBlock cfg e = true) (hr : c14_partRel cfg hdr e part) :
    c09_Forall2 c14_hasTag (c14_heads cfg [e]) (stripEmpty part) := by
  obtain ⟨s, s', hv⟩ := hr
  have hw := c14_weight_visit cfg hdr e s part s' hv
  have hnil := stripEmpty_eq_nil_iff part
  rw [hw] at hnil
  -- in both block cases `part = wrapElems es X` when the path is `elements es`, `[]` when it is `!`
  have key : ∀ path, c14_blockPath cfg e = some path →
      (path = .ignore → part = []) ∧ (∀ es, path = .elements es → ∃ X, part = wrapElems es X) := by
    intro path hpath
    cases e with
    | paragraph p cs =>
      simp only [c14_blockPath, Option.some.injEq] at hpath
      refine ⟨fun hi => c14_visit_paragraph_ignore cfg hdr p cs s s' part (hpath.trans hi) hv, ?_⟩
      intro es he
      obtain ⟨content, _, hn⟩ := c14_visit_paragraph cfg hdr p cs es s s' part (hpath.trans he) hv
      exact ⟨_, hn⟩
    | table sid sname rows =>
      simp only [c14_blockPath, Option.some.injEq] at hpath
      have hv' : (visit cfg hdr (.table sid sname rows)).run s = .ok (part, s') := hv
      rw [c09_visit_table] at hv'
      have hp : (findPath cfg (.table sid sname)).getD (.elements [pathElem S!"table" true]) = path := hpath
      rw [hp] at hv'
      refine ⟨?_, ?_⟩
      · intro hi
        subst hi
        simp only [] at hv'
        rw [c09_pure_ok] at hv'
        exact hv'.1.symm
      · intro es he
        subst he
        simp only [] at hv'
        rw [c09_bind_ok] at hv'
        obtain ⟨⟨hd, bd⟩, s1, _, h2⟩ := hv'
        simp only [] at h2
        rw [c09_pure_ok] at h2
        exact ⟨_, h2.1.symm⟩
    | _ => simp [c14_blockPath] at hpath
  unfold c14_isBlock at hb
  unfold c14_heads
  cases hpath : c14_blockPath cfg e with
  | none => simp [hpath] at hb
  | some path =>
    obtain ⟨k1, k2⟩ := key path hpath
    cases path with
    | ignore =>
      simp only [k1 rfl]
      exact .nil
    | elements es =>
      cases es with
      | nil => simp [hpath] at hb
      | cons t ts =>
        simp only []
        obtain ⟨X, hX⟩ := k2 _ rfl
        by_cases hf : c14_weight cfg e = .full
        · simp only [hf, if_true, c14_heads]
          rw [hX, stripEmpty_wrapElems]
          have : (weightOf X).wrap (t :: ts) = .full := by
            rw [← weightOf_wrapElems, ← hX, hw, hf]
          simp only [this, if_true, wrapElems]
          exact .cons ⟨_, rfl⟩ .nil
        · simp only [hf, if_false, c14_heads]
          rw [hnil.mpr hf]
          exact .nil

theorem c14_heads_cons (cfg : Cfg) (e : Elem) (es : List Elem) :
    c14_heads cfg (e :: es) = c14_heads cfg [e] ++ c14_heads cfg es := by
  simp only [c14_heads]
  split
  · split <;> simp
  · simp

/-- a body made of blocks: after `strip_empty`, exactly one element per written block, in order -/
theorem c14_blocks_parts (cfg : Cfg) (hdr : Bool) (es : List Elem) (parts : List (List Node))
    (hb : es.all (c14_isBlock cfg) = true) (h : c09_Forall2 (c14_partRel cfg hdr) es parts) :
    c09_Forall2 c14_hasTag (c14_heads cfg es) (c14_stripParts parts) := by
  induction h with
  | nil => exact .nil
  | cons hab _ ih =>
    simp only [List.all_cons, Bool.and_eq_true] at hb
    rw [c14_heads_cons]
    simp only [c14_stripParts]
    exact c14_forall2_append (c14_block_part cfg hdr _ _ hb.1 hab) (ih hb.2)

/-! ### the document -/

theorem c14_visitDocument (cfg : Cfg) (d : Document) (st st' : ConvState) (nodes : List Node)
    (h : visitDocument cfg d st = .ok (nodes, st')) :
    ∃ body st1 noteNodes commentNodes,
      visitAll cfg false d.children st = .ok (body, st1) ∧
      nodes = body ++ [el S!"ol" [] noteNodes, el S!"dl" [] commentNodes] := by
  simp only [visitDocument] at h
  obtain ⟨body, s1, h1, h2⟩ := c14_bind_ok _ _ _ _ _ h
  obtain ⟨g, s2, _, h3⟩ := c14_bind_ok _ _ _ _ _ h2
  cases hm : List.mapM (resolveNote d.notes) g.noteRefs with
  | ok ns0 =>
    simp only [hm] at h3
    obtain ⟨_, s3, _, h4⟩ := c14_bind_ok _ _ _ _ _ h3
    obtain ⟨nn, s4, _, h5⟩ := c14_bind_ok _ _ _ _ _ h4
    obtain ⟨_, s5, _, h6⟩ := c14_bind_ok _ _ _ _ _ h5
    obtain ⟨cn, s6, _, h7⟩ := c14_bind_ok _ _ _ _ _ h6
    simp only [c01_pure_run, Except.ok.injEq, Prod.mk.injEq] at h7
    exact ⟨body, s1, nn, cn, h1, h7.1.symm⟩
  | error e =>
    simp only [hm] at h3
    obtain ⟨_, s3, h4, _⟩ := c14_bind_ok _ _ _ _ _ h3
    simp at h4

theorem c14_convertDoc (cfg : Cfg) (d : Document) (r : ConvResult) (h : convertDoc cfg d = .ok r) :
    ∃ st', visitDocument { cfg with comments := d.comments } d {} = .ok (r.nodes, st') := by
  unfold convertDoc at h
  cases hv : (visitDocument { cfg with comments := d.comments } d).run {} with
  | error e => simp [hv] at h
  | ok p =>
    obtain ⟨nodes, st⟩ := p
    simp only [hv, Except.ok.injEq] at h
    exact ⟨st, by rw [← h]; exact hv⟩

/-! ### fresh top-level elements are not merged -/

/-- no top-level element is collapsible -/
def topFresh : List Node → Bool
  | [] => true
  | .elem t _ :: ns => !t.collapsible && topFresh ns
  | _ :: ns => topFresh ns

/-- collapse every node on its own -/
def collapseEach : List Node → List Node
  | [] => []
  | n :: ns => collapseNode n :: collapseEach ns

theorem collapseFrom_topFresh (acc ns : List Node) (h : topFresh ns = true) :
    collapseFrom acc ns = acc ++ collapseEach ns := by
  induction ns generalizing acc with
  | nil => simp [collapseFrom, collapseEach]
  | cons n ns ih =>
    unfold collapseFrom
    cases n with
    | text s =>
      simp only [topFresh] at h
      rw [ih _ h]; simp [collapseNode, addC_text, collapseEach]
    | forceWrite =>
      simp only [topFresh] at h
      rw [ih _ h]; simp [collapseNode, addC_fw, collapseEach]
    | elem t cs =>
      simp only [topFresh, Bool.and_eq_true, Bool.not_eq_true'] at h
      rw [ih _ h.2]
      have : addC acc (collapseNode (.elem t cs)) = acc ++ [collapseNode (.elem t cs)] := by
        apply addC_of_not_mergeable
        intro l _
        cases l <;> simp [collapseNode, mergeable, h.1]
      rw [this]; simp [collapseEach]

theorem collapse_topFresh (ns : List Node) (h : topFresh ns = true) : collapse ns = collapseEach ns := by
  simpa [collapse] using collapseFrom_topFresh [] ns h

theorem topFresh_append (a b : List Node) : topFresh (a ++ b) = (topFresh a && topFresh b) := by
  induction a with
  | nil => simp [topFresh]
  | cons x xs ih => cases x <;> simp [topFresh, ih, Bool.and_assoc]

theorem topFresh_prune (ns : List Node) (h : topFresh ns = true) : topFresh (prune ns) = true := by
  induction ns with
  | nil => simp [prune, topFresh]
  | cons x xs ih =>
    cases x with
    | text s =>
      simp only [topFresh] at h
      by_cases hc : hasContent (.text s) = true <;> simp [prune, hc, pruneNode, topFresh, ih h]
    | forceWrite =>
      simp only [topFresh] at h
      simp [prune, hasContent, pruneNode, topFresh, ih h]
    | elem t cs =>
      simp only [topFresh, Bool.and_eq_true] at h
      by_cases hc : hasContent (.elem t cs) = true
      · simp only [prune, hc, if_true, pruneNode, topFresh, Bool.and_eq_true]; exact ⟨h.1, ih h.2⟩
      · simp only [prune, hc]; exact ih h.2

theorem collapseEach_append (a b : List Node) : collapseEach (a ++ b) = collapseEach a ++ collapseEach b := by
  induction a with
  | nil => rfl
  | cons x xs ih => simp [collapseEach, ih]

theorem c14_hasTag_collapseEach (ts : List Tag) (ns : List Node) (h : c09_Forall2 c14_hasTag ts ns) :
    c09_Forall2 c14_hasTag ts (collapseEach ns) := by
  induction h with
  | nil => exact .nil
  | cons hab _ ih =>
    obtain ⟨kids, hn⟩ := hab
    subst hn
    exact .cons ⟨_, rfl⟩ ih

/-- elements with non-collapsible tags form a `topFresh` forest -/
theorem c14_topFresh_of_heads (ts : List Tag) (ns : List Node) (h : c09_Forall2 c14_hasTag ts ns)
    (hf : ts.all (fun t => !t.collapsible) = true) : topFresh ns = true := by
  induction h with
  | nil => rfl
  | cons hab _ ih =>
    obtain ⟨kids, hn⟩ := hab
    subst hn
    simp only [List.all_cons, Bool.and_eq_true] at hf
    simp only [topFresh, Bool.and_eq_true]
    exact ⟨hf.1, ih hf.2⟩

/-! ### whole documents -/

theorem c14_topFresh_tail (a b : List Node) : topFresh (stripEmpty [el S!"ol" [] a, el S!"dl" [] b]) = true := by
  simp only [stripEmpty, stripList_eq]
  exact topFresh_prune _ (by simp [el, topFresh])

/-- The stripped output of a document is, in order, what `strip_empty` leaves of the nodes of each body
    element, followed by what it leaves of the notes list and the comments list. -/
theorem c14_document_parts (cfg : Cfg) (d : Document) (r : ConvResult) (h : convertDoc cfg d = .ok r) :
    ∃ parts noteNodes commentNodes,
      c09_Forall2 (c14_partRel { cfg with comments := d.comments } false) d.children parts ∧
      r.nodes = parts.flatten ++ [el S!"ol" [] noteNodes, el S!"dl" [] commentNodes] ∧
      stripEmpty r.nodes =
        c14_stripParts parts ++ stripEmpty [el S!"ol" [] noteNodes, el S!"dl" [] commentNodes] := by
  obtain ⟨st', hv⟩ := c14_convertDoc cfg d r h
  obtain ⟨body, st1, nn, cn, hb, hn⟩ := c14_visitDocument _ d _ _ _ hv
  obtain ⟨parts, hp, hf⟩ := c14_visitAll_parts _ false d.children _ _ _ hb
  refine ⟨parts, nn, cn, hf, by rw [hn, hp], ?_⟩
  rw [hn, stripEmpty_append, hp, c14_stripEmpty_flatten]

/-- A body made of paragraphs and tables (each mapped to `!` or to a non-empty path): the stripped output
    starts with exactly one element per block whose weight is `full`, in document order, carrying the
    first tag of the block's path; then come the notes / comments lists (if not empty). -/
theorem c14_document_blocks (cfg : Cfg) (d : Document) (r : ConvResult) (h : convertDoc cfg d = .ok r)
    (hblocks : d.children.all (c14_isBlock { cfg with comments := d.comments }) = true) :
    ∃ blocks noteNodes commentNodes,
      stripEmpty r.nodes = blocks ++ stripEmpty [el S!"ol" [] noteNodes, el S!"dl" [] commentNodes] ∧
      c09_Forall2 c14_hasTag (c14_heads { cfg with comments := d.comments } d.children) blocks := by
  obtain ⟨parts, nn, cn, hf, _, hs⟩ := c14_document_parts cfg d r h
  exact ⟨_, nn, cn, hs, c14_blocks_parts _ false _ _ hblocks hf⟩

/-- … and if those first tags are all fresh (not collapsible), `collapse` merges none of the blocks: the
    rendered forest has one top-level element per written block as well. -/
theorem c14_document_blocks_rendered (cfg : Cfg) (d : Document) (r : ConvResult)
    (h : convertDoc cfg d = .ok r)
    (hblocks : d.children.all (c14_isBlock { cfg with comments := d.comments }) = true)
    (hfresh : (c14_heads { cfg with comments := d.comments } d.children).all (fun t => !t.collapsible) = true) :
    ∃ blocks noteNodes commentNodes,
      collapse (stripEmpty r.nodes) =
        blocks ++ collapse (stripEmpty [el S!"ol" [] noteNodes, el S!"dl" [] commentNodes]) ∧
      c09_Forall2 c14_hasTag (c14_heads { cfg with comments := d.comments } d.children) blocks := by
  obtain ⟨blocks, nn, cn, hs, hf⟩ := c14_document_blocks cfg d r h hblocks
  have h1 := c14_topFresh_of_heads _ _ hf hfresh
  have h2 := c14_topFresh_tail nn cn
  refine ⟨collapseEach blocks, nn, cn, ?_, c14_hasTag_collapseEach _ _ hf⟩
  rw [hs, collapse_topFresh _ (by rw [topFresh_append, h1, h2]; rfl), collapseEach_append,
    collapse_topFresh _ h2]

end Mammoth
