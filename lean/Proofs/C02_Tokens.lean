/-
  C02 — the token model of the HTML writer's output grammar: tokens of a forest (defined by
  recursion on the forest), the stack discipline check, coalescing of adjacent text, and the
  projections (attribute values, text) used by the round-trip corollaries.
-/
import MammothModel.Html
import Proofs.HtmlText
namespace Mammoth

inductive c02_Tok where
  | start (name : Str) (attrs : List (Str × Str))
  | «end» (name : Str)
  | selfClose (name : Str) (attrs : List (Str × Str))
  | text (s : Str)
deriving DecidableEq, Repr, Inhabited

/-! ### tokens of a forest -/
mutual
def c02_tokensN : Node → List c02_Tok
  | .text s => [.text s]
  | .forceWrite => []
  | .elem t cs =>
    if isVoid t cs then [.selfClose t.name t.attrs]
    else [.start t.name t.attrs] ++ c02_tokens cs ++ [.end t.name]
def c02_tokens : List Node → List c02_Tok
  | [] => []
  | c :: cs => c02_tokensN c ++ c02_tokens cs
end

@[simp] theorem c02_tokens_nil : c02_tokens [] = [] := by simp [c02_tokens]
@[simp] theorem c02_tokens_cons (c : Node) (cs : List Node) :
    c02_tokens (c :: cs) = c02_tokensN c ++ c02_tokens cs := by simp [c02_tokens]
@[simp] theorem c02_tokensN_text (s : Str) : c02_tokensN (.text s) = [.text s] := by simp [c02_tokensN]
@[simp] theorem c02_tokensN_fw : c02_tokensN .forceWrite = [] := by simp [c02_tokensN]
theorem c02_tokensN_elem (t : Tag) (cs : List Node) :
    c02_tokensN (.elem t cs) =
      if isVoid t cs then [.selfClose t.name t.attrs]
      else [.start t.name t.attrs] ++ c02_tokens cs ++ [.end t.name] := by simp [c02_tokensN]

theorem c02_tokens_append (a b : List Node) : c02_tokens (a ++ b) = c02_tokens a ++ c02_tokens b := by
  induction a with
  | nil => simp
  | cons x xs ih => simp [ih]

/-! ### stack discipline -/

/-- one step of the balance check: the stack holds the names of the open elements, innermost first;
    `none` = a mismatched or unexpected end tag was seen -/
def c02_balStep : Option (List Str) → c02_Tok → Option (List Str)
  | none, _ => none
  | some st, .start n _ => some (n :: st)
  | some [], .end _ => none
  | some (m :: st), .end n => if n = m then some st else none
  | some st, .selfClose _ _ => some st
  | some st, .text _ => some st

def c02_balRun (st : Option (List Str)) (ts : List c02_Tok) : Option (List Str) := ts.foldl c02_balStep st

/-- start and end tags balance and nest: every end tag closes the innermost open element, of the
    same name, and nothing is left open at the end -/
def c02_balanced (ts : List c02_Tok) : Bool := c02_balRun (some []) ts == some []

theorem c02_balRun_append (st : Option (List Str)) (a b : List c02_Tok) :
    c02_balRun st (a ++ b) = c02_balRun (c02_balRun st a) b := by simp [c02_balRun]

@[simp] theorem c02_balRun_nil (st : Option (List Str)) : c02_balRun st [] = st := rfl
@[simp] theorem c02_balRun_cons (st : Option (List Str)) (t : c02_Tok) (ts : List c02_Tok) :
    c02_balRun st (t :: ts) = c02_balRun (c02_balStep st t) ts := rfl

mutual
theorem c02_balRun_tokensN (n : Node) (st : List Str) : c02_balRun (some st) (c02_tokensN n) = some st := by
  match n with
  | .text s => simp [c02_balStep]
  | .forceWrite => simp
  | .elem t cs =>
    rw [c02_tokensN_elem]
    by_cases h : isVoid t cs = true
    · simp [h, c02_balStep]
    · simp only [h, if_false, Bool.false_eq_true]
      rw [c02_balRun_append, c02_balRun_append]
      simp only [c02_balRun_cons, c02_balRun_nil, c02_balStep]
      rw [c02_balRun_tokens cs (t.name :: st)]
      simp
theorem c02_balRun_tokens (ns : List Node) (st : List Str) : c02_balRun (some st) (c02_tokens ns) = some st := by
  match ns with
  | [] => simp
  | c :: cs =>
    rw [c02_tokens_cons, c02_balRun_append, c02_balRun_tokensN c st, c02_balRun_tokens cs st]
end

/-! ### coalescing adjacent text -/

/-- pending text becomes a token only when it is non-empty -/
def c02_flush (acc : Str) : List c02_Tok := if acc.isEmpty then [] else [.text acc]

/-- feed one token to (tokens emitted so far, pending text) -/
def c02_feedStep : List c02_Tok × Str → c02_Tok → List c02_Tok × Str
  | (toks, acc), .text s => (toks, acc ++ s)
  | (toks, acc), t => (toks ++ c02_flush acc ++ [t], [])

def c02_feed (st : List c02_Tok × Str) (ts : List c02_Tok) : List c02_Tok × Str := ts.foldl c02_feedStep st

/-- adjacent text tokens are concatenated and empty text disappears; all other tokens are kept -/
def c02_coalesce (ts : List c02_Tok) : List c02_Tok :=
  (c02_feed ([], []) ts).1 ++ c02_flush (c02_feed ([], []) ts).2

theorem c02_feed_append (st : List c02_Tok × Str) (a b : List c02_Tok) :
    c02_feed st (a ++ b) = c02_feed (c02_feed st a) b := by simp [c02_feed]
@[simp] theorem c02_feed_nil (st : List c02_Tok × Str) : c02_feed st [] = st := rfl
@[simp] theorem c02_feed_cons (st : List c02_Tok × Str) (t : c02_Tok) (ts : List c02_Tok) :
    c02_feed st (t :: ts) = c02_feed (c02_feedStep st t) ts := rfl

@[simp] theorem c02_flush_nil : c02_flush [] = [] := by simp [c02_flush]

/-! ### projections -/

/-- all attribute (key, value) pairs of the tags, in document order -/
def c02_tokAttrs : List c02_Tok → List (Str × Str)
  | [] => []
  | .start _ as :: r => as ++ c02_tokAttrs r
  | .selfClose _ as :: r => as ++ c02_tokAttrs r
  | _ :: r => c02_tokAttrs r

/-- the text between the tags, concatenated -/
def c02_tokText : List c02_Tok → Str
  | [] => []
  | .text s :: r => s ++ c02_tokText r
  | _ :: r => c02_tokText r

/-- the tags only (text removed) -/
def c02_tokMarkup : List c02_Tok → List c02_Tok
  | [] => []
  | .text _ :: r => c02_tokMarkup r
  | t :: r => t :: c02_tokMarkup r

theorem c02_tokAttrs_append (a b : List c02_Tok) : c02_tokAttrs (a ++ b) = c02_tokAttrs a ++ c02_tokAttrs b := by
  induction a with
  | nil => simp [c02_tokAttrs]
  | cons t ts ih => cases t <;> simp [c02_tokAttrs, ih]

theorem c02_tokText_append (a b : List c02_Tok) : c02_tokText (a ++ b) = c02_tokText a ++ c02_tokText b := by
  induction a with
  | nil => simp [c02_tokText]
  | cons t ts ih => cases t <;> simp [c02_tokText, ih]

theorem c02_tokMarkup_append (a b : List c02_Tok) : c02_tokMarkup (a ++ b) = c02_tokMarkup a ++ c02_tokMarkup b := by
  induction a with
  | nil => simp [c02_tokMarkup]
  | cons t ts ih => cases t <;> simp [c02_tokMarkup, ih]

theorem c02_tokAttrs_flush (acc : Str) : c02_tokAttrs (c02_flush acc) = [] := by
  unfold c02_flush; split <;> simp [c02_tokAttrs]
theorem c02_tokText_flush (acc : Str) : c02_tokText (c02_flush acc) = acc := by
  unfold c02_flush; split
  · rename_i h; simp [c02_tokText, List.isEmpty_iff.mp h]
  · simp [c02_tokText]
theorem c02_tokMarkup_flush (acc : Str) : c02_tokMarkup (c02_flush acc) = [] := by
  unfold c02_flush; split <;> simp [c02_tokMarkup]
theorem c02_balRun_flush (st : Option (List Str)) (acc : Str) : c02_balRun st (c02_flush acc) = st := by
  unfold c02_flush; split
  · simp
  · cases st <;> simp [c02_balStep]

/-- coalescing, as an invariant of the fold: what was emitted plus the pending text has the same
    attributes / text / markup / balance state as the tokens fed so far -/
theorem c02_feed_inv (ts : List c02_Tok) (toks : List c02_Tok) (acc : Str) :
    c02_tokAttrs (c02_feed (toks, acc) ts).1 = c02_tokAttrs toks ++ c02_tokAttrs ts ∧
    c02_tokText (c02_feed (toks, acc) ts).1 ++ (c02_feed (toks, acc) ts).2
      = c02_tokText toks ++ acc ++ c02_tokText ts ∧
    c02_tokMarkup (c02_feed (toks, acc) ts).1 = c02_tokMarkup toks ++ c02_tokMarkup ts ∧
    ∀ st, c02_balRun st (c02_feed (toks, acc) ts).1 = c02_balRun (c02_balRun st toks) ts := by
  induction ts generalizing toks acc with
  | nil => simp [c02_tokAttrs, c02_tokText, c02_tokMarkup]
  | cons t ts ih =>
    cases t with
    | text s =>
      have := ih toks (acc ++ s)
      refine ⟨?_, ?_, ?_, ?_⟩
      · simpa [c02_feedStep, c02_tokAttrs] using this.1
      · simpa [c02_feedStep, c02_tokText, List.append_assoc] using this.2.1
      · simpa [c02_feedStep, c02_tokMarkup] using this.2.2.1
      · intro st
        have h := this.2.2.2 st
        simp only [c02_feed_cons, c02_feedStep, c02_balRun_cons]
        rw [h]
        cases hst : c02_balRun st toks <;> simp [c02_balStep]
    | start n as =>
      have := ih (toks ++ c02_flush acc ++ [.start n as]) []
      refine ⟨?_, ?_, ?_, ?_⟩
      · simpa [c02_feedStep, c02_tokAttrs, c02_tokAttrs_append, c02_tokAttrs_flush] using this.1
      · simpa [c02_feedStep, c02_tokText, c02_tokText_append, c02_tokText_flush, List.append_assoc] using this.2.1
      · simpa [c02_feedStep, c02_tokMarkup, c02_tokMarkup_append, c02_tokMarkup_flush] using this.2.2.1
      · intro st
        have h := this.2.2.2 st
        simp only [c02_feed_cons, c02_feedStep, c02_balRun_cons]
        rw [h, c02_balRun_append, c02_balRun_append, c02_balRun_flush]
        rfl
    | «end» n =>
      have := ih (toks ++ c02_flush acc ++ [.end n]) []
      refine ⟨?_, ?_, ?_, ?_⟩
      · simpa [c02_feedStep, c02_tokAttrs, c02_tokAttrs_append, c02_tokAttrs_flush] using this.1
      · simpa [c02_feedStep, c02_tokText, c02_tokText_append, c02_tokText_flush, List.append_assoc] using this.2.1
      · simpa [c02_feedStep, c02_tokMarkup, c02_tokMarkup_append, c02_tokMarkup_flush] using this.2.2.1
      · intro st
        have h := this.2.2.2 st
        simp only [c02_feed_cons, c02_feedStep, c02_balRun_cons]
        rw [h, c02_balRun_append, c02_balRun_append, c02_balRun_flush]
        rfl
    | selfClose n as =>
      have := ih (toks ++ c02_flush acc ++ [.selfClose n as]) []
      refine ⟨?_, ?_, ?_, ?_⟩
      · simpa [c02_feedStep, c02_tokAttrs, c02_tokAttrs_append, c02_tokAttrs_flush] using this.1
      · simpa [c02_feedStep, c02_tokText, c02_tokText_append, c02_tokText_flush, List.append_assoc] using this.2.1
      · simpa [c02_feedStep, c02_tokMarkup, c02_tokMarkup_append, c02_tokMarkup_flush] using this.2.2.1
      · intro st
        have h := this.2.2.2 st
        simp only [c02_feed_cons, c02_feedStep, c02_balRun_cons]
        rw [h, c02_balRun_append, c02_balRun_append, c02_balRun_flush]
        rfl

theorem c02_tokAttrs_coalesce (ts : List c02_Tok) : c02_tokAttrs (c02_coalesce ts) = c02_tokAttrs ts := by
  have := (c02_feed_inv ts [] []).1
  simp [c02_coalesce, c02_tokAttrs_append, c02_tokAttrs_flush, this, c02_tokAttrs]

theorem c02_tokText_coalesce (ts : List c02_Tok) : c02_tokText (c02_coalesce ts) = c02_tokText ts := by
  have := (c02_feed_inv ts [] []).2.1
  simp [c02_coalesce, c02_tokText_append, c02_tokText_flush, this, c02_tokText]

theorem c02_tokMarkup_coalesce (ts : List c02_Tok) : c02_tokMarkup (c02_coalesce ts) = c02_tokMarkup ts := by
  have := (c02_feed_inv ts [] []).2.2.1
  simp [c02_coalesce, c02_tokMarkup_append, c02_tokMarkup_flush, this, c02_tokMarkup]

theorem c02_balanced_coalesce (ts : List c02_Tok) : c02_balanced (c02_coalesce ts) = c02_balanced ts := by
  have := (c02_feed_inv ts [] []).2.2.2 (some [])
  simp [c02_balanced, c02_coalesce, c02_balRun_append, c02_balRun_flush, this]

/-! ### projections of the tokens of a forest -/

mutual
/-- attribute pairs of a node, document (pre-)order -/
def c02_attrsOfN : Node → List (Str × Str)
  | .text _ => []
  | .forceWrite => []
  | .elem t cs => t.attrs ++ c02_attrsOfL cs
def c02_attrsOfL : List Node → List (Str × Str)
  | [] => []
  | c :: cs => c02_attrsOfN c ++ c02_attrsOfL cs
end

mutual
theorem c02_tokAttrs_tokensN (n : Node) : c02_tokAttrs (c02_tokensN n) = c02_attrsOfN n := by
  match n with
  | .text s => simp [c02_tokAttrs, c02_attrsOfN]
  | .forceWrite => simp [c02_tokAttrs, c02_attrsOfN]
  | .elem t cs =>
    rw [c02_tokensN_elem]
    by_cases h : isVoid t cs = true
    · have hc : cs = [] := by
        simp only [isVoid, Bool.and_eq_true, List.isEmpty_iff] at h
        exact h.1
      subst hc
      simp [h, c02_tokAttrs, c02_attrsOfN, c02_attrsOfL]
    · simp only [h, if_false, Bool.false_eq_true]
      simp [c02_tokAttrs, c02_tokAttrs_append, c02_attrsOfN, c02_tokAttrs_tokens cs]
theorem c02_tokAttrs_tokens (ns : List Node) : c02_tokAttrs (c02_tokens ns) = c02_attrsOfL ns := by
  match ns with
  | [] => simp [c02_tokAttrs, c02_attrsOfL]
  | c :: cs =>
    simp [c02_tokAttrs_append, c02_attrsOfL, c02_tokAttrs_tokensN c, c02_tokAttrs_tokens cs]
end

mutual
theorem c02_tokText_tokensN (n : Node) : c02_tokText (c02_tokensN n) = textOf n := by
  match n with
  | .text s => simp [c02_tokText]
  | .forceWrite => simp [c02_tokText]
  | .elem t cs =>
    rw [c02_tokensN_elem]
    by_cases h : isVoid t cs = true
    · have hc : cs = [] := by
        simp only [isVoid, Bool.and_eq_true, List.isEmpty_iff] at h
        exact h.1
      subst hc
      simp [h, c02_tokText]
    · simp only [h, if_false, Bool.false_eq_true]
      simp [c02_tokText, c02_tokText_append, c02_tokText_tokens cs]
theorem c02_tokText_tokens (ns : List Node) : c02_tokText (c02_tokens ns) = textOfL ns := by
  match ns with
  | [] => simp [c02_tokText]
  | c :: cs =>
    simp [c02_tokText_append, c02_tokText_tokensN c, c02_tokText_tokens cs]
end

/-! ### when coalescing changes nothing -/

/-- no empty text token and no two adjacent text tokens -/
def c02_textSeparated : List c02_Tok → Bool
  | [] => true
  | .text s :: r =>
    !s.isEmpty && (match r with | .text _ :: _ => false | _ => true) && c02_textSeparated r
  | _ :: r => c02_textSeparated r

/-- does the list start with a text token? -/
def c02_startsText : List c02_Tok → Bool
  | .text _ :: _ => true
  | _ => false

theorem c02_feed_separated (ts : List c02_Tok) (toks : List c02_Tok) (acc : Str)
    (hs : c02_textSeparated ts = true) (ha : acc = [] ∨ c02_startsText ts = false) :
    (c02_feed (toks, acc) ts).1 ++ c02_flush (c02_feed (toks, acc) ts).2 = toks ++ c02_flush acc ++ ts := by
  induction ts generalizing toks acc with
  | nil => simp
  | cons t r ih =>
    cases t with
    | text s =>
      have hacc : acc = [] := by
        rcases ha with h | h
        · exact h
        · simp [c02_startsText] at h
      subst hacc
      simp only [c02_textSeparated, Bool.and_eq_true, Bool.not_eq_true'] at hs
      obtain ⟨⟨hse, hr⟩, hsep⟩ := hs
      have hr' : c02_startsText r = false := by
        cases r with
        | nil => rfl
        | cons x xs => cases x <;> simp_all [c02_startsText]
      have := ih toks s hsep (Or.inr hr')
      simp only [c02_feed_cons, c02_feedStep, List.nil_append]
      rw [this]
      simp [c02_flush, hse]
    | start n as =>
      simp only [c02_textSeparated] at hs
      have := ih (toks ++ c02_flush acc ++ [.start n as]) [] hs (Or.inl rfl)
      simp only [c02_feed_cons, c02_feedStep]
      rw [this]; simp
    | «end» n =>
      simp only [c02_textSeparated] at hs
      have := ih (toks ++ c02_flush acc ++ [.end n]) [] hs (Or.inl rfl)
      simp only [c02_feed_cons, c02_feedStep]
      rw [this]; simp
    | selfClose n as =>
      simp only [c02_textSeparated] at hs
      have := ih (toks ++ c02_flush acc ++ [.selfClose n as]) [] hs (Or.inl rfl)
      simp only [c02_feed_cons, c02_feedStep]
      rw [this]; simp

/-- a token list without empty or adjacent text tokens is left alone by coalescing -/
theorem c02_coalesce_separated (ts : List c02_Tok) (hs : c02_textSeparated ts = true) :
    c02_coalesce ts = ts := by
  have := c02_feed_separated ts [] [] hs (Or.inl rfl)
  simpa [c02_coalesce] using this

end Mammoth
