/-
  C17, round 7: the image converter on an embedded part for every converter of the family (present or
  missing part), and the reader's "unlikely to display" warning.
-/
import Proofs.C17_Images
namespace Mammoth

/-- the `img` prescribed for an embedded image whose part has content `bytes`, per converter:
    `data_uri` gives alt? ++ `src` = data URI; a custom converter its attributes after alt?, plus
    `data-len` = number of bytes it read from the stream when it opens the image -/
def c17x_imgFor (conv : ImageConv) (i : ImageProps) (bytes : Bytes) : Node :=
  match conv with
  | .dataUri =>
    el S!"img" (c17_altAttr i ++ [(S!"src", S!"data:" ++ pyOpt i.contentType ++ S!";base64," ++ b64encode bytes)]) []
  | .fixed attrs true => el S!"img" (c17_altAttr i ++ attrs ++ [(S!"data-len", natToStr bytes.length)]) []
  | .fixed attrs false => el S!"img" (c17_altAttr i ++ attrs) []

/-- does the converter open the image? -/
def c17x_opens : ImageConv → Bool
  | .dataUri => true
  | .fixed _ o => o

theorem c17x_convert_embedded (cfg : Cfg) (i : ImageProps) (name : Str) (st : ConvState)
    (hs : i.src = .embedded name) :
    (convertImage cfg i).run st =
      match lookupLast name cfg.archive with
      | some bytes => .ok ([c17x_imgFor cfg.imageConv i bytes], c17_logged st i)
      | none => if c17x_opens cfg.imageConv then .error (.key name)
                else .ok ([c17x_imgFor cfg.imageConv i []], c17_logged st i) := by
  rw [c17_convertImage_run]
  unfold c17_finish
  cases hc : cfg.imageConv with
  | dataUri =>
    cases h : lookupLast name cfg.archive with
    | some bytes => simp only [hs, openImage, h]; rfl
    | none => simp only [hs, openImage, h]; rfl
  | fixed attrs opens =>
    cases opens with
    | true =>
      cases h : lookupLast name cfg.archive with
      | some bytes => simp only [hs, openImage, h]; rfl
      | none => simp only [hs, openImage, h]; rfl
    | false =>
      cases h : lookupLast name cfg.archive with
      | some bytes => rfl
      | none => rfl

/-- the warning `_read_image` attaches -/
def c17x_typeWarning (ct : Option Str) : List Str :=
  match ct with
  | some c => if Generated.browserImageTypes.contains c then []
              else [S!"Image of type " ++ c ++ S!" is unlikely to display in web browsers"]
  | none => [S!"Image of type None is unlikely to display in web browsers"]

theorem c17x_readImage_messages (env : REnv) (path : Str) (src : ImageSrc) (alt : Option Str) :
    (readImage env path src alt).messages = c17x_typeWarning (findContentType env.contentTypes path) ∧
    (readImage env path src alt).extra = [] := by
  unfold readImage c17x_typeWarning
  cases findContentType env.contentTypes path with
  | none => exact ⟨rfl, rfl⟩
  | some c =>
    cases hb : Generated.browserImageTypes.contains c with
    | true => simp only [hb]; exact ⟨rfl, rfl⟩
    | false => simp only [hb]; exact ⟨rfl, rfl⟩

end Mammoth
