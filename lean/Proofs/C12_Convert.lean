/-
  C12 (conversion) — `embed_style_map` at the level of the `Package` the converter reads, and what the
  part readers (`_find_part_paths`, relationships, content types) see of it.

  `c12_embedPkg p s` mirrors `write_style_map` (mammoth/docx/style_map.py) line by line:
    * `word/_rels/document.xml.rels` is parsed and `_add_or_update_element(…, "Relationship", "Id", {Id, Type, Target})`
      is applied to the tree (`xAddOrUpdate`, the first element in `iter()` order with that tag and `Id`
      gets the three attributes, else a new child is appended to the root);
    * the same for `[Content_Types].xml` with `Override` / `PartName`;
    * `update_zip`: the names are the old names and the three keys, each once; the content of a name is the
      new content if it is one of the three, else the old content (last entry of that name).
  `none`: one of the two parts is missing (KeyError) or is not XML (parse error) — nothing is written.
-/
import Proofs.C12_ConvReadAll
import Proofs.C12_ConvVisit
import Proofs.C12_Utf8
import Proofs.C12_Archive
import Proofs.C16_Api
namespace Mammoth

/-- `files[name] if name in files else source.read(name)` -/
def c12_partContent (parts files : List (Str × Part)) (n : Str) : Part :=
  match lookupLast n files with
  | some x => x
  | none => (lookupLast n parts).getD (.bytes [])

/-- `update_zip(fileobj, files)` on the parts of a package -/
def c12_updateParts (parts files : List (Str × Part)) : List (Str × Part) :=
  (unique (parts.map (·.1) ++ files.map (·.1))).map fun n => (n, c12_partContent parts files n)

/-- the dictionary handed to `update_zip` -/
def c12_newParts (s : Str) (r' t' : XmlNode) : List (Str × Part) :=
  [(styleMapPath, .bytes (utf8Encode s)), (relsPartPath, .xml r'), (contentTypesPartPath, .xml t')]

/-- `embed_style_map(fileobj, s)` on the package the converter reads -/
def c12_embedPkg (p : Package) (s : Str) : Option Package :=
  match lookupLast relsPartPath p.parts with
  | some (.xml r) =>
    match xAddOrUpdate r c12_relName S!"Id" styleMapRelAttrs with
    | none => none
    | some r' =>
      match lookupLast contentTypesPartPath p.parts with
      | some (.xml t) =>
        match xAddOrUpdate t c12_overrideName S!"PartName" styleMapOverrideAttrs with
        | none => none
        | some t' => some ⟨c12_updateParts p.parts (c12_newParts s r' t')⟩
      | _ => none
  | _ => none

theorem c12_updateParts_get (parts files : List (Str × Part)) (n : Str) :
    lookupLast n (c12_updateParts parts files) =
      match lookupLast n files with
      | some b => some b
      | none => lookupLast n parts := by
  unfold c12_updateParts
  rw [c12_lookupLast_map (c12_partContent parts files)]
  unfold c12_partContent
  cases hf : lookupLast n files with
  | some b =>
    have : n ∈ files.map (·.1) := (c12_lookupLast_isSome n files).mp (by simp [hf])
    simp [c12_mem_unique, this]
  | none =>
    have hnf : n ∉ files.map (·.1) := (c12_lookupLast_none n files).mp hf
    cases ha : lookupLast n parts with
    | some b =>
      have : n ∈ parts.map (·.1) := (c12_lookupLast_isSome n parts).mp (by simp [ha])
      simp [c12_mem_unique, this]
    | none =>
      have : n ∉ parts.map (·.1) := (c12_lookupLast_none n parts).mp ha
      simp only [c12_mem_unique, List.mem_append, this, false_or]
      rw [if_neg hnf]

/-- the package after the embed, given the two updated trees -/
def c12_embedded (p : Package) (s : Str) (r' t' : XmlNode) : Package :=
  ⟨c12_updateParts p.parts (c12_newParts s r' t')⟩

theorem c12_embedPkg_inv (p : Package) (s : Str) (p' : Package) (h : c12_embedPkg p s = some p') :
    ∃ r r' t t', lookupLast relsPartPath p.parts = some (.xml r) ∧
      xAddOrUpdate r c12_relName S!"Id" styleMapRelAttrs = some r' ∧
      lookupLast contentTypesPartPath p.parts = some (.xml t) ∧
      xAddOrUpdate t c12_overrideName S!"PartName" styleMapOverrideAttrs = some t' ∧
      p' = c12_embedded p s r' t' := by
  unfold c12_embedPkg at h
  split at h
  · rename_i r hr
    split at h
    · cases h
    · rename_i r' hr'
      split at h
      · rename_i t ht
        split at h
        · cases h
        · rename_i t' ht'
          cases h
          exact ⟨r, r', t, t', hr, hr', ht, ht', rfl⟩
      · cases h
  · cases h

/-! ### the parts of the new package -/

section parts
variable (p : Package) (s : Str) (r' t' : XmlNode)

theorem c12_embedded_sm :
    lookupLast styleMapPath (c12_embedded p s r' t').parts = some (.bytes (utf8Encode s)) := by
  unfold c12_embedded
  rw [c12_updateParts_get]
  rfl

theorem c12_embedded_rels :
    lookupLast relsPartPath (c12_embedded p s r' t').parts = some (.xml r') := by
  unfold c12_embedded
  rw [c12_updateParts_get]
  rfl

theorem c12_embedded_ct :
    lookupLast contentTypesPartPath (c12_embedded p s r' t').parts = some (.xml t') := by
  unfold c12_embedded
  rw [c12_updateParts_get]
  rfl

theorem c12_embedded_other (n : Str) (h1 : n ≠ styleMapPath) (h2 : n ≠ relsPartPath)
    (h3 : n ≠ contentTypesPartPath) :
    lookupLast n (c12_embedded p s r' t').parts = lookupLast n p.parts := by
  unfold c12_embedded
  rw [c12_updateParts_get]
  simp only [c12_newParts, lookupLast, h1, h2, h3, if_false]

end parts

/-! ### `_read_entry`, existence -/

theorem c12_readXml_xml (p : Package) (name : Str) (root : XmlNode)
    (h : lookupLast name p.parts = some (.xml root)) :
    p.readXml name = c12_rootOf (collapseAlt root) := by
  unfold Package.readXml c12_rootOf
  rw [h]
  dsimp only
  cases collapseAlt root with
  | nil => rfl
  | cons x xs => cases x <;> rfl

theorem c12_readXml_congr (p q : Package) (name : Str)
    (h : lookupLast name q.parts = lookupLast name p.parts) : q.readXml name = p.readXml name := by
  unfold Package.readXml
  rw [h]

theorem c12_exists_congr (p q : Package) (name : Str)
    (h : lookupLast name q.parts = lookupLast name p.parts) : q.exists name = p.exists name := by
  unfold Package.exists
  rw [h]

theorem c12_readRels_congr (p q : Package) (name : Str)
    (h : lookupLast name q.parts = lookupLast name p.parts) : q.readRels name = p.readRels name := by
  unfold Package.readRels
  rw [c12_exists_congr p q name h, c12_readXml_congr p q name h]

/-! ### relationship part names end in `.rels` -/

theorem c12_relsPathFor_suffix (name : Str) : ∃ pre, relsPathFor name = pre ++ S!".rels" := by
  unfold relsPathFor
  generalize splitPath name = db
  obtain ⟨d, b⟩ := db
  simp only
  have hx : (b ++ S!".rels").isEmpty = false := by simp
  by_cases hd : d.isEmpty = true
  · by_cases hs : startsWith (b ++ S!".rels") ['/'] = true
    · exact ⟨b, by simp [joinPath, hd, hx, hs, joinWith, startsWith]⟩
    · exact ⟨S!"_rels/" ++ b, by simp [joinPath, hd, hx, hs, joinWith, startsWith]⟩
  · by_cases hs : startsWith (b ++ S!".rels") ['/'] = true
    · exact ⟨b, by
        by_cases hds : startsWith d ['/'] = true <;>
          simp [joinPath, hd, hx, hs, hds, joinWith, startsWith]⟩
    · exact ⟨d ++ S!"/_rels/" ++ b, by
        by_cases hds : startsWith d ['/'] = true <;>
          simp [joinPath, hd, hx, hs, hds, joinWith, startsWith]⟩

theorem c12_relsPathFor_ne (name : Str) :
    relsPathFor name ≠ styleMapPath ∧ relsPathFor name ≠ contentTypesPartPath := by
  obtain ⟨pre, h⟩ := c12_relsPathFor_suffix name
  rw [h]
  constructor <;>
  · intro e
    have := congrArg List.getLast? e
    simp [styleMapPath, contentTypesPartPath] at this

/-! ### what `_read_entry` returns before and after `_add_or_update_element` -/

theorem c12_addOrUpdate_root (nm idAttr : Str) (attrs : Attrs) (r r' : XmlNode)
    (hac : (nm == c12_acName) = false) (hfb : (nm == S!"mc:Fallback") = false)
    (h : xAddOrUpdate r nm idAttr attrs = some r') :
    (∃ e, c12_rootOf (collapseAlt r) = .error e ∧ c12_rootOf (collapseAlt r') = .error e) ∨
    (∃ as cs as' cs', c12_rootOf (collapseAlt r) = .ok (as, cs) ∧
      c12_rootOf (collapseAlt r') = .ok (as', cs') ∧
      ((∃ old, xFindFirst (xMatches nm idAttr attrs) r = some old ∧
          c12_D1L (xMatches nm idAttr attrs) old attrs cs cs') ∨
       cs' = cs ∨ cs' = cs ++ [.elem nm attrs []])) := by
  cases r with
  | text s => simp [xAddOrUpdate] at h
  | elem n as cs0 =>
    unfold xAddOrUpdate at h
    simp only at h
    cases hsf : xSetFirst (xMatches nm idAttr attrs) attrs (.elem n as cs0) with
    | some r1 =>
      rw [hsf] at h
      cases h
      obtain ⟨old, hf, hd⟩ := c12_xSetFirst_D1 _ _ _ _ hsf
      have hp : ∀ m, xMatches nm idAttr attrs m old = true → (m == c12_acName) = false := by
        intro m hm
        simp only [xMatches, Bool.and_eq_true] at hm
        have := eq_of_beq hm.1
        subst this
        exact hac
      rcases c12_rootOf_D1L (c12_collapseAlt_D1 hp hd) with ⟨e, e1, e2⟩ | ⟨a1, c1, a2, c2, e1, e2, hl⟩
      · exact Or.inl ⟨e, e1, e2⟩
      · exact Or.inr ⟨a1, c1, a2, c2, e1, e2, Or.inl ⟨old, hf, hl⟩⟩
    | none =>
      rw [hsf] at h
      cases h
      by_cases hn : (n == c12_acName) = true
      · rw [c12_collapseAlt_elem_ac n as _ hn, c12_collapseAlt_elem_ac n as _ hn,
          c12_fallback_append cs0 nm attrs [] hfb]
        cases hroot : c12_rootOf (collapseAltFallback cs0) with
        | error e => exact Or.inl ⟨e, rfl, rfl⟩
        | ok x => exact Or.inr ⟨x.1, x.2, x.1, x.2, rfl, rfl, Or.inr (Or.inl rfl)⟩
      · have hn' : (n == c12_acName) = false := by simpa using hn
        rw [c12_collapseAlt_elem_ne n as _ hn', c12_collapseAlt_elem_ne n as _ hn',
          c12_collapseAltL_append, c12_collapseAltL_cons, c12_collapseAlt_elem_ne nm attrs [] hac]
        refine Or.inr ⟨as, _, as, _, rfl, rfl, Or.inr (Or.inr ?_)⟩
        simp [collapseAltL]

/-! ### the relationships part and the content-types part, before and after -/

def c12_relsMatch : Str → Attrs → Bool := xMatches c12_relName S!"Id" styleMapRelAttrs
def c12_ctMatch : Str → Attrs → Bool := xMatches c12_overrideName S!"PartName" styleMapOverrideAttrs

theorem c12_exists_of_lookup (p : Package) (name : Str) (x : Part) (h : lookupLast name p.parts = some x) :
    p.exists name = true := by
  unfold Package.exists; rw [h]; rfl

theorem c12_readRels_rels (p : Package) (s : Str) (r r' t' : XmlNode)
    (hr : lookupLast relsPartPath p.parts = some (.xml r))
    (hr' : xAddOrUpdate r c12_relName S!"Id" styleMapRelAttrs = some r')
    (hok : ∀ old, xFindFirst c12_relsMatch r = some old → c12_relAttrsOk old = true) :
    (∃ e, p.readRels relsPartPath = .error e ∧ (c12_embedded p s r' t').readRels relsPartPath = .error e) ∨
    (∃ rels rels', p.readRels relsPartPath = .ok rels ∧
      (c12_embedded p s r' t').readRels relsPartPath = .ok rels' ∧ c12_RelsSim rels rels') := by
  have hr2 := c12_embedded_rels p s r' t'
  unfold Package.readRels
  rw [c12_exists_of_lookup p _ _ hr, c12_exists_of_lookup _ _ _ hr2, c12_readXml_xml p _ _ hr,
    c12_readXml_xml _ _ _ hr2]
  simp only [if_true, bind, Except.bind]
  rcases c12_addOrUpdate_root c12_relName S!"Id" styleMapRelAttrs r r' (by decide +kernel) (by decide +kernel) hr'
    with ⟨e, e1, e2⟩ | ⟨a1, c1, a2, c2, e1, e2, hl⟩
  · rw [e1, e2]; exact Or.inl ⟨e, rfl, rfl⟩
  · rw [e1, e2]
    simp only
    rcases hl with ⟨old, hf, hd⟩ | hl | hl
    · exact c12_readRelsXml_D1L hd (hok old hf)
    · rw [hl]
      cases hx : readRelsXml c1 with
      | error e => exact Or.inl ⟨e, rfl, rfl⟩
      | ok rels => exact Or.inr ⟨rels, rels, rfl, rfl, c12_RelsSim_refl rels⟩
    · rw [hl]; exact c12_readRelsXml_snoc c1

/-- `[Content_Types].xml` as `_part_with_body_reader` reads it -/
def c12_readCt (p : Package) : Except Err ContentTypes :=
  if p.exists S!"[Content_Types].xml" then do
    let (_, cs) ← p.readXml S!"[Content_Types].xml"; readContentTypesXml cs
  else pure {}

theorem c12_readCt_ct (p : Package) (s : Str) (t t' r' : XmlNode)
    (ht : lookupLast contentTypesPartPath p.parts = some (.xml t))
    (ht' : xAddOrUpdate t c12_overrideName S!"PartName" styleMapOverrideAttrs = some t')
    (hok : ∀ old, xFindFirst c12_ctMatch t = some old → c12_overrideAttrsOk old = true) :
    (∃ e, c12_readCt p = .error e ∧ c12_readCt (c12_embedded p s r' t') = .error e) ∨
    (∃ ct ct', c12_readCt p = .ok ct ∧ c12_readCt (c12_embedded p s r' t') = .ok ct' ∧ c12_CtSim ct ct') := by
  have ht2 := c12_embedded_ct p s r' t'
  unfold c12_readCt
  rw [show S!"[Content_Types].xml" = contentTypesPartPath from rfl,
    c12_exists_of_lookup p _ _ ht, c12_exists_of_lookup _ _ _ ht2, c12_readXml_xml p _ _ ht,
    c12_readXml_xml _ _ _ ht2]
  simp only [if_true, bind, Except.bind]
  rcases c12_addOrUpdate_root c12_overrideName S!"PartName" styleMapOverrideAttrs t t' (by decide +kernel)
    (by decide +kernel) ht' with ⟨e, e1, e2⟩ | ⟨a1, c1, a2, c2, e1, e2, hl⟩
  · rw [e1, e2]; exact Or.inl ⟨e, rfl, rfl⟩
  · rw [e1, e2]
    simp only
    rcases hl with ⟨old, hf, hd⟩ | hl | hl
    · exact c12_readContentTypesXml_D1L hd (hok old hf)
    · rw [hl]
      cases hx : readContentTypesXml c1 with
      | error e => exact Or.inl ⟨e, rfl, rfl⟩
      | ok ct => exact Or.inr ⟨ct, ct, rfl, rfl, c12_CtSim_refl ct⟩
    · rw [hl]; exact c12_readContentTypesXml_snoc c1

/-! ### the new package, seen through `exists` / `_read_entry` / `readRels` -/

section embedded
variable (p : Package) (s : Str) (r r' t t' : XmlNode)
variable (hr : lookupLast relsPartPath p.parts = some (.xml r))
variable (ht : lookupLast contentTypesPartPath p.parts = some (.xml t))

include hr ht in
theorem c12_embedded_exists (n : Str) (h : p.exists styleMapPath = true ∨ n ≠ styleMapPath) :
    (c12_embedded p s r' t').exists n = p.exists n := by
  by_cases h1 : n = styleMapPath
  · subst h1
    rw [c12_exists_of_lookup _ _ _ (c12_embedded_sm p s r' t')]
    rcases h with h | h
    · exact h.symm
    · exact absurd rfl h
  · by_cases h2 : n = relsPartPath
    · subst h2
      rw [c12_exists_of_lookup _ _ _ (c12_embedded_rels p s r' t'), c12_exists_of_lookup _ _ _ hr]
    · by_cases h3 : n = contentTypesPartPath
      · subst h3
        rw [c12_exists_of_lookup _ _ _ (c12_embedded_ct p s r' t'), c12_exists_of_lookup _ _ _ ht]
      · exact c12_exists_congr _ _ _ (c12_embedded_other p s r' t' n h1 h2 h3)

/-- the path is none of the three entries the embed writes -/
def c12_roleOk (q : Str) : Bool := q != styleMapPath && q != relsPartPath && q != contentTypesPartPath

theorem c12_roleOk_ne {q : Str} (h : c12_roleOk q = true) :
    q ≠ styleMapPath ∧ q ≠ relsPartPath ∧ q ≠ contentTypesPartPath := by
  simp only [c12_roleOk, Bool.and_eq_true, bne_iff_ne] at h
  exact ⟨h.1.1, h.1.2, h.2⟩

theorem c12_embedded_lookup_role (q : Str) (h : c12_roleOk q = true) :
    lookupLast q (c12_embedded p s r' t').parts = lookupLast q p.parts := by
  obtain ⟨h1, h2, h3⟩ := c12_roleOk_ne h
  exact c12_embedded_other p s r' t' q h1 h2 h3

/-- the paths a relationship lookup chooses among -/
def c12_candidates (rels : Rels) (relType base : Str) : List Str :=
  (rels.targetsByType relType).map fun t => lstripChar '/' (joinPath [base, t])

/-- `mammoth/style-map` already exists, or is not one of the candidates -/
def c12_smFree (p : Package) (cands : List Str) : Bool :=
  p.exists styleMapPath || !cands.contains styleMapPath

theorem c12_findPartPath_eq (q : Package) (rels : Rels) (ty base fb : Str) :
    findPartPath q rels ty base fb =
      match (c12_candidates rels ty base).filter q.exists with
      | [] => fb
      | x :: _ => x := rfl

include hr ht in
theorem c12_findPartPath_embedded (rels rels' : Rels) (ty base fb : Str)
    (hty : rels'.targetsByType ty = rels.targetsByType ty)
    (hfree : c12_smFree p (c12_candidates rels ty base) = true) :
    findPartPath (c12_embedded p s r' t') rels' ty base fb = findPartPath p rels ty base fb := by
  rw [c12_findPartPath_eq, c12_findPartPath_eq]
  have hc : c12_candidates rels' ty base = c12_candidates rels ty base := by
    unfold c12_candidates; rw [hty]
  rw [hc]
  have : (c12_candidates rels ty base).filter (c12_embedded p s r' t').exists
      = (c12_candidates rels ty base).filter p.exists := by
    apply List.filter_congr
    intro x hx
    apply c12_embedded_exists p s r r' t t' hr ht
    simp only [c12_smFree, Bool.or_eq_true, Bool.not_eq_true'] at hfree
    rcases hfree with h | h
    · exact Or.inl h
    · refine Or.inr (fun e => ?_)
      subst e
      have : (c12_candidates rels ty base).contains styleMapPath = true := by simpa using hx
      rw [this] at h; cases h
  rw [this]

include hr in
/-- the relationships of any part, before and after: the same error, or relationships that answer alike -/
theorem c12_readRels_any (hr' : xAddOrUpdate r c12_relName S!"Id" styleMapRelAttrs = some r')
    (hok : ∀ old, xFindFirst c12_relsMatch r = some old → c12_relAttrsOk old = true) (path : Str) :
    (∃ e, p.readRels (relsPathFor path) = .error e ∧
      (c12_embedded p s r' t').readRels (relsPathFor path) = .error e) ∨
    (∃ rels rels', p.readRels (relsPathFor path) = .ok rels ∧
      (c12_embedded p s r' t').readRels (relsPathFor path) = .ok rels' ∧
      (∀ ty, ty ∈ c12_lookedUp → rels'.targetsByType ty = rels.targetsByType ty) ∧
      (∀ rid, c12_ridOk (relsPathFor path == relsPartPath) rid = true →
        rels'.targetById rid = rels.targetById rid)) := by
  by_cases hp : relsPathFor path = relsPartPath
  · rw [hp]
    rcases c12_readRels_rels p s r r' t' hr hr' hok with ⟨e, e1, e2⟩ | ⟨rels, rels', e1, e2, hsim⟩
    · exact Or.inl ⟨e, e1, e2⟩
    · refine Or.inr ⟨rels, rels', e1, e2, hsim.byType, fun rid hrid => hsim.byId rid ?_⟩
      simp only [c12_ridOk, beq_self_eq_true, Bool.true_and, Bool.not_eq_true', beq_eq_false_iff_ne] at hrid
      exact hrid
  · have hne := c12_relsPathFor_ne path
    have := c12_readRels_congr p (c12_embedded p s r' t') (relsPathFor path)
      (c12_embedded_other p s r' t' _ hne.1 hp hne.2)
    rw [this]
    cases hx : p.readRels (relsPathFor path) with
    | error e => exact Or.inl ⟨e, rfl, rfl⟩
    | ok rels => exact Or.inr ⟨rels, rels, rfl, rfl, fun _ _ => rfl, fun _ _ => rfl⟩

end embedded

end Mammoth
