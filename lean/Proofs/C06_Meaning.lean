/-
  C06_Meaning — what the denoted matcher matches, and what the attribute dictionary of an element is.
-/
import Proofs.C06_Syntax
namespace Mammoth

/-! ### matchers -/

theorem c06_startsWith_iff (a p : Str) : startsWith a p = true ↔ ∃ t, a = p ++ t := by
  induction p generalizing a with
  | nil => simp [startsWith]
  | cons c p ih =>
    cases a with
    | nil => simp [startsWith]
    | cons d a =>
      simp only [startsWith, Bool.and_eq_true, beq_iff_eq, ih, List.cons_append, List.cons.injEq]
      constructor
      · rintro ⟨h, t, ht⟩; exact ⟨t, h, ht⟩
      · rintro ⟨t, h, ht⟩; exact ⟨h, t, ht⟩

/-- what a style-id condition asks of an element -/
def c06_idSpec : Option Str → Option Str → Prop
  | none, _ => True
  | some v, e => e = some v

/-- what a style-name condition asks of an element: equality, or being a prefix, after `upper` -/
def c06_nameSpec (upper : Str → Str) : Option StrMatch → Option Str → Prop
  | none, _ => True
  | some _, none => False
  | some (.equalTo v), some n => upper v = upper n
  | some (.startsWith v), some n => ∃ t, upper n = upper v ++ t

/-- what a list condition `:ordered-list(n)` asks of a paragraph -/
def c06_numSpec : Option c06_Level → Option NumLevel → Prop
  | none, _ => True
  | some l, e => e = some ⟨natToStr (l.n - 1), l.ordered⟩

theorem c06_optEqOrNone_iff (m e : Option Str) : optEqOrNone m e = true ↔ c06_idSpec m e := by
  cases m <;> simp [optEqOrNone, c06_idSpec]

theorem c06_nameMatches_iff (upper : Str → Str) (m : Option StrMatch) (e : Option Str) :
    nameMatches upper m e = true ↔ c06_nameSpec upper m e := by
  cases m with
  | none => simp [nameMatches, c06_nameSpec]
  | some sm =>
    cases e with
    | none => simp [nameMatches, c06_nameSpec]
    | some n =>
      cases sm with
      | equalTo v => simp [nameMatches, c06_nameSpec, StrMatch.matches]
      | startsWith v => simp [nameMatches, c06_nameSpec, StrMatch.matches, c06_startsWith_iff]

/-- what the written matcher asks of an element (complete description) -/
def c06_matchSpec (upper : Str → Str) : c06_Matcher → Target → Prop
  | .paragraph sid sn num, .paragraph p =>
      c06_idSpec sid p.styleId ∧ c06_nameSpec upper sn p.styleName ∧ c06_numSpec num p.numbering
  | .run sid sn, .run esid esn => c06_idSpec sid esid ∧ c06_nameSpec upper sn esn
  | .table sid sn, .table esid esn => c06_idSpec sid esid ∧ c06_nameSpec upper sn esn
  | .bold, .bold => True
  | .italic, .italic => True
  | .underline, .underline => True
  | .strikethrough, .strikethrough => True
  | .allCaps, .allCaps => True
  | .smallCaps, .smallCaps => True
  | .commentReference, .commentReference => True
  | .highlight c, .highlight ec => ∀ v, c = some v → v = ec
  | .brk ty, .brk ety => ety = ty.str
  | _, _ => False

theorem c06_matches_paragraph (upper : Str → Str) (sid : Option Str) (sn : Option StrMatch)
    (num : Option c06_Level) (p : ParaProps) :
    matcherMatches upper (c06_denoteMatcher (.paragraph sid sn num)) (.paragraph p) = true ↔
      c06_idSpec sid p.styleId ∧ c06_nameSpec upper sn p.styleName ∧ c06_numSpec num p.numbering := by
  simp only [c06_denoteMatcher, matcherMatches, Bool.and_eq_true, c06_optEqOrNone_iff, c06_nameMatches_iff,
    and_assoc]
  cases num <;> simp [c06_numSpec, c06_denoteLevel]

theorem c06_matches_spec (upper : Str → Str) (m : c06_Matcher) (t : Target) :
    matcherMatches upper (c06_denoteMatcher m) t = true ↔ c06_matchSpec upper m t := by
  cases m with
  | paragraph sid sn num =>
    cases t with
    | paragraph p => exact c06_matches_paragraph upper sid sn num p
    | _ => simp [c06_denoteMatcher, matcherMatches, c06_matchSpec]
  | run sid sn =>
    cases t with
    | run a b => simp [c06_denoteMatcher, matcherMatches, c06_matchSpec, c06_optEqOrNone_iff, c06_nameMatches_iff]
    | _ => simp [c06_denoteMatcher, matcherMatches, c06_matchSpec]
  | table sid sn =>
    cases t with
    | table a b => simp [c06_denoteMatcher, matcherMatches, c06_matchSpec, c06_optEqOrNone_iff, c06_nameMatches_iff]
    | _ => simp [c06_denoteMatcher, matcherMatches, c06_matchSpec]
  | highlight c =>
    cases t with
    | highlight ec => cases c <;> simp [c06_denoteMatcher, matcherMatches, c06_matchSpec]
    | _ => simp [c06_denoteMatcher, matcherMatches, c06_matchSpec]
  | brk ty =>
    cases t with
    | brk ety =>
      simp only [c06_denoteMatcher, matcherMatches, c06_matchSpec, beq_iff_eq]
      exact eq_comm
    | _ => simp [c06_denoteMatcher, matcherMatches, c06_matchSpec]
  | _ => cases t <;> simp [c06_denoteMatcher, matcherMatches, c06_matchSpec]

/-! ### attribute dictionaries -/

theorem c06_get_insert {β} (k k' : Str) (v : β) (d : Dict β) :
    Dict.get? k (Dict.insert k' v d) = if k = k' then some v else Dict.get? k d := by
  induction d with
  | nil => simp [Dict.insert, Dict.get?]
  | cons kv rest ih =>
    obtain ⟨k2, v2⟩ := kv
    simp only [Dict.insert]
    by_cases h1 : k' = k2
    · subst h1; simp only [if_true, Dict.get?]
      by_cases h : k = k' <;> simp [h]
    · rw [if_neg h1]
      by_cases h2 : strLt k' k2 = true
      · rw [if_pos h2]; simp [Dict.get?]
      · rw [if_neg h2]; simp only [Dict.get?, ih]
        by_cases h : k = k2
        · subst h
          have : ¬ k = k' := fun h' => h1 h'.symm
          simp [this]
        · simp [h]

/-- the value of attribute `k` after the listed classes/attributes, as a left-to-right scan:
    an attribute sets its key (last wins); a class appends to a non-empty `class` value with a
    blank, and sets it otherwise -/
def c06_attrSpec (k : Str) : Option Str → List AttrOrClass → Option Str
  | cur, [] => cur
  | cur, .attr n v :: r => c06_attrSpec k (if k = n then some v else cur) r
  | cur, .cls c :: r =>
    c06_attrSpec k
      (if k = S!"class" then
        (match cur with
         | some old => if old.isEmpty then some c else some (old ++ [' '] ++ c)
         | none => some c)
       else cur) r

theorem c06_buildAttrs_get (k : Str) (evs : List AttrOrClass) : ∀ (d : Dict Str),
    Dict.get? k (buildAttrs d evs) = c06_attrSpec k (Dict.get? k d) evs := by
  induction evs with
  | nil => intro d; simp [buildAttrs, c06_attrSpec]
  | cons e evs ih =>
    intro d
    cases e with
    | attr n v => simp only [buildAttrs, c06_attrSpec, ih, c06_get_insert]
    | cls c =>
      simp only [buildAttrs, c06_attrSpec]
      by_cases hk : k = S!"class"
      · subst hk
        cases hcur : Dict.get? S!"class" d with
        | none => simp [ih, c06_get_insert]
        | some old => by_cases ho : old.isEmpty = true <;> simp [ho, ih, c06_get_insert]
      · cases hcur : Dict.get? S!"class" d with
        | none => simp [ih, c06_get_insert, hk]
        | some old => by_cases ho : old.isEmpty = true <;> simp [ho, ih, c06_get_insert, hk]

/-- blank-separated concatenation -/
def c06_spaced : List Str → Str
  | [] => []
  | c :: cs => [' '] ++ c ++ c06_spaced cs

theorem c06_joinWith_cons (x : Str) (cs : List Str) : joinWith [' '] (x :: cs) = x ++ c06_spaced cs := by
  induction cs generalizing x with
  | nil => simp [joinWith, c06_spaced]
  | cons c cs ih => simp [joinWith, c06_spaced, ih]

theorem c06_classes_acc (cs : List Str) : ∀ (acc : Str), acc ≠ [] →
    buildAttrs [(S!"class", acc)] (cs.map .cls) = [(S!"class", acc ++ c06_spaced cs)] := by
  induction cs with
  | nil => intro acc _; simp [buildAttrs, c06_spaced]
  | cons c cs ih =>
    intro acc h
    have he : acc.isEmpty = false := by cases acc <;> simp_all
    have := ih (acc ++ [' '] ++ c) (by simp)
    simp only [List.append_assoc, List.cons_append, List.nil_append] at this
    simp [buildAttrs, Dict.get?, Dict.insert, he, this, c06_spaced]

end Mammoth
