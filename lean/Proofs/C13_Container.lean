/-
  C13 helpers, part 4: an ignored element among the children of an element that is being read.
-/
import Proofs.C13_Reader
import Proofs.C13_Step
namespace Mammoth

/-- the names `readElem` looks up directly among the children of the element it reads -/
def c13_lookedUp : List Str :=
  [S!"w:rPr", S!"w:pPr", S!"w:tblPr", S!"w:trPr", S!"w:tcPr", S!"mc:Fallback", S!"w:sdtPr", S!"w:sdtContent",
   S!"wp:docPr", S!"a:graphic"]

theorem c13_findChild_insert (X xn : Str) (xas : Attrs) (xcs : List XmlNode) (hne : (xn == X) = false)
    (a b : List XmlNode) : findChild X (a ++ .elem xn xas xcs :: b) = findChild X (a ++ b) := by
  induction a with
  | nil => simp [findChild, hne]
  | cons c cs ih =>
    cases c with
    | text s => simpa [findChild] using ih
    | elem n as cs' =>
      simp only [List.cons_append, findChild, ih]

theorem c13_findChildOrNull_insert (X xn : Str) (xas : Attrs) (xcs : List XmlNode) (hne : (xn == X) = false)
    (a b : List XmlNode) : findChildOrNull X (a ++ .elem xn xas xcs :: b) = findChildOrNull X (a ++ b) := by
  simp only [findChildOrNull, c13_findChild_insert X xn xas xcs hne]

theorem c13_findChildren_insert (X xn : Str) (xas : Attrs) (xcs : List XmlNode) (hne : (xn == X) = false)
    (a b : List XmlNode) : findChildren X (a ++ .elem xn xas xcs :: b) = findChildren X (a ++ b) := by
  induction a with
  | nil => simp [findChildren, hne]
  | cons c cs ih =>
    cases c with
    | text s => simpa [findChildren] using ih
    | elem n as cs' =>
      simp only [List.cons_append, findChildren, ih]

theorem c13_notLooked (xn : Str) (h : c13_lookedUp.contains xn = false) :
    (xn == S!"w:rPr") = false ∧ (xn == S!"w:pPr") = false ∧ (xn == S!"w:tblPr") = false ∧
    (xn == S!"w:trPr") = false ∧ (xn == S!"w:tcPr") = false ∧ (xn == S!"mc:Fallback") = false ∧
    (xn == S!"w:sdtPr") = false ∧ (xn == S!"w:sdtContent") = false ∧ (xn == S!"wp:docPr") = false ∧
    (xn == S!"a:graphic") = false := by
  simp only [c13_lookedUp, List.contains_cons, List.contains_nil, Bool.or_false, Bool.or_eq_false_iff] at h
  simp only [beq_eq_false_iff_ne, ne_eq] at h ⊢
  obtain ⟨h1, h2, h3, h4, h5, h6, h7, h8, h9, h10⟩ := h
  refine ⟨?_, ?_, ?_, ?_, ?_, ?_, ?_, ?_, ?_, ?_⟩ <;> (intro e; simp_all)

theorem c13_readInline_insert (env : REnv) (xn : Str) (xas : Attrs) (xcs : List XmlNode)
    (hl : c13_lookedUp.contains xn = false) (a b : List XmlNode) :
    readInline env (a ++ .elem xn xas xcs :: b) = readInline env (a ++ b) := by
  obtain ⟨_, _, _, _, _, _, _, _, h9, h10⟩ := c13_notLooked xn hl
  unfold readInline
  simp only [c13_findChildOrNull_insert _ xn xas xcs h9, c13_findChildren_insert _ xn xas xcs h10]

/-- one more child that the dispatcher ignores, that no handler looks up by name, and that contains no
    text, does not change how its parent is read -/
theorem c13_container (env : REnv) (f : Nat) (st : RState) (nm : Str) (as : Attrs)
    (xn : Str) (xas : Attrs) (xcs : List XmlNode) (a b : List XmlNode)
    (hi : Generated.ignored.contains xn = true) (hl : c13_lookedUp.contains xn = false)
    (ht : innerTextL xcs = [])
    (hfld : handlerOf nm ≠ some S!"read_fld_char")
    (hdel : handlerOf nm = some S!"paragraph" →
      (findChild S!"w:del" (findChildOrNull S!"w:rPr" (findChildOrNull S!"w:pPr" (a ++ b)).2).2).isSome = false) :
    readElem env (f + 2) st (.elem nm as (a ++ .elem xn xas xcs :: b))
      = readElem env (f + 2) st (.elem nm as (a ++ b)) := by
  obtain ⟨h1, h2, h3, h4, h5, h6, h7, h8, h9, h10⟩ := c13_notLooked xn hl
  have hins : ∀ st' pre, readAllWith (readElem env (f + 1)) st' (pre ++ (a ++ .elem xn xas xcs :: b))
      = readAllWith (readElem env (f + 1)) st' (pre ++ (a ++ b)) := by
    intro st' pre
    rw [← List.append_assoc, ← List.append_assoc]
    exact c13_readAllWith_insert _ _ (fun s => c13_readElem_ignored env f s xn xas xcs hi) _ _ _
  have hins0 := fun st' => hins st' []
  simp only [List.nil_append] at hins0
  have htxt : innerTextL (a ++ .elem xn xas xcs :: b) = innerTextL (a ++ b) := by
    simp [c13_innerTextL_append, ht]
  rw [c13_readElem_step, c13_readElem_step]
  unfold c13_step
  cases hh : handlerOf nm with
  | none => rfl
  | some h =>
    simp only [c13_findChildOrNull_insert _ xn xas xcs h1, c13_findChildOrNull_insert _ xn xas xcs h2,
      c13_findChildOrNull_insert _ xn xas xcs h3, c13_findChildOrNull_insert _ xn xas xcs h4,
      c13_findChildOrNull_insert _ xn xas xcs h5, c13_findChildOrNull_insert _ xn xas xcs h6,
      c13_findChildOrNull_insert _ xn xas xcs h7, c13_findChildOrNull_insert _ xn xas xcs h8,
      c13_readInline_insert env xn xas xcs hl, htxt, hins, hins0]
    have hne : (h == S!"read_fld_char") = false := by
      cases hb : (h == S!"read_fld_char") with
      | false => rfl
      | true => exact absurd (by rw [hh, beq_iff_eq.mp hb]) hfld
    by_cases hp : (h == S!"paragraph") = true
    · have hd := hdel (by rw [hh, beq_iff_eq.mp hp])
      simp only [hne, hd, Bool.false_eq_true, ↓reduceIte]
    · simp only [hne, hp, Bool.false_eq_true, ↓reduceIte]
end Mammoth
