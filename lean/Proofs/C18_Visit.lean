/-
  C18 — the invariant (`c18_grows`) for `openImage`, `convertImage`, `visit`/`visitAll`/`visitRows`,
  `visitNote`, `visitComment`, `mapMConcat` and `visitDocument`.
-/
import Proofs.C18_Io
namespace Mammoth

theorem c18_grows_io (cfg : Cfg) (U : List Str) (op : IoOp) (ho : c18_opens cfg = true)
    (hop : c18_opOk cfg.base U op) :
    c18_grows cfg U (modify fun s => { s with ioTrace := s.ioTrace ++ [op] } : ConvM PUnit) := by
  intro st a st' h
  rw [StateT.run_modify] at h
  cases h
  refine ⟨⟨[op], rfl, ?_⟩, ⟨[], by simp, by simp⟩⟩
  intro op' h'
  rw [List.mem_singleton] at h'
  subst h'
  exact ⟨ho, hop⟩

theorem c18_grows_refc (cfg : Cfg) (U : List Str) (x : Str × Comment) (hx : x.2 ∈ cfg.comments) :
    c18_grows cfg U (modify fun s => { s with refComments := s.refComments ++ [x] } : ConvM PUnit) := by
  intro st a st' h
  rw [StateT.run_modify] at h
  cases h
  refine ⟨⟨[], by simp, by simp⟩, ⟨[x], rfl, ?_⟩⟩
  intro y hy
  rw [List.mem_singleton] at hy
  subst hy
  exact hx

theorem c18_grows_openImage (cfg : Cfg) (src : ImageSrc) (ho : c18_opens cfg = true) :
    c18_grows cfg (c18_srcLinked src) (openImage cfg src) := by
  unfold openImage
  split
  · split
    · exact c18_grows_pure _ _ _
    · exact c18_grows_throw _ _ _
  · rename_i uri
    split
    · rename_i habs
      refine c18_grows_bind (c18_grows_io _ _ _ ho ?_) ?_
      · exact ⟨uri, by simp [c18_srcLinked], Or.inl ⟨rfl, habs⟩⟩
      · intro _
        split <;> exact c18_grows_pure _ _ _
    · rename_i habs
      split
      · rename_i b hb
        refine c18_grows_bind (c18_grows_io _ _ _ ho ?_) ?_
        · exact ⟨uri, by simp [c18_srcLinked], Or.inr ⟨b, hb, rfl, by simpa using habs⟩⟩
        · intro _
          split <;> exact c18_grows_pure _ _ _
      · exact c18_grows_pure _ _ _

theorem c18_grows_imageCalls (cfg : Cfg) (U : List Str) (i : ImageProps) :
    c18_grows cfg U (modify fun s => { s with imageCalls := s.imageCalls ++ [i] } : ConvM PUnit) :=
  c18_grows_modify cfg U _ (fun _ => rfl) (fun _ => rfl)

theorem c18_grows_convertImage (cfg : Cfg) (i : ImageProps) :
    c18_grows cfg (c18_srcLinked i.src) (convertImage cfg i) := by
  unfold convertImage
  refine c18_grows_bind (c18_grows_imageCalls _ _ _) ?_
  intro _
  dsimp only
  split
  · rename_i hc
    have ho : c18_opens cfg = true := by simp [c18_opens, hc]
    refine c18_grows_bind (c18_grows_openImage cfg i.src ho) ?_
    intro r
    split
    · exact c18_grows_pure _ _ _
    · exact c18_grows_bind (c18_grows_warn _ _ _) (fun _ => c18_grows_pure _ _ _)
  · rename_i attrs opens hc
    split
    · rename_i hop
      have ho : c18_opens cfg = true := by simp [c18_opens, hc, hop]
      refine c18_grows_bind (c18_grows_openImage cfg i.src ho) ?_
      intro r
      split
      · exact c18_grows_pure _ _ _
      · exact c18_grows_bind (c18_grows_warn _ _ _) (fun _ => c18_grows_pure _ _ _)
    · exact c18_grows_pure _ _ _

theorem c18_lookupLast_mem {α β : Type} [DecidableEq α] (k : α) (l : List (α × β)) (v : β)
    (h : lookupLast k l = some v) : (k, v) ∈ l := by
  induction l with
  | nil => simp [lookupLast] at h
  | cons a as ih =>
    obtain ⟨k', w⟩ := a
    simp only [lookupLast] at h
    split at h
    · rename_i w' hw
      cases h
      exact List.mem_cons_of_mem _ (ih hw)
    · split at h
      · rename_i hk
        cases h
        subst hk
        exact List.mem_cons_self
      · cases h

theorem c18_lookup_comment {cs : List Comment} {id : Str} {c : Comment}
    (h : lookupLast id (cs.map fun c => (c.id, c)) = some c) : c ∈ cs := by
  have := c18_lookupLast_mem _ _ _ h
  obtain ⟨x, hx, e⟩ := List.mem_map.mp this
  cases e
  exact hx

theorem c18_sub_l {U V : List Str} : U ⊆ U ++ V := List.subset_append_left _ _
theorem c18_sub_r {U V : List Str} : V ⊆ U ++ V := List.subset_append_right _ _

mutual
theorem c18_grows_visit (cfg : Cfg) (hdr : Bool) (e : Elem) :
    c18_grows cfg (c18_linked e) (visit cfg hdr e) := by
  match e with
  | .paragraph p cs =>
    simp only [visit, c18_linked]
    refine c18_grows_bind (c18_grows_findPathWarn _ _ _ _ _ _ _) ?_
    intro path
    split
    · exact c18_grows_pure _ _ _
    · exact c18_grows_bind (c18_grows_visitAll cfg hdr cs) (fun _ => c18_grows_pure _ _ _)
  | .run r cs =>
    simp only [visit, c18_linked]
    refine c18_grows_bind (c18_grows_findPathWarn _ _ _ _ _ _ _) ?_
    intro sp
    split
    · exact c18_grows_pure _ _ _
    · exact c18_grows_bind (c18_grows_visitAll cfg hdr cs) (fun _ => c18_grows_pure _ _ _)
  | .text s => simp only [visit]; exact c18_grows_pure _ _ _
  | .hyperlink h cs =>
    simp only [visit, c18_linked]
    exact c18_grows_bind (c18_grows_visitAll cfg hdr cs) (fun _ => c18_grows_pure _ _ _)
  | .checkbox c => simp only [visit]; exact c18_grows_pure _ _ _
  | .table sid sname rows =>
    simp only [visit, c18_linked]
    split
    · exact c18_grows_pure _ _ _
    · refine c18_grows_bind (c18_grows_visitRows cfg true rows) ?_
      intro x
      exact c18_grows_pure _ _ _
  | .row _ cells =>
    simp only [visit, c18_linked]
    exact c18_grows_bind (c18_grows_visitAll cfg hdr cells) (fun _ => c18_grows_pure _ _ _)
  | .cell _ _ _ cs =>
    simp only [visit, c18_linked]
    exact c18_grows_bind (c18_grows_visitAll cfg hdr cs) (fun _ => c18_grows_pure _ _ _)
  | .brk ty =>
    simp only [visit]
    split
    · exact c18_grows_pure _ _ _
    · exact c18_grows_pure _ _ _
    · split <;> exact c18_grows_pure _ _ _
  | .tab => simp only [visit]; exact c18_grows_pure _ _ _
  | .image i => simp only [visit, c18_linked]; exact c18_grows_convertImage cfg i
  | .bookmark _ => simp only [visit]; exact c18_grows_pure _ _ _
  | .noteRef ty id =>
    simp only [visit]
    refine c18_grows_bind (c18_grows_modify _ _ _ (fun _ => rfl) (fun _ => rfl)) ?_
    intro _
    exact c18_grows_bind (c18_grows_get _ _) (fun _ => c18_grows_pure _ _ _)
  | .commentRef id =>
    simp only [visit]
    split
    · exact c18_grows_pure _ _ _
    · exact c18_grows_pure _ _ _
    · split
      · exact c18_grows_throw _ _ _
      · rename_i c hc
        refine c18_grows_bind (c18_grows_get _ _) ?_
        intro s
        refine c18_grows_bind (c18_grows_refc _ _ _ (c18_lookup_comment hc)) ?_
        intro _
        exact c18_grows_pure _ _ _
theorem c18_grows_visitAll (cfg : Cfg) (hdr : Bool) (es : List Elem) :
    c18_grows cfg (c18_linkedL es) (visitAll cfg hdr es) := by
  match es with
  | [] => simp only [visitAll]; exact c18_grows_pure _ _ _
  | e :: es =>
    simp only [visitAll, c18_linkedL]
    refine c18_grows_bind (c18_grows_mono c18_sub_l (c18_grows_visit cfg hdr e)) ?_
    intro a
    refine c18_grows_bind (c18_grows_mono c18_sub_r (c18_grows_visitAll cfg hdr es)) ?_
    intro b
    exact c18_grows_pure _ _ _
theorem c18_grows_visitRows (cfg : Cfg) (inHead : Bool) (es : List Elem) :
    c18_grows cfg (c18_linkedL es) (visitRows cfg inHead es) := by
  match es with
  | [] => simp only [visitRows]; exact c18_grows_pure _ _ _
  | r :: rs =>
    simp only [visitRows, c18_linkedL]
    split
    · refine c18_grows_bind (c18_grows_mono c18_sub_l (c18_grows_visit cfg true r)) ?_
      intro a
      refine c18_grows_bind (c18_grows_mono c18_sub_r (c18_grows_visitRows cfg true rs)) ?_
      intro b
      exact c18_grows_pure _ _ _
    · refine c18_grows_bind (c18_grows_mono c18_sub_l (c18_grows_visit cfg false r)) ?_
      intro a
      refine c18_grows_bind (c18_grows_mono c18_sub_r (c18_grows_visitRows cfg false rs)) ?_
      intro b
      exact c18_grows_pure _ _ _
end

end Mammoth
