/-
  C17 — a concrete package with three images:
    * a DrawingML `wp:inline` (alt from `descr`), part `media/image1.png`, typed by a `Default` for `png`;
    * a VML `v:imagedata` inside a TEXT BOX that precedes the inline image in the XML of the same paragraph
      (so it comes after it in reading order), part `media/image3.bin`, typed by an `Override`;
    * a DrawingML `wp:anchor` (blank `descr`, alt from `title`) inside a TABLE cell, absolute target
      `/word/media/image2.JPG`, typed by the built-in table through the lower-cased extension.
-/
import Proofs.C17_Package
namespace Mammoth

def c17_x (name : Str) (cs : List XmlNode) : XmlNode := .elem name [] cs

def c17_exGraphic (rid : Str) : XmlNode :=
  c17_x S!"a:graphic" [c17_x S!"a:graphicData" [c17_x S!"pic:pic" [c17_x S!"pic:blipFill" [
    .elem S!"a:blip" [(S!"r:embed", rid)] []]]]]

def c17_exInlineImg : XmlNode :=
  c17_x S!"w:r" [c17_x S!"w:drawing" [c17_x S!"wp:inline" [
    .elem S!"wp:docPr" [(S!"descr", S!"first"), (S!"title", S!"unused")] [], c17_exGraphic S!"rId1"]]]

def c17_exAnchorImg : XmlNode :=
  c17_x S!"w:r" [c17_x S!"w:drawing" [c17_x S!"wp:anchor" [
    .elem S!"wp:docPr" [(S!"descr", S!"  "), (S!"title", S!"second")] [], c17_exGraphic S!"rId2"]]]

def c17_exVml : XmlNode :=
  c17_x S!"w:r" [c17_x S!"w:pict" [c17_x S!"v:shape" [
    .elem S!"v:imagedata" [(S!"r:id", S!"rId3"), (S!"o:title", S!"third")] []]]]

/-- a text box whose only paragraph holds the VML image -/
def c17_exTextBox : XmlNode :=
  c17_x S!"w:r" [c17_x S!"w:pict" [c17_x S!"v:shape" [c17_x S!"v:textbox" [c17_x S!"w:txbxContent" [
    c17_x S!"w:p" [c17_exVml]]]]]]

def c17_exBody : List XmlNode :=
  [ c17_x S!"w:p" [c17_exTextBox, c17_x S!"w:r" [c17_x S!"w:t" [.text S!"see "]], c17_exInlineImg],
    c17_x S!"w:tbl" [c17_x S!"w:tr" [c17_x S!"w:tc" [c17_x S!"w:p" [c17_exAnchorImg]]]],
    c17_x S!"w:sectPr" [] ]

def c17_exRel (id ty target : Str) : XmlNode :=
  .elem S!"relationships:Relationship" [(S!"Id", id), (S!"Type", relTypePrefix ++ ty), (S!"Target", target)] []

def c17_exPng : Bytes := [137, 80, 78, 71]
def c17_exJpg : Bytes := [255, 216, 255]
def c17_exGif : Bytes := [71, 73, 70]

def c17_exPackage : Package :=
  { parts := [
      (S!"[Content_Types].xml", .xml (c17_x S!"content-types:Types" [
        .elem S!"content-types:Default" [(S!"Extension", S!"png"), (S!"ContentType", S!"image/png")] [],
        .elem S!"content-types:Override" [(S!"PartName", S!"/word/media/image3.bin"), (S!"ContentType", S!"image/gif")] []])),
      (S!"_rels/.rels", .xml (c17_x S!"relationships:Relationships" [
        c17_exRel S!"rId1" S!"officeDocument" S!"word/document.xml"])),
      (S!"word/_rels/document.xml.rels", .xml (c17_x S!"relationships:Relationships" [
        c17_exRel S!"rId1" S!"image" S!"media/image1.png",
        c17_exRel S!"rId2" S!"image" S!"/word/media/image2.JPG",
        c17_exRel S!"rId3" S!"image" S!"media/image3.bin"])),
      (S!"word/document.xml", .xml (c17_x S!"w:document" [c17_x S!"w:body" c17_exBody])),
      (S!"word/media/image1.png", .bytes c17_exPng),
      (S!"word/media/image2.JPG", .bytes c17_exJpg),
      (S!"word/media/image3.bin", .bytes c17_exGif) ] }

/-- options that do not need the built-in style map (keeps kernel evaluation cheap) -/
def c17_exOptions : Options := { includeDefault := false, styleMap := some S!"p.Heading1 => h1:fresh" }

/-- the environment the body reader runs in for this package -/
def c17_exEnv : REnv :=
  { contentTypes := { defaults := [(S!"png", S!"image/png")], overrides := [(S!"word/media/image3.bin", S!"image/gif")] },
    rels := [⟨S!"rId1", S!"media/image1.png", relTypePrefix ++ S!"image"⟩,
             ⟨S!"rId2", S!"/word/media/image2.JPG", relTypePrefix ++ S!"image"⟩,
             ⟨S!"rId3", S!"media/image3.bin", relTypePrefix ++ S!"image"⟩] }

/-- the computation succeeds and its result satisfies `p` -/
def c17_okAnd {α} (x : Except Err α) (p : α → Bool) : Bool :=
  match x with
  | .ok a => p a
  | .error _ => false

/-- the three images, in reading order -/
def c17_exImages : List ImageProps :=
  [ { altText := some S!"first", contentType := some S!"image/png", src := .embedded S!"word/media/image1.png" },
    { altText := some S!"third", contentType := some S!"image/gif", src := .embedded S!"word/media/image3.bin" },
    { altText := some S!"second", contentType := some S!"image/jpeg", src := .embedded S!"word/media/image2.JPG" } ]

end Mammoth
