/-
  C02 — the per-forest (decidable) form of the substitution hypotheses: a substitution that behaves
  well on the strings that actually occur in a forest can be replaced, without changing the
  substituted forest, by one that behaves well on all strings.
-/
import Proofs.C02_Subst
import Proofs.C02_Shape
namespace Mammoth

mutual
def c02_textsN : Node → List Str
  | .text s => [s]
  | .forceWrite => []
  | .elem t cs => t.separator.toList ++ c02_texts cs
/-- the strings of the text nodes and the separators of a forest -/
def c02_texts : List Node → List Str
  | [] => []
  | c :: cs => c02_textsN c ++ c02_texts cs
end

/-- On the strings of THIS forest: every text/separator stays empty or non-empty, and two values of
    the same attribute name that are different stay different (decidable for a concrete `σ`). -/
def c02_subOkOn (σ : c02_Sub) (ns : List Node) : Bool :=
  (c02_texts ns).all (fun s => (σ.text s).isEmpty == s.isEmpty) &&
  (c02_attrsOfL ns).all (fun p => (c02_attrsOfL ns).all fun q =>
    !(p.1 == q.1 && σ.attr p.1 p.2 == σ.attr q.1 q.2) || p.2 == q.2)

/-! ### congruence: only the strings of the forest matter -/

theorem c02_mapAttrs_congr (f g : Str → Str → Str) (d : Dict Str)
    (h : ∀ p ∈ d, f p.1 p.2 = g p.1 p.2) : c02_mapAttrs f d = c02_mapAttrs g d := by
  induction d with
  | nil => rfl
  | cons kv r ih =>
    obtain ⟨k, v⟩ := kv
    simp only [c02_mapAttrs]
    rw [h (k, v) (by simp), ih (fun p hp => h p (by simp [hp]))]

mutual
theorem c02_mapNode_congr (σ τ : c02_Sub) (n : Node)
    (ht : ∀ s ∈ c02_textsN n, σ.text s = τ.text s)
    (ha : ∀ p ∈ c02_attrsOfN n, σ.attr p.1 p.2 = τ.attr p.1 p.2) :
    c02_mapNode σ n = c02_mapNode τ n := by
  match n with
  | .text s => simp [ht s (by simp [c02_textsN])]
  | .forceWrite => simp
  | .elem t cs =>
    simp only [c02_textsN, List.mem_append] at ht
    simp only [c02_attrsOfN, List.mem_append] at ha
    have h1 : c02_mapTag σ t = c02_mapTag τ t := by
      unfold c02_mapTag
      rw [c02_mapAttrs_congr σ.attr τ.attr t.attrs (fun p hp => ha p (Or.inl hp))]
      cases hs : t.separator with
      | none => rfl
      | some s => simp [ht s (Or.inl (by simp [hs]))]
    rw [c02_mapNode_elem, c02_mapNode_elem, h1,
      c02_mapForest_congr σ τ cs (fun s hs => ht s (Or.inr hs)) (fun p hp => ha p (Or.inr hp))]
theorem c02_mapForest_congr (σ τ : c02_Sub) (ns : List Node)
    (ht : ∀ s ∈ c02_texts ns, σ.text s = τ.text s)
    (ha : ∀ p ∈ c02_attrsOfL ns, σ.attr p.1 p.2 = τ.attr p.1 p.2) :
    c02_mapForest σ ns = c02_mapForest τ ns := by
  match ns with
  | [] => simp
  | c :: cs =>
    simp only [c02_texts, List.mem_append] at ht
    simp only [c02_attrsOfL, List.mem_append] at ha
    rw [c02_mapForest_cons, c02_mapForest_cons,
      c02_mapNode_congr σ τ c (fun s hs => ht s (Or.inl hs)) (fun p hp => ha p (Or.inl hp)),
      c02_mapForest_congr σ τ cs (fun s hs => ht s (Or.inr hs)) (fun p hp => ha p (Or.inr hp))]
end

/-! ### extending a locally good substitution to a globally good one -/

/-- the longest substituted attribute value -/
def c02_maxLen (σ : c02_Sub) : List (Str × Str) → Nat
  | [] => 0
  | p :: r => max (σ.attr p.1 p.2).length (c02_maxLen σ r)

theorem c02_le_maxLen (σ : c02_Sub) (A : List (Str × Str)) (p : Str × Str) (h : p ∈ A) :
    (σ.attr p.1 p.2).length ≤ c02_maxLen σ A := by
  induction A with
  | nil => simp at h
  | cons q r ih =>
    simp only [List.mem_cons] at h
    simp only [c02_maxLen]
    rcases h with rfl | h
    · exact Nat.le_max_left _ _
    · exact Nat.le_trans (ih h) (Nat.le_max_right _ _)

/-- `σ` on the listed strings; elsewhere text is left alone and an attribute value gets a prefix
    longer than every substituted listed value (so that it cannot clash with one) -/
def c02_extend (σ : c02_Sub) (T : List Str) (A : List (Str × Str)) : c02_Sub :=
  ⟨fun s => if s ∈ T then σ.text s else s,
   fun k v => if (k, v) ∈ A then σ.attr k v else List.replicate (c02_maxLen σ A + 1) 'x' ++ v⟩

theorem c02_extend_textOk (σ : c02_Sub) (T : List Str) (A : List (Str × Str))
    (h : T.all (fun s => (σ.text s).isEmpty == s.isEmpty) = true) : (c02_extend σ T A).TextOk := by
  intro s
  simp only [c02_extend]
  split
  · rename_i hs
    have := List.all_eq_true.mp h s hs
    simpa using this
  · rfl

theorem c02_extend_attrInj (σ : c02_Sub) (T : List Str) (A : List (Str × Str))
    (h : A.all (fun p => A.all fun q =>
      !(p.1 == q.1 && σ.attr p.1 p.2 == σ.attr q.1 q.2) || p.2 == q.2) = true) :
    (c02_extend σ T A).AttrInj := by
  intro k a b hab
  simp only [c02_extend] at hab
  have hloc : ∀ p ∈ A, ∀ q ∈ A, p.1 = q.1 → σ.attr p.1 p.2 = σ.attr q.1 q.2 → p.2 = q.2 := by
    intro p hp q hq h1 h2
    have := List.all_eq_true.mp (List.all_eq_true.mp h p hp) q hq
    simp only [Bool.or_eq_true, Bool.not_eq_true', Bool.and_eq_false_iff, beq_iff_eq, beq_eq_false_iff_ne] at this
    rcases this with (h | h) | h
    · exact absurd h1 h
    · exact absurd h2 h
    · exact h
  by_cases ha : (k, a) ∈ A <;> by_cases hb : (k, b) ∈ A
  · simp only [ha, hb, if_true] at hab
    exact hloc (k, a) ha (k, b) hb rfl hab
  · simp only [ha, hb, if_true, if_false] at hab
    have h1 : (σ.attr k a).length ≤ c02_maxLen σ A := c02_le_maxLen σ A (k, a) ha
    have h2 := congrArg List.length hab
    simp only [List.length_append, List.length_replicate] at h2
    omega
  · simp only [ha, hb, if_true, if_false] at hab
    have h1 : (σ.attr k b).length ≤ c02_maxLen σ A := c02_le_maxLen σ A (k, b) hb
    have h2 := congrArg List.length hab
    simp only [List.length_append, List.length_replicate] at h2
    omega
  · simp only [ha, hb, if_false] at hab
    exact List.append_cancel_left hab

/-- EXTENSION.  A substitution that is good on the strings of `ns` acts on `ns` like a substitution
    that is good everywhere. -/
theorem c02_subOkOn_extend (σ : c02_Sub) (ns : List Node) (h : c02_subOkOn σ ns = true) :
    ∃ τ : c02_Sub, τ.TextOk ∧ τ.AttrInj ∧ c02_mapForest σ ns = c02_mapForest τ ns ∧
      (∀ s ∈ c02_texts ns, τ.text s = σ.text s) ∧ (∀ p ∈ c02_attrsOfL ns, τ.attr p.1 p.2 = σ.attr p.1 p.2) := by
  simp only [c02_subOkOn, Bool.and_eq_true] at h
  have e1 : ∀ s ∈ c02_texts ns, (c02_extend σ (c02_texts ns) (c02_attrsOfL ns)).text s = σ.text s := by
    intro s hs; simp [c02_extend, hs]
  have e2 : ∀ p ∈ c02_attrsOfL ns, (c02_extend σ (c02_texts ns) (c02_attrsOfL ns)).attr p.1 p.2 = σ.attr p.1 p.2 := by
    intro p hp; simp [c02_extend, hp]
  refine ⟨c02_extend σ (c02_texts ns) (c02_attrsOfL ns), c02_extend_textOk σ _ _ h.1,
    c02_extend_attrInj σ _ _ h.2, ?_, e1, e2⟩
  exact c02_mapForest_congr _ _ ns (fun s hs => (e1 s hs).symm) (fun p hp => (e2 p hp).symm)

/-- SHAPE INVARIANCE, per-forest hypotheses. -/
theorem c02_shape_subst_local (σ : c02_Sub) (ns : List Node) (h : c02_subOkOn σ ns = true) :
    c02_shape (collapse (stripEmpty (c02_mapForest σ ns))) = c02_shape (collapse (stripEmpty ns)) := by
  obtain ⟨τ, ht, ha, he, _, _⟩ := c02_subOkOn_extend σ ns h
  rw [he]; exact c02_shape_subst τ ht ha ns

end Mammoth
