/-
  C10, global part 5: when are the ids of the output pairwise distinct?
-/
import Proofs.C10_GlobalProps
import Proofs.C03_Lemmas
namespace Mammoth

theorem c10_flatMap_single {α β} (f : α → β) (l : List α) : l.flatMap (fun x => [f x]) = l.map f := by
  induction l with
  | nil => rfl
  | cons x xs ih => simp [List.flatMap_cons, ih]

/-! ### the id builders are injective on well-formed keys -/

theorem c10_split_dash : ∀ (a a' b b' : Str), '-' ∉ a → '-' ∉ a' → a ++ '-' :: b = a' ++ '-' :: b' →
    a = a' ∧ b = b'
  | [], [], b, b', _, _, h => by simpa using h
  | [], c :: t, b, b', _, ha', h => by
    simp only [List.nil_append, List.cons_append, List.cons.injEq] at h
    exact absurd (h.1 ▸ List.mem_cons_self ..) ha'
  | x :: xs, [], b, b', ha, _, h => by
    simp only [List.nil_append, List.cons_append, List.cons.injEq] at h
    exact absurd (h.1 ▸ List.mem_cons_self ..) ha
  | x :: xs, c :: t, b, b', ha, ha', h => by
    simp only [List.cons_append, List.cons.injEq] at h
    have := c10_split_dash xs t b b' (fun m => ha (List.mem_cons_of_mem _ m))
      (fun m => ha' (List.mem_cons_of_mem _ m)) h.2
    exact ⟨by rw [h.1, this.1], this.2⟩

/-- a well-formed key: the type contains no `-` (true of `footnote`, `endnote`, `comment`) and the id does
    not start with `ref-` (true of the decimal ids Word writes) -/
def c10_keyOK (k : Str × Str) : Bool := !k.1.contains '-' && !startsWith k.2 S!"ref-"

theorem c10_keyOK_iff (k : Str × Str) : c10_keyOK k = true ↔ '-' ∉ k.1 ∧ ¬ ∃ r, k.2 = S!"ref-" ++ r := by
  unfold c10_keyOK
  rw [Bool.and_eq_true, Bool.not_eq_true', Bool.not_eq_true', ← Bool.not_eq_true, ← Bool.not_eq_true,
    c03_startsWith_iff, List.contains_iff_mem]

theorem c10_refSfx_eq (k : Str × Str) : c10_refSfx k = k.1 ++ '-' :: (S!"ref-" ++ k.2) := by
  simp [c10_refSfx]
theorem c10_itemSfx_eq (k : Str × Str) : c10_itemSfx k = k.1 ++ '-' :: k.2 := by
  simp [c10_itemSfx]

theorem c10_refSfx_inj (k k' : Str × Str) (h : c10_keyOK k = true) (h' : c10_keyOK k' = true)
    (e : c10_refSfx k = c10_refSfx k') : k = k' := by
  rw [c10_keyOK_iff] at h h'
  rw [c10_refSfx_eq, c10_refSfx_eq] at e
  obtain ⟨e1, e2⟩ := c10_split_dash _ _ _ _ h.1 h'.1 e
  exact Prod.ext e1 (List.append_cancel_left e2)

theorem c10_itemSfx_inj (k k' : Str × Str) (h : c10_keyOK k = true) (h' : c10_keyOK k' = true)
    (e : c10_itemSfx k = c10_itemSfx k') : k = k' := by
  rw [c10_keyOK_iff] at h h'
  rw [c10_itemSfx_eq, c10_itemSfx_eq] at e
  obtain ⟨e1, e2⟩ := c10_split_dash _ _ _ _ h.1 h'.1 e
  exact Prod.ext e1 e2

theorem c10_ref_ne_item (k k' : Str × Str) (h : c10_keyOK k = true) (h' : c10_keyOK k' = true) :
    c10_refSfx k ≠ c10_itemSfx k' := by
  intro e
  rw [c10_keyOK_iff] at h h'
  rw [c10_refSfx_eq, c10_itemSfx_eq] at e
  obtain ⟨_, e2⟩ := c10_split_dash _ _ _ _ h.1 h'.1 e
  exact h'.2 ⟨k.2, e2.symm⟩

theorem c10_nodup_map_on {α β} (f : α → β) : ∀ (l : List α), l.Nodup →
    (∀ a ∈ l, ∀ b ∈ l, f a = f b → a = b) → (l.map f).Nodup
  | [], _, _ => List.nodup_nil
  | x :: xs, hl, hinj => by
    rw [List.nodup_cons] at hl
    rw [List.map_cons, List.nodup_cons]
    constructor
    · intro hm
      rw [List.mem_map] at hm
      obtain ⟨b, hb, e⟩ := hm
      have := hinj x (List.mem_cons_self ..) b (List.mem_cons_of_mem _ hb) e.symm
      exact hl.1 (this ▸ hb)
    · exact c10_nodup_map_on f xs hl.2
        (fun a ha b hb => hinj a (List.mem_cons_of_mem _ ha) b (List.mem_cons_of_mem _ hb))

/-! ### the items of a document -/

theorem c10_evItems_noteEvs (cfg : Cfg) (n : Note) : c10_evItems (c10_noteEvs cfg n) = [(n.ty, n.id)] := by
  unfold c10_noteEvs
  rw [List.cons_append]
  simp [c10_evItems, c10_evItems_append, c10_evItems_body _ (c10_evsL_body cfg n.body)]

theorem c10_evItems_commentEvs (cfg : Cfg) (c : Comment) :
    c10_evItems (c10_commentEvs cfg c) = [(c10_commentTy, c.id)] := by
  unfold c10_commentEvs
  rw [List.cons_append]
  simp [c10_evItems, c10_evItems_append, c10_evItems_body _ (c10_evsL_body cfg c.body)]

/-- the items of the output: one `li` per note reference of the body, one `dt` per comment reference of the
    body and the rendered notes -/
theorem c10_docItems (cfg : Cfg) (d : Document) (ok : c10_DocOK cfg d) :
    c10_evItems (c10_docEvents cfg d) =
      c10_evRefs (c10_E0 cfg d) ++
        (c10_evCRefs (c10_E0 cfg d ++ c10_E1 cfg d)).map (fun i => (c10_commentTy, i)) := by
  rw [c10_docEvents_eq, c10_evItems_append, c10_evItems_append]
  have e0 : c10_evItems (c10_E0 cfg d) = [] := c10_evItems_body _ (c10_evsL_body cfg d.children)
  have e1 : c10_evItems (c10_E1 cfg d) = c10_evRefs (c10_E0 cfg d) := by
    rw [c10_E1, c10_flatMap_hom c10_evItems rfl c10_evItems_append, ← ok.notes]
    simp [c10_evItems_noteEvs, c10_flatMap_single]
  have e2 : c10_evItems (c10_E2 cfg d) =
      (c10_evCRefs (c10_E0 cfg d ++ c10_E1 cfg d)).map (fun i => (c10_commentTy, i)) := by
    rw [c10_E2, c10_flatMap_hom c10_evItems rfl c10_evItems_append, ← c10_docComments_ids cfg d ok]
    simp [c10_evItems_commentEvs, List.map_map, c10_flatMap_single]
  rw [e0, e1, e2, List.nil_append]

/-- if all reference keys are distinct, so are the item keys, and every item key is a reference key -/
theorem c10_docItems_nodup (cfg : Cfg) (d : Document) (ok : c10_DocOK cfg d)
    (h : (c10_evKeys (c10_docEvents cfg d)).Nodup) :
    (c10_evItems (c10_docEvents cfg d)).Nodup ∧
    ∀ k ∈ c10_evItems (c10_docEvents cfg d), k ∈ c10_evKeys (c10_docEvents cfg d) := by
  have hp := c10_keys_perm (c10_docEvents cfg d)
  have hs : (c10_evItems (c10_docEvents cfg d)).Sublist
      (c10_evRefs (c10_docEvents cfg d) ++ (c10_evCRefs (c10_docEvents cfg d)).map (fun i => (c10_commentTy, i))) := by
    rw [c10_docItems cfg d ok]
    apply List.Sublist.append
    · rw [c10_docEvents_eq, List.append_assoc, c10_evRefs_append]
      exact List.sublist_append_left _ _
    · rw [c10_docEvents_eq, c10_evCRefs_append (c10_E0 cfg d ++ c10_E1 cfg d), List.map_append]
      exact List.sublist_append_left _ _
  exact ⟨hs.nodup (hp.nodup_iff.mp h), fun k hk => hp.mem_iff.mpr (hs.subset hk)⟩

/-! ### the theorem -/

/-- the hypothesis of uniqueness, on the events of the output:
    * no two references have the same key (each note is referenced once — counting references from inside
      rendered note and comment bodies — and each comment once; a note of type `comment` must not share its id
      with a referenced comment),
    * every key is well formed (`c10_keyOK`),
    * bookmark names are pairwise distinct,
    * no bookmark is named like a generated id (`type-ref-id` of a reference, `type-id` of an item). -/
def c10_uniqueHyp (evs : List c10_Ev) : Bool :=
  decide (c10_evKeys evs).Nodup && (c10_evKeys evs).all c10_keyOK &&
  decide (c10_evBookmarks evs).Nodup &&
  (c10_evBookmarks evs).all (fun b =>
    !((c10_evKeys evs).map c10_refSfx ++ (c10_evItems evs).map c10_itemSfx).contains b)

theorem c10_suffixes_nodup (cfg : Cfg) (d : Document) (ok : c10_DocOK cfg d)
    (h : c10_uniqueHyp (c10_docEvents cfg d) = true) : (c10_evSuffixes (c10_docEvents cfg d)).Nodup := by
  simp only [c10_uniqueHyp, Bool.and_eq_true, decide_eq_true_eq, List.all_eq_true, Bool.not_eq_true',
    ← Bool.not_eq_true, List.contains_iff_mem] at h
  obtain ⟨⟨⟨hk, hok⟩, hb⟩, hdis⟩ := h
  obtain ⟨hi, hsub⟩ := c10_docItems_nodup cfg d ok hk
  rw [(c10_suffixes_perm _).nodup_iff, List.nodup_append]
  refine ⟨hb, ?_, ?_⟩
  · rw [List.nodup_append]
    refine ⟨?_, ?_, ?_⟩
    · exact c10_nodup_map_on _ _ hk (fun a ha b hb' e => c10_refSfx_inj a b (hok a ha) (hok b hb') e)
    · exact c10_nodup_map_on _ _ hi
        (fun a ha b hb' e => c10_itemSfx_inj a b (hok a (hsub a ha)) (hok b (hsub b hb')) e)
    · intro x hx y hy e
      rw [List.mem_map] at hx hy
      obtain ⟨k, hk', rfl⟩ := hx
      obtain ⟨k', hk'', rfl⟩ := hy
      exact c10_ref_ne_item k k' (hok k hk') (hok k' (hsub k' hk'')) e
  · intro x hx y hy e
    subst e
    exact hdis x hx hy

theorem c10_ids_nodup (cfg : Cfg) (d : Document) (ok : c10_DocOK cfg d)
    (h : c10_uniqueHyp (c10_docEvents cfg d) = true) : (c10_evIds cfg (c10_docEvents cfg d)).Nodup := by
  rw [c10_evIds_eq, c10_nodup_map_prefix]
  exact c10_suffixes_nodup cfg d ok h

end Mammoth
