/-
  C16, reader half — an anomaly at ANY depth yields its warning.

  `c16_occurs p n`: some element at a position of the tree `n` that the reader reads (the content of runs,
  paragraphs, tables, rows, cells, read-through containers, text boxes, hyperlinks, the first
  `mc:Fallback` of alternate content, the `w:sdtContent` of a structured document tag — not the inside of
  `w:t`, of property elements, of unknown elements) satisfies `p`.

  If every element satisfying `p` reports `w` for itself (`c16_ownWarn`), then `w` is among the messages
  of the specification, in every field state — or is still waiting in the deferred buffer (content of a
  deleted-mark paragraph that no later paragraph has taken over yet).  Nothing deferred is ever lost by
  the traversal: it is reported by the next paragraph or stays in the buffer.
-/
import Proofs.C16_XmlClean
set_option linter.unusedSectionVars false
namespace Mammoth

/-- the warnings an element reports for itself, whatever surrounds it and whatever it contains
    (the style of a paragraph with a deleted mark is never looked at) -/
def c16_ownWarn (env : REnv) (name : Str) (as : Attrs) (cs : List XmlNode) : List Str :=
  match c16_kindOf name with
  | .unknown => c16_unknownWarn name
  | .sym => c16_symWarn as
  | .br => c16_breakWarn as
  | .inline => c16_blipsWarn env (c16_blips cs)
  | .imagedata => c16_imagedataWarn env as
  | .run => c16_styleWarn S!"Run" S!"w:rPr" S!"w:rStyle" env.styles.character cs
  | .paragraph =>
    if c16_delMark cs then [] else c16_styleWarn S!"Paragraph" S!"w:pPr" S!"w:pStyle" env.styles.paragraph cs
  | .table => c16_styleWarn S!"Table" S!"w:tblPr" S!"w:tblStyle" env.styles.table cs
  | _ => []

mutual
def c16_occurs (p : Str → Attrs → List XmlNode → Bool) : XmlNode → Bool
  | .text _ => false
  | .elem name as cs =>
    p name as cs ||
    (match c16_kindOf name with
     | .run => c16_occursL p cs
     | .paragraph => c16_occursL p cs
     | .table => c16_occursL p cs
     | .row => c16_occursL p cs
     | .cell => c16_occursL p cs
     | .through => c16_occursL p cs
     | .pict => c16_occursL p cs
     | .hyperlink => c16_occursL p cs
     | .alt => c16_occursIn p S!"mc:Fallback" cs
     | .sdt => !c16_isCheckboxSdt cs && c16_occursIn p S!"w:sdtContent" cs
     | _ => false)
def c16_occursL (p : Str → Attrs → List XmlNode → Bool) : List XmlNode → Bool
  | [] => false
  | c :: cs => c16_occurs p c || c16_occursL p cs
def c16_occursIn (p : Str → Attrs → List XmlNode → Bool) (child : Str) : List XmlNode → Bool
  | [] => false
  | .text _ :: rest => c16_occursIn p child rest
  | .elem n _ cs :: rest => if n = child then c16_occursL p cs else c16_occursIn p child rest
end

/-- `w` is reported in every field state -/
def c16_EffHas (w : Str) (e : c16_Eff) : Prop := ∀ fs, w ∈ (e fs).msgs
/-- `w` is waiting at some level of the buffer -/
def c16_BufHas (w : Str) (b : c16_Buf) : Prop := ∃ k, c16_EffHas w (b k)
/-- reported, or still waiting -/
def c16_Has (w : Str) (s : c16_Step) : Prop := c16_EffHas w s.eff ∨ c16_BufHas w s.buf

theorem c16_not_BufHas_noBuf (w : Str) : ¬ c16_BufHas w c16_noBuf := by
  rintro ⟨k, h⟩
  have := h {}
  simp [c16_noBuf, c16_skip] at this

theorem c16_EffHas_seq_left {w : Str} {a b : c16_Eff} (h : c16_EffHas w a) : c16_EffHas w (c16_seq a b) :=
  fun fs => by simp only [c16_seq]; exact List.mem_append_left _ (h fs)
theorem c16_EffHas_seq_right {w : Str} {a b : c16_Eff} (h : c16_EffHas w b) : c16_EffHas w (c16_seq a b) :=
  fun fs => by simp only [c16_seq]; exact List.mem_append_right _ (h _)
theorem c16_EffHas_box {w : Str} {pre : List Str} {e : c16_Eff} (h : w ∈ pre ∨ c16_EffHas w e) :
    c16_EffHas w (c16_box pre e) := fun fs => by
  simp only [c16_box]
  rcases h with h | h
  · exact List.mem_append_left _ h
  · exact List.mem_append_right _ (h fs)
theorem c16_EffHas_table {w : Str} {pre : List Str} {e : c16_Eff} (h : w ∈ pre ∨ c16_EffHas w e) :
    c16_EffHas w (c16_tableEff pre e) := fun fs => by
  simp only [c16_tableEff]
  rcases h with h | h
  · exact List.mem_append_left _ h
  · exact List.mem_append_right _ (List.mem_append_left _ (h fs))
theorem c16_EffHas_emit {w : Str} {ms : List Str} {e : Bool} (h : w ∈ ms) : c16_EffHas w (c16_emit ms e) :=
  fun _ => h

/-- a leaf of the traversal: it reports its own warnings and leaves the buffer alone -/
theorem c16_Has_leaf {w : Str} {ms : List Str} {e : Bool} {b : c16_Buf} (h : w ∈ ms ∨ c16_BufHas w b) :
    c16_Has w ⟨c16_emit ms e, b⟩ := by
  rcases h with h | h
  · exact Or.inl (c16_EffHas_emit h)
  · exact Or.inr h

/-- a container that reports `pre` and then what its content reports -/
theorem c16_Has_wrap {w : Str} {s : c16_Step} {f : c16_Eff → c16_Eff}
    (hf : ∀ e, c16_EffHas w e → c16_EffHas w (f e)) (h : c16_Has w s) : c16_Has w ⟨f s.eff, s.buf⟩ := by
  rcases h with h | h
  · exact Or.inl (hf _ h)
  · exact Or.inr h

section
variable (env : REnv) (p : Str → Attrs → List XmlNode → Bool) (w : Str)
  (hp : ∀ name as cs, p name as cs = true → w ∈ c16_ownWarn env name as cs)
include hp

mutual
theorem c16_occurs_has (n : XmlNode) (b : c16_Buf) (h : c16_occurs p n = true ∨ c16_BufHas w b) :
    c16_Has w (c16_spec env n b) := by
  match n with
  | .text s =>
    rw [c16_spec_text]
    rcases h with h | h
    · simp [c16_occurs] at h
    · exact Or.inr h
  | .elem name as cs =>
    -- what the element reports for itself
    have own : p name as cs = true → w ∈ c16_ownWarn env name as cs := hp name as cs
    have hsplit : p name as cs = true ∨
        ((match c16_kindOf name with
          | .run => c16_occursL p cs | .paragraph => c16_occursL p cs | .table => c16_occursL p cs
          | .row => c16_occursL p cs | .cell => c16_occursL p cs | .through => c16_occursL p cs
          | .pict => c16_occursL p cs | .hyperlink => c16_occursL p cs
          | .alt => c16_occursIn p S!"mc:Fallback" cs
          | .sdt => !c16_isCheckboxSdt cs && c16_occursIn p S!"w:sdtContent" cs
          | _ => false) = true ∨ c16_BufHas w b) := by
      rcases h with h | h
      · simp only [c16_occurs, Bool.or_eq_true] at h
        rcases h with h | h
        · exact Or.inl h
        · exact Or.inr (Or.inl h)
      · exact Or.inr (Or.inr h)
    clear h
    cases hk : c16_kindOf name with
    | unknown =>
      rw [c16_spec_unknown env as cs b hk]
      simp only [c16_ownWarn, hk] at own
      simp only [hk] at hsplit
      exact c16_Has_leaf (by rcases hsplit with h | h | h; exact Or.inl (own h); cases h; exact Or.inr h)
    | atom =>
      rw [c16_spec_atom env as cs b hk]
      simp only [c16_ownWarn, hk] at own
      simp only [hk] at hsplit
      exact c16_Has_leaf (by rcases hsplit with h | h | h; exact Or.inl (own h); cases h; exact Or.inr h)
    | sym =>
      rw [c16_spec_sym env as cs b hk]
      simp only [c16_ownWarn, hk] at own
      simp only [hk] at hsplit
      exact c16_Has_leaf (by rcases hsplit with h | h | h; exact Or.inl (own h); cases h; exact Or.inr h)
    | br =>
      rw [c16_spec_br env as cs b hk]
      simp only [c16_ownWarn, hk] at own
      simp only [hk] at hsplit
      exact c16_Has_leaf (by rcases hsplit with h | h | h; exact Or.inl (own h); cases h; exact Or.inr h)
    | bookmark =>
      rw [c16_spec_bookmark env as cs b hk]
      simp only [c16_ownWarn, hk] at own
      simp only [hk] at hsplit
      exact c16_Has_leaf (by rcases hsplit with h | h | h; exact Or.inl (own h); cases h; exact Or.inr h)
    | fldChar =>
      rw [c16_spec_fldChar env as cs b hk]
      simp only [c16_ownWarn, hk] at own
      simp only [hk] at hsplit
      rcases hsplit with h | h | h
      · cases own h
      · cases h
      · exact Or.inr h
    | instrText =>
      rw [c16_spec_instrText env as cs b hk]
      simp only [c16_ownWarn, hk] at own
      simp only [hk] at hsplit
      rcases hsplit with h | h | h
      · cases own h
      · cases h
      · exact Or.inr h
    | inline =>
      rw [c16_spec_inline env as cs b hk]
      simp only [c16_ownWarn, hk] at own
      simp only [hk] at hsplit
      exact c16_Has_leaf (by rcases hsplit with h | h | h; exact Or.inl (own h); cases h; exact Or.inr h)
    | imagedata =>
      rw [c16_spec_imagedata env as cs b hk]
      simp only [c16_ownWarn, hk] at own
      simp only [hk] at hsplit
      exact c16_Has_leaf (by rcases hsplit with h | h | h; exact Or.inl (own h); cases h; exact Or.inr h)
    | run =>
      rw [c16_spec_run env as cs b hk]
      simp only [c16_ownWarn, hk] at own
      simp only [hk] at hsplit
      rcases hsplit with h | h
      · exact Or.inl (c16_EffHas_box (Or.inl (own h)))
      · exact c16_Has_wrap (fun e he => c16_EffHas_box (Or.inr he)) (c16_occursL_has cs b h)
    | paragraph =>
      rw [c16_spec_paragraph env as cs b hk]
      simp only [c16_ownWarn, hk] at own
      simp only [hk] at hsplit
      -- what the content and the buffer give
      have hall : (c16_occursL p cs = true ∨ c16_BufHas w b) →
          c16_EffHas w (c16_seq (c16_bufHead b) (c16_specL env cs (c16_bufTail b)).eff) ∨
          c16_BufHas w (c16_specL env cs (c16_bufTail b)).buf := by
        intro h
        have hin : c16_EffHas w (c16_bufHead b) ∨ (c16_occursL p cs = true ∨ c16_BufHas w (c16_bufTail b)) := by
          rcases h with h | ⟨k, h⟩
          · exact Or.inr (Or.inl h)
          · cases k with
            | zero => exact Or.inl h
            | succ k => exact Or.inr (Or.inr ⟨k, h⟩)
        rcases hin with h0 | h1
        · exact Or.inl (c16_EffHas_seq_left h0)
        · rcases c16_occursL_has cs (c16_bufTail b) h1 with h2 | h2
          · exact Or.inl (c16_EffHas_seq_right h2)
          · exact Or.inr h2
      by_cases hd : c16_delMark cs = true
      · rw [if_pos hd] at own ⊢
        rcases hsplit with h | h
        · cases own h
        · rcases hall h with h2 | ⟨k, h2⟩
          · exact Or.inr ⟨0, h2⟩
          · exact Or.inr ⟨k + 1, h2⟩
      · rw [if_neg hd] at own ⊢
        rcases hsplit with h | h
        · exact Or.inl (c16_EffHas_box (Or.inl (own h)))
        · rcases hall h with h2 | h2
          · exact Or.inl (c16_EffHas_box (Or.inr h2))
          · exact Or.inr h2
    | table =>
      rw [c16_spec_table env as cs b hk]
      simp only [c16_ownWarn, hk] at own
      simp only [hk] at hsplit
      rcases hsplit with h | h
      · exact Or.inl (c16_EffHas_table (Or.inl (own h)))
      · exact c16_Has_wrap (fun e he => c16_EffHas_table (Or.inr he)) (c16_occursL_has cs b h)
    | row =>
      rw [c16_spec_row env as cs b hk]
      simp only [c16_ownWarn, hk] at own
      simp only [hk] at hsplit
      rcases hsplit with h | h
      · cases own h
      · exact c16_Has_wrap (f := c16_rowEff) (fun e he fs => he fs) (c16_occursL_has cs b h)
    | cell =>
      rw [c16_spec_cell env as cs b hk]
      simp only [c16_ownWarn, hk] at own
      simp only [hk] at hsplit
      rcases hsplit with h | h
      · cases own h
      · exact c16_Has_wrap (f := c16_cellEff) (fun e he fs => he fs) (c16_occursL_has cs b h)
    | through =>
      rw [c16_spec_through env as cs b hk]
      simp only [c16_ownWarn, hk] at own
      simp only [hk] at hsplit
      rcases hsplit with h | h
      · cases own h
      · exact c16_occursL_has cs b h
    | pict =>
      rw [c16_spec_pict env as cs b hk]
      simp only [c16_ownWarn, hk] at own
      simp only [hk] at hsplit
      rcases hsplit with h | h
      · cases own h
      · exact c16_Has_wrap (f := c16_pictEff) (fun e he fs => he fs) (c16_occursL_has cs b h)
    | hyperlink =>
      rw [c16_spec_hyperlink env as cs b hk]
      simp only [c16_ownWarn, hk] at own
      simp only [hk] at hsplit
      rcases hsplit with h | h
      · cases own h
      · split
        · exact c16_Has_wrap (fun e he => c16_EffHas_box (Or.inr he)) (c16_occursL_has cs b h)
        · exact c16_occursL_has cs b h
    | alt =>
      simp only [c16_spec, hk]
      simp only [c16_ownWarn, hk] at own
      simp only [hk] at hsplit
      rcases hsplit with h | h
      · cases own h
      · exact c16_occursIn_has S!"mc:Fallback" cs b h
    | sdt =>
      simp only [c16_spec, hk]
      simp only [c16_ownWarn, hk] at own
      simp only [hk, Bool.and_eq_true, Bool.not_eq_true'] at hsplit
      rcases hsplit with h | h
      · cases own h
      · split
        · rename_i hcb
          rcases h with h | h
          · rw [hcb] at h; cases h.1
          · exact Or.inr h
        · rcases h with h | h
          · exact c16_occursIn_has S!"w:sdtContent" cs b (Or.inl h.2)
          · exact c16_occursIn_has S!"w:sdtContent" cs b (Or.inr h)
theorem c16_occursL_has (ns : List XmlNode) (b : c16_Buf) (h : c16_occursL p ns = true ∨ c16_BufHas w b) :
    c16_Has w (c16_specL env ns b) := by
  match ns with
  | [] =>
    rw [c16_specL_nil]
    rcases h with h | h
    · simp [c16_occursL] at h
    · exact Or.inr h
  | n :: ns =>
    rw [c16_specL_cons]
    have h' : (c16_occurs p n = true ∨ c16_BufHas w b) ∨ c16_occursL p ns = true := by
      rcases h with h | h
      · simp only [c16_occursL, Bool.or_eq_true] at h
        rcases h with h | h
        · exact Or.inl (Or.inl h)
        · exact Or.inr h
      · exact Or.inl (Or.inr h)
    rcases h' with h1 | h2
    · rcases c16_occurs_has n b h1 with e1 | b1
      · exact Or.inl (c16_EffHas_seq_left e1)
      · rcases c16_occursL_has ns _ (Or.inr b1) with e2 | b2
        · exact Or.inl (c16_EffHas_seq_right e2)
        · exact Or.inr b2
    · rcases c16_occursL_has ns (c16_spec env n b).buf (Or.inl h2) with e2 | b2
      · exact Or.inl (c16_EffHas_seq_right e2)
      · exact Or.inr b2
theorem c16_occursIn_has (child : Str) (ns : List XmlNode) (b : c16_Buf)
    (h : c16_occursIn p child ns = true ∨ c16_BufHas w b) : c16_Has w (c16_specIn env child ns b) := by
  match ns with
  | [] =>
    simp only [c16_specIn]
    rcases h with h | h
    · simp [c16_occursIn] at h
    · exact Or.inr h
  | .text s :: rest =>
    simp only [c16_specIn]
    simp only [c16_occursIn] at h
    exact c16_occursIn_has child rest b h
  | .elem n as cs :: rest =>
    simp only [c16_specIn]
    simp only [c16_occursIn] at h
    split
    · rename_i hn
      rw [if_pos hn] at h
      exact c16_occursL_has cs b h
    · rename_i hn
      rw [if_neg hn] at h
      exact c16_occursIn_has child rest b h
end

/-- nodes held back by the reader in which the anomaly occurs: it is waiting in the buffer -/
theorem c16_pend_has (ds : List XmlNode) (h : c16_occursL p ds = true) : c16_BufHas w (c16_pend env ds) := by
  rcases c16_occursL_has env p w hp ds c16_noBuf (Or.inl h) with e | ⟨k, hk⟩
  · exact ⟨0, e⟩
  · exact ⟨k + 1, hk⟩

/-- AN ANOMALY AT ANY DEPTH IS REPORTED: if an element satisfying `p` occurs at a read position of `ns`
    (or of the nodes the reader was already holding back), the reader's messages contain `w` — or the
    anomaly sits in content of a deleted-mark paragraph still waiting for a paragraph -/
theorem c16_read_anomaly (f : Nat) (st : RState) (ns : List XmlNode) (r : ReadResult) (st' : RState)
    (h : readAll env f st ns = .ok (r, st'))
    (ho : c16_occursL p ns = true ∨ c16_occursL p st.deleted = true) :
    w ∈ r.messages ∨ c16_BufHas w (c16_pend env st'.deleted) := by
  have hr := c16_readAll_spec env f st ns r st' h
  have hin : c16_occursL p ns = true ∨ c16_BufHas w (c16_pend env st.deleted) := by
    rcases ho with h1 | h2
    · exact Or.inl h1
    · exact Or.inr (c16_pend_has env p w hp _ h2)
  rcases c16_occursL_has env p w hp ns _ hin with e | b
  · left; rw [hr.sum.msgs]; exact e _
  · right; rw [hr.buf]; exact b
end

end Mammoth
