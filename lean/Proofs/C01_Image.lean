/-
  C01 — an image changes neither the note counter nor the comment counter; it is handed to the
  image converter exactly once.
-/
import Proofs.C01_Refine
namespace Mammoth

/-- the computation leaves the note references and the referenced comments alone and calls the
    image converter with exactly the images `l` -/
def c01_eff {α} (l : List ImageProps) (m : ConvM α) : Prop :=
  ∀ st a st', m st = .ok (a, st') →
    st'.noteRefs = st.noteRefs ∧ st'.refComments = st.refComments ∧ st'.imageCalls = st.imageCalls ++ l

theorem c01_eff_bind {α β} (l1 l2 : List ImageProps) (x : ConvM α) (f : α → ConvM β)
    (hx : c01_eff l1 x) (hf : ∀ a, c01_eff l2 (f a)) : c01_eff (l1 ++ l2) (x >>= f) := by
  intro st b st' hr
  rw [c01_bind_run] at hr
  cases hxs : x st with
  | error e => simp [hxs] at hr
  | ok p =>
    obtain ⟨a, s⟩ := p
    simp only [hxs] at hr
    have h1 := hx st a s hxs
    have h2 := hf a s b st' hr
    exact ⟨h2.1.trans h1.1, h2.2.1.trans h1.2.1, by rw [h2.2.2, h1.2.2, List.append_assoc]⟩

theorem c01_eff_bind0 {α β} (x : ConvM α) (f : α → ConvM β)
    (hx : c01_eff [] x) (hf : ∀ a, c01_eff [] (f a)) : c01_eff [] (x >>= f) :=
  c01_eff_bind [] [] x f hx hf

theorem c01_eff_pure {α} (a : α) : c01_eff [] (pure a : ConvM α) := by
  intro st a' st' hr
  cases hr
  exact ⟨rfl, rfl, by simp⟩

theorem c01_eff_modify (l : List ImageProps) (f : ConvState → ConvState)
    (h : ∀ s, (f s).noteRefs = s.noteRefs ∧ (f s).refComments = s.refComments ∧
      (f s).imageCalls = s.imageCalls ++ l) :
    c01_eff l (modify f : ConvM PUnit) := by
  intro st a st' hr
  rw [c01_modify_run] at hr
  cases hr
  exact h st

theorem c01_eff_throw {α} (e : Err) : c01_eff [] (throw e : ConvM α) := by
  intro st a st' hr
  rw [c01_throw_run] at hr
  cases hr

theorem c01_eff_warn (m : Str) : c01_eff [] (warn m) :=
  c01_eff_modify [] _ (fun _ => ⟨rfl, rfl, by simp⟩)

theorem c01_eff_openImage (cfg : Cfg) (src : ImageSrc) : c01_eff [] (openImage cfg src) := by
  unfold openImage
  split
  · split
    · exact c01_eff_pure _
    · exact c01_eff_throw _
  · split
    · refine c01_eff_bind0 _ _ (c01_eff_modify [] _ (fun _ => ⟨rfl, rfl, by simp⟩)) ?_
      intro _
      split <;> exact c01_eff_pure _
    · split
      · refine c01_eff_bind0 _ _ (c01_eff_modify [] _ (fun _ => ⟨rfl, rfl, by simp⟩)) ?_
        intro _
        split <;> exact c01_eff_pure _
      · exact c01_eff_pure _

theorem c01_eff_convertImage (cfg : Cfg) (i : ImageProps) : c01_eff [i] (convertImage cfg i) := by
  unfold convertImage
  refine c01_eff_bind [i] [] _ _ (c01_eff_modify [i] _ (fun _ => ⟨rfl, rfl, rfl⟩)) ?_
  intro _
  extract_lets altAttr
  have hopen : ∀ (k : Except Str Bytes → ConvM (List Node)), (∀ r, c01_eff [] (k r)) →
      c01_eff [] (openImage cfg i.src >>= k) :=
    fun k hk => c01_eff_bind0 _ _ (c01_eff_openImage cfg i.src) hk
  split
  · refine hopen _ ?_
    intro r
    split
    · exact c01_eff_pure _
    · exact c01_eff_bind0 _ _ (c01_eff_warn _) (fun _ => c01_eff_pure _)
  · split
    · refine hopen _ ?_
      intro r
      split
      · exact c01_eff_pure _
      · exact c01_eff_bind0 _ _ (c01_eff_warn _) (fun _ => c01_eff_pure _)
    · exact c01_eff_pure _

end Mammoth
