/-
  C09 — the sweep of `calculateRowSpans` (`sweepCells` / `sweepRows`): one step, what it does to the
  column owners, the increments and the drops.
-/
import Proofs.C09_Grid
namespace Mammoth

/-! ### `lookupLast` -/

theorem c09_lookupLast_append {β} (k k' : Nat) (v : β) (l : List (Nat × β)) :
    lookupLast k (l ++ [(k', v)]) = if k = k' then some v else lookupLast k l := by
  induction l with
  | nil => simp [lookupLast]
  | cons p l ih =>
    obtain ⟨a, b⟩ := p
    simp only [List.cons_append, lookupLast, ih]
    by_cases h : k = k' <;> simp [h]

theorem c09_lookupLast_mem {β} (k : Nat) (v : β) (l : List (Nat × β)) (h : lookupLast k l = some v) :
    (k, v) ∈ l := by
  induction l with
  | nil => simp [lookupLast] at h
  | cons p l ih =>
    obtain ⟨a, b⟩ := p
    simp only [lookupLast] at h
    cases hl : lookupLast k l with
    | some w => rw [hl] at h; simp at h; subst h; exact List.mem_cons_of_mem _ (ih hl)
    | none =>
      rw [hl] at h
      by_cases hk : k = a
      · simp [hk] at h; subst h; subst hk; exact List.mem_cons_self
      · simp [hk] at h

/-! ### counting increments -/

abbrev c09_Id := Nat × Nat

def c09_cnt (k : c09_Id) (l : List c09_Id) : Nat := (l.filter (· == k)).length

theorem c09_cnt_append (k : c09_Id) (l l' : List c09_Id) : c09_cnt k (l ++ l') = c09_cnt k l + c09_cnt k l' := by
  simp [c09_cnt]

theorem c09_cnt_single (k o : c09_Id) : c09_cnt k [o] = if o = k then 1 else 0 := by
  by_cases h : o = k <;> simp [c09_cnt, h]

theorem c09_cnt_of_not_mem (k : c09_Id) (l : List c09_Id) (h : k ∉ l) : c09_cnt k l = 0 := by
  simp only [c09_cnt, List.length_eq_zero_iff, List.filter_eq_nil_iff]
  intro a ha hk
  have : a = k := by simpa using hk
  exact h (this ▸ ha)

/-! ### one step of the sweep -/

/-- the owner of column `c` in the dict `columns` -/
def c09_own (sw : Sweep) (c : Nat) : Option c09_Id := lookupLast c sw.cols

/-- what the sweep does with one cell at position `pos` of row `r`, starting at column `ci` -/
def c09_step (r pos ci : Nat) (vm : Bool) (sw : Sweep) : Sweep :=
  match (if vm then lookupLast ci sw.cols else none) with
  | some owner => { sw with incs := sw.incs ++ [owner], drops := sw.drops ++ [(r, pos)] }
  | none => { sw with cols := sw.cols ++ [(ci, (r, pos))] }

theorem c09_sweepCells_cons (r : Nat) (colspan rowspan : Nat) (vm : Bool) (ch : List Elem) (rest : List Elem)
    (pos ci : Nat) (sw : Sweep) :
    sweepCells r (.cell colspan rowspan vm ch :: rest) pos ci sw
      = sweepCells r rest (pos + 1) (ci + colspan) (c09_step r pos ci vm sw) := rfl

/-- the cell merges into the open cell of its column -/
def c09_hits (ci : Nat) (vm : Bool) (sw : Sweep) : Bool := vm && (c09_own sw ci).isSome

theorem c09_step_hit {r pos ci : Nat} {vm : Bool} {sw : Sweep} (h : c09_hits ci vm sw = true) :
    ∃ o, c09_own sw ci = some o ∧
      c09_step r pos ci vm sw = { sw with incs := sw.incs ++ [o], drops := sw.drops ++ [(r, pos)] } := by
  simp only [c09_hits, Bool.and_eq_true] at h
  obtain ⟨hv, ho⟩ := h
  cases hl : c09_own sw ci with
  | none => simp [hl] at ho
  | some o =>
    refine ⟨o, rfl, ?_⟩
    simp only [c09_own] at hl
    simp [c09_step, hv, hl]

theorem c09_step_miss {r pos ci : Nat} {vm : Bool} {sw : Sweep} (h : c09_hits ci vm sw = false) :
    c09_step r pos ci vm sw = { sw with cols := sw.cols ++ [(ci, (r, pos))] } := by
  simp only [c09_hits, Bool.and_eq_false_iff] at h
  rcases h with hv | ho
  · simp [c09_step, hv]
  · have : lookupLast ci sw.cols = none := by simpa [c09_own] using ho
    cases vm <;> simp [c09_step, this]

theorem c09_own_step (r pos ci : Nat) (vm : Bool) (sw : Sweep) (c : Nat) :
    c09_own (c09_step r pos ci vm sw) c =
      if c09_hits ci vm sw = true then c09_own sw c
      else if c = ci then some (r, pos) else c09_own sw c := by
  cases h : c09_hits ci vm sw with
  | true =>
    obtain ⟨o, _, hs⟩ := c09_step_hit (r := r) (pos := pos) h
    simp [hs, c09_own]
  | false =>
    rw [c09_step_miss h]
    simp [c09_own, c09_lookupLast_append]

theorem c09_cnt_step (r pos ci : Nat) (vm : Bool) (sw : Sweep) (k : c09_Id) :
    c09_cnt k (c09_step r pos ci vm sw).incs =
      c09_cnt k sw.incs + (if vm = true ∧ c09_own sw ci = some k then 1 else 0) := by
  cases h : c09_hits ci vm sw with
  | true =>
    obtain ⟨o, ho, hs⟩ := c09_step_hit (r := r) (pos := pos) h
    have hv : vm = true := by simp [c09_hits] at h; exact h.1
    rw [hs]; simp only [c09_cnt_append, c09_cnt_single, ho, hv, true_and, Option.some.injEq]
  | false =>
    rw [c09_step_miss h]
    have : ¬ (vm = true ∧ c09_own sw ci = some k) := by
      rintro ⟨hv, ho⟩; simp [c09_hits, hv, ho] at h
    simp [this]

theorem c09_drops_step (r pos ci : Nat) (vm : Bool) (sw : Sweep) (v : c09_Id) :
    v ∈ (c09_step r pos ci vm sw).drops ↔ v ∈ sw.drops ∨ (v = (r, pos) ∧ c09_hits ci vm sw = true) := by
  cases h : c09_hits ci vm sw with
  | true =>
    obtain ⟨o, _, hs⟩ := c09_step_hit (r := r) (pos := pos) h
    simp [hs]
  | false =>
    rw [c09_step_miss h]; simp

/-! ### "before": the cells already processed when the sweep is at position `pos` of row `r` -/

def c09_before (k : c09_Id) (r pos : Nat) : Prop := k.1 < r ∨ (k.1 = r ∧ k.2 < pos)

theorem c09_before_succ {k : c09_Id} {r pos : Nat} (h : c09_before k r pos) : c09_before k r (pos + 1) := by
  unfold c09_before at *; omega

theorem c09_before_ne {k : c09_Id} {r pos : Nat} (h : c09_before k r pos) : (r, pos) ≠ k := by
  intro he; subst he; simp [c09_before] at h

/-- everything recorded in the sweep state refers to cells already processed -/
structure c09_Fresh (sw : Sweep) (r pos : Nat) : Prop where
  cols : ∀ c v, (c, v) ∈ sw.cols → c09_before v r pos
  incs : ∀ v, v ∈ sw.incs → c09_before v r pos
  drops : ∀ v, v ∈ sw.drops → c09_before v r pos

theorem c09_Fresh.own {sw : Sweep} {r pos : Nat} (h : c09_Fresh sw r pos) {c : Nat} {v : c09_Id}
    (ho : c09_own sw c = some v) : c09_before v r pos :=
  h.cols c v (c09_lookupLast_mem c v sw.cols ho)

theorem c09_Fresh.mono {sw : Sweep} {r pos r' pos' : Nat} (h : c09_Fresh sw r pos)
    (hm : ∀ v, c09_before v r pos → c09_before v r' pos') : c09_Fresh sw r' pos' :=
  ⟨fun c v hv => hm v (h.cols c v hv), fun v hv => hm v (h.incs v hv), fun v hv => hm v (h.drops v hv)⟩

theorem c09_Fresh.step {sw : Sweep} {r pos : Nat} (h : c09_Fresh sw r pos) (ci : Nat) (vm : Bool) :
    c09_Fresh (c09_step r pos ci vm sw) r (pos + 1) := by
  have hself : c09_before (r, pos) r (pos + 1) := by simp [c09_before]
  cases hh : c09_hits ci vm sw with
  | true =>
    obtain ⟨o, ho, hs⟩ := c09_step_hit (r := r) (pos := pos) hh
    rw [hs]
    refine ⟨fun c v hv => c09_before_succ (h.cols c v hv), ?_, ?_⟩
    · intro v hv
      simp only [List.mem_append, List.mem_singleton] at hv
      rcases hv with hv | hv
      · exact c09_before_succ (h.incs v hv)
      · subst hv; exact c09_before_succ (h.own ho)
    · intro v hv
      simp only [List.mem_append, List.mem_singleton] at hv
      rcases hv with hv | hv
      · exact c09_before_succ (h.drops v hv)
      · subst hv; exact hself
  | false =>
    rw [c09_step_miss hh]
    refine ⟨?_, fun v hv => c09_before_succ (h.incs v hv), fun v hv => c09_before_succ (h.drops v hv)⟩
    intro c v hv
    simp only [List.mem_append, List.mem_singleton, Prod.mk.injEq] at hv
    rcases hv with hv | hv
    · exact c09_before_succ (h.cols c v hv)
    · rw [hv.2]; exact hself

end Mammoth
