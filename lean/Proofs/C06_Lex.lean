/-
  C06_Lex — the lexer on printed identifiers, strings, numbers and symbols followed by arbitrary text.
-/
import Proofs.C06_Escape
import Proofs.C06_Num
namespace Mammoth

/-! ### character facts -/

theorem c06_identStart_not_space (c : Char) (h : isIdentStart c = true) : isSpace c = false := by
  by_cases e1 : c = '-'
  · subst e1; decide
  by_cases e2 : c = '_'
  · subst e2; decide
  simp only [isIdentStart, Char.isAlpha, Char.isUpper, Char.isLower, Bool.or_eq_true, Bool.and_eq_true,
    decide_eq_true_eq, beq_iff_eq, e1, e2, or_false] at h
  have h1 : c.val.toNat = c.toNat := rfl
  simp only [ge_iff_le, UInt32.le_iff_toNat_le, h1] at h
  simp [isSpace]
  simp at h
  omega

theorem c06_digit_facts (c : Char) (h : isDigit c = true) : isSpace c = false ∧ isIdentStart c = false := by
  have e1 : c ≠ '-' := by intro e; subst e; revert h; decide
  have e2 : c ≠ '_' := by intro e; subst e; revert h; decide
  simp only [isDigit, Bool.and_eq_true, decide_eq_true_eq] at h
  have h0 : '0'.toNat = 48 := rfl
  have h9 : '9'.toNat = 57 := rfl
  rw [h0, h9] at h
  have h1 : c.val.toNat = c.toNat := rfl
  constructor
  · simp [isSpace]; omega
  · simp [isIdentStart, Char.isAlpha, Char.isUpper, Char.isLower, UInt32.le_iff_toNat_le, h1, e1, e2]
    omega

/-- a character that cannot continue an identifier -/
def c06_stopChar (c : Char) : Bool := !(isIdentStart c || isDigit c || c == '\\')

/-- the text does not start with an identifier-continuation character or a backslash -/
def c06_stop : Str → Bool
  | [] => true
  | c :: _ => c06_stopChar c

/-! ### identifiers -/

theorem c06_lexIdentRest_raw (c : Char) (X m r : Str) (h : (isIdentStart c || isDigit c) = true)
    (hX : lexIdentRest X = (m, r)) : lexIdentRest (c :: X) = (c :: m, r) := by
  have hc : c ≠ '\\' := by intro e; subst e; revert h; decide
  rw [lexIdentRest.eq_def]
  split
  · rename_i heq; simp at heq; exact absurd heq.1 hc
  · rename_i heq; simp at heq; obtain ⟨rfl, rfl⟩ := heq; simp [h, hX]
  · rename_i heq; simp at heq

theorem c06_lexIdentRest_bs (c : Char) (X m r : Str) (h : isDot c = true)
    (hX : lexIdentRest X = (m, r)) : lexIdentRest ('\\' :: c :: X) = ('\\' :: c :: m, r) := by
  rw [lexIdentRest]; simp [h, hX]

theorem c06_lexIdentRest_stop (rest : Str) (h : c06_stop rest = true) : lexIdentRest rest = ([], rest) := by
  cases rest with
  | nil => simp [lexIdentRest]
  | cons c cs =>
    simp only [c06_stop, c06_stopChar, Bool.not_eq_true', Bool.or_eq_false_iff, beq_eq_false_iff_ne] at h
    rw [lexIdentRest.eq_def]
    split
    · rename_i heq; simp at heq; exact absurd heq.1 h.2
    · rename_i heq; simp at heq; obtain ⟨rfl, rfl⟩ := heq; simp [h.1.1, h.1.2]
    · rename_i heq; simp at heq

theorem c06_lexIdentRest_escChar (c : Char) (X m r : Str) (hX : lexIdentRest X = (m, r)) :
    lexIdentRest (c06_escChar c ++ X) = (c06_escChar c ++ m, r) := by
  unfold c06_escChar
  by_cases h1 : c = '\n'
  · subst h1; simpa using c06_lexIdentRest_bs 'n' X m r (by decide) hX
  by_cases h2 : c = '\r'
  · subst h2; simpa using c06_lexIdentRest_bs 'r' X m r (by decide) hX
  by_cases h3 : c = '\t'
  · subst h3; simpa using c06_lexIdentRest_bs 't' X m r (by decide) hX
  simp only [beq_iff_eq, h1, h2, h3, if_false]
  by_cases h4 : (isIdentStart c || isDigit c) = true
  · rw [if_pos h4]; exact c06_lexIdentRest_raw c X m r h4 hX
  · rw [if_neg h4]; exact c06_lexIdentRest_bs c X m r (by simp [isDot, h1]) hX

theorem c06_lexIdentRest_escRest (s rest : Str) (h : c06_stop rest = true) :
    lexIdentRest (c06_escRest s ++ rest) = (c06_escRest s, rest) := by
  induction s with
  | nil => simpa [c06_escRest] using c06_lexIdentRest_stop rest h
  | cons c cs ih =>
    simp only [c06_escRest, List.append_assoc]
    exact c06_lexIdentRest_escChar c _ _ _ ih

theorem c06_lexIdent_raw (c : Char) (X m r : Str) (h : isIdentStart c = true)
    (hX : lexIdentRest X = (m, r)) : lexIdent (c :: X) = some (c :: m, r) := by
  have hc : c ≠ '\\' := by intro e; subst e; revert h; decide
  rw [lexIdent.eq_def]
  split
  · rename_i heq; simp at heq; exact absurd heq.1 hc
  · rename_i heq; simp at heq; obtain ⟨rfl, rfl⟩ := heq; simp [h, hX]
  · rename_i heq; simp at heq

theorem c06_lexIdent_bs (c : Char) (X m r : Str) (h : isDot c = true)
    (hX : lexIdentRest X = (m, r)) : lexIdent ('\\' :: c :: X) = some ('\\' :: c :: m, r) := by
  rw [lexIdent]; simp [h, hX]

theorem c06_lexIdent_escFirst (c : Char) (X m r : Str) (hX : lexIdentRest X = (m, r)) :
    lexIdent (c06_escFirst c ++ X) = some (c06_escFirst c ++ m, r) := by
  unfold c06_escFirst
  by_cases hd : isDigit c = true
  · rw [if_pos hd]
    have : c ≠ '\n' := by intro e; subst e; revert hd; decide
    exact c06_lexIdent_bs c X m r (by simp [isDot, this]) hX
  rw [if_neg hd]
  unfold c06_escChar
  by_cases h1 : c = '\n'
  · subst h1; simpa using c06_lexIdent_bs 'n' X m r (by decide) hX
  by_cases h2 : c = '\r'
  · subst h2; simpa using c06_lexIdent_bs 'r' X m r (by decide) hX
  by_cases h3 : c = '\t'
  · subst h3; simpa using c06_lexIdent_bs 't' X m r (by decide) hX
  simp only [beq_iff_eq, h1, h2, h3, if_false]
  by_cases h4 : (isIdentStart c || isDigit c) = true
  · rw [if_pos h4]
    have : isIdentStart c = true := by simpa [hd] using h4
    exact c06_lexIdent_raw c X m r this hX
  · rw [if_neg h4]; exact c06_lexIdent_bs c X m r (by simp [isDot, h1]) hX

/-- a printed non-empty identifier, followed by text that cannot continue it, is one IDENTIFIER match -/
theorem c06_lexIdent_print (s rest : Str) (hs : s ≠ []) (h : c06_stop rest = true) :
    lexIdent (c06_printIdent s ++ rest) = some (c06_printIdent s, rest) := by
  cases s with
  | nil => exact absurd rfl hs
  | cons c cs =>
    simp only [c06_printIdent, List.append_assoc]
    exact c06_lexIdent_escFirst c _ _ _ (c06_lexIdentRest_escRest cs rest h)

/-- the first character of a printed non-empty identifier is not white space, a quote, a digit or
    a symbol character: it is a backslash or a letter, `-`, `_` -/
theorem c06_printIdent_head (s : Str) (hs : s ≠ []) :
    ∃ c t, c06_printIdent s = c :: t ∧ (c = '\\' ∨ isIdentStart c = true) := by
  cases s with
  | nil => exact absurd rfl hs
  | cons c cs =>
    simp only [c06_printIdent, c06_escFirst, c06_escChar]
    by_cases hd : isDigit c = true
    · simp [hd]
    by_cases h1 : c = '\n'
    · subst h1; simp [hd]
    by_cases h2 : c = '\r'
    · subst h2; simp [hd]
    by_cases h3 : c = '\t'
    · subst h3; simp [hd]
    by_cases h4 : isIdentStart c = true
    · simp [hd, h1, h2, h3, h4]
    · simp [hd, h1, h2, h3, h4]

/-! ### strings -/

theorem c06_lexStringBody_raw (c : Char) (X m r : Str) (h1 : c ≠ '\'') (h2 : c ≠ '\\')
    (hX : lexStringBody X = (m, r)) : lexStringBody (c :: X) = (c :: m, r) := by
  rw [lexStringBody.eq_def]
  split
  · rename_i heq; simp at heq; exact absurd heq.1 h2
  · rename_i heq; simp at heq; obtain ⟨rfl, rfl⟩ := heq; simp [h1, h2, hX]
  · rename_i heq; simp at heq

theorem c06_lexStringBody_bs (c : Char) (X m r : Str) (h : isDot c = true)
    (hX : lexStringBody X = (m, r)) : lexStringBody ('\\' :: c :: X) = ('\\' :: c :: m, r) := by
  rw [lexStringBody]; simp [h, hX]

theorem c06_lexStringBody_strChar (c : Char) (X m r : Str) (hX : lexStringBody X = (m, r)) :
    lexStringBody (c06_strChar c ++ X) = (c06_strChar c ++ m, r) := by
  unfold c06_strChar
  by_cases h1 : c = '\''
  · subst h1; simpa using c06_lexStringBody_bs '\'' X m r (by decide) hX
  by_cases h2 : c = '\\'
  · subst h2; simpa using c06_lexStringBody_bs '\\' X m r (by decide) hX
  by_cases h3 : c = '\n'
  · subst h3; simpa using c06_lexStringBody_bs 'n' X m r (by decide) hX
  by_cases h4 : c = '\r'
  · subst h4; simpa using c06_lexStringBody_bs 'r' X m r (by decide) hX
  by_cases h5 : c = '\t'
  · subst h5; simpa using c06_lexStringBody_bs 't' X m r (by decide) hX
  simp only [beq_iff_eq, h1, h2, h3, h4, h5, if_false]
  exact c06_lexStringBody_raw c X m r h1 h2 hX

theorem c06_lexStringBody_quote (rest : Str) : lexStringBody ('\'' :: rest) = ([], '\'' :: rest) := by
  rw [lexStringBody.eq_def]; simp

theorem c06_lexStringBody_print (s rest : Str) :
    lexStringBody (c06_stringBody s ++ '\'' :: rest) = (c06_stringBody s, '\'' :: rest) := by
  induction s with
  | nil => simpa [c06_stringBody] using c06_lexStringBody_quote rest
  | cons c cs ih =>
    simp only [c06_stringBody, List.append_assoc]
    exact c06_lexStringBody_strChar c _ _ _ ih

/-- a printed string, followed by ANY text, is one STRING match: the closing quote ends it -/
theorem c06_lexString_print (s rest : Str) :
    lexString (c06_printString s ++ rest) = some (.string, c06_printString s, rest) := by
  simp [c06_printString, lexString, c06_lexStringBody_print]

/-! ### integers, white space -/

theorem c06_spanP_all (p : Char → Bool) (ds rest : Str) (hd : ∀ c ∈ ds, p c = true)
    (hr : ∀ c t, rest = c :: t → p c = false) : spanP p (ds ++ rest) = (ds, rest) := by
  induction ds with
  | nil =>
    cases rest with
    | nil => simp [spanP]
    | cons c t => simp [spanP, hr c t rfl]
  | cons d ds ih =>
    have := ih (fun c hc => hd c (List.mem_cons_of_mem _ hc))
    simp [spanP, hd d (List.mem_cons_self), this]

/-- a non-empty run of digits followed by a non-digit is one INTEGER match -/
theorem c06_lexInt_digits (ds rest : Str) (hne : ds ≠ []) (hd : ∀ c ∈ ds, isDigit c = true)
    (hr : ∀ c t, rest = c :: t → isDigit c = false) : lexInt (ds ++ rest) = some (ds, rest) := by
  unfold lexInt
  rw [c06_spanP_all isDigit ds rest hd hr]
  cases ds with
  | nil => exact absurd rfl hne
  | cons d ds => rfl

theorem c06_lexInt_print (n : Nat) (rest : Str) (hr : ∀ c t, rest = c :: t → isDigit c = false) :
    lexInt (c06_printNat n ++ rest) = some (c06_printNat n, rest) :=
  c06_lexInt_digits _ rest (c06_printNat_ne_nil n) (c06_printNat_digits n) hr

theorem c06_lexWs_blank (rest : Str) (hr : ∀ c t, rest = c :: t → isSpace c = false) :
    lexWs (' ' :: rest) = some ([' '], rest) := by
  have := c06_spanP_all isSpace [' '] rest (by decide) hr
  unfold lexWs
  simp only [List.cons_append, List.nil_append] at this
  rw [this]

end Mammoth
