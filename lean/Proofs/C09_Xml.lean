/-
  C09, from the XML — the reader half: what `readElem` makes of `w:tbl` / `w:tr` / `w:tc`, as an equation with a
  structured reading of the table (`c09x_readRows`: the abstract grid of C09 with the cells' contents read by the
  element reader in document order), and the abstract grid read off the XML alone (`c09x_xmlGrid`).
-/
import Proofs.C11_Xml
import Proofs.C09_Grid
import Proofs.C05_ReadBody
namespace Mammoth

/-! ### the properties of cells, rows and tables, read off the XML -/

/-- `w:gridSpan/@w:val` of the cell properties as a decimal number; 1 if absent; `none` if it is not a number -/
def c09x_gridSpan (tcPr : List XmlNode) : Option Nat :=
  match (c11x_propVal S!"w:gridSpan" tcPr).join with
  | none => some 1
  | some g => parseDec g

/-- …with the reader's error (`int(…)` raises ValueError) -/
def c09x_spanE (tcPr : List XmlNode) : Except Err Nat :=
  match (c11x_propVal S!"w:gridSpan" tcPr).join with
  | none => .ok 1
  | some g =>
    match parseDec g with
    | some n => .ok n
    | none => .error (.value g)

theorem c09x_spanE_ok {tcPr : List XmlNode} {n : Nat} (h : c09x_spanE tcPr = .ok n) : c09x_gridSpan tcPr = some n := by
  unfold c09x_spanE at h
  unfold c09x_gridSpan
  cases hv : (c11x_propVal S!"w:gridSpan" tcPr).join with
  | none => rw [hv] at h; cases h; rfl
  | some g =>
    rw [hv] at h
    dsimp only at h ⊢
    cases hp : parseDec g with
    | none => rw [hp] at h; cases h
    | some m => rw [hp] at h; cases h; rfl

/-- the vertical-merge kind of a cell: no `w:vMerge` — none; `w:vMerge` without a value, with an empty value or
    `continue` — continuation of the cell above; any other value (`restart`) — a new merged cell begins -/
def c09x_merge (tcPr : List XmlNode) : c09_Merge :=
  match c11x_propVal S!"w:vMerge" tcPr with
  | none => .none
  | some none => .cont
  | some (some v) => if v = S!"continue" ∨ v = [] then .cont else .restart

theorem c09x_readVmerge (tcPr : List XmlNode) : readVmerge tcPr = (c09x_merge tcPr == .cont) := by
  unfold readVmerge c09x_merge c11x_propVal
  rw [c11x_findChild]
  cases (c11x_named S!"w:vMerge" tcPr).head? with
  | none => rfl
  | some p =>
    obtain ⟨as, cs⟩ := p
    simp only [Option.map_some, c11x_attr_eq]
    cases c11x_attr S!"w:val" as with
    | none => rfl
    | some v =>
      by_cases h1 : v = S!"continue"
      · subst h1; rfl
      · by_cases h2 : v = []
        · subst h2; rfl
        · have e1 : (v == S!"continue") = false := by simpa using h1
          have e2 : v.isEmpty = false := by cases v <;> simp_all
          simp only [e1, e2, h1, h2, or_self, if_false]; rfl

/-- the cell properties: children of the first `w:tcPr` -/
abbrev c09x_tcPr (cs : List XmlNode) : List XmlNode := c11x_childrenOf S!"w:tcPr" cs

/-- a row is a header row iff its `w:trPr` has a `w:tblHeader` child -/
def c09x_isHeader (trChildren : List XmlNode) : Bool :=
  (c11x_named S!"w:tblHeader" (c11x_childrenOf S!"w:trPr" trChildren)).head?.isSome

theorem c09x_isHeader_eq (cs : List XmlNode) :
    (findChild S!"w:tblHeader" (findChildOrNull S!"w:trPr" cs).2).isSome = c09x_isHeader cs := by
  rw [c11x_childrenOf_eq, c11x_findChild]; rfl

/-- style id, style name and warning of an element with a style reference `tag` in its properties -/
def c09x_style (props : List XmlNode) (tag kind : Str) (table : List (Option Str × Option Str)) :
    (Option Str × Option Str) × List Str :=
  match (c11x_propVal tag props).join with
  | none => ((none, none), [])
  | some sid =>
    match lookupLast (some sid) table with
    | none => ((some sid, none),
               [kind ++ S!" style with ID " ++ sid ++ S!" was referenced but not defined in the document"])
    | some name => ((some sid, name), [])

theorem c09x_readStyle (props : List XmlNode) (tag kind : Str) (table : List (Option Str × Option Str)) :
    readStyle props tag kind table = c09x_style props tag kind table := by
  unfold readStyle c09x_style
  rw [c11x_childAttr]
  rfl

abbrev c09x_tblStyle (env : REnv) (cs : List XmlNode) : (Option Str × Option Str) × List Str :=
  c09x_style (c11x_childrenOf S!"w:tblPr" cs) S!"w:tblStyle" S!"Table" env.styles.table

/-! ### the reader on `w:tc`, `w:tr`, `w:tbl` and on elements without a handler -/

theorem c09x_handler_tc : handlerOf S!"w:tc" = some S!"table_cell" := by decide

theorem c09x_reader_cell (env : REnv) (f : Nat) (st : RState) (as : Attrs) (cs : List XmlNode) :
    readElem env (f+1) st (.elem S!"w:tc" as cs) =
      (c09x_spanE (c09x_tcPr cs) >>= fun colspan =>
        readAllWith (readElem env f) st cs >>= fun p =>
        pure ({ p.1 with elements := [.cell colspan 1 (c09x_merge (c09x_tcPr cs) == .cont) p.1.elements] }, p.2)) := by
  rw [c05_readElem_succ]
  unfold c05_readBody c09x_spanE c09x_tcPr
  rw [c09x_handler_tc, ← c09x_readVmerge, ← c11x_childAttr, ← c11x_childrenOf_eq]
  dsimp only
  cases childAttr S!"w:gridSpan" S!"w:val" (findChildOrNull S!"w:tcPr" cs).2 with
  | none => rfl
  | some g =>
    dsimp only
    cases parseDec g with
    | none => rfl
    | some n => rfl

theorem c09x_reader_row (env : REnv) (f : Nat) (st : RState) (as : Attrs) (cs : List XmlNode) :
    readElem env (f+1) st (.elem S!"w:tr" as cs) =
      (readAllWith (readElem env f) st cs >>= fun p =>
        pure ({ p.1 with elements := [.row (c09x_isHeader cs) p.1.elements] }, p.2)) := by
  rw [← c09x_isHeader_eq]; rfl

theorem c09x_reader_table (env : REnv) (f : Nat) (st : RState) (as : Attrs) (cs : List XmlNode) :
    readElem env (f+1) st (.elem S!"w:tbl" as cs) =
      (readAllWith (readElem env f) st cs >>= fun p =>
        pure ({ elements := [.table (c09x_tblStyle env cs).1.1 (c09x_tblStyle env cs).1.2
                  (calculateRowSpans p.1.elements).1],
                extra := p.1.extra,
                messages := (c09x_tblStyle env cs).2 ++ (p.1.messages ++ (calculateRowSpans p.1.elements).2) },
              p.2)) := by
  unfold c09x_tblStyle
  rw [← c09x_readStyle, ← c11x_childrenOf_eq]; rfl

/-- what an element without a handler leaves in the messages: nothing if its name is on the ignore list -/
def c09x_skipMsgs (name : Str) : List Str :=
  if Generated.ignored.contains name then [] else [S!"An unrecognised element was ignored: " ++ name]

theorem c09x_reader_skip (env : REnv) (f : Nat) (st : RState) (name : Str) (as : Attrs) (cs : List XmlNode)
    (h : handlerOf name = none) :
    readElem env (f+1) st (.elem name as cs) = .ok ({ messages := c09x_skipMsgs name }, st) := by
  rw [c05_readElem_succ]; unfold c05_readBody c09x_skipMsgs; rw [h]; dsimp only; split <;> rfl

theorem c09x_readAllWith_cons (rd : c05_Rd) (st : RState) (n : Str) (as : Attrs) (cs rest : List XmlNode) :
    readAllWith rd st (.elem n as cs :: rest) =
      (rd st (.elem n as cs) >>= fun p => readAllWith rd p.2 rest >>= fun q => pure (p.1.concat q.1, q.2)) := rfl

/-! ### a structured reading of a table -/

/-- what reading produces besides the grid: the extra elements, the messages, the reader state -/
abbrev c09x_Res (α : Type) := (α × List Elem × List Str) × RState

/-- THE CELLS OF A ROW from the children of a `w:tr`, left to right: each `w:tc` gives a cell with the span and merge
    kind of its `w:tcPr` and the elements that the element reader (fuel `f`) makes of its children, read in
    document order; every other child has no handler and only leaves a message -/
def c09x_readCells (env : REnv) (f : Nat) : RState → List XmlNode → Except Err (c09x_Res c09_Row)
  | st, [] => .ok (([], [], []), st)
  | st, .text _ :: rest => c09x_readCells env f st rest
  | st, .elem name _ cs :: rest =>
    if name = S!"w:tc" then
      match c09x_spanE (c09x_tcPr cs) with
      | .error e => .error e
      | .ok span =>
        match readAllWith (readElem env f) st cs with
        | .error e => .error e
        | .ok (r, st1) =>
          match c09x_readCells env f st1 rest with
          | .error e => .error e
          | .ok ((row, extra, msgs), st2) =>
            .ok ((⟨span, c09x_merge (c09x_tcPr cs), r.elements⟩ :: row, r.extra ++ extra, r.messages ++ msgs), st2)
    else
      match c09x_readCells env f st rest with
      | .error e => .error e
      | .ok ((row, extra, msgs), st2) => .ok ((row, extra, c09x_skipMsgs name ++ msgs), st2)

/-- THE ROWS OF A TABLE from the children of a `w:tbl`: each `w:tr` gives (header flag, cells) -/
def c09x_readRows (env : REnv) (f : Nat) : RState → List XmlNode → Except Err (c09x_Res (List (Bool × c09_Row)))
  | st, [] => .ok (([], [], []), st)
  | st, .text _ :: rest => c09x_readRows env f st rest
  | st, .elem name _ cs :: rest =>
    if name = S!"w:tr" then
      match c09x_readCells env f st cs with
      | .error e => .error e
      | .ok ((row, extra1, msgs1), st1) =>
        match c09x_readRows env f st1 rest with
        | .error e => .error e
        | .ok ((rows, extra, msgs), st2) =>
          .ok (((c09x_isHeader cs, row) :: rows, extra1 ++ extra, msgs1 ++ msgs), st2)
    else
      match c09x_readRows env f st rest with
      | .error e => .error e
      | .ok ((rows, extra, msgs), st2) => .ok ((rows, extra, c09x_skipMsgs name ++ msgs), st2)

/-- every element child of the row is a `w:tc` or has no handler (`w:trPr`, unknown elements) -/
def c09x_rowShape (cs : List XmlNode) : Bool :=
  cs.all fun n =>
    match n with
    | .text _ => true
    | .elem name _ _ => name == S!"w:tc" || (handlerOf name).isNone

/-- every element child of the table is a `w:tr` of that shape or has no handler (`w:tblPr`, `w:tblGrid`, …) -/
def c09x_tableShape (cs : List XmlNode) : Bool :=
  cs.all fun n =>
    match n with
    | .text _ => true
    | .elem name _ rcs => (name == S!"w:tr" && c09x_rowShape rcs) || (handlerOf name).isNone

def c09x_cellsOut (p : c09x_Res c09_Row) : ReadResult × RState :=
  ({ elements := p.1.1.map c09_toCell, extra := p.1.2.1, messages := p.1.2.2 }, p.2)

def c09x_rowElems (rows : List (Bool × c09_Row)) : List Elem :=
  rows.map fun p => .row p.1 (p.2.map c09_toCell)

def c09x_rowsOut (p : c09x_Res (List (Bool × c09_Row))) : ReadResult × RState :=
  ({ elements := c09x_rowElems p.1.1, extra := p.1.2.1, messages := p.1.2.2 }, p.2)

theorem c09x_concat_skip (name : Str) (r : ReadResult) :
    ({ messages := c09x_skipMsgs name } : ReadResult).concat r =
      { elements := r.elements, extra := r.extra, messages := c09x_skipMsgs name ++ r.messages } := by
  simp [ReadResult.concat]

/-- reading the children of a `w:tr` is the structured reading of its cells -/
theorem c09x_readAll_cells (env : REnv) (f : Nat) : ∀ (cs : List XmlNode) (st : RState), c09x_rowShape cs = true →
    readAllWith (readElem env (f+1)) st cs = (c09x_readCells env f st cs).map c09x_cellsOut
  | [], st, _ => rfl
  | .text _ :: rest, st, h => by
    simp only [c09x_rowShape, List.all_cons, Bool.true_and] at h
    simp only [readAllWith, c09x_readCells]
    exact c09x_readAll_cells env f rest st h
  | .elem name as cs :: rest, st, h => by
    simp only [c09x_rowShape, List.all_cons, Bool.and_eq_true] at h
    have ih := fun st => c09x_readAll_cells env f rest st h.2
    rw [c09x_readAllWith_cons, c09x_readCells]
    by_cases hn : name = S!"w:tc"
    · subst hn
      rw [if_pos rfl, c09x_reader_cell]
      cases c09x_spanE (c09x_tcPr cs) with
      | error e => rfl
      | ok span =>
        cases readAllWith (readElem env f) st cs with
        | error e => rfl
        | ok p =>
          obtain ⟨r, st1⟩ := p
          simp only [bind, Except.bind, pure, Except.pure]
          rw [ih st1]
          cases c09x_readCells env f st1 rest with
          | error e => rfl
          | ok q =>
            obtain ⟨⟨row, extra, msgs⟩, st2⟩ := q
            simp [Except.map, c09x_cellsOut, ReadResult.concat, c09_toCell, c09_Cell.isCont]
    · rw [if_neg hn]
      have hh : handlerOf name = none := by
        have := h.1
        simp only [Bool.or_eq_true, beq_iff_eq, Option.isNone_iff_eq_none] at this
        exact this.resolve_left hn
      rw [c09x_reader_skip env f st name as cs hh]
      simp only [bind, Except.bind]
      rw [ih st]
      cases c09x_readCells env f st rest with
      | error e => rfl
      | ok q =>
        obtain ⟨⟨row, extra, msgs⟩, st2⟩ := q
        simp [Except.map, c09x_cellsOut, c09x_concat_skip, pure, Except.pure]

/-- reading the children of a `w:tbl` is the structured reading of its rows -/
theorem c09x_readAll_rows (env : REnv) (f : Nat) : ∀ (cs : List XmlNode) (st : RState), c09x_tableShape cs = true →
    readAllWith (readElem env (f+2)) st cs = (c09x_readRows env f st cs).map c09x_rowsOut
  | [], st, _ => rfl
  | .text _ :: rest, st, h => by
    simp only [c09x_tableShape, List.all_cons, Bool.true_and] at h
    simp only [readAllWith, c09x_readRows]
    exact c09x_readAll_rows env f rest st h
  | .elem name as cs :: rest, st, h => by
    simp only [c09x_tableShape, List.all_cons, Bool.and_eq_true] at h
    have ih := fun st => c09x_readAll_rows env f rest st h.2
    rw [c09x_readAllWith_cons, c09x_readRows]
    by_cases hn : name = S!"w:tr"
    · subst hn
      have hrow : c09x_rowShape cs = true := by
        have := h.1
        simp only [Bool.or_eq_true, Bool.and_eq_true] at this
        rcases this with h1 | h1
        · exact h1.2
        · exact absurd h1 (by decide)
      rw [if_pos rfl, c09x_reader_row, c09x_readAll_cells env f cs st hrow]
      cases c09x_readCells env f st cs with
      | error e => rfl
      | ok p =>
        obtain ⟨⟨row, extra1, msgs1⟩, st1⟩ := p
        simp only [bind, Except.bind, pure, Except.pure, Except.map, c09x_cellsOut]
        rw [ih st1]
        cases c09x_readRows env f st1 rest with
        | error e => rfl
        | ok q =>
          obtain ⟨⟨rows, extra, msgs⟩, st2⟩ := q
          simp [Except.map, c09x_rowsOut, c09x_rowElems, ReadResult.concat]
    · rw [if_neg hn]
      have hh : handlerOf name = none := by
        have := h.1
        simp only [Bool.or_eq_true, Bool.and_eq_true, beq_iff_eq, Option.isNone_iff_eq_none] at this
        rcases this with h1 | h1
        · exact absurd h1.1 hn
        · exact h1
      rw [c09x_reader_skip env (f+1) st name as cs hh]
      simp only [bind, Except.bind]
      rw [ih st]
      cases c09x_readRows env f st rest with
      | error e => rfl
      | ok q =>
        obtain ⟨⟨rows, extra, msgs⟩, st2⟩ := q
        simp [Except.map, c09x_rowsOut, c09x_concat_skip, pure, Except.pure]

/-! ### the rows as the `TableRow`s of an abstract grid -/

/-- header flag of row `i` -/
def c09x_hdrFn (flags : List Bool) (i : Nat) : Bool := flags[i]?.getD false

theorem c09x_toElemsFrom_congr (hdr hdr' : Nat → Bool) : ∀ (rows : List c09_Row) (r : Nat),
    (∀ i, r ≤ i → hdr i = hdr' i) → c09_toElemsFrom hdr r rows = c09_toElemsFrom hdr' r rows
  | [], _, _ => rfl
  | row :: rest, r, h => by
    simp only [c09_toElemsFrom, h r (Nat.le_refl r)]
    rw [c09x_toElemsFrom_congr hdr hdr' rest (r+1) (fun i hi => h i (by omega))]

theorem c09x_rowElems_eq : ∀ (rows : List (Bool × c09_Row)) (r : Nat),
    c09x_rowElems rows = c09_toElemsFrom (fun i => c09x_hdrFn (rows.map (·.1)) (i - r)) r (rows.map (·.2))
  | [], _ => rfl
  | (h, row) :: rest, r => by
    simp only [c09x_rowElems, List.map_cons, c09_toElemsFrom, Nat.sub_self, c09x_hdrFn, List.getElem?_cons_zero,
      Option.getD_some, List.cons.injEq, true_and]
    have ih := c09x_rowElems_eq rest (r+1)
    simp only [c09x_rowElems] at ih
    rw [ih]
    apply c09x_toElemsFrom_congr
    intro i hi
    have : i - r = (i - (r+1)) + 1 := by omega
    simp only [c09x_hdrFn, this, List.getElem?_cons_succ]

theorem c09x_rowElems_toElems (rows : List (Bool × c09_Row)) :
    c09x_rowElems rows = c09_toElems (c09x_hdrFn (rows.map (·.1))) (rows.map (·.2)) := by
  rw [c09x_rowElems_eq rows 0]; rfl

/-- what the table reader returns for the rows `rows` read with `extra`, `msgs` -/
def c09x_tableResult (env : REnv) (cs : List XmlNode) (p : c09x_Res (List (Bool × c09_Row))) : ReadResult × RState :=
  let out := calculateRowSpans (c09_toElems (c09x_hdrFn (p.1.1.map (·.1))) (p.1.1.map (·.2)))
  ({ elements := [.table (c09x_tblStyle env cs).1.1 (c09x_tblStyle env cs).1.2 out.1],
     extra := p.1.2.1,
     messages := (c09x_tblStyle env cs).2 ++ (p.1.2.2 ++ out.2) }, p.2)

/-- READING A TABLE: a `w:tbl` of the table shape is read as ONE table element whose rows are
    `calculate_row_spans` of the rows of the grid read by `c09x_readRows` -/
theorem c09x_read_table (env : REnv) (f : Nat) (st : RState) (as : Attrs) (cs : List XmlNode)
    (h : c09x_tableShape cs = true) :
    readElem env (f+3) st (.elem S!"w:tbl" as cs) = (c09x_readRows env f st cs).map (c09x_tableResult env cs) := by
  rw [c09x_reader_table, c09x_readAll_rows env f cs st h]
  cases c09x_readRows env f st cs with
  | error e => rfl
  | ok p =>
    simp only [Except.map, bind, Except.bind, pure, Except.pure, c09x_rowsOut, c09x_tableResult,
      c09x_rowElems_toElems]

/-! ### the abstract grid read off the XML alone -/

/-- forget the content of a cell -/
def c09x_strip (c : c09_Cell) : c09_Cell := { c with content := [] }

/-- the cells of a row, from the XML: span (0, never valid, if `w:gridSpan` is not a number) and merge kind of every
    `w:tc` child -/
def c09x_xmlRow (trChildren : List XmlNode) : c09_Row :=
  (c11x_named S!"w:tc" trChildren).map fun p =>
    ⟨(c09x_gridSpan (c09x_tcPr p.2)).getD 0, c09x_merge (c09x_tcPr p.2), []⟩

/-- THE GRID OF THE DOCUMENT TABLE, from the XML: one row per `w:tr` child -/
def c09x_xmlGrid (tblChildren : List XmlNode) : List c09_Row :=
  (c11x_named S!"w:tr" tblChildren).map fun p => c09x_xmlRow p.2

/-- the header flags of the rows, from the XML -/
def c09x_xmlHdr (tblChildren : List XmlNode) : List Bool :=
  (c11x_named S!"w:tr" tblChildren).map fun p => c09x_isHeader p.2

theorem c09x_readCells_grid (env : REnv) (f : Nat) : ∀ (cs : List XmlNode) (st : RState) (p : c09x_Res c09_Row),
    c09x_readCells env f st cs = .ok p → p.1.1.map c09x_strip = c09x_xmlRow cs
  | [], st, p, h => by cases h; rfl
  | .text _ :: rest, st, p, h => by
    rw [c09x_readCells] at h
    rw [c09x_readCells_grid env f rest st p h]
    simp [c09x_xmlRow, c11x_named]
  | .elem name as cs :: rest, st, p, h => by
    rw [c09x_readCells] at h
    by_cases hn : name = S!"w:tc"
    · subst hn
      rw [if_pos rfl] at h
      cases hs : c09x_spanE (c09x_tcPr cs) with
      | error e => rw [hs] at h; cases h
      | ok span =>
        rw [hs] at h; dsimp only at h
        cases hr : readAllWith (readElem env f) st cs with
        | error e => rw [hr] at h; cases h
        | ok q =>
          obtain ⟨r, st1⟩ := q
          rw [hr] at h; dsimp only at h
          cases hc : c09x_readCells env f st1 rest with
          | error e => rw [hc] at h; cases h
          | ok q2 =>
            obtain ⟨⟨row, extra, msgs⟩, st2⟩ := q2
            rw [hc] at h; dsimp only at h
            cases h
            have ih := c09x_readCells_grid env f rest st1 _ hc
            simp only at ih
            simp [c09x_xmlRow, c11x_named, c09x_strip, c09x_spanE_ok hs] at ih ⊢
            exact ih
    · rw [if_neg hn] at h
      cases hc : c09x_readCells env f st rest with
      | error e => rw [hc] at h; cases h
      | ok q2 =>
        obtain ⟨⟨row, extra, msgs⟩, st2⟩ := q2
        rw [hc] at h; dsimp only at h
        cases h
        have ih := c09x_readCells_grid env f rest st _ hc
        simp only at ih
        simp [c09x_xmlRow, c11x_named, hn] at ih ⊢
        exact ih

theorem c09x_readRows_grid (env : REnv) (f : Nat) :
    ∀ (cs : List XmlNode) (st : RState) (p : c09x_Res (List (Bool × c09_Row))),
    c09x_readRows env f st cs = .ok p →
      p.1.1.map (fun q => q.2.map c09x_strip) = c09x_xmlGrid cs ∧ p.1.1.map (·.1) = c09x_xmlHdr cs
  | [], st, p, h => by cases h; exact ⟨rfl, rfl⟩
  | .text _ :: rest, st, p, h => by
    rw [c09x_readRows] at h
    have := c09x_readRows_grid env f rest st p h
    simpa [c09x_xmlGrid, c09x_xmlHdr, c11x_named] using this
  | .elem name as cs :: rest, st, p, h => by
    rw [c09x_readRows] at h
    by_cases hn : name = S!"w:tr"
    · subst hn
      rw [if_pos rfl] at h
      cases hc : c09x_readCells env f st cs with
      | error e => rw [hc] at h; cases h
      | ok q =>
        obtain ⟨⟨row, extra1, msgs1⟩, st1⟩ := q
        rw [hc] at h; dsimp only at h
        cases hr : c09x_readRows env f st1 rest with
        | error e => rw [hr] at h; cases h
        | ok q2 =>
          obtain ⟨⟨rows, extra, msgs⟩, st2⟩ := q2
          rw [hr] at h; dsimp only at h
          cases h
          have ih := c09x_readRows_grid env f rest st1 _ hr
          have hrow := c09x_readCells_grid env f cs st _ hc
          simp only at ih hrow
          simp [c09x_xmlGrid, c09x_xmlHdr, c11x_named] at ih ⊢
          exact ⟨⟨hrow, ih.1⟩, ih.2⟩
    · rw [if_neg hn] at h
      cases hr : c09x_readRows env f st rest with
      | error e => rw [hr] at h; cases h
      | ok q2 =>
        obtain ⟨⟨rows, extra, msgs⟩, st2⟩ := q2
        rw [hr] at h; dsimp only at h
        cases h
        have ih := c09x_readRows_grid env f rest st _ hr
        simp only at ih
        simp [c09x_xmlGrid, c09x_xmlHdr, c11x_named, hn] at ih ⊢
        exact ih

end Mammoth
