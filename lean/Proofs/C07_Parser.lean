/-
  C07 — the recursive-descent parser's loops (`parseAlts`, `parseAttrs`, `parseMoreElements`)
  consume at least one token per iteration, so their result does not depend on the fuel as
  soon as the fuel is at least the number of tokens left.
-/
import MammothModel.Dsl
namespace Mammoth

theorem c07_trySkip_len {ty v ts r} (h : trySkip ty v ts = some r) : r.length + 1 = ts.length := by
  cases ts with
  | nil => simp [trySkip] at h
  | cons t ts => simp [trySkip] at h; obtain ⟨_, rfl⟩ := h; simp

theorem c07_trySkipTy_len {ty ts r} (h : trySkipTy ty ts = some r) : r.length + 1 = ts.length := by
  cases ts with
  | nil => simp [trySkipTy] at h
  | cons t ts => simp [trySkipTy] at h; obtain ⟨_, rfl⟩ := h; simp

theorem c07_nextValue_len {ty ts v r} (h : nextValue ty ts = some (v, r)) : r.length + 1 = ts.length := by
  cases ts with
  | nil => simp [nextValue] at h
  | cons t ts => simp [nextValue] at h; obtain ⟨_, _, rfl⟩ := h; simp

theorem c07_parseIdentifier_len {ts v r} (h : parseIdentifier ts = some (v, r)) : r.length + 1 = ts.length := by
  unfold parseIdentifier at h
  cases h' : nextValue .identifier ts with
  | none => simp [h'] at h
  | some p => 
    obtain ⟨v', r'⟩ := p
    simp [h'] at h
    obtain ⟨_, rfl⟩ := h
    exact c07_nextValue_len h'

theorem c07_parseString_len {ts v r} (h : parseString ts = some (v, r)) : r.length + 1 = ts.length := by
  unfold parseString at h
  cases h' : nextValue .string ts with
  | none => simp [h'] at h
  | some p => 
    obtain ⟨v', r'⟩ := p
    simp [h'] at h
    obtain ⟨_, rfl⟩ := h
    exact c07_nextValue_len h'

theorem c07_parseAlts_len : ∀ f ts x r, parseAlts f ts = some (x, r) → r.length ≤ ts.length := by
  intro f
  induction f with
  | zero => intro ts x r h; simp [parseAlts] at h; obtain ⟨_, rfl⟩ := h; exact Nat.le_refl _
  | succ f ih =>
    intro ts x r h
    rw [parseAlts] at h
    cases h1 : trySkip .symbol ['|'] ts with
    | none => simp [h1] at h; obtain ⟨_, rfl⟩ := h; exact Nat.le_refl _
    | some r1 =>
      simp only [h1] at h
      cases h2 : parseIdentifier r1 with
      | none => simp [h2] at h
      | some p =>
        obtain ⟨n, r2⟩ := p
        cases h3 : parseAlts f r2 with
        | none => simp [h2, h3] at h
        | some q =>
          obtain ⟨ns, r3⟩ := q
          simp [h2, h3] at h
          obtain ⟨_, rfl⟩ := h
          have := ih _ _ _ h3
          have := c07_trySkip_len h1
          have := c07_parseIdentifier_len h2
          omega

theorem c07_parseAlts_stable : ∀ f g ts, ts.length ≤ f → ts.length ≤ g → parseAlts f ts = parseAlts g ts := by
  intro f
  induction f with
  | zero =>
    intro g ts h _
    have : ts = [] := List.eq_nil_of_length_eq_zero (by omega)
    subst this
    cases g <;> simp [parseAlts, trySkip]
  | succ f ih =>
    intro g ts hf hg
    cases g with
    | zero =>
      have : ts = [] := List.eq_nil_of_length_eq_zero (by omega)
      subst this
      simp [parseAlts, trySkip]
    | succ g =>
      rw [parseAlts, parseAlts]
      cases h1 : trySkip .symbol ['|'] ts with
      | none => rfl
      | some r1 =>
        simp only
        cases h2 : parseIdentifier r1 with
        | none => rfl
        | some p =>
          obtain ⟨n, r2⟩ := p
          have := c07_trySkip_len h1
          have := c07_parseIdentifier_len h2
          simp only [bind, Option.bind]
          rw [ih g r2 (by omega) (by omega)]

theorem c07_parseAttrs_succ (f : Nat) (ts : List Token) : parseAttrs (f+1) ts =
    match ts with
    | ⟨.symbol, ['[']⟩ :: r => do
      let (name, r) ← parseIdentifier r
      let r ← trySkip .symbol ['='] r
      let (v, r) ← parseString r
      let r ← trySkip .symbol [']'] r
      let (rest, r) ← parseAttrs f r
      pure (.attr name v :: rest, r)
    | ⟨.symbol, ['.']⟩ :: r => do
      let (c, r) ← parseIdentifier r
      let (rest, r) ← parseAttrs f r
      pure (.cls c :: rest, r)
    | _ => some ([], ts) := by
  split <;> simp [parseAttrs]

theorem c07_parseAttrs_len : ∀ f ts x r, parseAttrs f ts = some (x, r) → r.length ≤ ts.length := by
  intro f
  induction f with
  | zero => intro ts x r h; simp [parseAttrs] at h; obtain ⟨_, rfl⟩ := h; exact Nat.le_refl _
  | succ f ih =>
    intro ts x r h
    rw [c07_parseAttrs_succ] at h
    split at h
    · rename_i r0
      cases h1 : parseIdentifier r0 with
      | none => simp [h1] at h
      | some p1 =>
        obtain ⟨name, r1⟩ := p1
        cases h2 : trySkip .symbol ['='] r1 with
        | none => simp [h1, h2] at h
        | some r2 =>
          cases h3 : parseString r2 with
          | none => simp [h1, h2, h3] at h
          | some p3 =>
            obtain ⟨v, r3⟩ := p3
            cases h4 : trySkip .symbol [']'] r3 with
            | none => simp [h1, h2, h3, h4] at h
            | some r4 =>
              cases h5 : parseAttrs f r4 with
              | none => simp [h1, h2, h3, h4, h5] at h
              | some p5 =>
                obtain ⟨rest, r5⟩ := p5
                simp [h1, h2, h3, h4, h5] at h
                obtain ⟨_, rfl⟩ := h
                have := ih _ _ _ h5
                have := c07_parseIdentifier_len h1
                have := c07_trySkip_len h2
                have := c07_parseString_len h3
                have := c07_trySkip_len h4
                simp; omega
    · rename_i r0
      cases h1 : parseIdentifier r0 with
      | none => simp [h1] at h
      | some p1 =>
        obtain ⟨name, r1⟩ := p1
        cases h5 : parseAttrs f r1 with
        | none => simp [h1, h5] at h
        | some p5 =>
          obtain ⟨rest, r5⟩ := p5
          simp [h1, h5] at h
          obtain ⟨_, rfl⟩ := h
          have := ih _ _ _ h5
          have := c07_parseIdentifier_len h1
          simp; omega
    · simp at h; obtain ⟨_, rfl⟩ := h; exact Nat.le_refl _

theorem c07_parseAttrs_stable : ∀ f g ts, ts.length ≤ f → ts.length ≤ g → parseAttrs f ts = parseAttrs g ts := by
  intro f
  induction f with
  | zero =>
    intro g ts h _
    have : ts = [] := List.eq_nil_of_length_eq_zero (by omega)
    subst this
    cases g <;> simp [parseAttrs]
  | succ f ih =>
    intro g ts hf hg
    cases g with
    | zero =>
      have : ts = [] := List.eq_nil_of_length_eq_zero (by omega)
      subst this
      simp [parseAttrs]
    | succ g =>
      rw [c07_parseAttrs_succ, c07_parseAttrs_succ]
      split
      · rename_i r0
        simp only [List.length_cons] at hf hg
        simp only [bind, Option.bind]
        cases h1 : parseIdentifier r0 with
        | none => rfl
        | some p1 =>
          obtain ⟨name, r1⟩ := p1
          simp only
          cases h2 : trySkip .symbol ['='] r1 with
          | none => rfl
          | some r2 =>
            simp only
            cases h3 : parseString r2 with
            | none => rfl
            | some p3 =>
              obtain ⟨v, r3⟩ := p3
              simp only
              cases h4 : trySkip .symbol [']'] r3 with
              | none => rfl
              | some r4 =>
                have := c07_parseIdentifier_len h1
                have := c07_trySkip_len h2
                have := c07_parseString_len h3
                have := c07_trySkip_len h4
                simp only
                rw [ih g r4 (by omega) (by omega)]
      · rename_i r0
        simp only [List.length_cons] at hf hg
        simp only [bind, Option.bind]
        cases h1 : parseIdentifier r0 with
        | none => rfl
        | some p1 =>
          obtain ⟨name, r1⟩ := p1
          have := c07_parseIdentifier_len h1
          simp only
          rw [ih g r1 (by omega) (by omega)]
      · rfl

theorem c07_trySkipColonWord_len {w ts r} (h : trySkipColonWord w ts = some r) : r.length + 2 = ts.length := by
  unfold trySkipColonWord at h
  split at h
  · split at h
    · simp at h; subst h; simp
    · simp at h
  · simp at h

theorem c07_parseElement_stable (f g : Nat) (ts : List Token) (hf : ts.length ≤ f) (hg : ts.length ≤ g) :
    parseElement f ts = parseElement g ts := by
  unfold parseElement
  simp only [bind, Option.bind]
  cases h1 : parseIdentifier ts with
  | none => rfl
  | some p1 =>
    obtain ⟨n, r1⟩ := p1
    have := c07_parseIdentifier_len h1
    simp only
    rw [c07_parseAlts_stable f g r1 (by omega) (by omega)]
    cases h2 : parseAlts g r1 with
    | none => rfl
    | some p2 =>
      obtain ⟨alts, r2⟩ := p2
      have := c07_parseAlts_len _ _ _ _ h2
      simp only
      rw [c07_parseAttrs_stable f g r2 (by omega) (by omega)]

theorem c07_parseElement_len (f : Nat) (ts : List Token) (e : Tag) (r : List Token)
    (h : parseElement f ts = some (e, r)) : r.length < ts.length := by
  unfold parseElement at h
  simp only [Option.bind_eq_bind, Option.bind_eq_some_iff, Prod.exists] at h
  obtain ⟨n, r1, h1, alts, r2, h2, acs, r3, h3, sep, r5, h4, h5⟩ := h
  have := c07_parseIdentifier_len h1
  have := c07_parseAlts_len _ _ _ _ h2
  have := c07_parseAttrs_len _ _ _ _ h3
  simp only [pure, Option.some.injEq, Prod.mk.injEq] at h5
  obtain ⟨_, h5⟩ := h5
  rw [← h5]
  suffices r5.length ≤ r3.length by omega
  split at h4
  · rename_i r' hsep
    have hl := c07_trySkipColonWord_len hsep
    simp only [Option.bind_eq_some_iff, Prod.exists, pure] at h4
    obtain ⟨r6, h6, v, r7, h7, r8, h8, h9⟩ := h4
    have := c07_trySkip_len h6
    have := c07_parseString_len h7
    have := c07_trySkip_len h8
    simp at h9
    obtain ⟨_, h9⟩ := h9
    rw [← h9]
    split at hl
    · rename_i hf; have := c07_trySkipColonWord_len hf; simp only at *; omega
    · simp only at *; omega
  · simp at h4
    obtain ⟨_, h4⟩ := h4
    rw [← h4]
    split
    · rename_i hf; have := c07_trySkipColonWord_len hf; simp only; omega
    · exact Nat.le_refl _

theorem c07_parseMoreElements_succ (f : Nat) (ts : List Token) : parseMoreElements (f+1) ts =
    match ts with
    | ⟨.whitespace, _⟩ :: ⟨.symbol, ['>']⟩ :: r => do
      let r ← trySkipTy .whitespace r
      let (e, r) ← parseElement (f+1) r
      let (es, r) ← parseMoreElements f r
      pure (e :: es, r)
    | _ => some ([], ts) := by
  split <;> simp [parseMoreElements]

theorem c07_parseMoreElements_stable : ∀ f g ts, ts.length ≤ f → ts.length ≤ g →
    parseMoreElements f ts = parseMoreElements g ts := by
  intro f
  induction f with
  | zero =>
    intro g ts h _
    have : ts = [] := List.eq_nil_of_length_eq_zero (by omega)
    subst this
    cases g <;> simp [parseMoreElements]
  | succ f ih =>
    intro g ts hf hg
    cases g with
    | zero =>
      have : ts = [] := List.eq_nil_of_length_eq_zero (by omega)
      subst this
      simp [parseMoreElements]
    | succ g =>
      rw [c07_parseMoreElements_succ, c07_parseMoreElements_succ]
      split
      · rename_i v r0
        simp only [List.length_cons] at hf hg
        simp only [bind, Option.bind]
        cases h1 : trySkipTy .whitespace r0 with
        | none => rfl
        | some r1 =>
          have := c07_trySkipTy_len h1
          simp only
          rw [c07_parseElement_stable (f+1) (g+1) r1 (by omega) (by omega)]
          cases h2 : parseElement (g+1) r1 with
          | none => rfl
          | some p2 =>
            obtain ⟨e, r2⟩ := p2
            have := c07_parseElement_len _ _ _ _ h2
            simp only
            rw [ih g r2 (by omega) (by omega)]
      · rfl

theorem c07_parseHtmlPath_stable (f g : Nat) (ts : List Token) (hf : ts.length ≤ f) (hg : ts.length ≤ g) :
    parseHtmlPath f ts = parseHtmlPath g ts := by
  unfold parseHtmlPath
  split
  · rfl
  · split
    · simp only [bind, Option.bind]
      rw [c07_parseElement_stable f g _ hf hg]
      cases h2 : parseElement g _ with
      | none => rfl
      | some p2 =>
        obtain ⟨e, r2⟩ := p2
        have := c07_parseElement_len _ _ _ _ h2
        simp only
        rw [c07_parseMoreElements_stable f g r2 (by omega) (by omega)]
    · rfl

theorem c07_tryParseClassName_len {ts v r} (h : tryParseClassName ts = some (v, r)) : r.length ≤ ts.length := by
  unfold tryParseClassName at h
  split at h
  · rename_i r0 h0
    have := c07_trySkip_len h0
    simp only [Option.map_eq_some_iff, Prod.exists] at h
    obtain ⟨a, b, h1, h2⟩ := h
    have := c07_parseIdentifier_len h1
    simp at h2; obtain ⟨_, h2⟩ := h2; rw [← h2]; omega
  · simp at h; obtain ⟨_, h⟩ := h; rw [← h]; exact Nat.le_refl _

theorem c07_parseStringMatcher_len {ts v r} (h : parseStringMatcher ts = some (v, r)) : r.length ≤ ts.length := by
  unfold parseStringMatcher at h
  split at h
  · rename_i r0 h0
    have := c07_trySkip_len h0
    simp only [Option.map_eq_some_iff, Prod.exists] at h
    obtain ⟨a, b, h1, h2⟩ := h
    have := c07_parseString_len h1
    simp at h2; obtain ⟨_, h2⟩ := h2; rw [← h2]; omega
  · split at h
    · rename_i r0 h0
      have := c07_trySkip_len h0
      simp only [Option.map_eq_some_iff, Prod.exists] at h
      obtain ⟨a, b, h1, h2⟩ := h
      have := c07_parseString_len h1
      simp at h2; obtain ⟨_, h2⟩ := h2; rw [← h2]; omega
    · simp at h

theorem c07_parseStyleName_len {ts v r} (h : parseStyleName ts = some (v, r)) : r.length ≤ ts.length := by
  unfold parseStyleName at h
  split at h
  · rename_i r0 h0
    have := c07_trySkip_len h0
    simp only [Option.bind_eq_bind, Option.bind_eq_some_iff, Prod.exists, pure] at h
    obtain ⟨r1, h1, m, r2, h2, r3, h3, h4⟩ := h
    have := c07_trySkip_len h1
    have := c07_parseStringMatcher_len h2
    have := c07_trySkip_len h3
    simp at h4; obtain ⟨_, h4⟩ := h4; rw [← h4]; omega
  · simp at h; obtain ⟨_, h⟩ := h; rw [← h]; exact Nat.le_refl _

theorem c07_parseNumbering_len {ts v r} (h : parseNumbering ts = some (v, r)) : r.length ≤ ts.length := by
  unfold parseNumbering at h
  split at h
  · rename_i r0 h0
    have := c07_trySkip_len h0
    simp only [Option.bind_eq_bind, Option.bind_eq_some_iff, Prod.exists, pure] at h
    obtain ⟨lt, r1, h1, ordered, _, r2, h2, digits, r3, h3, r4, h4, h5⟩ := h
    have := c07_nextValue_len h1
    have := c07_trySkip_len h2
    have := c07_nextValue_len h3
    split at h4
    · simp at h4
    · have := c07_trySkip_len h4
      simp at h5; obtain ⟨_, h5⟩ := h5; rw [← h5]; omega
  · simp at h; obtain ⟨_, h⟩ := h; rw [← h]; exact Nat.le_refl _

theorem c07_parseBracketString_len {key ts v r} (h : parseBracketString key ts = some (v, r)) : r.length ≤ ts.length := by
  unfold parseBracketString at h
  simp only [Option.bind_eq_bind, Option.bind_eq_some_iff, Prod.exists, pure] at h
  obtain ⟨r1, h1, r2, h2, r3, h3, v', r4, h4, r5, h5, h6⟩ := h
  have := c07_trySkip_len h1
  have := c07_trySkip_len h2
  have := c07_trySkip_len h3
  have := c07_parseString_len h4
  have := c07_trySkip_len h5
  simp at h6; obtain ⟨_, h6⟩ := h6; rw [← h6]; omega

theorem c07_parseDocumentMatcher_len {ts m r} (h : parseDocumentMatcher ts = some (m, r)) : r.length ≤ ts.length := by
  unfold parseDocumentMatcher at h
  split at h
  · rename_i name r0
    simp only [List.length_cons]
    suffices r.length ≤ r0.length by omega
    have hsimple : ∀ (x : Matcher), some (x, r0) = some (m, r) → r.length ≤ r0.length := by
      intro x hx; simp at hx; rw [← hx.2]; exact Nat.le_refl _
    by_cases h0 : (name == S!"p") = true
    · rw [if_pos h0] at h
      simp only [Option.bind_eq_bind, Option.bind_eq_some_iff, Prod.exists, pure] at h
      obtain ⟨sid, r1, e1, sn, r2, e2, num, r3, e3, e4⟩ := h
      have := c07_tryParseClassName_len e1
      have := c07_parseStyleName_len e2
      have := c07_parseNumbering_len e3
      simp at e4; rw [← e4.2]; omega
    rw [if_neg h0] at h
    by_cases h1 : (name == S!"r") = true
    · rw [if_pos h1] at h
      simp only [Option.bind_eq_bind, Option.bind_eq_some_iff, Prod.exists, pure] at h
      obtain ⟨sid, r1, e1, sn, r2, e2, e4⟩ := h
      have := c07_tryParseClassName_len e1
      have := c07_parseStyleName_len e2
      simp at e4; rw [← e4.2]; omega
    rw [if_neg h1] at h
    by_cases h2 : (name == S!"table") = true
    · rw [if_pos h2] at h
      simp only [Option.bind_eq_bind, Option.bind_eq_some_iff, Prod.exists, pure] at h
      obtain ⟨sid, r1, e1, sn, r2, e2, e4⟩ := h
      have := c07_tryParseClassName_len e1
      have := c07_parseStyleName_len e2
      simp at e4; rw [← e4.2]; omega
    rw [if_neg h2] at h
    by_cases h3 : (name == S!"b") = true
    · rw [if_pos h3] at h
      exact hsimple _ h
    rw [if_neg h3] at h
    by_cases h4 : (name == S!"i") = true
    · rw [if_pos h4] at h
      exact hsimple _ h
    rw [if_neg h4] at h
    by_cases h5 : (name == S!"u") = true
    · rw [if_pos h5] at h
      exact hsimple _ h
    rw [if_neg h5] at h
    by_cases h6 : (name == S!"strike") = true
    · rw [if_pos h6] at h
      exact hsimple _ h
    rw [if_neg h6] at h
    by_cases h7 : (name == S!"all-caps") = true
    · rw [if_pos h7] at h
      exact hsimple _ h
    rw [if_neg h7] at h
    by_cases h8 : (name == S!"small-caps") = true
    · rw [if_pos h8] at h
      exact hsimple _ h
    rw [if_neg h8] at h
    by_cases h9 : (name == S!"highlight") = true
    · rw [if_pos h9] at h
      split at h
      · simp only [Option.map_eq_some_iff, Prod.exists] at h
        obtain ⟨c, r1, e1, e2⟩ := h
        have := c07_parseBracketString_len e1
        simp at e2; rw [← e2.2]; omega
      · exact hsimple _ h
    rw [if_neg h9] at h
    by_cases h10 : (name == S!"comment-reference") = true
    · rw [if_pos h10] at h
      exact hsimple _ h
    rw [if_neg h10] at h
    by_cases h11 : (name == S!"br") = true
    · rw [if_pos h11] at h
      simp only [Option.bind_eq_bind, Option.bind_eq_some_iff, Prod.exists, pure] at h
      obtain ⟨ty, r1, e1, e2⟩ := h
      have := c07_parseBracketString_len e1
      split at e2
      · simp at e2; rw [← e2.2]; omega
      · simp at e2
    rw [if_neg h11] at h
    simp at h
  · simp at h

/-- `parseStyleMapping` with the fuel of the html-path loops as a parameter -/
def c07_parseStyleMappingFuel (fuel : Nat) (ts : List Token) : Option Style := do
  let (m, r) ← parseDocumentMatcher ts
  let r ← trySkipTy .whitespace r
  let r ← trySkip .symbol ['=', '>'] r
  let r := (trySkipTy .whitespace r).getD r
  let (p, r) ← parseHtmlPath fuel r
  let _ ← trySkipTy .end r
  pure ⟨m, p⟩

theorem c07_parseStyleMappingFuel_self (ts : List Token) :
    c07_parseStyleMappingFuel ts.length ts = parseStyleMapping ts := rfl

theorem c07_parseStyleMappingFuel_stable (ts : List Token) (fuel : Nat) (h : ts.length ≤ fuel) :
    c07_parseStyleMappingFuel fuel ts = parseStyleMapping ts := by
  rw [← c07_parseStyleMappingFuel_self]
  unfold c07_parseStyleMappingFuel
  simp only [bind, Option.bind]
  cases h1 : parseDocumentMatcher ts with
  | none => rfl
  | some p1 =>
    obtain ⟨m, r1⟩ := p1
    have := c07_parseDocumentMatcher_len h1
    simp only
    cases h2 : trySkipTy .whitespace r1 with
    | none => rfl
    | some r2 =>
      have := c07_trySkipTy_len h2
      simp only
      cases h3 : trySkip .symbol ['=', '>'] r2 with
      | none => rfl
      | some r3 =>
        have := c07_trySkip_len h3
        simp only
        have : ((trySkipTy .whitespace r3).getD r3).length ≤ r3.length := by
          cases h4 : trySkipTy .whitespace r3 with
          | none => exact Nat.le_refl _
          | some r4 => have := c07_trySkipTy_len h4; simp; omega
        rw [c07_parseHtmlPath_stable fuel ts.length _ (by omega) (by omega)]

theorem c07_parseAlts_consumes : ∀ f ts x r, parseAlts f ts = some (x, r) → r.length + 2 * x.length ≤ ts.length := by
  intro f
  induction f with
  | zero => intro ts x r h; simp [parseAlts] at h; obtain ⟨rfl, rfl⟩ := h; simp
  | succ f ih =>
    intro ts x r h
    rw [parseAlts] at h
    cases h1 : trySkip .symbol ['|'] ts with
    | none => simp [h1] at h; obtain ⟨rfl, rfl⟩ := h; simp
    | some r1 =>
      simp only [h1] at h
      cases h2 : parseIdentifier r1 with
      | none => simp [h2] at h
      | some p =>
        obtain ⟨n, r2⟩ := p
        cases h3 : parseAlts f r2 with
        | none => simp [h2, h3] at h
        | some q =>
          obtain ⟨ns, r3⟩ := q
          simp [h2, h3] at h
          obtain ⟨rfl, rfl⟩ := h
          have := ih _ _ _ h3
          simp only [List.length_cons]
          have := c07_trySkip_len h1
          have := c07_parseIdentifier_len h2
          omega

theorem c07_parseAttrs_consumes : ∀ f ts x r, parseAttrs f ts = some (x, r) → r.length + 2 * x.length ≤ ts.length := by
  intro f
  induction f with
  | zero => intro ts x r h; simp [parseAttrs] at h; obtain ⟨rfl, rfl⟩ := h; simp
  | succ f ih =>
    intro ts x r h
    rw [c07_parseAttrs_succ] at h
    split at h
    · rename_i r0
      cases h1 : parseIdentifier r0 with
      | none => simp [h1] at h
      | some p1 =>
        obtain ⟨name, r1⟩ := p1
        cases h2 : trySkip .symbol ['='] r1 with
        | none => simp [h1, h2] at h
        | some r2 =>
          cases h3 : parseString r2 with
          | none => simp [h1, h2, h3] at h
          | some p3 =>
            obtain ⟨v, r3⟩ := p3
            cases h4 : trySkip .symbol [']'] r3 with
            | none => simp [h1, h2, h3, h4] at h
            | some r4 =>
              cases h5 : parseAttrs f r4 with
              | none => simp [h1, h2, h3, h4, h5] at h
              | some p5 =>
                obtain ⟨rest, r5⟩ := p5
                simp [h1, h2, h3, h4, h5] at h
                obtain ⟨rfl, rfl⟩ := h
                have := ih _ _ _ h5
                have := c07_parseIdentifier_len h1
                have := c07_trySkip_len h2
                have := c07_parseString_len h3
                have := c07_trySkip_len h4
                simp; omega
    · rename_i r0
      cases h1 : parseIdentifier r0 with
      | none => simp [h1] at h
      | some p1 =>
        obtain ⟨name, r1⟩ := p1
        cases h5 : parseAttrs f r1 with
        | none => simp [h1, h5] at h
        | some p5 =>
          obtain ⟨rest, r5⟩ := p5
          simp [h1, h5] at h
          obtain ⟨rfl, rfl⟩ := h
          have := ih _ _ _ h5
          have := c07_parseIdentifier_len h1
          simp; omega
    · simp at h; obtain ⟨rfl, rfl⟩ := h; simp

theorem c07_parseMoreElements_consumes : ∀ f ts x r, parseMoreElements f ts = some (x, r) →
    r.length + 4 * x.length ≤ ts.length := by
  intro f
  induction f with
  | zero => intro ts x r h; simp [parseMoreElements] at h; obtain ⟨rfl, rfl⟩ := h; simp
  | succ f ih =>
    intro ts x r h
    rw [c07_parseMoreElements_succ] at h
    split at h
    · rename_i v r0
      simp only [Option.bind_eq_bind, Option.bind_eq_some_iff, Prod.exists, pure] at h
      obtain ⟨r1, h1, e, r2, h2, es, r3, h3, h4⟩ := h
      have := c07_trySkipTy_len h1
      have := c07_parseElement_len _ _ _ _ h2
      have := ih _ _ _ h3
      simp at h4
      obtain ⟨rfl, rfl⟩ := h4
      simp only [List.length_cons]; omega
    · simp at h; obtain ⟨rfl, rfl⟩ := h; simp

end Mammoth
