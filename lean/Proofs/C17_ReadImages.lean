/-
  C17, reader half — the element reader refines `c17_xmlImages`: for every environment, fuel, reader state
  and XML node, if the reader returns, the images of the elements it returns (and of its `extra` result)
  are those of the specification, the buffer of the specification being the images of the XML nodes the
  reader holds back (`c17_pend`).  Same shape as `Proofs/C01_ReadDefer.lean`.
-/
import Proofs.C17_ReadAtoms
import Proofs.C01_ReadDefer
namespace Mammoth

/-- the result `r` carries the images `l`: in line and in the extra channel (each up to the row-span sweep) -/
def c17_Sim (nv : Bool) (r : ReadResult) (l : c17_Imgs) : Prop :=
  c17_Pre nv r.elements l.inline ∧ c17_Pre nv r.extra l.extra

theorem c17_Sim_mono {nv nv' : Bool} {r : ReadResult} {l : c17_Imgs} (hm : nv' = true → nv = true)
    (h : c17_Sim nv r l) : c17_Sim nv' r l := ⟨c17_Pre_mono hm h.1, c17_Pre_mono hm h.2⟩

theorem c17_Sim_empty (nv : Bool) : c17_Sim nv {} {} := ⟨c17_Pre_nil nv, c17_Pre_nil nv⟩

theorem c17_Sim_concat {nv : Bool} {a b : ReadResult} {la lb : c17_Imgs}
    (ha : c17_Sim nv a la) (hb : c17_Sim nv b lb) : c17_Sim nv (a.concat b) (la.append lb) :=
  ⟨c17_Pre_append ha.1 hb.1, c17_Pre_append ha.2 hb.2⟩

theorem c17_Sim_leaf (nv : Bool) {r : ReadResult} {l : List ImageProps} (h : c17_leafRes r l) :
    c17_Sim nv r ⟨l, []⟩ := by
  obtain ⟨h1, h2, h3⟩ := h
  refine ⟨?_, ?_⟩
  · have := c17_Pre_atoms nv r.elements h2
    rw [h3] at this; exact this
  · rw [h1]; exact c17_Pre_nil nv

/-- starting in state `st`, the reader returned `r` and ended in `st'`; the specification, started with
    the buffer that stands for `st.deleted`, returned `s`:
    `r` carries the images of `s`, and the buffer of `s` stands for `st'.deleted` -/
structure c17_P2 (env : REnv) (st : RState) (nvn : Bool) (s : c17_ImgsD) (r : ReadResult) (st' : RState) : Prop where
  sim : c17_Sim (c01_noVMergeL st.deleted && nvn) r s.live
  buf : c17_pend env st'.deleted = s.buf
  nv : (c01_noVMergeL st.deleted && nvn) = true → c01_noVMergeL st'.deleted = true

theorem c17_P2_mono {env : REnv} {st : RState} {nvn nvn' : Bool} {s : c17_ImgsD} {r : ReadResult} {st' : RState}
    (hm : nvn' = true → nvn = true) (h : c17_P2 env st nvn s r st') : c17_P2 env st nvn' s r st' :=
  ⟨c17_Sim_mono (c01_nv_mono hm) h.sim, h.buf, fun hv => h.nv (c01_nv_mono hm hv)⟩

/-- an element that is a leaf of the traversal: the held-back nodes are left alone -/
theorem c17_P2_leaf (env : REnv) (st : RState) (nvn : Bool) {r : ReadResult} {l : List ImageProps} {st' : RState}
    (hd : st'.deleted = st.deleted) (hr : c17_leafRes r l) :
    c17_P2 env st nvn ⟨⟨l, []⟩, c17_pend env st.deleted⟩ r st' :=
  ⟨c17_Sim_leaf _ hr, by rw [hd], fun hv => by rw [hd]; simp only [Bool.and_eq_true] at hv; exact hv.1⟩

theorem c17_leafRes_elems (es : List Elem) (h1 : es.all c01_atom = true) (h2 : c17_elemImagesL es = []) :
    c17_leafRes (rrElems es) [] := ⟨rfl, h1, h2⟩

/-- one element, given the reader for lists of children -/
theorem c17_readBody_images (env : REnv) (ra : c05_RdAll)
    (ih : ∀ st ns r st', ra st ns = .ok (r, st') →
        c17_P2 env st (c01_noVMergeL ns) (c17_xmlImagesL env (c17_pend env st.deleted) ns) r st')
    (st : RState) (name : Str) (as : Attrs) (cs : List XmlNode) (r : ReadResult) (st' : RState)
    (h : c05_readBody env ra st name as cs = .ok (r, st')) :
    c17_P2 env st (c01_noVMerge (.elem name as cs))
      (c17_xmlImages env (c17_pend env st.deleted) (.elem name as cs)) r st' := by
  have hnvc : c01_noVMerge (.elem name as cs) = true → c01_noVMergeL cs = true := by
    intro h; simp only [c01_noVMerge, Bool.and_eq_true] at h; exact h.2
  unfold c05_readBody at h
  cases hg : handlerOf name with
  | none =>
    rw [hg] at h; dsimp only at h
    rw [c17_xmlImages_skip env _ as cs (c17_kindOf_none hg)]
    split at h
    · cases h; exact c17_P2_leaf env st _ rfl c17_leafRes_empty
    · cases h; exact c17_P2_leaf env st _ rfl (c17_leafRes_msg _)
  | some g =>
    rw [hg] at h; dsimp only at h
    -- text
    c01_next
    · have := eq_of_beq hc; subst this
      cases h
      rw [c17_xmlImages_skip env _ as cs (c17_hk hg (by decide))]
      exact c17_P2_leaf env st _ rfl (c17_leafRes_elems _ rfl (by simp [c17_elemImages]))
    -- run
    c01_next
    · have := eq_of_beq hc; subst this
      rw [c17_xmlImages_through env _ as cs (c17_hk hg (by decide))]
      obtain ⟨⟨r1, st1⟩, hra, h⟩ := c01_bind_ok h
      simp only [pure, Except.pure, Except.ok.injEq, Prod.mk.injEq] at h
      obtain ⟨rfl, rfl⟩ := h
      have hp := c17_P2_mono hnvc (ih _ _ _ _ hra)
      refine ⟨⟨c17_Pre_run _ ?_, hp.sim.2⟩, hp.buf, hp.nv⟩
      cases currentHyperlink st1.stack with
      | none => exact hp.sim.1
      | some kw => exact c17_Pre_hyperlink kw hp.sim.1
    -- paragraph
    c01_next
    · have := eq_of_beq hc; subst this
      rw [c17_xmlImages_paragraph env _ as cs (c17_hk hg (by decide))]
      have key := c17_pend_key env st.deleted cs
      unfold c01_delMark
      c01_next
      · -- the mark is deleted: the content joins the held-back nodes
        rw [if_pos hc]
        simp only [Except.ok.injEq, Prod.mk.injEq] at h
        obtain ⟨rfl, rfl⟩ := h
        refine ⟨c17_Sim_empty _, ?_, fun hv => ?_⟩
        · show c17_pend env (st.deleted ++ cs) = _
          rw [← key.1, ← key.2]; rfl
        · show c01_noVMergeL (st.deleted ++ cs) = true
          simp only [Bool.and_eq_true] at hv
          rw [c01_noVMergeL_append, hv.1, hnvc hv.2]; rfl
      · rename_i hnc
        rw [if_neg hnc]
        obtain ⟨⟨r1, st1⟩, hra, h⟩ := c01_bind_ok h
        obtain ⟨num, _, h⟩ := c01_bind_ok h
        simp only [pure, Except.pure, Except.ok.injEq, Prod.mk.injEq] at h
        obtain ⟨rfl, rfl⟩ := h
        have hp := ih _ _ _ _ hra
        have hb : c17_pend env ({ st with deleted := [] } : RState).deleted = [] := c17_pend_nil env
        rw [hb] at hp
        have hsim := hp.sim
        have hbuf := hp.buf
        rw [key.1] at hsim
        rw [key.2] at hbuf
        have hmono : (c01_noVMergeL st.deleted && c01_noVMerge (.elem name as cs)) = true →
            (c01_noVMergeL ({ st with deleted := [] } : RState).deleted && c01_noVMergeL (st.deleted ++ cs)) = true := by
          intro hv
          simp only [Bool.and_eq_true] at hv
          show (c01_noVMergeL [] && c01_noVMergeL (st.deleted ++ cs)) = true
          rw [c01_noVMergeL_append, hv.1, hnvc hv.2]; rfl
        have hsim := c17_Sim_mono hmono hsim
        refine ⟨⟨?_, c17_Pre_nil _⟩, hbuf, fun hv => hp.nv (hmono hv)⟩
        exact c17_Pre_append (a := [_]) (c17_Pre_paragraph _ hsim.1) hsim.2
    -- complex-field characters
    c01_next
    · have := eq_of_beq hc; subst this
      rw [c17_xmlImages_skip env _ as cs (c17_hk hg (by decide))]
      obtain ⟨hl, hd⟩ := c17_leafRes_fldChar st as cs r st' h
      exact c17_P2_leaf env st _ hd hl
    -- instruction text
    c01_next
    · have := eq_of_beq hc; subst this
      rw [c17_xmlImages_skip env _ as cs (c17_hk hg (by decide))]
      cases h; exact c17_P2_leaf env st _ rfl c17_leafRes_empty
    -- tab
    c01_next
    · have := eq_of_beq hc; subst this
      cases h
      rw [c17_xmlImages_skip env _ as cs (c17_hk hg (by decide))]
      exact c17_P2_leaf env st _ rfl (c17_leafRes_elems _ rfl (by simp [c17_elemImages]))
    -- no-break hyphen
    c01_next
    · have := eq_of_beq hc; subst this
      cases h
      rw [c17_xmlImages_skip env _ as cs (c17_hk hg (by decide))]
      exact c17_P2_leaf env st _ rfl (c17_leafRes_elems _ rfl (by simp [c17_elemImages]))
    -- soft hyphen
    c01_next
    · have := eq_of_beq hc; subst this
      cases h
      rw [c17_xmlImages_skip env _ as cs (c17_hk hg (by decide))]
      exact c17_P2_leaf env st _ rfl (c17_leafRes_elems _ rfl (by simp [c17_elemImages]))
    -- symbol
    c01_next
    · have := eq_of_beq hc; subst this
      rw [c17_xmlImages_skip env _ as cs (c17_hk hg (by decide))]
      cases hs : readSymbol as with
      | error e => rw [hs] at h; cases h
      | ok r1 =>
        rw [hs] at h
        simp only [Except.map, Except.ok.injEq, Prod.mk.injEq] at h
        obtain ⟨rfl, rfl⟩ := h
        exact c17_P2_leaf env st _ rfl (c17_leafRes_symbol as r1 hs)
    -- table
    c01_next
    · have := eq_of_beq hc; subst this
      rw [c17_xmlImages_through env _ as cs (c17_hk hg (by decide))]
      obtain ⟨⟨r1, st1⟩, hra, h⟩ := c01_bind_ok h
      simp only [pure, Except.pure, Except.ok.injEq, Prod.mk.injEq] at h
      obtain ⟨rfl, rfl⟩ := h
      have hp := c17_P2_mono hnvc (ih _ _ _ _ hra)
      exact ⟨⟨c17_Pre_table _ _ hp.sim.1, hp.sim.2⟩, hp.buf, hp.nv⟩
    -- table row
    c01_next
    · have := eq_of_beq hc; subst this
      rw [c17_xmlImages_through env _ as cs (c17_hk hg (by decide))]
      obtain ⟨⟨r1, st1⟩, hra, h⟩ := c01_bind_ok h
      simp only [pure, Except.pure, Except.ok.injEq, Prod.mk.injEq] at h
      obtain ⟨rfl, rfl⟩ := h
      have hp := c17_P2_mono hnvc (ih _ _ _ _ hra)
      exact ⟨⟨c17_Pre_row _ hp.sim.1, hp.sim.2⟩, hp.buf, hp.nv⟩
    -- table cell
    c01_next
    · have := eq_of_beq hc; subst this
      rw [c17_xmlImages_through env _ as cs (c17_hk hg (by decide))]
      repeat' split at h
      all_goals
        obtain ⟨colspan, hcol, h⟩ := c01_bind_ok h
        first
        | (cases hcol; done)
        | (obtain ⟨⟨r1, st1⟩, hra, h⟩ := c01_bind_ok h
           simp only [pure, Except.pure, Except.ok.injEq, Prod.mk.injEq] at h
           obtain ⟨rfl, rfl⟩ := h
           have hp := c17_P2_mono hnvc (ih _ _ _ _ hra)
           refine ⟨⟨c17_Pre_cell _ _ _ (fun hv => ?_) hp.sim.1, hp.sim.2⟩, hp.buf, hp.nv⟩
           simp only [Bool.and_eq_true] at hv
           exact c01_cell_vm hg hv.2)
    -- read-through containers
    c01_next
    · have := eq_of_beq hc; subst this
      rw [c17_xmlImages_through env _ as cs (c17_hk hg (by decide))]
      exact c17_P2_mono hnvc (ih _ _ _ _ h)
    -- text boxes
    c01_next
    · have := eq_of_beq hc; subst this
      rw [c17_xmlImages_pict env _ as cs (c17_hk hg (by decide))]
      obtain ⟨⟨r1, st1⟩, hra, h⟩ := c01_bind_ok h
      simp only [pure, Except.pure, Except.ok.injEq, Prod.mk.injEq] at h
      obtain ⟨rfl, rfl⟩ := h
      have hp := c17_P2_mono hnvc (ih _ _ _ _ hra)
      exact ⟨⟨c17_Pre_nil _, c17_Pre_append hp.sim.2 hp.sim.1⟩, hp.buf, hp.nv⟩
    -- hyperlink
    c01_next
    · have := eq_of_beq hc; subst this
      rw [c17_xmlImages_through env _ as cs (c17_hk hg (by decide))]
      obtain ⟨⟨r1, st1⟩, hra, h⟩ := c01_bind_ok h
      have hp := c17_P2_mono hnvc (ih _ _ _ _ hra)
      split at h
      · obtain ⟨href, _, h⟩ := c01_bind_ok h
        simp only [pure, Except.pure, Except.ok.injEq, Prod.mk.injEq] at h
        obtain ⟨rfl, rfl⟩ := h
        exact ⟨⟨c17_Pre_hyperlink _ hp.sim.1, hp.sim.2⟩, hp.buf, hp.nv⟩
      · split at h
        · simp only [pure, Except.pure, Except.ok.injEq, Prod.mk.injEq] at h
          obtain ⟨rfl, rfl⟩ := h
          exact ⟨⟨c17_Pre_hyperlink _ hp.sim.1, hp.sim.2⟩, hp.buf, hp.nv⟩
        · simp only [pure, Except.pure, Except.ok.injEq, Prod.mk.injEq] at h
          obtain ⟨rfl, rfl⟩ := h
          exact hp
    -- bookmark
    c01_next
    · have := eq_of_beq hc; subst this
      rw [c17_xmlImages_skip env _ as cs (c17_hk hg (by decide))]
      split at h
      · cases h; exact c17_P2_leaf env st _ rfl c17_leafRes_empty
      · cases h; exact c17_P2_leaf env st _ rfl (c17_leafRes_elems _ rfl (by simp [c17_elemImages]))
    -- break
    c01_next
    · have := eq_of_beq hc; subst this
      rw [c17_xmlImages_skip env _ as cs (c17_hk hg (by decide))]
      cases h; exact c17_P2_leaf env st _ rfl (c17_leafRes_break as)
    -- DrawingML image
    c01_next
    · have := eq_of_beq hc; subst this
      rw [c17_xmlImages_drawing env _ as cs (c17_hk hg (by decide))]
      cases hs : readInline env cs with
      | error e => rw [hs] at h; cases h
      | ok r1 =>
        rw [hs] at h
        simp only [Except.map, Except.ok.injEq, Prod.mk.injEq] at h
        obtain ⟨rfl, rfl⟩ := h
        exact c17_P2_leaf env st _ rfl (c17_leafRes_inline env cs r1 hs)
    -- VML image
    c01_next
    · have := eq_of_beq hc; subst this
      rw [c17_xmlImages_imagedata env _ as cs (c17_hk hg (by decide))]
      obtain ⟨hl, rfl⟩ := c17_leafRes_imagedata env as st r st' h
      exact c17_P2_leaf env st' _ rfl hl
    -- note references
    c01_next
    · rw [c17_xmlImages_skip env _ as cs (by
        rw [Bool.or_eq_true] at hc
        rcases hc with hc | hc
        · have := eq_of_beq hc; subst this; exact c17_hk hg (by decide)
        · have := eq_of_beq hc; subst this; exact c17_hk hg (by decide))]
      split at h
      · cases h
      · cases h
        exact c17_P2_leaf env st _ rfl (c17_leafRes_elems _ rfl (by simp [c17_elemImages]))
    -- comment references
    c01_next
    · have := eq_of_beq hc; subst this
      rw [c17_xmlImages_skip env _ as cs (c17_hk hg (by decide))]
      split at h
      · cases h
      · cases h
        exact c17_P2_leaf env st _ rfl (c17_leafRes_elems _ rfl (by simp [c17_elemImages]))
    -- alternate content
    c01_next
    · have := eq_of_beq hc; subst this
      rw [c17_xmlImages_alt env _ as cs (c17_hk hg (by decide))]
      exact c17_P2_mono (fun hv => c01_noVMergeL_findChild _ cs (hnvc hv)) (ih _ _ _ _ h)
    -- structured document tags
    c01_next
    · have := eq_of_beq hc; subst this
      rw [c17_xmlImages_sdt env _ as cs (c17_hk hg (by decide))]
      unfold c01_isCheckboxSdt
      split at h
      · rename_i hcb
        cases h
        rw [hcb]
        exact c17_P2_leaf env st _ rfl (c17_leafRes_elems _ rfl (by simp [c17_elemImages]))
      · rename_i hcb
        rw [hcb]
        exact c17_P2_mono (fun hv => c01_noVMergeL_findChild _ cs (hnvc hv)) (ih _ _ _ _ h)
    · cases h

/-- a list of siblings, given the element reader -/
theorem c17_readAllWith_images (env : REnv) (rd : c05_Rd)
    (hrd : ∀ st n r st', rd st n = .ok (r, st') →
        c17_P2 env st (c01_noVMerge n) (c17_xmlImages env (c17_pend env st.deleted) n) r st') :
    ∀ (ns : List XmlNode) (st : RState) (r : ReadResult) (st' : RState),
      readAllWith rd st ns = .ok (r, st') →
      c17_P2 env st (c01_noVMergeL ns) (c17_xmlImagesL env (c17_pend env st.deleted) ns) r st'
  | [], st, r, st', h => by
    simp only [readAllWith, Except.ok.injEq, Prod.mk.injEq] at h
    obtain ⟨rfl, rfl⟩ := h
    rw [c17_xmlImagesL_nil]
    exact ⟨c17_Sim_empty _, rfl, fun hv => by simp only [Bool.and_eq_true] at hv; exact hv.1⟩
  | .text s :: rest, st, r, st', h => by
    simp only [readAllWith] at h
    have := c17_readAllWith_images env rd hrd rest st r st' h
    rw [c17_xmlImagesL_cons, c17_xmlImages_text]
    simpa [c01_noVMergeL, c01_noVMerge] using this
  | .elem n as cs :: rest, st, r, st', h => by
    simp only [readAllWith] at h
    obtain ⟨⟨r1, st1⟩, h1, h⟩ := c01_bind_ok h
    obtain ⟨⟨r2, st2⟩, h2, h⟩ := c01_bind_ok h
    simp only [pure, Except.pure, Except.ok.injEq, Prod.mk.injEq] at h
    obtain ⟨rfl, rfl⟩ := h
    have p1 := hrd _ _ _ _ h1
    have p2 := c17_readAllWith_images env rd hrd rest st1 r2 st2 h2
    rw [p1.buf] at p2
    rw [c17_xmlImagesL_cons]
    have hv : (c01_noVMergeL st.deleted && c01_noVMergeL (.elem n as cs :: rest)) = true →
        (c01_noVMergeL st.deleted && c01_noVMerge (.elem n as cs)) = true ∧
        (c01_noVMergeL st1.deleted && c01_noVMergeL rest) = true := by
      intro hv
      simp only [c01_noVMergeL, Bool.and_eq_true] at hv
      have h1' : (c01_noVMergeL st.deleted && c01_noVMerge (.elem n as cs)) = true := by
        rw [hv.1, hv.2.1]; rfl
      exact ⟨h1', by rw [p1.nv h1', hv.2.2]; rfl⟩
    exact ⟨c17_Sim_concat (c17_Sim_mono (fun h' => (hv h').1) p1.sim) (c17_Sim_mono (fun h' => (hv h').2) p2.sim),
      p2.buf, fun h' => p2.nv (hv h').2⟩

/-- the element reader, for every amount of fuel -/
theorem c17_readElem_images (env : REnv) :
    ∀ (f : Nat) (st : RState) (n : XmlNode) (r : ReadResult) (st' : RState),
      readElem env f st n = .ok (r, st') →
      c17_P2 env st (c01_noVMerge n) (c17_xmlImages env (c17_pend env st.deleted) n) r st'
  | f, st, .text s, r, st', h => by
    rw [c05_readElem_text] at h
    simp only [Except.ok.injEq, Prod.mk.injEq] at h
    obtain ⟨rfl, rfl⟩ := h
    rw [c17_xmlImages_text]
    exact ⟨c17_Sim_empty _, rfl, fun hv => by simp only [Bool.and_eq_true] at hv; exact hv.1⟩
  | 0, st, .elem name as cs, r, st', h => by
    rw [c05_readElem_zero] at h; cases h
  | f+1, st, .elem name as cs, r, st', h => by
    rw [c05_readElem_succ] at h
    exact c17_readBody_images env _
      (fun st ns r st' h1 => c17_readAllWith_images env _ (c17_readElem_images env f) ns st r st' h1)
      st name as cs r st' h

/-- `read_all` -/
theorem c17_readAll_images (env : REnv) (f : Nat) (st : RState) (ns : List XmlNode) (r : ReadResult) (st' : RState)
    (h : readAll env f st ns = .ok (r, st')) :
    c17_P2 env st (c01_noVMergeL ns) (c17_xmlImagesL env (c17_pend env st.deleted) ns) r st' :=
  c17_readAllWith_images env _ (c17_readElem_images env f) ns st r st' h

end Mammoth
