import Properties.C04
import Properties.C14
