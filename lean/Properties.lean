import Properties.C01
import Properties.C02
import Properties.C04
import Properties.C08
import Properties.C10
import Properties.C14
import Properties.C17
