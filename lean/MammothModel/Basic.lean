/-
  Basic.lean — strings as `List Char` and the handful of Python `str`/`dict`
  operations the library uses.  No Mathlib import (the driver links this).
-/
namespace Mammoth

abbrev Str := List Char

-- `S!"abc"` is the literal `['a','b','c']` (expanded at elaboration time, so that
-- proofs never have to unfold `String.toList`).
open Lean in
macro:max "S!" s:str : term => do
  let elems ← s.getString.toList.toArray.mapM fun c => `($(Syntax.mkCharLit c))
  `(([$elems,*] : List Char))

/-- `Py_UNICODE_ISSPACE`: the set used by `str.strip()`, `str.isspace()` and by `\s`
    in a `str` pattern of `re`. -/
def isSpace (c : Char) : Bool :=
  let n := c.toNat
  (0x09 ≤ n && n ≤ 0x0D) || (0x1C ≤ n && n ≤ 0x20) || n == 0x85 || n == 0xA0 ||
  n == 0x1680 || (0x2000 ≤ n && n ≤ 0x200A) || n == 0x2028 || n == 0x2029 ||
  n == 0x202F || n == 0x205F || n == 0x3000

def lstripWs : Str → Str
  | [] => []
  | c :: cs => if isSpace c then lstripWs cs else c :: cs

def rstripWs (s : Str) : Str := (lstripWs s.reverse).reverse

/-- `str.strip()` -/
def strip (s : Str) : Str := rstripWs (lstripWs s)

/-- `str.lstrip("/")` -/
def lstripChar (ch : Char) : Str → Str
  | [] => []
  | c :: cs => if c == ch then lstripChar ch cs else c :: cs

/-- `str.split(sep)` for a one-character separator (always at least one piece). -/
def splitOnChar (sep : Char) : Str → List Str
  | [] => [[]]
  | c :: cs =>
    match splitOnChar sep cs with
    | [] => [[]]   -- unreachable
    | p :: ps => if c == sep then [] :: p :: ps else (c :: p) :: ps

def startsWith : Str → Str → Bool
  | _, [] => true
  | [], _ :: _ => false
  | c :: cs, p :: ps => c == p && startsWith cs ps

/-- lexicographic order by code point: Python's `<` on `str`. -/
def strLt : Str → Str → Bool
  | [], [] => false
  | [], _ :: _ => true
  | _ :: _, [] => false
  | a :: as, b :: bs => a.toNat < b.toNat || (a == b && strLt as bs)

def natToStr (n : Nat) : Str := (toString n).toList

def joinWith (sep : Str) : List Str → Str
  | [] => []
  | [x] => x
  | x :: y :: rest => x ++ sep ++ joinWith sep (y :: rest)

def concatStr : List Str → Str
  | [] => []
  | x :: xs => x ++ concatStr xs

/-- ASCII upper-casing; the harness only generates style names on which it agrees
    with Python's `str.upper()` (checked at generation time). -/
def upperAscii (s : Str) : Str :=
  s.map fun c => if 'a'.toNat ≤ c.toNat && c.toNat ≤ 'z'.toNat then Char.ofNat (c.toNat - 32) else c

/-- ASCII `str.lower()` (used only on file extensions). -/
def lowerAscii (s : Str) : Str :=
  s.map fun c => if 'A'.toNat ≤ c.toNat && c.toNat ≤ 'Z'.toNat then Char.ofNat (c.toNat + 32) else c

/-! ### dictionaries as key-sorted association lists -/

abbrev Dict (β : Type) := List (Str × β)

/-- `d[k] = v` on a key-sorted, duplicate-free association list. -/
def Dict.insert {β} (k : Str) (v : β) : Dict β → Dict β
  | [] => [(k, v)]
  | (k', v') :: rest =>
    if k = k' then (k, v) :: rest
    else if strLt k k' then (k, v) :: (k', v') :: rest
    else (k', v') :: Dict.insert k v rest

def Dict.get? {β} (k : Str) : Dict β → Option β
  | [] => none
  | (k', v) :: rest => if k = k' then some v else Dict.get? k rest

def Dict.ofList {β} (kvs : List (Str × β)) : Dict β :=
  kvs.foldl (fun d kv => Dict.insert kv.1 kv.2 d) []

/-- last-wins lookup in an insertion-ordered list of pairs (Python `dict(pairs)[k]`). -/
def lookupLast {α β} [DecidableEq α] (k : α) : List (α × β) → Option β
  | [] => none
  | (k', v) :: rest =>
    match lookupLast k rest with
    | some w => some w
    | none => if k = k' then some v else none

/-- `lists.unique`: first occurrences, order kept. -/
def uniqueAux {α} [DecidableEq α] (seen : List α) : List α → List α
  | [] => []
  | x :: xs => if x ∈ seen then uniqueAux seen xs else x :: uniqueAux (x :: seen) xs

def unique {α} [DecidableEq α] (xs : List α) : List α := uniqueAux [] xs

end Mammoth
