/-
  Dom.lean — model of mammoth/docx/xmlparser.py (`parse_xml`) and of `office_xml.read`.

  The input is the DOM that `xml.dom.minidom.parse` (expat, namespace aware) hands to `parse_xml`:
  prefixes are already resolved to namespace URIs (`node.namespaceURI`, `node.localName`), namespace
  declarations (`xmlns="…"`, `xmlns:p="…"`) appear as attributes whose namespace is the xmlns
  namespace, CDATA sections are their own node type, comments and processing instructions are kept
  as nodes.  The DOM type below deliberately has NO prefix / qualified-name field: the code never
  reads `node.prefix`, `node.nodeName` or `node.tagName`.
-/
import MammothModel.Package
namespace Mammoth

/-- a `minidom.Attr`: `namespaceURI` (None = no namespace), `localName`, `value`.
    (For the un-declaration `xmlns=""` minidom stores the value `None`; encode it as the empty string —
    such an attribute is in the xmlns namespace and is always dropped.) -/
structure DomAttr where
  ns : Option Str
  localName : Str
  value : Str
deriving DecidableEq, Repr, Inhabited

/-- a `minidom` node below (and including) `document.documentElement` -/
inductive DomNode where
  | elem (ns : Option Str) (localName : Str) (attrs : List DomAttr) (children : List DomNode)
  | text (s : Str)                -- TEXT_NODE
  | cdata (s : Str)               -- CDATA_SECTION_NODE
  | comment (s : Str)             -- COMMENT_NODE
  | pi (target data : Str)        -- PROCESSING_INSTRUCTION_NODE
deriving Repr, Inhabited

/-- `"http://www.w3.org/2000/xmlns/"` -/
def xmlnsUri : Str := S!"http://www.w3.org/2000/xmlns/"

/-- `namespace_prefixes.get(uri)` where
    `namespace_prefixes = dict((uri, prefix) for prefix, uri in namespace_mapping)`:
    a URI listed twice keeps the LAST prefix. -/
def nsPrefix (table : List (Str × Str)) (uri : Str) : Option Str :=
  lookupLast uri (table.map fun pu => (pu.2, pu.1))

/-- `convert_name(node)` -/
def convertName (table : List (Str × Str)) (ns : Option Str) (localName : Str) : Str :=
  match ns with
  | none => localName
  | some uri =>
    match nsPrefix table uri with
    | none => S!"{" ++ uri ++ S!"}" ++ localName
    | some p => p ++ S!":" ++ localName

/-- the `(convert_name(attribute), attribute.value)` pairs of the attributes that are not
    namespace declarations, in document order (before `dict(…)`) -/
def convertAttrPairs (table : List (Str × Str)) (as : List DomAttr) : List (Str × Str) :=
  (as.filter fun a => a.ns != some xmlnsUri).map fun a => (convertName table a.ns a.localName, a.value)

/-- `converted_attributes = dict(…)`: two attributes that convert to the same name (possible only
    when two URIs share a prefix, e.g. Transitional `w:val` next to Strict `w:val`) collapse to one
    entry, first position, last value. -/
def convertAttrs (table : List (Str × Str)) (as : List DomAttr) : Attrs :=
  pyDict (convertAttrPairs table as)

mutual
/-- `convert_node(node)`; `none` is Python's `None` -/
def convertNode (table : List (Str × Str)) : DomNode → Option XmlNode
  | .elem ns l as cs => some (.elem (convertName table ns l) (convertAttrs table as) (convertNodes table cs))
  | .text s => some (.text s)
  | .cdata s => some (.text s)
  | .comment _ => none
  | .pi _ _ => none
/-- the loop in `convert_element`: converted children, `None`s left out -/
def convertNodes (table : List (Str × Str)) : List DomNode → List XmlNode
  | [] => []
  | c :: cs =>
    match convertNode table c with
    | some x => x :: convertNodes table cs
    | none => convertNodes table cs
end

/-- `parse_xml(fileobj, office_xml._namespaces)` applied to the document element -/
def parseXml (root : DomNode) : Option XmlNode := convertNode Generated.namespaces root

/-- `office_xml.read(fileobj)` = `_collapse_alternate_content(parse_xml(…))[0]`.
    The document element of a well-formed XML file is always an element, so `parse_xml` never
    returns `None` in the code; `[0]` raises IndexError when the root itself is an
    `mc:AlternateContent` whose fallback is empty. -/
def officeXmlRead (root : DomNode) : Except Err XmlNode :=
  match parseXml root with
  | none => .error (.type S!"document element is not an element")
  | some x =>
    match collapseAlt x with
    | [] => .error (.index S!"list index out of range")
    | y :: _ => .ok y

/-! ### a package whose XML parts are still DOM trees -/

/-- a zip entry before `parse_xml`: the DOM of an XML part, or raw bytes -/
inductive DomPart where
  | xml (root : DomNode)
  | bytes (b : Bytes)
deriving Inhabited

abbrev DomPackage := List (Str × DomPart)

/-- `parse_xml` on one entry (`none`: the document element is not an element — impossible for
    a well-formed file) -/
def DomPart.parse : DomPart → Option Part
  | .xml root => (parseXml root).map Part.xml
  | .bytes b => some (.bytes b)

def DomPackage.parseParts : DomPackage → Option (List (Str × Part))
  | [] => some []
  | (n, part) :: rest =>
    match part.parse, DomPackage.parseParts rest with
    | some p, some ps => some ((n, p) :: ps)
    | _, _ => none

/-- the `Package` the rest of the model works on -/
def DomPackage.toPackage (dp : DomPackage) : Option Package :=
  (DomPackage.parseParts dp).map Package.mk

end Mammoth
