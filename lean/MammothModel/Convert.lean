/-
  Convert.lean — model of mammoth/conversion.py (`_DocumentConverter`), images.py
  (`img_element`, `data_uri`), docx/files.py (`Files.open`'s decision logic) and raw_text.py.
-/
import MammothModel.Doc
import MammothModel.Base64
namespace Mammoth

inductive Err where
  | key (what : Str)        -- KeyError
  | index (what : Str)      -- IndexError
  | value (what : Str)      -- ValueError
  | attr (what : Str)       -- AttributeError
  | type (what : Str)       -- TypeError
  | io (what : Str)         -- IOError
  | recursion               -- RecursionError (cyclic numStyleLink)
  | fuel                    -- the model ran out of fuel (not an exception of the code)
deriving DecidableEq, Repr, Inhabited

/-- an external read performed on behalf of a linked image -/
inductive IoOp where
  | openFile (path : Str)
  | urlopen (uri : Str)
deriving DecidableEq, Repr, Inhabited

/-- the named family of image converters implemented on both sides -/
inductive ImageConv where
  | dataUri                                           -- `mammoth.images.data_uri` (the default)
  | fixed (attrs : List (Str × Str)) (opens : Bool)    -- `img_element(f)`, f returns `attrs`
                                                       --   (+ `data-len` when it opens the image)
deriving Repr, Inhabited

/-- everything the converter needs besides the document -/
structure Cfg where
  styleMap : List Style := []
  idPrefix : Str := []
  ignoreEmpty : Bool := true
  upper : Str → Str := upperAscii
  imageConv : ImageConv := .dataUri
  /-- `dict((c.comment_id, c) for c in document.comments)` (last wins) -/
  comments : List Comment := []
  /-- bytes of zip entries (for embedded images) -/
  archive : List (Str × Bytes) := []
  /-- directory of the input file (`None` for anonymous file objects) -/
  base : Option Str := none
  /-- the outside world: what opening a resolved path/URL yields (`none` = IOError) -/
  world : Str → Option Bytes := fun _ => none

structure ConvState where
  noteRefs : List (Str × Str) := []                -- (note_type, note_id), in visiting order
  refComments : List (Str × Comment) := []         -- (label, comment)
  messages : List Str := []
  ioTrace : List IoOp := []
  imageCalls : List ImageProps := []               -- calls received by the image converter
deriving Inhabited

abbrev ConvM := StateT ConvState (Except Err)

def warn (m : Str) : ConvM Unit := modify fun s => { s with messages := s.messages ++ [m] }

def pyOpt : Option Str → Str
  | none => S!"None"
  | some s => s

def htmlId (cfg : Cfg) (suffix : Str) : Str := cfg.idPrefix ++ suffix
def referentId (cfg : Cfg) (ty id : Str) : Str := htmlId cfg (ty ++ ['-'] ++ id)
def referenceId (cfg : Cfg) (ty id : Str) : Str := htmlId cfg (ty ++ S!"-ref-" ++ id)

def upArrow : Str := ['↑']

/-- `html.element(name, attrs, children)` : fresh (non-collapsible) -/
def el (name : Str) (attrs : List (Str × Str)) (cs : List Node) : Node :=
  .elem { name := name, attrs := Dict.ofList attrs } cs
/-- `html.collapsible_element` -/
def cel (name : Str) (attrs : List (Str × Str)) (cs : List Node) : Node :=
  .elem { name := name, attrs := Dict.ofList attrs, collapsible := true } cs

/-! ### Files.open -/

def isSchemeChar (c : Char) : Bool :=
  c.isAlphanum && c.toNat < 128 || c == '+' || c == '-' || c == '.'

/-- `urlparse(url).scheme != ""` (CPython 3.12 `urlsplit`): a leading ASCII letter, then
    scheme characters up to the first `:`. -/
def isAbsoluteUri (uri : Str) : Bool :=
  match uri with
  | [] => false
  | c :: _ =>
    if !(c.isAlpha && c.toNat < 128) then false else
    let pre := uri.takeWhile (· != ':')
    pre.length < uri.length && pre.all isSchemeChar

/-- `os.path.join(base, uri)` for POSIX paths -/
def osPathJoin (base uri : Str) : Str :=
  if startsWith uri ['/'] then uri
  else if base.isEmpty || base.getLast? == some '/' then base ++ uri
  else base ++ ['/'] ++ uri

/-- `Image.open()` : bytes or the warning text's stable prefix -/
def openImage (cfg : Cfg) (src : ImageSrc) : ConvM (Except Str Bytes) :=
  match src with
  | .embedded name =>
    match lookupLast name cfg.archive with
    | some b => pure (.ok b)
    | none => throw (.key name)                    -- zipfile KeyError: outside the domain
  | .linked uri =>
    if isAbsoluteUri uri then do
      modify fun s => { s with ioTrace := s.ioTrace ++ [.urlopen uri] }
      match cfg.world uri with
      | some b => pure (.ok b)
      | none => pure (.error (S!"could not open external image: '" ++ uri ++ S!"' (document directory: '" ++ pyOpt cfg.base ++ S!"')"))
    else match cfg.base with
      | some b => do
        let p := osPathJoin b uri
        modify fun s => { s with ioTrace := s.ioTrace ++ [.openFile p] }
        match cfg.world p with
        | some bs => pure (.ok bs)
        | none => pure (.error (S!"could not open external image: '" ++ uri ++ S!"' (document directory: '" ++ b ++ S!"')"))
      | none => pure (.error (S!"could not find external image '" ++ uri ++ S!"', fileobj has no name"))

/-- `visit_image` with `img_element(func)` -/
def convertImage (cfg : Cfg) (i : ImageProps) : ConvM (List Node) := do
  modify fun s => { s with imageCalls := s.imageCalls ++ [i] }
  let altAttr : List (Str × Str) := match i.altText with
    | some a => if a.isEmpty then [] else [(S!"alt", a)]
    | none => []
  match cfg.imageConv with
  | .dataUri => do
    match ← openImage cfg i.src with
    | .ok bytes =>
      let src := S!"data:" ++ pyOpt i.contentType ++ S!";base64," ++ b64encode bytes
      pure [el S!"img" (altAttr ++ [(S!"src", src)]) []]
    | .error msg => do warn msg; pure []
  | .fixed attrs opens => do
    if opens then
      match ← openImage cfg i.src with
      | .ok bytes => pure [el S!"img" (altAttr ++ attrs ++ [(S!"data-len", natToStr bytes.length)]) []]
      | .error msg => do warn msg; pure []
    else pure [el S!"img" (altAttr ++ attrs) []]

/-! ### the visitor -/

def findPath (cfg : Cfg) (t : Target) : Option HtmlPath :=
  (findStyle cfg.upper cfg.styleMap t).map (·.path)

/-- `_find_html_path(element, type, default, warn_unrecognised=True)` for paragraphs / runs -/
def findPathWarn (cfg : Cfg) (t : Target) (kind : Str) (styleId styleName : Option Str)
    (dflt : HtmlPath) : ConvM HtmlPath :=
  match findPath cfg t with
  | some p => pure p
  | none => do
    match styleId with
    | some sid => warn (S!"Unrecognised " ++ kind ++ S!" style: " ++ pyOpt styleName ++ S!" (Style ID: " ++ sid ++ S!")")
    | none => pure ()
    pure dflt

/-- `_find_style_for_run_property(element_type, default)` -/
def propPath (cfg : Cfg) (t : Target) (dflt : Option Str) : HtmlPath :=
  match findPath cfg t with
  | some p => p
  | none => match dflt with
    | some d => .elements [pathElem d false]
    | none => .elements []

/-- the list `paths` of `visit_run`, innermost first, *without* the run-style path -/
def runPropPaths (cfg : Cfg) (r : RunProps) : List HtmlPath :=
  (match r.highlight with
    | some c => (match findPath cfg (.highlight c) with | some p => [p] | none => [])
    | none => []) ++
  (if r.smallCaps then [propPath cfg .smallCaps none] else []) ++
  (if r.allCaps then [propPath cfg .allCaps none] else []) ++
  (if r.strike then [propPath cfg .strikethrough (some S!"s")] else []) ++
  (if r.underline then [propPath cfg .underline none] else []) ++
  (if r.vertAlign == some S!"subscript" then [.elements [pathElem S!"sub" false]] else []) ++
  (if r.vertAlign == some S!"superscript" then [.elements [pathElem S!"sup" false]] else []) ++
  (if r.italic then [propPath cfg .italic (some S!"em")] else []) ++
  (if r.bold then [propPath cfg .bold (some S!"strong")] else [])

def HtmlPath.isIgnore : HtmlPath → Bool
  | .ignore => true
  | _ => false

/-- apply paths innermost-first; `ignore.wrap` discards what is inside it (without evaluating it:
    see `visit`), the paths outside it still wrap the now empty content -/
def wrapAll : List HtmlPath → List Node → List Node
  | [], ns => ns
  | .elements es :: ps, ns => wrapAll ps (wrapElems es ns)
  | .ignore :: ps, _ => wrapAll ps []

def isHeaderRow : Elem → Bool
  | .row h _ => h
  | _ => false

/-- `find_index(lambda child: not isinstance(child, TableRow) or not child.is_header, rows)`,
    defaulting to the length -/
def bodyIndex : List Elem → Nat
  | [] => 0
  | r :: rs => if isHeaderRow r then 1 + bodyIndex rs else 0

def cellAttrs (colspan rowspan : Nat) : List (Str × Str) :=
  (if colspan != 1 then [(S!"colspan", natToStr colspan)] else []) ++
  (if rowspan != 1 then [(S!"rowspan", natToStr rowspan)] else [])

def commentAuthorLabel (c : Comment) : Str := c.authorInitials.getD []

mutual
def visit (cfg : Cfg) (hdr : Bool) : Elem → ConvM (List Node)
  | .paragraph p cs => do
    let path ← findPathWarn cfg (.paragraph p) S!"paragraph" p.styleId p.styleName
                 (.elements [pathElem S!"p" true])
    match path with
    | .ignore => pure []
    | .elements es => do
      let content ← visitAll cfg hdr cs
      pure (wrapElems es (if cfg.ignoreEmpty then content else .forceWrite :: content))
  | .run r cs => do
    let props := runPropPaths cfg r
    let sp ← findPathWarn cfg (.run r.styleId r.styleName) S!"run" r.styleId r.styleName (.elements [])
    let paths := props ++ [sp]
    -- the children are generated lazily: an `ignore` anywhere in the chain means they never are
    if paths.any HtmlPath.isIgnore then pure (wrapAll paths [])
    else do
      let ns ← visitAll cfg hdr cs
      pure (wrapAll paths ns)
  | .text s => pure [.text s]
  | .hyperlink h cs => do
    let href := match h.anchor with
      | none => pyOpt h.href      -- `href` is never None when `anchor` is (reader invariant)
      | some a => ['#'] ++ htmlId cfg a
    let attrs := [(S!"href", href)] ++ (match h.targetFrame with | some t => [(S!"target", t)] | none => [])
    let ns ← visitAll cfg hdr cs
    pure [cel S!"a" attrs ns]
  | .checkbox checked =>
    pure [el S!"input" ([(S!"type", S!"checkbox")] ++ (if checked then [(S!"checked", S!"checked")] else [])) []]
  | .table sid sname rows => do
    let path := (findPath cfg (.table sid sname)).getD (.elements [pathElem S!"table" true])
    match path with
    | .ignore => pure []
    | .elements es => do
      let (head, body) ← visitRows cfg true rows
      let children :=
        if bodyIndex rows == 0 then body
        else [el S!"thead" [] head, el S!"tbody" [] body]
      pure (wrapElems es (.forceWrite :: children))
  | .row _ cells => do
    let ns ← visitAll cfg hdr cells
    pure [el S!"tr" [] (.forceWrite :: ns)]
  | .cell colspan rowspan _ cs => do
    let ns ← visitAll cfg hdr cs
    pure [el (if hdr then S!"th" else S!"td") (cellAttrs colspan rowspan) (.forceWrite :: ns)]
  | .brk ty =>
    match findPath cfg (.brk ty) with
    | some (.elements es) => pure (wrapElems es [])
    | some .ignore => pure []
    | none => if ty == S!"line" then pure [.elem (pathElem S!"br" true) []] else pure []
  | .tab => pure [.text ['\t']]
  | .image i => convertImage cfg i
  | .bookmark name => pure [cel S!"a" [(S!"id", htmlId cfg (pyOpt name))] [.forceWrite]]
  | .noteRef ty id => do
    modify fun s => { s with noteRefs := s.noteRefs ++ [(ty, id)] }
    let n := (← get).noteRefs.length
    pure [el S!"sup" [] [el S!"a" [(S!"href", ['#'] ++ referentId cfg ty id), (S!"id", referenceId cfg ty id)]
            [.text (['['] ++ natToStr n ++ [']'])]]]
  | .commentRef id =>
    match findPath cfg .commentReference with
    | none | some .ignore => pure []
    | some (.elements es) => do
      -- `self._comments[reference.comment_id]` (dict built from the document's comments: last wins)
      match lookupLast id (cfg.comments.map fun c => (c.id, c)) with
      | none => throw (.key id)
      | some c => do
        let count := (← get).refComments.length + 1
        let label := ['['] ++ commentAuthorLabel c ++ natToStr count ++ [']']
        modify fun s => { s with refComments := s.refComments ++ [(label, c)] }
        pure (wrapElems es [el S!"a" [(S!"href", ['#'] ++ referentId cfg S!"comment" id),
                                      (S!"id", referenceId cfg S!"comment" id)] [.text label]])
def visitAll (cfg : Cfg) (hdr : Bool) : List Elem → ConvM (List Node)
  | [] => pure []
  | e :: es => do
    let a ← visit cfg hdr e
    let b ← visitAll cfg hdr es
    pure (a ++ b)
/-- the children of a table: the leading header rows are visited with `is_table_header=True`,
    the others with `False`; returns (head nodes, body nodes) -/
def visitRows (cfg : Cfg) (inHead : Bool) : List Elem → ConvM (List Node × List Node)
  | [] => pure ([], [])
  | r :: rs =>
    if inHead && isHeaderRow r then do
      let a ← visit cfg true r
      let (h, b) ← visitRows cfg true rs
      pure (a ++ h, b)
    else do
      let a ← visit cfg false r
      let (h, b) ← visitRows cfg false rs
      pure (h, a ++ b)
end

def backLink (href : Str) : Node :=
  cel S!"p" [] [.text [' '], el S!"a" [(S!"href", href)] [.text upArrow]]

/-- `visit_note` -/
def visitNote (cfg : Cfg) (n : Note) : ConvM (List Node) := do
  let body ← visitAll cfg false n.body
  pure [el S!"li" [(S!"id", referentId cfg n.ty n.id)]
          (body ++ [backLink (['#'] ++ referenceId cfg n.ty n.id)])]

/-- `visit_comment` -/
def visitComment (cfg : Cfg) (lc : Str × Comment) : ConvM (List Node) := do
  let body ← visitAll cfg false lc.2.body
  pure [el S!"dt" [(S!"id", referentId cfg S!"comment" lc.2.id)] [.text (S!"Comment " ++ lc.1)],
        el S!"dd" [] (body ++ [backLink (['#'] ++ referenceId cfg S!"comment" lc.2.id)])]

def mapMConcat {α} (f : α → ConvM (List Node)) : List α → ConvM (List Node)
  | [] => pure []
  | x :: xs => do
    let a ← f x
    let b ← mapMConcat f xs
    pure (a ++ b)

/-- `Notes.resolve` on `dict(((n.note_type, n.note_id), n) for n in notes)` (last wins) -/
def resolveNote (notes : List Note) (ref : Str × Str) : Except Err Note :=
  match lookupLast ref (notes.map fun n => ((n.ty, n.id), n)) with
  | some n => .ok n
  | none => .error (.key (ref.1 ++ ['-'] ++ ref.2))

/-- `visit_document` -/
def visitDocument (cfg : Cfg) (d : Document) : ConvM (List Node) := do
  let nodes ← visitAll cfg false d.children
  let refs := (← get).noteRefs
  -- the comprehension resolves every reference before any note is visited
  let notes ← match refs.mapM (resolveNote d.notes) with
    | .ok ns => pure ns
    | .error e => throw e
  let noteNodes ← mapMConcat (visitNote cfg) notes
  -- `list(self._referenced_comments)`: snapshot taken after the notes were visited
  let rcs := (← get).refComments
  let commentNodes ← mapMConcat (visitComment cfg) rcs
  pure (nodes ++ [el S!"ol" [] noteNodes, el S!"dl" [] commentNodes])

structure ConvResult where
  nodes : List Node          -- before strip/collapse
  value : Str := []          -- filled by the caller with the chosen writer
  messages : List Str        -- `unique`d
  ioTrace : List IoOp
  imageCalls : List ImageProps
  noteRefs : List (Str × Str)
deriving Inhabited

/-- `convert_document_element_to_html` for a `Document`, up to (not including) the writer -/
def convertDoc (cfg : Cfg) (d : Document) : Except Err ConvResult :=
  match (visitDocument { cfg with comments := d.comments } d).run {} with
  | .ok (nodes, st) =>
    .ok { nodes := nodes, messages := unique st.messages, ioTrace := st.ioTrace,
          imageCalls := st.imageCalls, noteRefs := st.noteRefs }
  | .error e => .error e

/-! ### raw_text.py -/
mutual
def rawText : Elem → Str
  | .text s => s
  | .tab => ['\t']
  | .paragraph _ cs => rawTextL cs ++ S!"\n\n"
  | .run _ cs => rawTextL cs
  | .hyperlink _ cs => rawTextL cs
  | .table _ _ cs => rawTextL cs
  | .row _ cs => rawTextL cs
  | .cell _ _ _ cs => rawTextL cs
  | _ => []
def rawTextL : List Elem → Str
  | [] => []
  | e :: es => rawText e ++ rawTextL es
end

/-- `extract_raw_text_from_element(document)` -/
def rawTextDoc (d : Document) : Str := rawTextL d.children

end Mammoth
