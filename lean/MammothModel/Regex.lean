/-
  Regex.lean — a cost model for regular-expression matching by prioritised backtracking,
  i.e. what CPython's `re` (sre) does for `pattern.match(string, pos)`:
  leftmost alternative first, greedy repetition, backtrack on failure, stop at the first success.

  The matcher is written in continuation-passing style: `r.run s k` matches `r` at the front of `s`
  and calls the continuation `k` on what is left; if `k` fails, `run` backtracks into `r`.  Every
  result carries a STEP COUNTER: one step per character-class test, one per alternation entered
  and one per repetition iteration attempted.  The counter is what the engine would do — work
  spent in branches that are later abandoned is included, work in branches never reached is not.
-/
import MammothModel.Basic
namespace Mammoth

/-- a one-character matcher -/
inductive C07Class where
  | any                                -- `.` without DOTALL: anything but a newline
  | lit (c : Char)                     -- a literal character
  | set (rs : List (Char × Char))      -- `[a-z0-9_]`  : inclusive ranges
  | nset (rs : List (Char × Char))     -- `[^'\\]`     : complement of the ranges
deriving DecidableEq, Repr

def c07_inRanges (rs : List (Char × Char)) (c : Char) : Bool :=
  rs.any fun r => r.1.toNat ≤ c.toNat && c.toNat ≤ r.2.toNat

def C07Class.test : C07Class → Char → Bool
  | .any, c => c != '\n'
  | .lit a, c => c == a
  | .set rs, c => c07_inRanges rs c
  | .nset rs, c => !c07_inRanges rs c

inductive C07Regex where
  | eps
  | chr (p : C07Class)
  | seq (a b : C07Regex)
  | alt (a b : C07Regex)                  -- ordered: `a` is tried first
  | star (a : C07Regex)                   -- greedy
deriving DecidableEq, Repr

/-- `a+` -/
def C07Regex.plus (a : C07Regex) : C07Regex := .seq a (.star a)

/-- (steps spent, remaining input after the first successful match or `none`) -/
abbrev C07Res := Nat × Option Str

def C07Res.fail : C07Res := (0, none)

def C07Res.tick (r : C07Res) : C07Res := (r.1 + 1, r.2)

/-- try `a`; only if it failed, try `b` (and pay for both) -/
def C07Res.orElse (a b : C07Res) : C07Res :=
  match a.2 with
  | some _ => a
  | none => (a.1 + b.1, b.2)

/-- greedy repetition of `body`: try one more iteration (which must consume something, as in sre,
    otherwise it is cut), then the rest of the loop, and only if all of that fails leave the loop
    here.  `fuel` bounds the number of iterations; more than `s.length` is never used
    (`c07_starLoop_fuel` in Proofs/C07_Regex.lean). -/
def c07_starLoop (body : Str → (Str → C07Res) → C07Res) : Nat → Str → (Str → C07Res) → C07Res
  | 0, s, k => k s
  | f+1, s, k =>
    ((body s fun s' => if s'.length < s.length then c07_starLoop body f s' k else .fail).orElse (k s)).tick

def C07Regex.run : C07Regex → Str → (Str → C07Res) → C07Res
  | .eps, s, k => k s
  | .chr p, s, k =>
    (match s with
     | c :: cs => if p.test c then k cs else .fail
     | [] => .fail).tick
  | .seq a b, s, k => a.run s fun s' => b.run s' k
  | .alt a b, s, k => ((a.run s k).orElse (b.run s k)).tick
  | .star a, s, k => c07_starLoop a.run (s.length + 1) s k

/-- `re.compile(r).match(s)`: steps and the remaining input -/
def C07Regex.exec (r : C07Regex) (s : Str) : C07Res := r.run s fun s' => (0, some s')

def C07Regex.steps (r : C07Regex) (s : Str) : Nat := (r.exec s).1

/-- length of the match (`match.end() - pos`), `none` if there is no match -/
def C07Regex.matchLen (r : C07Regex) (s : Str) : Option Nat := (r.exec s).2.map fun rest => s.length - rest.length

/-! ### the tokeniser's rules -/

def c07_ccQuote : C07Class := .lit '\''
def c07_ccBackslash : C07Class := .lit '\\'
/-- `[^'\\]` -/
def c07_ccNotQuoteBackslash : C07Class := .nset [('\'', '\''), ('\\', '\\')]
/-- `[^']` -/
def c07_ccNotQuote : C07Class := .nset [('\'', '\'')]

/-- `(?:\\.|[^'\\])` -/
def c07_stringBodyNew : C07Regex := .alt (.seq (.chr c07_ccBackslash) (.chr .any)) (.chr c07_ccNotQuoteBackslash)
/-- `(?:\\.|[^'])` : both alternatives accept a backslash -/
def c07_stringBodyOld : C07Regex := .alt (.seq (.chr c07_ccBackslash) (.chr .any)) (.chr c07_ccNotQuote)

/-- STRING, today: `'(?:\\.|[^'\\])*'` -/
def c07_stringRuleNew : C07Regex := .seq (.chr c07_ccQuote) (.seq (.star c07_stringBodyNew) (.chr c07_ccQuote))
/-- STRING, before the repair: `'(?:\\.|[^'])*'` -/
def c07_stringRuleOld : C07Regex := .seq (.chr c07_ccQuote) (.seq (.star c07_stringBodyOld) (.chr c07_ccQuote))
/-- UNTERMINATED_STRING: `'(?:\\.|[^'\\])*` -/
def c07_unterminatedRule : C07Regex := .seq (.chr c07_ccQuote) (.star c07_stringBodyNew)

/-- `[a-zA-Z\-_]` -/
def c07_ccIdentStart : C07Class := .set [('a', 'z'), ('A', 'Z'), ('-', '-'), ('_', '_')]
def c07_ccDigit : C07Class := .set [('0', '9')]
/-- `(?:[a-zA-Z\-_]|\\.)` -/
def c07_identChar : C07Regex := .alt (.chr c07_ccIdentStart) (.seq (.chr c07_ccBackslash) (.chr .any))
/-- IDENTIFIER: `(?:[a-zA-Z\-_]|\\.)(?:(?:[a-zA-Z\-_]|\\.)|[0-9])*` -/
def c07_identRule : C07Regex := .seq c07_identChar (.star (.alt c07_identChar (.chr c07_ccDigit)))
/-- INTEGER: `([0-9]+)` -/
def c07_intRule : C07Regex := C07Regex.plus (.chr c07_ccDigit)

end Mammoth
