/-
  Reader.lean — model of mammoth/docx/body_xml.py, numbering_xml.py, styles_xml.py,
  relationships_xml.py, content_types_xml.py, uris.py, office_xml.py (alternate content).
  Every operation of the code that can raise is an explicit `Err`.
-/
import MammothModel.Convert
import MammothModel.Generated
namespace Mammoth

/-- `xmlparser.XmlElement` / `XmlText` (names already in `prefix:local` form) -/
inductive XmlNode where
  | elem (name : Str) (attrs : List (Str × Str)) (children : List XmlNode)
  | text (s : Str)
deriving Repr, Inhabited

abbrev Attrs := List (Str × Str)

def attr? (k : Str) (as : Attrs) : Option Str := lookupLast k as

/-- `find_child(name)`: first child element with that name, as (attributes, children) -/
def findChild (name : Str) : List XmlNode → Option (Attrs × List XmlNode)
  | [] => none
  | .elem n as cs :: rest => if n == name then some (as, cs) else findChild name rest
  | .text _ :: rest => findChild name rest

/-- `find_child_or_null(name)`: the null element has no attributes and no children -/
def findChildOrNull (name : Str) (cs : List XmlNode) : Attrs × List XmlNode :=
  (findChild name cs).getD ([], [])

/-- `find_children(name)` -/
def findChildren (name : Str) : List XmlNode → List (Attrs × List XmlNode)
  | [] => []
  | .elem n as cs :: rest => if n == name then (as, cs) :: findChildren name rest else findChildren name rest
  | .text _ :: rest => findChildren name rest

/-- `.find_child_or_null(a).attributes.get(b)` -/
def childAttr (child attr : Str) (cs : List XmlNode) : Option Str :=
  attr? attr (findChildOrNull child cs).1

mutual
/-- `_inner_text` -/
def innerText : XmlNode → Str
  | .text s => s
  | .elem _ _ cs => innerTextL cs
def innerTextL : List XmlNode → Str
  | [] => []
  | c :: cs => innerText c ++ innerTextL cs
end

/-! ### office_xml: mc:AlternateContent -/
mutual
def collapseAlt : XmlNode → List XmlNode
  | .text s => [.text s]
  | .elem n as cs =>
    if n == S!"mc:AlternateContent" then
      -- after the F2 repair: fallback (or the null element), collapsed again
      collapseAltFallback cs
    else [.elem n as (collapseAltL cs)]
def collapseAltL : List XmlNode → List XmlNode
  | [] => []
  | c :: cs => collapseAlt c ++ collapseAltL cs
/-- children of the first `mc:Fallback` child, each collapsed -/
def collapseAltFallback : List XmlNode → List XmlNode
  | [] => []
  | .elem n _ cs :: rest => if n == S!"mc:Fallback" then collapseAltL cs else collapseAltFallback rest
  | .text _ :: rest => collapseAltFallback rest
end

/-! ### Python dictionaries built from pairs -/

/-- `dict(pairs)` in iteration order: a repeated key keeps its first position, last value -/
def pyDict {α β} [DecidableEq α] : List (α × β) → List (α × β)
  | [] => []
  | (k, v) :: rest =>
    let d := pyDict rest
    match lookupLast k rest with
    | some w => (k, w) :: d.filter (fun kv => kv.1 ≠ k)
    | none => (k, v) :: d

/-! ### styles.xml -/
structure Styles where
  paragraph : List (Option Str × Option Str) := []   -- styleId ↦ name
  character : List (Option Str × Option Str) := []
  table : List (Option Str × Option Str) := []
  numbering : List (Option Str × Option Str) := []   -- styleId ↦ numId
deriving Repr, Inhabited

def readStylesXml (rootChildren : List XmlNode) : Styles :=
  (findChildren S!"w:style" rootChildren).foldl (fun st (as, cs) =>
    let sid := attr? S!"w:styleId" as
    let name := childAttr S!"w:name" S!"w:val" cs
    match attr? S!"w:type" as with
    | some ty =>
      if ty == S!"numbering" then
        let numId := attr? S!"w:val" (findChildOrNull S!"w:numId" (findChildOrNull S!"w:numPr" (findChildOrNull S!"w:pPr" cs).2).2).1
        { st with numbering := st.numbering ++ [(sid, numId)] }
      else if ty == S!"paragraph" then { st with paragraph := st.paragraph ++ [(sid, name)] }
      else if ty == S!"character" then { st with character := st.character ++ [(sid, name)] }
      else if ty == S!"table" then { st with table := st.table ++ [(sid, name)] }
      else st
    | none => st) {}

/-! ### numbering.xml -/
structure AbsLevel where
  levelIndex : Str
  isOrdered : Bool
  pStyle : Option Str
deriving Repr, Inhabited

structure AbstractNum where
  levels : List (Str × AbsLevel)
  numStyleLink : Option Str
deriving Repr, Inhabited

structure Numbering where
  abstractNums : List (Option Str × AbstractNum) := []
  nums : List (Option Str × Str) := []       -- numId ↦ abstractNumId
  styles : Styles := {}
deriving Repr, Inhabited

def readAbsLevel (as : Attrs) (cs : List XmlNode) : Except Err AbsLevel :=
  match attr? S!"w:ilvl" as with
  | none => .error (.key S!"w:ilvl")
  | some ilvl =>
    .ok { levelIndex := ilvl,
          isOrdered := childAttr S!"w:numFmt" S!"w:val" cs != some S!"bullet",
          pStyle := childAttr S!"w:pStyle" S!"w:val" cs }

def readNumberingXml (rootChildren : List XmlNode) (styles : Styles) : Except Err Numbering := do
  let abs ← (findChildren S!"w:abstractNum" rootChildren).mapM fun (as, cs) => do
    let lvls ← (findChildren S!"w:lvl" cs).mapM fun (las, lcs) => readAbsLevel las lcs
    pure (attr? S!"w:abstractNumId" as,
          ({ levels := lvls.map (fun l => (l.levelIndex, l)), numStyleLink := childAttr S!"w:numStyleLink" S!"w:val" cs } : AbstractNum))
  let nums ← (findChildren S!"w:num" rootChildren).mapM fun (as, cs) =>
    match childAttr S!"w:abstractNumId" S!"w:val" cs with
    | none => Except.error (Err.key S!"w:val")
    | some a => pure (attr? S!"w:numId" as, a)
  pure { abstractNums := abs, nums := nums, styles := styles }

def toNumLevel (l : AbsLevel) : NumLevel := ⟨l.levelIndex, l.isOrdered⟩

/-- `Numbering.find_level(num_id, level)` (fuel bounds the numStyleLink chain; a cyclic chain is
    a RecursionError in the code) -/
def findLevel (n : Numbering) : Nat → Option Str → Str → Except Err (Option NumLevel)
  | 0, _, _ => .error .recursion
  | f+1, numId, level =>
    match lookupLast numId n.nums with
    | none => .ok none
    | some absId =>
      match lookupLast (some absId) n.abstractNums with
      | none => .ok none
      | some an =>
        match an.numStyleLink with
        | none => .ok ((lookupLast level an.levels).map toNumLevel)
        | some link =>
          match lookupLast (some link) n.styles.numbering with
          | none => .ok none                       -- after the F10 repair
          | some styleNumId => findLevel n f styleNumId level

/-- `_levels_by_paragraph_style_id.get(style_id)` -/
def findLevelByStyle (n : Numbering) (styleId : Str) : Option NumLevel :=
  let levels := (pyDict n.abstractNums).flatMap fun (_, an) => (pyDict an.levels).map (·.2)
  let pairs := levels.filterMap fun l => l.pStyle.map fun s => (s, toNumLevel l)
  lookupLast styleId pairs

/-! ### relationships, content types, uris -/
structure Rel where
  id : Str
  target : Str
  ty : Str
deriving Repr, Inhabited

abbrev Rels := List Rel

def relTypeTransitional : Str := S!"http://schemas.openxmlformats.org/officeDocument/2006/relationships/"
def relTypeStrict : Str := S!"http://purl.oclc.org/ooxml/officeDocument/relationships/"

/-- `_normalise_type`: a relationship type of Strict Open XML is read as its transitional equivalent -/
def normRelType (ty : Str) : Str :=
  if startsWith ty relTypeStrict then relTypeTransitional ++ ty.drop relTypeStrict.length else ty

def readRelsXml (rootChildren : List XmlNode) : Except Err Rels :=
  (findChildren S!"relationships:Relationship" rootChildren).mapM fun (as, _) =>
    match attr? S!"Id" as, attr? S!"Target" as, attr? S!"Type" as with
    | some i, some t, some ty => .ok ⟨i, t, normRelType ty⟩
    | _, _, _ => .error (.key S!"Id/Target/Type")

def Rels.targetById (rs : Rels) (id : Str) : Except Err Str :=
  match lookupLast id (rs.map fun r => (r.id, r.target)) with
  | some t => .ok t
  | none => .error (.key id)

def Rels.targetsByType (rs : Rels) (ty : Str) : List Str :=
  (rs.filter (·.ty == ty)).map (·.target)

structure ContentTypes where
  defaults : List (Str × Str) := []
  overrides : List (Str × Str) := []
deriving Repr, Inhabited

def readContentTypesXml (rootChildren : List XmlNode) : Except Err ContentTypes := do
  let ds ← (findChildren S!"content-types:Default" rootChildren).mapM fun (as, _) =>
    match attr? S!"Extension" as, attr? S!"ContentType" as with
    | some e, some c => Except.ok (e, c)
    | _, _ => .error (Err.key S!"Extension/ContentType")
  let os ← (findChildren S!"content-types:Override" rootChildren).mapM fun (as, _) =>
    match attr? S!"PartName" as, attr? S!"ContentType" as with
    | some p, some c => Except.ok (lstripChar '/' p, c)
    | _, _ => .error (Err.key S!"PartName/ContentType")
  pure { defaults := ds, overrides := os }

/-- `path.rpartition(".")[2]` -/
def getExtension (path : Str) : Str :=
  ((splitOnChar '.' path).getLast?).getD path

/-- `_ContentTypes.find_content_type` -/
def findContentType (ct : ContentTypes) (path : Str) : Option Str :=
  match lookupLast path ct.overrides with
  | some c => some c
  | none =>
    let ext := getExtension path
    match lookupLast ext ct.defaults with
    | some c => some c
    | none => (lookupLast (lowerAscii ext) Generated.imageExtensions).map (S!"image/" ++ ·)

/-- `uri_to_zip_entry_name(base, uri)` -/
def uriToZipEntryName (base uri : Str) : Str :=
  match uri with
  | '/' :: rest => rest
  | _ => base ++ ['/'] ++ uri

/-- `replace_fragment(uri, fragment)` -/
def replaceFragment (uri fragment : Str) : Str :=
  uri.takeWhile (· != '#') ++ ['#'] ++ fragment

/-! ### the body reader -/

structure ReadResult where
  elements : List Elem := []
  extra : List Elem := []
  messages : List Str := []
deriving Inhabited

def ReadResult.concat (a b : ReadResult) : ReadResult :=
  ⟨a.elements ++ b.elements, a.extra ++ b.extra, a.messages ++ b.messages⟩

def rrElems (es : List Elem) : ReadResult := { elements := es }
def rrMsg (m : Str) : ReadResult := { messages := [m] }

inductive Field where
  | begin (fldCharChildren : List XmlNode)
  | hyperlink (kw : LinkProps)
  | checkbox (checked : Bool)
  | unknown                                  -- `parse_instr_text` returned None
deriving Repr, Inhabited

structure RState where
  stack : List Field := []          -- top of the stack is the head
  instr : Str := []                 -- "".join(current_instr_text)
  deleted : List XmlNode := []      -- deleted_paragraph_contents
deriving Inhabited

structure REnv where
  numbering : Numbering := {}
  contentTypes : ContentTypes := {}
  rels : Rels := []
  styles : Styles := {}
deriving Inhabited

/-- `read_boolean_attribute_value` -/
def readBoolAttr (v : Option Str) : Bool := !(v == some S!"false" || v == some S!"0")

/-- `read_boolean_element(properties.find_child(name))` -/
def readBoolElem (name : Str) (props : List XmlNode) : Bool :=
  match findChild name props with
  | none => false
  | some (as, _) => readBoolAttr (attr? S!"w:val" as)

/-- `read_underline_element` -/
def readUnderline (props : List XmlNode) : Bool :=
  match findChild S!"w:u" props with
  | none => false
  | some (as, _) =>
    match attr? S!"w:val" as with
    | none => false
    | some v => !(v == S!"false" || v == S!"0" || v == S!"none")

/-- `read_highlight_value` -/
def readHighlight (v : Option Str) : Option Str :=
  match v with
  | none => none
  | some s => if s.isEmpty || s == S!"none" then none else some s

/-- `_read_style(properties, tag, type, find)` : ((style_id, style_name), messages) -/
def readStyle (props : List XmlNode) (tagName kind : Str) (table : List (Option Str × Option Str)) :
    (Option Str × Option Str) × List Str :=
  match childAttr tagName S!"w:val" props with
  | none => ((none, none), [])
  | some sid =>
    match lookupLast (some sid) table with
    | none => ((some sid, none),
               [kind ++ S!" style with ID " ++ sid ++ S!" was referenced but not defined in the document"])
    | some name => ((some sid, name), [])

/-- `_read_numbering_properties` -/
def readNumberingProps (env : REnv) (styleId : Option Str) (numPr : List XmlNode) : Except Err (Option NumLevel) :=
  match childAttr S!"w:numId" S!"w:val" numPr, childAttr S!"w:ilvl" S!"w:val" numPr with
  | some numId, some lvl => findLevel env.numbering (env.numbering.nums.length + env.numbering.abstractNums.length + 2) (some numId) lvl
  | _, _ =>
    match styleId with
    | some sid => .ok (findLevelByStyle env.numbering sid)
    | none => .ok none

def readRunProps (props : List XmlNode) (style : Option Str × Option Str) : RunProps :=
  { styleId := style.1, styleName := style.2,
    bold := readBoolElem S!"w:b" props, italic := readBoolElem S!"w:i" props,
    underline := readUnderline props, strike := readBoolElem S!"w:strike" props,
    allCaps := readBoolElem S!"w:caps" props, smallCaps := readBoolElem S!"w:smallCaps" props,
    vertAlign := childAttr S!"w:vertAlign" S!"w:val" props,
    highlight := readHighlight (childAttr S!"w:highlight" S!"w:val" props) }

/-- `current_hyperlink_kwargs` -/
def currentHyperlink : List Field → Option LinkProps
  | [] => none
  | .hyperlink kw :: _ => some kw
  | _ :: rest => currentHyperlink rest

/-! #### instruction text -/

def skipWs (s : Str) : Str := lstripWs s

/-- match a literal prefix -/
def stripPrefix? : Str → Str → Option Str
  | s, [] => some s
  | [], _ :: _ => none
  | c :: cs, p :: ps => if c == p then stripPrefix? cs ps else none

/-- `\s+` -/
def ws1 (s : Str) : Option Str :=
  match s with
  | c :: cs => if isSpace c then some (skipWs cs) else none
  | [] => none

/-- `"([^"]*)"` -/
def quoted (s : Str) : Option Str :=
  match s with
  | '"' :: cs =>
    let body := cs.takeWhile (· != '"')
    if body.length < cs.length then some body else none
  | _ => none

/-- `re.match(r'\s*HYPERLINK\s+"([^"]*)"', t)` -/
def matchExternalLink (t : Str) : Option Str := do
  let r ← stripPrefix? (skipWs t) S!"HYPERLINK"
  let r ← ws1 r
  quoted r

/-- `re.match(r'\s*HYPERLINK\s+\\l\s+"([^"]*)"', t)` -/
def matchInternalLink (t : Str) : Option Str := do
  let r ← stripPrefix? (skipWs t) S!"HYPERLINK"
  let r ← ws1 r
  let r ← stripPrefix? r S!"\\l"
  let r ← ws1 r
  quoted r

/-- `re.match(r'\s*FORMCHECKBOX\s*', t)` -/
def matchCheckbox (t : Str) : Bool := (stripPrefix? (skipWs t) S!"FORMCHECKBOX").isSome

/-- `parse_instr_text(instr_text, fld_char=…)` -/
def parseInstrText (instr : Str) (fldCharChildren : List XmlNode) : Field :=
  match matchExternalLink instr with
  | some url => .hyperlink { href := some url }
  | none =>
    match matchInternalLink instr with
    | some a => .hyperlink { anchor := some a }
    | none =>
      if matchCheckbox instr then
        let cb := (findChildOrNull S!"w:checkBox" (findChildOrNull S!"w:ffData" fldCharChildren).2).2
        match findChild S!"w:checked" cb with
        | none => .checkbox (readBoolElem S!"w:default" cb)
        | some (as, _) => .checkbox (readBoolAttr (attr? S!"w:val" as))
      else .unknown

/-- `parse_current_instr_text(complex_field)` -/
def parseCurrentInstr (st : RState) (f : Field) : Field :=
  match f with
  | .begin cs => parseInstrText st.instr cs
  | _ => parseInstrText st.instr []

/-- `read_fld_char` -/
def readFldChar (st : RState) (as : Attrs) (cs : List XmlNode) : Except Err (ReadResult × RState) :=
  let ty := attr? S!"w:fldCharType" as
  if ty == some S!"begin" then
    .ok ({}, { st with stack := .begin cs :: st.stack, instr := [] })
  else if ty == some S!"end" then
    match st.stack with
    | [] => .error (.index S!"pop from empty list")
    | top :: rest =>
      let f := match top with
        | .begin _ => parseCurrentInstr st top
        | other => other
      let st' := { st with stack := rest }
      match f with
      | .checkbox c => .ok (rrElems [.checkbox c], st')
      | _ => .ok ({}, st')
  else if ty == some S!"separate" then
    match st.stack with
    | [] => .error (.index S!"pop from empty list")
    | top :: rest => .ok ({}, { st with stack := parseCurrentInstr st top :: rest })
  else .ok ({}, st)

/-! #### symbols, breaks, images -/

def hexVal (c : Char) : Option Nat :=
  let n := c.toNat
  if '0'.toNat ≤ n && n ≤ '9'.toNat then some (n - '0'.toNat)
  else if 'a'.toNat ≤ n && n ≤ 'f'.toNat then some (n - 'a'.toNat + 10)
  else if 'A'.toNat ≤ n && n ≤ 'F'.toNat then some (n - 'A'.toNat + 10)
  else none

/-- `int(s, 16)` on plain hex digits (anything else is a ValueError: outside the domain) -/
def parseHex (s : Str) : Option Nat :=
  if s.isEmpty then none else s.foldl (fun acc c => do let a ← acc; let v ← hexVal c; pure (a * 16 + v)) (some 0)

/-- `int(s)` on plain decimal digits -/
def parseDec (s : Str) : Option Nat :=
  if s.isEmpty || !s.all isDigit then none else some (digitsToNat s)
where isDigit (c : Char) : Bool := '0'.toNat ≤ c.toNat && c.toNat ≤ '9'.toNat
      digitsToNat (s : Str) : Nat := s.foldl (fun n c => n * 10 + (c.toNat - '0'.toNat)) 0

def dingbat (font : Option Str) (code : Nat) : Option Nat :=
  match font with
  | none => none
  | some f => lookupLast (f, code) Generated.dingbats

/-- `symbol(element)` (after the F3 repair) -/
def readSymbol (as : Attrs) : Except Err ReadResult :=
  let font := attr? S!"w:font" as
  let char := attr? S!"w:char" as
  let warning := rrMsg (S!"A w:sym element with an unsupported character was ignored: char " ++ pyOpt char ++ S!" in font " ++ pyOpt font)
  match char with
  | none => .ok warning
  | some ch =>
    match parseHex ch with
    | none => .error (.value ch)
    | some code =>
      let cp := match dingbat font code with
        | some c => some c
        | none =>
          -- `re.match("^F0..", char)` then `int(char[2:], 16)`
          match ch with
          | 'F' :: '0' :: a :: b :: _ =>
            if a != '\n' && b != '\n' then (parseHex (ch.drop 2)).bind (dingbat font) else none
          | _ => none
      match cp with
      | some c => .ok (rrElems [.text [Char.ofNat c]])
      | none => .ok warning

/-- `break_` -/
def readBreak (as : Attrs) : ReadResult :=
  match attr? S!"w:type" as with
  | none => rrElems [.brk S!"line"]
  | some t =>
    if t.isEmpty || t == S!"textWrapping" then rrElems [.brk S!"line"]
    else if t == S!"page" then rrElems [.brk S!"page"]
    else if t == S!"column" then rrElems [.brk S!"column"]
    else rrMsg (S!"Unsupported break type: " ++ t)

/-- `_read_image((image_path, open), alt_text)` -/
def readImage (env : REnv) (path : Str) (src : ImageSrc) (alt : Option Str) : ReadResult :=
  let ct := findContentType env.contentTypes path
  let img : Elem := .image { altText := alt, contentType := ct, src := src }
  if (match ct with | some c => Generated.browserImageTypes.contains c | none => false) then rrElems [img]
  else { elements := [img], messages := [S!"Image of type " ++ pyOpt ct ++ S!" is unlikely to display in web browsers"] }

/-- `_find_embedded_image` + `_read_image` -/
def readEmbeddedImage (env : REnv) (relId : Str) (alt : Option Str) : Except Err ReadResult := do
  let target ← env.rels.targetById relId
  let path := uriToZipEntryName S!"word" target
  pure (readImage env path (.embedded path) alt)

/-- `_read_blip` -/
def readBlip (env : REnv) (as : Attrs) (alt : Option Str) : Except Err ReadResult :=
  match attr? S!"r:embed" as with
  | some rid => readEmbeddedImage env rid alt
  | none =>
    match attr? S!"r:link" as with
    | some rid => do
      let target ← env.rels.targetById rid
      pure (readImage env target (.linked target) alt)
    | none => .ok (rrMsg S!"Could not find image file for a:blip element")

def flatChildren (name : Str) (xs : List (Attrs × List XmlNode)) : List (Attrs × List XmlNode) :=
  xs.flatMap fun (_, cs) => findChildren name cs

/-- `inline(element)` (wp:inline / wp:anchor) -/
def readInline (env : REnv) (cs : List XmlNode) : Except Err ReadResult := do
  let props := (findChildOrNull S!"wp:docPr" cs).1
  let descr := (attr? S!"descr" props).getD []
  let alt := if !(strip descr).isEmpty then attr? S!"descr" props else attr? S!"title" props
  let blips := flatChildren S!"a:blip" (flatChildren S!"pic:blipFill" (flatChildren S!"pic:pic"
                 (flatChildren S!"a:graphicData" (findChildren S!"a:graphic" cs))))
  let rs ← blips.mapM fun (as, _) => readBlip env as alt
  pure (rs.foldl ReadResult.concat {})

/-! #### tables: calculate_row_spans -/

structure Sweep where
  cols : List (Nat × (Nat × Nat)) := []     -- column ↦ (row, position) of the cell open in it
  incs : List (Nat × Nat) := []             -- one entry per `rowspan += 1`
  drops : List (Nat × Nat) := []            -- cells that stay marked `_vmerge`
deriving Inhabited

def sweepCells (r : Nat) : List Elem → Nat → Nat → Sweep → Sweep
  | [], _, _, sw => sw
  | .cell colspan _ vm _ :: rest, pos, ci, sw =>
    let sw' :=
      match (if vm then lookupLast ci sw.cols else none) with
      | some owner => { sw with incs := sw.incs ++ [owner], drops := sw.drops ++ [(r, pos)] }
      | none => { sw with cols := sw.cols ++ [(ci, (r, pos))] }
    sweepCells r rest (pos + 1) (ci + colspan) sw'
  | _ :: rest, pos, ci, sw => sweepCells r rest (pos + 1) ci sw

def sweepRows : List Elem → Nat → Sweep → Sweep
  | [], _, sw => sw
  | .row _ cells :: rest, r, sw => sweepRows rest (r + 1) (sweepCells r cells 0 0 sw)
  | _ :: rest, r, sw => sweepRows rest (r + 1) sw

def rebuildCells (sw : Sweep) (r : Nat) : List Elem → Nat → List Elem
  | [], _ => []
  | .cell colspan rowspan _ cs :: rest, pos =>
    if sw.drops.contains (r, pos) then rebuildCells sw r rest (pos + 1)
    else .cell colspan (rowspan + (sw.incs.filter (· == (r, pos))).length) false cs :: rebuildCells sw r rest (pos + 1)
  | e :: rest, pos => e :: rebuildCells sw r rest (pos + 1)

def rebuildRows (sw : Sweep) : List Elem → Nat → List Elem
  | [], _ => []
  | .row h cells :: rest, r => .row h (rebuildCells sw r cells 0) :: rebuildRows sw rest (r + 1)
  | e :: rest, r => e :: rebuildRows sw rest (r + 1)

def isRow : Elem → Bool
  | .row _ _ => true
  | _ => false
def isCell : Elem → Bool
  | .cell _ _ _ _ => true
  | _ => false
def rowCells : Elem → List Elem
  | .row _ cs => cs
  | _ => []

/-- `calculate_row_spans(rows)` : (rows, messages) -/
def calculateRowSpans (rows : List Elem) : List Elem × List Str :=
  if !rows.all isRow then
    (rows, [S!"unexpected non-row element in table, cell merging may be incorrect"])
  else if !(rows.all fun r => (rowCells r).all isCell) then
    (rows, [S!"unexpected non-cell element in table row, cell merging may be incorrect"])
  else
    (rebuildRows (sweepRows rows 0 {}) rows 0, [])

/-- `read_vmerge` -/
def readVmerge (tcPr : List XmlNode) : Bool :=
  match findChild S!"w:vMerge" tcPr with
  | none => false
  | some (as, _) =>
    match attr? S!"w:val" as with
    | none => true
    | some v => v == S!"continue" || v.isEmpty

/-! #### the dispatcher -/

def handlerOf (name : Str) : Option Str := lookupLast name Generated.handlers

/-- `_read_xml_elements(nodes)` given the element reader -/
def readAllWith (rd : RState → XmlNode → Except Err (ReadResult × RState)) :
    RState → List XmlNode → Except Err (ReadResult × RState)
  | st, [] => .ok ({}, st)
  | st, .text _ :: rest => readAllWith rd st rest
  | st, n :: rest => do
    let (r1, st1) ← rd st n
    let (r2, st2) ← readAllWith rd st1 rest
    pure (r1.concat r2, st2)

/-- `read(element)` -/
def readElem (env : REnv) : Nat → RState → XmlNode → Except Err (ReadResult × RState)
  | _, st, .text _ => .ok ({}, st)
  | 0, _, _ => .error .fuel
  | f+1, st, .elem name as cs =>
    let readAll := readAllWith (readElem env f)
    match handlerOf name with
    | none =>
      if Generated.ignored.contains name then .ok ({}, st)
      else .ok (rrMsg (S!"An unrecognised element was ignored: " ++ name), st)
    | some h =>
      if h == S!"text" then .ok (rrElems [.text (innerTextL cs)], st)
      else if h == S!"run" then do
        let props := (findChildOrNull S!"w:rPr" cs).2
        let (style, smsgs) := readStyle props S!"w:rStyle" S!"Run" env.styles.character
        let (r, st1) ← readAll st cs
        let children := match currentHyperlink st1.stack with
          | none => r.elements
          | some kw => [.hyperlink kw r.elements]
        pure ({ elements := [.run (readRunProps props style) children], extra := r.extra,
                messages := smsgs ++ r.messages }, st1)
      else if h == S!"paragraph" then
        let props := (findChildOrNull S!"w:pPr" cs).2
        if (findChild S!"w:del" (findChildOrNull S!"w:rPr" props).2).isSome then
          .ok ({}, { st with deleted := st.deleted ++ cs })
        else do
          let (style, smsgs) := readStyle props S!"w:pStyle" S!"Paragraph" env.styles.paragraph
          let (r, st1) ← readAll { st with deleted := [] } (st.deleted ++ cs)
          let num ← readNumberingProps env style.1 (findChildOrNull S!"w:numPr" props).2
          let p : Elem := .paragraph { styleId := style.1, styleName := style.2, numbering := num } r.elements
          -- `.append_extra()`
          pure ({ elements := p :: r.extra, extra := [], messages := smsgs ++ r.messages }, st1)
      else if h == S!"read_fld_char" then readFldChar st as cs
      else if h == S!"read_instr_text" then .ok ({}, { st with instr := st.instr ++ innerTextL cs })
      else if h == S!"tab" then .ok (rrElems [.tab], st)
      else if h == S!"no_break_hyphen" then .ok (rrElems [.text [Char.ofNat 0x2011]], st)
      else if h == S!"soft_hyphen" then .ok (rrElems [.text [Char.ofNat 0xAD]], st)
      else if h == S!"symbol" then (readSymbol as).map (·, st)
      else if h == S!"table" then do
        let props := (findChildOrNull S!"w:tblPr" cs).2
        let (style, smsgs) := readStyle props S!"w:tblStyle" S!"Table" env.styles.table
        let (r, st1) ← readAll st cs
        let (rows, rmsgs) := calculateRowSpans r.elements
        pure ({ elements := [.table style.1 style.2 rows], extra := r.extra,
                messages := smsgs ++ (r.messages ++ rmsgs) }, st1)
      else if h == S!"table_row" then do
        let props := (findChildOrNull S!"w:trPr" cs).2
        let isHeader := (findChild S!"w:tblHeader" props).isSome
        let (r, st1) ← readAll st cs
        pure ({ r with elements := [.row isHeader r.elements] }, st1)
      else if h == S!"table_cell" then do
        let props := (findChildOrNull S!"w:tcPr" cs).2
        let colspan ← match childAttr S!"w:gridSpan" S!"w:val" props with
          | none => pure 1
          | some g => match parseDec g with
            | some n => pure n
            | none => throw (.value g)
        let (r, st1) ← readAll st cs
        pure ({ r with elements := [.cell colspan 1 (readVmerge props) r.elements] }, st1)
      else if h == S!"read_child_elements" then readAll st cs
      else if h == S!"pict" then do
        let (r, st1) ← readAll st cs
        -- `.to_extra()`
        pure ({ elements := [], extra := r.extra ++ r.elements, messages := r.messages }, st1)
      else if h == S!"hyperlink" then do
        let anchor := attr? S!"w:anchor" as
        let tf := match attr? S!"w:tgtFrame" as with
          | some t => if t.isEmpty then none else some t
          | none => none
        -- `children_result` is computed before the relationship lookup
        let (r, st1) ← readAll st cs
        match attr? S!"r:id" as with
        | some rid => do
          let href ← env.rels.targetById rid
          let href := match anchor with | some a => replaceFragment href a | none => href
          pure ({ r with elements := [.hyperlink { href := some href, targetFrame := tf } r.elements] }, st1)
        | none =>
          match anchor with
          | some a => pure ({ r with elements := [.hyperlink { anchor := some a, targetFrame := tf } r.elements] }, st1)
          | none => pure (r, st1)
      else if h == S!"bookmark_start" then
        let name := attr? S!"w:name" as
        if name == some S!"_GoBack" then .ok ({}, st) else .ok (rrElems [.bookmark name], st)
      else if h == S!"break_" then .ok (readBreak as, st)
      else if h == S!"inline" then (readInline env cs).map (·, st)
      else if h == S!"read_imagedata" then
        match attr? S!"r:id" as with
        | none => .ok (rrMsg S!"A v:imagedata element without a relationship ID was ignored", st)
        | some rid => (readEmbeddedImage env rid (attr? S!"o:title" as)).map (·, st)
      else if h == S!"note_reference:footnote" || h == S!"note_reference:endnote" then
        match attr? S!"w:id" as with
        | none => .error (.key S!"w:id")
        | some id => .ok (rrElems [.noteRef (h.drop 15) id], st)
      else if h == S!"read_comment_reference" then
        match attr? S!"w:id" as with
        | none => .error (.key S!"w:id")
        | some id => .ok (rrElems [.commentRef id], st)
      else if h == S!"alternate_content" then
        readAll st (findChildOrNull S!"mc:Fallback" cs).2
      else if h == S!"read_sdt" then
        match findChild S!"wordml:checkbox" (findChildOrNull S!"w:sdtPr" cs).2 with
        | some (_, cbcs) =>
          let checked := match findChild S!"wordml:checked" cbcs with
            | some (cas, _) => readBoolAttr (attr? S!"wordml:val" cas)
            | none => false
          .ok (rrElems [.checkbox checked], st)
        | none => readAll st (findChildOrNull S!"w:sdtContent" cs).2
      else .error (.attr (S!"unmodelled handler " ++ h))

/-- `body_reader.read_all(children)` : `Result(elements, messages)` — `extra` is dropped -/
def readAll (env : REnv) (fuel : Nat) (st : RState) (nodes : List XmlNode) :
    Except Err (ReadResult × RState) :=
  readAllWith (readElem env fuel) st nodes

mutual
def xmlSize : XmlNode → Nat
  | .text _ => 1
  | .elem _ _ cs => 1 + xmlSizeL cs
def xmlSizeL : List XmlNode → Nat
  | [] => 0
  | c :: cs => xmlSize c + xmlSizeL cs
end

end Mammoth
