/-
  Embed.lean — model of mammoth/docx/style_map.py (`write_style_map`, `read_style_map`,
  `_generate_relationships_xml`, `_generate_content_types_xml`, `_add_or_update_element`,
  `_find_child`) and of `zips.update_zip`, together with a small model of the file the archive
  lives in (in-place rewrite, optional truncate, faults).

  The XML and ZIP (de)serialisers are PARAMETERS (`XmlCodec`, `ZipCodec`): plain records of
  functions.  Their round-trip laws are separate propositions (`XmlCodec.Lawful`, `ZipCodec.Lawful`)
  which the theorems take as hypotheses.  UTF-8 is implemented for real (`utf8Encode`,
  `utf8DecodeL`).  No Mathlib.
-/
import MammothModel.Package
namespace Mammoth

/-! ### UTF-8 (`str.encode("utf8")`, `bytes.decode("utf8")`, strict) -/

/-- UTF-8 encoding of one scalar value.  (`Char` cannot hold a lone surrogate, the only thing on
    which Python's `str.encode("utf8")` raises, so encoding is total.) -/
def utf8EncodeChar (c : Char) : Bytes :=
  let n := c.toNat
  if n < 0x80 then [n.toUInt8]
  else if n < 0x800 then [(0xC0 + n / 64).toUInt8, (0x80 + n % 64).toUInt8]
  else if n < 0x10000 then
    [(0xE0 + n / 4096).toUInt8, (0x80 + n / 64 % 64).toUInt8, (0x80 + n % 64).toUInt8]
  else
    [(0xF0 + n / 262144).toUInt8, (0x80 + n / 4096 % 64).toUInt8,
     (0x80 + n / 64 % 64).toUInt8, (0x80 + n % 64).toUInt8]

/-- `s.encode("utf8")` -/
def utf8Encode : Str → Bytes
  | [] => []
  | c :: cs => utf8EncodeChar c ++ utf8Encode cs

/-- a continuation byte `10xxxxxx` -/
def utf8IsCont (b : UInt8) : Bool := 0x80 ≤ b.toNat && b.toNat < 0xC0

/-- `b.decode("utf8")` (strict: overlong forms, surrogates, values above U+10FFFF, stray or missing
    continuation bytes are all errors = `none`). -/
def utf8DecodeL : Bytes → Option Str
  | [] => some []
  | b0 :: rest =>
    let n0 := b0.toNat
    if n0 < 0x80 then (utf8DecodeL rest).map (Char.ofNat n0 :: ·)
    else if n0 < 0xC2 then none
    else if n0 < 0xE0 then
      match rest with
      | b1 :: r =>
        if utf8IsCont b1 then
          (utf8DecodeL r).map (Char.ofNat ((n0 - 0xC0) * 64 + (b1.toNat - 0x80)) :: ·)
        else none
      | _ => none
    else if n0 < 0xF0 then
      match rest with
      | b1 :: b2 :: r =>
        if utf8IsCont b1 && utf8IsCont b2 then
          let n := (n0 - 0xE0) * 4096 + (b1.toNat - 0x80) * 64 + (b2.toNat - 0x80)
          if n < 0x800 || (0xD800 ≤ n && n < 0xE000) then none
          else (utf8DecodeL r).map (Char.ofNat n :: ·)
        else none
      | _ => none
    else if n0 < 0xF5 then
      match rest with
      | b1 :: b2 :: b3 :: r =>
        if utf8IsCont b1 && utf8IsCont b2 && utf8IsCont b3 then
          let n := (n0 - 0xF0) * 262144 + (b1.toNat - 0x80) * 4096 + (b2.toNat - 0x80) * 64
                    + (b3.toNat - 0x80)
          if n < 0x10000 || 0x110000 ≤ n then none
          else (utf8DecodeL r).map (Char.ofNat n :: ·)
        else none
      | _ => none
    else none

/-! ### archives -/

/-- a zip archive: entry name ↦ content, in directory order -/
abbrev Archive := List (Str × Bytes)

/-- `ZipFile.namelist()` -/
def Archive.names (a : Archive) : List Str := a.map (·.1)

def strsNodup : List Str → Bool
  | [] => true
  | x :: xs => !xs.contains x && strsNodup xs

/-- "entry names are unique" — an explicit predicate (zipfile can produce duplicates) -/
def Archive.uniqueNames (a : Archive) : Bool := strsNodup a.names

/-- `ZipFile.read(name)` : `NameToInfo[name]`, i.e. the LAST entry of that name; `none` = KeyError -/
def Archive.get? (a : Archive) (name : Str) : Option Bytes := lookupLast name a

/-- `_Zip.exists` -/
def Archive.has (a : Archive) (name : Str) : Bool := (a.get? name).isSome

/-- the archive as a dictionary (key-sorted, last entry of a name wins): the canonical form in which
    to compare archives, since the entry order after `update_zip` is unspecified -/
def Archive.toDict (a : Archive) : Dict Bytes := Dict.ofList a

/-- `files[name] if name in files else source.read(name)` -/
def updateZipContent (a : Archive) (files : List (Str × Bytes)) (n : Str) : Bytes :=
  match lookupLast n files with
  | some b => b
  | none => (a.get? n).getD []

/-- the in-memory rebuild of `update_zip(fileobj, files)`:
    `names = set(source.namelist()) | set(files.keys())`, and for each name the content is
    `files[name]` if present, else `source.read(name)`.
    The iteration order of a Python `set` is unspecified; the model lists first occurrences of the
    old names (in directory order) followed by the new keys.  Compare archives as dictionaries. -/
def updateZip (a : Archive) (files : List (Str × Bytes)) : Archive :=
  (unique (a.names ++ files.map (·.1))).map fun n => (n, updateZipContent a files n)

/-! ### the two small XML parts as ElementTree trees -/

/-- an `xml.etree.ElementTree.Element` (text and tails abstracted into the codec) -/
structure EElem where
  tag : Str
  attrs : List (Str × Str)
  children : List EElem
deriving Inhabited, Repr

mutual
def EElem.beq : EElem → EElem → Bool
  | ⟨t1, a1, c1⟩, ⟨t2, a2, c2⟩ => t1 == t2 && a1 == a2 && EElem.beqL c1 c2
def EElem.beqL : List EElem → List EElem → Bool
  | [], [] => true
  | x :: xs, y :: ys => EElem.beq x y && EElem.beqL xs ys
  | _, _ => false
end

instance : BEq EElem := ⟨EElem.beq⟩

/-- `dict.get(key)` on an attribute dictionary (keys unique) -/
def eAttr? (k : Str) : List (Str × Str) → Option Str
  | [] => none
  | (k', v) :: rest => if k = k' then some v else eAttr? k rest

mutual
/-- `element.iter()` : the element itself and all descendants, in document order -/
def eIter : EElem → List EElem
  | ⟨t, as, cs⟩ => ⟨t, as, cs⟩ :: eIterL cs
def eIterL : List EElem → List EElem
  | [] => []
  | c :: cs => eIter c ++ eIterL cs
end

/-- the test inside `_find_child` -/
def eMatches (name idAttr : Str) (attrs : List (Str × Str)) (e : EElem) : Bool :=
  e.tag == name && eAttr? idAttr e.attrs == eAttr? idAttr attrs

/-- `_find_child(parent, name, identifying_attribute, attributes)` : the first element in
    `parent.iter()` order — the parent ITSELF and ALL descendants, not only direct children — that
    has the tag and the same value of the identifying attribute -/
def findChildE (parent : EElem) (name idAttr : Str) (attrs : List (Str × Str)) : Option EElem :=
  (eIter parent).find? (eMatches name idAttr attrs)

mutual
/-- `existing_child.attrib = attributes` for the first element (document order) satisfying `p`,
    wherever it is in the tree; `none` if no element satisfies `p` -/
def eSetFirst (p : EElem → Bool) (attrs : List (Str × Str)) : EElem → Option EElem
  | ⟨t, as, cs⟩ =>
    if p ⟨t, as, cs⟩ then some ⟨t, attrs, cs⟩
    else match eSetFirstL p attrs cs with
      | some cs' => some ⟨t, as, cs'⟩
      | none => none
def eSetFirstL (p : EElem → Bool) (attrs : List (Str × Str)) : List EElem → Option (List EElem)
  | [] => none
  | c :: cs =>
    match eSetFirst p attrs c with
    | some c' => some (c' :: cs)
    | none =>
      match eSetFirstL p attrs cs with
      | some cs' => some (c :: cs')
      | none => none
end

/-- `_add_or_update_element(parent, name, identifying_attribute, attributes)` -/
def addOrUpdate (parent : EElem) (name idAttr : Str) (attrs : List (Str × Str)) : EElem :=
  match eSetFirst (eMatches name idAttr attrs) attrs parent with
  | some parent' => parent'
  | none => { parent with children := parent.children ++ [⟨name, attrs, []⟩] }

/-! ### codecs (parameters) -/

/-- `ElementTree.tostring(e, "UTF-8")` and `ElementTree.fromstring(bytes.decode("utf8"))` -/
structure XmlCodec where
  serialise : EElem → Bytes
  parse : Bytes → Option EElem

/-- the single law assumed of the XML codec -/
def XmlCodec.Lawful (x : XmlCodec) : Prop := ∀ e, x.parse (x.serialise e) = some e

/-- writing and reading a zip archive -/
structure ZipCodec where
  serialise : Archive → Bytes
  parse : Bytes → Option Archive

/-- the single law assumed of the ZIP codec (for archives with unique names) -/
def ZipCodec.Lawful (z : ZipCodec) : Prop :=
  ∀ a : Archive, a.uniqueNames = true → z.parse (z.serialise a) = some a

/-! ### `write_style_map` on archives -/

def styleMapPath : Str := S!"mammoth/style-map"
def styleMapAbsPath : Str := S!"/mammoth/style-map"
def relsPartPath : Str := S!"word/_rels/document.xml.rels"
def contentTypesPartPath : Str := S!"[Content_Types].xml"

def relationshipElemName : Str :=
  S!"{http://schemas.openxmlformats.org/package/2006/relationships}Relationship"
def overrideElemName : Str :=
  S!"{http://schemas.openxmlformats.org/package/2006/content-types}Override"

def styleMapRelAttrs : List (Str × Str) :=
  [(S!"Id", S!"rMammothStyleMap"),
   (S!"Type", S!"http://schemas.zwobble.org/mammoth/style-map"),
   (S!"Target", styleMapAbsPath)]

def styleMapOverrideAttrs : List (Str × Str) :=
  [(S!"PartName", styleMapAbsPath), (S!"ContentType", S!"text/prs.mammoth.style-map")]

/-- the tree operation of `_generate_relationships_xml` -/
def relsUpdate (r : EElem) : EElem := addOrUpdate r relationshipElemName S!"Id" styleMapRelAttrs

/-- the tree operation of `_generate_content_types_xml` -/
def contentTypesUpdate (t : EElem) : EElem :=
  addOrUpdate t overrideElemName S!"PartName" styleMapOverrideAttrs

/-- `_generate_relationships_xml` -/
def generateRelationshipsXml (x : XmlCodec) (b : Bytes) : Option Bytes :=
  (x.parse b).map fun r => x.serialise (relsUpdate r)

/-- `_generate_content_types_xml` -/
def generateContentTypesXml (x : XmlCodec) (b : Bytes) : Option Bytes :=
  (x.parse b).map fun t => x.serialise (contentTypesUpdate t)

/-- `write_style_map` at the level of archives; `none` = an exception (KeyError for a missing part,
    a parse error) raised BEFORE `update_zip` is entered -/
def embedArchive (x : XmlCodec) (a : Archive) (s : Str) : Option Archive :=
  match a.get? relsPartPath with
  | none => none
  | some relsBytes =>
    match generateRelationshipsXml x relsBytes with
    | none => none
    | some rels' =>
      match a.get? contentTypesPartPath with
      | none => none
      | some ctBytes =>
        match generateContentTypesXml x ctBytes with
        | none => none
        | some ct' =>
          some (updateZip a [(styleMapPath, utf8Encode s), (relsPartPath, rels'),
                             (contentTypesPartPath, ct')])

/-- a sequence of embeds, one after the other -/
def embedAll (x : XmlCodec) (a : Archive) : List Str → Option Archive
  | [] => some a
  | s :: ss =>
    match embedArchive x a s with
    | none => none
    | some a' => embedAll x a' ss

/-- `read_style_map` on an archive: outer `none` = UnicodeDecodeError, `some none` = Python `None` -/
def readEmbeddedE (a : Archive) : Option (Option Str) :=
  match a.get? styleMapPath with
  | none => some none
  | some b => (utf8DecodeL b).map some

/-- `read_style_map`, flattened: the embedded style map if present and decodable -/
def readEmbedded (a : Archive) : Option Str :=
  match a.get? styleMapPath with
  | none => none
  | some b => utf8DecodeL b

/-! ### the file -/

structure FileState where
  bytes : Bytes
deriving Inhabited, Repr, DecidableEq

/-- `fileobj.seek(0); fileobj.write(new); [fileobj.truncate()]` on a file holding `old` -/
def writeOver (old new : Bytes) (truncate : Bool) : Bytes :=
  if truncate then new else new ++ old.drop new.length

/-!
  Operation sequence of `write_style_map(fileobj, s)`; a fault (I/O error) at step `i` means
  steps `< i` were performed and step `i` raised without effect:

    0  open the zip for reading                 (write_style_map)
    1  read `word/_rels/document.xml.rels`
    2  read `[Content_Types].xml`               (then: compute the two new parts, in memory)
    3  open the zip for reading again           (update_zip)
    4  read all entries, build the new archive in memory
    5  `fileobj.seek(0)`
    6 … 6+m-1   write chunk 0 … m-1 of the new bytes (`shutil.copyfileobj`, chunks of `chunk` bytes)
    6+m         `fileobj.truncate()`

  Steps 0–5 do not write.
-/
def firstWriteStep : Nat := 6

/-- number of chunks `shutil.copyfileobj` writes -/
def chunkCount (chunk len : Nat) : Nat := (len + chunk - 1) / chunk

/-- `write_style_map(fileobj, s)` on a file holding `file`, with an optional fault.
    Returns the bytes the file holds afterwards, and whether the call returned normally. -/
def embedFile (z : ZipCodec) (x : XmlCodec) (chunk : Nat) (fault : Option Nat) (file : Bytes)
    (s : Str) : Bytes × Bool :=
  match z.parse file with
  | none => (file, false)
  | some a =>
    match embedArchive x a s with
    | none => (file, false)
    | some a' =>
      let new := z.serialise a'
      match fault with
      | none => (writeOver file new true, true)
      | some i =>
        if i < firstWriteStep then (file, false)
        else if i < firstWriteStep + chunkCount chunk new.length then
          -- `i - 6` whole chunks were written
          let k := min ((i - firstWriteStep) * chunk) new.length
          (new.take k ++ file.drop k, false)
        else if i = firstWriteStep + chunkCount chunk new.length then
          -- everything written, `truncate()` failed
          (writeOver file new false, false)
        else (writeOver file new true, true)   -- the fault index lies beyond the last step

def FileState.embed (z : ZipCodec) (x : XmlCodec) (chunk : Nat) (fault : Option Nat)
    (f : FileState) (s : Str) : FileState × Bool :=
  let r := embedFile z x chunk fault f.bytes s
  (⟨r.1⟩, r.2)

/-- `read_style_map(fileobj)` on a file -/
def readEmbeddedFile (z : ZipCodec) (file : Bytes) : Option Str :=
  match z.parse file with
  | none => none
  | some a => readEmbedded a

/-- fault-free embeds one after the other on the same file; stops at the first failure -/
def embedFileAll (z : ZipCodec) (x : XmlCodec) (chunk : Nat) (file : Bytes) :
    List Str → Bytes × Bool
  | [] => (file, true)
  | s :: ss =>
    match embedFile z x chunk none file s with
    | (file', true) => embedFileAll z x chunk file' ss
    | (file', false) => (file', false)

end Mammoth
