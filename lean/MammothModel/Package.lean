/-
  Package.lean — model of mammoth/docx/__init__.py (part location, per-part readers),
  notes_xml.py, comments_xml.py, document_xml.py, zips.py (paths), mammoth/__init__.py (convert,
  extract_raw_text) and options.py (read_options).
-/
import MammothModel.Reader
import MammothModel.Dsl
import MammothModel.Markdown
namespace Mammoth

inductive Part where
  | xml (root : XmlNode)
  | bytes (b : Bytes)
deriving Inhabited

structure Package where
  parts : List (Str × Part)
deriving Inhabited

def Package.exists (p : Package) (name : Str) : Bool := (lookupLast name p.parts).isSome

/-- `zips.split_path` -/
def splitPath (path : Str) : Str × Str :=
  match (splitOnChar '/' path).reverse with
  | [] => ([], path)
  | [_] => ([], path)
  | last :: revInit => (joinWith ['/'] revInit.reverse, last)

/-- `zips.join_path(*args)` -/
def joinPath (args : List Str) : Str :=
  let nonEmpty := args.filter (!·.isEmpty)
  let relevant := nonEmpty.foldl (fun acc p => if startsWith p ['/'] then [p] else acc ++ [p]) []
  joinWith ['/'] relevant

/-- `_find_relationships_path_for(name)` -/
def relsPathFor (name : Str) : Str :=
  let (d, b) := splitPath name
  joinPath [d, S!"_rels", b ++ S!".rels"]

/-- `_read_entry` : parse + office_xml.read; returns the root's (attributes, children) -/
def Package.readXml (p : Package) (name : Str) : Except Err (Attrs × List XmlNode) :=
  match lookupLast name p.parts with
  | some (.xml root) =>
    match collapseAlt root with
    | .elem _ as cs :: _ => .ok (as, cs)
    | _ => .error (.index S!"root")
  | some (.bytes _) => .error (.value (S!"not XML: " ++ name))
  | none => .error (.key name)

def Package.readRels (p : Package) (name : Str) : Except Err Rels :=
  if p.exists name then do
    let (_, cs) ← p.readXml name
    readRelsXml cs
  else .ok []

/-- `_find_part_path` -/
def findPartPath (p : Package) (rels : Rels) (relType base fallback : Str) : Str :=
  let targets := (rels.targetsByType relType).map fun t => lstripChar '/' (joinPath [base, t])
  match targets.filter p.exists with
  | [] => fallback
  | t :: _ => t

def relTypePrefix : Str := relTypeTransitional

structure PartPaths where
  mainDocument : Str
  comments : Str
  endnotes : Str
  footnotes : Str
  numbering : Str
  styles : Str
deriving Repr, Inhabited

/-- `_find_part_paths` -/
def findPartPaths (p : Package) : Except Err PartPaths := do
  let pkgRels ← p.readRels S!"_rels/.rels"
  let main := findPartPath p pkgRels (relTypePrefix ++ S!"officeDocument") [] S!"word/document.xml"
  if !p.exists main then throw (.io S!"Could not find main document part. Are you sure this is a valid .docx file?")
  let docRels ← p.readRels (relsPathFor main)
  let base := (splitPath main).1
  let find := fun (name : Str) => findPartPath p docRels (relTypePrefix ++ name) base (S!"word/" ++ name ++ S!".xml")
  pure { mainDocument := main, comments := find S!"comments", endnotes := find S!"endnotes",
         footnotes := find S!"footnotes", numbering := find S!"numbering", styles := find S!"styles" }

/-- the environment shared by all parts (`_part_with_body_reader`) -/
def readSharedEnv (p : Package) (paths : PartPaths) : Except Err REnv := do
  let ct ← if p.exists S!"[Content_Types].xml" then do
      let (_, cs) ← p.readXml S!"[Content_Types].xml"; readContentTypesXml cs
    else pure {}
  let styles ← if p.exists paths.styles then do
      let (_, cs) ← p.readXml paths.styles; pure (readStylesXml cs)
    else pure {}
  let numbering ← if p.exists paths.numbering then do
      let (_, cs) ← p.readXml paths.numbering; readNumberingXml cs styles
    else pure {}
  pure { numbering := numbering, contentTypes := ct, styles := styles, rels := [] }

/-- notes of one part: all notes share one body reader (one `RState`) -/
def readNoteElems (env : REnv) (fuel : Nat) (ty : Str) :
    RState → List (Attrs × List XmlNode) → Except Err (List Note × List Str)
  | _, [] => .ok ([], [])
  | st, (as, cs) :: rest => do
    let (r, st1) ← readAll env fuel st cs
    let id ← match attr? S!"w:id" as with
      | some i => pure i
      | none => throw (.key S!"w:id")
    let (ns, ms) ← readNoteElems env fuel ty st1 rest
    pure (⟨ty, id, r.elements⟩ :: ns, r.messages ++ ms)

def isNoteElement (as : Attrs) : Bool :=
  let t := attr? S!"w:type" as
  !(t == some S!"continuationSeparator" || t == some S!"separator")

def readNotesPart (p : Package) (shared : REnv) (fuel : Nat) (path ty : Str) :
    Except Err (List Note × List Str) :=
  if p.exists path then do
    let rels ← p.readRels (relsPathFor path)
    let (_, cs) ← p.readXml path
    let elems := (findChildren (S!"w:" ++ ty) cs).filter fun (as, _) => isNoteElement as
    readNoteElems { shared with rels := rels } fuel ty {} elems
  else .ok ([], [])

def optStripped (v : Option Str) : Option Str :=
  let s := strip (v.getD [])
  if s.isEmpty then none else some s

def readCommentElems (env : REnv) (fuel : Nat) :
    RState → List (Attrs × List XmlNode) → Except Err (List Comment × List Str)
  | _, [] => .ok ([], [])
  | st, (as, cs) :: rest => do
    let (r, st1) ← readAll env fuel st cs
    let id ← match attr? S!"w:id" as with
      | some i => pure i
      | none => throw (.key S!"w:id")
    let (xs, ms) ← readCommentElems env fuel st1 rest
    pure (⟨id, r.elements, optStripped (attr? S!"w:author" as), optStripped (attr? S!"w:initials" as)⟩ :: xs,
          r.messages ++ ms)

def readCommentsPart (p : Package) (shared : REnv) (fuel : Nat) (path : Str) :
    Except Err (List Comment × List Str) :=
  if p.exists path then do
    let rels ← p.readRels (relsPathFor path)
    let (_, cs) ← p.readXml path
    readCommentElems { shared with rels := rels } fuel {} (findChildren S!"w:comment" cs)
  else .ok ([], [])

/-- `docx.read(fileobj)` : the document and the reader's messages (in order, not yet `unique`d) -/
def readPackage (p : Package) (fuel : Nat) : Except Err (Document × List Str) := do
  let paths ← findPartPaths p
  let shared ← readSharedEnv p paths
  let (fns, fm) ← readNotesPart p shared fuel paths.footnotes S!"footnote"
  let (ens, em) ← readNotesPart p shared fuel paths.endnotes S!"endnote"
  let (cms, cm) ← readCommentsPart p shared fuel paths.comments
  let rels ← p.readRels (relsPathFor paths.mainDocument)
  let (_, cs) ← p.readXml paths.mainDocument
  match findChild S!"w:body" cs with
  | none => throw (.value S!"Could not find the body element: are you sure this is a docx file?")
  | some (_, body) => do
    let (r, _) ← readAll { shared with rels := rels } fuel {} body
    pure ({ children := r.elements, notes := fns ++ ens, comments := cms }, fm ++ em ++ cm ++ r.messages)

/-! ### options and the public API -/

inductive Format where
  | html | markdown
deriving DecidableEq, Repr, Inhabited

structure Options where
  styleMap : Option Str := none
  includeDefault : Bool := true
  includeEmbedded : Bool := true
  idPrefix : Option Str := none
  ignoreEmpty : Bool := true
  imageConv : ImageConv := .dataUri
  format : Format := .html
deriving Inhabited

/-- the built-in style map: `options._default_style_map`, parsed by the model's own parser from
    the text extracted from `options.py` -/
def defaultStyleMap : List Style := (readStyleMap Generated.defaultStyleMapText).1

/-- `read_options` : (style map, messages) -/
def readOptions (custom embedded : Option Str) (includeDefault : Bool) : List Style × List Str :=
  let (c, cm) := readStyleMap (custom.getD [])
  let (e, em) := readStyleMap (embedded.getD [])
  (c ++ e ++ (if includeDefault then defaultStyleMap else []), unique (cm ++ em))

def utf8Decode (b : Bytes) : Option Str :=
  (String.fromUTF8? (ByteArray.mk b.toArray)).map String.toList

/-- `read_style_map(fileobj)` -/
def readEmbeddedStyleMap (p : Package) : Except Err (Option Str) :=
  match lookupLast S!"mammoth/style-map" p.parts with
  | none => .ok none
  | some (.bytes b) =>
    match utf8Decode b with
    | some s => .ok (some s)
    | none => .error (.value S!"UnicodeDecodeError")
  | some (.xml _) => .error (.value S!"style map given as xml")

structure ApiOut where
  value : Str
  messages : List Str
  nodes : List Node
  document : Document
  ioTrace : List IoOp
  imageCalls : List ImageProps
deriving Inhabited

def archiveBytes (p : Package) : List (Str × Bytes) :=
  p.parts.filterMap fun (n, part) => match part with | .bytes b => some (n, b) | .xml _ => none

def writeWith (f : Format) (ns : List Node) : Str :=
  match f with
  | .html => writeHtml ns
  | .markdown => writeMarkdown ns

/-- `mammoth.convert(fileobj, **options)` with `transform_document` a function parameter -/
def apiConvert (p : Package) (fuel : Nat) (base : Option Str) (world : Str → Option Bytes)
    (transform : Document → Document) (o : Options) : Except Err ApiOut := do
  let embedded ← if o.includeEmbedded then readEmbeddedStyleMap p else pure none
  let (styleMap, optMsgs) := readOptions o.styleMap embedded o.includeDefault
  let (doc, readMsgs) ← readPackage p fuel
  let doc := transform doc
  let cfg : Cfg := { styleMap := styleMap, idPrefix := o.idPrefix.getD [], ignoreEmpty := o.ignoreEmpty,
                     imageConv := o.imageConv, archive := archiveBytes p, base := base, world := world }
  let r ← convertDoc cfg doc
  pure { value := writeWith o.format (collapse (stripEmpty r.nodes)),
         messages := unique (optMsgs ++ readMsgs ++ r.messages),
         nodes := r.nodes, document := doc, ioTrace := r.ioTrace, imageCalls := r.imageCalls }

/-- `mammoth.extract_raw_text(fileobj)` -/
def apiRawText (p : Package) (fuel : Nat) : Except Err (Str × List Str) := do
  let (doc, msgs) ← readPackage p fuel
  pure (rawTextDoc doc, unique msgs)

end Mammoth
