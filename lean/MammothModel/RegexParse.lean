/-
  RegexParse.lean — from the SOURCE TEXT of a regular expression to the `C07Regex` value that the
  cost model of MammothModel/Regex.lean runs, and the tokeniser of
  mammoth/styles/parser/tokeniser.py as the code runs it: at every position the rules of
  `Generated.tokenRules` (regenerated from the source on every run) are tried in order with
  `regex.match(value, index)`, the first match wins.

  The parser covers the fragment of Python's `re` syntax (str patterns, no flags) that the
  library uses, and a little more so that harmless respellings still parse:
    literal characters, `.`, escaped punctuation (= the literal), `\n \t \r \f \v \a`,
    `\s` (Unicode white space: exactly the code points of `str.isspace`, the set `isSpace` of
    Basic.lean), `\d` (Unicode decimal digits, category Nd of Unicode 15.0 = CPython 3.12),
    classes `[...]` / `[^...]` with ranges and escapes, groups `(?:...)` and `(...)`
    (a capturing group matches and costs the same), ordered alternation `|`, greedy postfix
    `*`, `+` (of something that cannot match the empty string), `?`.
  Everything else (anchors, `{m,n}`, lazy and possessive operators, look-around, back-references,
  `\w \b \S \D ...`, inline flags, a class that starts with `]`) gives `none`; so does everything
  that `re.compile` rejects (nothing to repeat, multiple repeat, bad range, unbalanced parentheses,
  a trailing backslash).
-/
import MammothModel.Regex
import MammothModel.Dsl
import MammothModel.Generated
namespace Mammoth

/-! ### tables -/

/-- `\s` of a `str` pattern: `Py_UNICODE_ISSPACE`, as inclusive ranges.  The same set as `isSpace`
    (`c07_wsRanges_isSpace` in Proofs/C07_RegexParse.lean). -/
def c07_wsRanges : List (Char × Char) :=
  [('\t', '\r'), ('\x1c', ' '), ('\u0085', '\u0085'), ('\u00a0', '\u00a0'), ('\u1680', '\u1680'),
   ('\u2000', '\u200a'), ('\u2028', '\u2029'), ('\u202f', '\u202f'), ('\u205f', '\u205f'),
   ('\u3000', '\u3000')]

/-- `\d` of a `str` pattern: `Py_UNICODE_ISDECIMAL`, Unicode 15.0 (CPython 3.12) -/
def c07_digitRangesNat : List (Nat × Nat) := [
  (0x0030, 0x0039), (0x0660, 0x0669), (0x06F0, 0x06F9), (0x07C0, 0x07C9), (0x0966, 0x096F), (0x09E6, 0x09EF), (0x0A66, 0x0A6F), (0x0AE6, 0x0AEF),
  (0x0B66, 0x0B6F), (0x0BE6, 0x0BEF), (0x0C66, 0x0C6F), (0x0CE6, 0x0CEF), (0x0D66, 0x0D6F), (0x0DE6, 0x0DEF), (0x0E50, 0x0E59), (0x0ED0, 0x0ED9),
  (0x0F20, 0x0F29), (0x1040, 0x1049), (0x1090, 0x1099), (0x17E0, 0x17E9), (0x1810, 0x1819), (0x1946, 0x194F), (0x19D0, 0x19D9), (0x1A80, 0x1A89),
  (0x1A90, 0x1A99), (0x1B50, 0x1B59), (0x1BB0, 0x1BB9), (0x1C40, 0x1C49), (0x1C50, 0x1C59), (0xA620, 0xA629), (0xA8D0, 0xA8D9), (0xA900, 0xA909),
  (0xA9D0, 0xA9D9), (0xA9F0, 0xA9F9), (0xAA50, 0xAA59), (0xABF0, 0xABF9), (0xFF10, 0xFF19), (0x104A0, 0x104A9), (0x10D30, 0x10D39), (0x11066, 0x1106F),
  (0x110F0, 0x110F9), (0x11136, 0x1113F), (0x111D0, 0x111D9), (0x112F0, 0x112F9), (0x11450, 0x11459), (0x114D0, 0x114D9), (0x11650, 0x11659), (0x116C0, 0x116C9),
  (0x11730, 0x11739), (0x118E0, 0x118E9), (0x11950, 0x11959), (0x11C50, 0x11C59), (0x11D50, 0x11D59), (0x11DA0, 0x11DA9), (0x11F50, 0x11F59), (0x16A60, 0x16A69),
  (0x16AC0, 0x16AC9), (0x16B50, 0x16B59), (0x1D7CE, 0x1D7FF), (0x1E140, 0x1E149), (0x1E2F0, 0x1E2F9), (0x1E4F0, 0x1E4F9), (0x1E950, 0x1E959), (0x1FBF0, 0x1FBF9)]

def c07_digitRanges : List (Char × Char) :=
  c07_digitRangesNat.map fun p => (Char.ofNat p.1, Char.ofNat p.2)

/-! ### escapes -/

/-- what a backslash escape stands for -/
inductive C07Esc where
  | lit (c : Char)                    -- one character
  | ranges (rs : List (Char × Char))  -- a category (`\s`, `\d`)
deriving DecidableEq, Repr

def c07_isAsciiAlnum (c : Char) : Bool :=
  let n := c.toNat
  (48 ≤ n && n ≤ 57) || (65 ≤ n && n ≤ 90) || (97 ≤ n && n ≤ 122)

/-- the character after the backslash.  Escaped ASCII letters and digits other than the ones listed
    are either errors of `re.compile` or outside the fragment; everything else stands for itself. -/
def c07_escape (e : Char) : Option C07Esc :=
  if e == 's' then some (.ranges c07_wsRanges)
  else if e == 'd' then some (.ranges c07_digitRanges)
  else if e == 'n' then some (.lit '\n')
  else if e == 't' then some (.lit '\t')
  else if e == 'r' then some (.lit '\r')
  else if e == 'f' then some (.lit '\x0c')
  else if e == 'v' then some (.lit '\x0b')
  else if e == 'a' then some (.lit '\x07')
  else if c07_isAsciiAlnum e then none
  else some (.lit e)

/-! ### character classes -/

/-- one member of a class: a character, or an escape (which needs the character after it) -/
def c07_classAtom (c : Char) (rest : Str) : Option (C07Esc × Str) :=
  if c == '\\' then
    match rest with
    | e :: rest' => (c07_escape e).map fun x => (x, rest')
    | [] => none
  else some (.lit c, rest)

/-- the inside of `[...]` after the optional `^`, up to and including the closing bracket:
    the ranges in the order written, and what follows the class.  As in `sre_parse`: a member is
    `x`, `x-y` (with `x ≤ y`), or a category; a `-` before the closing bracket is a literal. -/
def c07_parseClass : Nat → Str → List (Char × Char) → Option (List (Char × Char) × Str)
  | 0, _, _ => none
  | _+1, [], _ => none
  | f+1, c :: rest, acc =>
    if c == ']' then (if acc.isEmpty then none else some (acc, rest))
    else
      match c07_classAtom c rest with
      | none => none
      | some (.ranges rs, rest1) =>
        (match rest1 with
         | '-' :: ']' :: _ => c07_parseClass f rest1 (acc ++ rs)
         | '-' :: _ => none
         | _ => c07_parseClass f rest1 (acc ++ rs))
      | some (.lit lo, rest1) =>
        (match rest1 with
         | '-' :: ']' :: _ => c07_parseClass f rest1 (acc ++ [(lo, lo)])
         | '-' :: d :: rest2 =>
           (match c07_classAtom d rest2 with
            | some (.lit hi, rest3) =>
              if lo.toNat ≤ hi.toNat then c07_parseClass f rest3 (acc ++ [(lo, hi)]) else none
            | _ => none)
         | _ => c07_parseClass f rest1 (acc ++ [(lo, lo)]))

/-! ### the expression -/

/-- `a b c` : sequences nest to the right; a sequence of one item is the item -/
def c07_mkSeq : List C07Regex → C07Regex
  | [] => .eps
  | [a] => a
  | a :: rest => .seq a (c07_mkSeq rest)

/-- `a|b|c` : ordered, nests to the right -/
def c07_mkAlt : List C07Regex → C07Regex
  | [] => .eps
  | [a] => a
  | a :: rest => .alt a (c07_mkAlt rest)

/-- `a?` : try `a`, else nothing -/
def C07Regex.opt (a : C07Regex) : C07Regex := .alt a .eps

/-- can match the empty string.  The loop of the cost model CUTS an iteration that consumes nothing
    (and backtracks into the body), while `sre` leaves the loop there and goes on with what follows
    the loop: the two differ when the body of a repetition can match the empty string (for instance
    `(?:|a)*` on `"a"`: 0 characters in `sre`, 1 in the model).  No regex of the library is like that,
    and the parser refuses such a repetition, so inside the fragment the two agree. -/
def C07Regex.nullable : C07Regex → Bool
  | .eps => true
  | .chr _ => false
  | .seq a b => a.nullable && b.nullable
  | .alt a b => a.nullable || b.nullable
  | .star _ => true

/-- an open group (or the top level) while it is being read -/
structure C07Frame where
  alts : List C07Regex := []      -- the finished alternatives, most recent first
  items : List C07Regex := []     -- the items of the alternative being read, most recent first
  quant : Bool := false           -- the last item may take a postfix operator
deriving Repr

def C07Frame.close (f : C07Frame) : C07Regex :=
  c07_mkAlt ((c07_mkSeq f.items.reverse :: f.alts).reverse)

def C07Frame.push (f : C07Frame) (r : C07Regex) : C07Frame :=
  { f with items := r :: f.items, quant := true }

def C07Frame.bar (f : C07Frame) : C07Frame :=
  { alts := c07_mkSeq f.items.reverse :: f.alts, items := [], quant := false }

/-- apply a postfix operator to the last item; `none` when there is nothing to repeat or the last
    item already has an operator (`a**` is an error, `a*?` and `a*+` are outside the fragment), and
    for a repetition (`loop`) when the item can match the empty string (see `C07Regex.nullable`) -/
def C07Frame.postfix (f : C07Frame) (loop : Bool) (op : C07Regex → C07Regex) : Option C07Frame :=
  if f.quant then
    match f.items with
    | a :: rest =>
      if loop && a.nullable then none else some { f with items := op a :: rest, quant := false }
    | [] => none
  else none

/-- one pass over the pattern with a stack of open groups; every step consumes at least one
    character, so `length + 1` steps are enough -/
def c07_parseGo : Nat → Str → C07Frame → List C07Frame → Option C07Regex
  | 0, _, _, _ => none
  | _+1, [], cur, [] => some cur.close
  | _+1, [], _, _ :: _ => none
  | f+1, c :: rest, cur, stack =>
    if c == '(' then
      (match rest with
       | '?' :: ':' :: rest' => c07_parseGo f rest' {} (cur :: stack)
       | '?' :: _ => none
       | _ => c07_parseGo f rest {} (cur :: stack))
    else if c == ')' then
      (match stack with
       | [] => none
       | p :: st => c07_parseGo f rest (p.push cur.close) st)
    else if c == '|' then c07_parseGo f rest cur.bar stack
    else if c == '*' then
      (match cur.postfix true .star with
       | some cur' => c07_parseGo f rest cur' stack
       | none => none)
    else if c == '+' then
      (match cur.postfix true C07Regex.plus with
       | some cur' => c07_parseGo f rest cur' stack
       | none => none)
    else if c == '?' then
      (match cur.postfix false C07Regex.opt with
       | some cur' => c07_parseGo f rest cur' stack
       | none => none)
    else if c == '[' then
      (match rest with
       | '^' :: rest' =>
         (match c07_parseClass (rest'.length + 1) rest' [] with
          | some (rs, rest'') => c07_parseGo f rest'' (cur.push (.chr (.nset rs))) stack
          | none => none)
       | _ =>
         (match c07_parseClass (rest.length + 1) rest [] with
          | some (rs, rest'') => c07_parseGo f rest'' (cur.push (.chr (.set rs))) stack
          | none => none))
    else if c == '\\' then
      (match rest with
       | e :: rest' =>
         (match c07_escape e with
          | some (.lit x) => c07_parseGo f rest' (cur.push (.chr (.lit x))) stack
          | some (.ranges rs) => c07_parseGo f rest' (cur.push (.chr (.set rs))) stack
          | none => none)
       | [] => none)
    else if c == '.' then c07_parseGo f rest (cur.push (.chr .any)) stack
    else if c == '^' || c == '$' || c == '{' || c == '}' then none
    else c07_parseGo f rest (cur.push (.chr (.lit c))) stack

/-- `re.compile(source)` as a value of the cost model; `none` = outside the fragment -/
def c07_parseRegex (source : Str) : Option C07Regex :=
  c07_parseGo (source.length + 1) source {} []

/-! ### the hand-written values of the remaining rules of the tokeniser -/

/-- SYMBOL: `:|>|=>|\^=|=|\(|\)|\[|\]|\||!|\.` -/
def c07_symbolRule : C07Regex :=
  .alt (.chr (.lit ':')) (.alt (.chr (.lit '>')) (.alt (.seq (.chr (.lit '=')) (.chr (.lit '>')))
  (.alt (.seq (.chr (.lit '^')) (.chr (.lit '='))) (.alt (.chr (.lit '=')) (.alt (.chr (.lit '('))
  (.alt (.chr (.lit ')')) (.alt (.chr (.lit '[')) (.alt (.chr (.lit ']')) (.alt (.chr (.lit '|'))
  (.alt (.chr (.lit '!')) (.chr (.lit '.'))))))))))))

/-- `\s` -/
def c07_ccSpace : C07Class := .set c07_wsRanges
/-- WHITESPACE: `\s+` -/
def c07_wsRule : C07Regex := C07Regex.plus (.chr c07_ccSpace)
/-- the catch-all rule appended by `regex_tokeniser`: `.` -/
def c07_unknownRule : C07Regex := .chr .any

/-- the seven rules in the order in which `regex_tokeniser` tries them -/
def c07_handRules : List (TokTy × C07Regex) :=
  [(.identifier, c07_identRule), (.symbol, c07_symbolRule), (.whitespace, c07_wsRule),
   (.string, c07_stringRuleNew), (.unterminated, c07_unterminatedRule), (.integer, c07_intRule),
   (.unknown, c07_unknownRule)]

/-! ### the tokeniser driven by the regexes of the source -/

/-- the `TokenType` constants (and `"unknown"`) -/
def c07_tokTyOfName (n : Str) : Option TokTy :=
  if n == S!"identifier" then some .identifier
  else if n == S!"symbol" then some .symbol
  else if n == S!"whitespace" then some .whitespace
  else if n == S!"string" then some .string
  else if n == S!"unterminated string" then some .unterminated
  else if n == S!"integer" then some .integer
  else if n == S!"unknown" then some .unknown
  else none

/-- compile every rule; `none` if a name or a regex is not understood -/
def c07_compileRules : List (Str × Str) → Option (List (TokTy × C07Regex))
  | [] => some []
  | (n, src) :: rest =>
    match c07_tokTyOfName n, c07_parseRegex src, c07_compileRules rest with
    | some ty, some r, some rs => some ((ty, r) :: rs)
    | _, _, _ => none

/-- the rules of tokeniser.py as they are today -/
def c07_rxRules : Option (List (TokTy × C07Regex)) := c07_compileRules Generated.tokenRules

/-- `for token_type, regex in rules: match = regex.match(value, index); if match is not None: ...
    break` — the steps spent (failed attempts included) and the first success: the token, whose
    value is the matched prefix `match.group(0)`, and what is left after `match.end()` -/
def c07_firstMatch : List (TokTy × C07Regex) → Str → Nat × Option (Token × Str)
  | [], _ => (0, none)
  | (ty, r) :: rest, s =>
    match r.exec s with
    | (n, some s') => (n, some (⟨ty, s.take (s.length - s'.length)⟩, s'))
    | (n, none) => let p := c07_firstMatch rest s; (n + p.1, p.2)

/-- `while index < len(value): ...; tokens.append(END)` : (total steps, tokens).  `none` = the
    "Should be impossible" exception, or the fuel ran out (a rule matched the empty string: the
    real loop would never end). -/
def c07_tokeniseRxFuel (rules : List (TokTy × C07Regex)) : Nat → Str → Nat × Option (List Token)
  | _, [] => (0, some [⟨.end, []⟩])
  | 0, _ :: _ => (0, none)
  | f+1, c :: cs =>
    match c07_firstMatch rules (c :: cs) with
    | (n, some (t, r)) =>
      let p := c07_tokeniseRxFuel rules f r
      (n + p.1, p.2.map (t :: ·))
    | (n, none) => (n, none)

def c07_tokeniseRxWith (rules : List (TokTy × C07Regex)) (s : Str) : Nat × Option (List Token) :=
  c07_tokeniseRxFuel rules (s.length + 1) s

/-- `tokenise(value)` of tokeniser.py, run with the regexes extracted from it -/
def c07_tokeniseRx (s : Str) : Option (List Token) :=
  match c07_rxRules with
  | some rules => (c07_tokeniseRxWith rules s).2
  | none => none

/-- the steps of all the match attempts `tokenise(value)` makes (`none` only if a rule is outside
    the fragment of the parser) -/
def c07_tokeniseRxCost (s : Str) : Option Nat :=
  match c07_rxRules with
  | some rules => some (c07_tokeniseRxWith rules s).1
  | none => none

end Mammoth
