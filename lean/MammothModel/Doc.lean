/-
  Doc.lean — model of mammoth/documents.py, document_matchers.py, html_paths.py, styles.
  Fields that never influence any output (alignment, indent, font, font size) are omitted.
-/
import MammothModel.Html
namespace Mammoth

abbrev Bytes := List UInt8

/-- `documents._NumberingLevel`: `level_index` is a *string*. -/
structure NumLevel where
  levelIndex : Str
  isOrdered : Bool
deriving DecidableEq, Repr, Inhabited

structure ParaProps where
  styleId : Option Str := none
  styleName : Option Str := none
  numbering : Option NumLevel := none
deriving DecidableEq, Repr, Inhabited

structure RunProps where
  styleId : Option Str := none
  styleName : Option Str := none
  bold : Bool := false
  italic : Bool := false
  underline : Bool := false
  strike : Bool := false
  allCaps : Bool := false
  smallCaps : Bool := false
  vertAlign : Option Str := none     -- raw `w:vertAlign/@w:val`
  highlight : Option Str := none
deriving DecidableEq, Repr, Inhabited

structure LinkProps where
  href : Option Str := none
  anchor : Option Str := none
  targetFrame : Option Str := none
deriving DecidableEq, Repr, Inhabited

/-- `Image.open` as data: which bytes it would read. -/
inductive ImageSrc where
  | embedded (zipName : Str)
  | linked (uri : Str)
deriving DecidableEq, Repr, Inhabited

structure ImageProps where
  altText : Option Str := none
  contentType : Option Str := none
  src : ImageSrc
deriving DecidableEq, Repr, Inhabited

inductive Elem where
  | paragraph (p : ParaProps) (cs : List Elem)
  | run (r : RunProps) (cs : List Elem)
  | text (s : Str)
  | hyperlink (h : LinkProps) (cs : List Elem)
  | checkbox (checked : Bool)
  | table (styleId styleName : Option Str) (rows : List Elem)
  | row (isHeader : Bool) (cells : List Elem)
  | cell (colspan rowspan : Nat) (vmerge : Bool) (cs : List Elem)
  | brk (ty : Str)
  | tab
  | image (i : ImageProps)
  | bookmark (name : Option Str)
  | noteRef (ty id : Str)
  | commentRef (id : Str)
deriving Repr, Inhabited

structure Note where
  ty : Str
  id : Str
  body : List Elem
deriving Repr, Inhabited

structure Comment where
  id : Str
  body : List Elem
  authorName : Option Str := none
  authorInitials : Option Str := none
deriving Repr, Inhabited

structure Document where
  children : List Elem
  notes : List Note := []
  comments : List Comment := []
deriving Repr, Inhabited

/-! ### matchers and paths -/

inductive StrMatch where
  | equalTo (v : Str)
  | startsWith (v : Str)
deriving DecidableEq, Repr, Inhabited

inductive Matcher where
  | paragraph (styleId : Option Str) (styleName : Option StrMatch) (numbering : Option NumLevel)
  | run (styleId : Option Str) (styleName : Option StrMatch)
  | table (styleId : Option Str) (styleName : Option StrMatch)
  | bold | italic | underline | strikethrough | allCaps | smallCaps
  | highlight (color : Option Str)
  | commentReference
  | brk (ty : Str)
deriving DecidableEq, Repr, Inhabited

inductive HtmlPath where
  | elements (es : List Tag)
  | ignore
deriving DecidableEq, Repr, Inhabited

structure Style where
  matcher : Matcher
  path : HtmlPath
deriving DecidableEq, Repr, Inhabited

/-- what `_find_style(element, element_type)` is asked about -/
inductive Target where
  | paragraph (p : ParaProps)
  | run (styleId styleName : Option Str)
  | table (styleId styleName : Option Str)
  | bold | italic | underline | strikethrough | allCaps | smallCaps
  | highlight (color : Str)
  | commentReference
  | brk (ty : Str)
deriving DecidableEq, Repr, Inhabited

/-- `StringMatcher.matches(other)` with `str.upper` a parameter -/
def StrMatch.matches (upper : Str → Str) : StrMatch → Str → Bool
  | .equalTo v, other => upper v == upper other
  | .startsWith v, other => Mammoth.startsWith (upper other) (upper v)

def optEqOrNone (m : Option Str) (e : Option Str) : Bool :=
  match m with
  | none => true
  | some v => e == some v

def nameMatches (upper : Str → Str) (m : Option StrMatch) (e : Option Str) : Bool :=
  match m with
  | none => true
  | some sm => match e with
    | none => false
    | some n => sm.matches upper n

/-- `_document_matcher_matches` -/
def matcherMatches (upper : Str → Str) : Matcher → Target → Bool
  | .paragraph sid sname num, .paragraph p =>
      optEqOrNone sid p.styleId && nameMatches upper sname p.styleName &&
      (match num with | none => true | some n => p.numbering == some n)
  | .run sid sname, .run esid esname => optEqOrNone sid esid && nameMatches upper sname esname
  | .table sid sname, .table esid esname => optEqOrNone sid esid && nameMatches upper sname esname
  | .bold, .bold => true
  | .italic, .italic => true
  | .underline, .underline => true
  | .strikethrough, .strikethrough => true
  | .allCaps, .allCaps => true
  | .smallCaps, .smallCaps => true
  | .commentReference, .commentReference => true
  | .highlight c, .highlight ec => (match c with | none => true | some v => v == ec)
  | .brk ty, .brk ety => ty == ety
  | _, _ => false

/-- `_find_style`: linear scan, first match -/
def findStyle (upper : Str → Str) (sm : List Style) (t : Target) : Option Style :=
  sm.find? (fun s => matcherMatches upper s.matcher t)

/-- `HtmlPath.wrap` on already generated nodes: innermost element last -/
def wrapElems : List Tag → List Node → List Node
  | [], ns => ns
  | t :: ts, ns => [.elem t (wrapElems ts ns)]

/-- `html_paths.element(names, fresh=…)` with no attributes -/
def pathElem (name : Str) (fresh : Bool) : Tag :=
  { name := name, collapsible := !fresh }

end Mammoth
