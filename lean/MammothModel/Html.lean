/-
  Html.lean — model of mammoth/html/nodes.py, mammoth/html/__init__.py and
  mammoth/writers/html.py.
-/
import MammothModel.Basic
import MammothModel.Generated
namespace Mammoth

/-- `html.nodes.Tag`.  `tag_names = name :: alts` (never empty in the library: the
    parser and every literal call site supply at least one name). -/
structure Tag where
  name : Str
  alts : List Str := []
  attrs : Dict Str := []
  collapsible : Bool := false
  separator : Option Str := none
deriving DecidableEq, Repr, Inhabited

def Tag.names (t : Tag) : List Str := t.name :: t.alts

inductive Node where
  | text (s : Str)
  | forceWrite
  | elem (t : Tag) (children : List Node)
deriving Repr, Inhabited

/-- `Element._VOID_TAG_NAMES`, as extracted from html/nodes.py -/
def voidNames : List Str := Generated.voidTagNames

/-- `Element.is_void()` : no children and a void tag name. -/
def isVoid (t : Tag) (cs : List Node) : Bool := cs.isEmpty && voidNames.contains t.name

/-! ### strip_empty -/
mutual
def stripNode : Node → List Node
  | .text s => if s.isEmpty then [] else [.text s]
  | .forceWrite => [.forceWrite]
  | .elem t cs =>
    let cs' := stripList cs
    -- `element.is_void()` looks at the *original* children
    if cs'.isEmpty && !isVoid t cs then [] else [.elem t cs']
def stripList : List Node → List Node
  | [] => []
  | c :: cs => stripNode c ++ stripList cs
end

def stripEmpty (ns : List Node) : List Node := stripList ns

/-! ### collapse -/

/-- `if node.separator: last.children.append(text(node.separator))` — Python truthiness:
    an empty separator adds nothing. -/
def sepText (t : Tag) : List Node :=
  match t.separator with
  | some s => if s.isEmpty then [] else [.text s]
  | none => []

/-- `_is_match(first, second)` -/
def isMatch (first second : Tag) : Bool :=
  second.names.contains first.name && first.attrs == second.attrs

mutual
/-- add an *already collapsed* node to an already collapsed sibling list -/
def addC (acc : List Node) : Node → List Node
  | .elem t cs =>
    match acc.getLast? with
    | some (.elem lt lcs) =>
      if t.collapsible && isMatch lt t then
        acc.dropLast ++ [.elem lt (addAllC (lcs ++ sepText t) cs)]
      else acc ++ [.elem t cs]
    | _ => acc ++ [.elem t cs]
  | n => acc ++ [n]
def addAllC (acc : List Node) : List Node → List Node
  | [] => acc
  | c :: cs => addAllC (addC acc c) cs
end

mutual
def collapseNode : Node → Node
  | .elem t cs => .elem t (collapseFrom [] cs)
  | n => n
def collapseFrom (acc : List Node) : List Node → List Node
  | [] => acc
  | c :: cs => collapseFrom (addC acc (collapseNode c)) cs
end

def collapse (ns : List Node) : List Node := collapseFrom [] ns

/-! #### the literal algorithm of the Python code (re-collapses children on merge); fuelled -/
mutual
def collapseNodePy : Nat → Node → Node
  | 0, n => n
  | f+1, .elem t cs => .elem t (collapseAllPy f [] cs)
  | _+1, n => n
def addPy : Nat → List Node → Node → List Node
  | 0, acc, n => acc ++ [n]
  | f+1, acc, n =>
    match collapseNodePy f n with
    | .elem t cs =>
      match acc.getLast? with
      | some (.elem lt lcs) =>
        if t.collapsible && isMatch lt t then
          acc.dropLast ++ [.elem lt (collapseAllPy f (lcs ++ sepText t) cs)]
        else acc ++ [.elem t cs]
      | _ => acc ++ [.elem t cs]
    | n' => acc ++ [n']
def collapseAllPy : Nat → List Node → List Node → List Node
  | 0, acc, ns => acc ++ ns
  | _, acc, [] => acc
  | f+1, acc, c :: cs => collapseAllPy (f+1) (addPy f acc c) cs
end

/-! ### the HTML writer -/

def lookupChar (c : Char) : List (Char × Str) → Option Str
  | [] => none
  | (k, v) :: rest => if c == k then some v else lookupChar c rest

/-- `_escape_html` on one character: the table is what `xml.sax.saxutils.escape(text, {'"': "&quot;"})`
    does today to each character (extracted behaviourally; `escape` is a sequence of `str.replace`
    calls whose replacement texts contain no character that a later replacement rewrites, so it
    acts character by character — checked by the correspondence on whole strings). -/
def escapeChar (c : Char) : Str := (lookupChar c Generated.escapeTable).getD [c]

def escape : Str → Str
  | [] => []
  | c :: cs => escapeChar c ++ escape cs

/-- `_generate_attribute_string`: keys in sorted order (the `Dict` invariant). -/
def attrString : Dict Str → Str
  | [] => []
  | (k, v) :: rest => [' '] ++ k ++ S!"=\"" ++ escape v ++ ['"'] ++ attrString rest

mutual
def writeNode : Node → Str
  | .text s => escape s
  | .forceWrite => []
  | .elem t cs =>
    if isVoid t cs then ['<'] ++ t.name ++ attrString t.attrs ++ S!" />"
    else ['<'] ++ t.name ++ attrString t.attrs ++ ['>'] ++ writeList cs ++ S!"</" ++ t.name ++ ['>']
def writeList : List Node → Str
  | [] => []
  | c :: cs => writeNode c ++ writeList cs
end

def writeHtml (ns : List Node) : Str := writeList ns

def render (ns : List Node) : Str := writeHtml (collapse (stripEmpty ns))

/-! ### text content -/
mutual
def textOf : Node → Str
  | .text s => s
  | .forceWrite => []
  | .elem _ cs => textOfL cs
def textOfL : List Node → Str
  | [] => []
  | c :: cs => textOf c ++ textOfL cs
end

end Mammoth
