/-
  Cli.lean — model of mammoth/cli.py (`main`, `ImageWriter`, `_write_output`) on a POSIX system.

  The library call itself (`mammoth.convert`) is not re-modelled here: `cliRun` takes what the
  library returns (`value`, `messages`) and the images handed to the image converter, in call
  (= document) order, as `(content_type, bytes)` pairs, and says what the command writes where.
-/
import MammothModel.Embed
namespace Mammoth

structure CliArgs where
  path : Str
  output : Option Str := none
  outputDir : Option Str := none
  format : Option Str := none
  /-- the TEXT of the `--style-map` file (already read) -/
  styleMap : Option Str := none
deriving Repr, Inhabited, DecidableEq

/-- `output-path` and `--output-dir` form a mutually exclusive argparse group -/
def CliArgs.valid (a : CliArgs) : Bool := !(a.output.isSome && a.outputDir.isSome)

/-- `s.rfind(c) + 1` : the index just after the last `c`, `0` if there is none -/
def rfindNext (c : Char) : Str → Nat
  | [] => 0
  | x :: xs =>
    let r := rfindNext c xs
    if r ≠ 0 then r + 1 else if x == c then 1 else 0

/-- `posixpath.basename` -/
def basename (p : Str) : Str := p.drop (rfindNext '/' p)

/-- `posixpath.splitext` (`genericpath._splitext(p, '/', None, '.')`): the extension starts at the
    last dot of the last path component, unless that component consists of leading dots only up to
    there (".hidden" has no extension). -/
def splitext (p : Str) : Str × Str :=
  let sepNext := rfindNext '/' p
  let dotNext := rfindNext '.' p
  if dotNext > sepNext then
    let dotIndex := dotNext - 1
    if ((p.take dotIndex).drop sepNext).any (· != '.') then (p.take dotIndex, p.drop dotIndex)
    else (p, [])
  else (p, [])

/-- `posixpath.join(a, b)` -/
def posixJoin (a b : Str) : Str :=
  if startsWith b ['/'] then b
  else if a.isEmpty || a.getLast? == some '/' then a ++ b
  else a ++ ['/'] ++ b

/-- `s.partition(c)[2]` : what follows the first `c` ("" if there is none) -/
def afterFirst (c : Char) : Str → Str
  | [] => []
  | x :: xs => if x == c then xs else afterFirst c xs

/-- the image file extension: `content_type.partition("/")[2]` -/
def imageSubtype (contentType : Str) : Str := afterFirst '/' contentType

/-- one call of `ImageWriter.__call__` with counter `n`: the file name `"{n}.{subtype}"` (which is
    also the returned `src`) and the new counter.  The file `join(output_dir, name)` receives
    exactly `bytes`. -/
def imageWriterStep (n : Nat) (contentType : Str) (_bytes : Bytes) : Str × Nat :=
  (natToStr n ++ ['.'] ++ imageSubtype contentType, n + 1)

/-- all calls of one `ImageWriter`, starting with counter `n`:
    (files written as (path, bytes), the `src` values returned, final counter) -/
def imageWriterRun (dir : Str) (n : Nat) : List (Str × Bytes) → List (Str × Bytes) × List Str × Nat
  | [] => ([], [], n)
  | (ct, bytes) :: rest =>
    let (name, n') := imageWriterStep n ct bytes
    let (files, srcs, final) := imageWriterRun dir n' rest
    ((posixJoin dir name, bytes) :: files, name :: srcs, final)

/-- the name of the HTML file in `--output-dir` mode:
    `"{0}.html".format(os.path.splitext(os.path.basename(path))[0])` -/
def cliOutputName (path : Str) : Str := (splitext (basename path)).1 ++ S!".html"

structure CliOut where
  /-- files written, in the order they are written: (path, bytes) -/
  files : List (Str × Bytes) := []
  stdout : Bytes := []
  /-- the text written to stderr -/
  stderrText : Str := []
  /-- the messages written to stderr (each followed by a newline) -/
  stderr : List Str := []
  /-- the `src` attribute returned for each image, in call order (`--output-dir` mode only) -/
  srcs : List Str := []
  exitCode : Nat := 0
deriving Repr, Inhabited, DecidableEq

/-- `for message in result.messages: sys.stderr.write(message.message); sys.stderr.write("\n")` -/
def stderrTextOf : List Str → Str
  | [] => []
  | m :: ms => m ++ ['\n'] ++ stderrTextOf ms

/-- `main()` given the library's result `(value, messages)` and the images in document order.
    With both `output-path` and `--output-dir` argparse exits with status 2 before anything is
    opened (its usage text on stderr is not modelled). -/
def cliRun (args : CliArgs) (value : Str) (messages : List Str) (images : List (Str × Bytes)) :
    CliOut :=
  if !args.valid then { exitCode := 2 }
  else
    match args.outputDir with
    | some dir =>
      let (imgFiles, srcs, _) := imageWriterRun dir 1 images
      { files := imgFiles ++ [(posixJoin dir (cliOutputName args.path), utf8Encode value)],
        stderrText := stderrTextOf messages, stderr := messages, srcs := srcs }
    | none =>
      match args.output with
      | some out =>
        { files := [(out, utf8Encode value)], stderrText := stderrTextOf messages,
          stderr := messages }
      | none =>
        { stdout := utf8Encode value, stderrText := stderrTextOf messages, stderr := messages }

/-! ### the two ways an `ImageWriter` call can go wrong

  * `content_type` is `None` (the reader found neither an `Override`, nor a `Default`, nor a known
    image extension): `None.partition` raises AttributeError, which nothing catches: the command
    dies with a traceback (exit status 1) before any message or output is written.
  * `element.open()` raises `InvalidFileReferenceError` (a linked image that cannot be read): the
    destination file `<n>.<subtype>` has ALREADY been created (empty) by `open(..., "wb")`; the
    counter is NOT advanced; the converter turns the error into a warning and emits no `<img>`.
-/

/-- all calls of one `ImageWriter` on images `(content_type or None, bytes or open-failure)`:
    (files written, `src`s returned, final counter, crashed) -/
def imageWriterRunO (dir : Str) (n : Nat) :
    List (Option Str × Option Bytes) → List (Str × Bytes) × List Str × Nat × Bool
  | [] => ([], [], n, false)
  | (none, _) :: _ => ([], [], n, true)
  | (some ct, none) :: rest =>
    let name := (imageWriterStep n ct []).1
    let (files, srcs, final, crashed) := imageWriterRunO dir n rest
    ((posixJoin dir name, []) :: files, srcs, final, crashed)
  | (some ct, some bytes) :: rest =>
    let (name, n') := imageWriterStep n ct bytes
    let (files, srcs, final, crashed) := imageWriterRunO dir n' rest
    ((posixJoin dir name, bytes) :: files, name :: srcs, final, crashed)

/-- `main()` with images that may lack a content type or fail to open (see above).  Without
    `--output-dir` the images are inlined by the library and the writer is not involved. -/
def cliRunO (args : CliArgs) (value : Str) (messages : List Str)
    (images : List (Option Str × Option Bytes)) : CliOut :=
  if !args.valid then { exitCode := 2 }
  else
    match args.outputDir with
    | some dir =>
      let (imgFiles, srcs, _, crashed) := imageWriterRunO dir 1 images
      if crashed then { files := imgFiles, srcs := srcs, exitCode := 1 }
      else
        { files := imgFiles ++ [(posixJoin dir (cliOutputName args.path), utf8Encode value)],
          stderrText := stderrTextOf messages, stderr := messages, srcs := srcs }
    | none => cliRun args value messages []

end Mammoth
