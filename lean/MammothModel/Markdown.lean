/-
  Markdown.lean — model of mammoth/writers/markdown.py driven by html.write.
-/
import MammothModel.Html
namespace Mammoth

structure MdList where
  ordered : Bool
  count : Nat
  indentation : Nat
deriving Repr, Inhabited

structure MdState where
  lists : List MdList := []          -- head = `list_state`, tail = `_list_state_stack` (minus the None)
  itemClosed : Bool := false         -- `list_item_has_closed`
deriving Repr, Inhabited

def mdSpecials : List Char := ['`', '*', '_', '{', '}', '[', ']', '(', ')', '#', '+', '-', '.', '!']

/-- `_escape_markdown` -/
def escapeMarkdown : Str → Str
  | [] => []
  | c :: cs =>
    if c == '\\' then '\\' :: '\\' :: escapeMarkdown cs
    else if mdSpecials.contains c then '\\' :: c :: escapeMarkdown cs
    else c :: escapeMarkdown cs

/-- `_write_anchor` -/
def mdAnchor (attrs : Dict Str) : Str :=
  match Dict.get? S!"id" attrs with
  | some i => if i.isEmpty then [] else S!"<a id=\"" ++ i ++ S!"\"></a>"
  | none => []

inductive MdEnd where
  | const (s : Str)
  | list (endText : Str)
  | item
deriving Repr, Inhabited

def replicateStr (n : Nat) (c : Char) : Str := List.replicate n c

/-- `_writers.get(name, _default_writer)(attributes, state)` : (start, end, anchor-before, state') -/
def mdStart (name : Str) (attrs : Dict Str) (st : MdState) : Str × MdEnd × Bool × MdState :=
  if name == S!"p" then ([], .const S!"\n\n", false, st)
  else if name == S!"br" then ([], .const S!"  \n", false, st)
  else if name == S!"strong" then (S!"__", .const S!"__", false, st)
  else if name == S!"em" then (S!"*", .const S!"*", false, st)
  else if name == S!"a" then
    let href := (Dict.get? S!"href" attrs).getD []
    if href.isEmpty then ([], .const [], false, st)
    else (S!"[", .const (S!"](" ++ href ++ S!")"), true, st)
  else if name == S!"img" then
    let src := (Dict.get? S!"src" attrs).getD []
    let alt := (Dict.get? S!"alt" attrs).getD []
    if src.isEmpty && alt.isEmpty then ([], .const [], false, st)
    else (S!"![" ++ alt ++ S!"](" ++ src ++ S!")", .const [], false, st)
  else if name == S!"ol" || name == S!"ul" then
    let ordered := name == S!"ol"
    match st.lists with
    | [] => ([], .list S!"\n", false, { st with lists := [⟨ordered, 0, 0⟩] })
    | cur :: _ => (S!"\n", .list [], false, { st with lists := ⟨ordered, 0, cur.indentation + 1⟩ :: st.lists })
  else if name == S!"li" then
    let (ls, lists') := match st.lists with
      | [] => ((⟨false, 1, 0⟩ : MdList), [])
      | cur :: rest => ({ cur with count := cur.count + 1 }, { cur with count := cur.count + 1 } :: rest)
    let bullet := if ls.ordered then natToStr ls.count ++ ['.'] else ['-']
    (replicateStr ls.indentation '\t' ++ bullet ++ [' '], .item, false, { lists := lists', itemClosed := false })
  else
    match name with
    | ['h', d] =>
      if '1'.toNat ≤ d.toNat && d.toNat ≤ '6'.toNat then
        (replicateStr (d.toNat - '0'.toNat) '#' ++ [' '], .const S!"\n\n", false, st)
      else ([], .const [], false, st)
    | _ => ([], .const [], false, st)

def mdEnd (e : MdEnd) (st : MdState) : Str × MdState :=
  match e with
  | .const s => (s, st)
  | .list t => (t, { st with lists := st.lists.drop 1 })
  | .item => if st.itemClosed then ([], st) else (['\n'], { st with itemClosed := true })

mutual
def mdNode (st : MdState) : Node → Str × MdState
  | .text s => (escapeMarkdown s, st)
  | .forceWrite => ([], st)
  | .elem t cs =>
    let (start, e, before, st1) := mdStart t.name t.attrs st
    let anchor := mdAnchor t.attrs
    let head := if before then anchor ++ start else start ++ anchor
    -- a void element is `self_closing`: start immediately followed by end
    let (body, st2) := if isVoid t cs then ([], st1) else mdList st1 cs
    let (tail, st3) := mdEnd e st2
    (head ++ body ++ tail, st3)
def mdList (st : MdState) : List Node → Str × MdState
  | [] => ([], st)
  | c :: cs =>
    let (a, st1) := mdNode st c
    let (b, st2) := mdList st1 cs
    (a ++ b, st2)
end

def writeMarkdown (ns : List Node) : Str := (mdList {} ns).1

end Mammoth
