/-
  Transforms.lean — model of mammoth/transforms.py.

  `documents.HasChildren` is the base class of Document, Paragraph, Run, Hyperlink, Table, TableRow
  and TableCell.  Note and Comment are NOT `HasChildren` (their content is the field `body`), and
  the traversal only follows `.children`: note bodies and comment bodies are never visited.
-/
import MammothModel.Doc
namespace Mammoth

/-- `isinstance(element, documents.HasChildren)` -/
def Elem.hasChildren : Elem → Bool
  | .paragraph _ _ => true
  | .run _ _ => true
  | .hyperlink _ _ => true
  | .table _ _ _ => true
  | .row _ _ => true
  | .cell _ _ _ _ => true
  | _ => false

/-- `element.children` (`[]` for the classes that have no such field) -/
def Elem.children : Elem → List Elem
  | .paragraph _ cs => cs
  | .run _ cs => cs
  | .hyperlink _ cs => cs
  | .table _ _ cs => cs
  | .row _ cs => cs
  | .cell _ _ _ cs => cs
  | _ => []

/-- `element.copy(children=cs)` for a `HasChildren`; the element itself otherwise -/
def Elem.withChildren : Elem → List Elem → Elem
  | .paragraph p _, cs => .paragraph p cs
  | .run r _, cs => .run r cs
  | .hyperlink h _, cs => .hyperlink h cs
  | .table a b _, cs => .table a b cs
  | .row h _, cs => .row h cs
  | .cell c r v _, cs => .cell c r v cs
  | e, _ => e

/-- `isinstance(element, documents.Paragraph)` -/
def isParagraph : Elem → Bool
  | .paragraph _ _ => true
  | _ => false

/-- `isinstance(element, documents.Run)` -/
def isRun : Elem → Bool
  | .run _ _ => true
  | _ => false

/-- `transform_element` of `element_of_type(T, f)`: `f(element)` if `isinstance(element, T)`, the
    element itself otherwise — in a monad `m`, so that a caller-supplied `f` with effects
    (Python callbacks may do anything) can be modelled. -/
def applyIfM {m : Type → Type} [Monad m] (isTarget : Elem → Bool) (f : Elem → m Elem) (e : Elem) : m Elem :=
  if isTarget e then f e else pure e

mutual
/-- `_each_element(transform_element)` = `transform_element_and_children`: children first (left to
    right, `list(map(…))`), the element is rebuilt with `copy(children=…)`, then the element
    transform is called on the REBUILT element. -/
def transformM {m : Type → Type} [Monad m] (isTarget : Elem → Bool) (f : Elem → m Elem) : Elem → m Elem
  | .paragraph p cs => do
    let cs' ← transformLM isTarget f cs
    applyIfM isTarget f (.paragraph p cs')
  | .run r cs => do
    let cs' ← transformLM isTarget f cs
    applyIfM isTarget f (.run r cs')
  | .hyperlink h cs => do
    let cs' ← transformLM isTarget f cs
    applyIfM isTarget f (.hyperlink h cs')
  | .table a b cs => do
    let cs' ← transformLM isTarget f cs
    applyIfM isTarget f (.table a b cs')
  | .row h cs => do
    let cs' ← transformLM isTarget f cs
    applyIfM isTarget f (.row h cs')
  | .cell c r v cs => do
    let cs' ← transformLM isTarget f cs
    applyIfM isTarget f (.cell c r v cs')
  | .text s => applyIfM isTarget f (.text s)
  | .checkbox b => applyIfM isTarget f (.checkbox b)
  | .brk t => applyIfM isTarget f (.brk t)
  | .tab => applyIfM isTarget f .tab
  | .image i => applyIfM isTarget f (.image i)
  | .bookmark n => applyIfM isTarget f (.bookmark n)
  | .noteRef t i => applyIfM isTarget f (.noteRef t i)
  | .commentRef i => applyIfM isTarget f (.commentRef i)
def transformLM {m : Type → Type} [Monad m] (isTarget : Elem → Bool) (f : Elem → m Elem) : List Elem → m (List Elem)
  | [] => pure []
  | c :: cs => do
    let c' ← transformM isTarget f c
    let cs' ← transformLM isTarget f cs
    pure (c' :: cs')
end

/-- the element transform for a pure `f` -/
def applyIf (isTarget : Elem → Bool) (f : Elem → Elem) (e : Elem) : Elem :=
  if isTarget e then f e else e

mutual
/-- `transform_element_and_children` for a pure `f` -/
def transform (isTarget : Elem → Bool) (f : Elem → Elem) : Elem → Elem
  | .paragraph p cs => applyIf isTarget f (.paragraph p (transformL isTarget f cs))
  | .run r cs => applyIf isTarget f (.run r (transformL isTarget f cs))
  | .hyperlink h cs => applyIf isTarget f (.hyperlink h (transformL isTarget f cs))
  | .table a b cs => applyIf isTarget f (.table a b (transformL isTarget f cs))
  | .row h cs => applyIf isTarget f (.row h (transformL isTarget f cs))
  | .cell c r v cs => applyIf isTarget f (.cell c r v (transformL isTarget f cs))
  | .text s => applyIf isTarget f (.text s)
  | .checkbox b => applyIf isTarget f (.checkbox b)
  | .brk t => applyIf isTarget f (.brk t)
  | .tab => applyIf isTarget f .tab
  | .image i => applyIf isTarget f (.image i)
  | .bookmark n => applyIf isTarget f (.bookmark n)
  | .noteRef t i => applyIf isTarget f (.noteRef t i)
  | .commentRef i => applyIf isTarget f (.commentRef i)
def transformL (isTarget : Elem → Bool) (f : Elem → Elem) : List Elem → List Elem
  | [] => []
  | c :: cs => transform isTarget f c :: transformL isTarget f cs
end

/-- the transform applied to the `Document` (what `transform_document=` receives): the document is a
    `HasChildren`, so its children (the body) are transformed and the document is rebuilt with
    `copy(children=…)`, which keeps `notes` and `comments` as they are; then the element transform
    is called on the document — `fd` (the identity for `transforms.paragraph` / `transforms.run`,
    because a Document is neither). -/
def transformDocWith (isTarget : Elem → Bool) (f : Elem → Elem) (fd : Document → Document)
    (d : Document) : Document :=
  fd { d with children := transformL isTarget f d.children }

/-- `transforms.paragraph(f)(document)` (with `isParagraph`), `transforms.run(f)(document)` (with `isRun`) -/
def transformDoc (isTarget : Elem → Bool) (f : Elem → Elem) (d : Document) : Document :=
  transformDocWith isTarget f id d

def transformParagraphs (f : Elem → Elem) : Document → Document := transformDoc isParagraph f
def transformRuns (f : Elem → Elem) : Document → Document := transformDoc isRun f

mutual
/-- `get_descendants(element)`: `_visit_descendants` appends each child AFTER that child's own
    descendants; the element itself is not included. -/
def descendants : Elem → List Elem
  | .paragraph _ cs => descendantsL cs
  | .run _ cs => descendantsL cs
  | .hyperlink _ cs => descendantsL cs
  | .table _ _ cs => descendantsL cs
  | .row _ cs => descendantsL cs
  | .cell _ _ _ cs => descendantsL cs
  | .text _ => []
  | .checkbox _ => []
  | .brk _ => []
  | .tab => []
  | .image _ => []
  | .bookmark _ => []
  | .noteRef _ _ => []
  | .commentRef _ => []
/-- the loop `for child in element.children: _visit_descendants(child, visit); visit(child)` -/
def descendantsL : List Elem → List Elem
  | [] => []
  | c :: cs => descendants c ++ c :: descendantsL cs
end

/-- `get_descendants(document)` -/
def descendantsDoc (d : Document) : List Elem := descendantsL d.children

/-- `get_descendants_of_type(element, T)` -/
def descendantsOfType (isType : Elem → Bool) (e : Elem) : List Elem := (descendants e).filter isType

def descendantsOfTypeDoc (isType : Elem → Bool) (d : Document) : List Elem := (descendantsDoc d).filter isType

end Mammoth
